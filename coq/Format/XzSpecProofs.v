(* Format/XzSpecProofs.v — C03_out: every file the XZ writer model produces (repaired code) is a
   valid .xz file according to the independent format specification Format/XzSpec.v and the
   specification decodes it to the data written: stream header, every block header (reserved bits,
   minimal multibyte integers, filter chain with LZMA2 exactly last), block padding, check, index
   records equal to the blocks' real unpadded and uncompressed sizes, backward size equal to the
   real index size, footer flags, nothing after the stream.  The payload/filter codecs are Section
   variables as in XzProofs.v; the specification's block decoder is assumed to invert them. *)
From LzVerif Require Import Base.Bytes Format.Crc Format.CrcProofs Format.Sha256 Format.Vli Format.VliProofs
  Format.XzFormat Format.XzSpec Format.XzSplitProofs Format.XzHeaderProofs Format.XzBlockHeaderProofs
  Format.XzIndexProofs Format.XzProofs Format.BitflipProofs.
Ltac Zify.zify_post_hook ::= Z.div_mod_to_equations.

Lemma s_take_app_n n a b : zlen a = n -> s_take n (a ++ b) = Some (a, b).
Proof.
  intros <-. unfold s_take. pose proof (zlen_nonneg a). rewrite zlen_app. pose proof (zlen_nonneg b).
  destruct (Z.ltb_spec (zlen a) 0); [lia|]. destruct (Z.ltb_spec (zlen a + zlen b) (zlen a)); [lia|]. cbn [orb].
  unfold zlen. rewrite Nat2Z.id, firstn_app, Nat.sub_diag, firstn_all, skipn_app, Nat.sub_diag, skipn_all.
  cbn [firstn skipn app]. rewrite app_nil_r. reflexivity.
Qed.

Lemma s_eqb_refl a : s_eqb a a = true.
Proof.
  unfold s_eqb. rewrite Z.eqb_refl. cbn [andb].
  induction a as [|x t IH]; [reflexivity|]. cbn [combine forallb fst snd]. rewrite Z.eqb_refl. exact IH.
Qed.

Lemma s_all_zero_zeros n : s_all_zero (repeatn 0 n) = true.
Proof. unfold s_all_zero. apply forallb_zeros. Qed.

Lemma s_pad4_eq n : s_pad4 n = pad4 n.
Proof. reflexivity. Qed.

(* the specification's multibyte integer on the writer's bytes *)
Lemma cont_byte_spec v : 0 <= v ->
  let b := Z.lor (v mod 256) 128 in b mod 128 = v mod 128 /\ 128 <= b < 256.
Proof.
  intros Hv b. destruct (cont_byte v Hv) as (C1 & C2 & C3). cbv zeta in C1, C2, C3. subst b. split; [|exact C3].
  rewrite <- C1. change 127 with (Z.ones 7). rewrite Z.land_ones by lia. reflexivity.
Qed.

Lemma s_vli_rt : forall k v room n tail i num,
  0 <= v < 128 ^ Z.of_nat (S k) -> (S k <= room)%nat -> (S k <= n)%nat -> 0 <= i -> (i = 0 \/ 0 < v) ->
  s_vli_loop n (vli_encode_loop room v ++ tail) i num = Some (num + v * 2 ^ (7 * i), tail).
Proof.
  induction k as [|k IH]; intros v room n tail i num Hv Hr Hn Hi Hnz;
    destruct room as [|room]; try lia; destruct n as [|n]; try lia; cbn [vli_encode_loop].
  - change (128 ^ Z.of_nat 1) with 128 in Hv. destruct (Z.leb_spec 128 v); [lia|].
    cbn [app s_vli_loop]. rewrite (Z.mod_small v 256) by lia.
    assert (E0 : (0 <? i) && (v =? 0) = false).
    { destruct Hnz as [->|Hp]; [reflexivity|]. destruct (Z.eqb_spec v 0); [lia|]. apply andb_false_r. }
    rewrite E0. rewrite (Z.mod_small v 128) by lia. destruct (Z.ltb_spec v 128); [|lia]. reflexivity.
  - rewrite pow128_succ in Hv. destruct (Z.leb_spec 128 v) as [Hge|Hlt].
    + cbn [app s_vli_loop]. destruct (cont_byte_spec v ltac:(lia)) as (C1 & C3). cbv zeta in C1, C3.
      assert (E0 : (0 <? i) && (Z.lor (v mod 256) 128 =? 0) = false).
      { destruct (Z.eqb_spec (Z.lor (v mod 256) 128) 0); [lia|]. apply andb_false_r. }
      rewrite E0, C1. destruct (Z.ltb_spec (Z.lor (v mod 256) 128) 128); [lia|].
      rewrite IH; try lia.
      f_equal. f_equal. replace (7 * (i + 1)) with (7 * i + 7) by lia. rewrite Z.pow_add_r by lia.
      change (2 ^ 7) with 128. lia.
    + cbn [app s_vli_loop]. rewrite (Z.mod_small v 256) by lia.
      assert (E0 : (0 <? i) && (v =? 0) = false).
      { destruct Hnz as [->|Hp]; [reflexivity|]. destruct (Z.eqb_spec v 0); [lia|]. apply andb_false_r. }
      rewrite E0. rewrite (Z.mod_small v 128) by lia. destruct (Z.ltb_spec v 128); [|lia]. reflexivity.
Qed.

Lemma s_vli_ok v tail : 0 <= v <= U63_MAX -> s_vli (vli_bytes v ++ tail) = Some (v, tail).
Proof.
  intros Hv. unfold s_vli, vli_bytes.
  rewrite (s_vli_rt 8 v 10 9 tail 0 0); try lia; [f_equal; f_equal; cbn; lia | rewrite <- u63_pow; lia].
Qed.

Lemma s_vli_single b tail : 0 <= b < 128 -> s_vli (b :: tail) = Some (b, tail).
Proof.
  intros Hb. unfold s_vli. cbn [s_vli_loop]. cbn [Z.ltb Z.compare andb].
  rewrite Z.mod_small by lia. destruct (Z.ltb_spec b 128); [|lia]. f_equal. f_equal. cbn. lia.
Qed.

(* the dictionary size the specification reads from the property byte = the reader's *)
Lemma s_lzma2_dict_eq p dd : 0 <= p <= 40 -> xz_decode_dict p = Ok dd -> s_lzma2_dict p = dd.
Proof.
  intros Hp Hd.
  assert (S : forallb (fun q => match xz_decode_dict q with Ok d => s_lzma2_dict q =? d | _ => false end)
                      (map Z.of_nat (seq 0 41)) = true) by (vm_compute; reflexivity).
  rewrite forallb_forall in S. specialize (S p).
  assert (In p (map Z.of_nat (seq 0 41))).
  { replace p with (Z.of_nat (Z.to_nat p)) by lia. apply in_map. apply in_seq. lia. }
  specialize (S H). rewrite Hd in S. apply Z.eqb_eq in S. exact S.
Qed.

(* the specification's view of a filter of the chain *)
Definition spec_filter (f : fkind * Z) : sfilter :=
  match fst f with
  | FDelta => SDelta (snd f)
  | FLZMA2 => SLzma2 (snd f)
  | k => SBcj (fkind_id k) (snd f)
  end.

Lemma s_filter_pre k prop : filter_ok (k, prop) ->
  exists bytes : list Z, (forall d : Z, xz_filter_flags d (k, prop) = Ok bytes) /\
    forall tail : list Z, exists props : list Z,
      bytes ++ tail = fkind_id k :: zlen props :: props ++ tail /\ 0 <= zlen props < 128 /\
      s_filter (fkind_id k) props = Some (spec_filter (k, prop)) /\ s_is_lzma2 (spec_filter (k, prop)) = false.
Proof.
  unfold filter_ok; cbn [fst snd]. intros Hf. destruct (fkind_is_bcj k) eqn:Eb.
  - assert (Hr : 0 <= prop < 4294967296 /\ prop mod bcj_alignment k = 0) by (destruct k; try discriminate; exact Hf).
    destruct Hr as [Hr Ha]. destruct (Z.eqb_spec prop 0) as [->|Hne].
    + exists [fkind_id k; 0]. split.
      * intros d. unfold xz_filter_flags. rewrite (vli_encode_small _ (fkind_id_small k)). cbn [obind].
        destruct k; try discriminate; cbn [Z.eqb]; rewrite (vli_encode_small 0 ltac:(lia)); reflexivity.
      * intros tail. exists []. split; [reflexivity|]. split; [cbn; lia|]. destruct k; try discriminate; split; reflexivity.
    + exists (fkind_id k :: 4 :: le_bytes 4 prop). split.
      * intros d. unfold xz_filter_flags. rewrite (vli_encode_small _ (fkind_id_small k)). cbn [obind].
        destruct (Z.eqb_spec prop 0); [contradiction|].
        destruct k; try discriminate; rewrite (vli_encode_small 4 ltac:(lia)); reflexivity.
      * intros tail. exists (le_bytes 4 prop). split; [rewrite zlen_le_bytes; reflexivity|]. split; [rewrite zlen_le_bytes; cbn; lia|].
        assert (LV : le_value (le_bytes 4 prop) = prop) by (apply le_value_bytes; cbn; lia).
        rewrite le_bytes4 in *.
        destruct k; try discriminate; unfold s_filter, spec_filter; cbn [fkind_id fst snd Z.eqb Pos.eqb Z.leb Z.compare Pos.compare Pos.compare_cont andb];
          rewrite LV; unfold s_bcj_align; cbn [Z.eqb Pos.eqb]; cbn [bcj_alignment] in Ha; rewrite Ha; split; reflexivity.
  - destruct k; try discriminate; [|contradiction].
    exists [3; 1; prop - 1]. split.
    + intros d. unfold xz_filter_flags. rewrite (vli_encode_small _ (fkind_id_small FDelta)). cbn [obind].
      rewrite (vli_encode_small 1 ltac:(lia)). cbn [obind]. destruct (Z.leb_spec prop 0); [lia|].
      unfold wrap8, wrap32. rewrite (Z.mod_small (prop - 1) 4294967296), (Z.mod_small (prop - 1) 256) by lia. reflexivity.
    + intros tail. exists [prop - 1]. split; [reflexivity|]. split; [cbn; lia|].
      unfold s_filter, spec_filter. cbn [fkind_id fst snd Z.eqb Pos.eqb]. split; [|reflexivity]. f_equal. f_equal. lia.
Qed.

(* the Filter Flags list of the writer, read by the specification *)
Lemma s_filter_flags_rt dict p dd : xz_encode_dict dict = Ok p -> xz_decode_dict p = Ok dd -> 0 <= p <= 40 ->
  forall fs ff tail, Forall filter_ok fs -> xz_filter_flags_list dict (fs ++ [(FLZMA2, 0)]) = Ok ff ->
  s_filter_flags (length (fs ++ [(FLZMA2, 0)])) (ff ++ tail) = Some (map spec_filter fs ++ [SLzma2 dd], tail).
Proof.
  intros He Hd Hp. induction fs as [|[k prop] fs IH]; intros ff tail Hok F.
  - cbn [app xz_filter_flags_list] in F. destruct (bh_filter_lzma2 dict p dd tail He Hd Hp) as [W _].
    rewrite W in F. cbn [obind app] in F. inversion F; subst ff. cbn [app length s_filter_flags].
    rewrite (s_vli_single 33) by lia. cbn [olet]. rewrite (s_vli_single 1) by lia. cbn [olet].
    change (p :: tail) with ([p] ++ tail). rewrite (s_take_app_n 1 [p]) by reflexivity. cbn [olet].
    unfold s_filter. cbn [Z.eqb Pos.eqb]. destruct (Z.leb_spec p 40); [|lia].
    rewrite (s_lzma2_dict_eq p dd Hp Hd). cbn [olet s_is_lzma2 Bool.eqb guard map app]. reflexivity.
  - inversion Hok as [|x l Hf Hfs]; subst x l.
    destruct (s_filter_pre k prop Hf) as (bytes & W & X).
    cbn [app xz_filter_flags_list] in F. rewrite (W dict) in F. cbn [obind] in F.
    destruct (xz_filter_flags_list dict (fs ++ [(FLZMA2, 0)])) as [ff'| | |] eqn:F'; try discriminate. cbn [obind] in F.
    inversion F; subst ff. rewrite <- app_assoc.
    destruct (X (ff' ++ tail)) as (props & E1 & Lp & Sf & Nl). rewrite E1.
    cbn [length app s_filter_flags]. rewrite (s_vli_single (fkind_id k)) by apply fkind_id_small. cbn [olet].
    rewrite (s_vli_single (zlen props)) by exact Lp. cbn [olet].
    rewrite (s_take_app_n (zlen props)) by reflexivity. cbn [olet]. rewrite Sf. cbn [olet]. rewrite Nl.
    assert (Ek : match length (fs ++ [(FLZMA2, 0)]) with O => true | S _ => false end = false)
      by (rewrite app_length; cbn [length]; destruct (length fs + 1)%nat eqn:E; [lia | reflexivity]).
    rewrite Ek. cbn [Bool.eqb guard olet]. rewrite (IH ff' tail Hfs eq_refl). cbn [olet map app]. reflexivity.
Qed.

(* the block header of the writer, read by the specification *)
Theorem s_block_header_rt o hb rest : opts_ok o -> xz_block_header o = Ok hb ->
  exists dd, xo_dict o <= dd /\
    s_block_header (hb ++ rest) = Some (mkSblockhdr (zlen hb) None None (map spec_filter (xo_filters o) ++ [SLzma2 dd]), rest).
Proof.
  intros [Hk Hfs] H. unfold xz_block_header in H.
  set (filters := xo_filters o ++ [(FLZMA2, 0)]) in *.
  destruct (Z.ltb_spec 4 (zlen filters)) as [|Hnf]; [discriminate|].
  destruct (xz_filter_flags_list (xo_dict o) filters) as [ff| | |] eqn:Eff; try discriminate. cbn [obind] in H.
  assert (Hp : exists p, xz_encode_dict (xo_dict o) = Ok p).
  { clear - Eff. unfold filters in Eff. revert ff Eff. induction (xo_filters o) as [|f fs IH]; intros ff Eff.
    - cbn [app xz_filter_flags_list] in Eff. unfold xz_filter_flags in Eff.
      rewrite (vli_encode_small _ (fkind_id_small FLZMA2)), (vli_encode_small 1 ltac:(lia)) in Eff. cbn [obind] in Eff.
      destruct (xz_encode_dict (xo_dict o)) as [p| | |]; try discriminate. exists p. reflexivity.
    - cbn [app xz_filter_flags_list] in Eff.
      destruct (xz_filter_flags (xo_dict o) f); try discriminate. cbn [obind] in Eff.
      destruct (xz_filter_flags_list (xo_dict o) (fs ++ [(FLZMA2, 0)])) eqn:E2; try discriminate.
      eapply IH. reflexivity. }
  destruct Hp as (p & He). destruct (xz_encode_dict_sound _ _ He) as (dd & Hpr & Hd & Hle).
  exists dd. split; [exact Hle|].
  set (nf := zlen filters) in *.
  assert (Enf : nf = zlen (xo_filters o) + 1) by (unfold nf, filters; rewrite zlen_app, zlen_cons, zlen_nil; lia).
  assert (Hnf1 : 1 <= nf <= 4) by (pose proof (zlen_nonneg (xo_filters o)); lia).
  destruct (bh_filters_rt (xo_dict o) p dd He Hd Hpr (xo_filters o) [] [] Hfs) as (ff' & F' & Bf & Lf & _).
  fold filters in F'. rewrite Eff in F'. inversion F'; subst ff'; clear F'.
  set (data := wrap8 (nf - 1) :: ff) in *.
  set (total := 1 + zlen data + 4) in *.
  set (hsize := (total + 3) / 4 * 4) in *.
  set (enc := wrap8 (hsize / 4 - 1)) in *.
  set (pad := hsize - 1 - zlen data - 4) in *.
  set (body := enc :: data ++ repeatn 0 (Z.to_nat pad)) in *.
  assert (Ehb : hb = body ++ crc32_bytes body) by congruence. rewrite Ehb. clear H Ehb.
  assert (Ldata : zlen data = 1 + zlen ff) by (unfold data; rewrite zlen_cons; reflexivity).
  assert (Hw : wrap8 (nf - 1) = nf - 1) by (unfold wrap8; rewrite Z.mod_small; lia).
  assert (Hh : 12 <= hsize <= 32 /\ hsize mod 4 = 0 /\ 0 <= pad <= 3 /\ hsize = 1 + zlen data + pad + 4).
  { unfold hsize, pad, total. lia. }
  destruct Hh as (Hh1 & Hh2 & Hpad & Hh3).
  assert (Henc : enc = hsize / 4 - 1) by (unfold enc, wrap8; rewrite Z.mod_small; lia).
  assert (Lbody : zlen body = hsize - 4) by (unfold body; rewrite zlen_cons, zlen_app, zlen_repeatn; lia).
  assert (Lhb : zlen (body ++ crc32_bytes body) = hsize) by (rewrite zlen_app, Lbody, zlen_crc32_bytes; lia).
  rewrite Lhb.
  assert (Bbody : bytes_ok body = true).
  { unfold body, data.
    change (enc :: (wrap8 (nf - 1) :: ff) ++ repeatn 0 (Z.to_nat pad)) with ([enc; wrap8 (nf - 1)] ++ ff ++ repeatn 0 (Z.to_nat pad)).
    rewrite !bytes_ok_app, Bf, bytes_ok_zeros. cbn [bytes_ok forallb]. unfold is_byte. rewrite Hw, Henc.
    destruct (Z.leb_spec 0 (hsize / 4 - 1)); [|lia]. destruct (Z.ltb_spec (hsize / 4 - 1) 256); [|lia].
    destruct (Z.leb_spec 0 (nf - 1)); [|lia]. destruct (Z.ltb_spec (nf - 1) 256); [|lia]. reflexivity. }
  unfold s_block_header.
  assert (Ehd : (body ++ crc32_bytes body) ++ rest = enc :: (data ++ repeatn 0 (Z.to_nat pad)) ++ crc32_bytes body ++ rest)
    by (unfold body; cbn [app]; rewrite <- !app_assoc; reflexivity).
  rewrite Ehd. replace ((enc + 1) * 4) with hsize by lia.
  rewrite <- Ehd. rewrite (s_take_app_n hsize) by exact Lhb. cbn [olet].
  rewrite (s_take_app_n (hsize - 4)) by exact Lbody. cbn [olet].
  rewrite le_value_crc32_bytes by exact Bbody. rewrite Z.eqb_refl. cbn [guard olet].
  unfold body at 1, data at 1. cbn [app]. rewrite Hw.
  assert (Fl : ((nf - 1) / 4) mod 16 = 0 /\ (nf - 1) mod 4 + 1 = nf /\ (nf - 1) mod 128 < 64 /\ nf - 1 < 128) by lia.
  destruct Fl as (Fl1 & Fl2 & Fl3 & Fl4). rewrite Fl1. cbn [Z.eqb guard olet]. rewrite Fl2.
  destruct (Z.leb_spec 64 ((nf - 1) mod 128)); [lia|]. destruct (Z.leb_spec 128 (nf - 1)); [lia|]. cbn [olet].
  replace (Z.to_nat nf) with (length filters) by (unfold nf, zlen; lia).
  unfold filters. rewrite (s_filter_flags_rt (xo_dict o) p dd He Hd Hpr (xo_filters o) ff (repeatn 0 (Z.to_nat pad)) Hfs Eff).
  cbn [olet]. rewrite s_all_zero_zeros. cbn [guard olet]. reflexivity.
Qed.

Section SpecOut.
  Variable penc : Z -> list Z -> list Z.
  Variables fenc : fkind -> Z -> list Z -> list Z.
  (* the specification's decoding of a block's Compressed Data through its filter chain *)
  Variable sdec : list sfilter -> list Z -> option (list Z * list Z).
  (* it inverts the writer's chain (C01 + C11 for the reference semantics), leaving what follows *)
  Hypothesis sdec_ok : forall fs dict dd content tail, Forall filter_ok fs -> dict <= dd ->
    sdec (map spec_filter fs ++ [SLzma2 dd]) (penc dict (chain_enc fenc fs content) ++ tail) = Some (content, tail).

  Lemma s_check_value_eq ct c : check_known ct = true -> s_check_value ct c = xz_check_bytes ct c /\ s_check_size ct = check_size ct /\
    s_check_supported ct = true.
  Proof.
    unfold check_known. intros H. repeat (apply orb_true_iff in H as [H|H]); apply Z.eqb_eq in H; subst ct; repeat split; reflexivity.
  Qed.

  Lemma s_blocks_rt o : opts_ok o -> forall blocks bytes recs,
    xz_blocks_bytes xz_fixed o blocks (map (payload_of penc fenc o) blocks) = Ok (bytes, recs) ->
    forall fuel rest acc racc, (length blocks < fuel)%nat ->
      s_blocks sdec fuel (xo_check o) (bytes ++ 0 :: rest) acc racc
      = Some (rev_append (concat blocks) acc, rev racc ++ recs, 0 :: rest).
  Proof.
    intros Hopts. pose proof Hopts as [Hk Hfs]. induction blocks as [|c cs IH]; intros bytes recs E fuel rest acc racc Hf.
    - cbn [xz_blocks_bytes map] in E. inversion E; subst bytes recs.
      destruct fuel as [|fuel]; [cbn in Hf; lia|]. cbn [app s_blocks Z.eqb concat rev_append]. rewrite frev_rev, app_nil_r. reflexivity.
    - cbn [xz_blocks_bytes map] in E.
      destruct (xz_block xz_fixed o c (payload_of penc fenc o c)) as [[bb rec]| | |] eqn:Eb; try discriminate. cbn [obind] in E.
      destruct (xz_blocks_bytes xz_fixed o cs (map (payload_of penc fenc o) cs)) as [[bs rs]| | |] eqn:Ecs; try discriminate.
      cbn [obind fst snd] in E. inversion E; subst bytes recs; clear E.
      unfold xz_block in Eb. destruct (xz_block_header o) as [h| | |] eqn:Eh; try discriminate. cbn [obind] in Eb.
      inversion Eb; subst bb rec; clear Eb. cbn [fx5 xz_fixed].
      set (payload := payload_of penc fenc o c) in *.
      set (chk := xz_check_bytes (xo_check o) c) in *.
      set (pn := pad4 (zlen payload)) in *.
      destruct (s_check_value_eq (xo_check o) c Hk) as (Ecv & Ecs' & Esup).
      assert (Lchk : zlen chk = check_size (xo_check o)) by (apply zlen_check_bytes; exact Hk).
      destruct fuel as [|fuel]; [cbn in Hf; lia|].
      set (tail1 := payload ++ repeatn 0 (Z.to_nat pn) ++ chk ++ bs ++ 0 :: rest).
      assert (Esrc : ((h ++ payload ++ repeatn 0 (Z.to_nat pn) ++ chk) ++ bs) ++ 0 :: rest = h ++ tail1)
        by (unfold tail1; rewrite <- !app_assoc; reflexivity).
      rewrite Esrc.
      assert (Hhd : exists e ht, h = e :: ht /\ e <> 0).
      { destruct (xz_block_header_rt o h [] Hopts Eh) as (dd0 & _ & P0 & _ & _). rewrite app_nil_r in P0.
        destruct h as [|e ht]; [discriminate|]. exists e, ht. split; [reflexivity|]. intro Ez. subst e.
        unfold xz_parse_block_header in P0. cbn [Z.eqb] in P0. discriminate. }
      destruct Hhd as (e & ht & Ehh & Hne).
      assert (Ecase : s_blocks sdec (S fuel) (xo_check o) (h ++ tail1) acc racc =
                      (olet! (hh, r1) <- s_block_header (h ++ tail1);
                       olet! (data, r2) <- sdec (sb_filters hh) r1;
                       let csize := zlen r1 - zlen r2 in
                       olet! _ <- guard (match sb_csize hh with Some v => v =? csize | None => true end);
                       olet! _ <- guard (match sb_usize hh with Some v => v =? zlen data | None => true end);
                       olet! (pad, r3) <- s_take (s_pad4 csize) r2;
                       olet! _ <- guard (s_all_zero pad);
                       olet! (chk0, r4) <- s_take (s_check_size (xo_check o)) r3;
                       olet! _ <- guard (negb (s_check_supported (xo_check o)) || s_eqb chk0 (s_check_value (xo_check o) data));
                       s_blocks sdec fuel (xo_check o) r4 (rev_append data acc)
                                ((sb_size hh + csize + s_check_size (xo_check o), zlen data) :: racc))).
      { rewrite Ehh. cbn [app s_blocks]. destruct (Z.eqb_spec e 0); [contradiction | reflexivity]. }
      rewrite Ecase. clear Ecase.
      destruct (s_block_header_rt o h tail1 Hopts Eh) as (dd & Hdd & Sh). rewrite Sh. cbn [olet sb_filters sb_csize sb_usize sb_size].
      unfold tail1 at 1. unfold payload at 1, payload_of. rewrite sdec_ok by assumption. cbn [olet guard].
      set (tail2 := repeatn 0 (Z.to_nat pn) ++ chk ++ bs ++ 0 :: rest).
      assert (Z2 : zlen tail1 - zlen tail2 = zlen payload).
      { assert (E12 : tail1 = payload ++ tail2) by reflexivity. rewrite E12, zlen_app. lia. }
      rewrite Z2. rewrite s_pad4_eq. fold pn. unfold tail2.
      pose proof (pad4_range (zlen payload)) as Hpn. fold pn in Hpn.
      rewrite (s_take_app_n pn) by (rewrite zlen_repeatn; lia). cbn [olet]. rewrite s_all_zero_zeros. cbn [guard olet].
      rewrite Ecs'. rewrite (s_take_app_n (check_size (xo_check o))) by exact Lchk. cbn [olet].
      rewrite Esup, Ecv. fold chk. rewrite s_eqb_refl. cbn [negb orb guard olet].
      rewrite (IH bs rs eq_refl fuel rest (rev_append c acc) ((zlen h + zlen payload + check_size (xo_check o), zlen c) :: racc))
        by (cbn [length] in Hf; lia).
      cbn [concat rev]. rewrite !rev_append_rev, rev_app_distr, <- !app_assoc. reflexivity.
  Qed.

  (* the index of the writer, read by the specification against the real block sizes *)
  Lemma s_index_records_rt : forall rs r tail, recs_ok rs -> xz_index_records rs = Ok r ->
    s_index_records rs (r ++ tail) = Some tail.
  Proof.
    induction rs as [|[u c] rs IH]; intros r tail Hok H.
    - cbn [xz_index_records] in H. inversion H; subst r. reflexivity.
    - inversion Hok as [|x l [Hu Hc] Hrs]; subst x l. cbn [fst snd] in Hu, Hc. cbn [xz_index_records] in H.
      destruct (vli_encode u) as [a| | |] eqn:Ea; try discriminate. cbn [obind] in H.
      destruct (vli_encode c) as [b| | |] eqn:Eb; try discriminate. cbn [obind] in H.
      destruct (xz_index_records rs) as [r'| | |] eqn:Er; try discriminate. cbn [obind] in H.
      inversion H; subst r; clear H.
      apply vli_encode_inv in Ea as [Ea Hu2]; [|lia]. apply vli_encode_inv in Eb as [Eb Hc2]; [|lia]. subst a b.
      cbn [s_index_records]. rewrite <- !app_assoc. rewrite s_vli_ok by lia. cbn [olet].
      rewrite s_vli_ok by lia. cbn [olet]. rewrite !Z.eqb_refl. cbn [andb guard olet]. apply IH; auto.
  Qed.

  Lemma s_index_rt rs idx rest : recs_ok rs -> xz_index rs = Ok idx ->
    s_index rs (idx ++ rest) = Some (zlen idx, rest).
  Proof.
    intros Hok H. unfold xz_index in H.
    destruct (vli_encode (zlen rs)) as [nb| | |] eqn:En; try discriminate. cbn [obind] in H.
    destruct (xz_index_records rs) as [r| | |] eqn:Er; try discriminate. cbn [obind] in H.
    apply vli_encode_inv in En as [En Hn]; [|apply zlen_nonneg]. subst nb.
    destruct (index_records_rt rs r Hok Er) as (Br & Lr & Mr & _).
    destruct (vli_roundtrip (zlen rs) [] ltac:(pose proof (zlen_nonneg rs); lia)) as (_ & _ & _ & _ & Sn & Ln & Bn).
    set (body := 0 :: vli_bytes (zlen rs) ++ r) in *.
    set (pn := pad4 (zlen body)) in *.
    assert (Ei : idx = (body ++ repeatn 0 (Z.to_nat pn)) ++ crc32_bytes (body ++ repeatn 0 (Z.to_nat pn))) by congruence.
    clear H. pose proof (pad4_range (zlen body)) as Hpn. fold pn in Hpn.
    set (crc := crc32_bytes (body ++ repeatn 0 (Z.to_nat pn))) in *.
    assert (El : idx ++ rest = 0 :: vli_bytes (zlen rs) ++ r ++ repeatn 0 (Z.to_nat pn) ++ crc ++ rest).
    { rewrite Ei. unfold body. cbn [app]. rewrite <- !app_assoc. reflexivity. }
    rewrite El. unfold s_index.
    rewrite s_vli_ok by (pose proof (zlen_nonneg rs); lia). cbn [olet]. rewrite Z.eqb_refl. cbn [guard olet].
    rewrite (s_index_records_rt rs r _ Hok Er). cbn [olet].
    set (l := 0 :: vli_bytes (zlen rs) ++ r ++ repeatn 0 (Z.to_nat pn) ++ crc ++ rest).
    assert (Lb : zlen body = 1 + zlen (vli_bytes (zlen rs)) + zlen r) by (unfold body; rewrite zlen_cons, zlen_app; lia).
    assert (Lu : zlen l - zlen (repeatn 0 (Z.to_nat pn) ++ crc ++ rest) = zlen body).
    { unfold l. rewrite zlen_cons, !zlen_app. lia. }
    rewrite Lu, s_pad4_eq. fold pn.
    rewrite (s_take_app_n pn) by (rewrite zlen_repeatn; lia). cbn [olet]. rewrite s_all_zero_zeros. cbn [guard olet].
    rewrite (s_take_app_n 4) by (unfold crc; apply zlen_crc32_bytes). cbn [olet].
    assert (Ef : firstn (Z.to_nat (zlen body + pn)) l = body ++ repeatn 0 (Z.to_nat pn)).
    { assert (E2 : l = (body ++ repeatn 0 (Z.to_nat pn)) ++ crc ++ rest) by (unfold l, body; cbn [app]; rewrite <- !app_assoc; reflexivity).
      rewrite E2. apply firstn_app_exact. rewrite app_length. pose proof (zlen_repeatn 0 (Z.to_nat pn)). unfold zlen in *. lia. }
    rewrite Ef. unfold crc. rewrite le_value_crc32_bytes.
    2:{ unfold body. rewrite bytes_ok_app, bytes_ok_zeros. cbn [bytes_ok forallb]. fold (bytes_ok (vli_bytes (zlen rs) ++ r)).
        rewrite bytes_ok_app, Bn, Br. reflexivity. }
    rewrite Z.eqb_refl. cbn [guard olet]. f_equal. f_equal.
    assert (Lcrc : zlen crc = 4) by (unfold crc; apply zlen_crc32_bytes).
    rewrite Ei, !zlen_app, zlen_repeatn. lia.
  Qed.

  (* the backward size field holds the real index size, as long as it fits its 32 bits *)
  Lemma s_footer_rt ct rs idx rest : check_known ct = true -> recs_ok rs -> xz_index rs = Ok idx ->
    zlen idx < 2 ^ 34 ->
    s_footer ct (zlen idx) (xz_stream_footer ct rs ++ rest) = Some rest.
  Proof.
    intros Hk Hok H Hsmall. unfold s_footer, xz_stream_footer. rewrite <- !app_assoc.
    rewrite (s_take_app_n 4) by apply zlen_crc32_bytes. cbn [olet].
    rewrite (s_take_app_n 4) by apply zlen_le_bytes. cbn [olet].
    rewrite (s_take_app_n 2 (xz_stream_flags ct)) by reflexivity. cbn [olet].
    rewrite (s_take_app_n 2 XZ_FOOTER_MAGIC) by reflexivity. cbn [olet].
    rewrite le_value_crc32_bytes.
    2:{ rewrite bytes_ok_app, bytes_ok_le_bytes, bytes_ok_flags by exact Hk. reflexivity. }
    rewrite Z.eqb_refl. cbn [guard olet].
    (* the index size the writer recomputes is the real one *)
    assert (Lidx : zlen idx = 1 + vli_size_value (zlen rs) + xz_index_vli_sizes rs
                              + pad4 (1 + vli_size_value (zlen rs) + xz_index_vli_sizes rs) + 4).
    { unfold xz_index in H.
      destruct (vli_encode (zlen rs)) as [nb| | |] eqn:En; try discriminate. cbn [obind] in H.
      destruct (xz_index_records rs) as [r| | |] eqn:Er; try discriminate. cbn [obind] in H.
      apply vli_encode_inv in En as [En Hn]; [|apply zlen_nonneg]. subst nb.
      destruct (index_records_rt rs r Hok Er) as (_ & Lr & _ & _).
      destruct (vli_roundtrip (zlen rs) [] ltac:(pose proof (zlen_nonneg rs); lia)) as (_ & _ & _ & _ & Sn & _ & _).
      set (body := 0 :: vli_bytes (zlen rs) ++ r) in *.
      assert (Ei : idx = (body ++ repeatn 0 (Z.to_nat (pad4 (zlen body)))) ++ crc32_bytes (body ++ repeatn 0 (Z.to_nat (pad4 (zlen body)))))
        by congruence.
      assert (Lb : zlen body = 1 + vli_size_value (zlen rs) + xz_index_vli_sizes rs)
        by (unfold body; rewrite zlen_cons, zlen_app; lia).
      pose proof (pad4_range (zlen body)). rewrite Ei, !zlen_app, zlen_repeatn, zlen_crc32_bytes, <- Lb. lia. }
    destruct (xz_index_rt rs idx [] Hok H) as (_ & _ & M4 & L8 & _).
    change (2 ^ 34) with 17179869184 in Hsmall.
    rewrite le_value_bytes by (unfold xz_backward_size, wrap32; change (256 ^ Z.of_nat 4) with 4294967296; apply Z.mod_pos_bound; lia).
    unfold xz_backward_size. rewrite <- Lidx. unfold wrap32. rewrite Z.mod_small by lia.
    destruct (Z.eqb_spec ((zlen idx / 4 - 1 + 1) * 4) (zlen idx)); [|lia]. cbn [guard olet].
    change [0; ct] with (xz_stream_flags ct). rewrite !s_eqb_refl. cbn [guard olet]. reflexivity.
  Qed.

  (* C03_out (XZ) *)
  Theorem C03_out_xz_thm : forall o0 parts f lenient, stream_ok o0 ->
    xz_encode penc fenc xz_fixed o0 parts = Ok f -> zlen f < 2 ^ 34 ->
    xz_spec_decode sdec lenient f = Some (concat parts).
  Proof.
    intros o0 parts f lenient [[Hk Hfs] Hbs] E Hsmall. unfold xz_encode in E.
    destruct (xzw_new o0) as [o| | |] eqn:Eo; try discriminate. cbn [obind] in E.
    assert (Ho : xo_check o = xo_check o0 /\ xo_filters o = xo_filters o0 /\ xo_dict o = xo_dict o0 /\
                 xo_block_size o = match xo_block_size o0 with Some b => Some (Z.max b (xo_dict o0)) | None => None end).
    { unfold xzw_new in Eo. destruct (3 <? zlen (xo_filters o0)); [discriminate|]. inversion Eo. cbn. auto. }
    destruct Ho as (Hoc & Hof & Hod & Hob).
    assert (Hopts : opts_ok o) by (split; [rewrite Hoc; exact Hk | rewrite Hof; exact Hfs]).
    destruct (xz_blocks_of xz_fixed (xo_block_size o) parts) as [blocks| | |] eqn:Ebl; try discriminate. cbn [obind] in E.
    assert (Hcat : concat blocks = concat parts).
    { rewrite Hob in Ebl. destruct (xo_block_size o0) as [b|].
      - destruct (xz_blocks_fixed_some (Z.max b (xo_dict o0)) parts ltac:(lia)) as (bl & E1 & C1 & _).
        rewrite E1 in Ebl. inversion Ebl; subst. exact C1.
      - rewrite xz_blocks_none in Ebl. inversion Ebl; subst blocks. destruct (concat parts); cbn; [reflexivity|].
        rewrite app_nil_r. reflexivity. }
    unfold xz_container in E.
    destruct (xz_blocks_bytes xz_fixed o blocks (map (payload_of penc fenc o) blocks)) as [[bytes recs]| | |] eqn:Ebb; try discriminate.
    cbn [obind fx4 xz_fixed] in E.
    assert (E' : (do idx <- xz_index recs;
                  Ok (xz_stream_header (xo_check o) ++ bytes ++ idx ++ xz_stream_footer (xo_check o) recs)) = Ok f).
    { destruct blocks; exact E. }
    clear E. destruct (xz_index recs) as [idx| | |] eqn:Ei; try discriminate. cbn [obind] in E'.
    assert (Ef : f = xz_stream_header (xo_check o) ++ bytes ++ idx ++ xz_stream_footer (xo_check o) recs) by congruence.
    clear E'. subst f.
    (* facts about the blocks from the round-trip development *)
    assert (Rk : recs_ok recs /\ zlen blocks <= zlen bytes).
    { clear - Hopts Ebb. revert bytes recs Ebb. induction blocks as [|c cs IH]; intros bytes recs E.
      - cbn [xz_blocks_bytes map] in E. inversion E. split; [constructor | cbn; lia].
      - cbn [xz_blocks_bytes map] in E.
        destruct (xz_block xz_fixed o c (payload_of penc fenc o c)) as [[bb rec]| | |] eqn:Eb; try discriminate. cbn [obind] in E.
        destruct (xz_blocks_bytes xz_fixed o cs (map (payload_of penc fenc o) cs)) as [[bs rs]| | |] eqn:Ecs; try discriminate.
        cbn [obind fst snd] in E. inversion E; subst. destruct (IH bs rs eq_refl) as [R L].
        unfold xz_block in Eb. destruct (xz_block_header o) as [h| | |] eqn:Eh; try discriminate. cbn [obind] in Eb. inversion Eb; subst.
        destruct (xz_block_header_rt o h [] Hopts Eh) as (_ & _ & _ & _ & Hh12).
        split.
        + constructor; [|exact R]. cbn [fst snd fx5 xz_fixed].
          pose proof (zlen_nonneg (payload_of penc fenc o c)). pose proof (zlen_nonneg c).
          assert (0 <= check_size (xo_check o)) by (unfold check_size; repeat (destruct (_ =? _)); lia). lia.
        + rewrite zlen_cons, !zlen_app. pose proof (zlen_nonneg (payload_of penc fenc o c)).
          pose proof (zlen_nonneg (repeatn 0 (Z.to_nat (pad4 (zlen (payload_of penc fenc o c)))))).
          pose proof (zlen_nonneg (xz_check_bytes (xo_check o) c)). lia. }
    destruct Rk as [Rk Lb].
    destruct (xz_index_rt recs idx [] Rk Ei) as (t & Et & _ & _ & _).
    unfold xz_spec_decode.
    assert (ES : forall fuel l acc0, s_streams sdec (S fuel) lenient l acc0 =
                  (olet! (acc1, r1) <- s_stream sdec lenient l acc0;
                   let '(n, r2) := s_strip_zeros r1 0 in
                   olet! _ <- guard (n mod 4 =? 0);
                   match r2 with [] => Some (frev acc1) | _ => s_streams sdec fuel lenient r2 acc1 end)) by reflexivity.
    rewrite ES. clear ES. unfold s_stream.
    (* stream header *)
    unfold xz_stream_header at 1. rewrite <- !app_assoc. unfold s_stream_header.
    rewrite (s_take_app_n 6 XZ_MAGIC) by reflexivity. cbn [olet]. change (s_eqb XZ_MAGIC S_HEADER_MAGIC) with true. cbn [guard olet].
    rewrite (s_take_app_n 2 (xz_stream_flags (xo_check o))) by reflexivity. cbn [olet].
    rewrite (s_take_app_n 4) by apply zlen_crc32_bytes. cbn [olet].
    rewrite le_value_crc32_bytes by (apply bytes_ok_flags; rewrite Hoc; exact Hk). rewrite Z.eqb_refl. cbn [guard olet].
    unfold xz_stream_flags at 1. rewrite Z.eqb_refl.
    assert (Hct : xo_check o <? 16 = true /\ s_check_supported (xo_check o) = true).
    { rewrite Hoc. clear - Hk. unfold check_known in Hk. repeat (apply orb_true_iff in Hk as [Hk|Hk]); apply Z.eqb_eq in Hk; rewrite Hk; split; reflexivity. }
    destruct Hct as [Hc16 Hsup]. rewrite Hc16, Hsup. rewrite orb_true_r. cbn [andb guard olet].
    (* blocks *)
    set (rest1 := t ++ xz_stream_footer (xo_check o) recs).
    assert (Eb1 : bytes ++ idx ++ xz_stream_footer (xo_check o) recs = bytes ++ 0 :: rest1)
      by (unfold rest1; rewrite Et; cbn [app]; reflexivity).
    rewrite Eb1. rewrite (s_blocks_rt o Hopts blocks bytes recs Ebb).
    2:{ apply zlen_length_lt. rewrite Nat2Z.inj_succ. fold (zlen (bytes ++ 0 :: rest1)). rewrite zlen_app.
        pose proof (zlen_nonneg (0 :: rest1)). lia. }
    cbn [olet rev app].
    (* index and footer *)
    assert (Ei1 : 0 :: rest1 = idx ++ xz_stream_footer (xo_check o) recs) by (unfold rest1; rewrite Et; reflexivity).
    rewrite Ei1, (s_index_rt recs idx _ Rk Ei). cbn [olet].
    rewrite <- (app_nil_r (xz_stream_footer (xo_check o) recs)).
    assert (Hko : check_known (xo_check o) = true) by (rewrite Hoc; exact Hk).
    assert (Hsm : zlen idx < 2 ^ 34).
    { rewrite !zlen_app in Hsmall. pose proof (zlen_nonneg bytes).
      pose proof (zlen_nonneg (xz_stream_header (xo_check o))). pose proof (zlen_nonneg (xz_stream_footer (xo_check o) recs)). lia. }
    rewrite (s_footer_rt (xo_check o) recs idx [] Hko Rk Ei Hsm).
    cbn [olet s_strip_zeros Z.modulo Z.div_eucl Z.eqb guard].
    rewrite frev_rev, rev_append_rev, rev_app_distr, rev_involutive. cbn [rev app]. rewrite Hcat. reflexivity.
  Qed.
End SpecOut.
