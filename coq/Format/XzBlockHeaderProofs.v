(* Format/XzBlockHeaderProofs.v — BlockHeader::parse reads back what write_block_header wrote:
   no optional sizes, the same pre-filters with the same properties, LZMA2 last with a dictionary
   at least as large as the encoder's; header length a multiple of four; never the index indicator. *)
From LzVerif Require Import Base.Bytes Format.Crc Format.CrcProofs Format.Vli Format.VliProofs
  Format.XzFormat Format.XzSplitProofs Format.XzHeaderProofs.
Ltac Zify.zify_post_hook ::= Z.div_mod_to_equations.

Definition opts_ok (o : xzopts) : Prop :=
  check_known (xo_check o) = true /\ Forall filter_ok (xo_filters o).

(* whatever property the writer accepted for the dictionary, the reader sees at least that size *)
Lemma xz_encode_dict_loop_sound d : forall n p r,
  xz_encode_dict_loop n p d = Ok r -> p <= r < p + Z.of_nat n /\ d <= lzma2_prop_size r.
Proof.
  induction n as [|n IH]; intros p r H; [discriminate|]. cbn [xz_encode_dict_loop] in H.
  destruct (Z.leb_spec d (lzma2_prop_size p)) as [Hle|Hgt].
  - inversion H; subst r. split; [lia | exact Hle].
  - apply IH in H. lia.
Qed.

Lemma xz_encode_dict_sound d p : xz_encode_dict d = Ok p ->
  exists dd, 0 <= p <= 40 /\ xz_decode_dict p = Ok dd /\ d <= dd.
Proof.
  unfold xz_encode_dict. intros H. destruct (Z.ltb_spec d 4096); [discriminate|].
  destruct (Z.eqb_spec d 4294967295) as [->|Hne].
  - inversion H; subst p. exists 4294967295. vm_compute. repeat split; congruence.
  - apply xz_encode_dict_loop_sound in H as [Hr Hs]. exists (lzma2_prop_size p).
    split; [lia|]. split; [|exact Hs]. unfold xz_decode_dict.
    destruct (Z.ltb_spec 40 p); [lia|]. destruct (Z.eqb_spec p 40); [lia | reflexivity].
Qed.

(* the Filter Flags list of pre-filters + LZMA2, and the loop of BlockHeader::parse over it *)
Lemma bh_filters_rt dict p dd : xz_encode_dict dict = Ok p -> xz_decode_dict p = Ok dd -> 0 <= p <= 40 ->
  forall fs tail acc, Forall filter_ok fs ->
  exists ff, xz_filter_flags_list dict (fs ++ [(FLZMA2, 0)]) = Ok ff /\ bytes_ok ff = true /\
    3 <= zlen ff <= 6 * zlen fs + 3 /\
    bh_filters_loop (length (fs ++ [(FLZMA2, 0)])) (ff ++ tail) acc = Ok (rev acc ++ fs ++ [(FLZMA2, dd)], tail).
Proof.
  intros He Hd Hp. induction fs as [|f fs IH]; intros tail acc Hok.
  - destruct (bh_filter_lzma2 dict p dd tail He Hd Hp) as [W R].
    exists [33; 1; p]. cbn [app xz_filter_flags_list]. rewrite W. cbn [obind app].
    split; [reflexivity|]. split.
    { cbn [bytes_ok forallb]. unfold is_byte. cbn.
      destruct (Z.leb_spec 0 p); [|lia]. destruct (Z.ltb_spec p 256); [|lia]. reflexivity. }
    split; [cbn; lia|].
    cbn [length bh_filters_loop app]. destruct (vli_slice_single 33 (1 :: p :: tail) ltac:(lia)) as [V1 V2].
    rewrite V1. cbn [obind]. change (fkind_of_id 33) with (Some FLZMA2). rewrite V2, R. cbn [obind].
    rewrite frev_rev. cbn [rev]. reflexivity.
  - inversion Hok as [|f0 fs0 Hf Hfs]; subst f0 fs0.
    destruct f as [k prop].
    pose proof (bh_filter_pre k prop Hf) as Hone.
    destruct Hone as (bytes & W & B & L & X).
    destruct (IH tail ((k, prop) :: acc) Hfs) as (ff & F & Bf & Lf & R).
    exists (bytes ++ ff). cbn [app xz_filter_flags_list]. rewrite (W dict). cbn [obind]. rewrite F. cbn [obind].
    split; [reflexivity|]. split; [rewrite bytes_ok_app, B, Bf; reflexivity|].
    split; [rewrite zlen_app, zlen_cons; lia|].
    destruct (X (ff ++ tail)) as (s1 & E1 & P1).
    cbn [length bh_filters_loop]. rewrite <- app_assoc, E1.
    destruct (vli_slice_single (fkind_id k) s1 (fkind_id_small k)) as [V1 V2].
    rewrite V1. cbn [obind]. rewrite fkind_of_id_id, V2, P1. cbn [obind].
    rewrite R. cbn [rev]. rewrite <- app_assoc. reflexivity.
Qed.

Lemma bh_padding_zeros c : zlen c = 4 -> forall k, bh_padding (repeatn 0 k ++ c) = Ok c.
Proof.
  intros Hc. induction k as [|k IH].
  - cbn [repeatn app]. destruct c as [|c0 t]; [reflexivity|]. cbn [bh_padding].
    destruct (Z.ltb_spec 4 (zlen (c0 :: t))); [lia | reflexivity].
  - cbn [repeatn app bh_padding].
    assert (L : zlen (0 :: repeatn 0 k ++ c) = 1 + Z.of_nat k + 4) by (rewrite zlen_cons, zlen_app, zlen_repeatn; lia).
    destruct (Z.ltb_spec 4 (zlen (0 :: repeatn 0 k ++ c))); [|lia]. cbn [Z.eqb]. exact IH.
Qed.

Lemma flags_small nf : 1 <= nf <= 4 ->
  Z.land (nf - 1) 3 + 1 = nf /\ Z.land (nf - 1) 64 = 0 /\ Z.land (nf - 1) 128 = 0.
Proof.
  intros H. assert (C : nf = 1 \/ nf = 2 \/ nf = 3 \/ nf = 4) by lia.
  destruct C as [C|[C|[C|C]]]; subst nf; repeat split; reflexivity.
Qed.

Theorem xz_block_header_rt o hb rest : opts_ok o -> xz_block_header o = Ok hb ->
  exists dd, xo_dict o <= dd /\
    xz_parse_block_header (hb ++ rest) = Ok (Some (mkBhdr None None (xo_filters o ++ [(FLZMA2, dd)])), rest) /\
    zlen hb mod 4 = 0 /\ 12 <= zlen hb.
Proof.
  intros [Hk Hfs] H. unfold xz_block_header in H.
  set (filters := xo_filters o ++ [(FLZMA2, 0)]) in *.
  destruct (Z.ltb_spec 4 (zlen filters)) as [|Hnf]; [discriminate|].
  destruct (xz_filter_flags_list (xo_dict o) filters) as [ff| | |] eqn:Eff; try discriminate. cbn [obind] in H.
  (* the LZMA2 entry succeeded, so the dictionary size was encodable *)
  assert (Hp : exists p, xz_encode_dict (xo_dict o) = Ok p).
  { clear - Eff. unfold filters in Eff. revert ff Eff. induction (xo_filters o) as [|f fs IH]; intros ff Eff.
    - cbn [app xz_filter_flags_list] in Eff. unfold xz_filter_flags in Eff.
      rewrite (vli_encode_small _ (fkind_id_small FLZMA2)), (vli_encode_small 1 ltac:(lia)) in Eff. cbn [obind] in Eff.
      destruct (xz_encode_dict (xo_dict o)) as [p| | |]; try discriminate. exists p. reflexivity.
    - cbn [app xz_filter_flags_list] in Eff.
      destruct (xz_filter_flags (xo_dict o) f); try discriminate. cbn [obind] in Eff.
      destruct (xz_filter_flags_list (xo_dict o) (fs ++ [(FLZMA2, 0)])) eqn:E2; try discriminate.
      eapply IH. reflexivity. }
  destruct Hp as (p & He). destruct (xz_encode_dict_sound _ _ He) as (dd & Hpr & Hd & Hle).
  exists dd. split; [exact Hle|].
  set (nf := zlen filters) in *.
  assert (Enf : nf = zlen (xo_filters o) + 1) by (unfold nf, filters; rewrite zlen_app, zlen_cons, zlen_nil; lia).
  assert (Hnf1 : 1 <= nf <= 4) by (pose proof (zlen_nonneg (xo_filters o)); lia).
  set (data := wrap8 (nf - 1) :: ff) in *.
  set (total := 1 + zlen data + 4) in *.
  set (hsize := (total + 3) / 4 * 4) in *.
  set (enc := wrap8 (hsize / 4 - 1)) in *.
  set (pad := hsize - 1 - zlen data - 4) in *.
  set (body := enc :: data ++ repeatn 0 (Z.to_nat pad)) in *.
  assert (Ehb : hb = body ++ crc32_bytes body) by congruence. rewrite Ehb. clear H Ehb.
  (* what the parser sees *)
  destruct (bh_filters_rt (xo_dict o) p dd He Hd Hpr (xo_filters o)
              (repeatn 0 (Z.to_nat pad) ++ crc32_bytes body) [] Hfs) as (ff' & F' & Bf & Lf & R).
  fold filters in F', R. rewrite Eff in F'. inversion F'; subst ff'; clear F'.
  assert (Lfs : zlen (xo_filters o) = nf - 1) by lia.
  assert (Ldata : zlen data = 1 + zlen ff) by (unfold data; rewrite zlen_cons; reflexivity).
  assert (Hw : wrap8 (nf - 1) = nf - 1) by (unfold wrap8; rewrite Z.mod_small; lia).
  assert (Hh : 12 <= hsize <= 32 /\ hsize mod 4 = 0 /\ 0 <= pad <= 3 /\ hsize = 1 + zlen data + pad + 4).
  { unfold hsize, pad, total. lia. }
  destruct Hh as (Hh1 & Hh2 & Hpad & Hh3).
  assert (Henc : enc = hsize / 4 - 1) by (unfold enc, wrap8; rewrite Z.mod_small; lia).
  assert (Lbody : zlen body = hsize - 4).
  { unfold body. rewrite zlen_cons, zlen_app, zlen_repeatn. lia. }
  split; [|split].
  2:{ rewrite zlen_app, Lbody, zlen_crc32_bytes. lia. }
  2:{ rewrite zlen_app, Lbody, zlen_crc32_bytes. lia. }
  unfold xz_parse_block_header, body. cbn [app].
  destruct (Z.eqb_spec enc 0); [lia|].
  replace ((enc + 1) * 4) with hsize by lia.
  destruct (Z.ltb_spec hsize 8); [lia|]. destruct (Z.ltb_spec 1024 hsize); [lia|]. cbn [orb].
  rewrite <- app_assoc.
  replace ((data ++ repeatn 0 (Z.to_nat pad)) ++ crc32_bytes (enc :: data ++ repeatn 0 (Z.to_nat pad)) ++ rest)
    with ((data ++ repeatn 0 (Z.to_nat pad) ++ crc32_bytes body) ++ rest)
    by (unfold body; rewrite <- !app_assoc; reflexivity).
  rewrite (xz_take_app_n (hsize - 1)).
  2:{ rewrite !zlen_app, zlen_repeatn, zlen_crc32_bytes. lia. }
  cbn [obind]. unfold data at 1. cbn [app]. rewrite Hw.
  destruct (flags_small nf Hnf1) as (Fl1 & Fl2 & Fl3). rewrite Fl1, Fl2, Fl3. cbn [Z.eqb negb obind].
  replace (Z.to_nat nf) with (length filters) by (unfold nf, zlen; lia).
  rewrite R. cbn [obind rev app].
  unfold last_is_lzma2. rewrite frev_rev, rev_app_distr. cbn [rev app negb].
  rewrite bh_padding_zeros by apply zlen_crc32_bytes. cbn [obind].
  rewrite zlen_crc32_bytes. cbn [Z.eqb negb Pos.eqb].
  (* the CRC-32 covers the size byte and everything up to the CRC field *)
  assert (Ecov : firstn (Z.to_nat (zlen (data ++ repeatn 0 (Z.to_nat pad) ++ crc32_bytes body) - 4))
                        (data ++ repeatn 0 (Z.to_nat pad) ++ crc32_bytes body)
                 = data ++ repeatn 0 (Z.to_nat pad)).
  { rewrite app_assoc. rewrite zlen_app, zlen_crc32_bytes.
    replace (zlen (data ++ repeatn 0 (Z.to_nat pad)) + 4 - 4) with (zlen (data ++ repeatn 0 (Z.to_nat pad))) by lia.
    unfold zlen at 1. rewrite Nat2Z.id, firstn_app, Nat.sub_diag, firstn_all. cbn [firstn]. rewrite app_nil_r. reflexivity. }
  rewrite Ecov. fold body.
  rewrite le_value_crc32_bytes.
  2:{ unfold body, data.
      change (enc :: (wrap8 (nf - 1) :: ff) ++ repeatn 0 (Z.to_nat pad))
        with ([enc; wrap8 (nf - 1)] ++ ff ++ repeatn 0 (Z.to_nat pad)).
      rewrite !bytes_ok_app, Bf, bytes_ok_zeros. cbn [bytes_ok forallb]. unfold is_byte. rewrite Hw, Henc.
      destruct (Z.leb_spec 0 (hsize / 4 - 1)); [|lia]. destruct (Z.ltb_spec (hsize / 4 - 1) 256); [|lia].
      destruct (Z.leb_spec 0 (nf - 1)); [|lia]. destruct (Z.ltb_spec (nf - 1) 256); [|lia]. reflexivity. }
  rewrite Z.eqb_refl. cbn [negb]. reflexivity.
Qed.

