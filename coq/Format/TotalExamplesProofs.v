(* Format/TotalExamplesProofs.v — hostile inputs for the non-vacuity Examples of Properties/C06Readers.v
   (random bytes, a range-coder stream of all ones = a match into the empty dictionary, a stream
   that ends right after the range decoder's initialisation) and the observation functions that
   run a reader model on them.  No theorem depends on these. *)
From LzVerif Require Import Base.Bytes Codec.Range Codec.LzmaDec Codec.Lzma1 Codec.Lzma2Dec
  Codec.TotalCoreProofs Codec.Total1Proofs.

Definition rnd : list Z :=
  [0; 93; 200; 17; 3; 250; 99; 1; 254; 128; 64; 32; 7; 211; 180; 45; 90; 13; 77; 201; 5; 6; 250; 251; 33; 44; 55; 66; 77; 88].
(* code = 0xFFFFFFFF, then 0xFF..: every bit decodes as 1 - a rep3 match into an empty dictionary *)
Definition ones : list Z := [0; 255; 255; 255; 255; 255; 255; 255; 255; 255; 255; 255].
(* an initialised range decoder and nothing behind it *)
Definition zeros5 : list Z := [0; 0; 0; 0; 0].

Definition show1 (o : outcome lzma1) (fuel : nat) (sizes : list Z) : outcome (list Z) :=
  match o with
  | Ok s0 => match lzma1_read_all fuel s0 sizes sizes [] with
             | Ok (out, _) => Ok out | Err e => Err e | Panic e => Panic e | Fuel => Fuel end
  | Err e => Err (100 + e) | Panic e => Panic e | Fuel => Fuel
  end.

Lemma sizes_703 : sizes_ok [7; 0; 3].
Proof. right. constructor. reflexivity. Qed.

Definition show2 (o : outcome lzma2) (fuel : nat) (sizes : list Z) : outcome (list Z * Z) :=
  match o with
  | Ok s0 => match lzma2_read_all fuel s0 sizes sizes [] with
             | Ok (out, st, _) => Ok (out, st) | Err e => Err e | Panic e => Panic e | Fuel => Fuel end
  | Err e => Err (100 + e) | Panic e => Panic e | Fuel => Fuel
  end.

Lemma sizes_20 : sizes_ok [2; 0].
Proof. right. constructor. reflexivity. Qed.
