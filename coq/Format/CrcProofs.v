(* Format/CrcProofs.v — facts about the CRC models: the register stays in range, the stored
   little-endian field reads back as the value, and the register update is a bijection for a fixed
   input byte and injective in the input byte for a fixed register - hence two byte strings that
   differ in exactly one byte never have the same CRC-32 / CRC-64 (C04_bitflip). *)
From LzVerif Require Import Base.Bytes Format.Crc.
Ltac Zify.zify_post_hook ::= Z.div_mod_to_equations.

Lemma lxor_range n a b : 0 <= n -> 0 <= a < 2 ^ n -> 0 <= b < 2 ^ n -> 0 <= Z.lxor a b < 2 ^ n.
Proof.
  intros Hn Ha Hb. assert (H0 : 0 <= Z.lxor a b) by (apply Z.lxor_nonneg; lia).
  split; [exact H0|].
  destruct (Z.eq_dec n 0) as [->|Hn0].
  { change (2 ^ 0) with 1 in *. assert (a = 0) by lia. assert (b = 0) by lia. subst. cbn. lia. }
  destruct (Z.eq_dec (Z.lxor a b) 0) as [E|E]; [rewrite E; lia|].
  apply Z.log2_lt_pow2; [lia|].
  eapply Z.le_lt_trans; [apply Z.log2_lxor; lia|].
  apply Z.max_lub_lt.
  - destruct (Z.eq_dec a 0) as [->|]; [change (Z.log2 0) with 0; lia|].
    apply Z.log2_lt_pow2; lia.
  - destruct (Z.eq_dec b 0) as [->|]; [change (Z.log2 0) with 0; lia|].
    apply Z.log2_lt_pow2; lia.
Qed.

Lemma shiftr1_range n c : 1 <= n -> 0 <= c < 2 ^ n -> 0 <= Z.shiftr c 1 < 2 ^ (n - 1).
Proof.
  intros Hn Hc. rewrite Z.shiftr_div_pow2 by lia. change (2 ^ 1) with 2.
  replace (2 ^ n) with (2 * 2 ^ (n - 1)) in Hc by (rewrite <- Z.pow_succ_r by lia; f_equal; lia).
  lia.
Qed.

Lemma pow2_mono_lt a b : 0 <= a <= b -> 2 ^ a <= 2 ^ b.
Proof. intros. apply Z.pow_le_mono_r; lia. Qed.

Section Width.
  Variable n : Z.          (* register width: 32 or 64 *)
  Variable poly : Z.
  Hypothesis Hn : 8 <= n.
  Hypothesis Hpoly : 2 ^ (n - 1) <= poly < 2 ^ n.   (* top bit set: the generator has a constant term *)

  Lemma crc_step_range c : 0 <= c < 2 ^ n -> 0 <= crc_step poly c < 2 ^ n.
  Proof.
    intros Hc. unfold crc_step. pose proof (shiftr1_range n c ltac:(lia) Hc) as Hs.
    pose proof (pow2_mono_lt (n - 1) n ltac:(lia)).
    destruct (Z.odd c); [apply lxor_range; lia | lia].
  Qed.

  (* the top bit of the result tells which branch was taken *)
  Lemma lxor_poly_high x : 0 <= x < 2 ^ (n - 1) -> 2 ^ (n - 1) <= Z.lxor x poly.
  Proof.
    intros Hx.
    assert (Ht : Z.testbit (Z.lxor x poly) (n - 1) = true).
    { rewrite Z.lxor_spec.
      assert (Z.testbit x (n - 1) = false).
      { destruct (Z.eq_dec x 0) as [->|]; [apply Z.bits_0|]. apply Z.bits_above_log2; [lia|].
        apply Z.log2_lt_pow2; lia. }
      assert (Z.testbit poly (n - 1) = true).
      { apply Z.testbit_true; [lia|].
        assert (P2 : 2 ^ n = 2 * 2 ^ (n - 1)) by (rewrite <- Z.pow_succ_r by lia; f_equal; lia).
        assert (Q : poly / 2 ^ (n - 1) = 1).
        { symmetry. apply Z.div_unique with (r := poly - 2 ^ (n - 1)); lia. }
        rewrite Q. reflexivity. }
      rewrite H, H0. reflexivity. }
    destruct (Z_lt_le_dec (Z.lxor x poly) (2 ^ (n - 1))) as [Hlt|]; [|assumption].
    exfalso.
    assert (0 <= Z.lxor x poly) by (apply Z.lxor_nonneg; lia).
    destruct (Z.eq_dec (Z.lxor x poly) 0) as [E|E].
    - rewrite E, Z.bits_0 in Ht. discriminate.
    - rewrite Z.bits_above_log2 in Ht; [discriminate | lia |]. apply Z.log2_lt_pow2; lia.
  Qed.

  Lemma lxor_cancel_r a b c : Z.lxor a c = Z.lxor b c -> a = b.
  Proof.
    intros E. apply (f_equal (fun t => Z.lxor t c)) in E.
    rewrite !Z.lxor_assoc, Z.lxor_nilpotent, !Z.lxor_0_r in E. exact E.
  Qed.

  Lemma odd_shiftr_inj c1 c2 : 0 <= c1 -> 0 <= c2 -> Z.odd c1 = Z.odd c2 -> Z.shiftr c1 1 = Z.shiftr c2 1 -> c1 = c2.
  Proof.
    intros H1 H2 Ho Es. rewrite !Z.shiftr_div_pow2 in Es by lia. change (2 ^ 1) with 2 in Es.
    rewrite (Z.div_mod c1 2), (Z.div_mod c2 2) by lia. rewrite Es. f_equal.
    rewrite !Zmod_odd, Ho. reflexivity.
  Qed.

  Lemma crc_step_inj c1 c2 : 0 <= c1 < 2 ^ n -> 0 <= c2 < 2 ^ n -> crc_step poly c1 = crc_step poly c2 -> c1 = c2.
  Proof.
    intros H1 H2 E. unfold crc_step in E.
    pose proof (shiftr1_range n c1 ltac:(lia) H1) as S1. pose proof (shiftr1_range n c2 ltac:(lia) H2) as S2.
    destruct (Z.odd c1) eqn:O1, (Z.odd c2) eqn:O2.
    - apply lxor_cancel_r in E. apply odd_shiftr_inj; try lia. congruence.
    - pose proof (lxor_poly_high _ S1). lia.
    - pose proof (lxor_poly_high _ S2). lia.
    - apply odd_shiftr_inj; try lia. congruence.
  Qed.

  Lemma crc_byte_range c b : 0 <= c < 2 ^ n -> 0 <= b < 256 -> 0 <= crc_byte poly c b < 2 ^ n.
  Proof.
    intros Hc Hb. unfold crc_byte.
    assert (H0 : 0 <= Z.lxor c b < 2 ^ n).
    { apply lxor_range; [lia | lia |]. pose proof (pow2_mono_lt 8 n ltac:(lia)). change (2 ^ 8) with 256 in *. lia. }
    repeat apply crc_step_range. exact H0.
  Qed.

  Lemma crc_byte_inj_c c1 c2 b : 0 <= c1 < 2 ^ n -> 0 <= c2 < 2 ^ n -> 0 <= b < 256 ->
    crc_byte poly c1 b = crc_byte poly c2 b -> c1 = c2.
  Proof.
    intros H1 H2 Hb E. unfold crc_byte in E.
    assert (Hb' : 0 <= b < 2 ^ n) by (pose proof (pow2_mono_lt 8 n ltac:(lia)); change (2 ^ 8) with 256 in *; lia).
    pose proof (lxor_range n c1 b ltac:(lia) H1 Hb') as R1. pose proof (lxor_range n c2 b ltac:(lia) H2 Hb') as R2.
    repeat (apply crc_step_inj in E; [| repeat apply crc_step_range; assumption | repeat apply crc_step_range; assumption]).
    apply lxor_cancel_r in E. exact E.
  Qed.

  Lemma crc_byte_inj_b c b1 b2 : 0 <= c < 2 ^ n -> 0 <= b1 < 256 -> 0 <= b2 < 256 ->
    crc_byte poly c b1 = crc_byte poly c b2 -> b1 = b2.
  Proof.
    intros Hc H1 H2 E. unfold crc_byte in E.
    assert (Hp : 256 <= 2 ^ n) by (pose proof (pow2_mono_lt 8 n ltac:(lia)); change (2 ^ 8) with 256 in *; lia).
    pose proof (lxor_range n c b1 ltac:(lia) Hc ltac:(lia)) as R1. pose proof (lxor_range n c b2 ltac:(lia) Hc ltac:(lia)) as R2.
    repeat (apply crc_step_inj in E; [| repeat apply crc_step_range; assumption | repeat apply crc_step_range; assumption]).
    rewrite (Z.lxor_comm c b1), (Z.lxor_comm c b2) in E. apply lxor_cancel_r in E. exact E.
  Qed.

  Lemma bytes_ok_cons b l : bytes_ok (b :: l) = true -> 0 <= b < 256 /\ bytes_ok l = true.
  Proof.
    unfold bytes_ok; cbn [forallb]. intros H. apply andb_true_iff in H as [Hb Hl]. unfold is_byte in Hb.
    apply andb_true_iff in Hb as [H0 H1]. split; [lia | exact Hl].
  Qed.

  Lemma crc_update_range l : forall c, 0 <= c < 2 ^ n -> bytes_ok l = true -> 0 <= crc_update poly c l < 2 ^ n.
  Proof.
    induction l as [|b t IH]; intros c Hc Hl; [exact Hc|].
    apply bytes_ok_cons in Hl as [Hb Ht]. unfold crc_update in *. cbn [fold_left].
    apply IH; [apply crc_byte_range; assumption | exact Ht].
  Qed.

  Lemma crc_update_inj l : forall c1 c2, 0 <= c1 < 2 ^ n -> 0 <= c2 < 2 ^ n -> bytes_ok l = true ->
    crc_update poly c1 l = crc_update poly c2 l -> c1 = c2.
  Proof.
    induction l as [|b t IH]; intros c1 c2 H1 H2 Hl E; [exact E|].
    apply bytes_ok_cons in Hl as [Hb Ht]. unfold crc_update in *. cbn [fold_left] in E.
    apply IH in E; [| apply crc_byte_range; assumption | apply crc_byte_range; assumption | exact Ht].
    eapply crc_byte_inj_c; eassumption.
  Qed.

  Lemma crc_update_app c a b : crc_update poly c (a ++ b) = crc_update poly (crc_update poly c a) b.
  Proof. unfold crc_update. apply fold_left_app. Qed.

  (* two strings differing in exactly one byte end in different registers *)
  Lemma crc_update_one_byte c p b1 b2 s : 0 <= c < 2 ^ n ->
    bytes_ok p = true -> 0 <= b1 < 256 -> 0 <= b2 < 256 -> bytes_ok s = true -> b1 <> b2 ->
    crc_update poly c (p ++ b1 :: s) <> crc_update poly c (p ++ b2 :: s).
  Proof.
    intros Hc Hp H1 H2 Hs Hne E. rewrite !crc_update_app in E.
    pose proof (crc_update_range p c Hc Hp) as Rp.
    unfold crc_update at 1 3 in E. cbn [fold_left] in E. fold (crc_update poly (crc_byte poly (crc_update poly c p) b1) s) in E.
    fold (crc_update poly (crc_byte poly (crc_update poly c p) b2) s) in E.
    apply crc_update_inj in E; [| apply crc_byte_range; assumption | apply crc_byte_range; assumption | exact Hs].
    apply crc_byte_inj_b in E; try assumption. contradiction.
  Qed.
End Width.

Lemma bytes_ok_app a b : bytes_ok (a ++ b) = bytes_ok a && bytes_ok b.
Proof. unfold bytes_ok. apply forallb_app. Qed.

Lemma crc32_range l : bytes_ok l = true -> 0 <= crc32 l < 2 ^ 32.
Proof.
  intros Hl. unfold crc32. apply lxor_range; [lia | | unfold M32; lia].
  apply (crc_update_range 32 CRC32_POLY ltac:(lia)); [unfold CRC32_POLY; lia | unfold M32; lia | exact Hl].
Qed.

Lemma crc64_range l : bytes_ok l = true -> 0 <= crc64 l < 2 ^ 64.
Proof.
  intros Hl. unfold crc64. apply lxor_range; [lia | | unfold M64; lia].
  apply (crc_update_range 64 CRC64_POLY ltac:(lia)); [unfold CRC64_POLY; lia | unfold M64; lia | exact Hl].
Qed.

Lemma le_value_crc32_bytes l : bytes_ok l = true -> le_value (crc32_bytes l) = crc32 l.
Proof. intros Hl. unfold crc32_bytes. apply le_value_bytes. pose proof (crc32_range l Hl). cbn. lia. Qed.

(* C04_bitflip (CRC-32 part): changing exactly one byte of a CRC-covered string changes its CRC-32,
   so a stored CRC that matched before cannot match afterwards (and vice versa) *)
Theorem crc32_one_byte p b1 b2 s :
  bytes_ok p = true -> 0 <= b1 < 256 -> 0 <= b2 < 256 -> bytes_ok s = true -> b1 <> b2 ->
  crc32 (p ++ b1 :: s) <> crc32 (p ++ b2 :: s).
Proof.
  intros Hp H1 H2 Hs Hne E. unfold crc32 in E. apply (f_equal (fun t => Z.lxor t M32)) in E.
  rewrite !Z.lxor_assoc, Z.lxor_nilpotent, !Z.lxor_0_r in E.
  revert E. apply (crc_update_one_byte 32 CRC32_POLY ltac:(lia)); try assumption; [unfold CRC32_POLY | unfold M32]; lia.
Qed.

Theorem crc64_one_byte p b1 b2 s :
  bytes_ok p = true -> 0 <= b1 < 256 -> 0 <= b2 < 256 -> bytes_ok s = true -> b1 <> b2 ->
  crc64 (p ++ b1 :: s) <> crc64 (p ++ b2 :: s).
Proof.
  intros Hp H1 H2 Hs Hne E. unfold crc64 in E. apply (f_equal (fun t => Z.lxor t M64)) in E.
  rewrite !Z.lxor_assoc, Z.lxor_nilpotent, !Z.lxor_0_r in E.
  revert E. apply (crc_update_one_byte 64 CRC64_POLY ltac:(lia)); try assumption; [unfold CRC64_POLY | unfold M64]; lia.
Qed.
