(* Format/XzSpecIn4Proofs.v — C03_in (XZ), closed instance: the executable specification
   (Format/XzSpecExec.v: LZMA2 payload by the LZMA2Reader model, Delta by Filter/Delta.v, BCJ chains
   not accepted) against the executable reader model xz_decode_c.  No hypothesis about the codecs is
   left: both sides run the same LZMA2 decoder model, which only consumes input
   (Format/TotalClosedProofs.v). *)
From LzVerif Require Import Base.Bytes Filter.Delta Format.XzFormat Format.XzSpec Format.XzSpecExec
  Format.XzSplitProofs Format.XzSoundProofs Format.XzSpecProofs Format.XzSpecIn3Proofs Format.TotalClosedProofs
  Format.ContainerRefutations.
Ltac Zify.zify_post_hook ::= Z.div_mod_to_equations.

Lemma xz_chain_dict_cons a b t : xz_chain_dict (a :: b :: t) = xz_chain_dict (b :: t).
Proof.
  unfold xz_chain_dict. rewrite !frev_rev. cbn [rev]. destruct (rev t) as [|x q]; reflexivity.
Qed.

Lemma xz_chain_deltas_delta d t : xz_chain_deltas ((FDelta, d) :: t) = do r <- xz_chain_deltas t; Ok (delta_new d :: r).
Proof. reflexivity. Qed.

(* the chain the specification executes is the chain prepare_next_block builds *)
Lemma s_chain_deltas_crate : forall fs ds dict, s_chain_deltas (map spec_filter fs) = Some (ds, dict) ->
  xz_chain_deltas fs = Ok (map delta_new ds) /\ xz_chain_dict fs = dict.
Proof.
  induction fs as [|[k p] t IH]; intros ds dict H; [discriminate|].
  cbn [map] in H. unfold spec_filter at 1 in H. cbn [fst snd] in H.
  destruct k; try discriminate.
  - (* Delta *)
    cbn [s_chain_deltas] in H.
    destruct (s_chain_deltas (map spec_filter t)) as [[ds' d']|] eqn:Et; [|discriminate]. cbn [olet] in H. inversion H; subst ds dict.
    destruct (IH ds' d' eq_refl) as [I1 I2]. split.
    + rewrite xz_chain_deltas_delta, I1. reflexivity.
    + destruct t as [|b t']; [discriminate|]. rewrite xz_chain_dict_cons. exact I2.
  - (* LZMA2: only as the single last element *)
    destruct t as [|b t'].
    + cbn [map s_chain_deltas] in H. inversion H; subst. split; reflexivity.
    + cbn [map s_chain_deltas] in H. discriminate.
Qed.

Lemma s_undelta_crate : forall ds raw data, s_undelta ds raw = Some data ->
  exists st, xz_deltas_decode (map delta_new ds) raw = Ok (st, data).
Proof.
  induction ds as [|d t IH]; intros raw data H.
  - cbn [s_undelta] in H. inversion H; subst. exists []. reflexivity.
  - cbn [s_undelta] in H. destruct (s_undelta t raw) as [x|] eqn:Ex; [|discriminate]. cbn [olet] in H.
    destruct (IH raw x Ex) as (st & Pst). unfold delta_decode_bytes in H.
    destruct (delta_decode (delta_new d) x) as [[d1 o]|] eqn:Ed; [|discriminate]. inversion H; subst o.
    exists (d1 :: st). cbn [map xz_deltas_decode]. rewrite Pst. cbn [obind]. rewrite Ed. reflexivity.
Qed.

Lemma xz_sdec_exec_blockdec fs src r : xz_sdec_exec (map spec_filter fs) src = Some r -> xz_blockdec fs src = Ok r.
Proof.
  unfold xz_sdec_exec, xz_sdec_gen, xz_blockdec, xz_blockdec_gen. intros H.
  destruct (s_chain_deltas (map spec_filter fs)) as [[ds dict]|] eqn:Ec; [|discriminate]. cbn [olet] in H.
  destruct (s_chain_deltas_crate fs ds dict Ec) as [C1 C2]. rewrite C1, C2. cbn [obind].
  destruct (lzma2_payload_dec dict src) as [[raw rest]| | |]; try discriminate. cbn [obind].
  destruct (s_undelta ds raw) as [data|] eqn:Eu; [|discriminate]. cbn [olet] in H. inversion H; subst r.
  destruct (s_undelta_crate ds raw data Eu) as (st & Pst). rewrite Pst. reflexivity.
Qed.

Lemma xz_sdec_exec_shrinks fs src x r : bytes_ok src = true -> xz_sdec_exec fs src = Some (x, r) ->
  zlen r <= zlen src /\ bytes_ok r = true.
Proof.
  unfold xz_sdec_exec, xz_sdec_gen. intros Hb H.
  destruct (s_chain_deltas fs) as [[ds dict]|]; [|discriminate]. cbn [olet] in H.
  pose proof (lzma2_payload_dec_shrb dict src Hb) as S.
  destruct (lzma2_payload_dec dict src) as [[raw rest]| | |]; try discriminate.
  destruct (s_undelta ds raw) as [data|]; [|discriminate]. cbn [olet] in H. inversion H; subst x r.
  cbn [shrkb] in S. destruct S as [S1 S2]. split; [unfold zlen; lia | exact S2].
Qed.

Theorem C03_in_xz_exec_thm : forall f d, bytes_ok f = true ->
  xz_spec_decode_c false f = Some d -> xz_decode_c xz_fixed true f = Ok (d, []).
Proof.
  intros f d Hb H. unfold xz_spec_decode_c in H. unfold xz_decode_c.
  exact (C03_in_xz_gen xz_sdec_exec xz_blockdec xz_sdec_exec_blockdec xz_sdec_exec_shrinks f d Hb H).
Qed.

Theorem C03_in_xz_first_exec_thm : forall f d r, bytes_ok f = true ->
  xz_spec_decode_first xz_sdec_exec false f = Some (d, r) -> xz_decode_c xz_fixed false f = Ok (d, r).
Proof.
  intros f d r Hb H. unfold xz_decode_c.
  exact (C03_in_xz_first_gen xz_sdec_exec xz_blockdec xz_sdec_exec_blockdec xz_sdec_exec_shrinks f d r Hb H).
Qed.

(* ------------------------------------------------------------------------------------------- *)
(* A concrete valid file exercising what the crate's writer never emits: two Streams separated by
   Stream Padding; the first Stream has two Blocks with different chains - Block A with both optional
   size fields in its header (LZMA2 only), Block B with Delta(1) + LZMA2 - and CRC32 checks; the
   second Stream is the "hello world" file of ContainerRefutations.v. *)
Definition c03in_hdrA_body : list Z := [2; 192; 7; 3; 33; 1; 0; 0].   (* 12 bytes with the CRC32; Compressed Size 7, Uncompressed Size 3 *)
Definition c03in_hdrA : list Z := c03in_hdrA_body ++ crc32_bytes c03in_hdrA_body.
Definition c03in_blockA : list Z :=
  c03in_hdrA ++ [1; 0; 2; 1; 2; 3; 0] ++ [0] ++ crc32_bytes [1; 2; 3].
Definition c03in_hdrB : list Z :=
  match xz_block_header (mkXzopts 1 None [(FDelta, 1)] 4096) with Ok h => h | _ => [] end.
(* stored LZMA2 chunk 4, 5 = Delta(1) image of 4, 9 *)
Definition c03in_blockB : list Z :=
  c03in_hdrB ++ [1; 0; 1; 4; 5; 0] ++ [0; 0] ++ crc32_bytes [4; 9].
Definition c03in_recs : list (Z * Z) := [(12 + 7 + 4, 3); (zlen c03in_hdrB + 6 + 4, 2)].
Definition c03in_stream1 : list Z :=
  xz_stream_header 1 ++ c03in_blockA ++ c03in_blockB ++
  (match xz_index c03in_recs with Ok i => i | _ => [] end) ++ xz_stream_footer 1 c03in_recs.
Definition c03in_file : list Z := c03in_stream1 ++ [0; 0; 0; 0] ++ Format.ContainerRefutations.w_hello.
Definition c03in_content : list Z := [1; 2; 3; 4; 9] ++ Format.ContainerRefutations.w_content.

Lemma c03in_file_valid :
  bytes_ok c03in_file = true /\
  xz_spec_decode_c false c03in_file = Some c03in_content /\
  xz_spec_decode_first xz_sdec_exec false c03in_file = Some ([1; 2; 3; 4; 9], [0; 0; 0; 0] ++ Format.ContainerRefutations.w_hello).
Proof. vm_compute. repeat split; reflexivity. Qed.

(* what the theorems then give, checked by evaluation as well *)
Lemma c03in_file_decoded :
  xz_decode_c xz_fixed true c03in_file = Ok (c03in_content, []) /\
  xz_decode_c xz_fixed false c03in_file = Ok ([1; 2; 3; 4; 9], [0; 0; 0; 0] ++ Format.ContainerRefutations.w_hello).
Proof. vm_compute. split; reflexivity. Qed.

(* a Block Header with a BCJ filter (x86, start offset 16) before LZMA2: accepted by the
   specification, parsed by the crate to the chain the specification sees *)
Definition c03in_hdr_bcj_body : list Z := [3; 1; 4; 4; 16; 0; 0; 0; 33; 1; 0; 0].
Definition c03in_hdr_bcj : list Z := c03in_hdr_bcj_body ++ crc32_bytes c03in_hdr_bcj_body.
Lemma c03in_hdr_bcj_valid :
  s_block_header (c03in_hdr_bcj ++ [7]) = Some (mkSblockhdr 16 None None [SBcj 4 16; SLzma2 4096], [7]) /\
  xz_parse_block_header (c03in_hdr_bcj ++ [7]) = Ok (Some (mkBhdr None None [(FX86, 16); (FLZMA2, 4096)]), [7]) /\
  map spec_filter [(FX86, 16); (FLZMA2, 4096)] = [SBcj 4 16; SLzma2 4096].
Proof. vm_compute. repeat split; reflexivity. Qed.
