(* Format/XzSplitProofs.v — block splitting of XZWriter::write (C18, and the "never lose, duplicate or
   reorder" half of C02): for every call partition, the blocks of the finished stream concatenate to
   the concatenation of the slices written, every block holds at most the block size, all but the
   last exactly the block size, no block is empty; the loop never runs out of fuel.  The historical
   code (limit tested once per loop iteration) is refuted. *)
From LzVerif Require Import Base.Bytes Format.XzFormat.
Ltac Zify.zify_post_hook ::= Z.div_mod_to_equations.

Lemma zlen_app {A} (a b : list A) : zlen (a ++ b) = zlen a + zlen b.
Proof. unfold zlen. rewrite app_length. lia. Qed.
Lemma zlen_rev {A} (a : list A) : zlen (rev a) = zlen a.
Proof. unfold zlen. rewrite rev_length. reflexivity. Qed.
Lemma zlen_rev_append {A} (a b : list A) : zlen (rev_append a b) = zlen a + zlen b.
Proof. rewrite rev_append_rev, zlen_app, zlen_rev. reflexivity. Qed.
Lemma zlen_nonneg {A} (a : list A) : 0 <= zlen a.
Proof. unfold zlen. lia. Qed.
Lemma zlen_nil {A} : zlen (@nil A) = 0.
Proof. reflexivity. Qed.
Lemma zlen_cons {A} (x : A) l : zlen (x :: l) = 1 + zlen l.
Proof. unfold zlen. cbn [length]. lia. Qed.
Lemma zlen_zero_nil {A} (l : list A) : zlen l = 0 -> l = [].
Proof. destruct l; [reflexivity|]. rewrite zlen_cons. pose proof (zlen_nonneg l). lia. Qed.
Lemma zlen_firstn {A} n (l : list A) : 0 <= n <= zlen l -> zlen (firstn (Z.to_nat n) l) = n.
Proof. unfold zlen. intros H. rewrite firstn_length. lia. Qed.
Lemma zlen_skipn {A} n (l : list A) : 0 <= n <= zlen l -> zlen (skipn (Z.to_nat n) l) = zlen l - n.
Proof. unfold zlen. intros H. rewrite skipn_length. lia. Qed.

(* the data accepted so far, in order *)
Definition sp_data (s : xzsplit) : list Z := concat (rev (sp_done s)) ++ rev (sp_cur s).

Definition sp_inv (b : Z) (s : xzsplit) : Prop :=
  sp_size s = zlen (sp_cur s) /\ sp_size s <= b /\ Forall (fun blk => zlen blk = b) (sp_done s).

Lemma sp_data_close s : sp_data (sp_close s) = sp_data s.
Proof.
  unfold sp_data, sp_close; cbn [sp_done sp_cur]. rewrite frev_rev. cbn [rev].
  rewrite concat_app. cbn [concat]. rewrite !app_nil_r. reflexivity.
Qed.

Lemma sp_data_push s buf : sp_data (sp_push s buf) = sp_data s ++ buf.
Proof.
  unfold sp_data, sp_push; cbn [sp_done sp_cur]. rewrite rev_append_rev, rev_app_distr, rev_involutive.
  rewrite app_assoc. reflexivity.
Qed.

Lemma sp_inv_init b : 0 <= b -> sp_inv b xzsplit_init.
Proof. intros Hb. unfold sp_inv, xzsplit_init; cbn. repeat split; [lia | constructor]. Qed.

Lemma xz_write_loop_nil fuel fx bs s : xz_write_loop fuel fx bs s [] = Ok s.
Proof. destruct fuel; reflexivity. Qed.

(* one run of the while loop, repaired code, block size set *)
Lemma xz_write_loop_fixed b : 1 <= b -> forall fuel s rem,
  sp_inv b s -> (length rem < fuel)%nat ->
  exists s', xz_write_loop fuel xz_fixed (Some b) s rem = Ok s' /\ sp_inv b s' /\
             sp_data s' = sp_data s ++ rem /\ (rem <> [] -> 0 < sp_size s').
Proof.
  intros Hb fuel. induction fuel as [|f IH]; intros s rem Hinv Hf; [lia|].
  destruct rem as [|x rem'] eqn:Erem.
  - exists s. cbn [xz_write_loop]. rewrite app_nil_r.
    split; [reflexivity|]. split; [exact Hinv|]. split; [reflexivity|]. congruence.
  - rewrite <- Erem in *. assert (Hne : rem <> []) by (rewrite Erem; discriminate).
    assert (Hlen : 1 <= zlen rem) by (rewrite Erem, zlen_cons; pose proof (zlen_nonneg rem'); lia).
    replace (xz_write_loop (S f) xz_fixed (Some b) s rem) with
      (let s1 := if sp_should_finish (Some b) s then sp_close s else s in
       let n := Z.to_nat (Z.min (zlen rem) (b - sp_size s1)) in
       xz_write_loop f xz_fixed (Some b) (sp_push s1 (firstn n rem)) (skipn n rem))
      by (rewrite Erem; reflexivity).
    cbv zeta.
    set (s1 := if sp_should_finish (Some b) s then sp_close s else s).
    assert (H1 : sp_inv b s1 /\ sp_size s1 < b /\ sp_data s1 = sp_data s).
    { destruct Hinv as (Hs & Hle & Hd). unfold s1, sp_should_finish.
      destruct (Z.leb_spec b (sp_size s)) as [Hge|Hlt].
      - split; [|split; [cbn; lia | apply sp_data_close]].
        unfold sp_inv, sp_close; cbn [sp_size sp_cur sp_done]. repeat split; [lia|].
        constructor; [|assumption]. rewrite frev_rev, zlen_rev. lia.
      - split; [|split; [lia | reflexivity]]. repeat split; assumption. }
    destruct H1 as (Hinv1 & Hlt1 & Hdata1).
    set (n := Z.min (zlen rem) (b - sp_size s1)).
    assert (Hn : 1 <= n <= zlen rem) by (unfold n; lia).
    destruct Hinv1 as (Hs1 & Hle1 & Hd1).
    assert (Hinv2 : sp_inv b (sp_push s1 (firstn (Z.to_nat n) rem))).
    { unfold sp_inv, sp_push; cbn [sp_size sp_cur sp_done].
      rewrite zlen_rev_append, zlen_firstn by lia. repeat split; [lia|unfold n; lia|assumption]. }
    assert (Hf2 : (length (skipn (Z.to_nat n) rem) < f)%nat).
    { rewrite skipn_length. unfold zlen in Hn. lia. }
    destruct (IH _ _ Hinv2 Hf2) as (s' & E & Hinv' & Hdata' & Hpos').
    exists s'. split; [exact E|]. split; [exact Hinv'|]. split.
    + rewrite Hdata', sp_data_push, Hdata1, <- app_assoc, firstn_skipn. reflexivity.
    + intros _. destruct (skipn (Z.to_nat n) rem) as [|y t] eqn:Esk.
      * rewrite xz_write_loop_nil in E. inversion E; subst s'. unfold sp_push; cbn [sp_size].
        rewrite zlen_firstn by lia. pose proof (zlen_nonneg (sp_cur s1)). lia.
      * apply Hpos'. discriminate.
Qed.

(* without a block size one iteration takes everything *)
Lemma xz_write_loop_none fx fuel s rem :
  sp_size s = zlen (sp_cur s) -> (length rem < fuel)%nat ->
  exists s', xz_write_loop fuel fx None s rem = Ok s' /\ sp_size s' = zlen (sp_cur s') /\
             sp_done s' = sp_done s /\ sp_data s' = sp_data s ++ rem /\ (rem <> [] -> 0 < sp_size s').
Proof.
  intros Hs Hf. destruct fuel as [|f]; [lia|]. destruct rem as [|x rem'] eqn:Erem.
  - exists s. cbn [xz_write_loop]. rewrite app_nil_r. repeat split; auto. congruence.
  - rewrite <- Erem. assert (Hlen : 1 <= zlen rem) by (rewrite Erem, zlen_cons; pose proof (zlen_nonneg rem'); lia).
    replace (xz_write_loop (S f) fx None s rem) with
      (xz_write_loop f fx None (sp_push s (firstn (Z.to_nat (zlen rem)) rem)) (skipn (Z.to_nat (zlen rem)) rem))
      by (rewrite Erem; reflexivity).
    assert (Ez : Z.to_nat (zlen rem) = length rem) by (unfold zlen; lia).
    rewrite Ez, firstn_all, skipn_all.
    rewrite xz_write_loop_nil.
    exists (sp_push s rem); split; [reflexivity|]; unfold sp_push; cbn [sp_size sp_cur sp_done].
    all: repeat split; try (apply sp_data_push).
    all: try (rewrite zlen_rev_append; lia).
    all: intros _; pose proof (zlen_nonneg (sp_cur s)); lia.
Qed.

Lemma xz_write_calls_fixed b : 1 <= b -> forall parts s,
  sp_inv b s ->
  exists s', xz_write_calls xz_fixed (Some b) s parts = Ok s' /\ sp_inv b s' /\
             sp_data s' = sp_data s ++ concat parts /\
             (sp_size s' = 0 -> sp_size s = 0 /\ concat parts = []).
Proof.
  intros Hb parts. induction parts as [|p ps IH]; intros s Hinv.
  - exists s. cbn [xz_write_calls concat]. rewrite app_nil_r. auto.
  - cbn [xz_write_calls concat]. unfold xz_write_call.
    destruct (xz_write_loop_fixed b Hb (S (length p)) s p Hinv ltac:(lia)) as (s1 & E1 & I1 & D1 & P1).
    rewrite E1. cbn [obind].
    destruct (IH s1 I1) as (s2 & E2 & I2 & D2 & Z2).
    exists s2. split; [exact E2|]. split; [exact I2|]. split.
    + rewrite D2, D1, app_assoc. reflexivity.
    + intros Hz. destruct (Z2 Hz) as (Hz1 & Hps). destruct p as [|x p'].
      * rewrite xz_write_loop_nil in E1. inversion E1; subst s1. split; [assumption|]. cbn [app]. assumption.
      * specialize (P1 ltac:(discriminate)). lia.
Qed.

Lemma xz_write_calls_none fx : forall parts s,
  sp_size s = zlen (sp_cur s) ->
  exists s', xz_write_calls fx None s parts = Ok s' /\ sp_size s' = zlen (sp_cur s') /\
             sp_done s' = sp_done s /\ sp_data s' = sp_data s ++ concat parts.
Proof.
  induction parts as [|p ps IH]; intros s Hs.
  - exists s. cbn [xz_write_calls concat]. rewrite app_nil_r. auto.
  - cbn [xz_write_calls concat]. unfold xz_write_call.
    destruct (xz_write_loop_none fx (S (length p)) s p Hs ltac:(lia)) as (s1 & E1 & S1 & Dn1 & D1 & _).
    rewrite E1. cbn [obind].
    destruct (IH s1 S1) as (s2 & E2 & S2 & Dn2 & D2).
    exists s2. repeat split; try assumption; [congruence|]. rewrite D2, D1, app_assoc. reflexivity.
Qed.

(* all elements but the last satisfy P *)
Definition all_but_last {A} (P : A -> Prop) (l : list A) : Prop :=
  forall a t, l = a ++ t -> t <> [] -> Forall P a.

(* C18 / C02 (XZ block splitting), repaired code, block size set (XZWriter::new raises it to at
   least the dictionary size; see xz_block_bound below) *)
Theorem xz_blocks_fixed_some : forall b parts, 1 <= b ->
  exists blocks, xz_blocks_of xz_fixed (Some b) parts = Ok blocks /\
    concat blocks = concat parts /\
    Forall (fun blk => 1 <= zlen blk <= b) blocks /\
    all_but_last (fun blk => zlen blk = b) blocks.
Proof.
  intros b parts Hb. unfold xz_blocks_of.
  destruct (xz_write_calls_fixed b Hb parts xzsplit_init (sp_inv_init b ltac:(lia))) as (s & E & (Hs & Hle & Hd) & D & _).
  rewrite E. cbn [obind]. eexists. split; [reflexivity|].
  rewrite frev_rev. unfold sp_data in D. cbn [xzsplit_init sp_done sp_cur rev concat app] in D.
  destruct (Z.ltb_spec 0 (sp_size s)) as [Hpos|Hz].
  - rewrite frev_rev. cbn [rev]. split; [|split].
    + rewrite concat_app. cbn [concat]. rewrite app_nil_r. exact D.
    + apply Forall_app. split.
      * apply Forall_rev. eapply Forall_impl; [|exact Hd]. cbn. intros; lia.
      * constructor; [|constructor]. rewrite zlen_rev. lia.
    + intros a t Ea Ht. destruct t as [|y t'] using rev_ind; [congruence|]. clear IHt'.
      rewrite app_assoc in Ea. apply app_inj_tail in Ea as [Ea _].
      apply Forall_rev in Hd. rewrite Ea in Hd. apply Forall_app in Hd. apply Hd.
  - assert (Hc : sp_cur s = []) by (apply zlen_zero_nil; pose proof (zlen_nonneg (sp_cur s)); lia).
    rewrite Hc in D. cbn [rev] in D. rewrite app_nil_r in D. split; [exact D|]. split.
    + apply Forall_rev. eapply Forall_impl; [|exact Hd]. cbn. intros; lia.
    + intros a t Ea Ht. apply Forall_rev in Hd. rewrite Ea in Hd. apply Forall_app in Hd. apply Hd.
Qed.

(* no block size: a single block holding everything, or no block at all for empty input *)
Theorem xz_blocks_none : forall fx parts,
  xz_blocks_of fx None parts = Ok (match concat parts with [] => [] | d => [d] end).
Proof.
  intros fx parts. unfold xz_blocks_of.
  destruct (xz_write_calls_none fx parts xzsplit_init eq_refl) as (s & E & Hs & Hdn & D).
  rewrite E. cbn [obind]. unfold sp_data in D. rewrite Hdn in D.
  cbn [xzsplit_init sp_done sp_cur rev concat app] in D. rewrite Hdn. cbn [xzsplit_init sp_done].
  destruct (Z.ltb_spec 0 (sp_size s)) as [Hpos|Hz].
  - rewrite !frev_rev. cbn [rev app]. rewrite D. destruct (concat parts) eqn:Ec; [|reflexivity].
    exfalso. apply (f_equal (@length Z)) in D. rewrite rev_length in D. unfold zlen in Hs. cbn in D. lia.
  - assert (Hc : sp_cur s = []) by (apply zlen_zero_nil; pose proof (zlen_nonneg (sp_cur s)); lia).
    rewrite Hc in D. cbn in D. rewrite <- D. reflexivity.
Qed.

(* C18 in the property's words: with a block size option every block holds at most
   max(block_size, dict_size) bytes (XZWriter::new clamps the option), all but the last exactly
   that many, and the blocks are the input in order *)
Theorem xz_block_bound : forall check bs filters dict parts o,
  1 <= bs ->
  xzw_new (mkXzopts check (Some bs) filters dict) = Ok o ->
  exists blocks, xz_blocks_of xz_fixed (xo_block_size o) parts = Ok blocks /\
    concat blocks = concat parts /\
    Forall (fun blk => 1 <= zlen blk <= Z.max bs dict) blocks /\
    all_but_last (fun blk => zlen blk = Z.max bs dict) blocks.
Proof.
  intros check bs filters dict parts o Hbs Hnew. unfold xzw_new in Hnew. cbn [xo_filters xo_block_size xo_dict xo_check] in Hnew.
  destruct (3 <? zlen filters); [discriminate|]. inversion Hnew; subst o; clear Hnew. cbn [xo_block_size].
  apply xz_blocks_fixed_some. lia.
Qed.

(* F20: the historical write() tested the limit once per loop iteration and then handed the whole
   remaining buffer to the block: one write of 5000 bytes with block_size = dict = 4096 gave one
   block of 5000 bytes; writes of 1000 bytes gave blocks of 5000 bytes. *)
Theorem xz_block_bound_refuted :
  exists bs parts blocks,
    xz_blocks_of xz_orig (Some bs) parts = Ok blocks /\ exists blk, In blk blocks /\ bs < zlen blk.
Proof.
  exists 4096, [repeatn 7 5000], [repeatn 7 5000].
  split; [vm_compute; reflexivity|]. exists (repeatn 7 5000). split; [left; reflexivity | vm_compute; reflexivity].
Qed.

Theorem xz_block_bound_refuted_small_writes :
  exists bs parts blocks,
    Forall (fun p => zlen p <= 1000) parts /\
    xz_blocks_of xz_orig (Some bs) parts = Ok blocks /\ exists blk, In blk blocks /\ bs < zlen blk.
Proof.
  exists 4096, (repeatn (repeatn 7 1000) 5), [repeatn 7 5000].
  split; [repeat constructor; vm_compute; discriminate|].
  split; [vm_compute; reflexivity|]. exists (repeatn 7 5000). split; [left; reflexivity | vm_compute; reflexivity].
Qed.
