(* Format/Sha256.v — SHA-256 (FIPS 180-4) over byte lists, executable; the `sha2` crate is used by
   src/xz.rs for CheckType::Sha256.  Definitions only. *)
From LzVerif Require Export Base.Bytes.

Definition P32 : Z := 4294967296.
Definition W32MASK : Z := 4294967295.

Definition rotr32 (x n : Z) : Z := Z.lor (Z.shiftr x n) ((Z.shiftl x (32 - n)) mod P32).
Definition sha_ch (x y z : Z) : Z := Z.lxor (Z.land x y) (Z.land (Z.lxor x W32MASK) z).
Definition sha_maj (x y z : Z) : Z := Z.lxor (Z.lxor (Z.land x y) (Z.land x z)) (Z.land y z).
Definition sha_bsig0 (x : Z) : Z := Z.lxor (rotr32 x 2) (Z.lxor (rotr32 x 13) (rotr32 x 22)).
Definition sha_bsig1 (x : Z) : Z := Z.lxor (rotr32 x 6) (Z.lxor (rotr32 x 11) (rotr32 x 25)).
Definition sha_ssig0 (x : Z) : Z := Z.lxor (rotr32 x 7) (Z.lxor (rotr32 x 18) (Z.shiftr x 3)).
Definition sha_ssig1 (x : Z) : Z := Z.lxor (rotr32 x 17) (Z.lxor (rotr32 x 19) (Z.shiftr x 10)).

Definition sha_k : list Z :=
  [1116352408; 1899447441; 3049323471; 3921009573; 961987163; 1508970993; 2453635748; 2870763221;
   3624381080; 310598401; 607225278; 1426881987; 1925078388; 2162078206; 2614888103; 3248222580;
   3835390401; 4022224774; 264347078; 604807628; 770255983; 1249150122; 1555081692; 1996064986;
   2554220882; 2821834349; 2952996808; 3210313671; 3336571891; 3584528711; 113926993; 338241895;
   666307205; 773529912; 1294757372; 1396182291; 1695183700; 1986661051; 2177026350; 2456956037;
   2730485921; 2820302411; 3259730800; 3345764771; 3516065817; 3600352804; 4094571909; 275423344;
   430227734; 506948616; 659060556; 883997877; 958139571; 1322822218; 1537002063; 1747873779;
   1955562222; 2024104815; 2227730452; 2361852424; 2428436474; 2756734187; 3204031479; 3329325298].

Definition sha_state : Type := (Z * Z * Z * Z * Z * Z * Z * Z)%type.
Definition sha_h0 : sha_state :=
  (1779033703, 3144134277, 1013904242, 2773480762, 1359893119, 2600822924, 528734635, 1541459225).

(* message schedule; [ws] holds W[t-1], W[t-2], ... (newest first) *)
Fixpoint sha_extend (n : nat) (ws : list Z) : list Z :=
  match n with
  | O => ws
  | S k =>
      match ws with
      | w1 :: w2 :: w3 :: w4 :: w5 :: w6 :: w7 :: w8 :: w9 :: w10 :: w11 :: w12 :: w13 :: w14 :: w15 :: w16 :: _ =>
          sha_extend k (((sha_ssig1 w2 + w7 + sha_ssig0 w15 + w16) mod P32) :: ws)
      | _ => ws
      end
  end.

Definition sha_round (st : sha_state) (kw : Z * Z) : sha_state :=
  let '(a, b, c, d, e, f, g, h) := st in
  let '(k, w) := kw in
  let t1 := (h + sha_bsig1 e + sha_ch e f g + k + w) mod P32 in
  let t2 := (sha_bsig0 a + sha_maj a b c) mod P32 in
  ((t1 + t2) mod P32, a, b, c, (d + t1) mod P32, e, f, g).

(* big-endian words of a 64-byte block *)
Fixpoint be_words (l : list Z) : list Z :=
  match l with
  | a :: b :: c :: d :: t => (((a * 256 + b) * 256 + c) * 256 + d) :: be_words t
  | _ => []
  end.

Definition sha_compress (st : sha_state) (block : list Z) : sha_state :=
  let ws := frev (sha_extend 48 (frev (be_words block))) in
  let '(a, b, c, d, e, f, g, h) := st in
  let '(a1, b1, c1, d1, e1, f1, g1, h1) := fold_left sha_round (combine sha_k ws) st in
  ((a + a1) mod P32, (b + b1) mod P32, (c + c1) mod P32, (d + d1) mod P32,
   (e + e1) mod P32, (f + f1) mod P32, (g + g1) mod P32, (h + h1) mod P32).

Fixpoint sha_blocks (fuel : nat) (st : sha_state) (l : list Z) : sha_state :=
  match fuel with
  | O => st
  | S f =>
      match l with
      | [] => st
      | _ => sha_blocks f (sha_compress st (firstn 64 l)) (skipn 64 l)
      end
  end.

Fixpoint be_bytes (n : nat) (v : Z) (acc : list Z) : list Z :=
  match n with
  | O => acc
  | S k => be_bytes k (v / 256) ((v mod 256) :: acc)
  end.

(* padding: 0x80, zeros up to 56 mod 64, 64-bit big-endian bit length *)
Definition sha_pad (l : list Z) : list Z :=
  let n := zlen l in
  let k := (55 - n) mod 64 in
  l ++ 128 :: repeatn 0 (Z.to_nat k) ++ be_bytes 8 (8 * n) [].

Definition sha256 (l : list Z) : list Z :=
  let p := sha_pad l in
  let '(a, b, c, d, e, f, g, h) := sha_blocks (S (Nat.div (length p) 64)) sha_h0 p in
  be_bytes 4 a (be_bytes 4 b (be_bytes 4 c (be_bytes 4 d (be_bytes 4 e (be_bytes 4 f (be_bytes 4 g (be_bytes 4 h []))))))).
