(* Format/Crc.v — CRC-32/ISO-HDLC and CRC-64/XZ (the two instances of the `crc` crate used by
   src/xz.rs and src/lzip.rs), bitwise, reflected, executable.  Definitions only. *)
From LzVerif Require Export Base.Bytes.

Definition CRC32_POLY : Z := 3988292384.               (* 0xEDB88320, reflected 0x04C11DB7 *)
Definition CRC64_POLY : Z := 14514072000185962306.     (* 0xC96C5795D7870F42, reflected 0x42F0E1EBA9EA3693 *)
Definition M32 : Z := 4294967295.
Definition M64 : Z := 18446744073709551615.

(* one bit of the reflected shift register *)
Definition crc_step (poly c : Z) : Z :=
  if Z.odd c then Z.lxor (Z.shiftr c 1) poly else Z.shiftr c 1.

(* one input byte: xor into the low byte, eight register steps *)
Definition crc_byte (poly c b : Z) : Z :=
  let s := crc_step poly in
  s (s (s (s (s (s (s (s (Z.lxor c b)))))))).

(* Digest::update over a byte string, starting from register value [c] *)
Definition crc_update (poly c : Z) (l : list Z) : Z := fold_left (crc_byte poly) l c.

(* CRC_32_ISO_HDLC: init 0xFFFFFFFF, refin/refout, xorout 0xFFFFFFFF *)
Definition crc32 (l : list Z) : Z := Z.lxor (crc_update CRC32_POLY M32 l) M32.
(* CRC_64_XZ: init all ones, refin/refout, xorout all ones *)
Definition crc64 (l : list Z) : Z := Z.lxor (crc_update CRC64_POLY M64 l) M64.

(* the little-endian byte fields written to the files *)
Definition crc32_bytes (l : list Z) : list Z := le_bytes 4 (crc32 l).
Definition crc64_bytes (l : list Z) : list Z := le_bytes 8 (crc64 l).
