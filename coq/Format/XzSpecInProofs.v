(* Format/XzSpecInProofs.v — C03_in (XZ), part 1: what the independent specification accepts, the
   crate's parsers accept with the same result.  Proved here, for arbitrary byte strings:
   multibyte integers (both parsers of the crate agree with the specification's decoder), stream
   header, stream footer.  Continued in XzSpecIn2Proofs.v (canonical multibyte integers, filter
   flags, block header), XzSpecIn3Proofs.v (blocks, index, streams, the theorems) and
   XzSpecIn4Proofs.v (closed executable instance, example files). *)
From LzVerif Require Import Base.Bytes Format.Crc Format.CrcProofs Format.Vli Format.VliProofs
  Format.XzFormat Format.XzSpec Format.XzSplitProofs Format.XzHeaderProofs Format.BitflipProofs
  Format.XzSoundProofs Format.XzSpecProofs.
Ltac Zify.zify_post_hook ::= Z.div_mod_to_equations.

Lemma byte_mod_land b : 0 <= b < 256 -> b mod 128 = Z.land b 127 /\ ((b <? 128) = (Z.land b 128 =? 0)).
Proof.
  intros Hb. pose proof (low_byte_facts b Hb) as F.
  repeat (apply andb_true_iff in F as [F ?]).
  repeat match goal with H : (_ =? _) = true |- _ => apply Z.eqb_eq in H end.
  split; [lia|]. destruct (Z.ltb_spec b 128) as [Hlt|Hge].
  - destruct (Z.ltb_spec b 128); [|lia]. rewrite H3. reflexivity.
  - destruct (Z.ltb_spec b 128); [lia|]. rewrite H3. reflexivity.
Qed.

Lemma s_vli_loop_S n b t i num :
  s_vli_loop (S n) (b :: t) i num =
  (if (0 <? i) && (b =? 0) then None else
   if b <? 128 then Some (num + (b mod 128) * 2 ^ (7 * i), t)
   else s_vli_loop n t (i + 1) (num + (b mod 128) * 2 ^ (7 * i))).
Proof. reflexivity. Qed.

(* the specification's loop and the crate's reader-style loop, in lockstep *)
Lemma s_vli_reader : forall n l i num v r,
  bytes_ok l = true -> 0 <= i -> Z.of_nat n + i <= 9 -> 0 <= num < 2 ^ (7 * i) ->
  s_vli_loop n l i num = Some (v, r) ->
  vli_parse_reader_loop n l num (7 * i) = Ok (v, r) /\
  vli_parse_slice_loop l num (7 * i) = Ok v /\
  skipn (Z.to_nat (vli_size_slice l)) l = r /\
  0 <= v < 2 ^ 63 /\ suffix r l.
Proof.
  induction n as [|n IH]; intros l i num v r Hb Hi Hn Hnum H; [discriminate|].
  destruct l as [|b t]; [discriminate|]. rewrite s_vli_loop_S in H.
  apply bok_cons in Hb as [Hbb Hbt].
  destruct ((0 <? i) && (b =? 0)) eqn:Enm; [discriminate|].
  destruct (byte_mod_land b Hbb) as [Em El].
  assert (Hsh : 7 * i <= 56) by lia.
  assert (P7 : 2 ^ (7 * (i + 1)) = 128 * 2 ^ (7 * i)).
  { replace (7 * (i + 1)) with (7 * i + 7) by lia. rewrite Z.pow_add_r by lia. change (2 ^ 7) with 128. lia. }
  assert (Hnum1 : 0 <= num + b mod 128 * 2 ^ (7 * i) < 2 ^ (7 * (i + 1))).
  { rewrite P7. assert (HM : 0 <= b mod 128 <= 127) by lia. generalize dependent (b mod 128). intros M _ HM.
    generalize dependent (2 ^ (7 * i)). intros X HX _. nia. }
  cbn [vli_parse_reader_loop vli_parse_slice_loop vli_size_slice].
  destruct (Z.leb_spec 63 (7 * i)); [lia|].
  rewrite <- Em, lor_shiftl_add by lia. rewrite <- El.
  destruct (Z.ltb_spec b 128) as [Hlt|Hge].
  - destruct (Z.ltb_spec b 128) as [_|]; [|lia].
    assert (Hfinal : 0 <= num + b mod 128 * 2 ^ (7 * i) < 2 ^ 63).
    { assert (2 ^ (7 * (i + 1)) <= 2 ^ 63) by (apply Z.pow_le_mono_r; lia). lia. }
    injection H as Hv Hr. subst v r. split; [reflexivity|]. split; [reflexivity|]. split; [reflexivity|].
    split; [exact Hfinal | apply suffix_cons].
  - destruct (Z.ltb_spec b 128) as [|_]; [lia|]. replace (7 * i + 7) with (7 * (i + 1)) by lia.
    destruct (IH t (i + 1) (num + b mod 128 * 2 ^ (7 * i)) v r Hbt ltac:(lia) ltac:(lia) Hnum1 H) as (R1 & R2 & R3 & R4 & R5).
    split; [exact R1|]. split; [exact R2|]. split.
    + pose proof (zlen_nonneg t). assert (0 <= vli_size_slice t).
      { clear. induction t as [|x t IHt]; cbn [vli_size_slice]; [lia|]. destruct (Z.land x 128 =? 0); lia. }
      replace (Z.to_nat (1 + vli_size_slice t)) with (S (Z.to_nat (vli_size_slice t))) by lia. cbn [skipn]. exact R3.
    + split; [exact R4|]. eapply suffix_trans; [exact R5 | apply suffix_cons].
Qed.

Theorem s_vli_crate l v r : bytes_ok l = true -> s_vli l = Some (v, r) ->
  vli_parse_reader l = Ok (v, r) /\ vli_parse_slice l = Ok v /\ vli_skip l = r /\ 0 <= v <= U63_MAX /\ suffix r l.
Proof.
  intros Hb H. unfold s_vli in H. unfold vli_parse_reader, vli_parse_slice, vli_skip.
  destruct (s_vli_reader 9 l 0 0 v r Hb ltac:(lia) ltac:(lia) ltac:(cbn; lia) H) as (R1 & R2 & R3 & R4 & R5).
  change (7 * 0) with 0 in R1, R2. split; [exact R1|]. split; [exact R2|]. split; [exact R3|]. split; [|exact R5].
  unfold U63_MAX. change (2 ^ 63) with 9223372036854775808 in R4. lia.
Qed.

Lemma s_eqb_eq a b : s_eqb a b = true -> a = b.
Proof.
  unfold s_eqb. intros H. apply andb_true_iff in H as [Hl Hf]. apply Z.eqb_eq in Hl. unfold zlen in Hl.
  assert (L : length a = length b) by lia. clear Hl.
  revert b L Hf. induction a as [|x t IH]; intros [|y u] L Hf; try discriminate; [reflexivity|].
  cbn [combine forallb fst snd] in Hf. apply andb_true_iff in Hf as [Hxy Hr]. apply Z.eqb_eq in Hxy.
  cbn [length] in L. f_equal; [exact Hxy | apply IH; [lia | exact Hr]].
Qed.

Lemma s_take_inv n src a b : s_take n src = Some (a, b) -> src = a ++ b /\ zlen a = n.
Proof.
  intros Ht. unfold s_take in Ht. destruct (Z.ltb_spec n 0); [discriminate|].
  destruct (Z.ltb_spec (zlen src) n); [discriminate|]. cbn [orb] in Ht. inversion Ht; subst.
  split; [symmetry; apply firstn_skipn | apply zlen_firstn; lia].
Qed.

(* the stream header *)
Theorem s_stream_header_crate l ct r : s_stream_header false l = Some (ct, r) ->
  xz_parse_stream_header l = Ok (ct, r).
Proof.
  unfold s_stream_header. intros H.
  destruct (s_take 6 l) as [[magic r1]|] eqn:E1; [|discriminate]. cbn [olet] in H.
  destruct (s_eqb magic S_HEADER_MAGIC) eqn:Em; [|discriminate]. cbn [guard olet] in H.
  destruct (s_take 2 r1) as [[flags r2]|] eqn:E2; [|discriminate]. cbn [olet] in H.
  destruct (s_take 4 r2) as [[crc r3]|] eqn:E3; [|discriminate]. cbn [olet] in H.
  destruct (Z.eqb_spec (le_value crc) (crc32 flags)) as [V|]; [|discriminate]. cbn [guard olet] in H.
  destruct flags as [|f0 [|f1 [|? ?]]]; try discriminate.
  destruct ((f0 =? 0) && (f1 <? 16)) eqn:Ef; [|discriminate]. cbn [guard olet] in H.
  destruct (s_check_supported f1) eqn:Es; [|discriminate]. cbn [orb guard olet] in H. inversion H; subst ct r3.
  apply andb_true_iff in Ef as [Ef0 _]. apply Z.eqb_eq in Ef0. subst f0.
  apply s_take_inv in E1 as [E1 L1]. apply s_take_inv in E2 as [E2 L2]. apply s_take_inv in E3 as [E3 L3].
  apply s_eqb_eq in Em. change S_HEADER_MAGIC with XZ_MAGIC in Em.
  subst magic l r1 r2.
  unfold xz_parse_stream_header. rewrite (xz_take_app_n 6 XZ_MAGIC) by reflexivity. cbn [obind]. rewrite bytes_eqb_refl. cbn [negb].
  unfold xz_parse_flags_crc. rewrite (xz_take_app_n 2 [0; f1]) by reflexivity. cbn [obind Z.eqb negb].
  assert (Hk : check_known f1 = true) by exact Es. rewrite Hk. cbn [negb].
  rewrite (xz_take_app_n 4) by exact L3. cbn [obind]. rewrite V, Z.eqb_refl. reflexivity.
Qed.

(* the stream footer: the crate does not look at the backward size *)
Theorem s_footer_crate ct isz l r : s_footer ct isz l = Some r ->
  exists bw, xz_parse_footer l = Ok (bw, xz_stream_flags ct, r).
Proof.
  unfold s_footer. intros H.
  destruct (s_take 4 l) as [[crc r1]|] eqn:E1; [|discriminate]. cbn [olet] in H.
  destruct (s_take 4 r1) as [[bwb r2]|] eqn:E2; [|discriminate]. cbn [olet] in H.
  destruct (s_take 2 r2) as [[fl r3]|] eqn:E3; [|discriminate]. cbn [olet] in H.
  destruct (s_take 2 r3) as [[mg r4]|] eqn:E4; [|discriminate]. cbn [olet] in H.
  destruct (Z.eqb_spec (le_value crc) (crc32 (bwb ++ fl))) as [V|]; [|discriminate]. cbn [guard olet] in H.
  destruct ((le_value bwb + 1) * 4 =? isz); [|discriminate]. cbn [guard olet] in H.
  destruct (s_eqb fl [0; ct]) eqn:Ef; [|discriminate]. cbn [guard olet] in H.
  destruct (s_eqb mg S_FOOTER_MAGIC) eqn:Em; [|discriminate]. cbn [guard olet] in H. inversion H; subst r4.
  apply s_take_inv in E1 as [E1 L1]. apply s_take_inv in E2 as [E2 L2]. apply s_take_inv in E3 as [E3 L3].
  apply s_take_inv in E4 as [E4 L4]. subst l r1 r2 r3.
  apply s_eqb_eq in Ef. apply s_eqb_eq in Em. subst fl mg.
  exists (le_value bwb). unfold xz_parse_footer.
  rewrite (xz_take_app_n 4) by exact L1. cbn [obind]. rewrite (xz_take_app_n 4) by exact L2. cbn [obind].
  rewrite (xz_take_app_n 2 [0; ct]) by reflexivity. cbn [obind]. rewrite V, Z.eqb_refl. cbn [negb].
  rewrite (xz_take_app_n 2 S_FOOTER_MAGIC) by reflexivity. cbn [obind].
  change (bytes_eqb S_FOOTER_MAGIC XZ_FOOTER_MAGIC) with true. cbn [negb]. reflexivity.
Qed.
