(* Format/XzFormat.v — byte-level models of src/xz/writer.rs (XZWriter) and src/xz/reader.rs
   (XZReader), plus the helpers of src/xz.rs they use.  Definitions only.

   Conventions.
   * A source is the list of bytes the underlying reader will still deliver (a perfect in-memory
     source: `read` returns min(wanted, available), `read_exact` fails with UnexpectedEof when
     fewer bytes are left).  Short reads / I/O faults are C05's business.
   * Counters of bytes actually processed (u64 in the code) are plain Z: they cannot wrap without
     2^64 bytes of I/O.  Every *computed* field (`as u8`, `as u32`, shifts) carries its wrap.
   * The code under /repo after the "fix:" patches of repo-patches/ is the model with [xz_fixed];
     the historical behaviour is kept under [xz_orig] so that its refutations stay checked.
   * BlockHeader::parse works with an index [offset] into [header_data]; the model carries the
     suffix header_data[offset..] instead.  Each test of the code is restated on the suffix:
       offset >= len        <->  suffix = []
       offset + k > len     <->  length suffix < k
       offset < len - 4     <->  length suffix > 4
   * LZMA2 payloads are decoded by Codec/Lzma2Dec.v.  Pre-filters: Delta (Filter/Delta.v) is
     executed; BCJ filters are an EXTENSION POINT: a block whose chain contains one makes the
     executable reader model answer [Err E_MODEL_SKIP] ("not covered by the model"), which the
     driver prints as SKIP. *)
From LzVerif Require Export Base.Bytes Format.Crc Format.Sha256 Format.Vli Filter.Delta Codec.Lzma2Dec.

Definition E_MODEL_SKIP : Z := 77.   (* not an error kind of the crate: "outside the executable model" *)

Definition XZ_MAGIC : list Z := [253; 55; 122; 88; 90; 0].
Definition XZ_FOOTER_MAGIC : list Z := [89; 90].

(* which of the repaired defects are repaired (DESIGN §7): F4 finish without open block, F5 unpadded
   size lacks the header, F11 with_capacity(untrusted), F13 empty destination buffer, F16 inverted
   magic test, F16b stream padding at EOF not checked, F20 block size not enforced inside a write *)
Record xzfix := mkXzfix { fx4 : bool; fx5 : bool; fx11 : bool; fx13 : bool; fx16 : bool; fx16b : bool; fx20 : bool }.
Definition xz_fixed : xzfix := mkXzfix true true true true true true true.
Definition xz_orig : xzfix := mkXzfix false false false false false false false.

(* ------------------------------------------------------------------------------------------- *)
(* check types *)

Definition check_known (ct : Z) : bool := (ct =? 0) || (ct =? 1) || (ct =? 4) || (ct =? 10).
Definition check_size (ct : Z) : Z :=
  if ct =? 1 then 4 else if ct =? 4 then 8 else if ct =? 10 then 32 else 0.
(* the check field: ChecksumCalculator::{update*, finalize} over the block's content *)
Definition xz_check_bytes (ct : Z) (content : list Z) : list Z :=
  if ct =? 1 then crc32_bytes content
  else if ct =? 4 then crc64_bytes content
  else if ct =? 10 then sha256 content
  else [].

(* ------------------------------------------------------------------------------------------- *)
(* filters *)

Inductive fkind := FDelta | FX86 | FPPC | FIA64 | FARM | FARMT | FSPARC | FARM64 | FRISCV | FLZMA2.

Definition fkind_id (k : fkind) : Z :=
  match k with
  | FDelta => 3 | FX86 => 4 | FPPC => 5 | FIA64 => 6 | FARM => 7 | FARMT => 8 | FSPARC => 9
  | FARM64 => 10 | FRISCV => 11 | FLZMA2 => 33
  end.

Definition fkind_of_id (id : Z) : option fkind :=
  if id =? 3 then Some FDelta else if id =? 4 then Some FX86 else if id =? 5 then Some FPPC
  else if id =? 6 then Some FIA64 else if id =? 7 then Some FARM else if id =? 8 then Some FARMT
  else if id =? 9 then Some FSPARC else if id =? 10 then Some FARM64 else if id =? 11 then Some FRISCV
  else if id =? 33 then Some FLZMA2 else None.

Definition fkind_is_bcj (k : fkind) : bool :=
  match k with FDelta | FLZMA2 => false | _ => true end.
Definition fkind_is_lzma2 (k : fkind) : bool := match k with FLZMA2 => true | _ => false end.

Definition bcj_alignment (k : fkind) : Z :=
  match k with
  | FX86 => 1 | FPPC => 4 | FIA64 => 16 | FARM => 4 | FARMT => 2 | FSPARC => 4 | FARM64 => 4 | FRISCV => 2
  | _ => 1
  end.

(* fn encode_lzma2_dict_size(dict_size: u32) -> Result<u8> *)
Definition lzma2_prop_size (prop : Z) : Z :=
  wrap32 (Z.shiftl (Z.lor 2 (Z.land prop 1)) (prop / 2 + 11)).
Fixpoint xz_encode_dict_loop (n : nat) (prop dict : Z) : outcome Z :=
  match n with
  | O => Err E_INVALID_INPUT
  | S k => if dict <=? lzma2_prop_size prop then Ok prop else xz_encode_dict_loop k (prop + 1) dict
  end.
Definition xz_encode_dict (dict : Z) : outcome Z :=
  if dict <? 4096 then Err E_INVALID_INPUT else
  if dict =? 4294967295 then Ok 40 else xz_encode_dict_loop 40 0 dict.
(* the reader's interpretation of the property byte *)
Definition xz_decode_dict (prop : Z) : outcome Z :=
  if 40 <? prop then Err E_INVALID_DATA else
  if prop =? 40 then Ok 4294967295 else Ok (lzma2_prop_size prop).

(* ------------------------------------------------------------------------------------------- *)
(* WRITER *)

(* XZOptions after XZWriter::new: pre-filters (at most 3), check type, block size, dictionary *)
Record xzopts := mkXzopts {
  xo_check : Z;
  xo_block_size : option Z;
  xo_filters : list (fkind * Z);
  xo_dict : Z
}.

(* XZWriter::new: more than three pre-filters are refused; block_size is raised to the dictionary *)
Definition xzw_new (o : xzopts) : outcome xzopts :=
  if 3 <? zlen (xo_filters o) then Err E_INVALID_INPUT else
  Ok (mkXzopts (xo_check o)
               (match xo_block_size o with Some b => Some (Z.max b (xo_dict o)) | None => None end)
               (xo_filters o) (xo_dict o)).

Definition xz_stream_flags (ct : Z) : list Z := [0; ct].
Definition xz_stream_header (ct : Z) : list Z :=
  XZ_MAGIC ++ xz_stream_flags ct ++ crc32_bytes (xz_stream_flags ct).

(* one entry of the "List of Filter Flags" as write_block_header emits it *)
Definition xz_filter_flags (dict : Z) (f : fkind * Z) : outcome (list Z) :=
  let '(k, prop) := f in
  do idb <- vli_encode (fkind_id k);
  match k with
  | FDelta =>
      do s <- vli_encode 1;
      if prop <=? 0 then Panic 60                           (* (property - 1): u32 underflow *)
      else Ok (idb ++ s ++ [wrap8 (wrap32 (prop - 1))])
  | FLZMA2 =>
      do s <- vli_encode 1;
      do p <- xz_encode_dict dict;
      Ok (idb ++ s ++ [p])
  | _ =>
      if prop =? 0 then do s <- vli_encode 0; Ok (idb ++ s)
      else do s <- vli_encode 4; Ok (idb ++ s ++ le_bytes 4 prop)
  end.

Fixpoint xz_filter_flags_list (dict : Z) (fs : list (fkind * Z)) : outcome (list Z) :=
  match fs with
  | [] => Ok []
  | f :: t => do a <- xz_filter_flags dict f; do b <- xz_filter_flags_list dict t; Ok (a ++ b)
  end.

(* write_block_header: size byte, flags, filter flags, padding, CRC32 *)
Definition xz_block_header (o : xzopts) : outcome (list Z) :=
  let filters := xo_filters o ++ [(FLZMA2, 0)] in
  let nf := zlen filters in
  if 4 <? nf then Err E_INVALID_INPUT else
  do ff <- xz_filter_flags_list (xo_dict o) filters;
  let data := wrap8 (nf - 1) :: ff in
  let total := 1 + zlen data + 4 in
  let hsize := (total + 3) / 4 * 4 in
  let enc := wrap8 (hsize / 4 - 1) in
  let pad := hsize - 1 - zlen data - 4 in
  let body := enc :: data ++ repeatn 0 (Z.to_nat pad) in
  Ok (body ++ crc32_bytes body).

Definition pad4 (n : Z) : Z := (4 - n mod 4) mod 4.

(* one block: header, LZMA2 payload, block padding, check; and its index record *)
Definition xz_block (fx : xzfix) (o : xzopts) (content payload : list Z) : outcome (list Z * (Z * Z)) :=
  do h <- xz_block_header o;
  let csize := zlen payload in
  let bytes := h ++ payload ++ repeatn 0 (Z.to_nat (pad4 csize)) ++ xz_check_bytes (xo_check o) content in
  let unpadded := (if fx5 fx then zlen h else 0) + csize + check_size (xo_check o) in
  Ok (bytes, (unpadded, zlen content)).

Fixpoint xz_index_records (rs : list (Z * Z)) : outcome (list Z) :=
  match rs with
  | [] => Ok []
  | (u, c) :: t =>
      do a <- vli_encode u; do b <- vli_encode c; do r <- xz_index_records t; Ok (a ++ b ++ r)
  end.

(* write_index *)
Definition xz_index (rs : list (Z * Z)) : outcome (list Z) :=
  do n <- vli_encode (zlen rs);
  do r <- xz_index_records rs;
  let body := 0 :: n ++ r in
  let body := body ++ repeatn 0 (Z.to_nat (pad4 (zlen body))) in
  Ok (body ++ crc32_bytes body).

Fixpoint xz_index_vli_sizes (rs : list (Z * Z)) : Z :=
  match rs with
  | [] => 0
  | (u, c) :: t => vli_size_value u + vli_size_value c + xz_index_vli_sizes t
  end.

(* write_stream_footer: the backward size is recomputed from the record values *)
Definition xz_backward_size (rs : list (Z * Z)) : Z :=
  let isz := 1 + vli_size_value (zlen rs) + xz_index_vli_sizes rs in
  let isz := isz + pad4 isz + 4 in
  wrap32 (isz / 4 - 1).
Definition xz_stream_footer (ct : Z) (rs : list (Z * Z)) : list Z :=
  let tail := le_bytes 4 (xz_backward_size rs) ++ xz_stream_flags ct in
  crc32_bytes tail ++ tail ++ XZ_FOOTER_MAGIC.

(* Block splitting.  State of XZWriter::write: finished blocks (newest first) and the content of
   the open block (reversed); block_uncompressed_size = length of the open block's content, and
   the code's test "block_uncompressed_size == 0" is "no block open". *)
Record xzsplit := mkXzsplit { sp_done : list (list Z); sp_cur : list Z; sp_size : Z }.
Definition xzsplit_init : xzsplit := mkXzsplit [] [] 0.

Definition sp_should_finish (bs : option Z) (s : xzsplit) : bool :=
  match bs with Some b => b <=? sp_size s | None => false end.
Definition sp_close (s : xzsplit) : xzsplit := mkXzsplit (frev (sp_cur s) :: sp_done s) [] 0.
Definition sp_push (s : xzsplit) (buf : list Z) : xzsplit :=
  mkXzsplit (sp_done s) (rev_append buf (sp_cur s)) (sp_size s + zlen buf).

(* the while loop of write(); original code: one iteration takes the whole remaining buffer *)
Fixpoint xz_write_loop (fuel : nat) (fx : xzfix) (bs : option Z) (s : xzsplit) (remaining : list Z)
  : outcome xzsplit :=
  match remaining with
  | [] => Ok s
  | _ =>
      match fuel with
      | O => Fuel
      | S f =>
          let s1 := if sp_should_finish bs s then sp_close s else s in
          let n := match bs with
                   | Some b => if fx20 fx then Z.min (zlen remaining) (b - sp_size s1) else zlen remaining
                   | None => zlen remaining
                   end in
          (* the inner writers accept everything they are given *)
          let n := Z.to_nat n in
          xz_write_loop f fx bs (sp_push s1 (firstn n remaining)) (skipn n remaining)
      end
  end.

Definition xz_write_call (fx : xzfix) (bs : option Z) (s : xzsplit) (buf : list Z) : outcome xzsplit :=
  xz_write_loop (S (length buf)) fx bs s buf.

Fixpoint xz_write_calls (fx : xzfix) (bs : option Z) (s : xzsplit) (parts : list (list Z)) : outcome xzsplit :=
  match parts with
  | [] => Ok s
  | p :: ps => do s1 <- xz_write_call fx bs s p; xz_write_calls fx bs s1 ps
  end.

(* the blocks of the finished stream, oldest first (flush() and empty writes change nothing) *)
Definition xz_blocks_of (fx : xzfix) (bs : option Z) (parts : list (list Z)) : outcome (list (list Z)) :=
  do s <- xz_write_calls fx bs xzsplit_init parts;
  Ok (frev (if 0 <? sp_size s then frev (sp_cur s) :: sp_done s else sp_done s)).

Fixpoint xz_blocks_bytes (fx : xzfix) (o : xzopts) (blocks payloads : list (list Z))
  : outcome (list Z * list (Z * Z)) :=
  match blocks, payloads with
  | [], _ => Ok ([], [])
  | c :: cs, p :: ps =>
      do b <- xz_block fx o c p;
      do r <- xz_blocks_bytes fx o cs ps;
      Ok (fst b ++ fst r, snd b :: snd r)
  | _ :: _, [] => Err E_OTHER                              (* fewer payloads than blocks: caller error *)
  end.

(* finish(): stream header, blocks, index, footer.  Before the F4 fix finish_current_block() ran
   even when no block was open (only possible when nothing was written): it "finished" the bare
   SharedWriter, took the 12 header bytes for compressed data and emitted a check field and an
   index record for a block that does not exist. *)
Definition xz_container (fx : xzfix) (o : xzopts) (blocks payloads : list (list Z)) : outcome (list Z) :=
  let ct := xo_check o in
  do bb <- xz_blocks_bytes fx o blocks payloads;
  let '(body, recs) := bb in
  let '(body, recs) :=
    match blocks with
    | [] => if fx4 fx then (body, recs)
            else (xz_check_bytes ct [], [(12 + check_size ct, 0)])
    | _ => (body, recs)
    end in
  do idx <- xz_index recs;
  Ok (xz_stream_header ct ++ body ++ idx ++ xz_stream_footer ct recs).

(* the whole writer: options as given to XZWriter::new, the write() calls, and the LZMA2 payload of
   each block (the encoder's business, C01) *)
Definition xz_write (fx : xzfix) (o0 : xzopts) (parts payloads : list (list Z)) : outcome (list Z) :=
  do o <- xzw_new o0;
  do blocks <- xz_blocks_of fx (xo_block_size o) parts;
  xz_container fx o blocks payloads.

(* ------------------------------------------------------------------------------------------- *)
(* READER: parsers shared by the call-by-call model and by the whole-file model *)

Definition xz_take (n : Z) (src : list Z) : outcome (list Z * list Z) :=
  if zlen src <? n then Err E_UNEXPECTED_EOF
  else Ok (firstn (Z.to_nat n) src, skipn (Z.to_nat n) src).

Definition bytes_eqb (a b : list Z) : bool :=
  (length a =? length b)%nat && forallb (fun p => fst p =? snd p) (combine a b).

(* StreamHeader::parse_flags_and_crc *)
Definition xz_parse_flags_crc (src : list Z) : outcome (Z * list Z) :=
  do fr <- xz_take 2 src;
  let '(flags, r1) := fr in
  match flags with
  | [f0; f1] =>
      if negb (f0 =? 0) then Err E_INVALID_DATA else
      if negb (check_known f1) then Err E_INVALID_DATA else
      do cr <- xz_take 4 r1;
      let '(crc, r2) := cr in
      if negb (le_value crc =? crc32 flags) then Err E_INVALID_DATA else Ok (f1, r2)
  | _ => Panic 63
  end.

(* StreamHeader::parse *)
Definition xz_parse_stream_header (src : list Z) : outcome (Z * list Z) :=
  do mr <- xz_take 6 src;
  let '(magic, r1) := mr in
  if negb (bytes_eqb magic XZ_MAGIC) then Err E_INVALID_DATA else xz_parse_flags_crc r1.

Record bhdr := mkBhdr {
  bh_csize : option Z;
  bh_usize : option Z;
  bh_filters : list (fkind * Z)        (* in header order; properties as the reader stores them *)
}.

(* offset += count_multibyte_integer_size(&header_data[offset..]) after a successful parse *)
Definition vli_skip (s : list Z) : list Z := skipn (Z.to_nat (vli_size_slice s)) s.

(* parse_multibyte_integer(..)? inside BlockHeader::parse: the error kind is InvalidData *)
Definition bh_vli (s : list Z) : outcome (Z * list Z) :=
  do v <- vli_parse_slice s; Ok (v, vli_skip s).

(* properties of one filter; [s] = header_data[offset..] after the filter id *)
Definition bh_filter_props (k : fkind) (s : list Z) : outcome (Z * list Z) :=
  match k with
  | FDelta =>
      match s with [] => Err E_INVALID_DATA | _ =>
      do pr <- bh_vli s;
      let '(psize, s1) := pr in
      if negb (psize =? 1) then Err E_INVALID_DATA else
      match s1 with
      | [] => Err E_INVALID_DATA
      | b :: s2 => Ok (b + 1, s2)
      end end
  | FLZMA2 =>
      match s with [] => Err E_INVALID_DATA | _ =>
      do pr <- bh_vli s;
      let '(psize, s1) := pr in
      if negb (psize =? 1) then Err E_INVALID_DATA else
      match s1 with
      | [] => Err E_INVALID_DATA
      | b :: s2 => do d <- xz_decode_dict b; Ok (d, s2)
      end end
  | _ =>
      match s with [] => Err E_INVALID_DATA | _ =>
      do pr <- bh_vli s;
      let '(psize, s1) := pr in
      if psize =? 0 then Ok (0, s1)
      else if psize =? 4 then
        match s1 with
        | b0 :: b1 :: b2 :: b3 :: s2 =>
            let v := le_value [b0; b1; b2; b3] in
            if negb (v mod bcj_alignment k =? 0) then Err E_INVALID_DATA else Ok (v, s2)
        | _ => Err E_INVALID_DATA
        end
      else Err E_INVALID_DATA
      end
  end.

(* the loop "for i in 0..num_filters" *)
Fixpoint bh_filters_loop (n : nat) (s : list Z) (acc : list (fkind * Z)) : outcome (list (fkind * Z) * list Z) :=
  match n with
  | O => Ok (frev acc, s)
  | S k =>
      match s with
      | [] => Err E_INVALID_DATA                       (* "too short for filters" *)
      | _ =>
          do id <- vli_parse_slice s;
          match fkind_of_id id with
          | None => Err E_INVALID_INPUT                (* "unsupported filter type found" *)
          | Some fk =>
              do pr <- bh_filter_props fk (vli_skip s);
              let '(prop, s1) := pr in
              bh_filters_loop k s1 ((fk, prop) :: acc)
          end
      end
  end.

(* the header padding loop: zeros until exactly four bytes (the CRC32) are left *)
Fixpoint bh_padding (s : list Z) : outcome (list Z) :=
  match s with
  | b :: t =>
      if (4 <? zlen s) then (if b =? 0 then bh_padding t else Err E_INVALID_DATA) else Ok s
  | [] => Ok []
  end.

Definition last_is_lzma2 (fs : list (fkind * Z)) : bool :=
  match frev fs with (FLZMA2, _) :: _ => true | _ => false end.

(* BlockHeader::parse; Ok (None, rest) = index indicator seen *)
Definition xz_parse_block_header (src : list Z) : outcome (option bhdr * list Z) :=
  match src with
  | [] => Err E_UNEXPECTED_EOF
  | enc :: r0 =>
      if enc =? 0 then Ok (None, r0) else
      let hsize := (enc + 1) * 4 in
      if (hsize <? 8) || (1024 <? hsize) then Err E_INVALID_DATA else
      do hr <- xz_take (hsize - 1) r0;
      let '(hd, rest) := hr in
      match hd with
      | [] => Panic 64
      | flags :: s0 =>
          let nf := Z.land flags 3 + 1 in
          let has_c := negb (Z.land flags 64 =? 0) in
          let has_u := negb (Z.land flags 128 =? 0) in
          do c <- (if has_c then
                     if zlen s0 <? 8 then Err E_INVALID_DATA
                     else do pr <- bh_vli s0; Ok (Some (fst pr), snd pr)
                   else Ok (None, s0));
          let '(csize, s1) := c in
          do u <- (if has_u then
                     match s1 with
                     | [] => Err E_INVALID_DATA
                     | _ => do pr <- bh_vli s1; Ok (Some (fst pr), snd pr)
                     end
                   else Ok (None, s1));
          let '(usize, s2) := u in
          do fr <- bh_filters_loop (Z.to_nat nf) s2 [];
          let '(filters, s3) := fr in
          if negb (last_is_lzma2 filters) then Err E_INVALID_INPUT else
          do s4 <- bh_padding s3;
          if negb (zlen s4 =? 4) then Err E_INVALID_DATA else
          let covered := enc :: firstn (Z.to_nat (zlen hd - 4)) hd in
          if negb (le_value s4 =? crc32 covered) then Err E_INVALID_DATA else
          Ok (Some (mkBhdr csize usize filters), rest)
      end
  end.

(* consume_padding: [pos] = compressed_bytes_read; a single read() of the missing bytes *)
Definition xz_consume_padding (pos : Z) (src : list Z) : outcome (list Z) :=
  let n := pad4 pos in
  if n =? 0 then Ok src else
  let got := firstn (Z.to_nat n) src in
  if negb (zlen got =? n) then Err E_INVALID_DATA else
  if negb (forallb (fun b => b =? 0) got) then Err E_INVALID_DATA else
  Ok (skipn (Z.to_nat n) src).

(* verify_block_checksum against the value computed over the block's content *)
Definition xz_verify_check (ct : Z) (computed : list Z) (src : list Z) : outcome (list Z) :=
  if ct =? 0 then Ok src else
  do cr <- xz_take (check_size ct) src;
  let '(stored, rest) := cr in
  if bytes_eqb stored computed then Ok rest else Err E_INVALID_DATA.

(* the record loop of Index::parse; every iteration consumes at least two bytes *)
Fixpoint xz_index_records_loop (fuel : nat) (count : Z) (src : list Z) (acc : list (Z * Z))
  : outcome (list (Z * Z) * list Z) :=
  if count <=? 0 then Ok (frev acc, src) else
  match fuel with
  | O => Fuel
  | S f =>
      do a <- vli_parse_reader src;
      let '(unpadded, r1) := a in
      do b <- vli_parse_reader r1;
      let '(uncompressed, r2) := b in
      if unpadded =? 0 then Err E_INVALID_DATA else
      xz_index_records_loop f (count - 1) r2 ((unpadded, uncompressed) :: acc)
  end.

(* Index::parse (the indicator byte is already consumed).  Vec::with_capacity(count) of 16-byte
   records: "capacity overflow" panic above isize::MAX bytes (before the F11 fix). *)
Definition xz_parse_index (fx : xzfix) (src : list Z) : outcome (Z * list (Z * Z) * list Z) :=
  do nr <- vli_parse_reader src;
  let '(count, r1) := nr in
  if negb (fx11 fx) && (576460752303423488 <=? count) then Panic 62 else
  do rr <- xz_index_records_loop (S (length r1)) count r1 [];
  let '(recs, r2) := rr in
  let bytes_read := 1 + vli_size_value count + xz_index_vli_sizes recs in
  let pn := pad4 bytes_read in
  do pr <- xz_take pn r2;
  let '(padding, r3) := pr in
  if negb (forallb (fun b => b =? 0) padding) then Err E_INVALID_DATA else
  do cr <- xz_take 4 r3;
  let '(crc, r4) := cr in
  do ne <- vli_encode count;
  do re <- xz_index_records recs;
  let covered := 0 :: ne ++ re ++ repeatn 0 (Z.to_nat pn) in
  if negb (le_value crc =? crc32 covered) then Err E_INVALID_DATA else
  Ok (count, recs, r4).

(* StreamFooter::parse: (backward_size, stream_flags, rest) *)
Definition xz_parse_footer (src : list Z) : outcome (Z * list Z * list Z) :=
  do a <- xz_take 4 src;
  let '(crc, r1) := a in
  do b <- xz_take 4 r1;
  let '(bw, r2) := b in
  do c <- xz_take 2 r2;
  let '(flags, r3) := c in
  if negb (le_value crc =? crc32 (bw ++ flags)) then Err E_INVALID_DATA else
  do d <- xz_take 2 r3;
  let '(magic, r4) := d in
  if negb (bytes_eqb magic XZ_FOOTER_MAGIC) then Err E_INVALID_DATA else
  Ok (le_value bw, flags, r4).

(* parse_index_and_footer *)
Definition xz_index_and_footer (fx : xzfix) (ct blocks : Z) (src : list Z) : outcome (list Z) :=
  do ir <- xz_parse_index fx src;
  let '(count, recs, r1) := ir in
  if negb (count =? blocks) then Err E_INVALID_DATA else
  do fr <- xz_parse_footer r1;
  let '(bw, flags, r2) := fr in
  if negb (bytes_eqb flags (xz_stream_flags ct)) then Err E_INVALID_DATA else Ok r2.

(* try_start_next_stream: Ok (Some ct, rest) = a new stream header was read *)
Fixpoint xz_skip_zeros (src : list Z) (n : Z) : Z * list Z :=
  match src with
  | b :: t => if b =? 0 then xz_skip_zeros t (n + 1) else (n, src)
  | [] => (n, [])
  end.

Definition xz_try_next_stream (fx : xzfix) (src : list Z) : outcome (option Z * list Z) :=
  let '(padding, r0) := xz_skip_zeros src 0 in
  match r0 with
  | [] =>
      if fx16b fx && negb (padding mod 4 =? 0) then Err E_INVALID_DATA else Ok (None, [])
  | b :: r1 =>
      (* the first non-zero byte; the original test rejected exactly the magic's first byte *)
      if (if fx16 fx then negb (b =? 253) else (b =? 253)) then Err E_INVALID_DATA else
      if zlen r1 <? 5 then Err E_INVALID_DATA else
      let magic := b :: firstn 5 r1 in
      if negb (bytes_eqb magic XZ_MAGIC) then Err E_INVALID_DATA else
      if negb (padding mod 4 =? 0) then Err E_INVALID_DATA else
      do hr <- xz_parse_flags_crc (skipn 5 r1);
      Ok (Some (fst hr), snd hr)
  end.

(* ------------------------------------------------------------------------------------------- *)
(* READER: the call-by-call model of XZReader (what the harness drives) *)

(* the reader chain of one block: LZMA2Reader innermost, Delta readers around it (outermost first
   in [bk_deltas], i.e. header order) *)
Record xzblock := mkXzblock {
  bk_lz : lzma2;
  bk_deltas : list delta;
  bk_content : list Z          (* bytes returned so far for this block, newest first *)
}.

Record xzr := mkXzr {
  r_src : list Z;              (* unconsumed source bytes while no block is active *)
  r_total : Z;                 (* length of the whole source *)
  r_check : option Z;          (* stream_header *)
  r_block : option xzblock;    (* checksum_calculator.is_some() *)
  r_finished : bool;
  r_multi : bool;
  r_blocks : Z                 (* blocks_processed *)
}.

Definition xzr_new (src : list Z) (multi : bool) : xzr :=
  mkXzr src (zlen src) None None false multi 0.

(* chain construction in prepare_next_block.  EXTENSION POINT: BCJ readers (Filter/Bcj*.v) and an
   LZMA2 reader that is not innermost are outside this executable model. *)
Fixpoint xz_chain_deltas (fs : list (fkind * Z)) : outcome (list delta) :=
  match fs with
  | [] => Ok []
  | [(FLZMA2, _)] => Ok []
  | (FDelta, d) :: t => do r <- xz_chain_deltas t; Ok (delta_new d :: r)
  | _ => Err E_MODEL_SKIP
  end.

Definition xz_chain_dict (fs : list (fkind * Z)) : Z :=
  match frev fs with (_, d) :: _ => d | [] => 0 end.

(* the bytes of one read() pass through the Delta readers from the innermost to the outermost *)
Fixpoint xz_deltas_decode (ds : list delta) (bytes : list Z) : outcome (list delta * list Z) :=
  match ds with
  | [] => Ok ([], bytes)
  | d :: t =>
      do r <- xz_deltas_decode t bytes;
      let '(t1, b1) := r in
      match delta_decode d b1 with
      | Some (d1, b2) => Ok (d1 :: t1, b2)
      | None => Panic 65
      end
  end.

Definition xzr_set (s : xzr) (src : list Z) (check : option Z) (block : option xzblock) (fin : bool) (blocks : Z) : xzr :=
  mkXzr src (r_total s) check block fin (r_multi s) blocks.

(* the loop of read(); one iteration = one pass through "loop { ... }" in the code (the recursion
   of prepare_next_block after a new stream header is the next iteration) *)
Fixpoint xzr_read_loop (fuel : nat) (fx : xzfix) (s : xzr) (ct : Z) (buflen : Z) : outcome (list Z * xzr) :=
  match fuel with
  | O => Fuel
  | S f =>
      match r_block s with
      | Some bk =>
          do r <- lzma2_read (bk_lz bk) buflen;
          let '(raw, lz1) := r in
          match raw with
          | _ :: _ =>
              do dr <- xz_deltas_decode (bk_deltas bk) raw;
              let '(ds1, out) := dr in
              Ok (out, xzr_set s [] (Some ct) (Some (mkXzblock lz1 ds1 (rev_append out (bk_content bk)))) false (r_blocks s))
          | [] =>
              (* "Current block is finished": back to the shared reader *)
              let src := m_in lz1 in
              do s1 <- xz_consume_padding (r_total s - zlen src) src;
              do s2 <- xz_verify_check ct (xz_check_bytes ct (frev (bk_content bk))) s1;
              xzr_read_loop f fx (xzr_set s s2 (Some ct) None false (r_blocks s)) ct buflen
          end
      | None =>
          do hr <- xz_parse_block_header (r_src s);
          let '(h, rest) := hr in
          match h with
          | Some bh =>
              do ds <- xz_chain_deltas (bh_filters bh);
              do lz <- lzma2_new rest (xz_chain_dict (bh_filters bh)) None;
              xzr_read_loop f fx (xzr_set s [] (Some ct) (Some (mkXzblock lz ds [])) false (r_blocks s + 1)) ct buflen
          | None =>
              do r1 <- xz_index_and_footer fx ct (r_blocks s) rest;
              if r_multi s then
                do nx <- xz_try_next_stream fx r1;
                let '(nct, r2) := nx in
                match nct with
                | Some ct2 => xzr_read_loop f fx (xzr_set s r2 (Some ct2) None false 0) ct2 buflen
                | None => Ok ([], xzr_set s r2 (Some ct) None true (r_blocks s))
                end
              else Ok ([], xzr_set s r1 (Some ct) None true (r_blocks s))
          end
      end
  end.

(* XZReader::read(buf) with buf.len() = buflen *)
Definition xzr_read (fx : xzfix) (s : xzr) (buflen : Z) : outcome (list Z * xzr) :=
  if fx13 fx && (buflen <=? 0) then Ok ([], s) else
  if r_finished s then Ok ([], s) else
  do hs <- (match r_check s with
            | Some ct => Ok (ct, s)
            | None =>
                do h <- xz_parse_stream_header (r_src s);
                Ok (fst h, xzr_set s (snd h) (Some (fst h)) None false (r_blocks s))
            end);
  let '(ct, s1) := hs in
  xzr_read_loop (Z.to_nat (r_total s) + 4) fx s1 ct buflen.

(* bytes of the source not consumed (meaningful when no block is active, e.g. after the end) *)
Definition xzr_unconsumed (s : xzr) : list Z :=
  match r_block s with Some bk => m_in (bk_lz bk) | None => r_src s end.

(* a whole read history as the harness performs it: sizes cycled, a zero size must not end the
   loop; result = (bytes, status, state): status 0 = end of stream, e = error kind of the failing
   call (bytes of earlier calls are kept) *)
Fixpoint xzr_read_all (fuel : nat) (fx : xzfix) (s : xzr) (sizes all : list Z) (acc : list Z)
  : outcome (list Z * Z * xzr) :=
  match fuel with
  | O => Fuel
  | S f =>
      let '(sz, rest) := match sizes with [] => (4096, all) | x :: r => (x, r) end in
      match xzr_read fx s sz with
      | Ok (out, s1) =>
          if (0 <? sz) && (zlen out =? 0) then Ok (frev acc, 0, s1)
          else xzr_read_all f fx s1 (match rest with [] => all | _ => rest end) all (rev_append out acc)
      | Err e => Ok (frev acc, e, s)
      | Panic e => Panic e
      | Fuel => Fuel
      end
  end.

(* ------------------------------------------------------------------------------------------- *)
(* READER: the whole-file function (what read_to_end computes), over an abstract block-payload
   decoder and an abstract check function; it is built from the same parsers as the call-by-call
   model.  The theorems of XzProofs.v are about this function. *)
Section WholeFile.
  (* check type -> content -> check field *)
  Variable H : Z -> list Z -> list Z.
  (* decoder of one block's Compressed Data for a parsed filter chain: (content, rest of source) *)
  Variable blockdec : list (fkind * Z) -> list Z -> outcome (list Z * list Z).

  (* the blocks of one stream; [pos] = compressed_bytes_read at [src]; content accumulated
     newest-first in [acc]; result (acc, rest, pos at rest, blocks seen) *)
  Fixpoint xzd_blocks (fuel : nat) (ct : Z) (src : list Z) (pos : Z) (n : Z) (acc : list Z)
    : outcome (list Z * list Z * Z * Z) :=
    match fuel with
    | O => Fuel
    | S f =>
        do hr <- xz_parse_block_header src;
        let '(h, r1) := hr in
        let pos1 := pos + (zlen src - zlen r1) in
        match h with
        | None => Ok (acc, r1, pos1, n)
        | Some bh =>
            do br <- blockdec (bh_filters bh) r1;
            let '(content, r2) := br in
            let pos2 := pos1 + (zlen r1 - zlen r2) in
            do r3 <- xz_consume_padding pos2 r2;
            do r4 <- xz_verify_check ct (H ct content) r3;
            xzd_blocks f ct r4 (pos2 + (zlen r2 - zlen r4)) (n + 1) (rev_append content acc)
        end
    end.

  (* streams: blocks, index, footer and, with multi-stream decoding, the next stream header *)
  Fixpoint xzd_streams (fuel : nat) (fx : xzfix) (multi : bool) (ct : Z) (src : list Z) (pos : Z) (acc : list Z)
    : outcome (list Z * list Z) :=
    match fuel with
    | O => Fuel
    | S f =>
        do br <- xzd_blocks (S (length src)) ct src pos 0 acc;
        let '(acc1, r1, pos1, n) := br in
        do r2 <- xz_index_and_footer fx ct n r1;
        if multi then
          do nx <- xz_try_next_stream fx r2;
          let '(nct, r3) := nx in
          match nct with
          | Some ct2 => xzd_streams f fx multi ct2 r3 (pos1 + (zlen r1 - zlen r3)) acc1
          | None => Ok (frev acc1, r3)
          end
        else Ok (frev acc1, r2)
    end.

  (* (content, unconsumed bytes of the source) *)
  Definition xz_decode (fx : xzfix) (multi : bool) (src : list Z) : outcome (list Z * list Z) :=
    do h <- xz_parse_stream_header src;
    let '(ct, r1) := h in
    xzd_streams (S (length src)) fx multi ct r1 (zlen src - zlen r1) [].
End WholeFile.

(* the concrete block decoder: LZMA2Reader read to its end, then the Delta chain *)
Fixpoint lzma2_drain (fuel : nat) (s : lzma2) (acc : list Z) : outcome (list Z * list Z) :=
  match fuel with
  | O => Fuel
  | S f =>
      do r <- lzma2_read s 4096;
      let '(out, s1) := r in
      match out with
      | [] => Ok (frev acc, m_in s1)
      | _ => lzma2_drain f s1 (rev_append out acc)
      end
  end.

(* [calls] bounds the number of 4096-byte read() calls (running out of it is reported as Fuel) *)
Definition lzma2_payload_dec_n (calls : nat) (dict : Z) (src : list Z) : outcome (list Z * list Z) :=
  do s <- lzma2_new src dict None;
  lzma2_drain calls s [].

(* a chunk header of at least 3 bytes announces at most 2 MiB: 512 calls of 4096 bytes *)
Definition lzma2_payload_dec (dict : Z) (src : list Z) : outcome (list Z * list Z) :=
  lzma2_payload_dec_n (S (S (171 * length src))) dict src.

Definition xz_blockdec_gen (pdec : Z -> list Z -> outcome (list Z * list Z)) (fs : list (fkind * Z)) (src : list Z)
  : outcome (list Z * list Z) :=
  do ds <- xz_chain_deltas fs;
  do pr <- pdec (xz_chain_dict fs) src;
  let '(raw, rest) := pr in
  do dr <- xz_deltas_decode ds raw;
  Ok (snd dr, rest).

Definition xz_blockdec := xz_blockdec_gen lzma2_payload_dec.

Definition xz_decode_c (fx : xzfix) (multi : bool) (src : list Z) : outcome (list Z * list Z) :=
  xz_decode xz_check_bytes xz_blockdec fx multi src.

(* the same with an output budget per block of [cap] bytes (for the correspondence runs on damaged
   files whose size fields promise megabytes) *)
Definition xz_decode_capped (fx : xzfix) (multi : bool) (cap : Z) (src : list Z) : outcome (list Z * list Z) :=
  xz_decode xz_check_bytes (xz_blockdec_gen (lzma2_payload_dec_n (Z.to_nat (cap / 4096 + 3)))) fx multi src.

(* ------------------------------------------------------------------------------------------- *)
(* entry points for the driver: options as plain numbers (filter ids as in the file format) *)
Fixpoint xz_filters_of_ids (fs : list (Z * Z)) : option (list (fkind * Z)) :=
  match fs with
  | [] => Some []
  | (id, p) :: t =>
      match fkind_of_id id, xz_filters_of_ids t with
      | Some k, Some r => Some ((k, p) :: r)
      | _, _ => None
      end
  end.

Definition xz_write_entry (fx : xzfix) (check : Z) (bs : option Z) (filters : list (Z * Z)) (dict : Z)
    (parts payloads : list (list Z)) : outcome (list Z) :=
  match xz_filters_of_ids filters with
  | Some fs => xz_write fx (mkXzopts check bs fs dict) parts payloads
  | None => Err E_OTHER
  end.

(* uncompressed sizes of the blocks the writer cuts (C18) *)
Definition xz_block_sizes_entry (fx : xzfix) (bs : option Z) (dict : Z) (parts : list (list Z)) : outcome (list Z) :=
  do o <- xzw_new (mkXzopts 0 bs [] dict);
  do blocks <- xz_blocks_of fx (xo_block_size o) parts;
  Ok (map (fun b => zlen b) blocks).
