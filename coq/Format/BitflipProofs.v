(* Format/BitflipProofs.v — C04_bitflip: damage confined to ONE BYTE (in particular every single-bit
   flip) inside a CRC-32-protected fixed-extent region of an XZ file - stream header, stream footer,
   block header apart from its size byte - or inside a stored check field is never accepted: of two
   byte strings that differ in exactly one byte at most one passes the parser.  The argument is the
   one of DESIGN §5 C04: for a fixed input byte the CRC register update is a bijection and for a
   fixed register it is injective in the input byte (Format/CrcProofs.v), so a one-byte difference in
   the covered data never cancels, and a difference in the stored field alone cannot match either.

   Regions whose EXTENT depends on the damaged byte (the block header size byte, the multibyte
   integers of the index) are outside this argument: there the CRC-32 of a different-length string
   decides, which is the 2^-32 collision case the property's statement excludes. *)
From LzVerif Require Import Base.Bytes Format.Crc Format.CrcProofs Format.XzFormat Format.LzipFormat
  Format.LzipDict Format.XzSplitProofs Format.XzHeaderProofs.
Ltac Zify.zify_post_hook ::= Z.div_mod_to_equations.

Lemma bok_cons b l : bytes_ok (b :: l) = true -> 0 <= b < 256 /\ bytes_ok l = true.
Proof.
  unfold bytes_ok; cbn [forallb]. intros H. apply andb_true_iff in H as [Hb Hl]. unfold is_byte in Hb.
  apply andb_true_iff in Hb as [H0 H1]. split; [lia | exact Hl].
Qed.

(* l' is l with exactly one byte replaced by a different byte *)
Definition one_byte_diff (l l' : list Z) : Prop :=
  exists p b b' s, l = p ++ b :: s /\ l' = p ++ b' :: s /\ b <> b'.

Lemma one_byte_diff_length l l' : one_byte_diff l l' -> length l = length l'.
Proof. intros (p & b & b' & s & -> & -> & _). rewrite !app_length. reflexivity. Qed.

Lemma one_byte_diff_neq l l' : one_byte_diff l l' -> l <> l'.
Proof. intros (p & b & b' & s & -> & -> & Hne) E. apply app_inv_head in E. congruence. Qed.

Lemma app_eq_length {A} : forall (a a' c c' : list A), length a = length a' -> a ++ c = a' ++ c' -> a = a' /\ c = c'.
Proof.
  induction a as [|x a IH]; intros [|x' a'] c c' L E; try discriminate; [auto|].
  cbn [app] in E. inversion E; subst. destruct (IH a' c c' ltac:(cbn in L; lia) H1) as [-> ->]. auto.
Qed.

(* splitting at a fixed position: the difference is on one side, the other side is unchanged *)
Lemma one_byte_diff_split : forall a a' c c', length a = length a' ->
  one_byte_diff (a ++ c) (a' ++ c') ->
  (one_byte_diff a a' /\ c = c') \/ (a = a' /\ one_byte_diff c c').
Proof.
  induction a as [|x a IH]; intros a' c c' Hl (p & b & b' & s & E1 & E2 & Hne).
  - destruct a'; [|discriminate]. right. split; [reflexivity|]. exists p, b, b', s. auto.
  - destruct a' as [|x' a']; [discriminate|]. cbn [app] in E1, E2. destruct p as [|y p]; cbn [app] in E1, E2.
    + inversion E1; inversion E2; subst.
      destruct (app_eq_length a a' c c' ltac:(cbn in Hl; lia)) as [Ea Ec]; [congruence|]. subst a' c'.
      left. split; [|reflexivity]. exists [], b, b', a. auto.
    + inversion E1; inversion E2; subst.
      destruct (IH a' c c' ltac:(cbn in Hl; lia)) as [[D Ec]|[Ea D]].
      * exists p, b, b', s. auto.
      * left. split; [|exact Ec]. destruct D as (p0 & b0 & b0' & s0 & Ha & Ha' & Hn0). subst a a'.
        exists (y :: p0), b0, b0', s0. auto.
      * right. subst a'. auto.
Qed.

Lemma le_value_inj : forall a b, length a = length b -> bytes_ok a = true -> bytes_ok b = true ->
  le_value a = le_value b -> a = b.
Proof.
  induction a as [|x a IH]; intros [|y b] Hl Ha Hb E; try discriminate; [reflexivity|].
  apply bok_cons in Ha as [Hx Ha]. apply bok_cons in Hb as [Hy Hb]. cbn [le_value] in E.
  assert (x = y) by lia. subst y. f_equal. apply IH; [cbn in Hl; lia | exact Ha | exact Hb | lia].
Qed.

(* the core: two (data, stored CRC-32) pairs that both verify and differ in exactly one byte
   altogether cannot exist *)
Lemma crc32_pair_one_diff data data' crc crc' :
  bytes_ok data = true -> bytes_ok data' = true -> bytes_ok crc = true -> bytes_ok crc' = true ->
  length data = length data' -> length crc = length crc' ->
  le_value crc = crc32 data -> le_value crc' = crc32 data' ->
  one_byte_diff (data ++ crc) (data' ++ crc') -> False.
Proof.
  intros Bd Bd' Bc Bc' Ld Lc V V' D.
  destruct (one_byte_diff_split data data' crc crc' Ld D) as [[Dd Ec]|[Ed Dc]].
  - subst crc'. destruct Dd as (p & b & b' & s & -> & -> & Hne).
    rewrite bytes_ok_app in Bd, Bd'. apply andb_true_iff in Bd as [Bp Bs]. apply andb_true_iff in Bd' as [_ Bs'].
    apply bok_cons in Bs as [Hb Bs]. apply bok_cons in Bs' as [Hb' _].
    apply (crc32_one_byte p b b' s Bp Hb Hb' Bs Hne). congruence.
  - subst data'. apply (one_byte_diff_neq _ _ Dc). apply le_value_inj; try assumption. congruence.
Qed.

(* ------------------------------------------------------------------------------------------- *)
(* inversion of the fixed-size parsers *)

Lemma xz_take_inv n src a b : 0 <= n -> xz_take n src = Ok (a, b) -> src = a ++ b /\ zlen a = n.
Proof.
  unfold xz_take. intros Hn H. destruct (Z.ltb_spec (zlen src) n); [discriminate|]. inversion H; subst.
  split; [symmetry; apply firstn_skipn|]. apply zlen_firstn. lia.
Qed.

Lemma bytes_ok_firstn n l : bytes_ok l = true -> bytes_ok (firstn n l) = true.
Proof.
  revert l. induction n as [|n IH]; intros l Hl; [reflexivity|]. destruct l as [|x l]; [reflexivity|].
  apply bok_cons in Hl as [Hx Hl]. cbn [firstn bytes_ok forallb]. fold (bytes_ok (firstn n l)). rewrite IH by exact Hl.
  unfold is_byte. destruct (Z.leb_spec 0 x); [|lia]. destruct (Z.ltb_spec x 256); [|lia]. reflexivity.
Qed.

(* StreamHeader::parse accepts exactly: magic, [0; ct] with a known check type, the CRC-32 of the
   flags *)
Lemma xz_parse_stream_header_inv src ct rest : xz_parse_stream_header src = Ok (ct, rest) ->
  exists crc, src = XZ_MAGIC ++ [0; ct] ++ crc ++ rest /\ check_known ct = true /\
              zlen crc = 4 /\ le_value crc = crc32 [0; ct].
Proof.
  unfold xz_parse_stream_header. intros H.
  destruct (xz_take 6 src) as [[magic r1]| | |] eqn:E1; try discriminate. cbn [obind] in H.
  apply xz_take_inv in E1 as [E1 L1]; [|lia].
  destruct (bytes_eqb magic XZ_MAGIC) eqn:Em; [|discriminate]. apply bytes_eqb_eq in Em. subst magic. cbn [negb] in H.
  unfold xz_parse_flags_crc in H.
  destruct (xz_take 2 r1) as [[flags r2]| | |] eqn:E2; try discriminate. cbn [obind] in H.
  apply xz_take_inv in E2 as [E2 L2]; [|lia].
  destruct flags as [|f0 [|f1 [|? ?]]]; try discriminate.
  destruct (Z.eqb_spec f0 0); [|discriminate]. subst f0. cbn [negb] in H.
  destruct (check_known f1) eqn:Ek; [|discriminate]. cbn [negb] in H.
  destruct (xz_take 4 r2) as [[crc r3]| | |] eqn:E3; try discriminate. cbn [obind] in H.
  apply xz_take_inv in E3 as [E3 L3]; [|lia].
  destruct (Z.eqb_spec (le_value crc) (crc32 [0; f1])); [|discriminate]. cbn [negb] in H. inversion H; subst.
  exists crc. repeat split; auto.
Qed.

(* C04_magic (XZ): whatever the reader accepts begins with the stream magic and a valid stream
   header - in particular nothing that is not XZ decodes as an empty file *)
Lemma xz_decode_magic (H : Z -> list Z -> list Z) blockdec fx multi src d rest :
  xz_decode H blockdec fx multi src = Ok (d, rest) ->
  exists ct crc tl, src = XZ_MAGIC ++ [0; ct] ++ crc ++ tl /\ check_known ct = true /\
                    zlen crc = 4 /\ le_value crc = crc32 [0; ct].
Proof.
  unfold xz_decode. intros E.
  destruct (xz_parse_stream_header src) as [[ct r1]| | |] eqn:Eh; try discriminate.
  apply xz_parse_stream_header_inv in Eh as (crc & Es & Hk & Lc & Vc). exists ct, crc, r1. auto.
Qed.

(* C04_bitflip, stream header: h and h' are 12 bytes each, differ in exactly one byte, and consist
   of bytes: they are not both accepted (whatever follows them) *)
Theorem bitflip_stream_header h h' rest rest' x x' :
  zlen h = 12 -> bytes_ok h = true -> bytes_ok h' = true -> one_byte_diff h h' ->
  xz_parse_stream_header (h ++ rest) = Ok x -> xz_parse_stream_header (h' ++ rest') = Ok x' -> False.
Proof.
  intros Lh Bh Bh' D P P'. destruct x as [ct r], x' as [ct' r'].
  apply xz_parse_stream_header_inv in P as (crc & E & Hk & Lc & V).
  apply xz_parse_stream_header_inv in P' as (crc' & E' & Hk' & Lc' & V').
  pose proof (one_byte_diff_length _ _ D) as Ll.
  assert (Eh : h = XZ_MAGIC ++ [0; ct] ++ crc).
  { assert (E2 : h ++ rest = (XZ_MAGIC ++ [0; ct] ++ crc) ++ r) by (rewrite E, <- !app_assoc; reflexivity).
    apply app_eq_length in E2 as [E2 _]; [exact E2|]. rewrite !app_length. unfold zlen in *. cbn. lia. }
  assert (Eh' : h' = XZ_MAGIC ++ [0; ct'] ++ crc').
  { assert (E2 : h' ++ rest' = (XZ_MAGIC ++ [0; ct'] ++ crc') ++ r') by (rewrite E', <- !app_assoc; reflexivity).
    apply app_eq_length in E2 as [E2 _]; [exact E2|]. rewrite !app_length. unfold zlen in *. cbn. lia. }
  subst h h'. apply one_byte_diff_split in D; [|reflexivity].
  destruct D as [[D _]|[_ D]]; [apply (one_byte_diff_neq _ _ D); reflexivity|].
  rewrite !bytes_ok_app in Bh, Bh'.
  apply andb_true_iff in Bh as [_ Bh]. apply andb_true_iff in Bh as [Bf Bc].
  apply andb_true_iff in Bh' as [_ Bh']. apply andb_true_iff in Bh' as [Bf' Bc'].
  eapply (crc32_pair_one_diff [0; ct] [0; ct'] crc crc'); try eassumption; try reflexivity.
  unfold zlen in *. lia.
Qed.

(* StreamFooter::parse accepts exactly: CRC-32 of (backward size ++ flags), backward size, flags,
   the footer magic *)
Lemma xz_parse_footer_inv src bw flags rest : xz_parse_footer src = Ok (bw, flags, rest) ->
  exists crc bwb, src = crc ++ bwb ++ flags ++ XZ_FOOTER_MAGIC ++ rest /\ zlen crc = 4 /\ zlen bwb = 4 /\
                  zlen flags = 2 /\ le_value crc = crc32 (bwb ++ flags) /\ bw = le_value bwb.
Proof.
  unfold xz_parse_footer. intros H.
  destruct (xz_take 4 src) as [[crc r1]| | |] eqn:E1; try discriminate. cbn [obind] in H.
  destruct (xz_take 4 r1) as [[bwb r2]| | |] eqn:E2; try discriminate. cbn [obind] in H.
  destruct (xz_take 2 r2) as [[fl r3]| | |] eqn:E3; try discriminate. cbn [obind] in H.
  destruct (Z.eqb_spec (le_value crc) (crc32 (bwb ++ fl))); [|discriminate]. cbn [negb] in H.
  destruct (xz_take 2 r3) as [[mg r4]| | |] eqn:E4; try discriminate. cbn [obind] in H.
  destruct (bytes_eqb mg XZ_FOOTER_MAGIC) eqn:Em; [|discriminate]. cbn [negb] in H. inversion H; subst.
  apply bytes_eqb_eq in Em. subst mg.
  apply xz_take_inv in E1 as [-> L1]; [|lia]. apply xz_take_inv in E2 as [-> L2]; [|lia].
  apply xz_take_inv in E3 as [-> L3]; [|lia]. apply xz_take_inv in E4 as [-> L4]; [|lia].
  exists crc, bwb. repeat split; auto.
Qed.

Lemma firstn_app_exact {A} (a b : list A) n : length a = n -> firstn n (a ++ b) = a.
Proof. intros <-. rewrite firstn_app, Nat.sub_diag, firstn_all. cbn [firstn]. apply app_nil_r. Qed.

(* C04_bitflip, stream footer: 12 bytes, one byte changed: not both accepted *)
Theorem bitflip_stream_footer h h' rest rest' x x' :
  zlen h = 12 -> bytes_ok h = true -> bytes_ok h' = true -> one_byte_diff h h' ->
  xz_parse_footer (h ++ rest) = Ok x -> xz_parse_footer (h' ++ rest') = Ok x' -> False.
Proof.
  intros Lh Bh Bh' D P P'. destruct x as [[bw fl] r], x' as [[bw' fl'] r'].
  apply xz_parse_footer_inv in P as (crc & bwb & E & L1 & L2 & L3 & V & _).
  apply xz_parse_footer_inv in P' as (crc' & bwb' & E' & L1' & L2' & L3' & V' & _).
  pose proof (one_byte_diff_length _ _ D) as Ll.
  assert (Eh : h = crc ++ bwb ++ fl ++ XZ_FOOTER_MAGIC).
  { assert (E2 : h ++ rest = (crc ++ bwb ++ fl ++ XZ_FOOTER_MAGIC) ++ r) by (rewrite E, <- !app_assoc; reflexivity).
    apply app_eq_length in E2 as [E2 _]; [exact E2|]. rewrite !app_length. unfold zlen in *. cbn. lia. }
  assert (Eh' : h' = crc' ++ bwb' ++ fl' ++ XZ_FOOTER_MAGIC).
  { assert (E2 : h' ++ rest' = (crc' ++ bwb' ++ fl' ++ XZ_FOOTER_MAGIC) ++ r') by (rewrite E', <- !app_assoc; reflexivity).
    apply app_eq_length in E2 as [E2 _]; [exact E2|]. rewrite !app_length. unfold zlen in *. cbn. lia. }
  subst h h'.
  (* reorder: (bwb ++ fl) is the covered data, crc the stored field, the magic is fixed *)
  rewrite !bytes_ok_app in Bh, Bh'.
  apply andb_true_iff in Bh as [Bc Bh]. apply andb_true_iff in Bh as [Bb Bh]. apply andb_true_iff in Bh as [Bf _].
  apply andb_true_iff in Bh' as [Bc' Bh']. apply andb_true_iff in Bh' as [Bb' Bh']. apply andb_true_iff in Bh' as [Bf' _].
  apply one_byte_diff_split in D; [|unfold zlen in *; lia].
  destruct D as [[Dc Er]|[Ec Dr]].
  - (* the stored CRC changed, the covered bytes did not *)
    apply app_inv_tail_iff in Er || idtac.
    assert (bwb ++ fl = bwb' ++ fl').
    { replace (bwb ++ fl ++ XZ_FOOTER_MAGIC) with ((bwb ++ fl) ++ XZ_FOOTER_MAGIC) in Er by (rewrite <- app_assoc; reflexivity).
      replace (bwb' ++ fl' ++ XZ_FOOTER_MAGIC) with ((bwb' ++ fl') ++ XZ_FOOTER_MAGIC) in Er by (rewrite <- app_assoc; reflexivity).
      apply app_inv_tail in Er. exact Er. }
    apply (one_byte_diff_neq _ _ Dc). apply le_value_inj; try assumption; [unfold zlen in *; lia | congruence].
  - subst crc'.
    replace (bwb ++ fl ++ XZ_FOOTER_MAGIC) with ((bwb ++ fl) ++ XZ_FOOTER_MAGIC) in Dr by (rewrite <- app_assoc; reflexivity).
    replace (bwb' ++ fl' ++ XZ_FOOTER_MAGIC) with ((bwb' ++ fl') ++ XZ_FOOTER_MAGIC) in Dr by (rewrite <- app_assoc; reflexivity).
    apply one_byte_diff_split in Dr; [|rewrite !app_length; unfold zlen in *; lia].
    destruct Dr as [[Dd _]|[_ Dm]]; [|apply (one_byte_diff_neq _ _ Dm); reflexivity].
    destruct Dd as (p & b & b' & s & Ed & Ed' & Hne).
    assert (Bd : bytes_ok (bwb ++ fl) = true) by (rewrite bytes_ok_app, Bb, Bf; reflexivity).
    assert (Bd' : bytes_ok (bwb' ++ fl') = true) by (rewrite bytes_ok_app, Bb', Bf'; reflexivity).
    rewrite Ed in Bd, V. rewrite Ed' in Bd', V'.
    rewrite bytes_ok_app in Bd, Bd'. apply andb_true_iff in Bd as [Bp Bs]. apply andb_true_iff in Bd' as [_ Bs'].
    apply bok_cons in Bs as [Hb Bs]. apply bok_cons in Bs' as [Hb' _].
    apply (crc32_one_byte p b b' s Bp Hb Hb' Bs Hne). congruence.
Qed.

(* the stored block check: if the field alone is damaged the comparison fails *)
Theorem bitflip_check_field ct computed stored stored' rest rest' r r' :
  zlen stored = check_size ct -> zlen stored' = check_size ct -> stored <> stored' -> ct <> 0 ->
  xz_verify_check ct computed (stored ++ rest) = Ok r -> xz_verify_check ct computed (stored' ++ rest') = Ok r' -> False.
Proof.
  intros L L' Hne Hct P P'. unfold xz_verify_check in P, P'.
  destruct (Z.eqb_spec ct 0); [contradiction|].
  rewrite (xz_take_app_n (check_size ct)) in P by exact L. rewrite (xz_take_app_n (check_size ct)) in P' by exact L'.
  cbn [obind] in P, P'.
  destruct (bytes_eqb stored computed) eqn:E1; [|discriminate]. destruct (bytes_eqb stored' computed) eqn:E2; [|discriminate].
  apply bytes_eqb_eq in E1, E2. congruence.
Qed.
