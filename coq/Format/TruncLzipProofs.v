(* Format/TruncLzipProofs.v — C05 for the LZIP container (whole-file reader model lz_decode,
   Format/LzipFormat.v, with the fix patches): a TRUNCATED file.
   A file is a sequence of members; for every proper prefix p of it:
     - p ends inside a member (after at least one byte of it): lz_decode p fails with an error -
       in the header (UnexpectedEof), in the LZMA stream (the payload decoder's error), or in the
       20-byte trailer (UnexpectedEof);
     - p ends exactly between two members: p is itself a complete LZIP file (the format has no
       end-of-file record), lz_decode returns the data of the members it contains;
     - p = []: accepted as an empty file - the KNOWN FINDING lzip-empty-input.
   For a file of ONE member (what LZIPWriter produces unless a member size is configured) every
   proper non-empty prefix is rejected.
   The LZMA payload codec is abstract, as in LzipProofs.v: hypotheses are its round trip with exact
   consumption (C01 + C16) and that it rejects a truncated payload (for the LZMAReader model:
   lzma1_truncated_raw of Codec/TruncLzma1Proofs.v).  Proofs only. *)
From LzVerif Require Import Base.Bytes Format.Crc Format.CrcProofs Format.LzipFormat Format.LzipDict Format.LzipDictProofs
  Format.LzipSplitProofs Format.XzSplitProofs Format.XzHeaderProofs Format.LzipProofs Format.LzipSoundProofs.
Ltac Zify.zify_post_hook ::= Z.div_mod_to_equations.

Section Trunc.
  Variable penc : Z -> list Z -> list Z.
  Variable pdec : Z -> list Z -> outcome (list Z * list Z).
  Hypothesis pdec_penc : forall d dd x tail, d <= dd -> pdec dd (penc d x ++ tail) = Ok (x, tail).
  (* a truncated payload is an error *)
  Hypothesis pdec_trunc : forall d dd x p tl, d <= dd -> penc d x = p ++ tl -> tl <> [] -> exists e, pdec dd p = Err e.

  Notation lm_bytes := (lm_bytes penc).
  Notation lm_ok := (lm_ok penc).
  Notation lm_file := (lm_file penc).

  (* fewer than 20 bytes where the trailer should be *)
  Lemma check_trailer_short a b c l : zlen l < 20 -> exists e, lz_check_trailer a b c l = Err e.
  Proof.
    intros Hl. unfold lz_check_trailer, lz_take.
    destruct (Z.ltb_spec (zlen l) 4); [eexists; reflexivity|]. cbn [obind].
    assert (H1 : zlen (skipn (Z.to_nat 4) l) = zlen l - 4) by (apply zlen_skipn; lia).
    destruct (Z.ltb_spec (zlen (skipn (Z.to_nat 4) l)) 8); [eexists; reflexivity|]. cbn [obind].
    assert (H2 : zlen (skipn (Z.to_nat 8) (skipn (Z.to_nat 4) l)) = zlen l - 12) by (rewrite zlen_skipn; lia).
    destruct (Z.ltb_spec (zlen (skipn (Z.to_nat 8) (skipn (Z.to_nat 4) l))) 8); [eexists; reflexivity | lia].
  Qed.

  (* the part of a member behind its header, cut short *)
  Lemma member_body_trunc m dd l tl fuel acc : lm_ok m -> lzip_decode_dict_size (lm_byte m) = Ok dd -> lm_dict m <= dd ->
    l ++ tl = penc (lm_dict m) (lm_content m) ++
              le_bytes 4 (crc32 (lm_content m)) ++ le_bytes 8 (zlen (lm_content m)) ++
              le_bytes 8 (LZIP_HEADER_SIZE + zlen (penc (lm_dict m) (lm_content m)) + LZIP_TRAILER_SIZE) ->
    tl <> [] ->
    exists e, (do pr <- pdec dd l;
               let '(content, r2) := pr in
               do r3 <- lz_check_trailer (crc32 content) (zlen content) (zlen l - zlen r2) r2;
               lzd_members pdec fuel lz_fixed false r3 (rev_append content acc)) = Err e.
  Proof.
    intros Hok Hd Hle Hsplit Htl.
    set (P := penc (lm_dict m) (lm_content m)) in *.
    set (T := le_bytes 4 (crc32 (lm_content m)) ++ le_bytes 8 (zlen (lm_content m)) ++
              le_bytes 8 (LZIP_HEADER_SIZE + zlen P + LZIP_TRAILER_SIZE)) in *.
    assert (HT : zlen T = 20) by (unfold T; rewrite !zlen_app, !zlen_le_bytes; reflexivity).
    assert (Hdone : forall l2 tl2, T = l2 ++ tl2 -> tl2 <> [] ->
              exists e, (do pr <- pdec dd (P ++ l2);
                         let '(content, r2) := pr in
                         do r3 <- lz_check_trailer (crc32 content) (zlen content) (zlen (P ++ l2) - zlen r2) r2;
                         lzd_members pdec fuel lz_fixed false r3 (rev_append content acc)) = Err e).
    { intros l2 tl2 HT2 Htl2. unfold P. rewrite pdec_penc by exact Hle. cbn [obind].
      assert (Hl2 : zlen l2 < 20).
      { rewrite HT2, zlen_app in HT. destruct tl2; [contradiction|]. rewrite zlen_cons in HT. pose proof (zlen_nonneg tl2). lia. }
      destruct (check_trailer_short (crc32 (lm_content m)) (zlen (lm_content m))
                  (zlen (penc (lm_dict m) (lm_content m) ++ l2) - zlen l2) l2 Hl2) as (e & ->).
      exists e. reflexivity. }
    destruct (app_eq_app _ _ _ _ Hsplit) as (x & [(Hl & HT2)|(HP & Htl2)]).
    - (* the payload is complete *)
      subst l. exact (Hdone x tl HT2 Htl).
    - destruct x as [|b x].
      + rewrite app_nil_r in HP. cbn [app] in Htl2. subst tl. rewrite <- (app_nil_r l), <- HP.
        apply (Hdone [] T); [reflexivity|]. intros HTn. rewrite HTn in HT. discriminate HT.
      + (* the payload is cut *)
        destruct (pdec_trunc (lm_dict m) dd (lm_content m) l (b :: x) Hle HP ltac:(discriminate)) as (e & ->).
        exists e. reflexivity.
  Qed.

  (* one member cut anywhere after its first byte *)
  Lemma member_trunc m q tl fuel first acc : lm_ok m -> lm_bytes m = q ++ tl -> q <> [] -> tl <> [] ->
    exists e, lzd_members pdec (S fuel) lz_fixed first q acc = Err e.
  Proof.
    intros Hok Hsplit Hq Htl. pose proof Hok as ((dd & Hd & Hle) & _).
    unfold LzipProofs.lm_bytes, lz_member in Hsplit.
    set (body := penc (lm_dict m) (lm_content m) ++ _) in Hsplit.
    change (LZIP_MAGIC ++ [1; lm_byte m] ++ body) with ([76; 90; 73; 80; 1; lm_byte m] ++ body) in Hsplit.
    destruct (app_eq_app _ _ _ _ Hsplit) as (x & [(Hq6 & Hb)|(H6 & Htl2)]).
    - (* header cut: q ++ x = the six header bytes, x <> [] or handled below *)
      destruct x as [|x0 x].
      + rewrite app_nil_r in Hq6. cbn [app] in Hb. subst q.
        cbn [lzd_members].
        assert (Hh : lz_parse_header lz_fixed first ([76; 90; 73; 80; 1; lm_byte m] ++ []) = Ok (Some dd, [])).
        { change ([76; 90; 73; 80; 1; lm_byte m] ++ []) with (LZIP_MAGIC ++ [1; lm_byte m] ++ []).
          apply lz_header_ok; exact Hd. }
        rewrite app_nil_r in Hh. rewrite Hh. cbn [obind].
        apply (member_body_trunc m dd [] tl fuel acc Hok Hd Hle); [cbn [app]; first [exact Hb | symmetry; exact Hb] | exact Htl].
      + assert (Hh : lz_parse_header lz_fixed first q = Err E_UNEXPECTED_EOF).
        { destruct q as [|a [|b [|c [|d [|e [|f q']]]]]]; cbn [app] in Hq6; [contradiction|..].
          - inversion Hq6; subst. reflexivity.
          - inversion Hq6; subst. reflexivity.
          - inversion Hq6; subst. reflexivity.
          - inversion Hq6; subst. reflexivity.
          - inversion Hq6; subst. reflexivity.
          - exfalso. inversion Hq6 as [[H1 H2 H3 H4 H5 H6 H7]]. destruct q'; discriminate H7. }
        cbn [lzd_members]. rewrite Hh. exists E_UNEXPECTED_EOF. reflexivity.
    - (* header complete *)
      subst q.
      assert (Hh : lz_parse_header lz_fixed first ([76; 90; 73; 80; 1; lm_byte m] ++ x) = Ok (Some dd, x)).
      { change ([76; 90; 73; 80; 1; lm_byte m] ++ x) with (LZIP_MAGIC ++ [1; lm_byte m] ++ x).
        apply lz_header_ok; exact Hd. }
      cbn [lzd_members]. rewrite Hh. cbn [obind].
      apply (member_body_trunc m dd x tl fuel acc Hok Hd Hle); [first [exact Htl2 | symmetry; exact Htl2] | exact Htl].
  Qed.

  (* where a prefix of a file ends: between two members, or inside one *)
  Lemma lm_file_prefix : forall ms p tl, lm_file ms = p ++ tl ->
    exists ms1 ms2 q, ms = ms1 ++ ms2 /\ p = lm_file ms1 ++ q /\
      (q = [] \/ exists m ms3 tl', ms2 = m :: ms3 /\ lm_bytes m = q ++ tl' /\ q <> [] /\ tl' <> []).
  Proof.
    induction ms as [|m ms IH]; intros p tl H.
    - unfold LzipProofs.lm_file in H. cbn [map concat] in H. symmetry in H. apply app_eq_nil in H as [-> _].
      exists [], [], []. split; [reflexivity|]. split; [reflexivity | left; reflexivity].
    - unfold LzipProofs.lm_file in H. cbn [map concat] in H. fold (lm_file ms) in H. symmetry in H.
      destruct (app_eq_app _ _ _ _ H) as (x & [(Hp & Hf)|(Hm & Htl)]).
      + destruct (IH x tl Hf) as (ms1 & ms2 & q & Hms & Hx & Hq).
        exists (m :: ms1), ms2, q. split; [rewrite Hms; reflexivity|]. split; [|exact Hq].
        rewrite Hp, Hx. unfold LzipProofs.lm_file. cbn [map concat]. rewrite app_assoc. reflexivity.
      + destruct p as [|p0 p].
        * exists [], (m :: ms), []. split; [reflexivity|]. split; [reflexivity | left; reflexivity].
        * destruct x as [|x0 x].
          -- rewrite app_nil_r in Hm. exists [m], ms, []. split; [reflexivity|]. split; [|left; reflexivity].
             unfold LzipProofs.lm_file. cbn [map concat]. rewrite !app_nil_r. symmetry. exact Hm.
          -- exists [], (m :: ms), (p0 :: p). split; [reflexivity|]. split; [reflexivity|].
             right. exists m, ms, (x0 :: x). split; [reflexivity|]. split; [exact Hm|]. split; discriminate.
  Qed.

  Lemma Forall_app_l {A} (P : A -> Prop) l1 l2 : Forall P (l1 ++ l2) -> Forall P l1 /\ Forall P l2.
  Proof. intros H. apply Forall_app in H. exact H. Qed.

  (* TRUNCATED FILE, any number of members *)
  Theorem lzip_truncated_thm : forall ms p tl, Forall lm_ok ms -> lm_file ms = p ++ tl -> tl <> [] ->
    (exists e, lz_decode pdec lz_fixed p = Err e) \/
    (exists ms1 ms2, ms = ms1 ++ ms2 /\ ms2 <> [] /\ p = lm_file ms1 /\
                     lz_decode pdec lz_fixed p = Ok (lm_data ms1, [])).
  Proof.
    intros ms p tl Hok Hf Htl.
    destruct (lm_file_prefix ms p tl Hf) as (ms1 & ms2 & q & Hms & Hp & Hq).
    rewrite Hms in Hok. apply Forall_app_l in Hok as [Hok1 Hok2].
    destruct Hq as [->|(m & ms3 & tl' & Hms2 & Hm & Hqn & Htln)].
    - right. rewrite app_nil_r in Hp. exists ms1, ms2. split; [exact Hms|]. split.
      + intros ->. rewrite app_nil_r in Hms. subst ms1. rewrite Hp in Hf.
        rewrite <- (app_nil_r (lm_file ms)) in Hf at 1. apply app_inv_head in Hf. symmetry in Hf. exact (Htl Hf).
      + split; [exact Hp|]. subst p. destruct ms1 as [|m1 ms1].
        * apply lz_decode_empty_known.
        * apply (lzip_multi_thm penc pdec pdec_penc); exact Hok1.
    - left. subst p ms2. inversion Hok2 as [|? ? Hm_ok _]; subst.
      unfold lz_decode.
      pose proof (lm_file_len penc ms1) as Hl.
      assert (Ef : exists fuel, S (length (lm_file ms1 ++ q)) = (length ms1 + S fuel)%nat).
      { exists (length (lm_file ms1 ++ q) - length ms1)%nat. rewrite app_length. unfold zlen in Hl. lia. }
      destruct Ef as (fuel & ->).
      rewrite (lz_members_rt penc pdec pdec_penc) by exact Hok1.
      eapply member_trunc; eassumption.
  Qed.

  (* a file of one member: every proper non-empty prefix is rejected *)
  Corollary lzip_truncated_single : forall m p tl, lm_ok m -> lm_file [m] = p ++ tl -> tl <> [] -> p <> [] ->
    exists e, lz_decode pdec lz_fixed p = Err e.
  Proof.
    intros m p tl Hok Hf Htl Hp.
    destruct (lzip_truncated_thm [m] p tl (Forall_cons _ Hok (Forall_nil _)) Hf Htl) as [He|(ms1 & ms2 & Hms & Hne & Hpf & _)];
      [exact He|].
    exfalso. destruct ms1 as [|m1 ms1].
    - apply Hp. rewrite Hpf. reflexivity.
    - destruct ms1; [|discriminate]. cbn [app] in Hms. inversion Hms. subst ms2. apply Hne. reflexivity.
  Qed.

  (* what LZIPWriter returned, cut anywhere: an error, unless the cut is exactly between two
     members - then the members before the cut are returned, a prefix of the data written *)
  Theorem lzip_truncated_written : forall o0 parts f p tl,
    bytes_ok (concat parts) = true ->
    (forall members, lz_members_of (lo_member_size (lzw_new o0)) parts = Ok members ->
                     lz_sizes_ok penc (lo_dict (lzw_new o0)) members) ->
    match lo_member_size o0 with Some m => 1 <= m | None => True end ->
    lz_encode penc o0 parts = Ok f ->
    f = p ++ tl -> tl <> [] -> p <> [] ->
    (exists e, lz_decode pdec lz_fixed p = Err e) \/
    (exists cs1 cs2, cs1 <> [] /\ cs2 <> [] /\ concat parts = concat cs1 ++ concat cs2 /\
                     lz_decode pdec lz_fixed p = Ok (concat cs1, [])).
  Proof.
    intros o0 parts f p tl Hb Hsz Hms E Hf Htl Hp.
    destruct (lz_encode_shape penc pdec pdec_penc o0 parts f Hb Hsz Hms E) as (byte & c & cs & _ & Ef & Hok & Hcat).
    set (mk := fun x => mkLzm byte (lo_dict (lzw_new o0)) x) in *.
    rewrite Ef in Hf.
    destruct (lzip_truncated_thm (map mk (c :: cs)) p tl Hok Hf Htl) as [He|(ms1 & ms2 & Hsplit & Hne & Hpf & Hdec)];
      [left; exact He|].
    right.
    apply map_eq_app in Hsplit as (cs1 & cs2 & Hmem & H1 & H2).
    exists cs1, cs2. subst ms1 ms2.
    split; [intros ->; apply Hp; rewrite Hpf; reflexivity|].
    split; [intros ->; apply Hne; reflexivity|].
    split; [rewrite <- Hcat, Hmem, concat_app; reflexivity|].
    rewrite Hdec. unfold mk. rewrite concat_map_content. reflexivity.
  Qed.

  (* the writer without a configured member size writes one member: every proper non-empty prefix
     of its output is rejected *)
  Theorem lzip_truncated_written_single : forall o0 parts f p tl,
    bytes_ok (concat parts) = true ->
    lz_sizes_ok penc (lo_dict (lzw_new o0)) [concat parts] ->
    lo_member_size o0 = None ->
    lz_encode penc o0 parts = Ok f ->
    f = p ++ tl -> tl <> [] -> p <> [] ->
    exists e, lz_decode pdec lz_fixed p = Err e.
  Proof.
    intros o0 parts f p tl Hb Hsz Hnone E Hf Htl Hp.
    unfold lz_encode in E. cbv zeta in E.
    assert (Hmo : lo_member_size (lzw_new o0) = None) by (unfold lzw_new; cbn [lo_member_size]; rewrite Hnone; reflexivity).
    rewrite Hmo, lz_members_none in E. cbn [obind] in E. unfold lz_write in E.
    set (o := lzw_new o0) in *.
    assert (Hd : LZIP_MIN_DICT <= lo_dict o <= LZIP_MAX_DICT).
    { unfold o, lzw_new; cbn [lo_dict]. unfold lzip_clamp_dict, LZIP_MIN_DICT, LZIP_MAX_DICT.
      destruct (Z.ltb_spec (lo_dict o0) 4096); [lia|]. destruct (Z.ltb_spec 536870912 (lo_dict o0)); lia. }
    destruct (lzip_dict_ok _ Hd) as (byte & dd & Eb & Hbr & Edd & Hle & _).
    rewrite Eb in E. cbn [obind] in E. rewrite Hmo, lz_members_none in E. cbn [obind] in E.
    apply lz_members_bytes_file in E. cbn [map] in E.
    assert (Hm : lm_ok (mkLzm byte (lo_dict o) (concat parts))).
    { unfold LzipProofs.lm_ok; cbn [lm_byte lm_dict lm_content]. split; [exists dd; auto|]. split; [exact Hb|].
      inversion Hsz; subst. tauto. }
    rewrite E in Hf. exact (lzip_truncated_single _ p tl Hm Hf Htl Hp).
  Qed.
End Trunc.

(* ---------------------------------------------------------------------------------------------
   non-vacuity: the toy payload codec of RoundTripExamples.v satisfies both hypotheses; the
   statements evaluated at every cut point of a one-member and of a three-member file *)
From LzVerif Require Import Format.XzFormat Format.RoundTripExamples.

Lemma toy_loop_trunc x : forall p tl acc, toy_penc 0 x = p ++ tl -> tl <> [] ->
  toy_pdec_loop p acc = Err E_UNEXPECTED_EOF.
Proof.
  induction x as [|b x IH]; intros p tl acc H Htl.
  - unfold toy_penc in H. cbn [map concat app] in H.
    destruct p as [|c p]; [reflexivity|]. cbn [app] in H. inversion H as [[Hc Hp]].
    symmetry in Hp. apply app_eq_nil in Hp as [_ Hp]. contradiction.
  - unfold toy_penc in H. cbn [map concat app] in H. fold (toy_penc 0 x) in H.
    destruct p as [|c [|b' p]]; [reflexivity | |].
    + cbn [app] in H. inversion H; subst. reflexivity.
    + cbn [app] in H. inversion H as [[Hc Hb Hp]]. subst c b'. cbn [toy_pdec_loop Z.eqb].
      apply (IH p tl); [exact Hp | exact Htl].
Qed.

Lemma toy_trunc : forall d dd x p tl, d <= dd -> toy_penc d x = p ++ tl -> tl <> [] -> exists e, toy_pdec dd p = Err e.
Proof. intros d dd x p tl _ H Htl. exists E_UNEXPECTED_EOF. exact (toy_loop_trunc x p tl [] H Htl). Qed.

Lemma truncating_payload_codec_exists :
  exists (penc : Z -> list Z -> list Z) (pdec : Z -> list Z -> outcome (list Z * list Z)),
    (forall d dd x tail, d <= dd -> pdec dd (penc d x ++ tail) = Ok (x, tail)) /\
    (forall d dd x p tl, d <= dd -> penc d x = p ++ tl -> tl <> [] -> exists e, pdec dd p = Err e).
Proof. exists toy_penc, toy_pdec. split; [exact toy_rt | exact toy_trunc]. Qed.

Definition lz_cut_rejected (f : list Z) (k : nat) : bool :=
  match lz_decode toy_pdec lz_fixed (firstn k f) with Err _ => true | _ => false end.

(* one member (no member size): every cut point 1 .. length-1 is rejected; the empty prefix is the
   known finding *)
Example lzip_truncated_single_example :
  exists f, lz_encode toy_penc (mkLzopts 5000 None) [[1; 2; 3]; []; [4; 5]] = Ok f /\
    length f = 37%nat /\
    forallb (lz_cut_rejected f) (seq 1 (length f - 1)) = true /\
    lz_decode toy_pdec lz_fixed (firstn 0 f) = Ok ([], []).
Proof. eexists. split; [vm_compute; reflexivity|]. vm_compute. repeat split; reflexivity. Qed.

(* member size 1 -> clamped to the dictionary size: use a larger input to get several members is
   too big to evaluate; three members written by hand through lm_file instead *)
Definition ex_members : list lzm := [mkLzm 12 4096 [1; 2]; mkLzm 12 4096 []; mkLzm 12 4096 [3]].

Example lzip_truncated_multi_example :
  let f := lm_file toy_penc ex_members in
  length f = 87%nat /\
  (* rejected everywhere except at the two inner member boundaries (and the empty prefix) *)
  filter (fun k => negb (lz_cut_rejected f k)) (seq 0 (length f)) = [0; 31; 58]%nat /\
  lz_decode toy_pdec lz_fixed (firstn 31 f) = Ok ([1; 2], []) /\
  lz_decode toy_pdec lz_fixed (firstn 58 f) = Ok ([1; 2], []) /\
  lz_decode toy_pdec lz_fixed f = Ok ([1; 2; 3], []).
Proof. vm_compute. repeat split; reflexivity. Qed.

Print Assumptions lzip_truncated_thm.
Print Assumptions lzip_truncated_written.
Print Assumptions lzip_truncated_written_single.
