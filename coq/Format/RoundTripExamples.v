(* Format/RoundTripExamples.v — non-vacuity of the container round-trip theorems: a (toy) payload
   codec and filter codec satisfying the Section hypotheses of XzProofs.v / LzipProofs.v exist, and
   the theorems' conclusions can be computed on concrete instances with it. *)
From LzVerif Require Import Base.Bytes Format.XzFormat Format.LzipFormat Format.XzSplitProofs Format.XzHeaderProofs
  Format.XzBlockHeaderProofs Format.XzProofs Format.LzipProofs.

(* a self-delimiting code: every byte b becomes 1 b, the end is 0 *)
Definition toy_penc (d : Z) (x : list Z) : list Z := concat (map (fun b => [1; b]) x) ++ [0].
Fixpoint toy_pdec_loop (src acc : list Z) : outcome (list Z * list Z) :=
  match src with
  | c :: t =>
      if c =? 0 then Ok (rev acc, t) else
      match t with
      | b :: t' => toy_pdec_loop t' (b :: acc)
      | [] => Err E_UNEXPECTED_EOF
      end
  | [] => Err E_UNEXPECTED_EOF
  end.
Definition toy_pdec (dd : Z) (src : list Z) : outcome (list Z * list Z) := toy_pdec_loop src [].

Lemma toy_loop_rt x : forall tail acc,
  toy_pdec_loop (toy_penc 0 x ++ tail) acc = Ok (rev acc ++ x, tail).
Proof.
  induction x as [|b x IH]; intros tail acc.
  - cbn. rewrite app_nil_r. reflexivity.
  - unfold toy_penc in *. cbn [map concat app toy_pdec_loop Z.eqb]. rewrite IH. cbn [rev].
    rewrite <- app_assoc. reflexivity.
Qed.

Lemma toy_rt : forall d dd x tail, d <= dd -> toy_pdec dd (toy_penc d x ++ tail) = Ok (x, tail).
Proof. intros d dd x tail _. unfold toy_pdec. exact (toy_loop_rt x tail []). Qed.

(* a filter codec: add / subtract the property byte-wise *)
Definition toy_fenc (k : fkind) (p : Z) (x : list Z) : list Z := map (fun b => (b + p) mod 256) x.
Definition toy_fdec (k : fkind) (p : Z) (y : list Z) : list Z := map (fun b => (b - p) mod 256) y.

(* the abstract codecs of the theorems exist *)
Lemma payload_codec_exists :
  exists (penc : Z -> list Z -> list Z) (pdec : Z -> list Z -> outcome (list Z * list Z)),
    forall d dd x tail, d <= dd -> pdec dd (penc d x ++ tail) = Ok (x, tail).
Proof. exists toy_penc, toy_pdec. exact toy_rt. Qed.

Lemma filter_codec_exists :
  exists (fenc fdec : fkind -> Z -> list Z -> list Z), forall k p x, fdec k p (fenc k p x) = x.
Proof. exists (fun _ _ x => x), (fun _ _ x => x). reflexivity. Qed.

(* a computed instance: two blocks, a delta pre-filter slot, SHA-256 check, empty writes *)
Definition ex_opts : xzopts := mkXzopts 10 (Some 1) [(FDelta, 3)] 4096.
Definition ex_parts : list (list Z) := [repeatn 7 3000; []; repeatn 9 2000; [10]].

Lemma ex_stream_ok : stream_ok ex_opts.
Proof.
  split; [split; [reflexivity|]|cbn; lia]. constructor; [|constructor]. unfold filter_ok; cbn. lia.
Qed.

Lemma ex_roundtrip :
  exists f, xz_encode toy_penc (fun _ _ x => x) xz_fixed ex_opts ex_parts = Ok f /\
            xz_decode xz_check_bytes (blockdec toy_pdec (fun _ _ x => x)) xz_fixed true f = Ok (concat ex_parts, []) /\
            xz_blocks_of xz_fixed (Some 4096) ex_parts = Ok [repeatn 7 3000 ++ repeatn 9 1096; repeatn 9 904 ++ [10]].
Proof. eexists. split; [vm_compute; reflexivity|]. split; vm_compute; reflexivity. Qed.

Lemma ex_lzip_roundtrip :
  exists f, lz_encode toy_penc (mkLzopts 5000 (Some 1)) [[1; 2; 3]; []; [4; 5]] = Ok f /\
            lz_decode toy_pdec lz_fixed f = Ok ([1; 2; 3; 4; 5], []).
Proof. eexists. split; [vm_compute; reflexivity|]. vm_compute. reflexivity. Qed.
