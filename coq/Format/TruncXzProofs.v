(* Format/TruncXzProofs.v — C05 for the XZ container (whole-file reader model xz_decode,
   Format/XzFormat.v) under TRUNCATION of the file.
   (A) Every parser of the reader (stream header, block header, block padding, check field, index,
       stream footer) and the block loop, for ANY input [src] and any bytes [tl] appended to it:
       over the shorter input the step fails with an error, or the step over the longer input is
       the same step with [tl] left unread behind its rest ([trx]).  The payload decoder is
       abstract with exactly this property as hypothesis (for LZMA2Reader see
       lzma2_payload_dec_n_trx below: the model has it for every budget of read calls) and the
       property that it only consumes input.
   (B) Hence: if the reader accepts a file in single-stream mode and leaves nothing unread, it
       rejects every proper prefix of that file with an error - in both modes; in particular every
       proper prefix (the empty one included) of every file XZWriter produces.
   Proofs only. *)
From LzVerif Require Import Base.Bytes Format.Crc Format.Vli Format.XzFormat Format.XzSplitProofs Format.XzHeaderProofs
  Format.BitflipProofs Format.XzSoundProofs Format.XzProofs Codec.Lzma2Dec Codec.TruncProofs Codec.TruncLzma2Proofs.
Ltac Zify.zify_post_hook ::= Z.div_mod_to_equations.

(* the step over the truncated input [rt] and over the complete input [rf] *)
Definition trx {A} (f : A -> A) (rt rf : outcome A) : Prop := (exists e, rt = Err e) \/ rf = omap f rt.

Lemma trx_bind {A B} (f : A -> A) (g : B -> B) x xf (k kf : A -> outcome B) :
  trx f x xf -> (forall a, x = Ok a -> trx g (k a) (kf (f a))) -> trx g (obind x k) (obind xf kf).
Proof.
  intros [(e & ->)| ->] Hk; [left; exists e; reflexivity|].
  destruct x as [a|e|e|]; cbn [obind omap]; [apply Hk; reflexivity | right; reflexivity..].
Qed.

Definition rapp {A} (tl : list Z) (r : A * list Z) : A * list Z := (fst r, snd r ++ tl).

Lemma firstn_app_le' {A} n (a b : list A) : (n <= length a)%nat -> firstn n (a ++ b) = firstn n a.
Proof. intros H. rewrite firstn_app. replace (n - length a)%nat with 0%nat by lia. rewrite firstn_O, app_nil_r. reflexivity. Qed.
Lemma skipn_app_le' {A} n (a b : list A) : (n <= length a)%nat -> skipn n (a ++ b) = skipn n a ++ b.
Proof. intros H. rewrite skipn_app. replace (n - length a)%nat with 0%nat by lia. reflexivity. Qed.

(* tactic for the parts of a parser that do not look at the rest of the input *)
Ltac same_step :=
  match goal with
  | |- trx _ (obind ?x _) (obind ?x _) => destruct x as [?|?|?|]; cbn [obind]; try (right; reflexivity)
  | |- trx _ (if ?c then _ else _) (if ?c then _ else _) => destruct c; try (right; reflexivity)
  | |- trx _ (let '(_, _) := ?p in _) _ => destruct p
  | |- trx _ (match ?l with [] => _ | _ :: _ => _ end) (match ?l with [] => _ | _ :: _ => _ end) =>
      destruct l; try (right; reflexivity)
  end.

Section Tr.
Variable tl : list Z.

Ltac rapp_red :=
  repeat match goal with |- context [rapp tl (?a, ?b)] => change (rapp tl (a, b)) with (a, b ++ tl) end;
  cbv beta; cbn [fst snd].

Lemma xz_take_tr n src : trx (rapp tl) (xz_take n src) (xz_take n (src ++ tl)).
Proof.
  unfold xz_take. rewrite zlen_app. pose proof (zlen_nonneg tl).
  destruct (Z.ltb_spec (zlen src) n); [left; eexists; reflexivity|].
  destruct (Z.ltb_spec (zlen src + zlen tl) n); [lia|].
  right. unfold rapp; cbn [omap fst snd].
  assert (Hn : (Z.to_nat n <= length src)%nat) by (unfold zlen in *; lia).
  rewrite firstn_app_le', skipn_app_le' by exact Hn. reflexivity.
Qed.

Lemma xz_take_len n src a r : xz_take n src = Ok (a, r) -> (length r <= length src)%nat.
Proof.
  unfold xz_take. destruct (zlen src <? n); [discriminate|]. intros H. inversion H; subst.
  rewrite skipn_length. lia.
Qed.

Lemma flags_crc_tr src : trx (rapp tl) (xz_parse_flags_crc src) (xz_parse_flags_crc (src ++ tl)).
Proof.
  unfold xz_parse_flags_crc. apply trx_bind with (f := rapp tl); [apply xz_take_tr|].
  intros [flags r1] _. rapp_red.
  destruct flags as [|f0 [|f1 [|f2 fl]]]; try (right; reflexivity).
  destruct (negb (f0 =? 0)); [right; reflexivity|]. destruct (negb (check_known f1)); [right; reflexivity|].
  apply trx_bind with (f := rapp tl); [apply xz_take_tr|].
  intros [crc r2] _. rapp_red. destruct (negb _); right; reflexivity.
Qed.

Lemma stream_header_tr src : trx (rapp tl) (xz_parse_stream_header src) (xz_parse_stream_header (src ++ tl)).
Proof.
  unfold xz_parse_stream_header. apply trx_bind with (f := rapp tl); [apply xz_take_tr|].
  intros [magic r1] _. rapp_red.
  destruct (negb (bytes_eqb magic XZ_MAGIC)); [right; reflexivity | apply flags_crc_tr].
Qed.

Lemma block_header_tr src : trx (rapp tl) (xz_parse_block_header src) (xz_parse_block_header (src ++ tl)).
Proof.
  unfold xz_parse_block_header. destruct src as [|enc r0]; [left; eexists; reflexivity|]. cbn [app].
  destruct (enc =? 0); [right; reflexivity|]. cbv zeta.
  destruct ((_ <? 8) || (1024 <? _)); [right; reflexivity|].
  apply trx_bind with (f := rapp tl); [apply xz_take_tr|].
  intros [hd rest] _. rapp_red.
  destruct hd as [|flags s0]; [right; reflexivity|]. cbv zeta.
  repeat same_step.
Qed.

Lemma consume_padding_tr pos src : trx (fun r => r ++ tl) (xz_consume_padding pos src) (xz_consume_padding pos (src ++ tl)).
Proof.
  unfold xz_consume_padding. cbv zeta. pose proof (pad4_range pos) as Hr.
  destruct (pad4 pos =? 0); [right; reflexivity|].
  destruct (Z.eqb_spec (zlen (firstn (Z.to_nat (pad4 pos)) src)) (pad4 pos)) as [L|]; [|left; eexists; reflexivity].
  cbn [negb].
  assert (Hn : (Z.to_nat (pad4 pos) <= length src)%nat).
  { unfold zlen in L. rewrite firstn_length in L. lia. }
  rewrite firstn_app_le', skipn_app_le' by exact Hn.
  destruct (Z.eqb_spec (zlen (firstn (Z.to_nat (pad4 pos)) src)) (pad4 pos)); [|contradiction]. cbn [negb].
  destruct (negb (forallb _ _)); right; reflexivity.
Qed.

Lemma verify_check_tr ct computed src :
  trx (fun r => r ++ tl) (xz_verify_check ct computed src) (xz_verify_check ct computed (src ++ tl)).
Proof.
  unfold xz_verify_check. destruct (ct =? 0); [right; reflexivity|].
  apply trx_bind with (f := rapp tl); [apply xz_take_tr|].
  intros [stored rest] _. rapp_red. destruct (bytes_eqb stored computed); right; reflexivity.
Qed.

Lemma vli_reader_loop_tr n : forall input res sh,
  trx (rapp tl) (vli_parse_reader_loop n input res sh) (vli_parse_reader_loop n (input ++ tl) res sh).
Proof.
  induction n as [|k IH]; intros input res sh; cbn [vli_parse_reader_loop]; [right; reflexivity|].
  destruct input as [|b t]; [left; eexists; reflexivity|]. cbn [app].
  destruct (63 <=? sh); [right; reflexivity|]. cbv zeta.
  destruct (Z.land b 128 =? 0); [right; reflexivity | apply IH].
Qed.

Lemma vli_reader_tr input : trx (rapp tl) (vli_parse_reader input) (vli_parse_reader (input ++ tl)).
Proof. apply vli_reader_loop_tr. Qed.

Lemma vli_reader_loop_len n : forall input res sh v r,
  vli_parse_reader_loop n input res sh = Ok (v, r) -> (length r < length input)%nat.
Proof.
  induction n as [|k IH]; intros input res sh v r H; cbn [vli_parse_reader_loop] in H; [discriminate|].
  destruct input as [|b t]; [discriminate|]. destruct (63 <=? sh); [discriminate|]. cbv zeta in H.
  destruct (Z.land b 128 =? 0).
  - inversion H; subst. cbn [length]. lia.
  - apply IH in H. cbn [length]. lia.
Qed.

(* the record loop of the index; the fuels of the two runs differ (they are lengths) *)
Lemma index_records_tr : forall ft ff count src acc, (length src < ft)%nat -> (ft <= ff)%nat ->
  trx (rapp tl) (xz_index_records_loop ft count src acc) (xz_index_records_loop ff count (src ++ tl) acc).
Proof.
  induction ft as [|f IH]; intros ff count src acc Hl Hf; [lia|].
  destruct ff as [|f']; [lia|]. cbn [xz_index_records_loop].
  destruct (count <=? 0); [right; reflexivity|].
  apply trx_bind with (f := rapp tl); [apply vli_reader_tr|].
  intros [unpadded r1] E1. rapp_red.
  apply trx_bind with (f := rapp tl); [apply vli_reader_tr|].
  intros [uncompressed r2] E2. rapp_red.
  destruct (unpadded =? 0); [right; reflexivity|].
  apply vli_reader_loop_len in E1. apply vli_reader_loop_len in E2.
  apply IH; lia.
Qed.

Lemma parse_index_tr fx src :
  trx (fun r : Z * list (Z * Z) * list Z => (fst r, snd r ++ tl)) (xz_parse_index fx src) (xz_parse_index fx (src ++ tl)).
Proof.
  unfold xz_parse_index. apply trx_bind with (f := rapp tl); [apply vli_reader_tr|].
  intros [count r1] _. rapp_red.
  destruct (negb (fx11 fx) && _); [right; reflexivity|].
  apply trx_bind with (f := rapp tl).
  { apply index_records_tr; [lia|]. rewrite app_length. lia. }
  intros [recs r2] _. rapp_red. cbv zeta.
  apply trx_bind with (f := rapp tl); [apply xz_take_tr|].
  intros [padding r3] _. rapp_red.
  destruct (negb (forallb _ padding)); [right; reflexivity|].
  apply trx_bind with (f := rapp tl); [apply xz_take_tr|].
  intros [crc r4] _. rapp_red.
  repeat same_step.
Qed.

Lemma parse_footer_tr src :
  trx (fun r : Z * list Z * list Z => (fst r, snd r ++ tl)) (xz_parse_footer src) (xz_parse_footer (src ++ tl)).
Proof.
  unfold xz_parse_footer. apply trx_bind with (f := rapp tl); [apply xz_take_tr|].
  intros [crc r1] _. rapp_red.
  apply trx_bind with (f := rapp tl); [apply xz_take_tr|].
  intros [bw r2] _. rapp_red.
  apply trx_bind with (f := rapp tl); [apply xz_take_tr|].
  intros [flags r3] _. rapp_red.
  destruct (negb _); [right; reflexivity|].
  apply trx_bind with (f := rapp tl); [apply xz_take_tr|].
  intros [magic r4] _. rapp_red.
  destruct (negb _); right; reflexivity.
Qed.

Lemma index_and_footer_tr fx ct blocks src :
  trx (fun r => r ++ tl) (xz_index_and_footer fx ct blocks src) (xz_index_and_footer fx ct blocks (src ++ tl)).
Proof.
  unfold xz_index_and_footer.
  apply trx_bind with (f := fun r : Z * list (Z * Z) * list Z => (fst r, snd r ++ tl)); [apply parse_index_tr|].
  intros [[count recs] r1] _. cbn [fst snd].
  destruct (negb (count =? blocks)); [right; reflexivity|].
  apply trx_bind with (f := fun r : Z * list Z * list Z => (fst r, snd r ++ tl)); [apply parse_footer_tr|].
  intros [[bw flags] r2] _. cbn [fst snd].
  destruct (negb _); right; reflexivity.
Qed.

(* ---- the block loop and the whole file, over an abstract check function and block decoder ---- *)
Section Blocks.
Variable H : Z -> list Z -> list Z.
Variable blockdec : list (fkind * Z) -> list Z -> outcome (list Z * list Z).
Hypothesis bd_tr : forall fs src, trx (rapp tl) (blockdec fs src) (blockdec fs (src ++ tl)).
Hypothesis bd_len : forall fs src c r, blockdec fs src = Ok (c, r) -> (length r <= length src)%nat.

Definition bl_app (r : list Z * list Z * Z * Z) : list Z * list Z * Z * Z :=
  (fst (fst (fst r)), snd (fst (fst r)) ++ tl, snd (fst r), snd r).

Lemma block_header_len src h rest : xz_parse_block_header src = Ok (h, rest) -> (length rest < length src)%nat.
Proof.
  intros E. destruct h as [bh|].
  - apply xz_parse_block_header_inv in E as (enc & body & crc & -> & _). cbn [length]. rewrite !app_length. lia.
  - apply xz_parse_block_header_none_inv in E. subst src. cbn [length]. lia.
Qed.

Lemma consume_padding_len pos src r : xz_consume_padding pos src = Ok r -> (length r <= length src)%nat.
Proof. intros E. apply xz_consume_padding_inv in E. rewrite E, app_length. lia. Qed.

Lemma verify_check_len ct c src r : xz_verify_check ct c src = Ok r -> (length r <= length src)%nat.
Proof.
  intros E. apply xz_verify_check_inv in E as [(_ & ->)|(_ & -> & _)]; [lia|]. rewrite app_length. lia.
Qed.

Lemma blocks_tr : forall ft ff ct src pos n acc, (length src < ft)%nat -> (ft <= ff)%nat ->
  trx bl_app (xzd_blocks H blockdec ft ct src pos n acc) (xzd_blocks H blockdec ff ct (src ++ tl) pos n acc).
Proof.
  induction ft as [|f IH]; intros ff ct src pos n acc Hl Hf; [lia|].
  destruct ff as [|f']; [lia|]. cbn [xzd_blocks].
  apply trx_bind with (f := rapp tl); [apply block_header_tr|].
  intros [h r1] E1. rapp_red. cbv zeta.
  replace (zlen (src ++ tl) - zlen (r1 ++ tl)) with (zlen src - zlen r1) by (rewrite !zlen_app; lia).
  destruct h as [bh|]; [|right; reflexivity].
  apply trx_bind with (f := rapp tl); [apply bd_tr|].
  intros [content r2] E2. rapp_red. cbv zeta.
  replace (zlen (r1 ++ tl) - zlen (r2 ++ tl)) with (zlen r1 - zlen r2) by (rewrite !zlen_app; lia).
  apply trx_bind with (f := fun r => r ++ tl); [apply consume_padding_tr|].
  intros r3 E3.
  apply trx_bind with (f := fun r => r ++ tl); [apply verify_check_tr|].
  intros r4 E4.
  replace (zlen (r2 ++ tl) - zlen (r4 ++ tl)) with (zlen r2 - zlen r4) by (rewrite !zlen_app; lia).
  apply block_header_len in E1. apply bd_len in E2. apply consume_padding_len in E3. apply verify_check_len in E4.
  apply IH; lia.
Qed.

(* (B) a file accepted in single-stream mode with nothing left: every proper prefix is rejected,
   whether multi-stream decoding is on or off *)
Theorem xz_truncated_gen : forall fx p d, tl <> [] ->
  xz_decode H blockdec fx false (p ++ tl) = Ok (d, []) ->
  forall multi, exists e, xz_decode H blockdec fx multi p = Err e.
Proof.
  intros fx p d Htl Hfull multi. unfold xz_decode in *.
  destruct (stream_header_tr p) as [(e & He)|Hh]; [rewrite He; exists e; reflexivity|].
  rewrite Hh in Hfull.
  destruct (xz_parse_stream_header p) as [[ct r1]|e|e|]; cbn [omap obind] in Hfull; try discriminate.
  unfold rapp in Hfull; cbn [fst snd obind] in Hfull. cbn [obind].
  replace (zlen (p ++ tl) - zlen (r1 ++ tl)) with (zlen p - zlen r1) in Hfull by (rewrite !zlen_app; lia).
  cbn [xzd_streams] in Hfull |- *.
  destruct (blocks_tr (S (length r1)) (S (length (r1 ++ tl))) ct r1 (zlen p - zlen r1) 0 [] ltac:(lia)
              ltac:(rewrite app_length; lia)) as [(e & He)|Hb]; [rewrite He; exists e; reflexivity|].
  rewrite Hb in Hfull.
  destruct (xzd_blocks H blockdec (S (length r1)) ct r1 (zlen p - zlen r1) 0 []) as [[[[acc1 r1'] pos1] n]|e|e|];
    cbn [omap obind] in Hfull; try discriminate.
  unfold bl_app in Hfull; cbn [fst snd obind] in Hfull. cbn [obind].
  destruct (index_and_footer_tr fx ct n r1') as [(e & He)|Hi]; [rewrite He; exists e; reflexivity|].
  rewrite Hi in Hfull.
  destruct (xz_index_and_footer fx ct n r1') as [r2|e|e|]; cbn [omap obind] in Hfull; try discriminate.
  exfalso. injection Hfull as _ Hr.
  apply app_eq_nil in Hr as [_ Hr]. exact (Htl Hr).
Qed.

End Blocks.
End Tr.

(* ---------------------------------------------------------------------------------------------
   files of the writer: payload and filter codecs abstract as in XzProofs.v (round trip with exact
   consumption = C01 + C16, filters = C11), plus the two properties of the payload DECODER used
   above: over a truncated input it fails or does what it does over the complete input, and it
   only consumes input *)
Section Written.
  Variable penc : Z -> list Z -> list Z.
  Variable pdec : Z -> list Z -> outcome (list Z * list Z).
  Hypothesis pdec_penc : forall d dd x tail, d <= dd -> pdec dd (penc d x ++ tail) = Ok (x, tail).
  Hypothesis pdec_trx : forall tl dd src, trx (rapp tl) (pdec dd src) (pdec dd (src ++ tl)).
  Hypothesis pdec_len : forall dd src x r, pdec dd src = Ok (x, r) -> (length r <= length src)%nat.
  Variables fenc fdec : fkind -> Z -> list Z -> list Z.
  Hypothesis fdec_fenc : forall k p x, fdec k p (fenc k p x) = x.

  Lemma blockdec_trx tl fs src : trx (rapp tl) (blockdec pdec fdec fs src) (blockdec pdec fdec fs (src ++ tl)).
  Proof.
    unfold blockdec. apply trx_bind with (f := rapp tl); [apply pdec_trx|].
    intros [x r] _. right. reflexivity.
  Qed.

  Lemma blockdec_len fs src c r : blockdec pdec fdec fs src = Ok (c, r) -> (length r <= length src)%nat.
  Proof.
    unfold blockdec. destruct (pdec (xz_chain_dict fs) src) as [[x r']|e|e|] eqn:E; cbn [obind]; try discriminate.
    intros Hq. inversion Hq; subst. cbn [snd]. eapply pdec_len; exact E.
  Qed.

  (* every proper prefix (the empty one included) of every file XZWriter produces is rejected
     with an error, with multi-stream decoding on or off *)
  Theorem xz_truncated_written : forall o0 parts f p tl multi, stream_ok o0 ->
    xz_encode penc fenc xz_fixed o0 parts = Ok f ->
    f = p ++ tl -> tl <> [] ->
    exists e, xz_decode xz_check_bytes (blockdec pdec fdec) xz_fixed multi p = Err e.
  Proof.
    intros o0 parts f p tl multi Hok E Hf Htl.
    pose proof (C02_xz_thm penc pdec pdec_penc fenc fdec fdec_fenc o0 parts f false Hok E) as Hfull.
    rewrite Hf in Hfull.
    exact (xz_truncated_gen tl xz_check_bytes (blockdec pdec fdec) (blockdec_trx tl) blockdec_len xz_fixed p
             (concat parts) Htl Hfull multi).
  Qed.
End Written.

(* ---------------------------------------------------------------------------------------------
   the LZMA2Reader model, read to its end with any budget of 4096-byte read() calls, has the
   truncation property assumed of the payload decoder (UnexpectedEof being the error) *)
Lemma lzma2_drain_trx tl calls : forall s acc,
  trx (rapp tl) (lzma2_drain calls s acc) (lzma2_drain calls (m_app s tl) acc).
Proof.
  induction calls as [|c IH]; intros s acc; cbn [lzma2_drain]; [right; reflexivity|].
  destruct (lzma2_read_tr tl s 4096) as [He|Hf].
  - left. rewrite He. eexists. reflexivity.
  - rewrite Hf. destruct (lzma2_read s 4096) as [[out s1]|e|e|]; cbn [omap obind]; try (right; reflexivity).
    unfold l2_res_app; cbn [fst snd]. destruct out; [right; reflexivity | apply IH].
Qed.

Theorem lzma2_payload_dec_n_trx : forall calls tl dict src,
  trx (rapp tl) (lzma2_payload_dec_n calls dict src) (lzma2_payload_dec_n calls dict (src ++ tl)).
Proof.
  intros calls tl dict src. unfold lzma2_payload_dec_n, lzma2_new, lzma2_get_dict_size. cbn [obind].
  apply (lzma2_drain_trx tl calls (mkLzma2 src _ _ _ _ _ _ _ _ _ _) []).
Qed.

(* ---------------------------------------------------------------------------------------------
   non-vacuity: the toy codec of RoundTripExamples.v satisfies all hypotheses; every cut point of a
   written two-block file evaluated *)
From LzVerif Require Import Format.RoundTripExamples.

Lemma toy_loop_trx tl : forall n src acc, (length src <= n)%nat ->
  trx (rapp tl) (toy_pdec_loop src acc) (toy_pdec_loop (src ++ tl) acc).
Proof.
  induction n as [|n IH]; intros src acc Hn.
  - destruct src; [left; eexists; reflexivity | cbn [length] in Hn; lia].
  - destruct src as [|c [|b t]]; [left; eexists; reflexivity | |].
    + cbn [app toy_pdec_loop]. destruct (c =? 0); [right; reflexivity | left; eexists; reflexivity].
    + cbn [app toy_pdec_loop]. destruct (c =? 0); [right; reflexivity|]. apply IH. cbn [length] in Hn. lia.
Qed.

Lemma toy_loop_len : forall n src acc x r, (length src <= n)%nat ->
  toy_pdec_loop src acc = Ok (x, r) -> (length r <= length src)%nat.
Proof.
  induction n as [|n IH]; intros src acc x r Hn H.
  - destruct src; [discriminate | cbn [length] in Hn; lia].
  - destruct src as [|c [|b t]]; [discriminate | |]; cbn [toy_pdec_loop] in H.
    + destruct (c =? 0); [|discriminate]. inversion H; subst. cbn [length]. lia.
    + destruct (c =? 0); [inversion H; subst; cbn [length]; lia|].
      apply IH in H; [|cbn [length] in Hn; lia]. cbn [length]. lia.
Qed.

Lemma truncating_xz_codec_exists :
  exists (penc : Z -> list Z -> list Z) (pdec : Z -> list Z -> outcome (list Z * list Z)),
    (forall d dd x tail, d <= dd -> pdec dd (penc d x ++ tail) = Ok (x, tail)) /\
    (forall tl dd src, trx (rapp tl) (pdec dd src) (pdec dd (src ++ tl))) /\
    (forall dd src x r, pdec dd src = Ok (x, r) -> (length r <= length src)%nat).
Proof.
  exists toy_penc, toy_pdec. split; [exact toy_rt|]. split.
  - intros tl dd src. exact (toy_loop_trx tl (length src) src [] (le_n _)).
  - intros dd src x r. exact (toy_loop_len (length src) src [] x r (le_n _)).
Qed.

Definition ex_trunc_opts : xzopts := mkXzopts 1 (Some 1) [(FDelta, 3)] 4096.
Definition xz_cut_rejected (multi : bool) (f : list Z) (k : nat) : bool :=
  match xz_decode xz_check_bytes (blockdec toy_pdec (fun _ _ x => x)) xz_fixed multi (firstn k f) with
  | Err _ => true
  | _ => false
  end.

Example xz_truncated_example :
  exists f, xz_encode toy_penc (fun _ _ x => x) xz_fixed ex_trunc_opts [[1; 2; 3]; []; [4; 5]] = Ok f /\
    (50 <? length f)%nat = true /\
    xz_decode xz_check_bytes (blockdec toy_pdec (fun _ _ x => x)) xz_fixed true f = Ok ([1; 2; 3; 4; 5], []) /\
    forallb (xz_cut_rejected true f) (seq 0 (length f)) = true /\
    forallb (xz_cut_rejected false f) (seq 0 (length f)) = true.
Proof. eexists. split; [vm_compute; reflexivity|]. vm_compute. repeat split; reflexivity. Qed.

Lemma ex_trunc_stream_ok : stream_ok ex_trunc_opts.
Proof.
  split; [split; [reflexivity|]|cbn; lia]. constructor; [|constructor]. unfold filter_ok; cbn. lia.
Qed.

Print Assumptions xz_truncated_gen.
Print Assumptions xz_truncated_written.
Print Assumptions lzma2_payload_dec_n_trx.
