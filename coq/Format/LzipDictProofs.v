(* Format/LzipDictProofs.v — the LZIP header byte always announces a dictionary at least as large
   as the one the encoder uses (after the fix), and the historical rounding is refuted. *)
From LzVerif Require Import Base.Bytes Format.LzipDict.
Ltac Zify.zify_post_hook ::= Z.div_mod_to_equations.

Definition logs : list Z := [12;13;14;15;16;17;18;19;20;21;22;23;24;25;26;27;28;29].
Definition fracs : list Z := [0;1;2;3;4;5;6;7].

Definition outcome_eqb (a b : outcome Z) : bool :=
  match a, b with
  | Ok x, Ok y => x =? y
  | Err x, Err y => x =? y
  | Panic x, Panic y => x =? y
  | Fuel, Fuel => true
  | _, _ => false
  end.

Lemma outcome_eqb_eq a b : outcome_eqb a b = true -> a = b.
Proof. destruct a, b; cbn; try discriminate; try reflexivity; intro H; apply Z.eqb_eq in H; congruence. Qed.

Definition decode_expected (b2 f : Z) : outcome Z :=
  let v := 2 ^ b2 - f * 2 ^ (b2 - 4) in
  if v <? 4096 then Err E_INVALID_DATA else Ok v.

Definition decode_chk (b2 f : Z) : bool :=
  outcome_eqb (lzip_decode_dict_size (wrap8 (Z.lor (Z.shiftl f 5) (Z.land b2 31)))) (decode_expected b2 f).

Lemma decode_table_sweep : forallb (fun b2 => forallb (decode_chk b2) fracs) logs = true.
Proof. vm_compute. reflexivity. Qed.

Lemma in_logs b : 12 <= b <= 29 -> In b logs.
Proof. intros H. assert (b = 12 \/ b = 13 \/ b = 14 \/ b = 15 \/ b = 16 \/ b = 17 \/ b = 18 \/ b = 19 \/ b = 20 \/
  b = 21 \/ b = 22 \/ b = 23 \/ b = 24 \/ b = 25 \/ b = 26 \/ b = 27 \/ b = 28 \/ b = 29) as Hc by lia.
  unfold logs; cbn [In]. intuition auto.
Qed.

Lemma in_fracs f : 0 <= f <= 7 -> In f fracs.
Proof. intros H. assert (f = 0 \/ f = 1 \/ f = 2 \/ f = 3 \/ f = 4 \/ f = 5 \/ f = 6 \/ f = 7) as Hc by lia.
  unfold fracs; cbn [In]. intuition auto.
Qed.

Lemma decode_table b2 f : 12 <= b2 <= 29 -> 0 <= f <= 7 ->
  lzip_decode_dict_size (wrap8 (Z.lor (Z.shiftl f 5) (Z.land b2 31))) = decode_expected b2 f.
Proof.
  intros Hb Hf. pose proof decode_table_sweep as S.
  rewrite forallb_forall in S. specialize (S b2 (in_logs b2 Hb)).
  rewrite forallb_forall in S. specialize (S f (in_fracs f Hf)).
  apply outcome_eqb_eq. exact S.
Qed.

(* For a fixed power-of-two bracket 2^b0 <= d < 2^(b0+1) everything but d is a literal. *)
Lemma encode_in_bracket b0 d :
  12 <= b0 <= 29 -> 2 ^ b0 <= d < 2 ^ (b0 + 1) -> d <= LZIP_MAX_DICT -> Z.log2 d = b0 ->
  exists byte dd, lzip_encode_dict_size d = Ok byte /\ 0 <= byte < 256 /\
                  lzip_decode_dict_size byte = Ok dd /\ d <= dd /\ 16 * (dd - d) < 2 * d.
Proof.
  intros Hb0 Hd Hmax Hlog.
  assert (Hc : b0 = 12 \/ b0 = 13 \/ b0 = 14 \/ b0 = 15 \/ b0 = 16 \/ b0 = 17 \/ b0 = 18 \/ b0 = 19 \/ b0 = 20 \/
    b0 = 21 \/ b0 = 22 \/ b0 = 23 \/ b0 = 24 \/ b0 = 25 \/ b0 = 26 \/ b0 = 27 \/ b0 = 28 \/ b0 = 29) by (clear - Hb0; lia).
  unfold lzip_encode_dict_size, lzip_encode_dict_size_gen. rewrite Hlog. clear Hlog.
  unfold LZIP_MIN_DICT, LZIP_MAX_DICT in *.
  repeat (destruct Hc as [Hc|Hc]); subst b0;
    (change (2 ^ 12) with 4096 in Hd || idtac);
    match type of Hd with ?lo <= _ < ?hi =>
      let lo' := eval vm_compute in lo in let hi' := eval vm_compute in hi in
      change lo with lo' in Hd; change hi with hi' in Hd end;
    (destruct (Z.ltb_spec d 4096); [lia|]);
    (destruct (Z.ltb_spec 536870912 d); [lia|]); cbn [orb];
    match goal with |- context [Z.shiftl 1 ?k <? d] =>
      let v := eval vm_compute in (Z.shiftl 1 k) in change (Z.shiftl 1 k) with v end;
    match goal with |- context [?v <? d] => destruct (Z.ltb_spec v d) end;
    match goal with |- context [(if ?k <? 12 then 12 else ?k)] =>
      let r := eval vm_compute in (if k <? 12 then 12 else k) in
      change (if k <? 12 then 12 else k) with r end;
    match goal with |- context [29 <? ?k] =>
      let r := eval vm_compute in (29 <? k) in change (29 <? k) with r end;
    cbv iota;
    try lia;
    match goal with |- context [Z.shiftl 1 ?k] =>
      let v := eval vm_compute in (Z.shiftl 1 k) in change (Z.shiftl 1 k) with v end;
    match goal with |- context [d <? ?v] => destruct (Z.ltb_spec d v) end;
    try lia.
  all: try match goal with |- context [Z.shiftr ?b 4] =>
      let v := eval vm_compute in (Z.shiftr b 4) in change (Z.shiftr b 4) with v end.
  all: try match goal with |- context [0 <? ?v] =>
      let r := eval vm_compute in (0 <? v) in change (0 <? v) with r end; cbv iota.
  all: try match goal with |- context [7 <? ?q] => destruct (Z.ltb_spec 7 q); [exfalso; lia|] end.
  all: match goal with
       | |- context [Z.lor (Z.shiftl ?f 5) (Z.land ?b 31)] =>
           exists (wrap8 (Z.lor (Z.shiftl f 5) (Z.land b 31))); eexists;
           split; [reflexivity|]; split; [apply Z.mod_pos_bound; lia|];
           rewrite decode_table by lia;
           unfold decode_expected
       | |- context [wrap8 (Z.land ?b 31)] =>
           exists (wrap8 (Z.land b 31)); eexists;
           split; [reflexivity|]; split; [apply Z.mod_pos_bound; lia|];
           change (wrap8 (Z.land b 31)) with (wrap8 (Z.lor (Z.shiftl 0 5) (Z.land b 31)));
           rewrite decode_table by lia; unfold decode_expected
       end.
  all: match goal with |- context [2 ^ ?k - ?f * 2 ^ ?j] =>
         let a := eval vm_compute in (2 ^ k) in let b := eval vm_compute in (2 ^ j) in
         change (2 ^ k) with a; change (2 ^ j) with b end.
  all: match goal with |- context [?v <? 4096] => destruct (Z.ltb_spec v 4096); [exfalso; lia|] end.
  all: split; [reflexivity|]; lia.
Qed.

(* C02 / C19 (LZIP): every dictionary size the writer can be configured with (it clamps into
   [4 KiB, 512 MiB]) yields a header byte which the reader decodes to a dictionary at least as large
   - so no distance the encoder may use is rejected - and at most one sixteenth-of-base larger. *)
Theorem lzip_dict_ok : forall d,
  LZIP_MIN_DICT <= d <= LZIP_MAX_DICT ->
  exists byte dd, lzip_encode_dict_size d = Ok byte /\ 0 <= byte < 256 /\
                  lzip_decode_dict_size byte = Ok dd /\ d <= dd /\ 16 * (dd - d) < 2 * d.
Proof.
  intros d [Hlo Hhi]. unfold LZIP_MIN_DICT, LZIP_MAX_DICT in *.
  pose proof (Z.log2_spec d ltac:(lia)) as Hs.
  pose proof (Z.log2_le_mono 4096 d ltac:(lia)) as H1. change (Z.log2 4096) with 12 in H1.
  pose proof (Z.log2_le_mono d 536870912 ltac:(lia)) as H2. change (Z.log2 536870912) with 29 in H2.
  apply (encode_in_bracket (Z.log2 d) d); [lia | | unfold LZIP_MAX_DICT; lia | reflexivity].
  replace (Z.log2 d + 1) with (Z.succ (Z.log2 d)) by lia. exact Hs.
Qed.

Theorem lzip_header_dict_ok : forall requested,
  exists dd, lzip_header_dict requested = Ok dd /\ lzip_clamp_dict requested <= dd.
Proof.
  intros r. unfold lzip_header_dict.
  assert (Hc : LZIP_MIN_DICT <= lzip_clamp_dict r <= LZIP_MAX_DICT).
  { unfold lzip_clamp_dict, LZIP_MIN_DICT, LZIP_MAX_DICT.
    destruct (Z.ltb_spec r 4096); [lia|]. destruct (Z.ltb_spec 536870912 r); lia. }
  destruct (lzip_dict_ok _ Hc) as (b & dd & E1 & _ & E2 & Hle & _).
  rewrite E1. cbn [obind]. rewrite E2. exists dd. split; [reflexivity | assumption].
Qed.

(* The behaviour before the fix (fraction rounded up) announced too small a dictionary. *)
Theorem lzip_dict_old_refuted :
  exists d byte dd, LZIP_MIN_DICT <= d <= LZIP_MAX_DICT /\
    lzip_encode_dict_size_old d = Ok byte /\ lzip_decode_dict_size byte = Ok dd /\ dd < d.
Proof. exists 5000, 237, 4608. vm_compute. repeat split; congruence. Qed.
