(* Arith/Options.v — C19: what the writers do with every public option field.
   Definitions only; proofs are in OptionsProofs.v.

   Sources (hasenbanck/lzma-rust2 at /repo b79b239, i.e. with the fixes ac4c103..b79b239 = repo-patches/03..08):
     src/enc/lzma2_writer.rs  LZMAOptions (public fields), get_props, validate, LZMA2Writer::new/write/finish
     src/enc/lzma_writer.rs   LZMAWriter::new / new_use_header / new_no_header
     src/enc/encoder.rs       LZMAEncoder::new, LiteralEncoder::new, LengthEncoder::new
     src/lib.rs               LZMACoder::new (pos_mask), LiteralCoder::new / get_sub_coder_index
     src/lz/lz_encoder.rs     LZEncoder::new, Matches::new(nice_len - 1);  hc4.rs / bt4.rs depth limit
     src/xz/writer.rs         XZWriter::new, write_block_header (filter properties), encode_lzma2_dict_size
     src/xz.rs                FilterConfig::validate_pre_filter;  src/xz/reader.rs BlockHeader::parse
     src/lzip/writer.rs       LZIPWriter::new (overrides, clamp), start_new_member
     src/lzma_reader.rs construct1 / src/lzma2_reader.rs decode_props   (what the decoders accept)

   Two layers:
   (1) the ARITHMETIC the options feed when they reach the encoder unchecked - that is the code
       of LZMAEncoder::new and of the per-symbol index computations, with wrap (release) or Panic
       (checked profile, [ck = true]) written out.  Before the "fix:" patches nothing stood between
       the public fields and this arithmetic; the refutations in OptionsProofs.v are about it.
   (2) the VALIDATION the repaired constructors perform, and the observable outcome class of
       construct / write / finish for every writer kind ([writer_outcome]). *)
From LzVerif Require Export Base.Bytes Arith.MemUsage.

Definition U64 : Z := 18446744073709551616.
Definition ISIZE_MAX : Z := 9223372036854775807.
Definition P_INDEX : Z := 2.          (* index out of bounds *)
Definition P_CAPACITY : Z := 3.       (* Vec: capacity overflow *)
Definition P_UNWRAP : Z := 4.         (* Option::unwrap / expect on None *)

(* usize (64-bit) operations *)
Definition shl_usize (ck : bool) (a s : Z) : outcome Z :=
  if s <? 64 then Ok ((a * 2 ^ s) mod U64)
  else if ck then Panic P_OVERFLOW else Ok ((a * 2 ^ (s mod 64)) mod U64).
Definition sub_usize (ck : bool) (a b : Z) : outcome Z :=
  let r := a - b in if 0 <=? r then Ok r else if ck then Panic P_OVERFLOW else Ok (r mod U64).
Definition add_usize (ck : bool) (a b : Z) : outcome Z :=
  let r := a + b in if r <? U64 then Ok r else if ck then Panic P_OVERFLOW else Ok (r mod U64).
Definition mul32 (ck : bool) (a b : Z) : outcome Z :=
  let r := a * b in if r <? U32 then Ok r else if ck then Panic P_OVERFLOW else Ok (r mod U32).
Definition shr32 (ck : bool) (a s : Z) : outcome Z :=
  if s <? 32 then Ok (a / 2 ^ s) else if ck then Panic P_OVERFLOW else Ok (a / 2 ^ (s mod 32)).
(* vec![x; count] with elements of [elem] bytes: more than isize::MAX bytes is a "capacity overflow"
   panic.  (A request below that which the allocator cannot serve aborts the process; that depends on
   the machine and is not modelled - observed for lc = 33: 13 TB.) *)
Definition vec_alloc (count elem : Z) : outcome Z :=
  if ISIZE_MAX <? count * elem then Panic P_CAPACITY else Ok count.
(* u32 as i32 *)
Definition as_i32 (x : Z) : Z := if x <? 2147483648 then x else x - U32.

(* ------------------------------------------------------------------------------------------- *)
(* The public option structs                                                                    *)
(* ------------------------------------------------------------------------------------------- *)
Record lzma_opts := {
  o_dict : Z;            (* u32 *)
  o_lc : Z; o_lp : Z; o_pb : Z;   (* u32 *)
  o_mode : enc_mode; o_mf : mf_type;
  o_nice : Z;            (* u32 *)
  o_depth : Z;           (* i32 *)
  o_preset : option Z    (* preset_dict: None, or Some(len) *)
}.

Inductive filter_kind := FDelta | FX86 | FPPC | FIA64 | FARM | FARMThumb | FSPARC | FARM64 | FRISCV | FLZMA2.
Record filter_cfg := { f_kind : filter_kind; f_prop : Z (* u32 *) }.

Inductive wkind :=
| WLzmaHeader    (* LZMAWriter::new_use_header *)
| WLzmaRaw       (* LZMAWriter::new_no_header *)
| WLzma2         (* LZMA2Writer::new *)
| WXz            (* XZWriter::new *)
| WLzip.         (* LZIPWriter::new *)

Definition NICE_LEN_MIN : Z := 8.
Definition NICE_LEN_MAX : Z := 273.

(* ------------------------------------------------------------------------------------------- *)
(* (1) Arithmetic fed by the options                                                            *)
(* ------------------------------------------------------------------------------------------- *)
(* LZMAOptions::get_props: ((pb * 5 + lp) * 9 + lc) as u8 *)
Definition props_byte (ck : bool) (lc lp pb : Z) : outcome Z :=
  do a <- mul32 ck pb 5; do b <- add32 ck a lp; do c <- mul32 ck b 9; do d <- add32 ck c lc; Ok (wrap8 d).

(* LZMAReader::construct1/construct2: what a properties byte means to the LZMA decoder *)
Definition lzma_decode_props (b : Z) : outcome (Z * Z * Z) :=
  if 224 <? b then Err E_INVALID_INPUT else
  let pb := b / 45 in let r := b - pb * 45 in let lp := r / 9 in let lc := r - lp * 9 in
  if (8 <? lc) || (4 <? lp) || (4 <? pb) then Err E_INVALID_INPUT else Ok (lc, lp, pb).
(* LZMA2Reader::decode_props: additionally lc + lp <= 4 *)
Definition lzma2_decode_props (b : Z) : outcome (Z * Z * Z) :=
  if 224 <? b then Err E_INVALID_INPUT else
  let pb := b / 45 in let r := b - pb * 45 in let lp := r / 9 in let lc := r - lp * 9 in
  if 4 <? lc + lp then Err E_INVALID_INPUT else Ok (lc, lp, pb).

(* Sizes of the tables LZMAEncoder::new builds, as functions of the options *)
Record enc_tables := {
  t_pos_mask : Z;         (* LZMACoder::new: (1 << pb) - 1, u32 *)
  t_lit_pos_mask : Z;     (* LiteralCoder::new: (1 << lp) - 1, u32 *)
  t_lc : Z;
  t_lit_count : Z;        (* LiteralEncoder::new: vec![..; 1 << (lc + lp)] *)
  t_len_pos_states : Z;   (* LengthEncoder::new: 1usize << pb rows of counters / prices *)
  t_len_symbols : Z;      (* (nice_len - MATCH_LEN_MIN + 1).max(LOW_SYMBOLS + MID_SYMBOLS) *)
  t_matches : Z;          (* Matches::new(nice_len - 1) *)
  t_dist_slots : Z;       (* get_dist_slot(dict_size - 1) + 1 *)
  t_depth : Z             (* match finder depth limit actually used *)
}.

(* HC4::new / BT4::new: if depth_limit > 0 { depth_limit } else { 4 + nice_len as i32 / 4 } (16 + ../2) *)
Definition effective_depth (mf : mf_type) (depth nice : Z) : Z :=
  if 0 <? depth then depth else
  match mf with HC4 => 4 + Z.quot (as_i32 nice) 4 | BT4 => 16 + Z.quot (as_i32 nice) 2 end.

(* [extra]: the caller's extra_size_before (LZMA2Writer: get_extra_size_before(dict_size); LZMAWriter: 0) *)
Definition encoder_new (ck : bool) (extra : Z) (o : lzma_opts) : outcome enc_tables :=
  (* LZEncoder::new_hc4/new_bt4 (argument order: the match finder is built first) *)
  do _cyc <- (let c := as_i32 (o_dict o) + 1 in           (* dict_size as i32 + 1 *)
              if 2147483647 <? c then (if ck then Panic P_OVERFLOW else Ok (c - U32)) else Ok c);
  do _h4 <- get_hash4_size ck (o_dict o);                  (* Hash234::new: dict_size - 1 *)
  do eb <- add32 ck extra (match o_mode o with Fast => 1 | Normal => OPTS end);
  do bufsz <- get_buf_size ck (o_dict o) eb (enc_extra_after (o_mode o)) MATCH_LEN_MAX;
  do _lim <- (if bufsz <? 2 then Panic P_UNWRAP else Ok (bufsz - 2));   (* buf_size.checked_sub(2).unwrap() *)
  do mcount <- sub_usize ck (o_nice o) 1;                  (* nice_len as usize - 1 *)
  do matches <- vec_alloc mcount 4;
  (* LiteralEncoder::new(lc, lp) *)
  do lpm1 <- shl32 ck 1 (o_lp o);
  do lit_pos_mask <- sub32 ck lpm1 1;
  do lclp <- add32 ck (o_lc o) (o_lp o);
  do lit_count0 <- shl_usize ck 1 lclp;
  do lit_count <- vec_alloc lit_count0 1536;
  (* LengthEncoder::new(pb, nice_len), twice *)
  do pos_states0 <- shl_usize ck 1 (o_pb o);
  do pos_states <- vec_alloc pos_states0 4;
  do ls0 <- sub_usize ck (o_nice o) 2;
  do ls1 <- add_usize ck ls0 1;
  let len_symbols := Z.max ls1 16 in
  do _row <- vec_alloc len_symbols 4;
  (* dist_slot_price_size = get_dist_slot(dict_size - 1) + 1 *)
  do dm1 <- sub32 ck (o_dict o) 1;
  do slots <- add32 ck (get_dist_slot dm1) 1;
  (* LZMACoder::new(pb as usize): pos_mask = (1 << pb) - 1 *)
  do pm1 <- shl32 ck 1 (o_pb o);
  do pos_mask <- sub32 ck pm1 1;
  Ok {| t_pos_mask := pos_mask; t_lit_pos_mask := lit_pos_mask; t_lc := o_lc o; t_lit_count := lit_count;
        t_len_pos_states := pos_states; t_len_symbols := len_symbols; t_matches := matches;
        t_dist_slots := slots; t_depth := effective_depth (o_mf o) (o_depth o) (o_nice o) |}.

(* Per-symbol index computations. [pos] is the u32 position, [prev] the previous byte, [state] the
   LZMA state (< 12).  POS_STATES_MAX = 16: is_match / is_rep0_long are [[u16; 16]; 12], the
   length coder's low/mid are [[u16; 8]; 16]. *)
Definition pos_state (t : enc_tables) (pos : Z) : Z := Z.land pos (t_pos_mask t).

Definition is_match_index (t : enc_tables) (state pos : Z) : outcome (Z * Z) :=
  let ps := pos_state t pos in
  if (0 <=? state) && (state <? 12) && (ps <? 16) then Ok (state, ps) else Panic P_INDEX.

(* LiteralCoder::get_sub_coder_index, then sub_encoders[i] *)
Definition literal_index (ck : bool) (t : enc_tables) (prev pos : Z) : outcome Z :=
  do sh <- sub32 ck 8 (t_lc t);
  do low <- shr32 ck prev sh;
  do high <- shl32 ck (Z.land pos (t_lit_pos_mask t)) (t_lc t);
  do i <- add32 ck low high;
  if i <? t_lit_count t then Ok i else Panic P_INDEX.

(* LengthEncoder: counters[pos_state], prices[pos_state][len - MATCH_LEN_MIN]; LengthCoder low/mid rows *)
Definition len_index (t : enc_tables) (pos len : Z) : outcome (Z * Z) :=
  let ps := pos_state t pos in
  if (ps <? t_len_pos_states t) && (ps <? 16) && (0 <=? len - 2) && (len - 2 <? t_len_symbols t)
  then Ok (ps, len - 2) else Panic P_INDEX.

(* Matches: the match finders store strictly increasing lengths 2 <= l <= nice_len, the k-th
   (0-based) into len[k] / dist[k] *)
Definition matches_index (t : enc_tables) (k : Z) : outcome Z :=
  if (0 <=? k) && (k <? t_matches t) then Ok k else Panic P_INDEX.

(* ---- XZ block header properties ---------------------------------------------------------- *)
(* write_block_header: (filter_config.property - 1) as u8; BlockHeader::parse: distance = prop + 1 *)
Definition xz_delta_prop (ck : bool) (dist : Z) : outcome Z := do x <- sub32 ck dist 1; Ok (wrap8 x).
Definition xz_reader_delta_distance (prop : Z) : Z := prop + 1.
(* what DeltaWriter does with `distance`: history[(distance + pos) & 255], i.e. distance mod 256, 0 meaning 256 *)
Definition delta_effective_distance (dist : Z) : Z := let m := dist mod 256 in if m =? 0 then 256 else m.

Definition bcj_alignment (k : filter_kind) : Z :=
  match k with
  | FX86 => 1 | FARMThumb | FRISCV => 2 | FPPC | FARM | FSPARC | FARM64 => 4 | FIA64 => 16
  | FDelta | FLZMA2 => 1
  end.
(* BlockHeader::parse: start_offset % alignment != 0 -> InvalidData *)
Definition xz_reader_bcj_check (k : filter_kind) (start : Z) : outcome Z :=
  if start mod bcj_alignment k =? 0 then Ok start else Err E_INVALID_DATA.

(* XZWriter::encode_lzma2_dict_size / the reader's 2 | (p & 1) << (p / 2 + 11) *)
Definition xz_dict_of_prop (p : Z) : Z := (2 + p mod 2) * 2 ^ (p / 2 + 11).
Definition props40 : list Z := map Z.of_nat (seq 0 40).
Definition xz_encode_dict_size (d : Z) : outcome Z :=
  if d <? 4096 then Err E_INVALID_INPUT else
  if d =? 4294967295 then Ok 40 else
  match find (fun p => d <=? xz_dict_of_prop p) props40 with
  | Some p => Ok p
  | None => Err E_INVALID_INPUT
  end.
Definition xz_reader_dict_size (p : Z) : outcome Z :=
  if 40 <? p then Err E_INVALID_DATA else if p =? 40 then Ok 4294967295 else Ok (xz_dict_of_prop p).

(* ------------------------------------------------------------------------------------------- *)
(* (2) Validation and outcome classes of the repaired writers                                   *)
(* ------------------------------------------------------------------------------------------- *)
(* LZMAOptions::validate(lzma2) *)
Definition validate (lzma2 : bool) (o : lzma_opts) : outcome unit :=
  if (8 <? o_lc o) || (4 <? o_lp o) || (4 <? o_pb o) then Err E_INVALID_INPUT else
  if lzma2 && (4 <? o_lc o + o_lp o) then Err E_INVALID_INPUT else
  if (o_dict o <? DICT_SIZE_MIN) || (ENC_DICT_SIZE_MAX <? o_dict o) then Err E_INVALID_INPUT else
  if (o_nice o <? NICE_LEN_MIN) || (NICE_LEN_MAX <? o_nice o) then Err E_INVALID_INPUT else
  Ok tt.

(* FilterConfig::validate_pre_filter *)
Definition validate_pre_filter (f : filter_cfg) : outcome unit :=
  match f_kind f with
  | FDelta => if (f_prop f <? 1) || (256 <? f_prop f) then Err E_INVALID_INPUT else Ok tt
  | FLZMA2 => Err E_INVALID_INPUT
  | k => if f_prop f mod bcj_alignment k =? 0 then Ok tt else Err E_INVALID_INPUT
  end.

Fixpoint validate_filters (fs : list filter_cfg) : outcome unit :=
  match fs with
  | [] => Ok tt
  | f :: t => do _ <- validate_pre_filter f; validate_filters t
  end.

Definition is_some {A} (x : option A) : bool := match x with Some _ => true | None => false end.

(* LZIPWriter::new: lc/lp/pb overwritten with 3/0/2, dict_size clamped into [4 KiB, 512 MiB] *)
Definition LZIP_MIN_DICT_SIZE : Z := 4096.
Definition LZIP_MAX_DICT_SIZE : Z := 536870912.
Definition lzip_effective (o : lzma_opts) : lzma_opts :=
  {| o_dict := Z.min (Z.max (o_dict o) LZIP_MIN_DICT_SIZE) LZIP_MAX_DICT_SIZE; o_lc := 3; o_lp := 0; o_pb := 2;
     o_mode := o_mode o; o_mf := o_mf o; o_nice := o_nice o; o_depth := o_depth o; o_preset := o_preset o |}.

Inductive stage := SNew | SWrite | SFinish.
Inductive obs := ObsOk | ObsErr (code : Z) (st : stage) | ObsPanic (st : stage).

(* the stage at which an infallible constructor's deferred error comes out: the harness calls
   write_all(data) (which does not call write() for empty data) and then finish() *)
Definition deferred (len : Z) : stage := if 0 <? len then SWrite else SFinish.

Definition obs_of_encoder_new (ck : bool) (extra : Z) (o : lzma_opts) (st : stage) : obs :=
  match encoder_new ck extra o with Ok _ => ObsOk | Err c => ObsErr c st | Panic _ => ObsPanic st | Fuel => ObsPanic st end.

(* construct / write_all(len bytes) / finish of each writer kind, on the repaired code *)
Definition writer_outcome (ck : bool) (k : wkind) (o : lzma_opts) (fs : list filter_cfg) (len : Z) : obs :=
  match k with
  | WLzmaHeader =>
      match validate false o with
      | Ok _ => match obs_of_encoder_new ck 0 o SNew with
                | ObsOk => if is_some (o_preset o) then ObsErr E_UNSUPPORTED SNew else ObsOk
                | x => x end
      | Err c => ObsErr c SNew | _ => ObsPanic SNew end
  | WLzmaRaw =>
      match validate false o with
      | Ok _ => obs_of_encoder_new ck 0 o SNew
      | Err c => ObsErr c SNew | _ => ObsPanic SNew end
  | WLzma2 =>
      match validate true o with
      | Ok _ => obs_of_encoder_new ck (get_extra_size_before (o_dict o)) o SNew
      | Err c => ObsErr c (deferred len) | _ => ObsPanic SNew end
  | WXz =>
      match validate true o with
      | Ok _ =>
          if is_some (o_preset o) then ObsErr E_UNSUPPORTED SNew else
          if 3 <? Z.of_nat (length fs) then ObsErr E_INVALID_INPUT SNew else
          match validate_filters fs with
          | Ok _ => (* the LZMA2Writer of the first block is built at the first write; no data, no block *)
                    if 0 <? len then obs_of_encoder_new ck (get_extra_size_before (o_dict o)) o SWrite else ObsOk
          | Err c => ObsErr c SNew | _ => ObsPanic SNew end
      | Err c => ObsErr c SNew | _ => ObsPanic SNew end
  | WLzip =>
      let e := lzip_effective o in
      (* start_new_member (first write, or finish when nothing was written) *)
      if is_some (o_preset e) then ObsErr E_UNSUPPORTED (deferred len) else
      match validate false e with
      | Ok _ => obs_of_encoder_new ck 0 e (deferred len)
      | Err c => ObsErr c (deferred len) | _ => ObsPanic (deferred len) end
  end.

(* ---- the documented option ranges ---------------------------------------------------------- *)
Definition lzma_opts_ok (lzma2 : bool) (o : lzma_opts) : bool :=
  (0 <=? o_lc o) && (o_lc o <=? 8) && (0 <=? o_lp o) && (o_lp o <=? 4) && (0 <=? o_pb o) && (o_pb o <=? 4) &&
  (if lzma2 then o_lc o + o_lp o <=? 4 else true) &&
  (DICT_SIZE_MIN <=? o_dict o) && (o_dict o <=? ENC_DICT_SIZE_MAX) &&
  (NICE_LEN_MIN <=? o_nice o) && (o_nice o <=? NICE_LEN_MAX).

Definition filter_ok (f : filter_cfg) : bool :=
  match f_kind f with
  | FDelta => (1 <=? f_prop f) && (f_prop f <=? 256)
  | FLZMA2 => false
  | k => f_prop f mod bcj_alignment k =? 0
  end.

(* the whole documented domain per writer kind: option ranges, preset dictionary rules, filters *)
Definition opts_ok (k : wkind) (o : lzma_opts) (fs : list filter_cfg) : bool :=
  match k with
  | WLzmaHeader => lzma_opts_ok false o && negb (is_some (o_preset o))
  | WLzmaRaw => lzma_opts_ok false o
  | WLzma2 => lzma_opts_ok true o
  | WXz => lzma_opts_ok true o && negb (is_some (o_preset o)) && (Z.of_nat (length fs) <=? 3) && forallb filter_ok fs
  | WLzip => lzma_opts_ok false (lzip_effective o) && negb (is_some (o_preset o))
  end.

(* all fields are values of their Rust types *)
Definition opts_typed (o : lzma_opts) (fs : list filter_cfg) : Prop :=
  0 <= o_dict o < U32 /\ 0 <= o_lc o < U32 /\ 0 <= o_lp o < U32 /\ 0 <= o_pb o < U32 /\ 0 <= o_nice o < U32 /\
  -2147483648 <= o_depth o <= 2147483647 /\ (forall n, o_preset o = Some n -> 0 <= n) /\
  Forall (fun f => 0 <= f_prop f < U32) fs.

(* ---- observation of the correspondence run (harness area "options") ------------------------ *)
Definition filter_kind_of_z (z : Z) : filter_kind :=
  if z =? 0 then FDelta else if z =? 1 then FX86 else if z =? 2 then FPPC else if z =? 3 then FIA64 else
  if z =? 4 then FARM else if z =? 5 then FARMThumb else if z =? 6 then FSPARC else if z =? 7 then FARM64 else
  if z =? 8 then FRISCV else FLZMA2.
Definition wkind_of_z (z : Z) : wkind :=
  if z =? 1 then WLzmaHeader else if z =? 2 then WLzmaRaw else if z =? 3 then WLzma2 else if z =? 4 then WXz else WLzip.
Fixpoint filters_of (l : list Z) : list filter_cfg :=
  match l with
  | k :: p :: t => {| f_kind := filter_kind_of_z k; f_prop := p |} :: filters_of t
  | _ => []
  end.
Definition mk_lzma_opts (d lc lp pb mode mf nice depth preset : Z) : lzma_opts :=
  {| o_dict := d; o_lc := lc; o_lp := lp; o_pb := pb; o_mode := mode_of_z mode; o_mf := mf_of_z mf; o_nice := nice;
     o_depth := depth; o_preset := if preset <? 0 then None else Some preset |}.
Definition stage_code (s : stage) : Z := match s with SNew => 0 | SWrite => 1 | SFinish => 2 end.
(* (class, code, stage): class 0 = OK, 1 = ERR, 2 = PANIC *)
Definition obs_code (x : obs) : Z * Z * Z :=
  match x with ObsOk => (0, 0, 0) | ObsErr c s => (1, c, stage_code s) | ObsPanic s => (2, 0, stage_code s) end.
Definition obs_opt (ck : bool) (kind : Z) (o : lzma_opts) (filters : list Z) (len : Z) : Z * Z * Z :=
  obs_code (writer_outcome ck (wkind_of_z kind) o (filters_of filters) len).
