(* Arith/MemUsage.v — C17: the memory-usage estimators (u32 arithmetic, wrap or panic explicit) next
   to the allocation model (bytes requested from the global allocator by the constructors).
   Definitions only; proofs are in MemUsageProofs.v.

   Sources (hasenbanck/lzma-rust2):
     src/enc/lzma2_writer.rs   LZMAOptions::get_memory_usage, get_extra_size_before, LZMA2Writer::new
     src/enc/encoder.rs        LZMAEncoder::get_mem_usage, LZMAEncoder::new, LiteralEncoder::new,
                               LengthEncoder::new, get_dist_slot
     src/enc/encoder_fast.rs / encoder_normal.rs   {Fast,Normal}EncoderMode::get_memory_usage, new
     src/lz/lz_encoder.rs      LZEncoder::get_memory_usage, get_buf_size, LZEncoder::new, Matches::new
     src/lz/hash234.rs hc4.rs bt4.rs aligned_memory.rs   get_hash4_size, get_mem_usage, new
     src/lzma_reader.rs        get_memory_usage, get_memory_usage_by_props, get_dict_size, new_mem_limit
     src/lzma2_reader.rs       get_memory_usage, get_dict_size, LZMA2Reader::new, decode_props
     src/lz/lz_decoder.rs, src/decoder.rs, src/range_dec.rs   the decoder-side constructors

   Every u32 operation goes through add32/sub32/shl32: with [ck = true] (the harness' "checked"
   profile: overflow-checks = on, what a debug build does) an overflow is [Panic]; with [ck = false]
   (release profile) the result wraps modulo 2^32.  The functions suffixed [_old] are the code before
   the "fix:" commits in /repo (813fe55 for the encoder estimator; 009e680 for the
   lzma2_reader.rs get_dict_size clamp; 525e235 for decode_props); they are kept so that the
   refutations stay checked. *)
From LzVerif Require Export Base.Bytes.

Definition U32 : Z := 4294967296.
Definition P_OVERFLOW : Z := 1.       (* "attempt to add/subtract/shift with overflow" *)

Definition add32 (ck : bool) (a b : Z) : outcome Z :=
  let r := a + b in
  if r <? U32 then Ok r else if ck then Panic P_OVERFLOW else Ok (r mod U32).
Definition sub32 (ck : bool) (a b : Z) : outcome Z :=
  let r := a - b in
  if 0 <=? r then Ok r else if ck then Panic P_OVERFLOW else Ok (r mod U32).
(* u32 << s: only the shift amount is checked, bits shifted out are lost silently *)
Definition shl32 (ck : bool) (a s : Z) : outcome Z :=
  if s <? 32 then Ok ((a * 2 ^ s) mod U32)
  else if ck then Panic P_OVERFLOW else Ok ((a * 2 ^ (s mod 32)) mod U32).
Definition and_not15 (x : Z) : Z := (x / 16) * 16.          (* x & !15 for 0 <= x *)

(* ------------------------------------------------------------------------------------------- *)
(* Option values the estimators and constructors look at                                        *)
(* ------------------------------------------------------------------------------------------- *)
Inductive enc_mode := Fast | Normal.
Inductive mf_type := HC4 | BT4.
Inductive writer_kind := KLzma | KLzma2.     (* LZMAWriter / LZMA2Writer (the latter owns the 64 KiB chunk buffer) *)

Record enc_params := {
  ep_dict : Z; ep_lc : Z; ep_lp : Z; ep_pb : Z; ep_mode : enc_mode; ep_mf : mf_type; ep_nice : Z
}.

Definition DICT_SIZE_MIN : Z := 4096.
Definition DICT_SIZE_MAX : Z := 4294967280.              (* u32::MAX & !15: the decoders' maximum *)
Definition ENC_DICT_SIZE_MAX : Z := 805306368.           (* 768 MiB: the encoder's maximum (XZ for Java, and
                                                            what LZMAWriter/LZMA2Writer/XZWriter accept since
                                                            /repo 679bcf7) *)
Definition COMPRESSED_SIZE_MAX : Z := 65536.
Definition MATCH_LEN_MAX : Z := 273.
Definition OPTS : Z := 4096.

(* ------------------------------------------------------------------------------------------- *)
(* Encoder side estimators                                                                      *)
(* ------------------------------------------------------------------------------------------- *)
(* pub fn get_extra_size_before(dict_size) = COMPRESSED_SIZE_MAX.saturating_sub(dict_size) *)
Definition get_extra_size_before (d : Z) : Z := if COMPRESSED_SIZE_MAX <=? d then 0 else COMPRESSED_SIZE_MAX - d.

(* fn get_buf_size(dict_size, extra_size_before, extra_size_after, match_len_max) -> u32 *)
Definition get_buf_size (ck : bool) (d eb ea mlm : Z) : outcome Z :=
  do kb <- add32 ck eb d;
  do ka <- add32 ck ea mlm;
  do h <- add32 ck (d / 2) 262144;
  let rs := Z.min h 536870912 in
  do s <- add32 ck kb ka;
  add32 ck s rs.

(* Hash234::get_hash4_size *)
Definition get_hash4_size (ck : bool) (d : Z) : outcome Z :=
  do h0 <- sub32 ck d 1;
  let h1 := Z.lor h0 (Z.shiftr h0 1) in
  let h2 := Z.lor h1 (Z.shiftr h1 2) in
  let h3 := Z.lor h2 (Z.shiftr h2 4) in
  let h4 := Z.lor h3 (Z.shiftr h3 8) in
  let h5 := Z.shiftr h4 1 in
  let h6 := Z.lor h5 65535 in
  let h7 := if 16777216 <? h6 then Z.shiftr h6 1 else h6 in
  add32 ck h7 1.

Definition HASH2_SIZE : Z := 1024.
Definition HASH2_MASK : Z := 1023.
Definition HASH3_SIZE : Z := 65536.

(* Hash234::get_mem_usage.  [old]: HASH2_MASK + HASH2_SIZE (the hash3 table is forgotten). *)
Definition hash234_mem_gen (old ck : bool) (d : Z) : outcome Z :=
  do h4 <- get_hash4_size ck d;
  do s <- add32 ck (if old then HASH2_MASK + HASH2_SIZE else HASH2_SIZE + HASH3_SIZE) h4;
  add32 ck (s / 256) 4.

(* HC4::get_mem_usage / BT4::get_mem_usage *)
Definition mf_mem_gen (old ck : bool) (mf : mf_type) (d : Z) : outcome Z :=
  do h <- hash234_mem_gen old ck d;
  do a <- add32 ck h (match mf with HC4 => d / 256 | BT4 => d / 128 end);
  add32 ck a 10.

(* LZEncoder::get_memory_usage.  [old]: get_buf_size(..) + mf (bytes + KiB);
   repaired: get_buf_size(..) / 1024 + 10 + mf. *)
Definition lzenc_mem_gen (old ck : bool) (d eb ea mlm : Z) (mf : mf_type) : outcome Z :=
  do b <- get_buf_size ck d eb ea mlm;
  if old then
    do m <- mf_mem_gen old ck mf d; add32 ck b m
  else
    do x <- add32 ck (b / 1024) 10;
    do m <- mf_mem_gen old ck mf d; add32 ck x m.

(* FastEncoderMode::get_memory_usage / NormalEncoderMode::get_memory_usage.
   The caller's extra_size_before (LZMA2: 65536 - dict, saturating) is ADDED to the mode's own
   (/repo 2f495eb, the F1 repair); [old]: extra_size_before.max(EXTRA_SIZE_BEFORE). *)
Definition mode_mem_gen (old ck : bool) (mode : enc_mode) (d eb : Z) (mf : mf_type) : outcome Z :=
  match mode with
  | Fast => do e <- (if old then Ok (Z.max eb 1) else add32 ck eb 1);
            lzenc_mem_gen old ck d e (MATCH_LEN_MAX - 1) MATCH_LEN_MAX mf
  | Normal => do e <- (if old then Ok (Z.max eb OPTS) else add32 ck eb OPTS);
              do l <- lzenc_mem_gen old ck d e OPTS MATCH_LEN_MAX mf;
              add32 ck l (OPTS * 64 / 1024)
  end.

(* LZMAEncoder::get_mem_usage: let mut m = 80; m += ... *)
Definition encoder_mem_gen (old ck : bool) (mode : enc_mode) (d eb : Z) (mf : mf_type) : outcome Z :=
  do m <- mode_mem_gen old ck mode d eb mf; add32 ck 80 m.

(* the literal coder: 0x300 u16 per context, 2^(lc+lp) contexts (bytes) *)
Definition literal_bytes (lclp : Z) : Z := 1536 * 2 ^ lclp.

(* LZMAOptions::get_memory_usage (KiB).  Repaired version adds the literal coder tables,
   (2 * 0x300) << (lc.min(8) + lp.min(4)), which cannot overflow. *)
Definition enc_estimate_gen (old ck : bool) (p : enc_params) : outcome Z :=
  let d := ep_dict p in
  let eb := get_extra_size_before d in
  do e <- encoder_mem_gen old ck (ep_mode p) d eb (ep_mf p);
  do a <- add32 ck 70 e;
  if old then Ok a
  else add32 ck a (literal_bytes (Z.min (ep_lc p) 8 + Z.min (ep_lp p) 4) / 1024).

Definition enc_estimate := enc_estimate_gen false.
Definition enc_estimate_old := enc_estimate_gen true.

(* ------------------------------------------------------------------------------------------- *)
(* Encoder side allocation model (bytes requested from the global allocator)                    *)
(* ------------------------------------------------------------------------------------------- *)
(* LZMAEncoder::new(.., extra_size_before, ..): the caller's extra (LZMA2Writer passes
   get_extra_size_before(dict_size), LZMAWriter 0) plus the mode's constant.  (Before the F1 repair,
   /repo fa095d0 + 2f495eb, the constructor used the mode's constant alone.) *)
Definition caller_extra_before (k : writer_kind) (d : Z) : Z :=
  match k with KLzma => 0 | KLzma2 => get_extra_size_before d end.
Definition enc_extra_before (k : writer_kind) (mode : enc_mode) (d : Z) : Z :=
  caller_extra_before k d + match mode with Fast => 1 | Normal => OPTS end.
Definition enc_extra_after (mode : enc_mode) : Z :=
  match mode with Fast => MATCH_LEN_MAX - 1 | Normal => OPTS end.

Definition ceil64 (x : Z) : Z := ((x + 63) / 64) * 64.     (* AlignedMemoryI32: bytes rounded up to 64 *)
Definition VEC_HEADER : Z := 24.                            (* size_of::<Vec<T>>() on a 64-bit target *)
Definition SIZEOF_OPTIMUM : Z := 48.                        (* size_of::<Optimum>() on a 64-bit target *)

(* LZMAEncoder::get_dist_slot (u32 bit tricks; dist >= 5 in the second branch, so i >= 2) *)
Definition get_dist_slot (dist : Z) : Z :=
  if dist <=? 4 then dist else
  let '(n, i) := if Z.land dist 4294901760 =? 0 then ((dist * 65536) mod U32, 15) else (dist, 31) in
  let '(n, i) := if Z.land n 4278190080 =? 0 then ((n * 256) mod U32, i - 8) else (n, i) in
  let '(n, i) := if Z.land n 4026531840 =? 0 then ((n * 16) mod U32, i - 4) else (n, i) in
  let '(n, i) := if Z.land n 3221225472 =? 0 then ((n * 4) mod U32, i - 2) else (n, i) in
  let i := if Z.land n 2147483648 =? 0 then i - 1 else i in
  i * 2 + Z.land (Z.shiftr dist (i - 1)) 1.

Definition hash4_size_pure (d : Z) : Z :=
  match get_hash4_size false d with Ok v => v | _ => 0 end.

(* window buffer of LZEncoder::new: vec![0; get_buf_size(..)] *)
Definition enc_buf_bytes (k : writer_kind) (mode : enc_mode) (d : Z) : Z :=
  (enc_extra_before k mode d + d) + (enc_extra_after mode + MATCH_LEN_MAX) + Z.min (d / 2 + 262144) 536870912.

(* Hash234::new: three AlignedMemoryI32 tables *)
Definition hash_bytes (d : Z) : Z := ceil64 (4 * HASH2_SIZE) + ceil64 (4 * HASH3_SIZE) + ceil64 (4 * hash4_size_pure d).
(* HC4::new chain: dict+1 entries; BT4::new tree: 2*(dict+1) entries *)
Definition mf_bytes (mf : mf_type) (d : Z) : Z :=
  match mf with HC4 => ceil64 (4 * (d + 1)) | BT4 => ceil64 (4 * (2 * (d + 1))) end.
(* NormalEncoderMode::new: vec![Optimum::default(); 4096] *)
Definition opts_bytes (mode : enc_mode) : Z := match mode with Fast => 0 | Normal => OPTS * SIZEOF_OPTIMUM end.
(* Matches::new(nice_len - 1): two Vec<u32/i32> *)
Definition matches_bytes (nice : Z) : Z := 2 * (4 * (nice - 1)).
(* LengthEncoder::new(pb, nice_len): counters, prices (outer Vec of Vec headers + rows) *)
Definition len_symbols (nice : Z) : Z := Z.max (nice - 2 + 1) 16.
Definition length_encoder_bytes (pb nice : Z) : Z :=
  4 * 2 ^ pb + VEC_HEADER * 2 ^ pb + (4 * len_symbols nice) * 2 ^ pb.
(* dist_slot_prices: vec![vec![0u32; get_dist_slot(dict_size - 1) + 1]; DIST_STATES] *)
Definition dist_slot_prices_bytes (d : Z) : Z := 4 * VEC_HEADER + 4 * (4 * (get_dist_slot (d - 1) + 1)).

Definition enc_alloc (k : writer_kind) (p : enc_params) : Z :=
  let d := ep_dict p in
  (match k with KLzma => 0 | KLzma2 => COMPRESSED_SIZE_MAX end)       (* RangeEncoderBuffer *)
  + enc_buf_bytes k (ep_mode p) d
  + hash_bytes d + mf_bytes (ep_mf p) d
  + opts_bytes (ep_mode p)
  + matches_bytes (ep_nice p)
  + literal_bytes (ep_lc p + ep_lp p)
  + 2 * length_encoder_bytes (ep_pb p) (ep_nice p)
  + dist_slot_prices_bytes d.

(* LZMA2Writer with chunk_size: start_independent_chunk builds the new LZMAEncoder while the old
   one is still owned by the writer, then the new chunk buffer while the old one is alive. *)
Definition enc_alloc_restart (p : enc_params) : Z :=
  let e := enc_alloc KLzma2 p - COMPRESSED_SIZE_MAX in
  Z.max (COMPRESSED_SIZE_MAX + 2 * e) (2 * COMPRESSED_SIZE_MAX + e).

(* the documented option range of the encoder *)
Definition enc_params_ok (k : writer_kind) (p : enc_params) : bool :=
  (DICT_SIZE_MIN <=? ep_dict p) && (ep_dict p <=? ENC_DICT_SIZE_MAX) &&
  (0 <=? ep_lc p) && (ep_lc p <=? 8) && (0 <=? ep_lp p) && (ep_lp p <=? 4) &&
  (match k with KLzma => true | KLzma2 => ep_lc p + ep_lp p <=? 4 end) &&
  (0 <=? ep_pb p) && (ep_pb p <=? 4) && (8 <=? ep_nice p) && (ep_nice p <=? 273).

(* tightness constant: 1024 * estimate <= alloc + ENC_TIGHT_C *)
Definition ENC_TIGHT_C : Z := 327680.

(* ------------------------------------------------------------------------------------------- *)
(* Decoder side estimators                                                                      *)
(* ------------------------------------------------------------------------------------------- *)
(* lzma_reader.rs fn get_dict_size(dict_size) -> Result<u32> *)
Definition lzma_dict_size (d : Z) : outcome Z :=
  if DICT_SIZE_MAX <? d then Err E_INVALID_INPUT
  else Ok (and_not15 (Z.max d 4096 + 15)).

(* pub fn get_memory_usage(dict_size, lc, lp) -> Result<u32>     (lzma_get_memory_usage) *)
Definition dec_estimate (ck : bool) (d lc lp : Z) : outcome Z :=
  if (8 <? lc) || (4 <? lp) then Err E_INVALID_INPUT else
  do ds <- lzma_dict_size d;
  do a <- add32 ck 10 (ds / 1024);
  do k <- add32 ck lc lp;
  do l <- shl32 ck 1536 k;
  add32 ck a (l / 1024).

(* pub fn get_memory_usage_by_props(dict_size, props_byte: u8) -> Result<u32> *)
Definition dec_estimate_by_props (ck : bool) (d props : Z) : outcome Z :=
  if DICT_SIZE_MAX <? d then Err E_INVALID_INPUT else
  if 224 <? props then Err E_INVALID_INPUT else
  let pr := props mod 45 in
  let lp := pr / 9 in
  let lc := pr - lp * 9 in
  dec_estimate ck d lc lp.

(* lzma2_reader.rs fn get_dict_size(dict_size) -> u32.  [old]: (dict_size + 15) & !15 *)
Definition lzma2_dict_size_gen (old ck : bool) (d : Z) : outcome Z :=
  if old then do s <- add32 ck d 15; Ok (and_not15 s)
  else Ok (and_not15 (Z.min (Z.max d DICT_SIZE_MIN) DICT_SIZE_MAX + 15)).

(* pub fn get_memory_usage(dict_size) -> u32                      (lzma2_get_memory_usage) *)
Definition dec2_estimate_gen (old ck : bool) (d : Z) : outcome Z :=
  do ds <- lzma2_dict_size_gen old ck d;
  do a <- add32 ck 40 (COMPRESSED_SIZE_MAX / 1024);
  add32 ck a (ds / 1024).

Definition dec2_estimate := dec2_estimate_gen false.
Definition dec2_estimate_old := dec2_estimate_gen true.

(* ------------------------------------------------------------------------------------------- *)
(* Decoder side allocation models                                                               *)
(* ------------------------------------------------------------------------------------------- *)
(* LZMAReader::construct2: the window is get_dict_size(get_dict_size(dict) shrunk to a smaller
   declared uncompressed size); LiteralDecoder::new allocates the literal tables. *)
Definition U64_HALF : Z := 9223372036854775807.            (* u64::MAX / 2 *)
Definition dec_window (d us : Z) : outcome Z :=
  do ds <- lzma_dict_size d;
  do ds2 <- (if (us <=? U64_HALF) && (us <? ds) then lzma_dict_size (us mod U32) else Ok ds);
  lzma_dict_size ds2.

Definition dec_alloc (d lc lp us : Z) : outcome Z :=
  do w <- dec_window d us; Ok (w + literal_bytes (lc + lp)).

(* Use of the reader: when the size is unknown (u64::MAX in the header) the stream ends with an end
   marker, which LZDecoder::repeat reports as error_other("dist overflow") before read_decode
   recognises it: one transient std::io::Error = Box<Custom> (24) + Box<String> (24) + 13 message
   bytes on the 64-bit target.  Nothing else is allocated while reading. *)
Definition U64_MAX : Z := 18446744073709551615.
Definition END_MARKER_ERROR_BYTES : Z := 61.
Definition dec_peak (d lc lp us : Z) : outcome Z :=
  do a <- dec_alloc d lc lp us; Ok (a + (if us =? U64_MAX then END_MARKER_ERROR_BYTES else 0)).

(* LZMA2Reader: window + chunk buffer (COMPRESSED_SIZE_MAX - 5) + the literal tables of the current
   LZMADecoder.  [nprops] = number of chunks carrying new properties that were decoded: 0 = no
   decoder was ever built; >= 2 and [old]: decode_props built the new decoder before dropping the
   previous one. *)
Definition dec2_alloc_gen (old : bool) (d lclp nprops : Z) : outcome Z :=
  do ds <- lzma2_dict_size_gen old false d;
  Ok (ds + (COMPRESSED_SIZE_MAX - 5)
      + (if nprops <=? 0 then 0 else if old && (2 <=? nprops) then 2 * literal_bytes lclp else literal_bytes lclp)).

Definition dec2_alloc := dec2_alloc_gen false.
Definition dec2_alloc_old := dec2_alloc_gen true.

Definition DEC_TIGHT_C : Z := 10240.
Definition DEC2_TIGHT_C : Z := 40965.

(* ------------------------------------------------------------------------------------------- *)
(* LZMAReader::new_mem_limit                                                                    *)
(* ------------------------------------------------------------------------------------------- *)
(* The result carries the trace of allocations (sizes, in order) performed before returning. *)
Record traced (A : Type) := { tr_allocs : list Z; tr_result : outcome A }.
Arguments tr_allocs {A}. Arguments tr_result {A}.

(* [rest]: the bytes of the stream after the 13 header bytes (RangeDecoder::new_stream reads 5 of
   them: the first must be 0).  props/dict/us: the 13 header bytes already parsed (a shorter stream
   gives UnexpectedEof before anything else happens and is not modelled here). *)
Definition traced_err {A} (c : Z) : traced A := {| tr_allocs := []; tr_result := Err c |}.

Definition range_decoder_new_stream (rest : list Z) : outcome unit :=
  match rest with
  | [] => Err E_UNEXPECTED_EOF
  | b :: t => if negb (b =? 0) then Err E_INVALID_INPUT
              else if Z.of_nat (length t) <? 4 then Err E_UNEXPECTED_EOF else Ok tt
  end.

Definition new_mem_limit (ck : bool) (props d us limit : Z) (rest : list Z) : traced unit :=
  (* let need_mem = get_memory_usage_by_props(dict_size, props)?; *)
  match dec_estimate_by_props ck d props with
  | Err c => traced_err c
  | Panic c => {| tr_allocs := []; tr_result := Panic c |}
  | Fuel => {| tr_allocs := []; tr_result := Fuel |}
  | Ok need =>
    (* if mem_limit_kb < need_mem { return Err(OutOfMemory) } *)
    if limit <? need then traced_err E_OUT_OF_MEMORY else
    (* construct1: props / dict_size checks (cannot fail any more), construct2 *)
    if 224 <? props then traced_err E_INVALID_INPUT else
    let pb := props / 45 in
    let pr := props - pb * 45 in
    let lp := pr / 9 in
    let lc := pr - lp * 9 in
    if DICT_SIZE_MAX <? d then traced_err E_INVALID_INPUT else
    if (8 <? lc) || (4 <? lp) || (4 <? pb) then traced_err E_INVALID_INPUT else
    match dec_window d us with
    | Ok w =>
      match range_decoder_new_stream rest with
      | Ok _ => {| tr_allocs := [w; literal_bytes (lc + lp)]; tr_result := Ok tt |}
      | Err c => traced_err c
      | Panic c => {| tr_allocs := []; tr_result := Panic c |}
      | Fuel => {| tr_allocs := []; tr_result := Fuel |}
      end
    | Err c => traced_err c
    | Panic c => {| tr_allocs := []; tr_result := Panic c |}
    | Fuel => {| tr_allocs := []; tr_result := Fuel |}
    end
  end.

Definition sumZ (l : list Z) : Z := fold_right Z.add 0 l.

(* ------------------------------------------------------------------------------------------- *)
(* Observation functions of the correspondence run (harness area "memusage")                    *)
(* ------------------------------------------------------------------------------------------- *)
Definition mode_of_z (z : Z) : enc_mode := if z =? 0 then Fast else Normal.
Definition mf_of_z (z : Z) : mf_type := if z =? 0 then HC4 else BT4.
Definition kind_of_z (z : Z) : writer_kind := if z =? 1 then KLzma else KLzma2.
Definition mk_enc_params (d lc lp pb mode mf nice : Z) : enc_params :=
  {| ep_dict := d; ep_lc := lc; ep_lp := lp; ep_pb := pb; ep_mode := mode_of_z mode; ep_mf := mf_of_z mf; ep_nice := nice |}.

Definition obs_al_enc (ck : bool) (kind : Z) (p : enc_params) : outcome (Z * Z) :=
  do e <- enc_estimate ck p; Ok (enc_alloc (kind_of_z kind) p, e).
Definition obs_al_encr (ck : bool) (p : enc_params) : outcome (Z * Z) :=
  do e <- enc_estimate ck p; Ok (enc_alloc_restart p, e).
Definition obs_al_dec (ck : bool) (d lc lp us : Z) : outcome (Z * Z) :=
  do e <- dec_estimate ck d lc lp; do a <- dec_peak d lc lp us; Ok (a, e).
Definition obs_al_dec2 (ck : bool) (d lclp nprops : Z) : outcome (Z * Z) :=
  do e <- dec2_estimate ck d; do a <- dec2_alloc d lclp nprops; Ok (a, e).
Definition obs_memlimit (ck : bool) (props d us limit : Z) (rest : list Z) : Z * outcome unit :=
  let t := new_mem_limit ck props d us limit rest in (sumZ (tr_allocs t), tr_result t).
