(* Arith/Normalize.v — models of the match-finder position renormalisation of
   src/lz/lz_encoder.rs: normalize_scalar (historical: i32::saturating_sub; repaired:
   max(p, norm_offset) - norm_offset), one lane of normalize_avx2 / normalize_sse41 /
   normalize_neon (max_epi32 then wrapping sub_epi32), the align_to_mut split of
   LZEncoder::normalize (scalar prefix, SIMD middle, scalar suffix), and the rule of XZ for Java
   (the crate's upstream) as the specification.  Definitions only.  i32 values are Z in
   [-2^31, 2^31). *)
From LzVerif Require Export Base.Bytes.

Definition I32_MIN : Z := -2147483648.
Definition I32_MAX : Z := 2147483647.
Definition is_i32 (x : Z) : bool := (I32_MIN <=? x) && (x <=? I32_MAX).

(* two's-complement wrap of a mathematical integer to i32 (wrapping_sub, _mm_sub_epi32) *)
Definition to_i32 (x : Z) : Z := (x + 2147483648) mod 4294967296 - 2147483648.

(* XZ for Java, LZEncoder.normalize:
     if (positions[i] <= normalizationOffset) positions[i] = 0;
     else positions[i] -= normalizationOffset;                                      *)
Definition norm_spec (off p : Z) : Z := if p <=? off then 0 else p - off.

(* historical normalize_scalar: p := p.saturating_sub(norm_offset) *)
Definition norm_scalar_old (off p : Z) : Z :=
  let d := p - off in
  if d <? I32_MIN then I32_MIN else if I32_MAX <? d then I32_MAX else d.

(* repaired normalize_scalar: p := max(p, norm_offset) - norm_offset.  The subtraction is a
   checked i32 subtraction in a debug build: out of range = panic. *)
Definition PANIC_NORM_OVERFLOW : Z := 1401.
Definition norm_scalar (off p : Z) : outcome Z :=
  let d := Z.max p off - off in
  if is_i32 d then Ok d else Panic PANIC_NORM_OVERFLOW.

(* one 32-bit lane of the SIMD variants: sub_epi32(max_epi32(p, off), off), wrapping *)
Definition norm_simd (off p : Z) : Z := to_i32 (Z.max p off - off).

(* whole arrays.  [omap_outcome] stops at the first panic like the iterator would. *)
Fixpoint omap_outcome {A B} (f : A -> outcome B) (l : list A) : outcome (list B) :=
  match l with
  | [] => Ok []
  | x :: t => do y <- f x; do r <- omap_outcome f t; Ok (y :: r)
  end.

Definition normalize_scalar (l : list Z) (off : Z) : outcome (list Z) := omap_outcome (norm_scalar off) l.
Definition normalize_scalar_old (l : list Z) (off : Z) : list Z := map (norm_scalar_old off) l.
Definition normalize_spec (l : list Z) (off : Z) : list Z := map (norm_spec off) l.

(* normalize_avx2 / normalize_sse41 / normalize_neon: positions.align_to_mut::<vector>() yields a
   prefix of [pre] elements (decided by the address of the slice: a run-time fact, any value is
   possible), then as many whole vectors of [lanes] elements as fit, then the rest.  Prefix and
   suffix go through the scalar function [sc], the middle through the SIMD lanes. *)
Definition normalize_split (sc : list Z -> Z -> outcome (list Z)) (lanes pre : Z) (l : list Z) (off : Z)
  : outcome (list Z) :=
  let n := zlen l in
  let pre' := Z.min (Z.max pre 0) n in
  let mid := if lanes <=? 0 then 0 else ((n - pre') / lanes) * lanes in
  let p := firstn (Z.to_nat pre') l in
  let rest := skipn (Z.to_nat pre') l in
  let m := firstn (Z.to_nat mid) rest in
  let s := skipn (Z.to_nat mid) rest in
  do p' <- sc p off;
  do s' <- sc s off;
  Ok (p' ++ map (norm_simd off) m ++ s').

(* LZEncoder::normalize: SIMD with the split when the CPU feature is detected (std only), the
   scalar function otherwise (no_std, wasm32, ...). *)
Definition normalize_dispatch (simd : bool) (lanes pre : Z) (l : list Z) (off : Z) : outcome (list Z) :=
  if simd then normalize_split normalize_scalar lanes pre l off else normalize_scalar l off.

(* the same with the historical scalar function *)
Definition normalize_dispatch_old (simd : bool) (lanes pre : Z) (l : list Z) (off : Z) : outcome (list Z) :=
  let sc := fun l off => Ok (normalize_scalar_old l off) in
  if simd then normalize_split sc lanes pre l off else sc l off.

(* How the match finders use the table entries (hc4.rs / bt4.rs): at lz_pos = 0x7FFFFFFF the
   tables are normalised by off = 0x7FFFFFFF - cyclic_size and lz_pos becomes cyclic_size; a
   candidate [entry] is followed iff delta = lz_pos - entry (wrapping_sub in hc4 for the 2/3-byte
   hashes) is < cyclic_size. *)
Definition norm_offset_of (cyclic_size : Z) : Z := I32_MAX - cyclic_size.
Definition delta_wrapping (lz_pos entry : Z) : Z := to_i32 (lz_pos - entry).
Definition candidate_followed (cyclic_size lz_pos entry : Z) : bool := delta_wrapping lz_pos entry <? cyclic_size.
