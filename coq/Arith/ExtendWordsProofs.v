(* Arith/ExtendWordsProofs.v — the word-at-a-time extend_match_safe (compare 8-byte little-endian
   words, on a difference use trailing_zeros(w1 ^ w2) / 8) returns the length of the common prefix
   of its two arguments, i.e. what the byte-wise loop returns. *)
From LzVerif Require Import Base.Bytes Arith.Normalize Arith.UnsafeBounds.
Ltac Zify.zify_post_hook ::= Z.div_mod_to_equations.

(* ---- trailing zeros of an xor, by halving ---------------------------------------------------- *)
Lemma odd_lxor x y : Z.odd (Z.lxor x y) = xorb (Z.odd x) (Z.odd y).
Proof. rewrite <- !Z.bit0_odd. apply Z.lxor_spec. Qed.

Lemma half_lxor x y : Z.lxor x y / 2 = Z.lxor (x / 2) (y / 2).
Proof. rewrite <- !Z.div2_div, !Z.div2_spec. apply Z.shiftr_lxor. Qed.

Lemma tz_fuel_nonneg f x : 0 <= tz_fuel f x.
Proof. revert x; induction f as [|f IH]; intros x; cbn [tz_fuel]; [lia|]. destruct (Z.odd x); [lia|]. specialize (IH (x / 2)). lia. Qed.

Lemma odd_low a m A : Z.odd (a + 2 * m * A) = Z.odd a.
Proof. replace (2 * m * A) with (2 * (m * A)) by lia. apply Z.odd_add_mul_2. Qed.

Lemma odd_eq_half_eq a b : Z.odd a = Z.odd b -> a / 2 = b / 2 -> a = b.
Proof.
  intros Ho Hh. pose proof (Zmod_odd a) as Ha. pose proof (Zmod_odd b) as Hb.
  rewrite Ho in Ha. destruct (Z.odd b); lia.
Qed.

(* low k bits a, b below the rest A, B: a difference in the low bits is found within k steps,
   otherwise the count continues in the rest *)
Lemma tz_low_bits : forall (k : nat) a b A B f,
  0 <= a < 2 ^ Z.of_nat k -> 0 <= b < 2 ^ Z.of_nat k ->
  let x := a + 2 ^ Z.of_nat k * A in
  let y := b + 2 ^ Z.of_nat k * B in
  (a <> b -> tz_fuel (k + f) (Z.lxor x y) < Z.of_nat k) /\
  (a = b -> tz_fuel (k + f) (Z.lxor x y) = Z.of_nat k + tz_fuel f (Z.lxor A B)).
Proof.
  induction k as [|k IH]; intros a b A B f Ha Hb x y.
  - change (2 ^ Z.of_nat 0) with 1 in *. assert (a = 0) by lia. assert (b = 0) by lia. subst a b.
    split; [intros H; lia|]. intros _. subst x y. cbn [Nat.add Z.of_nat]. rewrite !Z.add_0_l, !Z.mul_1_l. lia.
  - subst x y. rewrite Nat2Z.inj_succ, Z.pow_succ_r in * by lia.
    set (m := 2 ^ Z.of_nat k) in *.
    assert (Hm : 0 < m) by (apply Z.pow_pos_nonneg; lia).
    cbn [Nat.add tz_fuel]. rewrite odd_lxor. rewrite !odd_low, half_lxor.
    assert (Hx : (a + 2 * m * A) / 2 = a / 2 + m * A) by lia.
    assert (Hy : (b + 2 * m * B) / 2 = b / 2 + m * B) by lia.
    rewrite Hx, Hy.
    destruct (IH (a / 2) (b / 2) A B f ltac:(lia) ltac:(lia)) as [IH1 IH2].
    destruct (Z.odd a) eqn:Oa, (Z.odd b) eqn:Ob; cbn [xorb].
    + split; intros H.
      * assert (a / 2 <> b / 2) by (intro E; apply H; apply odd_eq_half_eq; congruence). specialize (IH1 H0). lia.
      * subst b. rewrite IH2 by reflexivity. lia.
    + split; intros H; [lia|]. subst b. congruence.
    + split; intros H; [lia|]. subst b. congruence.
    + split; intros H.
      * assert (a / 2 <> b / 2) by (intro E; apply H; apply odd_eq_half_eq; congruence). specialize (IH1 H0). lia.
      * subst b. rewrite IH2 by reflexivity. lia.
Qed.

(* ---- byte lists -------------------------------------------------------------------------------- *)
Lemma cpl_nonneg a b : 0 <= cpl a b.
Proof. revert b; induction a as [|x a IH]; intros [|y b]; cbn [cpl]; try lia. destruct (x =? y); [specialize (IH b)|]; lia. Qed.

Lemma cpl_le_len a b : cpl a b <= zlen a /\ cpl a b <= zlen b.
Proof.
  unfold zlen. revert b; induction a as [|x a IH]; intros [|y b]; cbn [cpl length]; try lia.
  destruct (x =? y); [specialize (IH b)|]; lia.
Qed.

Lemma cpl_app_same p a b : cpl (p ++ a) (p ++ b) = zlen p + cpl a b.
Proof.
  unfold zlen. induction p as [|x p IH]; cbn [app cpl length]; [lia|]. rewrite Z.eqb_refl, IH. lia.
Qed.

Lemma cpl_app_diff : forall p q a b, length p = length q -> p <> q -> cpl (p ++ a) (q ++ b) = cpl p q.
Proof.
  induction p as [|x p IH]; intros [|y q] a b Hl Hd; cbn [length] in Hl; try discriminate; [congruence|].
  cbn [app cpl]. destruct (Z.eqb_spec x y); [|reflexivity]. subst y.
  rewrite IH; [reflexivity|lia|congruence].
Qed.

Lemma le_value_nonneg l : bytes_ok l = true -> 0 <= le_value l.
Proof.
  induction l as [|x l IH]; cbn [le_value bytes_ok forallb]; [lia|]. intros H.
  apply andb_true_iff in H as [Hx Hl]. unfold is_byte in Hx. specialize (IH Hl). lia.
Qed.

Lemma byte_range x : is_byte x = true -> 0 <= x < 256.
Proof. unfold is_byte. lia. Qed.

(* the xor of two different words of n bytes: trailing zeros / 8 = common prefix length *)
Lemma tz_words : forall a b f,
  length a = length b -> bytes_ok a = true -> bytes_ok b = true -> a <> b ->
  let t := tz_fuel (8 * length a + f) (Z.lxor (le_value a) (le_value b)) in
  t / 8 = cpl a b /\ 0 <= t < 8 * zlen a.
Proof.
  induction a as [|x a IH]; intros [|y b] f Hl Ha Hb Hd; cbn [length] in Hl; try discriminate; [congruence|].
  cbn [bytes_ok forallb] in Ha, Hb. apply andb_true_iff in Ha as [Hx Ha]. apply andb_true_iff in Hb as [Hy Hb].
  apply byte_range in Hx. apply byte_range in Hy.
  cbn [le_value cpl length]. cbv zeta.
  replace (8 * S (length a) + f)%nat with (8 + (8 * length a + f))%nat by lia.
  destruct (tz_low_bits 8 x y (le_value a) (le_value b) (8 * length a + f)
              ltac:(change (2 ^ Z.of_nat 8) with 256; lia) ltac:(change (2 ^ Z.of_nat 8) with 256; lia)) as [T1 T2].
  change (2 ^ Z.of_nat 8) with 256 in T1, T2. change (Z.of_nat 8) with 8 in T1, T2.
  pose proof (tz_fuel_nonneg (8 + (8 * length a + f)) (Z.lxor (x + 256 * le_value a) (y + 256 * le_value b))) as Hnn.
  unfold zlen. cbn [length]. rewrite Nat2Z.inj_succ.
  destruct (Z.eqb_spec x y) as [E|E].
  - subst y. specialize (T2 eq_refl).
    assert (Hd' : a <> b) by congruence.
    destruct (IH b f ltac:(lia) Ha Hb Hd') as [I1 I2]. unfold zlen in I2.
    rewrite T2. split; [|lia].
    replace (8 + tz_fuel (8 * length a + f) (Z.lxor (le_value a) (le_value b)))
      with (tz_fuel (8 * length a + f) (Z.lxor (le_value a) (le_value b)) + 1 * 8) by lia.
    rewrite Z.div_add by lia. lia.
  - specialize (T1 E). split; [|lia]. apply Z.div_small. lia.
Qed.

Lemma le_value_inj : forall a b, length a = length b -> bytes_ok a = true -> bytes_ok b = true ->
  le_value a = le_value b -> a = b.
Proof.
  induction a as [|x a IH]; intros [|y b] Hl Ha Hb He; cbn [length] in Hl; try discriminate; [reflexivity|].
  cbn [bytes_ok forallb] in Ha, Hb. apply andb_true_iff in Ha as [Hx Ha]. apply andb_true_iff in Hb as [Hy Hb].
  apply byte_range in Hx. apply byte_range in Hy. cbn [le_value] in He.
  assert (x = y) by lia. subst y. f_equal. apply IH; auto; lia.
Qed.

Lemma bytes_ok_firstn n l : bytes_ok l = true -> bytes_ok (firstn n l) = true.
Proof. unfold bytes_ok. revert n; induction l as [|x l IH]; intros [|n] H; cbn in *; auto. apply andb_true_iff in H as [Hx Hl]. rewrite Hx, IH; auto. Qed.
Lemma bytes_ok_skipn n l : bytes_ok l = true -> bytes_ok (skipn n l) = true.
Proof. unfold bytes_ok. revert n; induction l as [|x l IH]; intros [|n] H; cbn in *; auto. apply andb_true_iff in H as [Hx Hl]. auto. Qed.

(* ---- the word loop ------------------------------------------------------------------------------ *)
Lemma em_words_cpl : forall fuel a b m,
  bytes_ok a = true -> bytes_ok b = true -> em_words fuel a b m = m + cpl a b.
Proof.
  induction fuel as [|f IH]; intros a b m Ha Hb; cbn [em_words]; [reflexivity|].
  destruct (Z.leb_spec 8 (zlen a)) as [La|La]; cbn [andb]; [|reflexivity].
  destruct (Z.leb_spec 8 (zlen b)) as [Lb|Lb]; [|reflexivity].
  unfold zlen in La, Lb.
  assert (Hfa : length (firstn 8 a) = 8%nat) by (rewrite firstn_length; lia).
  assert (Hfb : length (firstn 8 b) = 8%nat) by (rewrite firstn_length; lia).
  replace (cpl a b) with (cpl (firstn 8 a ++ skipn 8 a) (firstn 8 b ++ skipn 8 b))
    by (rewrite !firstn_skipn; reflexivity).
  destruct (Z.eqb_spec (le_value (firstn 8 a)) (le_value (firstn 8 b))) as [E|E].
  - apply le_value_inj in E; auto using bytes_ok_firstn; [|congruence].
    rewrite IH by auto using bytes_ok_skipn. rewrite E, cpl_app_same. unfold zlen. rewrite Hfb. lia.
  - assert (Hd : firstn 8 a <> firstn 8 b) by congruence.
    rewrite cpl_app_diff by (congruence || assumption).
    destruct (tz_words (firstn 8 a) (firstn 8 b) 0 ltac:(congruence) ltac:(auto using bytes_ok_firstn)
                ltac:(auto using bytes_ok_firstn) Hd) as [T _].
    rewrite Hfa in T. unfold trailing_zeros64. change (8 * 8 + 0)%nat with 64%nat in T. rewrite T. reflexivity.
Qed.

(* C14: word-at-a-time = byte-wise = length of the common prefix *)
Theorem extend_match_safe_cpl : forall a b,
  bytes_ok a = true -> bytes_ok b = true -> extend_match_safe a b = cpl a b.
Proof. intros a b Ha Hb. unfold extend_match_safe. rewrite em_words_cpl by assumption. lia. Qed.
