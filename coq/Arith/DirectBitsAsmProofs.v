(* Arith/DirectBitsAsmProofs.v — the transcribed x86-64 assembly of decode_direct_bits equals the
   portable per-bit loop of Codec/Range.v as long as the run stays inside the buffer, never loads
   outside the buffer in any state, differs from the portable loop beyond the end (historical
   dispatch refuted), and the repaired dispatch equals the portable loop in every state. *)
From LzVerif Require Import Base.Bytes Codec.Store Codec.Range Arith.DirectBitsAsm.
Ltac Zify.zify_post_hook ::= Z.div_mod_to_equations.

(* ---- list facts --------------------------------------------------------------------------- *)
Lemma nth_opt_skipn {A} (l : list A) n :
  (n < length l)%nat -> exists b, nth_opt l n = Some b /\ skipn n l = b :: skipn (S n) l.
Proof.
  revert n; induction l as [|x t IH]; intros n Hn; cbn [length] in Hn; [lia|].
  destruct n as [|k].
  - exists x. split; reflexivity.
  - destruct (IH k ltac:(lia)) as (b & E1 & E2). exists b. split; [exact E1|]. exact E2.
Qed.

Lemma zth_skipn {A} (buf : list A) p :
  0 <= p < zlen buf ->
  exists b, zth buf p = Some b /\ skipn (Z.to_nat p) buf = b :: skipn (Z.to_nat (p + 1)) buf.
Proof.
  unfold zlen, zth. intros [H0 H1]. destruct (Z.ltb_spec p 0); [lia|].
  destruct (nth_opt_skipn buf (Z.to_nat p) ltac:(lia)) as (b & E1 & E2).
  exists b. split; [exact E1|]. rewrite E2. replace (Z.to_nat (p + 1)) with (S (Z.to_nat p)) by lia. reflexivity.
Qed.

Lemma zlen_skipn {A} (buf : list A) p : 0 <= p <= zlen buf -> zlen (skipn (Z.to_nat p) buf) = zlen buf - p.
Proof. unfold zlen. intros H. rewrite skipn_length. lia. Qed.

Lemma skipn_beyond {A} (buf : list A) p : zlen buf <= p -> skipn (Z.to_nat p) buf = [].
Proof. unfold zlen. intros H. apply skipn_all2. lia. Qed.

(* ---- C15: the clamp -------------------------------------------------------------------------- *)
(* limit = len - 1.  The compare is signed (cmovg): the bound needs pos < 2^63, which holds
   because pos starts at most at len and grows by at most one per bit. *)
Lemma asm_clamp_bounds_lemma len pos :
  1 <= len < P2_63 -> 0 <= pos < P2_63 -> 0 <= asm_clamp (len - 1) pos <= len - 1.
Proof.
  unfold asm_clamp, s64, P2_63. intros Hl Hp.
  destruct (Z.ltb_spec (len - 1) 9223372036854775808); [|lia].
  destruct (Z.ltb_spec pos 9223372036854775808); [|lia].
  destruct (Z.ltb_spec (len - 1) pos); lia.
Qed.

(* with pos >= 2^63 (as an unsigned register) the signed compare does not clamp *)
Lemma asm_clamp_signed_hole :
  exists len pos, 1 <= len < P2_63 /\ P2_63 <= pos < P2_64 /\ asm_clamp (len - 1) pos = pos.
Proof. exists 1, P2_63. vm_compute. repeat split; congruence. Qed.

Lemma asm_clamp_in_buffer len pos :
  1 <= len < P2_63 -> 0 <= pos < len -> asm_clamp (len - 1) pos = pos.
Proof.
  unfold asm_clamp, s64, P2_63. intros Hl Hp.
  destruct (Z.ltb_spec (len - 1) 9223372036854775808); [|lia].
  destruct (Z.ltb_spec pos 9223372036854775808); [|lia].
  destruct (Z.ltb_spec (len - 1) pos); lia.
Qed.

Lemma asm_iter_some buf s :
  1 <= zlen buf < P2_63 -> 0 <= a_pos s < P2_63 - 1 ->
  exists s1, asm_iter buf (zlen buf - 1) s = Some s1 /\ a_pos s <= a_pos s1 <= a_pos s + 1.
Proof.
  intros Hl Hp. unfold asm_iter, asm_iter_gen.
  destruct (a_range s <? P2_24).
  - pose proof (asm_clamp_bounds_lemma (zlen buf) (a_pos s) Hl ltac:(lia)) as Hc.
    destruct (zth_some buf (asm_clamp (zlen buf - 1) (a_pos s)) ltac:(lia)) as (b & Eb).
    rewrite Eb. eexists. split; [reflexivity|]. cbn [a_pos].
    unfold wrap64. rewrite Z.mod_small by (unfold P2_63 in *; lia). lia.
  - eexists. split; [reflexivity|]. cbn [a_pos]. lia.
Qed.

Lemma asm_loop_some buf n : forall s,
  1 <= zlen buf < P2_63 -> 0 <= a_pos s -> a_pos s + Z.of_nat n < P2_63 ->
  exists s', asm_loop buf (zlen buf - 1) n s = Some s' /\ a_pos s <= a_pos s' <= a_pos s + Z.of_nat n.
Proof.
  induction n as [|k IH]; intros s Hl Hp Hn.
  - exists s. split; [reflexivity|]. lia.
  - destruct (asm_iter_some buf s Hl ltac:(lia)) as (s1 & E1 & Hp1).
    destruct (IH s1 Hl ltac:(lia) ltac:(lia)) as (s' & E' & Hp').
    exists s'. split; [|lia].
    unfold asm_loop in *. cbn [asm_loop_gen]. unfold asm_iter in E1. rewrite E1. exact E'.
Qed.

(* C15: in EVERY state of the decoder (any range/code, pos inside, at or beyond the end of the
   buffer, any count a u32 can hold) the assembly loads only bytes of the buffer, and the position
   it stores is inside [pos, len] or unchanged-clamped. *)
Theorem asm_loads_in_bounds : forall buf pos range code count,
  1 <= zlen buf < 2 ^ 62 -> 0 <= pos < 2 ^ 62 -> 0 <= count < 2 ^ 32 ->
  exists v r c p, direct_bits_asm buf pos range code count = Ok (v, r, c, p) /\ 0 <= p <= zlen buf.
Proof.
  intros buf pos range code count Hl Hp Hc.
  unfold direct_bits_asm, direct_bits_asm_gen.
  destruct (Z.eqb_spec (zlen buf) 0); [lia|].
  assert (Hn : Z.of_nat (asm_iters count) <= 2 ^ 32).
  { unfold asm_iters, P2_32. destruct (Z.eqb_spec count 0); rewrite Z2Nat.id; lia. }
  change (2 ^ 62) with 4611686018427387904 in *. change (2 ^ 32) with 4294967296 in *.
  destruct (asm_loop_some buf (asm_iters count) (mkAreg 0 range code pos)) as (s' & E & Hs');
    cbn [a_pos]; unfold P2_63; try lia.
  unfold asm_loop in E. rewrite E. do 4 eexists. split; [reflexivity|]. cbn [a_pos] in Hs'. lia.
Qed.

(* ---- C14: twins -------------------------------------------------------------------------------- *)
Definition port_step (d : rdec) (acc : Z) : rdec * Z :=
  let d1 := rdec_normalize d in
  let range := Z.shiftr (rd_range d1) 1 in
  let t := Z.shiftr (wrap32 (rd_code d1 - range)) 31 in
  let code := if t =? 0 then wrap32 (rd_code d1 - range) else rd_code d1 in
  (mkRdec range code (rd_in d1) (rd_over d1), wrap32 (acc * 2 + (1 - t))).

Lemma ddb_S d c acc :
  decode_direct_bits d (S c) acc = decode_direct_bits (fst (port_step d acc)) c (snd (port_step d acc)).
Proof. reflexivity. Qed.

Definition twin_rel (buf : list Z) (s : areg) (d : rdec) : Prop :=
  rd_range d = a_range s /\ rd_code d = a_code s /\
  rd_in d = skipn (Z.to_nat (a_pos s)) buf /\ 0 <= a_pos s.

Lemma sign_bit_shiftr x : 0 <= x < P2_32 -> (Z.shiftr x 31 =? 0) = negb (P2_31 <=? x) /\ (Z.shiftr x 31 = 0 \/ Z.shiftr x 31 = 1).
Proof.
  unfold P2_32, P2_31. intros H. rewrite Z.shiftr_div_pow2 by lia. change (2 ^ 31) with 2147483648.
  destruct (Z.leb_spec 2147483648 x); destruct (Z.eqb_spec (x / 2147483648) 0); cbn [negb]; split; auto; lia.
Qed.

Lemma step_twins buf s d :
  twin_rel buf s d -> a_pos s < zlen buf -> zlen buf < P2_63 ->
  exists s1, asm_iter buf (zlen buf - 1) s = Some s1 /\
    twin_rel buf s1 (fst (port_step d (a_result s))) /\
    snd (port_step d (a_result s)) = a_result s1 /\
    rd_over (fst (port_step d (a_result s))) = rd_over d /\
    a_pos s <= a_pos s1 <= a_pos s + 1.
Proof.
  intros (Hr & Hc & Hi & Hp) Hlt Hlen.
  unfold asm_iter, asm_iter_gen, port_step, rdec_normalize. rewrite Hr, Hc.
  assert (Hres : forall t, (t = 0 \/ t = 1) ->
            wrap32 (a_result s * 2 + (1 - t)) =
            if t =? 0 then wrap32 (wrap32 (a_result s * 2) + 1) else wrap32 (a_result s * 2)).
  { intros t [Ht|Ht]; subst t; cbn [Z.eqb Z.sub Z.opp Z.add Z.pos_sub].
    - unfold wrap32. rewrite Zplus_mod_idemp_l. reflexivity.
    - replace (a_result s * 2 + 0) with (a_result s * 2) by lia. reflexivity. }
  destruct (a_range s <? P2_24).
  - rewrite asm_clamp_in_buffer by lia.
    destruct (zth_skipn buf (a_pos s) ltac:(lia)) as (b & Eb & Es).
    rewrite Eb. unfold rdec_read. rewrite Hi, Es. cbn [rd_range rd_code rd_in rd_over].
    set (code0 := Z.lor (wrap32 (a_code s * 256)) b).
    set (range1 := Z.shiftr (wrap32 (a_range s * 256)) 1).
    destruct (sign_bit_shiftr (wrap32 (code0 - range1)) ltac:(unfold wrap32, P2_32; apply Z.mod_pos_bound; lia)) as [Esf Ht].
    eexists. split; [reflexivity|]. cbn [fst snd a_result a_range a_code a_pos rd_over].
    assert (Hw : wrap64 (a_pos s + 1) = a_pos s + 1) by (unfold wrap64; apply Z.mod_small; unfold P2_63 in *; lia).
    rewrite Hw. split; [|split; [|split; [reflexivity|lia]]].
    + unfold twin_rel. cbn [rd_range rd_code rd_in a_range a_code a_pos].
      split; [reflexivity|]. split; [|split; [reflexivity|lia]].
      rewrite Esf. destruct (P2_31 <=? wrap32 (code0 - range1)); reflexivity.
    + rewrite (Hres _ Ht), Esf. destruct (P2_31 <=? wrap32 (code0 - range1)); reflexivity.
  - cbn [rd_range rd_code rd_in rd_over]. rewrite ?Hr, ?Hc.
    set (range1 := Z.shiftr (a_range s) 1).
    destruct (sign_bit_shiftr (wrap32 (a_code s - range1)) ltac:(unfold wrap32, P2_32; apply Z.mod_pos_bound; lia)) as [Esf Ht].
    eexists. split; [reflexivity|]. cbn [fst snd a_result a_range a_code a_pos rd_over].
    split; [|split; [|split; [reflexivity|lia]]].
    + unfold twin_rel. cbn [rd_range rd_code rd_in a_range a_code a_pos].
      split; [reflexivity|]. split; [|split; [exact Hi|lia]].
      rewrite Esf. destruct (P2_31 <=? wrap32 (a_code s - range1)); reflexivity.
    + rewrite (Hres _ Ht), Esf. destruct (P2_31 <=? wrap32 (a_code s - range1)); reflexivity.
Qed.

Lemma loop_twins buf : zlen buf < P2_63 -> forall n s d,
  twin_rel buf s d -> a_pos s + Z.of_nat n <= zlen buf ->
  exists s', asm_loop buf (zlen buf - 1) n s = Some s' /\
    fst (decode_direct_bits d n (a_result s)) = a_result s' /\
    twin_rel buf s' (snd (decode_direct_bits d n (a_result s))) /\
    rd_over (snd (decode_direct_bits d n (a_result s))) = rd_over d /\
    a_pos s' <= zlen buf.
Proof.
  intros Hlen. induction n as [|k IH]; intros s d HR Hn.
  - exists s. cbn [decode_direct_bits fst snd].
    split; [reflexivity|]. split; [reflexivity|]. split; [exact HR|]. split; [reflexivity|]. lia.
  - destruct (step_twins buf s d HR ltac:(lia) Hlen) as (s1 & E1 & HR1 & Hacc & Hov & Hp1).
    destruct (IH s1 _ HR1 ltac:(lia)) as (s' & E' & Hv & HR' & Hov' & Hp').
    exists s'. rewrite ddb_S, Hacc.
    split; [unfold asm_loop in *; cbn [asm_loop_gen]; unfold asm_iter in E1; rewrite E1; exact E'|].
    split; [exact Hv|]. split; [exact HR'|]. split; [congruence|exact Hp'].
Qed.

(* C14 (F18, positive half): whenever the direct-bit run cannot reach the end of the buffer -
   pos + count <= len, since each bit consumes at most one byte - the x86-64 assembly returns the
   same value and leaves the same (range, code, pos) as the portable loop, for every u32 range and
   code (valid or not) and every buffer content. *)
Theorem direct_bits_twins : forall buf pos range code count,
  0 <= pos -> 1 <= count -> pos + count <= zlen buf -> zlen buf < P2_63 ->
  direct_bits_asm buf pos range code count = Ok (direct_bits_portable buf pos range code count).
Proof.
  intros buf pos range code count Hp Hc Hfit Hlen.
  unfold direct_bits_asm, direct_bits_asm_gen, direct_bits_portable.
  destruct (Z.eqb_spec (zlen buf) 0); [lia|].
  assert (Hit : asm_iters count = Z.to_nat count).
  { unfold asm_iters. destruct (Z.eqb_spec count 0); [lia|reflexivity]. }
  rewrite Hit.
  assert (HR : twin_rel buf (mkAreg 0 range code pos) (rdec_of_buf buf pos range code)).
  { unfold twin_rel, rdec_of_buf. cbn. repeat split; auto. }
  destruct (loop_twins buf Hlen (Z.to_nat count) _ _ HR ltac:(cbn [a_pos]; lia)) as (s' & E & Hv & HR' & Hov & Hp').
  unfold asm_loop in E. rewrite E. cbn [a_result] in *.
  destruct (decode_direct_bits (rdec_of_buf buf pos range code) (Z.to_nat count) 0) as [v d'] eqn:Ed.
  cbn [fst snd] in *. destruct HR' as (Hr & Hcd & Hin & Hpos).
  unfold rdec_pos. rewrite Hin, zlen_skipn by lia. rewrite Hov. unfold rdec_of_buf. cbn [rd_over].
  rewrite Hv, Hr, Hcd. f_equal. f_equal. lia.
Qed.

(* C14 (F18, negative half): at the end of the buffer the two paths differ.  First witness: the
   buffer is exhausted and one more byte is needed - both read "0", but the assembly leaves
   pos = len (so is_finished() says true with code = 0) while the portable path counts the
   over-read (is_finished() = false).  Second witness: the assembly re-reads buf[len-1] = 0xFF
   where the portable path reads 0, so [code] differs as well. *)
Theorem direct_bits_overrun_refuted :
  (exists buf pos range code count,
     bytes_ok buf = true /\ 0 <= pos /\ 0 <= range < P2_32 /\ 0 <= code < P2_32 /\ 1 <= count /\
     exists v r c p1 p2,
       direct_bits_dispatch_old true buf pos range code count = Ok (v, r, c, p1) /\
       direct_bits_dispatch_old false buf pos range code count = Ok (v, r, c, p2) /\
       buffer_is_finished (zlen buf) p1 c = true /\ buffer_is_finished (zlen buf) p2 c = false) /\
  (exists buf pos range code count,
     bytes_ok buf = true /\ 0 <= pos /\ 0 <= range < P2_32 /\ 0 <= code < P2_32 /\ 1 <= count /\
     exists v r c1 c2 p1 p2,
       direct_bits_dispatch_old true buf pos range code count = Ok (v, r, c1, p1) /\
       direct_bits_dispatch_old false buf pos range code count = Ok (v, r, c2, p2) /\ c1 <> c2).
Proof.
  split.
  - exists [0], 1, 8388608, 0, 1.
    split; [reflexivity|]. split; [lia|]. split; [unfold P2_32; lia|]. split; [unfold P2_32; lia|]. split; [lia|].
    exists 0, 1073741824, 0, 1, 2. vm_compute. repeat split; reflexivity.
  - exists [255], 1, 8388608, 0, 1.
    split; [reflexivity|]. split; [lia|]. split; [unfold P2_32; lia|]. split; [unfold P2_32; lia|]. split; [lia|].
    exists 0, 1073741824, 255, 0, 1, 2. vm_compute. repeat split; try reflexivity. discriminate.
Qed.

(* ---- the loop as written in the Rust source = the per-bit loop ------------------------------ *)
Lemma direct_bits_loop_eq_gen : forall n d acc fuel,
  65536 <= rd_range d < P2_32 -> (5 * n + 1 <= fuel)%nat ->
  direct_bits_loop fuel d (Z.of_nat n) acc = Ok (decode_direct_bits d n acc).
Proof.
  induction n as [|k IH]; intros d acc fuel Hr Hf.
  - destruct fuel as [|f]; [lia|]. cbn [direct_bits_loop Z.of_nat Z.leb Z.compare]. reflexivity.
  - destruct fuel as [|f]; [lia|]. cbn [direct_bits_loop].
    destruct (Z.leb_spec (Z.of_nat (S k)) 0); [lia|].
    rewrite ddb_S. unfold port_step, rdec_normalize.
    replace (Z.of_nat (S k) - 1) with (Z.of_nat k) by lia.
    unfold P2_24, P2_32 in *.
    destruct (Z.leb_spec 16777216 (rd_range d)); destruct (Z.ltb_spec (rd_range d) 16777216); try lia.
    + cbn [fst snd rd_range rd_code rd_in rd_over]. apply IH; [|lia].
      cbn [rd_range]. rewrite Z.shiftr_div_pow2 by lia. change (2 ^ 1) with 2. unfold P2_32. lia.
    + destruct f as [|f2]; [lia|].
      destruct (rdec_read d) as [b d1] eqn:Erd.
      assert (Hw : wrap32 (rd_range d * 256) = rd_range d * 256) by (unfold wrap32; apply Z.mod_small; lia).
      cbn [direct_bits_loop rd_range rd_code rd_in rd_over fst snd].
      destruct (Z.leb_spec (Z.of_nat (S k)) 0); [lia|].
      rewrite Hw. unfold P2_24. destruct (Z.leb_spec 16777216 (rd_range d * 256)); [|lia].
      replace (Z.of_nat (S k) - 1) with (Z.of_nat k) by lia.
      apply IH; [|lia]. cbn [rd_range]. rewrite Z.shiftr_div_pow2 by lia. change (2 ^ 1) with 2. unfold P2_32. lia.
Qed.

(* For every state whose range is at least 2^16 - decode_bit leaves range >= 2^13 * 31 * ... in
   fact >= 2^24 >> 11 * 31 after its own normalize, and direct bits leave >= 2^23 - the loop in the
   Rust source computes exactly the per-bit function of Codec/Range.v within 5*count+1 steps. *)
Theorem direct_bits_loop_eq : forall buf pos range code count,
  65536 <= range < P2_32 -> 0 <= count ->
  direct_bits_rust_loop buf pos range code count = Ok (direct_bits_portable buf pos range code count).
Proof.
  intros buf pos range code count Hr Hc. unfold direct_bits_rust_loop, direct_bits_portable.
  rewrite <- (Z2Nat.id count Hc) at 2.
  rewrite direct_bits_loop_eq_gen by (cbn [rdec_of_buf rd_range]; lia).
  cbn [obind]. destruct (decode_direct_bits _ _ _) as [v d]. reflexivity.
Qed.

(* C14 (F18, after the repair): in every state a decoder can be in (range >= 2^16 is an invariant:
   decode_bit leaves range >= 2^13 * 31 and direct bits leave range >= 2^23, see
   [direct_bits_loop_eq]; code, pos, count and the buffer are arbitrary - valid or corrupt input,
   inside, at or beyond the end of the chunk) the dispatching decode_direct_bits computes the
   per-bit function of Codec/Range.v in BOTH feature configurations: the assembly is only a
   faster way to compute it, and the portable loop alone defines what happens at the end of
   the buffer. *)
Theorem direct_bits_dispatch_eq : forall opt buf pos range code count,
  0 <= pos -> zlen buf < P2_63 -> 65536 <= range < P2_32 -> 0 <= count ->
  direct_bits_dispatch opt buf pos range code count = Ok (direct_bits_portable buf pos range code count).
Proof.
  intros opt buf pos range code count Hp Hlen Hr Hc. unfold direct_bits_dispatch.
  destruct opt; cbn [andb]; [|apply direct_bits_loop_eq; assumption].
  destruct (Z.ltb_spec 0 count); cbn [andb]; [|apply direct_bits_loop_eq; assumption].
  destruct (Z.leb_spec count (Z.max 0 (zlen buf - pos))); [|apply direct_bits_loop_eq; assumption].
  apply direct_bits_twins; lia.
Qed.

Corollary direct_bits_configurations_agree : forall buf pos range code count,
  0 <= pos -> zlen buf < P2_63 -> 65536 <= range < P2_32 -> 0 <= count ->
  direct_bits_dispatch true buf pos range code count = direct_bits_dispatch false buf pos range code count.
Proof. intros. rewrite !direct_bits_dispatch_eq by assumption. reflexivity. Qed.

(* The hypothesis on range is needed: for range < 2^16 (never reached by a decoder) the loop in
   the Rust source normalises more than once per bit, the assembly exactly once. *)
Theorem direct_bits_small_range_diverges :
  exists buf pos range code count,
    0 <= pos /\ pos + count <= zlen buf /\ 0 < range < 65536 /\ 1 <= count /\
    (direct_bits_dispatch true buf pos range code count <> direct_bits_dispatch false buf pos range code count).
Proof.
  exists [0; 0; 0; 0], 0, 1, 0, 1. split; [lia|]. split; [vm_compute; discriminate|]. split; [lia|]. split; [lia|].
  vm_compute. intro H. discriminate H.
Qed.

(* ---- aarch64 (modelled only) ----------------------------------------------------------------- *)
(* The aarch64 assembly selects on the carry flag (code >= range, unsigned), the portable loop and
   the x86-64 assembly on the sign bit of code - range.  They differ as soon as
   code - range >= 2^31, e.g. two direct bits from the valid state range = 2^25-1,
   code = range-1 with next byte 0x80, all inside the buffer. *)
Theorem direct_bits_aarch64_refuted :
  exists buf pos range code count,
    bytes_ok buf = true /\ 0 <= pos /\ pos + count <= zlen buf /\ 0 <= code < range /\ range < P2_32 /\ 1 <= count /\
    direct_bits_asm_aarch64 buf pos range code count <> Ok (direct_bits_portable buf pos range code count) /\
    direct_bits_asm buf pos range code count = Ok (direct_bits_portable buf pos range code count).
Proof.
  exists [128; 0], 0, 33554431, 33554430, 2.
  split; [reflexivity|]. split; [lia|]. split; [vm_compute; discriminate|].
  split; [lia|]. split; [reflexivity|]. split; [lia|].
  split; [vm_compute; intro H; discriminate H|vm_compute; reflexivity].
Qed.
