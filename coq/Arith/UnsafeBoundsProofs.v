(* Arith/UnsafeBoundsProofs.v — C15: the indices of the unchecked accesses stay inside the buffer
   under the stated preconditions; C14: the safe and unsafe twins return the same value. *)
From LzVerif Require Import Base.Bytes Arith.Normalize Arith.NormalizeProofs Arith.UnsafeBounds Arith.ExtendWordsProofs.
Ltac Zify.zify_post_hook ::= Z.div_mod_to_equations.

Lemma is_i32_true x : I32_MIN <= x <= I32_MAX -> is_i32 x = true.
Proof. intros H. apply is_i32_spec. exact H. Qed.

Lemma usize_of_i32_nonneg x : 0 <= x <= I32_MAX -> usize_of_i32 x = x.
Proof. unfold usize_of_i32, U64, I32_MAX. intros H. apply Z.mod_small. lia. Qed.

(* ---- extend_match: index arithmetic -------------------------------------------------------------- *)
(* Preconditions: the arguments are i32 values with 0 <= current_len <= limit, the position
   start1 = read_pos + current_len is inside the buffer, the candidate lies inside the buffer
   (distance <= start1: OWNED BY THE MATCH FINDERS, delta < cyclic_size <= retained history -
   assumed here, asserted at run time by hook H6), and - for the safe twin only - the caller's
   limit does not exceed the bytes available (read_pos + limit <= buf.len()).
   Conclusion: no arithmetic panic, both ranges lie inside [0, buf.len()], have the same length,
   and that length is min(limit - current_len, buf.len() - start1). *)
Theorem extend_match_bounds : forall checked opt len read_pos current_len distance limit,
  0 <= len < 2 ^ 63 ->
  0 <= read_pos -> 0 <= current_len <= limit -> limit <= I32_MAX ->
  read_pos + current_len <= I32_MAX -> read_pos + current_len <= len ->
  0 <= distance <= read_pos + current_len ->
  (opt = false -> read_pos + limit <= len) ->
  let start1 := read_pos + current_len in
  let ext := Z.min (limit - current_len) (len - start1) in
  extend_match_ranges checked opt len read_pos current_len distance limit
    = Ok (start1, start1 + ext, start1 - distance, start1 - distance + ext) /\
  range_in len start1 (start1 + ext) = true /\
  range_in len (start1 - distance) (start1 - distance + ext) = true.
Proof.
  intros checked opt len rp cl dist lim Hlen Hrp Hcl Hlim Hsum Hin Hd Hsafe start1 ext.
  change (2 ^ 63) with 9223372036854775808 in Hlen.
  unfold extend_match_ranges, i32_add, i32_sub.
  rewrite (is_i32_true (rp + cl)) by (unfold I32_MIN, I32_MAX in *; lia). cbn [obind].
  rewrite usize_of_i32_nonneg by lia. rewrite usize_of_i32_nonneg by (unfold I32_MAX in *; lia).
  unfold usize_sub. destruct (Z.leb_spec dist (rp + cl)); [|lia]. cbn [obind].
  rewrite (is_i32_true (lim - cl)) by (unfold I32_MIN, I32_MAX in *; lia). cbn [obind].
  rewrite usize_of_i32_nonneg by (unfold I32_MAX in *; lia).
  assert (He : (if opt then Z.min (lim - cl) (Z.max 0 (len - (rp + cl))) else lim - cl) = ext).
  { subst ext start1. destruct opt; [lia|]. specialize (Hsafe eq_refl). lia. }
  rewrite He. unfold usize_add, U64.
  assert (0 <= ext <= len) by (subst ext start1; lia).
  destruct (Z.ltb_spec (rp + cl + ext) 18446744073709551616); [|unfold I32_MAX in *; lia]. cbn [obind].
  destruct (Z.ltb_spec (rp + cl - dist + ext) 18446744073709551616); [|unfold I32_MAX in *; lia]. cbn [obind].
  subst start1. split; [reflexivity|]. unfold range_in.
  split; repeat (apply andb_true_iff; split); apply Z.leb_le; subst ext; lia.
Qed.

(* What happens when the match finder hands over a distance beyond the start of the buffer
   (distance > start1), all other preconditions kept: with overflow checks (debug) the usize
   subtraction panics; without them (release) start2 wraps to >= 2^64 - 2^31, so the safe twin
   panics on the slice index and the unsafe twin performs an out-of-bounds access. *)
Theorem extend_match_far_distance : forall opt buf read_pos current_len distance limit,
  zlen buf < 2 ^ 63 ->
  0 <= read_pos -> 0 <= current_len <= limit -> limit <= I32_MAX ->
  read_pos + current_len <= I32_MAX -> read_pos + current_len <= zlen buf ->
  read_pos + current_len < distance <= I32_MAX ->
  extend_match true opt buf read_pos current_len distance limit = Panic PANIC_ARITH /\
  extend_match false opt buf read_pos current_len distance limit
    = Panic (if opt then UB_OOB_ACCESS else PANIC_SLICE_INDEX).
Proof.
  intros opt buf rp cl dist lim Hlen Hrp Hcl Hlim Hsum Hin Hd.
  change (2 ^ 63) with 9223372036854775808 in Hlen.
  unfold extend_match, extend_match_ranges, i32_add, i32_sub.
  rewrite (is_i32_true (rp + cl)) by (unfold I32_MIN, I32_MAX in *; lia). cbn [obind].
  rewrite usize_of_i32_nonneg by lia. rewrite usize_of_i32_nonneg by (unfold I32_MAX in *; lia).
  unfold usize_sub. destruct (Z.leb_spec dist (rp + cl)); [lia|]. split; [reflexivity|]. cbn [obind].
  rewrite (is_i32_true (lim - cl)) by (unfold I32_MIN, I32_MAX in *; lia). cbn [obind].
  rewrite usize_of_i32_nonneg by (unfold I32_MAX in *; lia).
  set (ext := if opt then _ else _).
  assert (Hext : 0 <= ext <= I32_MAX) by (subst ext; destruct opt; unfold I32_MAX in *; lia).
  unfold usize_add, U64 in *.
  destruct (Z.ltb_spec (rp + cl + ext) 18446744073709551616); [|unfold I32_MAX in *; lia]. cbn [obind].
  assert (Hs2 : (rp + cl - dist) mod 18446744073709551616 = rp + cl - dist + 18446744073709551616).
  { symmetry. apply Z.mod_unique_pos with (q := -1); unfold I32_MAX in *; lia. }
  rewrite Hs2.
  assert (Hr : forall e2, range_in (zlen buf) (rp + cl - dist + 18446744073709551616) e2 = false).
  { intros e2. unfold range_in. destruct (Z.leb_spec (rp + cl - dist + 18446744073709551616) e2); cbn; rewrite ?andb_false_r; auto.
    destruct (Z.leb_spec e2 (zlen buf)); cbn; rewrite ?andb_false_r; auto. unfold I32_MAX in *; lia. }
  destruct (rp + cl - dist + 18446744073709551616 + ext <? 18446744073709551616); cbn [obind]; rewrite Hr, andb_false_r; reflexivity.
Qed.

(* ---- extend_match: result ---------------------------------------------------------------------------- *)
Lemma zlen_slice buf a b : 0 <= a <= b -> b <= zlen buf -> zlen (slice buf a b) = b - a.
Proof. unfold zlen, slice. intros H1 H2. rewrite firstn_length, skipn_length. lia. Qed.

Lemma bytes_ok_slice buf a b : bytes_ok buf = true -> bytes_ok (slice buf a b) = true.
Proof. intros H. unfold slice. apply bytes_ok_firstn, bytes_ok_skipn, H. Qed.

(* C14: under the preconditions of [extend_match_bounds] (safe-twin version) the function
   returns, in all four build flavours (overflow checks on/off x optimization on/off), without
   panic, current_len + the length of the common prefix of buf[start1 .. start1+ext) and
   buf[start2 .. start2+ext), ext = limit - current_len: word-at-a-time, byte-wise and clamped
   variants agree, and the result is bounded by the limit (hence by the buffer). *)
Theorem extend_match_twins : forall checked opt buf read_pos current_len distance limit,
  bytes_ok buf = true -> zlen buf < 2 ^ 63 ->
  0 <= read_pos -> 0 <= current_len <= limit -> limit <= I32_MAX ->
  read_pos + limit <= zlen buf -> read_pos + limit <= I32_MAX ->
  0 <= distance <= read_pos + current_len ->
  let start1 := read_pos + current_len in
  let ext := limit - current_len in
  let r := current_len + cpl (slice buf start1 (start1 + ext)) (slice buf (start1 - distance) (start1 - distance + ext)) in
  extend_match checked opt buf read_pos current_len distance limit = Ok r /\ current_len <= r <= limit.
Proof.
  intros checked opt buf rp cl dist lim Hb Hlen Hrp Hcl Hlim Hav Hav2 Hd start1 ext r.
  pose proof (extend_match_bounds checked opt (zlen buf) rp cl dist lim) as HB.
  assert (Hl0 : 0 <= zlen buf) by (unfold zlen; lia).
  specialize (HB ltac:(lia) Hrp Hcl Hlim ltac:(lia) ltac:(lia) Hd ltac:(intros; lia)).
  cbv zeta in HB. replace (Z.min (lim - cl) (zlen buf - (rp + cl))) with ext in HB by (subst ext; lia).
  destruct HB as (E & R1 & R2). unfold extend_match. rewrite E. cbn [obind]. rewrite R1, R2. cbn [andb].
  rewrite extend_match_safe_cpl by (apply bytes_ok_slice; exact Hb).
  fold start1. fold r.
  pose proof (cpl_nonneg (slice buf start1 (start1 + ext)) (slice buf (start1 - dist) (start1 - dist + ext))) as C0.
  pose proof (cpl_le_len (slice buf start1 (start1 + ext)) (slice buf (start1 - dist) (start1 - dist + ext))) as [C1 _].
  rewrite zlen_slice in C1 by (subst start1 ext; lia).
  set (c := cpl _ _) in *.
  assert (Hc : to_i32 c = c) by (apply to_i32_id; unfold I32_MIN, I32_MAX in *; subst ext; lia).
  rewrite Hc. unfold i32_add. rewrite is_i32_true by (unfold I32_MIN, I32_MAX in *; subst ext; lia).
  split; [reflexivity|]. subst r ext. lia.
Qed.

(* ---- get_match_len_fast_reject ------------------------------------------------------------------------ *)
(* C15: for a buffer of at least two bytes (LZEncoder::new: buf_size.checked_sub(2).unwrap()) BOTH
   clamped 2-byte reads lie inside the buffer, for EVERY read_pos and match_dist (any usize / i32),
   whenever the offsets are computed at all. *)
Theorem fast_reject_bounds : forall checked len read_pos match_dist c0 c1,
  2 <= len -> 0 <= read_pos ->
  fast_reject_offsets checked len read_pos match_dist = Ok (c0, c1) ->
  0 <= c0 /\ c0 + 2 <= len /\ 0 <= c1 /\ c1 + 2 <= len.
Proof.
  intros checked len rp md c0 c1 Hl Hr. unfold fast_reject_offsets, usize_sub, usize_of_i32, U64.
  destruct (Z.leb_spec (md mod 18446744073709551616) rp).
  - cbn [obind]. intros E. injection E as <- <-. lia.
  - destruct checked; cbn [obind]; [discriminate|]. intros E. injection E as <- <-. lia.
Qed.

(* read_pos < match_dist (a candidate before the start of the buffer): a panic with overflow
   checks; without them the back offset wraps to a huge value and is clamped to len - 2 - an
   in-bounds read of the wrong bytes (so a bogus "no reject" goes on to extend_match, see
   [extend_match_far_distance]). *)
Theorem fast_reject_far_distance : forall len read_pos match_dist,
  2 <= len < 2 ^ 63 -> 0 <= read_pos < match_dist -> match_dist <= I32_MAX ->
  fast_reject_offsets true len read_pos match_dist = Panic PANIC_ARITH /\
  fast_reject_offsets false len read_pos match_dist = Ok (Z.min read_pos (len - 2), len - 2).
Proof.
  intros len rp md Hl Hr Hm. change (2 ^ 63) with 9223372036854775808 in Hl.
  unfold fast_reject_offsets, usize_sub. rewrite usize_of_i32_nonneg by lia.
  destruct (Z.leb_spec md rp); [lia|]. split; [reflexivity|]. cbn [obind]. unfold U64.
  assert (Hs : (rp - md) mod 18446744073709551616 = rp - md + 18446744073709551616).
  { symmetry. apply Z.mod_unique_pos with (q := -1); unfold I32_MAX in *; lia. }
  rewrite Hs. f_equal. f_equal. unfold I32_MAX in *. lia.
Qed.

Lemma read_u16_some buf c : 0 <= c -> c + 2 <= zlen buf -> exists x y, read_u16 buf c = Some (x, y) /\ zth buf c = Some x /\ zth buf (c + 1) = Some y.
Proof.
  intros H0 H1. destruct (zth_some buf c ltac:(lia)) as (x & Ex). destruct (zth_some buf (c + 1) ltac:(lia)) as (y & Ey).
  exists x, y. unfold read_u16. rewrite Ex, Ey. auto.
Qed.

(* C14: with the candidate inside the buffer and two bytes available the clamps are the identity
   and the unsafe 2-byte comparison equals the four checked byte reads. *)
Theorem fast_reject_twins : forall checked buf read_pos match_dist,
  zlen buf < 2 ^ 63 -> 0 <= match_dist <= read_pos -> match_dist <= I32_MAX -> read_pos + 2 <= zlen buf ->
  exists r, fast_reject checked true buf read_pos match_dist = Ok r /\
            fast_reject checked false buf read_pos match_dist = Ok r.
Proof.
  intros checked buf rp md Hlen Hm Hm2 Hr. change (2 ^ 63) with 9223372036854775808 in Hlen.
  unfold fast_reject, fast_reject_offsets, usize_sub. rewrite usize_of_i32_nonneg by lia.
  destruct (Z.leb_spec md rp); [|lia]. destruct (Z.leb_spec md (rp + 1)); [|lia]. cbn [obind fst snd].
  replace (Z.min rp (zlen buf - 2)) with rp by lia. replace (Z.min (rp - md) (zlen buf - 2)) with (rp - md) by lia.
  destruct (read_u16_some buf rp ltac:(lia) ltac:(lia)) as (x0 & x1 & E1 & Ex0 & Ex1).
  destruct (read_u16_some buf (rp - md) ltac:(lia) ltac:(lia)) as (y0 & y1 & E2 & Ey0 & Ey1).
  rewrite E1, E2, Ex0, Ey0. replace (rp + 1 - md) with (rp - md + 1) by lia. rewrite Ex1, Ey1.
  destruct (x0 =? y0); cbn [negb andb]; eexists; split; reflexivity.
Qed.

(* ---- AlignedMemoryI32::new ------------------------------------------------------------------------------ *)
(* For 1 <= min_length < 2^60 (the callers pass dict_size + 1, 2 * (dict_size + 1), 2^10, 2^16 and
   hash4_size <= 2^25) no step panics, the layout is valid and non-empty (alloc_zeroed must not
   be called with size 0), the size is a multiple of the 64-byte alignment, the slice handed
   out (target_length i32s) covers exactly the allocation and has at least min_length entries. *)
Theorem aligned_alloc_ok : forall checked min_length,
  1 <= min_length < 2 ^ 60 ->
  exists required target_length,
    aligned_alloc checked min_length = Ok (required, target_length) /\
    required mod 64 = 0 /\ 64 <= required <= ISIZE_MAX - 63 /\
    4 * min_length <= required < 4 * min_length + 64 /\
    target_length * 4 = required /\ min_length <= target_length.
Proof.
  intros checked n Hn. change (2 ^ 60) with 1152921504606846976 in Hn.
  unfold aligned_alloc, usize_mul, U64, ISIZE_MAX.
  destruct (Z.ltb_spec (n * 4) 18446744073709551616); [|lia]. cbn [obind].
  set (units := if 0 <? n * 4 mod 64 then n * 4 / 64 + 1 else n * 4 / 64).
  assert (Hu : 64 * units - 64 < n * 4 <= 64 * units) by (subst units; destruct (Z.ltb_spec 0 (n * 4 mod 64)); lia).
  destruct (Z.ltb_spec (units * 64) 18446744073709551616); [|lia]. cbn [obind].
  destruct (Z.ltb_spec (9223372036854775807 - 63) (units * 64)); [lia|].
  exists (units * 64), (units * 64 / 4). split; [reflexivity|]. lia.
Qed.
