(* Arith/UnsafeBounds.v — index arithmetic of the unsafe fast paths of the encoder's LZ layer:
     src/lz/mod.rs            extend_match (safe slices vs get_unchecked with the physical_extension
                              clamp), extend_match_safe (word-at-a-time / byte-wise)
     src/lz/lz_encoder.rs     get_match_len_fast_reject (two clamped unaligned u16 reads vs four
                              checked byte reads)
     src/lz/aligned_memory.rs AlignedMemoryI32::new (size / alignment arithmetic)
   usize values are Z in [0, 2^64), i32 values Z in [-2^31, 2^31).  [checked] = the build has
   overflow checks (debug / the harness' "checked" profile): arithmetic overflow is a panic;
   otherwise it wraps.  [opt] = feature "optimization".  An access outside the buffer is a panic
   in safe code (slice index) and undefined behaviour in the unsafe twin: the model reports the
   latter as [Panic UB_OOB_ACCESS] so that the theorems can exclude it.  Definitions only. *)
From LzVerif Require Export Base.Bytes Arith.Normalize.

Definition U64 : Z := 18446744073709551616.
Definition PANIC_ARITH : Z := 1431.        (* attempt to add/subtract/multiply with overflow *)
Definition PANIC_SLICE_INDEX : Z := 1432.  (* range start/end index out of range for slice *)
Definition UB_OOB_ACCESS : Z := 1433.      (* unchecked access outside the buffer: undefined behaviour *)
Definition PANIC_LAYOUT : Z := 1434.       (* Layout::from_size_align(..).expect("invalid layout") *)

Definition i32_add (checked : bool) (a b : Z) : outcome Z :=
  let r := a + b in if is_i32 r then Ok r else if checked then Panic PANIC_ARITH else Ok (to_i32 r).
Definition i32_sub (checked : bool) (a b : Z) : outcome Z :=
  let r := a - b in if is_i32 r then Ok r else if checked then Panic PANIC_ARITH else Ok (to_i32 r).
(* `x as usize` for an i32: sign extension, then reinterpretation *)
Definition usize_of_i32 (x : Z) : Z := x mod U64.
Definition usize_add (checked : bool) (a b : Z) : outcome Z :=
  let r := a + b in if r <? U64 then Ok r else if checked then Panic PANIC_ARITH else Ok (r mod U64).
Definition usize_sub (checked : bool) (a b : Z) : outcome Z :=
  if b <=? a then Ok (a - b) else if checked then Panic PANIC_ARITH else Ok ((a - b) mod U64).
Definition usize_mul (checked : bool) (a b : Z) : outcome Z :=
  let r := a * b in if r <? U64 then Ok r else if checked then Panic PANIC_ARITH else Ok (r mod U64).

(* ---- extend_match_safe ----------------------------------------------------------------------- *)
(* specification: length of the common prefix (the byte-wise tail loop on its own) *)
Fixpoint cpl (a b : list Z) : Z :=
  match a, b with
  | x :: a', y :: b' => if x =? y then 1 + cpl a' b' else 0
  | _, _ => 0
  end.

(* u64::trailing_zeros (64 for 0) *)
Fixpoint tz_fuel (fuel : nat) (x : Z) : Z :=
  match fuel with
  | O => 0
  | S f => if Z.odd x then 0 else 1 + tz_fuel f (x / 2)
  end.
Definition trailing_zeros64 (x : Z) : Z := tz_fuel 64 x.

(* both variants of extend_match_safe (safe indexing / raw pointers: same control flow) on a
   little-endian target: while 8 bytes are left in both, compare usize::from_ne_bytes words;
   on a difference return matched + trailing_zeros(w1 ^ w2) / 8; then the byte loop. *)
Fixpoint em_words (fuel : nat) (a b : list Z) (matched : Z) : Z :=
  match fuel with
  | O => matched + cpl a b
  | S f =>
      if (8 <=? zlen a) && (8 <=? zlen b) then
        let w1 := le_value (firstn 8 a) in
        let w2 := le_value (firstn 8 b) in
        if w1 =? w2 then em_words f (skipn 8 a) (skipn 8 b) (matched + 8)
        else matched + trailing_zeros64 (Z.lxor w1 w2) / 8
      else matched + cpl a b
  end.
Definition extend_match_safe (a b : list Z) : Z := em_words (length a) a b 0.

(* ---- extend_match ------------------------------------------------------------------------------ *)
Definition slice (buf : list Z) (a b : Z) : list Z := firstn (Z.to_nat (b - a)) (skipn (Z.to_nat a) buf).

(* the two ranges (start1, end1, start2, end2) the function is about to access *)
Definition extend_match_ranges (checked opt : bool) (len read_pos current_len distance limit : Z)
  : outcome (Z * Z * Z * Z) :=
  do sum <- i32_add checked read_pos current_len;
  let start1 := usize_of_i32 sum in
  do start2 <- usize_sub checked start1 (usize_of_i32 distance);
  do diff <- i32_sub checked limit current_len;
  let logical := usize_of_i32 diff in
  (* optimization: physical_extension = buf.len().saturating_sub(start1); min *)
  let ext := if opt then Z.min logical (Z.max 0 (len - start1)) else logical in
  do end1 <- usize_add checked start1 ext;
  do end2 <- usize_add checked start2 ext;
  Ok (start1, end1, start2, end2).

Definition range_in (len a b : Z) : bool := (0 <=? a) && (a <=? b) && (b <=? len).

Definition extend_match (checked opt : bool) (buf : list Z) (read_pos current_len distance limit : Z) : outcome Z :=
  do r <- extend_match_ranges checked opt (zlen buf) read_pos current_len distance limit;
  let '(start1, end1, start2, end2) := r in
  if range_in (zlen buf) start1 end1 && range_in (zlen buf) start2 end2 then
    let e := extend_match_safe (slice buf start1 end1) (slice buf start2 end2) in
    i32_add checked current_len (to_i32 e)
  else Panic (if opt then UB_OOB_ACCESS else PANIC_SLICE_INDEX).

(* ---- get_match_len_fast_reject: the rejection test (true = "return 0") ------------------------- *)
(* the byte offsets the unsafe twin reads: [c0, c0+2) and [c1, c1+2) *)
Definition fast_reject_offsets (checked : bool) (len read_pos match_dist : Z) : outcome (Z * Z) :=
  let limit_u16 := len - 2 in                       (* buf_limit_u16 = buf_size - 2, buf_size >= 2 *)
  do back <- usize_sub checked read_pos (usize_of_i32 match_dist);
  Ok (Z.min read_pos limit_u16, Z.min back limit_u16).

Definition read_u16 (buf : list Z) (c : Z) : option (Z * Z) :=
  match zth buf c, zth buf (c + 1) with
  | Some x, Some y => Some (x, y)
  | _, _ => None
  end.

Definition fast_reject (checked opt : bool) (buf : list Z) (read_pos match_dist : Z) : outcome bool :=
  if opt then
    do cs <- fast_reject_offsets checked (zlen buf) read_pos match_dist;
    match read_u16 buf (fst cs), read_u16 buf (snd cs) with
    | Some (x0, x1), Some (y0, y1) => Ok (negb ((x0 =? y0) && (x1 =? y1)))
    | _, _ => Panic UB_OOB_ACCESS
    end
  else
    (* buf[read_pos] != buf[read_pos - md] || buf[read_pos + 1] != buf[read_pos + 1 - md] *)
    do back <- usize_sub checked read_pos (usize_of_i32 match_dist);
    match zth buf read_pos, zth buf back with
    | Some x0, Some y0 =>
        if negb (x0 =? y0) then Ok true else
        do back1 <- usize_sub checked (read_pos + 1) (usize_of_i32 match_dist);
        match zth buf (read_pos + 1), zth buf back1 with
        | Some x1, Some y1 => Ok (negb (x1 =? y1))
        | _, _ => Panic PANIC_SLICE_INDEX
        end
    | _, _ => Panic PANIC_SLICE_INDEX
    end.

(* ---- AlignedMemoryI32::new(min_length) ----------------------------------------------------------
   returns (required_bytes, target_length); the memory comes from alloc_zeroed(layout) with
   layout = (required_bytes, align 64).  Layout::from_size_align fails when the size rounded up
   to the alignment exceeds isize::MAX. *)
Definition ISIZE_MAX : Z := 9223372036854775807.
Definition aligned_alloc (checked : bool) (min_length : Z) : outcome (Z * Z) :=
  do bytes <- usize_mul checked min_length 4;
  let units := if 0 <? bytes mod 64 then bytes / 64 + 1 else bytes / 64 in     (* div_ceil *)
  do required <- usize_mul checked units 64;
  if ISIZE_MAX - 63 <? required then Panic PANIC_LAYOUT else
  Ok (required, required / 4).

(* LZEncoderData::get_match_len_fast_reject::<2>(dist, len_limit):
     match_dist = dist + 1; if rejected return 0; extend_match(buf, read_pos, 2, match_dist, len_limit) *)
Definition match_len_fast_reject (checked opt : bool) (buf : list Z) (read_pos dist len_limit : Z) : outcome Z :=
  do md <- i32_add checked dist 1;
  do rej <- fast_reject checked opt buf (usize_of_i32 read_pos) md;
  if rej then Ok 0 else extend_match checked opt buf read_pos 2 md len_limit.
