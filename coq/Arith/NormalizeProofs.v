(* Arith/NormalizeProofs.v — scalar, SIMD and dispatching renormalisation agree with the XZ for Java
   rule on the whole domain the callers use; the historical saturating_sub variant is refuted. *)
From LzVerif Require Import Base.Bytes Arith.Normalize.
Ltac Zify.zify_post_hook ::= Z.div_mod_to_equations.

Lemma is_i32_spec x : is_i32 x = true <-> I32_MIN <= x <= I32_MAX.
Proof. unfold is_i32. rewrite andb_true_iff, !Z.leb_le. tauto. Qed.

Lemma to_i32_id x : I32_MIN <= x <= I32_MAX -> to_i32 x = x.
Proof. unfold to_i32, I32_MIN, I32_MAX. intros H. rewrite Z.mod_small by lia. lia. Qed.

(* ---- one entry ---------------------------------------------------------------------------- *)
Lemma norm_spec_range off p :
  0 <= off <= I32_MAX -> is_i32 p = true -> 0 <= norm_spec off p <= I32_MAX /\ norm_spec off p = Z.max p off - off.
Proof.
  intros Hoff Hp. apply is_i32_spec in Hp. unfold norm_spec, I32_MIN, I32_MAX in *.
  destruct (Z.leb_spec p off); lia.
Qed.

Lemma norm_twins_lane off p :
  0 <= off <= I32_MAX -> is_i32 p = true ->
  norm_scalar off p = Ok (norm_spec off p) /\ norm_simd off p = norm_spec off p.
Proof.
  intros Hoff Hp. destruct (norm_spec_range off p Hoff Hp) as [Hr He].
  unfold norm_scalar, norm_simd. rewrite <- He.
  assert (Hi : is_i32 (norm_spec off p) = true) by (apply is_i32_spec; unfold I32_MIN, I32_MAX in *; lia).
  rewrite Hi. split; [reflexivity|]. apply to_i32_id. unfold I32_MIN, I32_MAX in *; lia.
Qed.

(* ---- arrays ------------------------------------------------------------------------------- *)
Lemma omap_outcome_ok {A B} (f : A -> outcome B) (g : A -> B) l :
  (forall x, In x l -> f x = Ok (g x)) -> omap_outcome f l = Ok (map g l).
Proof.
  induction l as [|x t IH]; intros H; cbn [omap_outcome map]; [reflexivity|].
  rewrite (H x (or_introl eq_refl)). cbn [obind]. rewrite IH by (intros y Hy; apply H; right; exact Hy).
  reflexivity.
Qed.

Lemma forallb_firstn {A} (f : A -> bool) n l : forallb f l = true -> forallb f (firstn n l) = true.
Proof.
  revert n; induction l as [|x t IH]; intros [|n] H; cbn in *; auto.
  apply andb_true_iff in H as [Hx Ht]. rewrite Hx, IH; auto.
Qed.

Lemma forallb_skipn {A} (f : A -> bool) n l : forallb f l = true -> forallb f (skipn n l) = true.
Proof.
  revert n; induction l as [|x t IH]; intros [|n] H; cbn in *; auto.
  apply andb_true_iff in H as [Hx Ht]. auto.
Qed.

Lemma normalize_scalar_spec l off :
  0 <= off <= I32_MAX -> forallb is_i32 l = true -> normalize_scalar l off = Ok (normalize_spec l off).
Proof.
  intros Hoff Hl. unfold normalize_scalar, normalize_spec. apply omap_outcome_ok.
  intros x Hx. rewrite forallb_forall in Hl. apply (norm_twins_lane off x Hoff (Hl x Hx)).
Qed.

Lemma map_simd_spec l off :
  0 <= off <= I32_MAX -> forallb is_i32 l = true -> map (norm_simd off) l = map (norm_spec off) l.
Proof.
  intros Hoff Hl. apply map_ext_in. intros x Hx. rewrite forallb_forall in Hl.
  apply (norm_twins_lane off x Hoff (Hl x Hx)).
Qed.

Lemma normalize_split_spec lanes pre l off :
  0 <= off <= I32_MAX -> forallb is_i32 l = true ->
  normalize_split normalize_scalar lanes pre l off = Ok (normalize_spec l off).
Proof.
  intros Hoff Hl. unfold normalize_split.
  set (n1 := Z.to_nat (Z.min (Z.max pre 0) (zlen l))).
  set (n2 := Z.to_nat _).
  rewrite (normalize_scalar_spec (firstn n1 l)) by (auto using forallb_firstn). cbn [obind].
  rewrite (normalize_scalar_spec (skipn n2 (skipn n1 l))) by (auto using forallb_skipn). cbn [obind].
  rewrite map_simd_spec by (auto using forallb_firstn, forallb_skipn).
  unfold normalize_spec. rewrite <- !map_app. rewrite (firstn_skipn n2), (firstn_skipn n1). reflexivity.
Qed.

(* C14: on every i32 array and every offset 0 <= off <= i32::MAX (the callers pass
   off = 0x7FFFFFFF - cyclic_size with 1 <= cyclic_size, see [norm_offset_of_range]) the scalar
   function, the SIMD variants with ANY alignment split and lane count, and hence the dispatching
   LZEncoder::normalize under every feature configuration, return the XZ for Java result, without
   a panic. *)
Theorem normalize_twins : forall simd lanes pre l off,
  0 <= off <= I32_MAX -> forallb is_i32 l = true ->
  normalize_dispatch simd lanes pre l off = Ok (normalize_spec l off).
Proof.
  intros simd lanes pre l off Hoff Hl. unfold normalize_dispatch. destruct simd.
  - apply normalize_split_spec; assumption.
  - apply normalize_scalar_spec; assumption.
Qed.

Lemma norm_offset_of_range cyc : 1 <= cyc <= I32_MAX -> 0 <= norm_offset_of cyc <= I32_MAX.
Proof. unfold norm_offset_of, I32_MAX. lia. Qed.

(* Outside that domain (negative offsets, which no caller produces) the lanes wrap where the
   checked scalar subtraction panics: the domain of the twins theorem is exact in this sense. *)
Theorem normalize_negative_offset_diverges :
  exists off p, off < 0 /\ is_i32 off = true /\ is_i32 p = true /\
    norm_scalar off p = Panic PANIC_NORM_OVERFLOW /\ norm_simd off p = I32_MIN.
Proof.
  exists (-1), I32_MAX. vm_compute.
  split; [reflexivity|]. split; [reflexivity|]. split; [reflexivity|]. split; reflexivity.
Qed.

(* What the rule means for the match finders: at the renormalisation (lz_pos = i32::MAX,
   off = i32::MAX - cyclic_size) an entry inside the window keeps its distance to lz_pos, every
   older entry becomes 0 = "empty", and an empty entry is never followed afterwards. *)
Theorem normalize_keeps_window : forall cyc p,
  1 <= cyc <= I32_MAX -> I32_MIN <= p <= I32_MAX ->
  let off := norm_offset_of cyc in
  (I32_MAX - p < cyc -> cyc - norm_spec off p = I32_MAX - p) /\
  (cyc <= I32_MAX - p -> norm_spec off p = 0) /\
  (forall lz_pos, cyc <= lz_pos <= I32_MAX -> candidate_followed cyc lz_pos 0 = false).
Proof.
  intros cyc p Hc Hp off. subst off. unfold norm_offset_of, norm_spec, I32_MAX, I32_MIN in *.
  repeat split.
  - intros Hin. destruct (Z.leb_spec p (2147483647 - cyc)); lia.
  - intros Hout. destruct (Z.leb_spec p (2147483647 - cyc)); lia.
  - intros lz Hlz. unfold candidate_followed, delta_wrapping. rewrite Z.sub_0_r.
    rewrite to_i32_id by (unfold I32_MIN, I32_MAX; lia). apply Z.ltb_ge. lia.
Qed.

(* ---- the historical scalar function -------------------------------------------------------- *)

(* (a) scalar and SIMD builds leave different tables, (b) inside one SIMD build the unaligned
   prefix differs from the aligned middle, (c) the stale entry left negative by saturating_sub is
   followed as a match candidate afterwards (delta wraps to a negative number < cyclic_size) where
   the rule of the format's reference implementation rejects it. *)
Theorem normalize_scalar_old_refuted :
  exists cyc l lz_pos,
    let off := norm_offset_of cyc in
    1 <= cyc <= I32_MAX /\ forallb is_i32 l = true /\ cyc <= lz_pos <= I32_MAX /\
    normalize_dispatch_old false 8 0 l off <> normalize_dispatch_old true 8 0 l off /\
    normalize_dispatch_old true 8 1 l off <> normalize_dispatch_old true 8 0 l off /\
    normalize_dispatch_old false 8 0 l off <> Ok (normalize_spec l off) /\
    (exists e, In e (normalize_scalar_old l off) /\ e < 0 /\ candidate_followed cyc lz_pos e = true) /\
    (forall e, In e (normalize_spec l off) -> candidate_followed cyc lz_pos e = false).
Proof.
  exists 4097, [0; 0; 0; 0; 0; 0; 0; 0; 0], 4098.
  cbv zeta.
  split; [vm_compute; split; discriminate|].
  split; [vm_compute; reflexivity|].
  split; [vm_compute; split; discriminate|].
  split; [vm_compute; intro H; discriminate H|].
  split; [vm_compute; intro H; discriminate H|].
  split; [vm_compute; intro H; discriminate H|].
  split.
  - exists (-2147479550). vm_compute. split; [left; reflexivity|]. split; reflexivity.
  - intros e H.
    assert (L : normalize_spec [0; 0; 0; 0; 0; 0; 0; 0; 0] (norm_offset_of 4097) = [0; 0; 0; 0; 0; 0; 0; 0; 0])
      by (vm_compute; reflexivity).
    rewrite L in H. clear L. cbn [In] in H.
    repeat (destruct H as [H|H]; [subst e; vm_compute; reflexivity|]). destruct H.
Qed.

(* After a second renormalisation the stale entry saturates at i32::MIN. *)
Theorem normalize_scalar_old_saturates :
  exists cyc, 1 <= cyc <= I32_MAX /\
    norm_scalar_old (norm_offset_of cyc) (norm_scalar_old (norm_offset_of cyc) 0) = I32_MIN /\
    norm_spec (norm_offset_of cyc) (norm_spec (norm_offset_of cyc) 0) = 0.
Proof. exists 4097. vm_compute. split; [split; discriminate|]. split; reflexivity. Qed.
