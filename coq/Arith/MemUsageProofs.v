(* Arith/MemUsageProofs.v — C17: the (repaired) estimators never overflow on the documented range,
   bound the allocation model from above and exceed it by a constant only; the limit check of
   LZMAReader::new_mem_limit precedes every allocation; the historical estimators are refuted. *)
From LzVerif Require Import Base.Bytes Arith.MemUsage.
Ltac Zify.zify_post_hook ::= Z.div_mod_to_equations.
Local Arguments Z.mul : simpl never.
Local Arguments Z.add : simpl never.
Local Arguments Z.sub : simpl never.
Local Arguments Z.div : simpl never.
Local Arguments Z.pow : simpl never.

(* ------------------------------------------------------------------------------------------- *)
(* u32 helpers                                                                                  *)
(* ------------------------------------------------------------------------------------------- *)
Lemma add32_ok ck a b : a + b < U32 -> add32 ck a b = Ok (a + b).
Proof. intros H. unfold add32. destruct (Z.ltb_spec (a + b) U32); [reflexivity | lia]. Qed.

Lemma sub32_ok ck a b : 0 <= a - b -> sub32 ck a b = Ok (a - b).
Proof. intros H. unfold sub32. destruct (Z.leb_spec 0 (a - b)); [reflexivity | lia]. Qed.

Lemma shl32_ok ck a s : 0 <= s < 32 -> 0 <= a * 2 ^ s < U32 -> shl32 ck a s = Ok (a * 2 ^ s).
Proof.
  intros Hs Hv. unfold shl32. destruct (Z.ltb_spec s 32); [|lia].
  rewrite Z.mod_small by exact Hv. reflexivity.
Qed.

Lemma lor_bound n a b : 0 <= n -> 0 <= a < 2 ^ n -> 0 <= b < 2 ^ n -> 0 <= Z.lor a b < 2 ^ n.
Proof.
  intros Hn Ha Hb. split; [apply Z.lor_nonneg; lia|].
  destruct (Z.eq_dec a 0) as [->|Ha0]; [rewrite Z.lor_0_l; lia|].
  destruct (Z.eq_dec b 0) as [->|Hb0]; [rewrite Z.lor_0_r; lia|].
  assert (Hl : 0 < Z.lor a b).
  { assert (0 <= Z.lor a b) by (apply Z.lor_nonneg; lia).
    assert (Z.lor a b <> 0) by (intro E; apply Z.lor_eq_0_iff in E; lia). lia. }
  apply Z.log2_lt_pow2; [exact Hl|].
  rewrite Z.log2_lor by lia.
  assert (Z.log2 a < n) by (apply Z.log2_lt_pow2; lia).
  assert (Z.log2 b < n) by (apply Z.log2_lt_pow2; lia). lia.
Qed.

Lemma shiftr_bound a k : 0 <= a -> 0 <= k -> 0 <= Z.shiftr a k <= a.
Proof.
  intros Ha Hk. rewrite Z.shiftr_div_pow2 by exact Hk.
  assert (0 < 2 ^ k) by (apply Z.pow_pos_nonneg; lia).
  split; [apply Z.div_pos; lia|]. apply Z.div_le_upper_bound; nia.
Qed.

Lemma land1_bound a : 0 <= Z.land a 1 <= 1.
Proof.
  change 1 with (Z.ones 1) at 1 2. rewrite Z.land_ones by lia.
  change (2 ^ 1) with 2. pose proof (Z.mod_pos_bound a 2 ltac:(lia)). lia.
Qed.

(* ------------------------------------------------------------------------------------------- *)
(* get_hash4_size, get_dist_slot                                                                *)
(* ------------------------------------------------------------------------------------------- *)
Definition hash4_closed (d : Z) : Z :=
  let h0 := d - 1 in
  let h1 := Z.lor h0 (Z.shiftr h0 1) in
  let h2 := Z.lor h1 (Z.shiftr h1 2) in
  let h3 := Z.lor h2 (Z.shiftr h2 4) in
  let h4 := Z.lor h3 (Z.shiftr h3 8) in
  let h5 := Z.shiftr h4 1 in
  let h6 := Z.lor h5 65535 in
  let h7 := if 16777216 <? h6 then Z.shiftr h6 1 else h6 in
  h7 + 1.

Lemma hash4_closed_bound d : 1 <= d < U32 -> 0 <= hash4_closed d <= 2147483648.
Proof.
  intros Hd. unfold hash4_closed.
  set (h0 := d - 1). assert (B0 : 0 <= h0 < 2 ^ 32) by (unfold h0, U32 in *; lia).
  set (h1 := Z.lor h0 (Z.shiftr h0 1)).
  assert (B1 : 0 <= h1 < 2 ^ 32).
  { apply lor_bound; [lia|exact B0|]. pose proof (shiftr_bound h0 1 ltac:(lia) ltac:(lia)). lia. }
  set (h2 := Z.lor h1 (Z.shiftr h1 2)).
  assert (B2 : 0 <= h2 < 2 ^ 32).
  { apply lor_bound; [lia|exact B1|]. pose proof (shiftr_bound h1 2 ltac:(lia) ltac:(lia)). lia. }
  set (h3 := Z.lor h2 (Z.shiftr h2 4)).
  assert (B3 : 0 <= h3 < 2 ^ 32).
  { apply lor_bound; [lia|exact B2|]. pose proof (shiftr_bound h2 4 ltac:(lia) ltac:(lia)). lia. }
  set (h4 := Z.lor h3 (Z.shiftr h3 8)).
  assert (B4 : 0 <= h4 < 2 ^ 32).
  { apply lor_bound; [lia|exact B3|]. pose proof (shiftr_bound h3 8 ltac:(lia) ltac:(lia)). lia. }
  set (h5 := Z.shiftr h4 1).
  assert (B5 : 0 <= h5 < 2 ^ 31).
  { unfold h5. rewrite Z.shiftr_div_pow2 by lia. change (2 ^ 1) with 2.
    change (2 ^ 32) with 4294967296 in B4. change (2 ^ 31) with 2147483648. lia. }
  set (h6 := Z.lor h5 65535).
  assert (B6 : 0 <= h6 < 2 ^ 31).
  { apply lor_bound; [lia|exact B5|]. change (2 ^ 31) with 2147483648. lia. }
  set (h7 := if 16777216 <? h6 then Z.shiftr h6 1 else h6).
  assert (B7 : 0 <= h7 < 2 ^ 31).
  { unfold h7. destruct (16777216 <? h6); [|exact B6].
    pose proof (shiftr_bound h6 1 ltac:(lia) ltac:(lia)). lia. }
  change (2 ^ 31) with 2147483648 in B7. lia.
Qed.

Lemma hash4_eq ck d : 1 <= d < U32 -> get_hash4_size ck d = Ok (hash4_closed d).
Proof.
  intros Hd. pose proof (hash4_closed_bound d Hd) as Hb.
  unfold get_hash4_size. rewrite sub32_ok by lia. cbn [obind].
  unfold hash4_closed in *. cbv zeta in *. apply add32_ok. unfold U32. lia.
Qed.

Lemma hash4_ok ck d : 1 <= d < U32 ->
  exists h, get_hash4_size ck d = Ok h /\ 0 <= h <= 2147483648.
Proof.
  intros Hd. exists (hash4_closed d). split; [apply hash4_eq; exact Hd | apply hash4_closed_bound; exact Hd].
Qed.

Lemma dist_slot_bound x : 0 <= get_dist_slot x <= 63 \/ x < 0.
Proof.
  destruct (Z.ltb_spec x 0) as [Hn|Hn]; [right; exact Hn|left].
  unfold get_dist_slot. destruct (Z.leb_spec x 4); [lia|].
  destruct (Z.land x 4294901760 =? 0).
  - destruct (Z.land (x * 65536 mod U32) 4278190080 =? 0);
      [set (n1 := ((x * 65536 mod U32) * 256) mod U32) | set (n1 := x * 65536 mod U32)];
      (destruct (Z.land n1 4026531840 =? 0); [set (n2 := (n1 * 16) mod U32) | set (n2 := n1)]);
      (destruct (Z.land n2 3221225472 =? 0); [set (n3 := (n2 * 4) mod U32) | set (n3 := n2)]);
      (destruct (Z.land n3 2147483648 =? 0));
      match goal with |- context [Z.land ?a 1] => pose proof (land1_bound a) end; lia.
  - destruct (Z.land x 4278190080 =? 0);
      [set (n1 := (x * 256) mod U32) | set (n1 := x)];
      (destruct (Z.land n1 4026531840 =? 0); [set (n2 := (n1 * 16) mod U32) | set (n2 := n1)]);
      (destruct (Z.land n2 3221225472 =? 0); [set (n3 := (n2 * 4) mod U32) | set (n3 := n2)]);
      (destruct (Z.land n3 2147483648 =? 0));
      match goal with |- context [Z.land ?a 1] => pose proof (land1_bound a) end; lia.
Qed.

(* ------------------------------------------------------------------------------------------- *)
(* The encoder estimator in closed form                                                         *)
(* ------------------------------------------------------------------------------------------- *)
Definition buf_ideal (d eb ea : Z) : Z := (eb + d) + (ea + 273) + Z.min (d / 2 + 262144) 536870912.

Definition mf_kib (mf : mf_type) (d h4 : Z) : Z :=
  ((66560 + h4) / 256 + 4) + (match mf with HC4 => d / 256 | BT4 => d / 128 end) + 10.

Definition est_ideal (p : enc_params) (h4 : Z) : Z :=
  let d := ep_dict p in
  let eb := get_extra_size_before d in
  70 + (80 + match ep_mode p with
             | Fast => buf_ideal d (eb + 1) 272 / 1024 + 10 + mf_kib (ep_mf p) d h4
             | Normal => buf_ideal d (eb + 4096) 4096 / 1024 + 10 + mf_kib (ep_mf p) d h4 + 256
             end)
  + literal_bytes (Z.min (ep_lc p) 8 + Z.min (ep_lp p) 4) / 1024.

Lemma esb_max d : get_extra_size_before d = Z.max 0 (65536 - d).
Proof. unfold get_extra_size_before, COMPRESSED_SIZE_MAX. destruct (Z.leb_spec 65536 d); lia. Qed.

Lemma literal_bytes_bound k : 0 <= k <= 12 -> 1536 <= literal_bytes k <= 6291456.
Proof.
  intros Hk. unfold literal_bytes.
  assert (1 <= 2 ^ k) by (pose proof (Z.pow_pos_nonneg 2 k ltac:(lia) ltac:(lia)); lia).
  assert (2 ^ k <= 2 ^ 12) by (apply Z.pow_le_mono_r; lia).
  change (2 ^ 12) with 4096 in *. lia.
Qed.

Ltac step := rewrite add32_ok by (unfold U32; lia); cbn [obind].

Lemma enc_estimate_closed ck p h4 :
  DICT_SIZE_MIN <= ep_dict p <= ENC_DICT_SIZE_MAX ->
  0 <= ep_lc p -> 0 <= ep_lp p ->
  get_hash4_size ck (ep_dict p) = Ok h4 -> 0 <= h4 <= 2147483648 ->
  enc_estimate ck p = Ok (est_ideal p h4).
Proof.
  unfold DICT_SIZE_MIN, ENC_DICT_SIZE_MAX. intros Hd Hlc Hlp Hh Hh4.
  destruct p as [d lc lp pb mode mf nice]; cbn [ep_dict ep_lc ep_lp ep_pb ep_mode ep_mf ep_nice] in *.
  pose proof (literal_bytes_bound (Z.min lc 8 + Z.min lp 4) ltac:(lia)) as HL.
  unfold enc_estimate, enc_estimate_gen, est_ideal, encoder_mem_gen, mode_mem_gen, lzenc_mem_gen,
    mf_mem_gen, hash234_mem_gen, get_buf_size, buf_ideal, mf_kib,
    HASH2_SIZE, HASH3_SIZE, MATCH_LEN_MAX, OPTS.
  cbn [ep_dict ep_lc ep_lp ep_pb ep_mode ep_mf ep_nice]. rewrite esb_max.
  set (L := literal_bytes (Z.min lc 8 + Z.min lp 4)) in *. clearbody L.
  change (4096 * 64 / 1024) with 256. change (273 - 1) with 272. change (1024 + 65536) with 66560.
  destruct mode; destruct mf;
    cbn [obind]; repeat step; rewrite Hh; cbn [obind]; repeat step;
    f_equal; lia.
Qed.

(* ------------------------------------------------------------------------------------------- *)
(* C17 encoder: no overflow, sound, tight                                                       *)
(* ------------------------------------------------------------------------------------------- *)
Lemma enc_params_ok_spec k p : enc_params_ok k p = true ->
  DICT_SIZE_MIN <= ep_dict p <= ENC_DICT_SIZE_MAX /\ 0 <= ep_lc p <= 8 /\ 0 <= ep_lp p <= 4 /\
  (k = KLzma2 -> ep_lc p + ep_lp p <= 4) /\ 0 <= ep_pb p <= 4 /\ 8 <= ep_nice p <= 273.
Proof.
  unfold enc_params_ok. intros H.
  repeat (apply andb_prop in H; destruct H as [H ?]).
  repeat match goal with
         | H : (_ <=? _) = true |- _ => apply Z.leb_le in H
         end.
  repeat split; try lia.
  intros ->. match goal with H : (_ <=? _) = true |- _ => apply Z.leb_le in H end. lia.
Qed.

Lemma ceil64_bound x : 0 <= x -> x <= ceil64 x <= x + 63.
Proof. intros Hx. unfold ceil64. lia. Qed.

Lemma pow2_cases pb : 0 <= pb <= 4 -> pb = 0 \/ pb = 1 \/ pb = 2 \/ pb = 3 \/ pb = 4.
Proof. lia. Qed.

(* The estimate, in both profiles, is the closed form: no panic (no u32 overflow) anywhere in the
   estimator over the documented option range. *)
Theorem enc_estimate_no_overflow : forall k p, enc_params_ok k p = true ->
  exists e, (forall ck, enc_estimate ck p = Ok e) /\ 0 <= e < U32.
Proof.
  intros k p Hok. destruct (enc_params_ok_spec k p Hok) as (Hd & Hlc & Hlp & _ & Hpb & Hn).
  unfold DICT_SIZE_MIN, ENC_DICT_SIZE_MAX in Hd.
  destruct (hash4_ok false (ep_dict p) ltac:(unfold U32; lia)) as (h4 & Hh & Hb).
  exists (est_ideal p h4). split.
  - intros ck. apply enc_estimate_closed; unfold DICT_SIZE_MIN, ENC_DICT_SIZE_MAX; try lia.
    rewrite hash4_eq in * by (unfold U32; lia). exact Hh.
  - pose proof (literal_bytes_bound (Z.min (ep_lc p) 8 + Z.min (ep_lp p) 4) ltac:(lia)) as HL.
    unfold est_ideal, buf_ideal, mf_kib, U32. rewrite esb_max.
    set (L := literal_bytes _) in *. clearbody L.
    destruct (ep_mode p); destruct (ep_mf p); lia.
Qed.

Lemma enc_bounds k p h4 :
  enc_params_ok k p = true -> get_hash4_size false (ep_dict p) = Ok h4 -> 0 <= h4 <= 2147483648 ->
  enc_alloc k p <= 1024 * est_ideal p h4 /\ 1024 * est_ideal p h4 <= enc_alloc k p + ENC_TIGHT_C.
Proof.
  intros Hok Hh Hb. destruct (enc_params_ok_spec k p Hok) as (Hd & Hlc & Hlp & Hk & Hpb & Hn).
  unfold DICT_SIZE_MIN, ENC_DICT_SIZE_MAX in Hd.
  destruct p as [d lc lp pb mode mf nice]; cbn [ep_dict ep_lc ep_lp ep_pb ep_mode ep_mf ep_nice] in *.
  unfold enc_alloc, est_ideal, ENC_TIGHT_C. cbn [ep_dict ep_lc ep_lp ep_pb ep_mode ep_mf ep_nice].
  replace (Z.min lc 8 + Z.min lp 4) with (lc + lp) by lia.
  pose proof (literal_bytes_bound (lc + lp) ltac:(lia)) as HL.
  set (L := literal_bytes (lc + lp)) in *. clearbody L.
  unfold hash_bytes, hash4_size_pure. rewrite Hh.
  unfold dist_slot_prices_bytes.
  destruct (dist_slot_bound (d - 1)) as [Hs|Hs]; [|lia].
  set (s := get_dist_slot (d - 1)) in *. clearbody s.
  unfold HASH2_SIZE, HASH3_SIZE. change (ceil64 (4 * 1024)) with 4096. change (ceil64 (4 * 65536)) with 262144.
  pose proof (ceil64_bound (4 * h4) ltac:(lia)) as C4.
  set (c4 := ceil64 (4 * h4)) in *. clearbody c4.
  unfold enc_buf_bytes, enc_extra_before, caller_extra_before, enc_extra_after, opts_bytes, matches_bytes,
    length_encoder_bytes, len_symbols, buf_ideal, mf_kib, mf_bytes,
    COMPRESSED_SIZE_MAX, MATCH_LEN_MAX, OPTS, SIZEOF_OPTIMUM, VEC_HEADER. rewrite esb_max.
  assert (Hp : 2 ^ pb = 1 \/ 2 ^ pb = 2 \/ 2 ^ pb = 4 \/ 2 ^ pb = 8 \/ 2 ^ pb = 16).
  { destruct (pow2_cases pb Hpb) as [->|[->|[->|[->| ->]]]]; cbn; auto. }
  set (P := 2 ^ pb) in *. clearbody P.
  destruct mf.
  - pose proof (ceil64_bound (4 * (d + 1)) ltac:(lia)) as CM.
    set (cm := ceil64 (4 * (d + 1))) in *. clearbody cm.
    destruct mode; destruct k;
      destruct Hp as [Hp|[Hp|[Hp|[Hp|Hp]]]]; rewrite Hp; split; lia.
  - pose proof (ceil64_bound (4 * (2 * (d + 1))) ltac:(lia)) as CM.
    set (cm := ceil64 (4 * (2 * (d + 1)))) in *. clearbody cm.
    destruct mode; destruct k;
      destruct Hp as [Hp|[Hp|[Hp|[Hp|Hp]]]]; rewrite Hp; split; lia.
Qed.

(* alloc <= 1024 * estimate *)
Theorem enc_estimate_sound : forall k p ck, enc_params_ok k p = true ->
  exists e, enc_estimate ck p = Ok e /\ enc_alloc k p <= 1024 * e.
Proof.
  intros k p ck Hok. destruct (enc_params_ok_spec k p Hok) as (Hd & Hlc & Hlp & _).
  unfold DICT_SIZE_MIN, ENC_DICT_SIZE_MAX in Hd.
  destruct (hash4_ok false (ep_dict p) ltac:(unfold U32; lia)) as (h4 & Hh & Hb).
  destruct (enc_estimate_no_overflow k p Hok) as (e & He & _).
  exists e. split; [apply He|].
  pose proof (He false) as E0.
  rewrite (enc_estimate_closed false p h4) in E0
    by (unfold DICT_SIZE_MIN, ENC_DICT_SIZE_MAX; auto; lia).
  injection E0 as <-. apply (enc_bounds k p h4 Hok Hh Hb).
Qed.

(* 1024 * estimate <= 1 * alloc + 320 KiB *)
Theorem enc_estimate_tight : forall k p ck, enc_params_ok k p = true ->
  exists e, enc_estimate ck p = Ok e /\ 1024 * e <= enc_alloc k p + ENC_TIGHT_C.
Proof.
  intros k p ck Hok. destruct (enc_params_ok_spec k p Hok) as (Hd & Hlc & Hlp & _).
  unfold DICT_SIZE_MIN, ENC_DICT_SIZE_MAX in Hd.
  destruct (hash4_ok false (ep_dict p) ltac:(unfold U32; lia)) as (h4 & Hh & Hb).
  destruct (enc_estimate_no_overflow k p Hok) as (e & He & _).
  exists e. split; [apply He|].
  pose proof (He false) as E0.
  rewrite (enc_estimate_closed false p h4) in E0
    by (unfold DICT_SIZE_MIN, ENC_DICT_SIZE_MAX; auto; lia).
  injection E0 as <-. apply (enc_bounds k p h4 Hok Hh Hb).
Qed.

(* the encoder never allocates less than ~800 KiB, so the additive constant is also a factor < 2 *)
Theorem enc_estimate_factor2 : forall k p ck, enc_params_ok k p = true ->
  exists e, enc_estimate ck p = Ok e /\ 1024 * e <= 2 * enc_alloc k p.
Proof.
  intros k p ck Hok. destruct (enc_estimate_tight k p ck Hok) as (e & He & Ht).
  exists e. split; [exact He|].
  destruct (enc_params_ok_spec k p Hok) as (Hd & Hlc & Hlp & Hk & Hpb & Hn).
  unfold DICT_SIZE_MIN, ENC_DICT_SIZE_MAX in Hd.
  assert (ENC_TIGHT_C <= enc_alloc k p); [|lia].
  unfold enc_alloc, ENC_TIGHT_C.
  destruct p as [d lc lp pb mode mf nice]; cbn [ep_dict ep_lc ep_lp ep_pb ep_mode ep_mf ep_nice] in *.
  pose proof (literal_bytes_bound (lc + lp) ltac:(lia)) as HL.
  destruct (dist_slot_bound (d - 1)) as [Hs|Hs]; [|lia].
  unfold dist_slot_prices_bytes, VEC_HEADER.
  assert (0 <= length_encoder_bytes pb nice).
  { unfold length_encoder_bytes, len_symbols, VEC_HEADER.
    pose proof (Z.pow_pos_nonneg 2 pb ltac:(lia) ltac:(lia)). nia. }
  assert (0 <= mf_bytes mf d) by (unfold mf_bytes, ceil64; destruct mf; lia).
  assert (0 <= opts_bytes mode) by (unfold opts_bytes, OPTS, SIZEOF_OPTIMUM; destruct mode; lia).
  assert (0 <= matches_bytes nice) by (unfold matches_bytes; lia).
  assert (4096 + 262144 <= hash_bytes d).
  { unfold hash_bytes, HASH2_SIZE, HASH3_SIZE.
    change (ceil64 (4 * 1024)) with 4096. change (ceil64 (4 * 65536)) with 262144.
    unfold hash4_size_pure.
    destruct (hash4_ok false d ltac:(unfold U32; lia)) as (h & -> & Hh).
    pose proof (ceil64_bound (4 * h) ltac:(lia)). lia. }
  assert (264192 <= enc_buf_bytes k mode d).
  { unfold enc_buf_bytes, enc_extra_before, caller_extra_before, enc_extra_after, MATCH_LEN_MAX, OPTS.
    rewrite esb_max. destruct mode; destruct k; lia. }
  unfold COMPRESSED_SIZE_MAX. destruct k; lia.
Qed.

(* Before the fix: the figure for preset 6 is 12 935 868 "KiB" for 97 283 913 bytes. *)
Theorem enc_estimate_old_refuted :
  exists p e, enc_params_ok KLzma2 p = true /\ enc_estimate_old true p = Ok e /\
              enc_estimate_old false p = Ok e /\ e = 12935868 /\ enc_alloc KLzma2 p = 97283913 /\
              ~ (1024 * e <= 100 * enc_alloc KLzma2 p + ENC_TIGHT_C).
Proof.
  exists {| ep_dict := 8388608; ep_lc := 3; ep_lp := 0; ep_pb := 2; ep_mode := Normal; ep_mf := BT4; ep_nice := 64 |}.
  exists 12935868. vm_compute. repeat split; try reflexivity. intro H; apply H; reflexivity.
Qed.

(* Before the fix, with the units corrected by hand (divide the window by 1024, add 10) the figure
   would still have been too small: the hash3 table (256 KiB) and, for LZMA, the literal tables
   were not counted.  Witness: LZMAWriter, lc = 8, lp = 4 (6 MiB of literal tables). *)
Definition enc_estimate_java_like (p : enc_params) : Z :=
  match get_hash4_size false (ep_dict p) with
  | Ok h4 => est_ideal p h4 - literal_bytes (Z.min (ep_lc p) 8 + Z.min (ep_lp p) 4) / 1024
  | _ => 0
  end.
Theorem enc_estimate_without_literal_term_refuted :
  exists p, enc_params_ok KLzma p = true /\ 1024 * enc_estimate_java_like p < enc_alloc KLzma p.
Proof.
  exists {| ep_dict := 4096; ep_lc := 8; ep_lp := 4; ep_pb := 4; ep_mode := Fast; ep_mf := HC4; ep_nice := 273 |}.
  vm_compute. split; reflexivity.
Qed.

(* LZMA2Writer with chunk_size: at a chunk restart two encoders coexist; the estimate does not
   cover that (known finding C17/lzma2-chunk-restart). *)
Theorem enc_restart_exceeds_estimate :
  exists p e, enc_params_ok KLzma2 p = true /\ enc_estimate true p = Ok e /\ 1024 * e < enc_alloc_restart p.
Proof.
  exists {| ep_dict := 4096; ep_lc := 3; ep_lp := 0; ep_pb := 2; ep_mode := Fast; ep_mf := HC4; ep_nice := 64 |}.
  exists 1040. vm_compute. repeat split; reflexivity.
Qed.

(* ------------------------------------------------------------------------------------------- *)
(* C17 decoders                                                                                 *)
(* ------------------------------------------------------------------------------------------- *)
Lemma and_not15_bound x : 0 <= x -> x - 15 <= and_not15 x <= x.
Proof. intros. unfold and_not15. lia. Qed.

Lemma lzma_dict_size_ok d : 0 <= d <= DICT_SIZE_MAX ->
  exists ds, lzma_dict_size d = Ok ds /\ Z.max d 4096 <= ds <= Z.max d 4096 + 15 /\ ds <= DICT_SIZE_MAX /\ ds mod 16 = 0.
Proof.
  unfold lzma_dict_size, DICT_SIZE_MAX, and_not15. intros Hd.
  destruct (Z.ltb_spec 4294967280 d); [lia|]. eexists. split; [reflexivity|]. lia.
Qed.

(* lzma_get_memory_usage: for every dict_size the decoder accepts and lc <= 8, lp <= 4 the estimator
   returns the same value in both profiles (no overflow). *)
Theorem dec_estimate_no_overflow : forall d lc lp, 0 <= d <= DICT_SIZE_MAX -> 0 <= lc <= 8 -> 0 <= lp <= 4 ->
  exists e, (forall ck, dec_estimate ck d lc lp = Ok e) /\ 0 <= e < U32 /\
            exists ds, lzma_dict_size d = Ok ds /\ e = 10 + ds / 1024 + literal_bytes (lc + lp) / 1024.
Proof.
  intros d lc lp Hd Hlc Hlp.
  destruct (lzma_dict_size_ok d Hd) as (ds & Eds & Hds & Hmax & _).
  pose proof (literal_bytes_bound (lc + lp) ltac:(lia)) as HL.
  exists (10 + ds / 1024 + literal_bytes (lc + lp) / 1024).
  unfold DICT_SIZE_MAX in *. split; [|split].
  - intros ck. unfold dec_estimate.
    destruct (Z.ltb_spec 8 lc); [lia|]. destruct (Z.ltb_spec 4 lp); [lia|]. cbn [orb].
    rewrite Eds. cbn [obind]. step. step.
    rewrite shl32_ok by (unfold literal_bytes, U32 in *; lia). cbn [obind].
    fold (literal_bytes (lc + lp)). step. reflexivity.
  - unfold U32. lia.
  - exists ds. split; [exact Eds | reflexivity].
Qed.

Lemma dec_window_le d us ds : 0 <= d <= DICT_SIZE_MAX -> 0 <= us -> lzma_dict_size d = Ok ds ->
  exists w, dec_window d us = Ok w /\ 4096 <= w <= ds /\ ((us <=? U64_HALF) && (us <? ds) = false -> w = ds).
Proof.
  intros Hd Hus Eds. destruct (lzma_dict_size_ok d Hd) as (ds' & Eds' & Hds & Hmax & Hmod).
  rewrite Eds in Eds'. injection Eds' as <-.
  unfold dec_window. rewrite Eds. cbn [obind].
  destruct ((us <=? U64_HALF) && (us <? ds)) eqn:Esh.
  - apply andb_prop in Esh. destruct Esh as [_ Hlt]. apply Z.ltb_lt in Hlt.
    assert (Hsm : us mod U32 = us) by (apply Z.mod_small; unfold U32, DICT_SIZE_MAX in *; lia).
    rewrite Hsm.
    destruct (lzma_dict_size_ok us ltac:(unfold DICT_SIZE_MAX in *; lia)) as (d2 & E2 & H2 & H2m & H2mod).
    rewrite E2. cbn [obind].
    destruct (lzma_dict_size_ok d2 ltac:(unfold DICT_SIZE_MAX in *; lia)) as (d3 & E3 & H3 & H3m & H3mod).
    rewrite E3. exists d3. split; [reflexivity|]. split; [|intro; discriminate].
    (* d2, d3: rounding an already rounded value changes nothing; d2 <= ds because ds is a multiple of 16 *)
    unfold lzma_dict_size, and_not15, DICT_SIZE_MAX in *.
    destruct (Z.ltb_spec 4294967280 us); [lia|]. destruct (Z.ltb_spec 4294967280 d2); [lia|].
    injection E2 as E2. injection E3 as E3. lia.
  - cbn [obind].
    destruct (lzma_dict_size_ok ds ltac:(unfold DICT_SIZE_MAX in *; lia)) as (d3 & E3 & H3 & H3m & H3mod).
    rewrite E3. exists d3.
    unfold lzma_dict_size, and_not15, DICT_SIZE_MAX in *.
    destruct (Z.ltb_spec 4294967280 ds); [lia|]. injection E3 as E3.
    split; [reflexivity|]. split; [lia|]. intros _. lia.
Qed.

(* soundness (every declared size) and tightness (declared size not below the dictionary, so the
   reader does not shrink its window) of lzma_get_memory_usage *)
Theorem dec_estimate_sound : forall d lc lp us ck,
  0 <= d <= DICT_SIZE_MAX -> 0 <= lc <= 8 -> 0 <= lp <= 4 -> 0 <= us ->
  exists e a, dec_estimate ck d lc lp = Ok e /\ dec_peak d lc lp us = Ok a /\ a <= 1024 * e.
Proof.
  intros d lc lp us ck Hd Hlc Hlp Hus.
  destruct (dec_estimate_no_overflow d lc lp Hd Hlc Hlp) as (e & He & _ & ds & Eds & ->).
  destruct (dec_window_le d us ds Hd Hus Eds) as (w & Ew & Hw & _).
  pose proof (literal_bytes_bound (lc + lp) ltac:(lia)) as HL.
  eexists. eexists. split; [apply He|]. split.
  - unfold dec_peak, dec_alloc. rewrite Ew. reflexivity.
  - unfold END_MARKER_ERROR_BYTES. destruct (us =? U64_MAX); lia.
Qed.

Theorem dec_estimate_tight : forall d lc lp us ck,
  0 <= d <= DICT_SIZE_MAX -> 0 <= lc <= 8 -> 0 <= lp <= 4 -> Z.max d 4096 + 15 <= us ->
  exists e a, dec_estimate ck d lc lp = Ok e /\ dec_peak d lc lp us = Ok a /\ 1024 * e <= a + DEC_TIGHT_C.
Proof.
  intros d lc lp us ck Hd Hlc Hlp Hus.
  destruct (dec_estimate_no_overflow d lc lp Hd Hlc Hlp) as (e & He & _ & ds & Eds & ->).
  destruct (lzma_dict_size_ok d Hd) as (ds' & Eds' & Hds & _). rewrite Eds in Eds'. injection Eds' as <-.
  destruct (dec_window_le d us ds Hd ltac:(lia) Eds) as (w & Ew & Hw & Heq).
  assert (w = ds).
  { apply Heq. destruct (Z.ltb_spec us ds); [lia|]. apply andb_false_r. }
  subst w. pose proof (literal_bytes_bound (lc + lp) ltac:(lia)) as HL.
  eexists. eexists. split; [apply He|]. split.
  - unfold dec_peak, dec_alloc. rewrite Ew. reflexivity.
  - unfold DEC_TIGHT_C, END_MARKER_ERROR_BYTES. destruct (us =? U64_MAX); lia.
Qed.

(* lzma_get_memory_usage_by_props agrees with lzma_get_memory_usage on the decoded lc/lp *)
Theorem dec_estimate_by_props_spec : forall ck d props, 0 <= d <= DICT_SIZE_MAX -> 0 <= props <= 224 ->
  let pr := props mod 45 in
  dec_estimate_by_props ck d props = dec_estimate ck d (pr - pr / 9 * 9) (pr / 9) /\
  0 <= pr - pr / 9 * 9 <= 8 /\ 0 <= pr / 9 <= 4.
Proof.
  intros ck d props Hd Hp pr. unfold dec_estimate_by_props, DICT_SIZE_MAX in *.
  destruct (Z.ltb_spec 4294967280 d); [lia|]. destruct (Z.ltb_spec 224 props); [lia|].
  split; [reflexivity|]. subst pr. lia.
Qed.

(* lzma2_get_memory_usage after the fix: total, no overflow for ANY u32 argument *)
Theorem dec2_estimate_no_overflow : forall d, 0 <= d < U32 ->
  exists e, (forall ck, dec2_estimate ck d = Ok e) /\ 0 <= e < U32 /\
            exists ds, lzma2_dict_size_gen false false d = Ok ds /\ e = 104 + ds / 1024 /\
                       Z.max 4096 (Z.min d DICT_SIZE_MAX) <= ds <= Z.max 4096 (Z.min d DICT_SIZE_MAX) + 15.
Proof.
  intros d Hd. unfold U32 in Hd.
  set (ds := and_not15 (Z.min (Z.max d DICT_SIZE_MIN) DICT_SIZE_MAX + 15)).
  assert (Hds : Z.max 4096 (Z.min d DICT_SIZE_MAX) <= ds <= Z.max 4096 (Z.min d DICT_SIZE_MAX) + 15).
  { unfold ds, and_not15, DICT_SIZE_MIN, DICT_SIZE_MAX. lia. }
  unfold DICT_SIZE_MAX in Hds.
  exists (104 + ds / 1024). split; [|split].
  - intros ck. unfold dec2_estimate, dec2_estimate_gen, lzma2_dict_size_gen. fold ds. cbn [obind].
    unfold COMPRESSED_SIZE_MAX. change (65536 / 1024) with 64. step. step. reflexivity.
  - unfold U32. lia.
  - exists ds. split; [reflexivity|]. split; [reflexivity|]. unfold DICT_SIZE_MAX. exact Hds.
Qed.

Theorem dec2_estimate_sound : forall d lclp nprops ck, 0 <= d < U32 -> 0 <= lclp <= 4 ->
  exists e a, dec2_estimate ck d = Ok e /\ dec2_alloc d lclp nprops = Ok a /\ a <= 1024 * e.
Proof.
  intros d lclp np ck Hd Hl.
  destruct (dec2_estimate_no_overflow d Hd) as (e & He & _ & ds & Eds & -> & Hds).
  pose proof (literal_bytes_bound lclp ltac:(lia)) as HL.
  assert (HL4 : literal_bytes lclp <= 24576).
  { unfold literal_bytes. assert (2 ^ lclp <= 2 ^ 4) by (apply Z.pow_le_mono_r; lia).
    change (2 ^ 4) with 16 in *. lia. }
  eexists. eexists. split; [apply He|]. unfold dec2_alloc, dec2_alloc_gen. rewrite Eds. cbn [obind].
  split; [reflexivity|]. unfold COMPRESSED_SIZE_MAX. cbn [andb].
  destruct (np <=? 0); lia.
Qed.

Theorem dec2_estimate_tight : forall d lclp nprops ck, 0 <= d < U32 -> 0 <= lclp <= 4 ->
  exists e a, dec2_estimate ck d = Ok e /\ dec2_alloc d lclp nprops = Ok a /\ 1024 * e <= a + DEC2_TIGHT_C.
Proof.
  intros d lclp np ck Hd Hl.
  destruct (dec2_estimate_no_overflow d Hd) as (e & He & _ & ds & Eds & -> & Hds).
  pose proof (literal_bytes_bound lclp ltac:(lia)) as HL.
  eexists. eexists. split; [apply He|]. unfold dec2_alloc, dec2_alloc_gen. rewrite Eds. cbn [obind].
  split; [reflexivity|]. unfold COMPRESSED_SIZE_MAX, DEC2_TIGHT_C. cbn [andb].
  destruct (np <=? 0); lia.
Qed.

(* Before the fix (F12): the rounding overflows for dict_size > 0xFFFFFFF0 - a panic with overflow
   checks, and a wrapped "104 KiB" without - and a second properties reset with lc + lp = 4 pushed
   the real peak above the estimate. *)
Theorem dec2_estimate_old_refuted :
  dec2_estimate_old true 4294967295 = Panic P_OVERFLOW /\
  dec2_estimate_old false 4294967295 = Ok 104 /\
  (exists e a, dec2_estimate_old true 4096 = Ok e /\ dec2_alloc_old 4096 4 2 = Ok a /\ 1024 * e < a).
Proof.
  split; [vm_compute; reflexivity|]. split; [vm_compute; reflexivity|].
  exists 108, 118779. vm_compute. repeat split; reflexivity.
Qed.

(* ------------------------------------------------------------------------------------------- *)
(* LZMAReader::new_mem_limit                                                                    *)
(* ------------------------------------------------------------------------------------------- *)
(* need > limit -> Err(OutOfMemory), and nothing has been allocated *)
Theorem mem_limit_enforced : forall ck props d us limit rest need,
  dec_estimate_by_props ck d props = Ok need -> limit < need ->
  new_mem_limit ck props d us limit rest = {| tr_allocs := []; tr_result := Err E_OUT_OF_MEMORY |}.
Proof.
  intros ck props d us limit rest need E Hl. unfold new_mem_limit. rewrite E.
  destruct (Z.ltb_spec limit need); [reflexivity | lia].
Qed.

(* the limit check (and every other check) precedes every allocation step: whenever the call does
   not succeed, its allocation trace is empty *)
Theorem mem_limit_check_precedes_allocation : forall ck props d us limit rest,
  (forall u, tr_result (new_mem_limit ck props d us limit rest) <> Ok u) ->
  tr_allocs (new_mem_limit ck props d us limit rest) = [].
Proof.
  intros ck props d us limit rest H. unfold new_mem_limit in *.
  destruct (dec_estimate_by_props ck d props); try reflexivity.
  destruct (limit <? a); [reflexivity|].
  destruct (224 <? props); [reflexivity|].
  destruct (DICT_SIZE_MAX <? d); [reflexivity|].
  destruct ((8 <? _) || (4 <? _) || (4 <? _)); [reflexivity|].
  destruct (dec_window d us); try reflexivity.
  destruct (range_decoder_new_stream rest) as [[]| | |]; try reflexivity.
  exfalso. apply (H tt). reflexivity.
Qed.

(* when the call succeeds, what it allocated is within the need, hence within the limit *)
Theorem mem_limit_success_within_limit : forall ck props d us limit rest,
  0 <= d < U32 -> 0 <= props < 256 -> 0 <= us ->
  tr_result (new_mem_limit ck props d us limit rest) = Ok tt ->
  exists need, dec_estimate_by_props ck d props = Ok need /\ need <= limit /\
               sumZ (tr_allocs (new_mem_limit ck props d us limit rest)) <= 1024 * need.
Proof.
  intros ck props d us limit rest Hd Hp Hus Hok. unfold new_mem_limit in *.
  destruct (dec_estimate_by_props ck d props) as [need| | |] eqn:En; try discriminate.
  exists need. split; [reflexivity|].
  destruct (Z.ltb_spec limit need); [discriminate|]. split; [lia|].
  destruct (Z.ltb_spec 224 props); [discriminate|].
  destruct (Z.ltb_spec DICT_SIZE_MAX d); [discriminate|].
  destruct (dec_estimate_by_props_spec ck d props ltac:(lia) ltac:(lia)) as (Espec & Hlc & Hlp).
  rewrite Espec in En.
  (* props <= 224: the lc/lp the constructor derives are the ones of the estimator *)
  assert (Hpb : props / 45 <= 4) by lia.
  assert (Hpr : props - props / 45 * 45 = props mod 45) by lia.
  rewrite Hpr in *.
  set (pr := props mod 45) in *.
  destruct ((8 <? pr - pr / 9 * 9) || (4 <? pr / 9) || (4 <? props / 45)); [discriminate|].
  destruct (dec_estimate_sound d (pr - pr / 9 * 9) (pr / 9) us ck ltac:(lia) Hlc Hlp Hus)
    as (e & a & Ee & Ea & Hle).
  rewrite En in Ee. injection Ee as <-.
  unfold dec_peak, dec_alloc in Ea.
  destruct (dec_window d us) as [w| | |]; try discriminate.
  destruct (range_decoder_new_stream rest) as [[]| | |]; try discriminate.
  cbn [tr_allocs sumZ fold_right]. cbn [obind] in Ea. injection Ea as <-.
  unfold END_MARKER_ERROR_BYTES in Hle. destruct (us =? U64_MAX); lia.
Qed.
