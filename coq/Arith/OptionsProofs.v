(* Arith/OptionsProofs.v — C19 at the level of option / constructor / index arithmetic:
   in-range options never panic and keep every table index inside its table; every out-of-range
   class is rejected by the repaired writers; the unchecked arithmetic is refuted class by class. *)
From LzVerif Require Import Base.Bytes Arith.MemUsage Arith.MemUsageProofs Arith.Options Format.LzipDict Format.LzipDictProofs.
Ltac Zify.zify_post_hook ::= Z.div_mod_to_equations.
Local Arguments Z.mul : simpl never.
Local Arguments Z.add : simpl never.
Local Arguments Z.sub : simpl never.
Local Arguments Z.div : simpl never.
Local Arguments Z.pow : simpl never.
Local Arguments Z.modulo : simpl never.

(* ------------------------------------------------------------------------------------------- *)
(* helpers                                                                                      *)
(* ------------------------------------------------------------------------------------------- *)
Lemma mul32_ok ck a b : a * b < U32 -> mul32 ck a b = Ok (a * b).
Proof. intros H. unfold mul32. destruct (Z.ltb_spec (a * b) U32); [reflexivity | lia]. Qed.

Lemma shl_usize_ok ck a s : 0 <= s < 64 -> 0 <= a * 2 ^ s < U64 -> shl_usize ck a s = Ok (a * 2 ^ s).
Proof.
  intros Hs Hv. unfold shl_usize. destruct (Z.ltb_spec s 64); [|lia].
  rewrite Z.mod_small by exact Hv. reflexivity.
Qed.

Lemma sub_usize_ok ck a b : 0 <= a - b -> sub_usize ck a b = Ok (a - b).
Proof. intros H. unfold sub_usize. destruct (Z.leb_spec 0 (a - b)); [reflexivity | lia]. Qed.

Lemma add_usize_ok ck a b : a + b < U64 -> add_usize ck a b = Ok (a + b).
Proof. intros H. unfold add_usize. destruct (Z.ltb_spec (a + b) U64); [reflexivity | lia]. Qed.

Lemma vec_alloc_ok count elem : count * elem <= ISIZE_MAX -> vec_alloc count elem = Ok count.
Proof. intros H. unfold vec_alloc. destruct (Z.ltb_spec ISIZE_MAX (count * elem)); [lia | reflexivity]. Qed.

Lemma shr32_ok ck a s : 0 <= s < 32 -> shr32 ck a s = Ok (a / 2 ^ s).
Proof. intros Hs. unfold shr32. destruct (Z.ltb_spec s 32); [reflexivity | lia]. Qed.

Lemma pow2_bounds k n : 0 <= k <= n -> 1 <= 2 ^ k <= 2 ^ n.
Proof.
  intros Hk. split.
  - pose proof (Z.pow_pos_nonneg 2 k ltac:(lia) ltac:(lia)). lia.
  - apply Z.pow_le_mono_r; lia.
Qed.

Lemma land_mask_mod a n : 0 <= n -> Z.land a (2 ^ n - 1) = a mod 2 ^ n.
Proof. intros Hn. rewrite <- Z.land_ones by exact Hn. f_equal. rewrite Z.ones_equiv. lia. Qed.

(* ------------------------------------------------------------------------------------------- *)
(* properties byte                                                                              *)
(* ------------------------------------------------------------------------------------------- *)
Theorem props_roundtrip : forall ck lc lp pb, 0 <= lc <= 8 -> 0 <= lp <= 4 -> 0 <= pb <= 4 ->
  exists b, props_byte ck lc lp pb = Ok b /\ 0 <= b <= 224 /\ b = (pb * 5 + lp) * 9 + lc /\
            lzma_decode_props b = Ok (lc, lp, pb) /\
            (lc + lp <= 4 -> lzma2_decode_props b = Ok (lc, lp, pb)) /\
            (4 < lc + lp -> lzma2_decode_props b = Err E_INVALID_INPUT).
Proof.
  intros ck lc lp pb Hlc Hlp Hpb. exists ((pb * 5 + lp) * 9 + lc).
  unfold props_byte. rewrite mul32_ok by (unfold U32; lia). cbn [obind].
  rewrite add32_ok by (unfold U32; lia). cbn [obind].
  rewrite mul32_ok by (unfold U32; lia). cbn [obind].
  rewrite add32_ok by (unfold U32; lia). cbn [obind].
  unfold wrap8. rewrite Z.mod_small by lia.
  split; [reflexivity|]. split; [lia|]. split; [reflexivity|].
  set (b := (pb * 5 + lp) * 9 + lc).
  assert (Hpb' : b / 45 = pb) by (unfold b; lia).
  assert (Hlp' : (b - pb * 45) / 9 = lp) by (unfold b; lia).
  assert (Hlc' : b - pb * 45 - lp * 9 = lc) by (unfold b; lia).
  unfold lzma_decode_props, lzma2_decode_props.
  destruct (Z.ltb_spec 224 b); [unfold b in *; lia|].
  rewrite Hpb', Hlp', Hlc'.
  destruct (Z.ltb_spec 8 lc); [lia|]. destruct (Z.ltb_spec 4 lp); [lia|]. destruct (Z.ltb_spec 4 pb); [lia|].
  cbn [orb]. split; [reflexivity|].
  split; intros H'; destruct (Z.ltb_spec 4 (lc + lp)); try lia; reflexivity.
Qed.

(* ------------------------------------------------------------------------------------------- *)
(* LZMAEncoder::new on in-range options                                                         *)
(* ------------------------------------------------------------------------------------------- *)
Lemma lzma_opts_ok_spec lzma2 o : lzma_opts_ok lzma2 o = true ->
  0 <= o_lc o <= 8 /\ 0 <= o_lp o <= 4 /\ 0 <= o_pb o <= 4 /\ (lzma2 = true -> o_lc o + o_lp o <= 4) /\
  DICT_SIZE_MIN <= o_dict o <= ENC_DICT_SIZE_MAX /\ NICE_LEN_MIN <= o_nice o <= NICE_LEN_MAX.
Proof.
  unfold lzma_opts_ok. intros H.
  repeat (apply andb_prop in H; destruct H as [H ?]).
  repeat match goal with
         | H : (_ <=? _) = true |- _ => apply Z.leb_le in H
         end.
  repeat split; try lia.
  intros ->. match goal with H : (_ <=? _) = true |- _ => apply Z.leb_le in H end. lia.
Qed.

Lemma validate_iff lzma2 o : 0 <= o_lc o -> 0 <= o_lp o -> 0 <= o_pb o ->
  (validate lzma2 o = Ok tt <-> lzma_opts_ok lzma2 o = true) /\
  (validate lzma2 o = Ok tt \/ validate lzma2 o = Err E_INVALID_INPUT).
Proof.
  intros Hlc Hlp Hpb. unfold validate, lzma_opts_ok.
  destruct (Z.ltb_spec 8 (o_lc o)); destruct (Z.ltb_spec 4 (o_lp o)); destruct (Z.ltb_spec 4 (o_pb o)); cbn [orb];
  repeat match goal with
         | |- context [?a <=? ?b] => destruct (Z.leb_spec a b); try lia
         end; cbn [andb]; try (split; [split; intro; discriminate | auto]).
  all: destruct lzma2; cbn [andb];
    repeat match goal with
           | |- context [?a <? ?b] => destruct (Z.ltb_spec a b); try lia
           | |- context [?a <=? ?b] => destruct (Z.leb_spec a b); try lia
           end; cbn [andb orb]; split; try (split; intro; (discriminate || reflexivity)); auto.
Qed.

Ltac crunch :=
  repeat (first [ rewrite add32_ok by (unfold U32; lia)
                | rewrite sub32_ok by lia
                | rewrite shl32_ok by (unfold U32; lia)
                | rewrite sub_usize_ok by lia
                | rewrite add_usize_ok by (unfold U64; lia)
                | rewrite shl_usize_ok by (unfold U64; lia)
                | rewrite vec_alloc_ok by (unfold ISIZE_MAX; lia) ]; cbn [obind]).

Definition tables_of (o : lzma_opts) (slots : Z) : enc_tables :=
  {| t_pos_mask := 2 ^ o_pb o - 1; t_lit_pos_mask := 2 ^ o_lp o - 1; t_lc := o_lc o;
     t_lit_count := 2 ^ (o_lc o + o_lp o); t_len_pos_states := 2 ^ o_pb o;
     t_len_symbols := Z.max (o_nice o - 1) 16; t_matches := o_nice o - 1; t_dist_slots := slots;
     t_depth := effective_depth (o_mf o) (o_depth o) (o_nice o) |}.

(* No constructor-time panic for in-range options, in either build profile, and the table sizes
   in closed form. depth_limit is any i32 (<= 0 selects the default): the depth actually used is
   positive. *)
Theorem encoder_new_ok : forall lzma2 o, lzma_opts_ok lzma2 o = true ->
  exists slots, (forall ck extra, 0 <= extra <= 65536 -> encoder_new ck extra o = Ok (tables_of o slots)) /\ 1 <= slots <= 64 /\
                (-2147483648 <= o_depth o <= 2147483647 -> 0 < effective_depth (o_mf o) (o_depth o) (o_nice o)).
Proof.
  intros lzma2 o Hok.
  destruct (lzma_opts_ok_spec lzma2 o Hok) as (Hlc & Hlp & Hpb & _ & Hd & Hn).
  unfold DICT_SIZE_MIN, ENC_DICT_SIZE_MAX, NICE_LEN_MIN, NICE_LEN_MAX in *.
  destruct (dist_slot_bound (o_dict o - 1)) as [Hs|Hs]; [|lia].
  exists (get_dist_slot (o_dict o - 1) + 1). split; [|split; [lia|]].
  - intros ck extra Hex. unfold encoder_new, as_i32.
    destruct (Z.ltb_spec (o_dict o) 2147483648); [|lia].
    destruct (Z.ltb_spec 2147483647 (o_dict o + 1)); [lia|]. cbn [obind].
    rewrite (hash4_eq ck (o_dict o)) by (unfold U32; lia). cbn [obind].
    unfold get_buf_size, enc_extra_after, MATCH_LEN_MAX, OPTS.
    pose proof (pow2_bounds (o_lp o) 4 ltac:(lia)) as Blp. change (2 ^ 4) with 16 in Blp.
    pose proof (pow2_bounds (o_pb o) 4 ltac:(lia)) as Bpb. change (2 ^ 4) with 16 in Bpb.
    pose proof (pow2_bounds (o_lc o + o_lp o) 12 ltac:(lia)) as Bll. change (2 ^ 12) with 4096 in Bll.
    destruct (o_mode o); cbn [obind]; crunch;
      match goal with |- context [if ?b <? 2 then _ else _] => destruct (Z.ltb_spec b 2); [lia|] end; cbn [obind]; crunch;
      unfold tables_of; rewrite !Z.mul_1_l; replace (o_nice o - 2 + 1) with (o_nice o - 1) by lia; reflexivity.
  - intros Hdep. unfold effective_depth, as_i32.
    destruct (Z.ltb_spec 0 (o_depth o)); [lia|].
    destruct (Z.ltb_spec (o_nice o) 2147483648); [|lia].
    assert (0 <= Z.quot (o_nice o) 4) by (apply Z.quot_pos; lia).
    assert (0 <= Z.quot (o_nice o) 2) by (apply Z.quot_pos; lia).
    destruct (o_mf o); lia.
Qed.

(* ------------------------------------------------------------------------------------------- *)
(* every table index computed from (lc, lp, pb, pos, prev byte, state, len) is inside its table  *)
(* ------------------------------------------------------------------------------------------- *)
Theorem ctx_index_bounds : forall lzma2 o slots ck pos prev state,
  lzma_opts_ok lzma2 o = true -> 0 <= pos < U32 -> 0 <= prev < 256 -> 0 <= state < 12 ->
  let t := tables_of o slots in
  0 <= pos_state t pos < 2 ^ o_pb o /\ 2 ^ o_pb o <= 16 /\
  is_match_index t state pos = Ok (state, pos_state t pos) /\
  (exists i, literal_index ck t prev pos = Ok i /\ 0 <= i < t_lit_count t) /\
  (forall len, 2 <= len <= o_nice o -> len_index t pos len = Ok (pos_state t pos, len - 2)) /\
  (forall k, 0 <= k < o_nice o - 1 -> matches_index t k = Ok k).
Proof.
  intros lzma2 o slots ck pos prev state Hok Hpos Hprev Hstate t.
  destruct (lzma_opts_ok_spec lzma2 o Hok) as (Hlc & Hlp & Hpb & _ & Hd & Hn).
  unfold NICE_LEN_MIN, NICE_LEN_MAX in *.
  pose proof (pow2_bounds (o_pb o) 4 ltac:(lia)) as Bpb. change (2 ^ 4) with 16 in Bpb.
  assert (Hps : pos_state t pos = pos mod 2 ^ o_pb o).
  { unfold pos_state, t, tables_of. cbn [t_pos_mask]. apply land_mask_mod. lia. }
  pose proof (Z.mod_pos_bound pos (2 ^ o_pb o) ltac:(lia)) as Hm.
  split; [rewrite Hps; lia|]. split; [lia|]. split; [|split; [|split]].
  - unfold is_match_index. rewrite Hps.
    destruct (Z.leb_spec 0 state); [|lia]. destruct (Z.ltb_spec state 12); [|lia].
    destruct (Z.ltb_spec (pos mod 2 ^ o_pb o) 16); [reflexivity|lia].
  - unfold literal_index, t, tables_of. cbn [t_lc t_lit_pos_mask t_lit_count].
    rewrite sub32_ok by lia. cbn [obind].
    rewrite shr32_ok by lia. cbn [obind].
    rewrite land_mask_mod by lia.
    pose proof (pow2_bounds (o_lc o) 8 ltac:(lia)) as Blc. change (2 ^ 8) with 256 in Blc.
    pose proof (pow2_bounds (o_lp o) 4 ltac:(lia)) as Blp. change (2 ^ 4) with 16 in Blp.
    pose proof (Z.mod_pos_bound pos (2 ^ o_lp o) ltac:(lia)) as Hml.
    assert (Hsplit : 2 ^ (8 - o_lc o) * 2 ^ o_lc o = 256).
    { rewrite <- Z.pow_add_r by lia. replace (8 - o_lc o + o_lc o) with 8 by lia. reflexivity. }
    pose proof (pow2_bounds (8 - o_lc o) 8 ltac:(lia)) as Bsh. change (2 ^ 8) with 256 in Bsh.
    assert (Hlow : 0 <= prev / 2 ^ (8 - o_lc o) < 2 ^ o_lc o).
    { split; [apply Z.div_pos; lia|]. apply Z.div_lt_upper_bound; [lia|]. lia. }
    assert (Hprod : 2 ^ (o_lc o + o_lp o) = 2 ^ o_lc o * 2 ^ o_lp o) by (apply Z.pow_add_r; lia).
    set (A := 2 ^ o_lc o) in *. set (B := 2 ^ o_lp o) in *. set (m := pos mod B) in *.
    set (low := prev / 2 ^ (8 - o_lc o)) in *.
    assert (Hhigh : 0 <= m * A < U32) by (unfold U32; nia).
    rewrite shl32_ok by (first [exact Hhigh | lia]). cbn [obind]. fold A.
    rewrite add32_ok by (unfold U32 in *; nia). cbn [obind].
    rewrite Hprod.
    assert (Hi : low + m * A < A * B) by nia.
    destruct (Z.ltb_spec (low + m * A) (A * B)); [|lia].
    exists (low + m * A). split; [reflexivity|]. nia.
  - intros len Hlen. unfold len_index. rewrite Hps. unfold t, tables_of. cbn [t_len_pos_states t_len_symbols].
    destruct (Z.ltb_spec (pos mod 2 ^ o_pb o) (2 ^ o_pb o)); [|lia].
    destruct (Z.ltb_spec (pos mod 2 ^ o_pb o) 16); [|lia].
    destruct (Z.leb_spec 0 (len - 2)); [|lia].
    destruct (Z.ltb_spec (len - 2) (Z.max (o_nice o - 1) 16)); [reflexivity|lia].
  - intros k Hk. unfold matches_index, t, tables_of. cbn [t_matches].
    destruct (Z.leb_spec 0 k); [|lia]. destruct (Z.ltb_spec k (o_nice o - 1)); [reflexivity|lia].
Qed.

(* ------------------------------------------------------------------------------------------- *)
(* container-level properties the writers derive from the options                               *)
(* ------------------------------------------------------------------------------------------- *)
Lemma xz_dict_of_prop_39 : xz_dict_of_prop 39 = 3221225472.
Proof. vm_compute. reflexivity. Qed.

(* XZ: the dictionary property announces at least the dictionary the encoder uses *)
Theorem xz_dict_prop_ok : forall d, DICT_SIZE_MIN <= d <= ENC_DICT_SIZE_MAX ->
  exists p ds, xz_encode_dict_size d = Ok p /\ xz_reader_dict_size p = Ok ds /\ d <= ds.
Proof.
  unfold DICT_SIZE_MIN, ENC_DICT_SIZE_MAX. intros d Hd. unfold xz_encode_dict_size.
  destruct (Z.ltb_spec d 4096); [lia|]. destruct (Z.eqb_spec d 4294967295); [lia|].
  destruct (find (fun p => d <=? xz_dict_of_prop p) props40) as [p|] eqn:Ef.
  - apply find_some in Ef. destruct Ef as [Hin Hle]. apply Z.leb_le in Hle.
    exists p, (xz_dict_of_prop p). split; [reflexivity|]. split; [|exact Hle].
    unfold xz_reader_dict_size.
    assert (Hp : 0 <= p < 40).
    { unfold props40 in Hin. apply in_map_iff in Hin. destruct Hin as (kk & <- & Hkk). apply in_seq in Hkk. lia. }
    destruct (Z.ltb_spec 40 p); [lia|]. destruct (Z.eqb_spec p 40); [lia|]. reflexivity.
  - exfalso. pose proof (find_none _ _ Ef 39) as Hn.
    assert (Hin : In 39 props40).
    { unfold props40. apply in_map_iff. exists 39%nat. split; [reflexivity|]. apply in_seq. lia. }
    specialize (Hn Hin). cbn beta in Hn. rewrite xz_dict_of_prop_39 in Hn. apply Z.leb_gt in Hn. lia.
Qed.

(* XZ: a validated delta distance survives the header encoding, and is the distance DeltaWriter uses *)
Theorem xz_delta_prop_ok : forall ck dist, 1 <= dist <= 256 ->
  exists b, xz_delta_prop ck dist = Ok b /\ 0 <= b < 256 /\ xz_reader_delta_distance b = dist /\
            delta_effective_distance dist = dist.
Proof.
  intros ck dist Hd. exists (dist - 1). unfold xz_delta_prop. rewrite sub32_ok by lia. cbn [obind].
  unfold wrap8. rewrite Z.mod_small by lia. split; [reflexivity|]. split; [lia|].
  split; [unfold xz_reader_delta_distance; lia|].
  unfold delta_effective_distance. destruct (Z.eqb_spec (dist mod 256) 0); lia.
Qed.

(* XZ: a validated BCJ start offset passes the reader's alignment check *)
Theorem xz_bcj_offset_ok : forall f, filter_ok f = true -> f_kind f <> FDelta ->
  xz_reader_bcj_check (f_kind f) (f_prop f) = Ok (f_prop f).
Proof.
  intros [k p] Hok Hk. unfold filter_ok, xz_reader_bcj_check in *. cbn [f_kind f_prop] in *.
  destruct k; try congruence; try discriminate; rewrite Hok; reflexivity.
Qed.

(* LZIP: the clamped dictionary size always has a header byte, announcing at least that size
   (Format/LzipDictProofs.v) *)
Theorem lzip_dict_ok_for_every_request : forall o,
  exists dd, lzip_header_dict (o_dict o) = Ok dd /\ o_dict (lzip_effective o) <= dd.
Proof.
  intros o. destruct (lzip_header_dict_ok (o_dict o)) as (dd & E & Hle). exists dd. split; [exact E|].
  unfold lzip_effective, lzip_clamp_dict, LZIP_MIN_DICT_SIZE, LZIP_MAX_DICT_SIZE, LZIP_MIN_DICT, LZIP_MAX_DICT in *.
  cbn [o_dict]. destruct (Z.ltb_spec (o_dict o) 4096); destruct (Z.ltb_spec 536870912 (o_dict o)); lia.
Qed.

(* ------------------------------------------------------------------------------------------- *)
(* C19_in / C19_out over the writer model                                                       *)
(* ------------------------------------------------------------------------------------------- *)
Lemma obs_encoder_ok lzma2 ck extra o st : lzma_opts_ok lzma2 o = true -> 0 <= extra <= 65536 ->
  obs_of_encoder_new ck extra o st = ObsOk.
Proof.
  intros Hok Hex. destruct (encoder_new_ok lzma2 o Hok) as (slots & He & _).
  unfold obs_of_encoder_new. rewrite He by exact Hex. reflexivity.
Qed.

Lemma esb_range d : 0 <= get_extra_size_before d <= 65536 \/ d < 0.
Proof. unfold get_extra_size_before, COMPRESSED_SIZE_MAX. destruct (Z.leb_spec 65536 d); lia. Qed.

Lemma lzma_opts_ok_weaken o : lzma_opts_ok true o = true -> lzma_opts_ok false o = true.
Proof.
  unfold lzma_opts_ok. intros H.
  repeat (apply andb_prop in H; destruct H as [H ?]).
  repeat (apply andb_true_intro; split); auto.
Qed.

Lemma validate_filters_ok fs : forallb filter_ok fs = true -> validate_filters fs = Ok tt.
Proof.
  induction fs as [|f t IH]; intros H; [reflexivity|].
  cbn [forallb] in H. apply andb_prop in H. destruct H as [Hf Ht].
  cbn [validate_filters]. unfold validate_pre_filter. destruct f as [k p]. unfold filter_ok in Hf.
  cbn [f_kind f_prop] in *.
  destruct k; try discriminate;
    try (rewrite Hf; cbn [obind]; apply IH; exact Ht).
  apply andb_prop in Hf. destruct Hf as [H1 H2]. apply Z.leb_le in H1. apply Z.leb_le in H2.
  destruct (Z.ltb_spec p 1); [lia|]. destruct (Z.ltb_spec 256 p); [lia|]. cbn [orb obind]. apply IH; exact Ht.
Qed.

Lemma validate_filters_bad fs : forallb filter_ok fs = false -> validate_filters fs = Err E_INVALID_INPUT.
Proof.
  induction fs as [|f t IH]; intros H; [discriminate|].
  cbn [forallb] in H. cbn [validate_filters].
  destruct (filter_ok f) eqn:Ef.
  - cbn [andb] in H.
    assert (Hv : validate_pre_filter f = Ok tt).
    { pose proof (validate_filters_ok [f] ltac:(cbn [forallb]; rewrite Ef; reflexivity)) as V.
      cbn [validate_filters] in V. destruct (validate_pre_filter f) as [[]| | |]; try discriminate; reflexivity. }
    rewrite Hv. cbn [obind]. apply IH; exact H.
  - unfold validate_pre_filter. unfold filter_ok in Ef. destruct f as [k p]. cbn [f_kind f_prop] in *.
    destruct k; try (rewrite Ef; reflexivity); try reflexivity.
    apply andb_false_iff in Ef.
    destruct (Z.ltb_spec p 1); [reflexivity|]. destruct (Z.ltb_spec 256 p); [reflexivity|].
    destruct Ef as [Ef|Ef]; apply Z.leb_gt in Ef; lia.
Qed.

(* In-range options (the documented domain of each writer kind): construct, write and finish all
   succeed - no error, no panic - in both build profiles. *)
Theorem C19_in_model : forall ck k o fs len, opts_ok k o fs = true -> 0 <= len ->
  writer_outcome ck k o fs len = ObsOk.
Proof.
  intros ck k o fs len Hok Hlen. unfold opts_ok in Hok. unfold writer_outcome.
  destruct k.
  - apply andb_prop in Hok. destruct Hok as [Ho Hp].
    destruct (lzma_opts_ok_spec false o Ho) as (Hlc & Hlp & Hpb & _).
    destruct (validate_iff false o ltac:(lia) ltac:(lia) ltac:(lia)) as [[_ Hv] _]. rewrite (Hv Ho).
    rewrite (obs_encoder_ok false ck 0 o SNew Ho ltac:(lia)).
    destruct (o_preset o); [discriminate|reflexivity].
  - destruct (lzma_opts_ok_spec false o Hok) as (Hlc & Hlp & Hpb & _).
    destruct (validate_iff false o ltac:(lia) ltac:(lia) ltac:(lia)) as [[_ Hv] _]. rewrite (Hv Hok).
    apply (obs_encoder_ok false ck 0 o SNew Hok). lia.
  - destruct (lzma_opts_ok_spec true o Hok) as (Hlc & Hlp & Hpb & _).
    destruct (validate_iff true o ltac:(lia) ltac:(lia) ltac:(lia)) as [[_ Hv] _]. rewrite (Hv Hok).
    apply (obs_encoder_ok true ck _ o SNew Hok).
    destruct (lzma_opts_ok_spec true o Hok) as (_ & _ & _ & _ & Hdd & _). unfold DICT_SIZE_MIN in Hdd.
    destruct (esb_range (o_dict o)); lia.
  - apply andb_prop in Hok. destruct Hok as [Hok Hf]. apply andb_prop in Hok. destruct Hok as [Hok Hn].
    apply andb_prop in Hok. destruct Hok as [Ho Hp].
    destruct (lzma_opts_ok_spec true o Ho) as (Hlc & Hlp & Hpb & _).
    destruct (validate_iff true o ltac:(lia) ltac:(lia) ltac:(lia)) as [[_ Hv] _]. rewrite (Hv Ho).
    destruct (o_preset o); [discriminate|]. cbn [is_some].
    apply Z.leb_le in Hn. destruct (Z.ltb_spec 3 (Z.of_nat (length fs))); [lia|].
    rewrite (validate_filters_ok fs Hf).
    destruct (0 <? len); [apply (obs_encoder_ok true ck _ o SWrite Ho) | reflexivity].
    destruct (lzma_opts_ok_spec true o Ho) as (_ & _ & _ & _ & Hdd & _). unfold DICT_SIZE_MIN in Hdd.
    destruct (esb_range (o_dict o)); lia.
  - apply andb_prop in Hok. destruct Hok as [Ho Hp].
    assert (Hpe : o_preset (lzip_effective o) = o_preset o) by reflexivity. rewrite Hpe.
    destruct (o_preset o); [discriminate|]. cbn [is_some].
    destruct (lzma_opts_ok_spec false _ Ho) as (Hlc & Hlp & Hpb & _).
    destruct (validate_iff false (lzip_effective o) ltac:(lia) ltac:(lia) ltac:(lia)) as [[_ Hv] _]. rewrite (Hv Ho).
    apply (obs_encoder_ok false ck 0 _ _ Ho). lia.
Qed.

(* Out-of-range options: every class is rejected with an error - InvalidInput, or Unsupported for
   a preset dictionary the container cannot carry - by the constructor where it can fail, by the
   first write()/finish() where it cannot (LZMA2Writer, LZIPWriter).  Never a panic, never a
   success.  (What each writer normalises itself - LZIPWriter's lc/lp/pb/dict_size, LZMA2Writer's
   empty preset dictionary, any depth_limit - is inside opts_ok.) *)
Theorem C19_out_model : forall ck k o fs len, opts_typed o fs -> opts_ok k o fs = false -> 0 <= len ->
  exists c st, writer_outcome ck k o fs len = ObsErr c st /\
               (c = E_INVALID_INPUT \/ c = E_UNSUPPORTED) /\
               (match k with WLzma2 | WLzip => st = deferred len | _ => st = SNew end).
Proof.
  intros ck k o fs len (Hd & Hlc & Hlp & Hpb & Hn & Hdep & Hpre & Hfs) Hbad Hlen.
  unfold opts_ok in Hbad. unfold writer_outcome.
  destruct k.
  - destruct (validate_iff false o ltac:(lia) ltac:(lia) ltac:(lia)) as [Hiff [Hv|Hv]]; rewrite Hv.
    + assert (Ho : lzma_opts_ok false o = true) by (apply Hiff; exact Hv).
      rewrite Ho in Hbad. cbn [andb] in Hbad. rewrite (obs_encoder_ok false ck 0 o SNew Ho ltac:(lia)).
      destruct (o_preset o); [|discriminate]. cbn [is_some]. eauto 10.
    + eauto 10.
  - destruct (validate_iff false o ltac:(lia) ltac:(lia) ltac:(lia)) as [Hiff [Hv|Hv]]; rewrite Hv.
    + exfalso. assert (Ho : lzma_opts_ok false o = true) by (apply Hiff; exact Hv). congruence.
    + eauto 10.
  - destruct (validate_iff true o ltac:(lia) ltac:(lia) ltac:(lia)) as [Hiff [Hv|Hv]]; rewrite Hv.
    + exfalso. assert (Ho : lzma_opts_ok true o = true) by (apply Hiff; exact Hv). congruence.
    + eauto 10.
  - destruct (validate_iff true o ltac:(lia) ltac:(lia) ltac:(lia)) as [Hiff [Hv|Hv]]; rewrite Hv; [|eauto 10].
    assert (Ho : lzma_opts_ok true o = true) by (apply Hiff; exact Hv).
    rewrite Ho in Hbad. cbn [andb] in Hbad.
    destruct (o_preset o); cbn [is_some negb andb] in *; [eauto 10|].
    destruct (Z.ltb_spec 3 (Z.of_nat (length fs))); [eauto 10|].
    destruct (Z.leb_spec (Z.of_nat (length fs)) 3); [|lia]. cbn [andb] in Hbad.
    rewrite (validate_filters_bad fs Hbad). eauto 10.
  - assert (Hpe : o_preset (lzip_effective o) = o_preset o) by reflexivity. rewrite Hpe.
    destruct (o_preset o); cbn [is_some negb] in *; [eauto 10|].
    rewrite andb_true_r in Hbad.
    destruct (validate_iff false (lzip_effective o) ltac:(cbn; lia) ltac:(cbn; lia) ltac:(cbn; lia)) as [Hiff [Hv|Hv]]; rewrite Hv.
    + exfalso. assert (Ho : lzma_opts_ok false (lzip_effective o) = true) by (apply Hiff; exact Hv). congruence.
    + eauto 10.
Qed.

(* What LZIPWriter ignores cannot matter *)
Theorem lzip_ignores_lc_lp_pb : forall ck o lc lp pb fs len,
  writer_outcome ck WLzip o fs len =
  writer_outcome ck WLzip {| o_dict := o_dict o; o_lc := lc; o_lp := lp; o_pb := pb; o_mode := o_mode o; o_mf := o_mf o;
                             o_nice := o_nice o; o_depth := o_depth o; o_preset := o_preset o |} fs len.
Proof. intros. reflexivity. Qed.

(* depth_limit: every i32 value is harmless (it only bounds a search loop; <= 0 selects the default) *)
Definition set_depth (o : lzma_opts) (d : Z) : lzma_opts :=
  {| o_dict := o_dict o; o_lc := o_lc o; o_lp := o_lp o; o_pb := o_pb o; o_mode := o_mode o; o_mf := o_mf o;
     o_nice := o_nice o; o_depth := d; o_preset := o_preset o |}.

Lemma obs_encoder_depth_irrelevant ck extra o d st :
  obs_of_encoder_new ck extra (set_depth o d) st = obs_of_encoder_new ck extra o st.
Proof.
  unfold obs_of_encoder_new, encoder_new, set_depth.
  cbn [o_dict o_lc o_lp o_pb o_mode o_mf o_nice o_depth o_preset].
  repeat match goal with |- context [obind ?x _] => destruct x; cbn [obind]; try reflexivity end.
Qed.

Theorem depth_limit_any_value_ok : forall ck k o fs len d,
  writer_outcome ck k (set_depth o d) fs len = writer_outcome ck k o fs len.
Proof.
  intros ck k o fs len d.
  assert (Hl : lzip_effective (set_depth o d) = set_depth (lzip_effective o) d) by reflexivity.
  destruct k; unfold writer_outcome; try rewrite Hl; rewrite !obs_encoder_depth_irrelevant; reflexivity.
Qed.

(* ------------------------------------------------------------------------------------------- *)
(* The unchecked arithmetic, class by class (the behaviour before repo-patches/03..07)           *)
(* ------------------------------------------------------------------------------------------- *)
Definition wit (d lc lp pb nice : Z) : lzma_opts :=
  {| o_dict := d; o_lc := lc; o_lp := lp; o_pb := pb; o_mode := Fast; o_mf := HC4; o_nice := nice; o_depth := 0; o_preset := None |}.

(* "the constructor returns tables t, and P t" *)
Definition with_tables (r : outcome enc_tables) (P : enc_tables -> Prop) : Prop :=
  match r with Ok t => P t | _ => False end.

(* pb = 5: the constructor succeeds, position 16 indexes past [u16; 16]; the properties byte is > 224 *)
Theorem unchecked_pb5_refuted :
  with_tables (encoder_new false 0 (wit 65536 3 0 5 32)) (fun t => is_match_index t 0 16 = Panic P_INDEX) /\
  with_tables (encoder_new true 0 (wit 65536 3 0 5 32)) (fun t => is_match_index t 0 16 = Panic P_INDEX) /\
  props_byte true 3 0 5 = Ok 228 /\ lzma_decode_props 228 = Err E_INVALID_INPUT.
Proof. vm_compute. repeat split; reflexivity. Qed.

(* lc = 9: the properties byte is that of (lc,lp,pb) = (0,1,2); `8 - lc` underflows *)
Theorem unchecked_lc9_refuted :
  props_byte true 9 0 2 = Ok 99 /\ lzma_decode_props 99 = Ok (0, 1, 2) /\
  with_tables (encoder_new true 0 (wit 65536 9 0 2 32)) (fun t => literal_index true t 65 0 = Panic P_OVERFLOW).
Proof. vm_compute. repeat split; reflexivity. Qed.

(* lc + lp = 5: a valid LZMA properties byte that every LZMA2 decoder rejects *)
Theorem unchecked_lclp_lzma2_refuted :
  with_tables (encoder_new true 61440 (wit 4096 4 1 2 32)) (fun _ => True) /\
  props_byte true 4 1 2 = Ok 103 /\ lzma_decode_props 103 = Ok (4, 1, 2) /\
  lzma2_decode_props 103 = Err E_INVALID_INPUT.
Proof. vm_compute. repeat split; reflexivity. Qed.

(* huge lc: the literal table size overflows (release: 1 << (lc & 63) entries of 1536 bytes) *)
Theorem unchecked_huge_lc_refuted :
  encoder_new true 0 (wit 65536 4294967295 0 2 32) = Panic P_OVERFLOW /\
  encoder_new false 0 (wit 65536 4294967295 0 2 32) = Panic P_CAPACITY.
Proof. vm_compute. split; reflexivity. Qed.

(* dict_size = 0: `dict_size - 1` *)
Theorem unchecked_dict0_refuted :
  encoder_new true 0 (wit 0 3 0 2 32) = Panic P_OVERFLOW /\
  with_tables (encoder_new false 0 (wit 0 3 0 2 32)) (fun t => t_dist_slots t = 64).
Proof. vm_compute. split; reflexivity. Qed.

(* nice_len = 0, 1, 2: Matches::new(nice_len - 1) *)
Theorem unchecked_nice_len_refuted :
  encoder_new true 0 (wit 65536 3 0 2 0) = Panic P_OVERFLOW /\
  encoder_new false 0 (wit 65536 3 0 2 0) = Panic P_CAPACITY /\
  encoder_new true 0 (wit 65536 3 0 2 1) = Panic P_OVERFLOW /\
  with_tables (encoder_new false 0 (wit 65536 3 0 2 1)) (fun t => matches_index t 0 = Panic P_INDEX) /\
  with_tables (encoder_new true 0 (wit 65536 3 0 2 2)) (fun t => matches_index t 1 = Panic P_INDEX).
Proof. vm_compute. repeat split; reflexivity. Qed.

(* nice_len = u32::MAX: three tables of 16 GiB and more are requested and cleared *)
Theorem unchecked_huge_nice_len_refuted :
  with_tables (encoder_new true 0 (wit 65536 3 0 2 4294967295))
              (fun t => t_matches t = 4294967294 /\ t_len_symbols t = 4294967294).
Proof. vm_compute. split; reflexivity. Qed.

(* XZ delta distance 0: `(distance - 1) as u8`; in a release build the wrapped byte happens to be
   what DeltaWriter does with 0 *)
Theorem unchecked_delta0_refuted :
  xz_delta_prop true 0 = Panic P_OVERFLOW /\
  xz_delta_prop false 0 = Ok 255 /\ xz_reader_delta_distance 255 = delta_effective_distance 0.
Proof. vm_compute. repeat split; reflexivity. Qed.

(* XZ: an unaligned BCJ start offset is written but refused by the reader *)
Theorem unchecked_bcj_offset_refuted : xz_reader_bcj_check FARM 2 = Err E_INVALID_DATA.
Proof. vm_compute. reflexivity. Qed.

(* all of these are rejected now *)
Theorem witnesses_rejected :
  validate false (wit 65536 3 0 5 32) = Err E_INVALID_INPUT /\ validate false (wit 65536 9 0 2 32) = Err E_INVALID_INPUT /\
  validate true (wit 65536 4 1 2 32) = Err E_INVALID_INPUT /\ validate false (wit 65536 4294967295 0 2 32) = Err E_INVALID_INPUT /\
  validate false (wit 0 3 0 2 32) = Err E_INVALID_INPUT /\ validate false (wit 65536 3 0 2 0) = Err E_INVALID_INPUT /\
  validate false (wit 65536 3 0 2 2) = Err E_INVALID_INPUT /\ validate false (wit 65536 3 0 2 4294967295) = Err E_INVALID_INPUT /\
  validate_pre_filter {| f_kind := FDelta; f_prop := 0 |} = Err E_INVALID_INPUT /\
  validate_pre_filter {| f_kind := FARM; f_prop := 2 |} = Err E_INVALID_INPUT.
Proof. vm_compute. repeat split; reflexivity. Qed.
