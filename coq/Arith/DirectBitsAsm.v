(* Arith/DirectBitsAsm.v — RangeDecoder::decode_direct_bits of src/range_dec.rs in its three
   forms, for the LZMA2 chunk buffer reader (RangeDecoderBuffer):
     * the inline assembly of decode_direct_bits_x86_64, transcribed instruction by instruction
       (registers are Z with the 32/64-bit wrap written out); decode_direct_bits_aarch64 is
       transcribed too: it clamps with "csel ... hi" (UNSIGNED) and selects on the carry flag of
       "subs tmp, code, range" (code >= range, unsigned) where x86-64 and the portable loop use
       the sign bit of code - range;
     * the portable loop as the Rust source has it now ("fast path / slow path" restructuring);
     * the dispatch between the two (historical: asm whenever the reader is a buffer and
       count > 0; repaired: asm only when the run cannot reach the end of the buffer).
   The per-bit portable model [decode_direct_bits] lives in Codec/Range.v and is the reference.
   Definitions only. *)
From LzVerif Require Export Base.Bytes Codec.Store Codec.Range.

Definition P2_63 : Z := 9223372036854775808.

(* a 64-bit register read as a signed number (what cmovg / jg compare) *)
Definition s64 (x : Z) : Z := if x <? P2_63 then x else x - P2_64.

(* registers that live across iterations: result, range, code (32 bit), pos (64 bit) *)
Record areg := mkAreg { a_result : Z; a_range : Z; a_code : Z; a_pos : Z }.

(* the clamp:  mov clamped_pos, pos ; cmp clamped_pos, limit ; cmovg clamped_pos, limit
   cmovg = "move if greater", SIGNED. *)
Definition asm_clamp (limit pos : Z) : Z := if s64 limit <? s64 pos then limit else pos.
(* aarch64:  cmp pos, limit ; csel clamped_pos, limit, pos, hi     hi = unsigned higher *)
Definition asm_clamp_unsigned (limit pos : Z) : Z := if limit <? pos then limit else pos.

(* One pass over the loop body "2: ... jnz 2b".  [None] = the byte load touched memory outside
   the buffer (index not in [0, len)). *)
Definition asm_iter_gen (aarch64 : bool) (buf : list Z) (limit : Z) (s : areg) : option areg :=
  (* shl result, 1 ; lea result_bit1, [result + 1] *)
  let result := wrap32 (a_result s * 2) in
  let result_bit1 := wrap32 (result + 1) in
  (* cmp range, 0x01000000 ; jae 3f        (unsigned) *)
  let norm :=
    if a_range s <? P2_24 then
      (* shl code, 8 ; shl range, 8 *)
      let code := wrap32 (a_code s * 256) in
      let range := wrap32 (a_range s * 256) in
      let clamped := if aarch64 then asm_clamp_unsigned limit (a_pos s) else asm_clamp limit (a_pos s) in
      (* movzx tmp_byte, byte ptr [buf_ptr + clamped_pos] ; or code, tmp_byte ; inc pos *)
      match zth buf clamped with
      | None => None
      | Some b => Some (range, Z.lor code b, wrap64 (a_pos s + 1))
      end
    else Some (a_range s, a_code s, a_pos s) in
  match norm with
  | None => None
  | Some (range0, code0, pos) =>
      (* 3: shr range, 1 ; mov tmp_code, code ; sub code, range *)
      let range := Z.shiftr range0 1 in
      let diff := wrap32 (code0 - range) in
      (* x86-64: sign flag of the 32-bit result; cmovs code, tmp_code ; cmovns result, result_bit1
         aarch64: subs tmp, code, range ; csel code, tmp, code, hs ; csel result, result_bit1, result, hs
                  hs = carry set = no borrow = code >= range (unsigned); [sf] = "keep code, bit 0" *)
      let sf := if aarch64 then code0 <? range else P2_31 <=? diff in
      Some (mkAreg (if sf then result else result_bit1) range (if sf then code0 else diff) pos)
  end.

Definition asm_iter := asm_iter_gen false.
Definition asm_iter_aarch64 := asm_iter_gen true.

Fixpoint asm_loop_gen (aarch64 : bool) (buf : list Z) (limit : Z) (n : nat) (s : areg) : option areg :=
  match n with
  | O => Some s
  | S k => match asm_iter_gen aarch64 buf limit s with
           | None => None
           | Some s1 => asm_loop_gen aarch64 buf limit k s1
           end
  end.
Definition asm_loop := asm_loop_gen false.

(* "dec count ; jnz 2b" is a do-while: count iterations for count >= 1, 2^32 for count = 0
   (the Rust caller only enters with count > 0). *)
Definition asm_iters (count : Z) : nat := Z.to_nat (if count =? 0 then P2_32 else count).

Definition PANIC_LEN_MINUS_1 : Z := 1421.   (* buf.len() - 1 on an empty buffer (debug build) *)
Definition UB_OOB_LOAD : Z := 1422.         (* not a Rust panic: a load outside the buffer (undefined behaviour) *)

(* fn decode_direct_bits_x86_64(&mut self, count) -> i32 on the state (buf, pos, range, code):
   returns (result as u32, range, code, new pos).  After the loop: set_pos(pos.min(buf.len())). *)
Definition direct_bits_asm_gen (aarch64 : bool) (buf : list Z) (pos range code count : Z) : outcome (Z * Z * Z * Z) :=
  let len := zlen buf in
  if len =? 0 then Panic PANIC_LEN_MINUS_1 else
  match asm_loop_gen aarch64 buf (len - 1) (asm_iters count) (mkAreg 0 range code pos) with
  | None => Panic UB_OOB_LOAD
  | Some s => Ok (a_result s, a_range s, a_code s, Z.min (a_pos s) len)
  end.
Definition direct_bits_asm := direct_bits_asm_gen false.
Definition direct_bits_asm_aarch64 := direct_bits_asm_gen true.

(* ---- the portable path on the same state ---------------------------------------------------
   RangeDecoderBuffer::read_u8 returns 0 beyond the end and keeps counting pos; in the rdec of
   Codec/Range.v that is [rd_in] = the bytes from pos on, [rd_over] = how far pos is beyond len. *)
Definition rdec_of_buf (buf : list Z) (pos range code : Z) : rdec :=
  mkRdec range code (skipn (Z.to_nat pos) buf) (Z.max 0 (pos - zlen buf)).
Definition rdec_pos (buf : list Z) (d : rdec) : Z := zlen buf - zlen (rd_in d) + rd_over d.

(* the reference: one normalize per bit (Codec/Range.v) *)
Definition direct_bits_portable (buf : list Z) (pos range code count : Z) : Z * Z * Z * Z :=
  let '(v, d) := decode_direct_bits (rdec_of_buf buf pos range code) (Z.to_nat count) 0 in
  (v, rd_range d, rd_code d, rdec_pos buf d).

(* the loop as the Rust source has it:
     'outer: loop { while range >= 2^24 { if count == 0 {break 'outer} count -= 1; <bit> }
                    if count == 0 {break 'outer}  <read a byte> }
   One step = one bit or one byte.  It normalises until range >= 2^24, so it differs from the
   per-bit form for range < 2^16 and never terminates for range = 0 (both unreachable: see
   [direct_bits_loop_eq]); [Fuel] = no result within the given number of steps. *)
Fixpoint direct_bits_loop (fuel : nat) (d : rdec) (count : Z) (acc : Z) : outcome (Z * rdec) :=
  match fuel with
  | O => Fuel
  | S f =>
      if count <=? 0 then Ok (acc, d) else
      if P2_24 <=? rd_range d then
        let range := Z.shiftr (rd_range d) 1 in
        let t := Z.shiftr (wrap32 (rd_code d - range)) 31 in
        let code := if t =? 0 then wrap32 (rd_code d - range) else rd_code d in
        direct_bits_loop f (mkRdec range code (rd_in d) (rd_over d)) (count - 1) (wrap32 (acc * 2 + (1 - t)))
      else
        let '(b, d1) := rdec_read d in
        direct_bits_loop f (mkRdec (wrap32 (rd_range d * 256)) (Z.lor (wrap32 (rd_code d * 256)) b) (rd_in d1) (rd_over d1)) count acc
  end.

Definition direct_bits_rust_loop (buf : list Z) (pos range code count : Z) : outcome (Z * Z * Z * Z) :=
  do r <- direct_bits_loop (Z.to_nat (5 * count + 1)) (rdec_of_buf buf pos range code) count 0;
  Ok (fst r, rd_range (snd r), rd_code (snd r), rdec_pos buf (snd r)).

(* ---- dispatch ------------------------------------------------------------------------------
   [opt] = cfg(all(feature = "optimization", target_arch = "x86_64")).
   historical:  if self.inner.is_buffer() && count > 0 { return asm }
   repaired:    ... && count as usize <= buf.len().saturating_sub(pos)  { return asm }          *)
Definition direct_bits_dispatch_old (opt : bool) (buf : list Z) (pos range code count : Z) : outcome (Z * Z * Z * Z) :=
  if opt && (0 <? count) then direct_bits_asm buf pos range code count
  else direct_bits_rust_loop buf pos range code count.

Definition direct_bits_dispatch (opt : bool) (buf : list Z) (pos range code count : Z) : outcome (Z * Z * Z * Z) :=
  if opt && (0 <? count) && (count <=? Z.max 0 (zlen buf - pos)) then direct_bits_asm buf pos range code count
  else direct_bits_rust_loop buf pos range code count.

(* RangeDecoder<RangeDecoderBuffer>::is_finished on (len, pos, code) *)
Definition buffer_is_finished (len pos code : Z) : bool := (pos =? len) && (code =? 0).
