(* Codec/LzmaAbsProofs.v — LZMADecoder::decode over the cyclic window (LzmaDec.v) computes the
   byte-granular specification decoder of LzmaAbs.v, for every limit. *)
From LzVerif Require Import Base.Bytes Codec.Store Codec.Range Codec.LzWindow Codec.LzmaDec
  Codec.LzmaAbs Codec.LzWindowProofs Codec.ProgProofs.
Ltac Zify.zify_post_hook ::= Z.div_mod_to_equations.

(* ---- positions only matter modulo 16 ------------------------------------------------------- *)
Lemma land_mask_mod k x : 0 <= k <= 4 -> 0 <= x ->
  Z.land (wrap32 x) (wrap32 (Z.shiftl 1 k - 1)) = x mod 2 ^ k.
Proof.
  intros Hk Hx.
  assert (Hc : k = 0 \/ k = 1 \/ k = 2 \/ k = 3 \/ k = 4) by lia.
  assert (Hw : forall j, 0 <= j <= 4 -> wrap32 (Z.shiftl 1 j - 1) = Z.ones j).
  { intros j Hj. assert (Hcj : j = 0 \/ j = 1 \/ j = 2 \/ j = 3 \/ j = 4) by lia.
    destruct Hcj as [->|[->|[->|[->| ->]]]]; reflexivity. }
  rewrite Hw by assumption. rewrite Z.land_ones by lia.
  unfold wrap32.
  destruct Hc as [->|[->|[->|[->| ->]]]];
    [change (2 ^ 0) with 1 | change (2 ^ 1) with 2 | change (2 ^ 2) with 4 | change (2 ^ 3) with 8 | change (2 ^ 4) with 16]; lia.
Qed.

Lemma mod16_mod_pow k a b : 0 <= k <= 4 -> a mod 16 = b mod 16 -> a mod 2 ^ k = b mod 2 ^ k.
Proof.
  intros Hk H. assert (Hc : k = 0 \/ k = 1 \/ k = 2 \/ k = 3 \/ k = 4) by lia.
  destruct Hc as [->|[->|[->|[->| ->]]]];
    [change (2 ^ 0) with 1 | change (2 ^ 1) with 2 | change (2 ^ 2) with 4 | change (2 ^ 3) with 8 | change (2 ^ 4) with 16]; lia.
Qed.

Definition params_ok (c : coder) : Prop := 0 <= c_lc c <= 8 /\ 0 <= c_lp c <= 4 /\ 0 <= c_pb c <= 4.

Lemma pos_state_cong c a b : params_ok c -> 0 <= a -> 0 <= b -> a mod 16 = b mod 16 ->
  pos_state_of c a = pos_state_of c b.
Proof.
  intros (_ & _ & Hpb) Ha Hb H. unfold pos_state_of.
  rewrite !land_mask_mod by assumption. apply mod16_mod_pow; assumption.
Qed.

Lemma pos_state_range c a : params_ok c -> 0 <= a -> 0 <= pos_state_of c a < 16.
Proof.
  intros (_ & _ & Hpb) Ha. unfold pos_state_of. rewrite land_mask_mod by assumption.
  pose proof (Z.mod_pos_bound a (2 ^ c_pb c) ltac:(apply Z.pow_pos_nonneg; lia)).
  assert (2 ^ c_pb c <= 2 ^ 4) by (apply Z.pow_le_mono_r; lia). change (2 ^ 4) with 16 in *. lia.
Qed.

Lemma lit_base_cong c prev a b : params_ok c -> 0 <= a -> 0 <= b -> a mod 16 = b mod 16 ->
  lit_base c prev a = lit_base c prev b.
Proof.
  intros (_ & Hlp & _) Ha Hb H. unfold lit_base.
  rewrite !land_mask_mod by assumption. rewrite (mod16_mod_pow (c_lp c) a b) by assumption. reflexivity.
Qed.

Lemma pall_true {A} (p : prog A) : pall (fun _ => True) p.
Proof. induction p; constructor; auto. Qed.

(* ---- postconditions of the sub-decoders ---------------------------------------------------- *)
Lemma bittree_post base levels : forall sym j,
  2 ^ Z.of_nat j <= sym < 2 ^ Z.of_nat (S j) ->
  pall (fun s => 2 ^ Z.of_nat (j + levels) <= s < 2 ^ Z.of_nat (S (j + levels))) (bittree base levels sym).
Proof.
  induction levels as [|l IH]; intros sym j Hs; cbn [bittree].
  - constructor. rewrite Nat.add_0_r. exact Hs.
  - constructor. intros b Hb.
    replace (j + S l)%nat with (S j + l)%nat by lia. apply IH.
    rewrite !Nat2Z.inj_succ, !Z.pow_succ_r in * by lia. destruct Hb as [-> | ->]; lia.
Qed.

Lemma decode_bit_tree_post base levels :
  pall (fun s => 0 <= s < 2 ^ Z.of_nat levels) (decode_bit_tree base levels).
Proof.
  unfold decode_bit_tree. eapply pall_bind.
  - apply (bittree_post base levels 1 0%nat). cbn. lia.
  - intros s Hs. constructor. cbn [Nat.add] in Hs.
    rewrite Z.shiftl_1_l. rewrite Nat2Z.inj_succ, Z.pow_succ_r in Hs by lia. lia.
Qed.

Lemma key2_ok base rows cols i j : 0 <= i < rows -> 0 <= j < cols -> key2 base rows cols i j = Ok (base + i * cols + j).
Proof.
  intros Hi Hj. unfold key2.
  destruct (Z.ltb_spec i 0); [lia|]. destruct (Z.leb_spec rows i); [lia|].
  destruct (Z.ltb_spec j 0); [lia|]. destruct (Z.leb_spec cols j); [lia|]. reflexivity.
Qed.

Lemma key1_ok base len i : 0 <= i < len -> key1 base len i = Ok (base + i).
Proof. intros Hi. unfold key1. destruct (Z.ltb_spec i 0); [lia|]. destruct (Z.leb_spec len i); [lia|]. reflexivity. Qed.

Lemma decode_len_post base ps : 0 <= ps < 16 -> pall (fun l => 2 <= l <= 273) (decode_len base ps).
Proof.
  intros Hps. unfold decode_len. constructor. intros c0 Hc0.
  destruct (c0 =? 0).
  - rewrite key2_ok by lia. cbn [lift pbind].
    eapply pall_bind; [apply decode_bit_tree_post|]. intros s Hs. cbv beta in Hs. constructor. cbv beta. change (2 ^ Z.of_nat 3) with 8 in Hs. lia.
  - constructor. intros c1 Hc1. destruct (c1 =? 0).
    + rewrite key2_ok by lia. cbn [lift pbind].
      eapply pall_bind; [apply decode_bit_tree_post|]. intros s Hs. cbv beta in Hs. constructor. cbv beta. change (2 ^ Z.of_nat 3) with 8 in Hs. lia.
    + eapply pall_bind; [apply decode_bit_tree_post|]. intros s Hs. cbv beta in Hs. constructor. cbv beta. change (2 ^ Z.of_nat 8) with 256 in Hs. lia.
Qed.

Definition same_params (c c' : coder) : Prop := c_lc c' = c_lc c /\ c_lp c' = c_lp c /\ c_pb c' = c_pb c.

Lemma state_update_range s : 0 <= s < 12 ->
  0 <= state_update_literal s < 12 /\ 0 <= state_update_match s < 12 /\
  0 <= state_update_long_rep s < 12 /\ 0 <= state_update_short_rep s < 12.
Proof.
  intros H. unfold state_update_literal, state_update_match, state_update_long_rep, state_update_short_rep, LIT_STATES.
  destruct (s <=? 3) eqn:E1; destruct (s <=? 9) eqn:E2; destruct (s <? 7) eqn:E3; lia.
Qed.

(* what a match / rep decoding returns, whatever the bits *)
Definition match_post (c : coder) (r : coder * Z) : Prop :=
  same_params c (fst r) /\ 0 <= c_state (fst r) < 12 /\ state_is_literal (c_state (fst r)) = false /\ 1 <= snd r <= 273.

Lemma decode_match_post c ps : 0 <= c_state c < 12 -> 0 <= ps < 16 -> pall (match_post c) (decode_match c ps).
Proof.
  intros Hst Hps. unfold decode_match.
  eapply pall_bind; [apply decode_len_post; assumption|]. intros len Hlen. cbv beta in Hlen.
  assert (Hds : 0 <= dist_state_of_len len < 4) by (unfold dist_state_of_len; destruct (len <? 6) eqn:E; lia).
  rewrite key2_ok by lia. cbn [lift pbind].
  eapply pall_bind; [apply decode_bit_tree_post|]. intros slot Hslot. cbv beta in Hslot.
  assert (Hfin : forall rep0, match_post c (mkCoder (state_update_match (c_state c)) rep0 (c_rep0 c) (c_rep1 c) (c_rep2 c) (c_lc c) (c_lp c) (c_pb c), len)).
  { intros rep0. unfold match_post, same_params; cbn [fst snd c_lc c_lp c_pb c_state].
    pose proof (state_update_range (c_state c) Hst) as (_ & Hm & _).
    repeat split; try lia. unfold state_update_match, state_is_literal, LIT_STATES. destruct (c_state c <? 7); reflexivity. }
  eapply pall_bind; [apply pall_true|]. intros rep0 _. constructor. apply Hfin.
Qed.

Lemma decode_rep_match_post c ps : 0 <= c_state c < 12 -> 0 <= ps < 16 -> pall (match_post c) (decode_rep_match c ps).
Proof.
  intros Hst Hps. unfold decode_rep_match.
  pose proof (state_update_range (c_state c) Hst) as (_ & _ & Hlr & Hsr).
  assert (Hnl1 : state_is_literal (state_update_long_rep (c_state c)) = false).
  { unfold state_update_long_rep, state_is_literal, LIT_STATES. destruct (c_state c <? 7); reflexivity. }
  assert (Hnl2 : state_is_literal (state_update_short_rep (c_state c)) = false).
  { unfold state_update_short_rep, state_is_literal, LIT_STATES. destruct (c_state c <? 7); reflexivity. }
  rewrite key1_ok by lia. cbn [lift pbind]. constructor. intros b0 Hb0.
  destruct (b0 =? 0).
  - rewrite key2_ok by lia. cbn [lift pbind]. constructor. intros bl Hbl. destruct (bl =? 0).
    + constructor. unfold match_post, same_params, set_state; cbn. repeat split; try lia; assumption.
    + eapply pall_bind; [apply decode_len_post; assumption|]. intros len Hlen. cbv beta in Hlen. constructor.
      unfold match_post, same_params, set_state; cbn. repeat split; try lia; assumption.
  - rewrite key1_ok by lia. cbn [lift pbind]. constructor. intros b1 Hb1.
    eapply pall_bind with (P := fun c1 => same_params c c1).
    + destruct (b1 =? 0).
      * constructor. unfold same_params, set_reps; cbn. auto.
      * rewrite key1_ok by lia. cbn [lift pbind]. constructor. intros b2 Hb2.
        destruct (b2 =? 0); constructor; unfold same_params, set_reps; cbn; auto.
    + intros c1 (H1 & H2 & H3).
      eapply pall_bind; [apply decode_len_post; assumption|]. intros len Hlen. cbv beta in Hlen. constructor.
      unfold match_post, same_params, set_state; cbn. repeat split; try lia; assumption.
Qed.

(* ---- coder invariants ----------------------------------------------------------------------- *)
Definition reps_nonneg (c : coder) : Prop := 0 <= c_rep0 c /\ 0 <= c_rep1 c /\ 0 <= c_rep2 c /\ 0 <= c_rep3 c.

Lemma rep_as_usize_nonneg r : 0 <= r -> 0 <= rep_as_usize r.
Proof. intros H. unfold rep_as_usize, P2_31, P2_64, P2_32. destruct (r <? 2147483648); lia. Qed.

(* in a non-literal state rep0 is the distance of the match just copied: inside the dictionary *)
Definition coder_ok (c : coder) (full : Z) : Prop :=
  params_ok c /\ 0 <= c_state c < 12 /\ reps_nonneg c /\
  (state_is_literal (c_state c) = false -> rep_as_usize (c_rep0 c) < full).

Lemma rev_bittree_nonneg base levels : forall sym i res, 0 <= res -> 0 <= i ->
  pall (fun r => 0 <= r) (rev_bittree base levels sym i res).
Proof.
  induction levels as [|l IH]; intros sym i res Hres Hi; cbn [rev_bittree].
  - constructor. exact Hres.
  - constructor. intros b Hb. apply IH; [|lia].
    apply Z.lor_nonneg. split; [assumption|]. apply Z.shiftl_nonneg. destruct Hb as [-> | ->]; lia.
Qed.

Lemma decode_match_rep0 c ps : reps_nonneg c -> 0 <= ps < 16 ->
  pall (fun r => reps_nonneg (fst r)) (decode_match c ps).
Proof.
  intros (H0 & H1 & H2 & H3) Hps. unfold decode_match.
  eapply pall_bind; [apply decode_len_post; assumption|]. intros len Hlen. cbv beta in Hlen.
  assert (Hds : 0 <= dist_state_of_len len < 4) by (unfold dist_state_of_len; destruct (len <? 6) eqn:E; lia).
  rewrite key2_ok by lia. cbn [lift pbind].
  eapply pall_bind; [apply decode_bit_tree_post|]. intros slot Hslot. cbv beta in Hslot.
  eapply pall_bind with (P := fun r => 0 <= r).
  - destruct (slot <? 4); [constructor; lia|].
    assert (Hr : 0 <= wrap32 (Z.shiftl (Z.lor 2 (Z.land slot 1)) (Z.shiftr slot 1 - 1))) by apply wrap32_range.
    destruct (slot <? 14).
    + eapply pall_bind; [apply rev_bittree_nonneg; lia|]. intros x Hx. cbv beta in Hx. constructor.
      apply Z.lor_nonneg. split; assumption.
    + constructor. intros v Hv. eapply pall_bind; [apply rev_bittree_nonneg; lia|]. intros x Hx. cbv beta in Hx.
      constructor. apply Z.lor_nonneg. split; [|assumption]. apply Z.lor_nonneg. split; [assumption|]. apply wrap32_range.
  - intros r Hr. constructor. unfold reps_nonneg; cbn. auto.
Qed.

Lemma decode_rep_match_rep0 c ps : 0 <= c_state c < 12 -> reps_nonneg c -> 0 <= ps < 16 ->
  pall (fun r => reps_nonneg (fst r)) (decode_rep_match c ps).
Proof.
  intros Hst (H0 & H1 & H2 & H3) Hps. unfold decode_rep_match.
  rewrite key1_ok by lia. cbn [lift pbind]. constructor. intros b0 Hb0.
  destruct (b0 =? 0).
  - rewrite key2_ok by lia. cbn [lift pbind]. constructor. intros bl Hbl. destruct (bl =? 0).
    + constructor. unfold reps_nonneg, set_state; cbn. auto.
    + eapply pall_bind; [apply pall_true|]. intros len _. constructor. unfold reps_nonneg, set_state; cbn. auto.
  - rewrite key1_ok by lia. cbn [lift pbind]. constructor. intros b1 Hb1.
    eapply pall_bind with (P := reps_nonneg).
    + destruct (b1 =? 0).
      * constructor. unfold reps_nonneg, set_reps; cbn. auto.
      * rewrite key1_ok by lia. cbn [lift pbind]. constructor. intros b2 Hb2.
        destruct (b2 =? 0); constructor; unfold reps_nonneg, set_reps; cbn; auto.
    + intros c1 Hc1. eapply pall_bind; [apply pall_true|]. intros len _. constructor.
      unfold reps_nonneg, set_state in *; cbn. exact Hc1.
Qed.

Lemma pall_and {A} (P Q : A -> Prop) p : pall P p -> pall Q p -> pall (fun a => P a /\ Q a) p.
Proof. intros H; induction H; intros HQ; inversion HQ; subst; constructor; auto. Qed.

(* ---- one symbol: concrete (window) vs specification (history list) --------------------------- *)
Definition sym_rel (c : coder) (w : lzwin) (r1 : coder * lzwin * outcome unit) (r2 : coder * symres) : Prop :=
  let '(c1, w1, st) := r1 in
  let '(c2, res) := r2 in
  c1 = c2 /\ same_params c c1 /\ 0 <= c_state c1 < 12 /\ reps_nonneg c1 /\
  match res with
  | RLit b => st = Ok tt /\ state_is_literal (c_state c1) = true /\ lzwin_put_byte w b = Ok w1
  | RCopy dist len =>
      state_is_literal (c_state c1) = false /\ dist = rep_as_usize (c_rep0 c1) /\ 0 <= dist /\ 1 <= len <= 273 /\
      match lzwin_repeat w dist len with
      | Ok w' => w1 = w' /\ st = Ok tt
      | Err e => w1 = w /\ st = Err e
      | _ => False
      end
  end.

Lemma state_literal_after_literal s : 0 <= s < 12 -> state_is_literal (state_update_literal s) = true.
Proof.
  intros H. unfold state_is_literal, state_update_literal, LIT_STATES.
  destruct (s <=? 3) eqn:E1; [reflexivity|]. destruct (s <=? 9) eqn:E2; apply Z.ltb_lt; lia.
Qed.

Lemma decode_symbol_abs c w hist :
  Rel w hist -> coder_ok c (w_full w) -> w_pos w < w_limit w ->
  peq (sym_rel c w) (decode_symbol c w) (asym c hist).
Proof.
  intros R (Hpar & Hst & Hreps & Hrep0) Hspace.
  pose proof R as [[Hs Hs16] [[Hp0 Hp1] Hp2] [Hf [Hpf Hnw]] Hl Hm Hc Hem Hpe].
  pose proof (zlen_nonneg hist) as Hz.
  unfold decode_symbol, asym.
  assert (Hps : pos_state_of c (w_pos w) = pos_state_of c (zlen hist)) by (apply pos_state_cong; auto; lia).
  rewrite Hps.
  pose proof (pos_state_range c (zlen hist) Hpar Hz) as Hpsr.
  rewrite key2_ok by lia. cbn [lift pbind].
  constructor. intros bm Hbm. destruct (bm =? 0).
  - (* literal *)
    unfold decode_literal.
    rewrite (get_prev_rel w hist R). cbn [lift pbind]. unfold hprev.
    rewrite (lit_base_cong c (hnth hist 0) (w_pos w) (zlen hist)) by (auto; lia).
    destruct (lit_base c (hnth hist 0) (zlen hist)) as [lbase|e|e|]; cbn [lift pbind]; try constructor.
    destruct (state_is_literal (c_state c)) eqn:El; cbn [pbind].
    + eapply peq_bind2; [apply peq_refl|]. intros sym ? <-.
      destruct (put_byte_rel w hist (wrap8 sym) R ltac:(lia)) as (w' & Hput & _).
      rewrite Hput. cbn [lift pbind]. constructor.
      unfold sym_rel; cbn [fst snd]. pose proof (state_update_range (c_state c) Hst) as (Hl1 & _).
      repeat split; auto; cbn; try lia; try apply Hreps. apply state_literal_after_literal; assumption.
    + specialize (Hrep0 eq_refl).
      rewrite (get_byte_rel w hist (rep_as_usize (c_rep0 c)) R) by (split; [apply rep_as_usize_nonneg; apply Hreps | assumption]).
      cbn [lift pbind].
      eapply peq_bind2; [apply peq_refl|]. intros sym ? <-.
      destruct (put_byte_rel w hist (wrap8 sym) R ltac:(lia)) as (w' & Hput & _).
      rewrite Hput. cbn [lift pbind]. constructor.
      unfold sym_rel; cbn [fst snd]. pose proof (state_update_range (c_state c) Hst) as (Hl1 & _).
      repeat split; auto; cbn; try lia; try apply Hreps. apply state_literal_after_literal; assumption.
  - (* match or rep *)
    rewrite key1_ok by lia. cbn [lift pbind]. constructor. intros br Hbr.
    set (P := if br =? 0 then decode_match c (pos_state_of c (zlen hist)) else decode_rep_match c (pos_state_of c (zlen hist))).
    assert (HP : pall (fun r => match_post c r /\ reps_nonneg (fst r)) P).
    { unfold P. destruct (br =? 0); apply pall_and;
        auto using decode_match_post, decode_rep_match_post, decode_match_rep0, decode_rep_match_rep0. }
    eapply peq_bind; [apply (peq_pall_refl _ P HP)|].
    intros cl ? (<- & (Hsame & Hst1 & Hnl & Hlen) & Hrn).
    set (dist := rep_as_usize (c_rep0 (fst cl))).
    assert (Hd0 : 0 <= dist) by (apply rep_as_usize_nonneg; apply Hrn).
    destruct (Z.le_gt_cases (w_full w) dist) as [Hfar|Hnear].
    + rewrite (repeat_err w hist dist (snd cl) R Hfar). constructor.
      unfold sym_rel. destruct cl as [c1 len]; cbn [fst snd] in *.
      destruct Hsame as (S1 & S2 & S3). destruct Hrn as (N0 & N1 & N2 & N3).
      repeat split; auto; try lia. rewrite (repeat_err w hist dist len R Hfar). split; reflexivity.
    + destruct (repeat_rel w hist dist (snd cl) R ltac:(lia) ltac:(lia) ltac:(lia)) as (w' & Hrp & _).
      rewrite Hrp. constructor.
      unfold sym_rel. destruct cl as [c1 len]; cbn [fst snd] in *.
      destruct Hsame as (S1 & S2 & S3). destruct Hrn as (N0 & N1 & N2 & N3).
      repeat split; auto; try lia. rewrite Hrp. split; reflexivity.
Qed.

(* ---- the pending part of a match is copied byte by byte ------------------------------------- *)
Lemma aproduce_pending m : forall n s,
  (m <= n)%nat -> Z.of_nat m <= a_pend_len s ->
  aproduce n s =
  aproduce (n - m) (mkAstate (a_coder s) (hcopy (a_hist s) (a_pend_dist s) m) (a_dict s)
                             (a_pend_len s - Z.of_nat m) (a_pend_dist s)).
Proof.
  induction m as [|m' IH]; intros n s Hmn Hpl.
  - rewrite Nat.sub_0_r. cbn [hcopy Z.of_nat]. rewrite Z.sub_0_r. destruct s; reflexivity.
  - destruct n as [|k]; [lia|]. cbn [aproduce].
    destruct (Z.ltb_spec 0 (a_pend_len s)); [|lia].
    rewrite (IH k) by (cbn [a_pend_len]; lia).
    cbn [a_coder a_hist a_dict a_pend_len a_pend_dist hcopy Nat.sub].
    do 2 f_equal. lia.
Qed.

(* ---- LZMADecoder::decode's loop = aproduce --------------------------------------------------- *)
Definition loop_rel (w : lzwin) (hist : list Z) (r1 : coder * lzwin * outcome unit) (r2 : astate * outcome unit) : Prop :=
  let '(c1, w1, st) := r1 in
  let '(s2, st2) := r2 in
  st = st2 /\ c1 = a_coder s2 /\ Rel w1 (a_hist s2) /\ a_dict s2 = w_size w /\
  w_size w1 = w_size w /\ w_limit w1 = w_limit w /\ w_start w1 = w_start w /\
  w_pos w <= w_pos w1 <= w_limit w /\
  zlen (a_hist s2) = zlen hist + (w_pos w1 - w_pos w) /\
  w_pending_len w1 = a_pend_len s2 /\
  (st = Ok tt -> coder_ok c1 (w_full w1) /\ (w_pos w1 = w_limit w \/ a_pend_len s2 = 0)) /\
  (0 < a_pend_len s2 -> w_pending_dist w1 = a_pend_dist s2 /\ 0 <= a_pend_dist s2 < w_full w1).

Lemma coder_ok_mono c f1 f2 : coder_ok c f1 -> f1 <= f2 -> coder_ok c f2.
Proof. intros (A & B & C & D) H. repeat split; try apply A; try apply B; try apply C. intros E. specialize (D E). lia. Qed.

Lemma loop_rel_step w hist w1 hist1 r1 r2 :
  loop_rel w1 hist1 r1 r2 ->
  w_size w1 = w_size w -> w_limit w1 = w_limit w -> w_start w1 = w_start w -> w_pos w <= w_pos w1 ->
  zlen hist1 = zlen hist + (w_pos w1 - w_pos w) ->
  loop_rel w hist r1 r2.
Proof.
  destruct r1 as [[c3 w3] st3]. destruct r2 as [s4 st4]. unfold loop_rel.
  intros (E1 & E2 & E3 & E4 & E5 & E6 & E7 & E8 & E9 & E10 & E11 & E12) Hsz Hli Hst Hpo Hzl.
  rewrite Hsz, Hli, Hst in *.
  split; [exact E1|]. split; [exact E2|]. split; [exact E3|]. split; [exact E4|]. split; [exact E5|].
  split; [exact E6|]. split; [exact E7|]. split; [lia|]. split; [lia|]. split; [exact E10|].
  split; [exact E11 | exact E12].
Qed.

Lemma decode_loop_abs : forall n fuel c w hist,
  Rel w hist -> coder_ok c (w_full w) -> w_pos w <= w_limit w ->
  Z.of_nat n = w_limit w - w_pos w -> (n <= fuel)%nat ->
  (0 < w_pending_len w -> n = 0%nat /\ 0 <= w_pending_dist w < w_full w) ->
  peq (loop_rel w hist) (decode_loop fuel c w)
      (aproduce n (mkAstate c hist (w_size w) (w_pending_len w) (w_pending_dist w))).
Proof.
  induction n as [n IHn] using lt_wf_ind. intros fuel c w hist R Hc Hpl Hn Hfuel Hpend.
  pose proof R as [[Hs Hs16] [[Hp0 Hp1] Hp2] [Hf [Hpf Hnw]] Hl Hm Hcells Hem Hpe].
  destruct n as [|k].
  - (* no room: both return immediately *)
    assert (Hns : lzwin_has_space w = false) by (unfold lzwin_has_space; apply Z.ltb_ge; lia).
    assert (Hgoal : loop_rel w hist (c, w, Ok tt)
              (mkAstate c hist (w_size w) (w_pending_len w) (w_pending_dist w), Ok tt)).
    { unfold loop_rel; cbn [a_coder a_hist a_dict a_pend_len a_pend_dist].
      split; [reflexivity|]. split; [reflexivity|]. split; [exact R|]. split; [reflexivity|].
      split; [reflexivity|]. split; [reflexivity|]. split; [reflexivity|]. split; [lia|]. split; [lia|].
      split; [reflexivity|]. split.
      - intros _. split; [exact Hc | left; lia].
      - intros Hpos. split; [reflexivity | apply Hpend; assumption]. }
    destruct fuel; cbn [decode_loop aproduce]; rewrite Hns; apply peq_ret; exact Hgoal.
  - assert (Hsp : lzwin_has_space w = true) by (unfold lzwin_has_space; apply Z.ltb_lt; lia).
    assert (Hp0' : w_pending_len w = 0).
    { destruct (Z.ltb_spec 0 (w_pending_len w)) as [Hlt|Hge]; [destruct (Hpend Hlt); discriminate | lia]. }
    destruct fuel as [|f]; [lia|]. cbn [decode_loop aproduce]. rewrite Hsp, Hp0'.
    change (0 <? 0) with false. cbv iota. cbn [a_coder a_hist a_dict a_pend_len a_pend_dist].
    eapply peq_bind; [apply (decode_symbol_abs c w hist R Hc); lia|].
    intros [[c1 w1] st] [c2 res] Hrel. unfold sym_rel in Hrel. cbn [snd fst].
    destruct Hrel as (<- & Hsame & Hst1 & Hrn & Hres).
    destruct Hc as (Hpar & Hst & Hreps & Hrep0).
    assert (Hpar1 : params_ok c1).
    { destruct Hsame as (S1 & S2 & S3). unfold params_ok. rewrite S1, S2, S3. exact Hpar. }
    destruct res as [b|dist len].
    + (* literal *)
      destruct Hres as (-> & Hlit & Hput).
      destruct (put_byte_rel w hist b R ltac:(lia)) as (w' & Hput' & R' & Hst' & Hli' & Hpo' & Hsz' & Hpl' & Hpd').
      rewrite Hput in Hput'. inversion Hput'; subst w'. clear Hput'.
      assert (IH := IHn k ltac:(lia) f c1 w1 (b :: hist) R').
      rewrite Hsz', Hpl', Hp0' in IH. rewrite Hpd' in IH.
      assert (Hc1 : coder_ok c1 (w_full w1)).
      { split; [exact Hpar1|]. split; [exact Hst1|]. split; [exact Hrn|]. intros E. rewrite Hlit in E. discriminate. }
      specialize (IH Hc1 ltac:(lia) ltac:(lia) ltac:(lia) ltac:(intros; lia)).
      eapply peq_mono; [|exact IH].
      intros r1 r2 Hr. eapply loop_rel_step; [exact Hr | lia | lia | lia | lia |]. rewrite zlen_cons. lia.
    + (* copy *)
      destruct Hres as (Hnl & -> & Hd0 & Hlen & Hrep).
      set (dist := rep_as_usize (c_rep0 c1)) in *.
      assert (Hafull : a_full (mkAstate c hist (w_size w) 0 (w_pending_dist w)) = w_full w).
      { unfold a_full; cbn [a_hist a_dict]. lia. }
      rewrite Hafull.
      destruct (Z.leb_spec (w_full w) dist) as [Hfar|Hnear].
      * rewrite (repeat_err w hist dist len R Hfar) in Hrep. destruct Hrep as (-> & ->).
        apply peq_ret. unfold loop_rel; cbn [a_coder a_hist a_dict a_pend_len a_pend_dist].
        repeat split; auto; try lia; try discriminate.
      * destruct (Z.leb_spec len 0); [lia|].
        destruct (repeat_rel w hist dist len R ltac:(lia) ltac:(lia) ltac:(lia)) as (w' & Hrp & R' & Hpl' & Hpd' & Hst' & Hli' & Hsz' & Hpo').
        rewrite Hrp in Hrep. destruct Hrep as (-> & ->).
        set (m := Z.min (w_limit w - w_pos w) len) in *.
        assert (Hm1 : 1 <= m) by (unfold m; lia).
        (* the specification copies the first byte, then the pending ones *)
        set (m' := Z.to_nat (m - 1)).
        rewrite (aproduce_pending m' k) by (cbn [a_pend_len]; unfold m', m; lia).
        cbn [a_coder a_hist a_dict a_pend_len a_pend_dist].
        assert (Hh : hcopy (hnth hist dist :: hist) dist m' = hcopy hist dist (Z.to_nat m)).
        { replace (Z.to_nat m) with (S m') by (unfold m'; lia). reflexivity. }
        rewrite Hh.
        assert (Hfull1 : w_full w <= w_full w').
        { destruct R' as [_ _ [Hf' _] _ _ _ _ _]. rewrite Hf', Hf, hcopy_length. lia. }
        assert (IH := IHn (k - m')%nat ltac:(lia) f c1 w' (hcopy hist dist (Z.to_nat m)) R').
        rewrite Hsz', Hpl', Hpd' in IH.
        replace (len - 1 - Z.of_nat m') with (len - m) by (unfold m'; lia).
        assert (Hc1 : coder_ok c1 (w_full w')).
        { split; [exact Hpar1|]. split; [exact Hst1|]. split; [exact Hrn|]. intros _. fold dist. lia. }
        specialize (IH Hc1 ltac:(lia) ltac:(unfold m'; lia) ltac:(lia)).
        assert (Hpend' : 0 < len - m -> (k - m')%nat = 0%nat /\ 0 <= dist < w_full w') by (intros; unfold m', m in *; split; lia).
        specialize (IH Hpend').
        eapply peq_mono; [|exact IH].
        intros r1 r2 Hr. eapply loop_rel_step; [exact Hr | lia | lia | lia | lia |]. rewrite hcopy_length. lia.
Qed.

(* ---- producing a+b bytes = producing a, then b ---------------------------------------------- *)
Definition athen (b : nat) (r : astate * outcome unit) : prog (astate * outcome unit) :=
  match snd r with
  | Ok _ => aproduce b (fst r)
  | _ => Ret r
  end.

Lemma aproduce_split a : forall b s,
  peq eq (aproduce (a + b) s) (pbind (aproduce a s) (athen b)).
Proof.
  induction a as [|k IH]; intros b s.
  - cbn [Nat.add aproduce pbind athen snd fst]. apply peq_refl.
  - cbn [Nat.add aproduce].
    destruct (0 <? a_pend_len s); [apply IH|].
    cbn [pbind]. eapply peq_trans_eq; [|apply peq_sym_eq, pbind_assoc].
    eapply peq_bind; [apply peq_refl|]. intros r ? <-.
    destruct (snd r) as [byte|dist len].
    + apply IH.
    + destruct (a_full s <=? dist); [cbn [pbind athen snd]; apply peq_refl|].
      destruct (len <=? 0); [cbn [pbind]; apply peq_refl|]. apply IH.
Qed.

(* ---- LZMADecoder::decode(lz, rc) as a whole: repeat_pending, the loop, the trailing normalize -- *)
Theorem lzma_decode_abs c w hist d t n :
  Rel w hist -> coder_ok c (w_full w) -> w_pos w <= w_limit w ->
  Z.of_nat n = w_limit w - w_pos w ->
  (0 < w_pending_len w -> 0 <= w_pending_dist w < w_full w) ->
  match run_rc (aproduce n (mkAstate c hist (w_size w) (w_pending_len w) (w_pending_dist w))) d t with
  | Ok (s2, st2, d2, t2) =>
      exists w1, lzma_decode c w d t =
                 Ok (a_coder s2, w1, st2, match st2 with Ok _ => rdec_normalize d2 | _ => d2 end, t2) /\
                 loop_rel w hist (a_coder s2, w1, st2) (s2, st2)
  | Err e => lzma_decode c w d t = Err e
  | Panic e => lzma_decode c w d t = Panic e
  | Fuel => lzma_decode c w d t = Fuel
  end.
Proof.
  intros R Hc Hpl Hn Hpd.
  pose proof R as [[Hs Hs16] [[Hp0 Hp1] Hp2] [Hf [Hpf Hnw]] Hl Hm Hcells Hem Hpe].
  unfold lzma_decode, lzwin_repeat_pending.
  destruct (Z.ltb_spec 0 (w_pending_len w)) as [Hpos|Hzero].
  - (* a pending copy is resumed first *)
    specialize (Hpd Hpos).
    destruct (repeat_rel w hist (w_pending_dist w) (w_pending_len w) R Hpl Hpd ltac:(lia))
      as (w0 & Hrp & R0 & Hpl0 & Hpd0 & Hst0 & Hli0 & Hsz0 & Hpo0).
    rewrite Hrp.
    set (m := Z.min (w_limit w - w_pos w) (w_pending_len w)) in *.
    rewrite (aproduce_pending (Z.to_nat m) n) by (cbn [a_pend_len]; unfold m; lia).
    cbn [a_coder a_hist a_dict a_pend_len a_pend_dist].
    assert (Hfull0 : w_full w <= w_full w0).
    { destruct R0 as [_ _ [Hf0 _] _ _ _ _ _]. rewrite Hf0, Hf, hcopy_length. lia. }
    pose proof (decode_loop_abs (n - Z.to_nat m) (Z.to_nat (w_limit w0 - w_pos w0)) c w0
                  (hcopy hist (w_pending_dist w) (Z.to_nat m)) R0 (coder_ok_mono _ _ _ Hc Hfull0)) as HL.
    rewrite Hsz0, Hpl0, Hpd0 in HL.
    replace (w_pending_len w - Z.of_nat (Z.to_nat m)) with (w_pending_len w - m) by (unfold m; lia).
    specialize (HL ltac:(lia) ltac:(unfold m in *; lia) ltac:(unfold m in *; lia)).
    specialize (HL ltac:(intros; unfold m in *; split; lia)).
    pose proof (run_rc_peq _ _ _ HL d t) as HR.
    destruct (run_rc (aproduce (n - Z.to_nat m) _) d t) as [[[[s2 st2] d2] t2]|e|e|];
      destruct (run_rc (decode_loop _ c w0) d t) as [[[[[c1 w1] st1] d1] t1]|e1|e1|]; try contradiction; try (subst; reflexivity).
    destruct HR as (Hrel & -> & ->).
    pose proof Hrel as (E1 & E2 & _). subst st2 c1. cbn [snd fst].
    exists w1. split; [destruct st1; reflexivity|].
    eapply loop_rel_step; [exact Hrel | lia | lia | lia | lia |]. rewrite hcopy_length. lia.
  - pose proof (decode_loop_abs n (Z.to_nat (w_limit w - w_pos w)) c w hist R Hc Hpl Hn ltac:(lia) ltac:(intros; lia)) as HL.
    pose proof (run_rc_peq _ _ _ HL d t) as HR.
    destruct (run_rc (aproduce n _) d t) as [[[[s2 st2] d2] t2]|e|e|];
      destruct (run_rc (decode_loop _ c w) d t) as [[[[[c1 w1] st1] d1] t1]|e1|e1|]; try contradiction; try (subst; reflexivity).
    destruct HR as (Hrel & -> & ->).
    pose proof Hrel as (E1 & E2 & _). subst st2 c1. cbn [snd fst].
    exists w1. split; [destruct st1; reflexivity | exact Hrel].
Qed.
