(* Codec/TruncProofs.v — C05, truncation of the source under the range decoder.
   INPUT MONOTONICITY: a run of a decision program against the range decoder that never fetched a
   byte past the end of its input ([rd_over] unchanged) is reproduced verbatim when more bytes
   follow that input: same answers, same result, same tables, and the additional bytes are left
   unread behind the bytes the shorter run left unread.  Read from right to left: over a TRUNCATED
   input (a prefix of the real one) the run either does exactly what the run over the complete
   input does - or it has fetched past the end, which the readers turn into UnexpectedEof.
   Lifted through decode_loop / lzma_decode.  Proofs only (plus the observers they talk about). *)
From LzVerif Require Import Base.Bytes Codec.Store Codec.Range Codec.LzWindow Codec.LzmaDec Codec.ProgProofs.
Ltac Zify.zify_post_hook ::= Z.div_mod_to_equations.

(* the decoder with [tl] appended to the unread input *)
Definition rd_app (d : rdec) (tl : list Z) : rdec :=
  mkRdec (rd_range d) (rd_code d) (rd_in d ++ tl) (rd_over d).

Lemma rd_app_nil d : rd_app d [] = d.
Proof. destruct d as [r c i o]. unfold rd_app; cbn [rd_range rd_code rd_in rd_over]. rewrite app_nil_r. reflexivity. Qed.

Lemma rd_app_app d a b : rd_app (rd_app d a) b = rd_app d (a ++ b).
Proof. unfold rd_app; cbn [rd_range rd_code rd_in rd_over]. rewrite app_assoc. reflexivity. Qed.

Lemma rd_app_over d tl : rd_over (rd_app d tl) = rd_over d.
Proof. reflexivity. Qed.

Lemma rd_app_range d tl : rd_range (rd_app d tl) = rd_range d.
Proof. reflexivity. Qed.

(* ---- one normalisation ------------------------------------------------------------------------ *)
Lemma normalize_over_mono d : rd_over d <= rd_over (rdec_normalize d).
Proof.
  unfold rdec_normalize. destruct (rd_range d <? P2_24); [|lia].
  unfold rdec_read. destruct (rd_in d); cbn [rd_over]; lia.
Qed.

Lemma normalize_range_app d tl : rd_range (rdec_normalize (rd_app d tl)) = rd_range (rdec_normalize d).
Proof.
  unfold rdec_normalize. rewrite rd_app_range. destruct (rd_range d <? P2_24); [|reflexivity].
  unfold rdec_read, rd_app; cbn [rd_in rd_range rd_code rd_over].
  destruct (rd_in d) as [|b r]; cbn [app]; [destruct tl|]; reflexivity.
Qed.

Lemma normalize_app d tl : rd_over (rdec_normalize d) = rd_over d ->
  rdec_normalize (rd_app d tl) = rd_app (rdec_normalize d) tl.
Proof.
  unfold rdec_normalize. rewrite rd_app_range. destruct (rd_range d <? P2_24); [|reflexivity].
  unfold rdec_read, rd_app; cbn [rd_in rd_range rd_code rd_over].
  destruct (rd_in d) as [|b r]; cbn [app rd_in rd_over rd_range rd_code]; [intros H; lia | reflexivity].
Qed.

(* ---- one context-coded bit -------------------------------------------------------------------- *)
Lemma decode_bit_over_mono d t k b d1 t1 : decode_bit d t k = Some (b, d1, t1) -> rd_over d <= rd_over d1.
Proof.
  unfold decode_bit. pose proof (normalize_over_mono d) as Hn.
  destruct (P2_32 <=? _); [discriminate|].
  destruct (rd_code _ <? _); intros H; inversion H; subst; cbn [rd_over]; exact Hn.
Qed.

(* whether the checked product overflows depends on the range only, never on the input bytes *)
Lemma decode_bit_none_app d t k tl : decode_bit d t k = None -> decode_bit (rd_app d tl) t k = None.
Proof.
  unfold decode_bit. rewrite normalize_range_app.
  destruct (P2_32 <=? _); [reflexivity|]. destruct (rd_code _ <? _); discriminate.
Qed.

Lemma decode_bit_app d t k b d1 t1 tl :
  decode_bit d t k = Some (b, d1, t1) -> rd_over d1 = rd_over d ->
  decode_bit (rd_app d tl) t k = Some (b, rd_app d1 tl, t1).
Proof.
  unfold decode_bit. intros H Ho.
  assert (Hn : rd_over (rdec_normalize d) = rd_over d).
  { pose proof (normalize_over_mono d).
    destruct (P2_32 <=? _); [discriminate|].
    destruct (rd_code _ <? _); inversion H; subst; cbn [rd_over] in Ho; exact Ho. }
  rewrite (normalize_app d tl Hn).
  change (rd_range (rd_app (rdec_normalize d) tl)) with (rd_range (rdec_normalize d)).
  change (rd_code (rd_app (rdec_normalize d) tl)) with (rd_code (rdec_normalize d)).
  destruct (P2_32 <=? _); [discriminate|].
  destruct (rd_code _ <? _); inversion H; subst; reflexivity.
Qed.

(* ---- direct bits ------------------------------------------------------------------------------ *)
Lemma direct_bits_over_mono n : forall d acc v d1, decode_direct_bits d n acc = (v, d1) -> rd_over d <= rd_over d1.
Proof.
  induction n as [|m IH]; intros d acc v d1 H; cbn [decode_direct_bits] in H.
  - inversion H; subst. lia.
  - apply IH in H. cbn [rd_over] in H. pose proof (normalize_over_mono d). lia.
Qed.

Lemma direct_bits_app n : forall d acc v d1 tl,
  decode_direct_bits d n acc = (v, d1) -> rd_over d1 = rd_over d ->
  decode_direct_bits (rd_app d tl) n acc = (v, rd_app d1 tl).
Proof.
  induction n as [|m IH]; intros d acc v d1 tl H Ho; cbn [decode_direct_bits] in *.
  - inversion H; subst. reflexivity.
  - pose proof (direct_bits_over_mono _ _ _ _ _ H) as Hm. cbn [rd_over] in Hm.
    pose proof (normalize_over_mono d) as Hn.
    assert (Hn' : rd_over (rdec_normalize d) = rd_over d) by lia.
    rewrite (normalize_app d tl Hn').
    change (rd_range (rd_app (rdec_normalize d) tl)) with (rd_range (rdec_normalize d)).
    change (rd_code (rd_app (rdec_normalize d) tl)) with (rd_code (rdec_normalize d)).
    change (rd_in (rd_app (rdec_normalize d) tl)) with (rd_in (rdec_normalize d) ++ tl).
    change (rd_over (rd_app (rdec_normalize d) tl)) with (rd_over (rdec_normalize d)).
    specialize (IH _ _ _ _ tl H ltac:(cbn [rd_over]; lia)).
    exact IH.
Qed.

(* ---- the program runner ----------------------------------------------------------------------- *)
(* the range decoder at the point where the run stops - with a value or with a failure *)
Fixpoint run_rc_end {A} (p : prog A) (d : rdec) (t : probs) : rdec :=
  match p with
  | Ret _ => d
  | Fail _ => d
  | Bit key k =>
      match decode_bit d t key with
      | None => rdec_normalize d
      | Some (b, d1, t1) => run_rc_end (k b) d1 t1
      end
  | Direct n k => let '(v, d1) := decode_direct_bits d n 0 in run_rc_end (k v) d1 t
  end.

Definition omap {A B} (f : A -> B) (o : outcome A) : outcome B :=
  match o with Ok a => Ok (f a) | Err e => Err e | Panic e => Panic e | Fuel => Fuel end.

Definition res_app {A} (tl : list Z) (r : A * rdec * probs) : A * rdec * probs :=
  (fst (fst r), rd_app (snd (fst r)) tl, snd r).

Lemma run_rc_end_ok {A} (p : prog A) : forall d t a d1 t1, run_rc p d t = Ok (a, d1, t1) -> run_rc_end p d t = d1.
Proof.
  induction p as [a|e|key k IH|n k IH]; intros d t a0 d1 t1 H; cbn [run_rc run_rc_end] in *.
  - inversion H; reflexivity.
  - destruct e; discriminate.
  - destruct (decode_bit d t key) as [[[b d2] t2]|]; [eapply IH; exact H | discriminate].
  - destruct (decode_direct_bits d n 0) as [v d2]. eapply IH; exact H.
Qed.

Lemma run_rc_end_over_mono {A} (p : prog A) : forall d t, rd_over d <= rd_over (run_rc_end p d t).
Proof.
  induction p as [a|e|key k IH|n k IH]; intros d t; cbn [run_rc_end]; try lia.
  - destruct (decode_bit d t key) as [[[b d2] t2]|] eqn:E.
    + pose proof (decode_bit_over_mono _ _ _ _ _ _ E). specialize (IH b d2 t2). lia.
    + apply normalize_over_mono.
  - destruct (decode_direct_bits d n 0) as [v d2] eqn:E.
    pose proof (direct_bits_over_mono _ _ _ _ _ E). specialize (IH v d2 t). lia.
Qed.

(* INPUT MONOTONICITY of run_rc: whatever the run over [rd_in d] returns - a value or a failure -
   provided it never fetched past the end, the run over [rd_in d ++ tl] returns the same, and [tl]
   stays unread behind what was left *)
Theorem run_rc_mono {A} (p : prog A) : forall d t tl,
  rd_over (run_rc_end p d t) = rd_over d ->
  run_rc p (rd_app d tl) t = omap (res_app tl) (run_rc p d t).
Proof.
  induction p as [a|e|key k IH|n k IH]; intros d t tl Ho; cbn [run_rc run_rc_end] in *.
  - reflexivity.
  - destruct e; reflexivity.
  - destruct (decode_bit d t key) as [[[b d2] t2]|] eqn:E.
    + pose proof (decode_bit_over_mono _ _ _ _ _ _ E) as H1.
      pose proof (run_rc_end_over_mono (k b) d2 t2) as H2.
      rewrite (decode_bit_app _ _ _ _ _ _ tl E ltac:(lia)).
      apply IH. lia.
    + rewrite (decode_bit_none_app _ _ _ tl E). reflexivity.
  - destruct (decode_direct_bits d n 0) as [v d2] eqn:E.
    pose proof (direct_bits_over_mono _ _ _ _ _ E) as H1.
    pose proof (run_rc_end_over_mono (k v) d2 t) as H2.
    rewrite (direct_bits_app _ _ _ _ _ tl E ltac:(lia)).
    apply IH. lia.
Qed.

(* the successful case, as used by the readers *)
Corollary run_rc_mono_ok {A} (p : prog A) d t tl a d1 t1 :
  run_rc p d t = Ok (a, d1, t1) -> rd_over d1 = rd_over d ->
  run_rc p (rd_app d tl) t = Ok (a, rd_app d1 tl, t1).
Proof.
  intros H Ho. rewrite run_rc_mono by (rewrite (run_rc_end_ok _ _ _ _ _ _ H); exact Ho).
  rewrite H. reflexivity.
Qed.

Lemma run_rc_over_mono {A} (p : prog A) d t a d1 t1 : run_rc p d t = Ok (a, d1, t1) -> rd_over d <= rd_over d1.
Proof. intros H. rewrite <- (run_rc_end_ok _ _ _ _ _ _ H). apply run_rc_end_over_mono. Qed.

(* TRUNCATION: [full] is the complete input, the decoder is given only [firstn k full]; the run
   either is the run over the complete input (which leaves, in addition, the cut-off bytes
   unread) or it has fetched a byte past the end of the truncated input *)
Theorem run_rc_truncated {A} (p : prog A) : forall range code full over t k,
  let dt := mkRdec range code (firstn k full) over in
  let df := mkRdec range code full over in
  over < rd_over (run_rc_end p dt t) \/
  run_rc p df t = omap (res_app (skipn k full)) (run_rc p dt t).
Proof.
  intros range code full over t k dt df.
  pose proof (run_rc_end_over_mono p dt t) as Hm. change (rd_over dt) with over in Hm.
  destruct (Z.eq_dec (rd_over (run_rc_end p dt t)) over) as [He|Hne]; [right | left; lia].
  rewrite <- (run_rc_mono p dt t (skipn k full) He).
  unfold rd_app, dt, df; cbn [rd_range rd_code rd_in rd_over]. rewrite firstn_skipn. reflexivity.
Qed.

(* ---- LZMADecoder::decode ---------------------------------------------------------------------- *)
Lemma lzma_decode_over_mono c w d t c1 w1 st d1 t1 :
  lzma_decode c w d t = Ok (c1, w1, st, d1, t1) -> rd_over d <= rd_over d1.
Proof.
  unfold lzma_decode. destruct (lzwin_repeat_pending w) as [w0|e|e|]; try discriminate.
  - destruct (run_rc _ d t) as [[[r d2] t2]|e|e|] eqn:E; try discriminate.
    pose proof (run_rc_over_mono _ _ _ _ _ _ E) as Hm.
    destruct (snd r); intros H; inversion H; subst; try exact Hm.
    pose proof (normalize_over_mono d2). lia.
  - intros H; inversion H; subst. lia.
Qed.

(* one decode call that did not fetch past the end is the same call over the longer input *)
Theorem lzma_decode_mono c w d t tl c1 w1 st d1 t1 :
  lzma_decode c w d t = Ok (c1, w1, st, d1, t1) -> rd_over d1 = rd_over d ->
  lzma_decode c w (rd_app d tl) t = Ok (c1, w1, st, rd_app d1 tl, t1).
Proof.
  unfold lzma_decode. destruct (lzwin_repeat_pending w) as [w0|e|e|]; try discriminate.
  - destruct (run_rc _ d t) as [[[r d2] t2]|e|e|] eqn:E; try discriminate.
    pose proof (run_rc_over_mono _ _ _ _ _ _ E) as Hm.
    intros H Ho.
    assert (Ho2 : rd_over d2 = rd_over d).
    { destruct (snd r); inversion H; subst; try exact Ho.
      pose proof (normalize_over_mono d2). lia. }
    rewrite (run_rc_mono_ok _ _ _ tl _ _ _ E Ho2).
    destruct (snd r) eqn:Er; inversion H; subst; try reflexivity.
    rewrite normalize_app by lia. reflexivity.
  - intros H Ho; inversion H; subst. reflexivity.
Qed.

(* truncated input under one decode call: whenever the call over the truncated input returns
   without having fetched past its end, the call over the complete input returns the same coder,
   window, status and tables, and its unread input is the truncated run's plus the cut-off part *)
Corollary lzma_decode_truncated c w range code full t k c1 w1 st d1 t1 :
  lzma_decode c w (mkRdec range code (firstn k full) 0) t = Ok (c1, w1, st, d1, t1) ->
  0 < rd_over d1 \/
  lzma_decode c w (mkRdec range code full 0) t = Ok (c1, w1, st, rd_app d1 (skipn k full), t1).
Proof.
  intros H. pose proof (lzma_decode_over_mono _ _ _ _ _ _ _ _ _ H) as Hm. cbn [rd_over] in Hm.
  destruct (Z.eq_dec (rd_over d1) 0) as [He|Hne]; [right | left; lia].
  pose proof (lzma_decode_mono _ _ _ _ (skipn k full) _ _ _ _ _ H He) as HM.
  unfold rd_app at 1 in HM; cbn [rd_range rd_code rd_in rd_over] in HM. rewrite firstn_skipn in HM. exact HM.
Qed.
