(* Codec/EncWindowProofs.v — theorems about the position accounting of Codec/EncWindow.v.
   Everything is stated for ALL call histories, ALL parser strategies and ALL range-coder
   oracles (Section variables of EncWindow.v, universally quantified here). *)
From LzVerif Require Import Base.Bytes Codec.EncWindow.
Ltac Zify.zify_post_hook ::= Z.div_mod_to_equations.

(* ---------------------------------------------------------------------------------------------
   result discipline: a run may end because the oracle left its contract; it never panics and
   never runs out of the stated fuel *)
Definition okor {A} (o : outcome A) (Q : A -> Prop) : Prop :=
  match o with
  | Ok a => Q a
  | Err c => c = V_BAD_PARSER \/ c = V_BAD_RC
  | Panic _ => False
  | Fuel => False
  end.

Lemma okor_bind {A B} (x : outcome A) (f : A -> outcome B) (Q1 : A -> Prop) (Q2 : B -> Prop) :
  okor x Q1 -> (forall a, Q1 a -> okor (f a) Q2) -> okor (obind x f) Q2.
Proof. destruct x; cbn; auto; intros []. Qed.

Lemma okor_weaken {A} (o : outcome A) (Q Q' : A -> Prop) :
  okor o Q -> (forall a, Q a -> Q' a) -> okor o Q'.
Proof. destruct o; cbn; auto. Qed.

Lemma okor_ok {A} (o : outcome A) (Q : A -> Prop) a : okor o Q -> o = Ok a -> Q a.
Proof. intros H E; subst; exact H. Qed.

Lemma ck_i32_ok x : I32_MIN <= x <= I32_MAX -> ck_i32 x = Ok x.
Proof.
  intros H. unfold ck_i32. destruct (Z.leb_spec I32_MIN x); [|lia]. destruct (Z.leb_spec x I32_MAX); [|lia]. reflexivity.
Qed.
Lemma ck_u32_ok x : 0 <= x <= U32_MAX -> ck_u32 x = Ok x.
Proof.
  intros H. unfold ck_u32. destruct (Z.leb_spec 0 x); [|lia]. destruct (Z.leb_spec x U32_MAX); [|lia]. reflexivity.
Qed.
Lemma ck_u64_ok x : 0 <= x <= U64_MAX -> ck_u64 x = Ok x.
Proof.
  intros H. unfold ck_u64. destruct (Z.leb_spec 0 x); [|lia]. destruct (Z.leb_spec x U64_MAX); [|lia]. reflexivity.
Qed.
Lemma as_i32_id x : I32_MIN <= x <= I32_MAX -> as_i32 x = x.
Proof. unfold as_i32, I32_MIN, I32_MAX. intros H. rewrite Z.mod_small; lia. Qed.
Lemma as_u32_id x : 0 <= x <= U32_MAX -> as_u32 x = x.
Proof. unfold as_u32, U32_MAX. intros H. rewrite Z.mod_small; lia. Qed.

(* x & !63 for x >= 0 *)
Lemma land_m64 x : 0 <= x -> Z.land x (-64) = x - x mod 64.
Proof.
  intros Hx. change (-64) with (Z.lnot (Z.ones 6)).
  rewrite <- Z.ldiff_land, Z.ldiff_ones_r by lia.
  rewrite Z.shiftl_mul_pow2, Z.shiftr_div_pow2 by lia. change (2 ^ 6) with 64. lia.
Qed.

(* ---------------------------------------------------------------------------------------------
   sums over the event trace *)
Fixpoint sum_sym (tr : list wev) : Z :=
  match tr with [] => 0 | EvSym len _ :: r => len + sum_sym r | _ :: r => sum_sym r end.
Fixpoint sum_fill (tr : list wev) : Z :=
  match tr with [] => 0 | EvFill _ used :: r => used + sum_fill r | _ :: r => sum_fill r end.
Fixpoint sum_abs (tr : list wev) : Z :=
  match tr with [] => 0 | EvAbsorb n :: r => n + sum_abs r | _ :: r => sum_abs r end.
Fixpoint sum_chunk (tr : list wev) : Z :=
  match tr with [] => 0 | EvLzma u _ :: r => u + sum_chunk r | EvUnc u :: r => u + sum_chunk r | _ :: r => sum_chunk r end.

(* the four sums and the symbol lengths at once *)
(* what determines the output besides the data: the symbols (here: their lengths; everything else
   the parser decided lives in its state) and the chunk decisions, newest first *)
Inductive iev : Type := ISym (len : Z) | ILzma (u c : Z) | IUnc (u : Z).
Fixpoint rsyms (tr : list wev) : list iev :=
  match tr with
  | [] => []
  | EvSym len _ :: r => ISym len :: rsyms r
  | EvLzma u c :: r => ILzma u c :: rsyms r
  | EvUnc u :: r => IUnc u :: rsyms r
  | _ :: r => rsyms r
  end.

Definition acct (tr : list wev) : Z * Z * Z * Z * list iev := (sum_sym tr, sum_fill tr, sum_abs tr, sum_chunk tr, rsyms tr).

(* ---------------------------------------------------------------------------------------------
   configuration *)
Record wf_p (p : lzp) : Prop := mkWf {
  wf_mlm : 1 <= match_len_max p;
  wf_rf : REQ_FINISH <= req_flush p <= match_len_max p;
  wf_ea : 0 <= extra_after p <= 65536;
  wf_ka : keep_after p = extra_after p + match_len_max p;
  wf_mb : 1 <= mode_before p <= 65536;
  wf_dict : 1 <= dict_size p;
  wf_kb : dict_size p + mode_before p <= keep_before p;
  wf_kakb : keep_after p <= keep_before p;
  wf_buf : keep_before p + keep_after p + 64 <= buf_size p;
  wf_i32 : buf_size p <= I32_MAX
}.

(* LZEncoderData between two calls *)
Record lzinv (p : lzp) (d : lzd) : Prop := mkLzinv {
  li_rp : -1 <= read_pos d <= write_pos d - 1;
  li_wp : write_pos d <= buf_size p;
  li_rl : -1 <= read_limit d <= write_pos d - 1;
  li_pend : 0 <= pending_size d <= read_pos d + 1;
  li_pb : pending_size d < req_flush p
}.

(* the pending positions are the last ones before read_pos + 1 and each of them saw fewer than
   required_for_flushing bytes of the CURRENT write_pos *)
Definition Kp (p : lzp) (d : lzd) : Prop :=
  pending_size d = 0 \/ pending_size d + (write_pos d - read_pos d) <= req_flush p.

Lemma move_pos_eq d rf rfin :
  rfin <= rf -> -1 <= read_pos d -> read_pos d + 1 <= write_pos d <= I32_MAX ->
  0 <= pending_size d <= I32_MAX ->
  move_pos d rf rfin =
  Ok (let av := write_pos d - (read_pos d + 1) in
      if (av <? rf) && ((av <? rfin) || negb (finishing d))
      then (mkLzd (read_pos d + 1) (read_limit d) (finishing d) (write_pos d) (pending_size d + 1), 0)
      else (mkLzd (read_pos d + 1) (read_limit d) (finishing d) (write_pos d) (pending_size d), av)).
Proof.
  intros Hr H1 H2 H3. unfold move_pos.
  destruct (Z.ltb_spec rf rfin); [lia|].
  rewrite ck_i32_ok by (unfold I32_MIN, I32_MAX in *; lia). cbn [obind].
  rewrite ck_i32_ok by (unfold I32_MIN, I32_MAX in *; lia). cbn [obind].
  destruct ((write_pos d - (read_pos d + 1) <? rf) && ((write_pos d - (read_pos d + 1) <? rfin) || negb (finishing d))); [|reflexivity].
  rewrite ck_u32_ok by (unfold U32_MAX, I32_MAX in *; lia). reflexivity.
Qed.

(* one move inside the data: what it returns and what it does to the state *)
Lemma move_pos_step p d : wf_p p ->
  -1 <= read_pos d -> read_pos d + 1 <= write_pos d - 1 -> write_pos d <= I32_MAX ->
  0 <= pending_size d <= I32_MAX -> Kp p d ->
  exists d1 ret, move_pos d (req_flush p) REQ_FINISH = Ok (d1, ret) /\
    read_pos d1 = read_pos d + 1 /\ write_pos d1 = write_pos d /\ read_limit d1 = read_limit d /\
    finishing d1 = finishing d /\ Kp p d1 /\
    ((ret = 0 /\ pending_size d1 = pending_size d + 1 /\ write_pos d - read_pos d1 < req_flush p) \/
     (ret = write_pos d - read_pos d1 /\ pending_size d1 = pending_size d /\ 1 <= ret)) /\
    (req_flush p <= write_pos d - read_pos d1 -> ret = write_pos d - read_pos d1 /\ pending_size d1 = pending_size d).
Proof.
  intros W H1 H2 H3 H4 HK. destruct W as [W1 W2 W3 W4 W5 W6 W7 W8 W9 W10]. unfold REQ_FINISH in *.
  rewrite move_pos_eq by lia. cbv zeta.
  destruct ((write_pos d - (read_pos d + 1) <? req_flush p) && ((write_pos d - (read_pos d + 1) <? 4) || negb (finishing d))) eqn:Ec.
  - apply andb_true_iff in Ec as [Ec1 _]. apply Z.ltb_lt in Ec1.
    eexists _, _. split; [reflexivity|]. cbn [read_pos write_pos read_limit finishing pending_size].
    split; [reflexivity|]. split; [reflexivity|]. split; [reflexivity|]. split; [reflexivity|].
    split; [unfold Kp in *; cbn [read_pos write_pos pending_size]; right; destruct HK; lia|].
    split; [left; repeat split; lia | intros; lia].
  - apply andb_false_iff in Ec.
    eexists _, _. split; [reflexivity|]. cbn [read_pos write_pos read_limit finishing pending_size].
    split; [reflexivity|]. split; [reflexivity|]. split; [reflexivity|]. split; [reflexivity|].
    split; [unfold Kp in *; cbn [read_pos write_pos pending_size]; destruct HK; [left; assumption | right; lia]|].
    split; [right; repeat split; lia | intros; split; lia].
Qed.

(* mf_skip: n positions, all inside the data, starting with no pending position *)
Lemma mf_skip_spec p : wf_p p -> forall n d tr,
  -1 <= read_pos d -> read_pos d + Z.of_nat n <= write_pos d - 1 -> write_pos d <= I32_MAX ->
  0 <= pending_size d -> Kp p d ->
  okor (mf_skip p n d tr) (fun r =>
    read_pos (fst r) = read_pos d + Z.of_nat n /\ write_pos (fst r) = write_pos d /\
    read_limit (fst r) = read_limit d /\ finishing (fst r) = finishing d /\
    pending_size d <= pending_size (fst r) <= pending_size d + Z.of_nat n /\ Kp p (fst r) /\
    (req_flush p <= write_pos d - (read_pos d + Z.of_nat n) -> pending_size (fst r) = pending_size d) /\
    acct (snd r) = acct tr).
Proof.
  intros W. induction n as [|n IH]; intros d tr H1 H2 H3 H4 HK.
  - cbn [mf_skip okor fst snd]. repeat split; try lia. assumption.
  - cbn [mf_skip].
    assert (Hpb : pending_size d <= I32_MAX).
    { destruct HK as [HK|HK]; [lia|]. destruct W. lia. }
    destruct (move_pos_step p d W) as (d1 & ret & E & A & B & C & D & K1 & Hcase & Hbig); try lia; try assumption.
    rewrite E. cbn [obind fst snd].
    eapply okor_weaken.
    { apply IH; try assumption; try lia. all: destruct Hcase as [(? & ? & ?)|(? & ? & ?)]; lia. }
    intros r (A' & B' & C' & D' & E' & K' & Hbig' & F').
    split; [lia|]. split; [lia|]. split; [congruence|]. split; [congruence|].
    split; [destruct Hcase as [(? & ? & ?)|(? & ? & ?)]; lia|].
    split; [assumption|].
    split; [intros Hb; rewrite Hbig' by lia; apply Hbig; lia|].
    rewrite F'. reflexivity.
Qed.

(* process_pending_bytes: the pending positions are handed to the match finder again, exactly
   pending_size of them (mf_skip n performs n moves), read_pos is back where it was *)
Lemma process_pending_spec p d tr : wf_p p -> lzinv p d ->
  okor (process_pending p d tr) (fun r =>
    lzinv p (fst r) /\ read_pos (fst r) = read_pos d /\ write_pos (fst r) = write_pos d /\
    read_limit (fst r) = read_limit d /\ finishing (fst r) = finishing d /\ acct (snd r) = acct tr /\
    ((fst r = d /\ ~ (0 < pending_size d /\ read_pos d < read_limit d)) \/
     (0 < pending_size d /\ read_pos d < read_limit d /\ Kp p (fst r) /\
      (req_flush p <= write_pos d - read_pos d -> pending_size (fst r) = 0)))).
Proof.
  intros W I. pose proof I as [[Ha Hb] Hc [Hd He] [Hf Hg] Hpb]. pose proof (wf_i32 p W) as Hi.
  pose proof (wf_rf p W) as Hrf. pose proof (wf_mlm p W).
  unfold process_pending.
  destruct ((0 <? pending_size d) && (read_pos d <? read_limit d)) eqn:Ec.
  2:{ cbn [okor fst snd]. repeat split; try lia; try assumption. left. split; [reflexivity|].
      intros [X Y]. apply Z.ltb_lt in X, Y. rewrite X, Y in Ec. discriminate. }
  apply andb_true_iff in Ec as [Ec1 Ec2]. apply Z.ltb_lt in Ec1, Ec2.
  rewrite as_i32_id by (unfold I32_MIN, I32_MAX in *; lia).
  rewrite ck_i32_ok by (unfold I32_MIN, I32_MAX in *; lia). cbn [obind].
  eapply okor_bind.
  { apply mf_skip_spec; cbn [read_pos write_pos pending_size]; try assumption; try lia; try (left; reflexivity). }
  cbn [read_pos write_pos pending_size read_limit finishing]. intros r (A & B & C & D & E & K & Hbig & F).
  rewrite Z2Nat.id in * by lia.
  destruct (Z.ltb_spec (pending_size d) (pending_size (fst r))); [lia|]. cbn [okor].
  assert (Hpb' : pending_size (fst r) < req_flush p).
  { destruct K as [K|K]; lia. }
  repeat split; try lia; try assumption.
  right. repeat split; try lia; try assumption.
Qed.

(* move_window: the offset is a positive multiple of 64 and leaves keep_size_before bytes before
   read_pos + 1 in the buffer (history_kept, per move) *)
Lemma move_window_spec p d tr : wf_p p -> lzinv p d ->
  buf_size p - keep_after p <= read_pos d ->
  exists off, move_window p d tr =
    Ok (mkLzd (read_pos d - off) (read_limit d - off) (finishing d) (write_pos d - off) (pending_size d),
        EvMove off (write_pos d - off) :: tr) /\
    64 <= off /\ off mod 64 = 0 /\ off <= read_pos d + 1 - keep_before p < off + 64.
Proof.
  intros W [[Ha Hb] Hc [Hd He] [Hf Hg] Hpb] Hl. destruct W as [W1 W2 W3 W4 W5 W6 W7 W8 W9 W10].
  set (b := read_pos d + 1 - keep_before p).
  assert (Hb65 : 65 <= b) by (unfold b; lia).
  exists (b - b mod 64).
  unfold move_window.
  rewrite ck_i32_ok by (unfold I32_MIN, I32_MAX in *; lia). cbn [obind].
  rewrite as_i32_id by (unfold I32_MIN, I32_MAX in *; lia).
  rewrite ck_i32_ok by (unfold I32_MIN, I32_MAX in *; lia). cbn [obind].
  fold b. rewrite land_m64 by lia.
  assert (Hm : 0 <= b mod 64 < 64) by (apply Z.mod_pos_bound; lia).
  rewrite ck_i32_ok by (unfold I32_MIN, I32_MAX, b in *; lia). cbn [obind].
  destruct (Z.ltb_spec (write_pos d - (b - b mod 64)) 0); [unfold b in *; lia|].
  destruct (Z.ltb_spec (b - b mod 64) 0); [lia|]. cbn [orb].
  destruct (Z.ltb_spec (buf_size p) (b - b mod 64 + (write_pos d - (b - b mod 64)))); [lia|].
  rewrite ck_i32_ok by (unfold I32_MIN, I32_MAX, b in *; lia). cbn [obind].
  rewrite ck_i32_ok by (unfold I32_MIN, I32_MAX, b in *; lia). cbn [obind].
  split; [reflexivity|].
  repeat split; lia.
Qed.

(* fill_window(input) with input.len() = n < 2^31: returns exactly what it copied; a window move
   (if any) keeps keep_size_before bytes of history *)
Lemma fill_window_spec p d n tr : wf_p p -> lzinv p d -> finishing d = false -> 0 <= n ->
  okor (fill_window p d n tr) (fun r =>
    let '(d1, used, tr1) := r in
    exists off,
      lzinv p d1 /\ finishing d1 = false /\
      0 <= off /\ off mod 64 = 0 /\
      ((off = 0 /\ read_pos d < buf_size p - keep_after p) \/
       (64 <= off /\ buf_size p - keep_after p <= read_pos d /\ off <= read_pos d + 1 - keep_before p < off + 64)) /\
      read_pos d1 = read_pos d - off /\
      used = Z.min n (buf_size p - (write_pos d - off)) /\ 0 <= used /\
      write_pos d1 = write_pos d - off + used /\
      read_limit d1 = (if keep_after p <=? write_pos d1 then write_pos d1 - keep_after p else read_limit d) /\
      ((pending_size d1 = pending_size d /\ ~ (0 < pending_size d /\ read_pos d1 < read_limit d1)) \/
       (0 < pending_size d /\ read_pos d1 < read_limit d1 /\ Kp p d1 /\
        (req_flush p <= write_pos d1 - read_pos d1 -> pending_size d1 = 0))) /\
      acct tr1 = (sum_sym tr, sum_fill tr + used, sum_abs tr, sum_chunk tr, rsyms tr)).
Proof.
  intros W I Hfin Hn. pose proof I as [[Ha Hb] Hc [Hd He] [Hf Hg] Hpb].
  pose proof W as [W1 W2 W3 W4 W5 W6 W7 W8 W9 W10].
  unfold fill_window. rewrite Hfin.
  rewrite !as_i32_id by (unfold I32_MIN, I32_MAX in *; lia).
  rewrite ck_i32_ok by (unfold I32_MIN, I32_MAX in *; lia). cbn [obind].
  (* the state after the optional move *)
  assert (Hmv : exists off d1 tr1,
     (if buf_size p - keep_after p <=? read_pos d then move_window p d tr else Ok (d, tr)) = Ok (d1, tr1) /\
     0 <= off /\ off mod 64 = 0 /\
     ((off = 0 /\ read_pos d < buf_size p - keep_after p) \/
      (64 <= off /\ buf_size p - keep_after p <= read_pos d /\ off <= read_pos d + 1 - keep_before p < off + 64)) /\
     d1 = mkLzd (read_pos d - off) (read_limit d - off) (finishing d) (write_pos d - off) (pending_size d) /\
     acct tr1 = acct tr).
  { destruct (Z.leb_spec (buf_size p - keep_after p) (read_pos d)) as [Hl|Hl].
    - destruct (move_window_spec p d tr W I Hl) as (off & E & O1 & O2 & O3).
      exists off, (mkLzd (read_pos d - off) (read_limit d - off) (finishing d) (write_pos d - off) (pending_size d)),
             (EvMove off (write_pos d - off) :: tr).
      split; [exact E|]. split; [lia|]. split; [exact O2|]. split; [right; repeat split; lia|].
      split; reflexivity.
    - exists 0, d, tr.
      split; [reflexivity|]. split; [lia|]. split; [reflexivity|]. split; [left; split; [reflexivity|lia]|].
      split; [destruct d; cbn; f_equal; lia | reflexivity]. }
  destruct Hmv as (off & d1 & tr1 & E & O1 & O2 & O3 & Ed1 & Etr1).
  rewrite E. cbn [obind]. subst d1. cbn [write_pos read_pos read_limit finishing pending_size].
  assert (Hoff : off <= read_pos d + 1 - keep_before p \/ off = 0) by (destruct O3 as [[? ?]|(? & ? & ?)]; lia).
  rewrite ck_i32_ok by (unfold I32_MIN, I32_MAX in *; lia). cbn [obind].
  set (room := buf_size p - (write_pos d - off)).
  assert (Hroom : 0 <= room) by (unfold room; lia).
  set (len := Z.min n (room mod 18446744073709551616)).
  assert (Hlen : len = Z.min n room).
  { unfold len. rewrite Z.mod_small by (unfold I32_MAX, room in *; lia). reflexivity. }
  rewrite (Z.mod_small (write_pos d - off)) by (unfold I32_MAX in *; lia).
  destruct (Z.ltb_spec (buf_size p) (write_pos d - off + len)); [unfold room in *; lia|].
  destruct (Z.ltb_spec n len); [lia|]. cbn [orb].
  rewrite as_i32_id by (unfold I32_MIN, I32_MAX, room in *; lia).
  rewrite ck_i32_ok by (unfold I32_MIN, I32_MAX, room in *; lia). cbn [obind].
  set (wp := write_pos d - off + len).
  assert (Hrl : exists rl, (if keep_after p <=? wp then ck_i32 (wp - keep_after p) else Ok (read_limit d - off)) = Ok rl /\
                 rl = (if keep_after p <=? wp then wp - keep_after p else read_limit d) /\ -1 <= rl <= wp - 1).
  { destruct (Z.leb_spec (keep_after p) wp).
    - rewrite ck_i32_ok by (unfold I32_MIN, I32_MAX, wp, room in *; lia). eexists; split; [reflexivity|]. split; [reflexivity|]. lia.
    - assert (off = 0) by (destruct O3 as [[? ?]|(? & ? & ?)]; [lia| unfold wp in *; lia]). subst off.
      eexists; split; [reflexivity|]. split; [lia|]. unfold wp; lia. }
  destruct Hrl as (rl & Erl & Erl2 & Hrlb). rewrite Erl. cbn [obind].
  eapply okor_bind.
  { apply process_pending_spec; [assumption|].
    constructor; cbn [read_pos write_pos read_limit pending_size]; fold wp; try lia; unfold wp, room in *; lia. }
  cbn [read_pos write_pos read_limit pending_size finishing].
  intros [d2 tr2]. cbn [fst snd okor]. intros (I2 & A & B & C & D & F & Hcase).
  exists off.
  split; [assumption|]. split; [congruence|]. split; [assumption|]. split; [assumption|]. split; [assumption|].
  split; [assumption|]. split; [fold len; rewrite Hlen; reflexivity|]. split; [lia|].
  split; [rewrite B; reflexivity|].
  split; [rewrite B; fold wp; rewrite C; exact Erl2|].
  split.
  - destruct Hcase as [[Eq Hn']|(P1 & P2 & P3 & P4)].
    + left. subst d2. cbn [pending_size read_pos read_limit] in *. split; [reflexivity|exact Hn'].
    + right. rewrite A, B, C. repeat split; try assumption; try (rewrite A, B in P4; exact P4).
  - rewrite F. unfold acct in *. cbn [sum_sym sum_fill sum_abs sum_chunk rsyms].
    injection Etr1 as E1 E2' E3 E4 E5. rewrite E1, E2', E3, E4, E5. f_equal. f_equal. f_equal. f_equal. lia.
Qed.

(* set_flushing / set_finishing *)
Lemma set_flushing_spec p d tr : wf_p p -> lzinv p d ->
  okor (set_flushing p d tr) (fun r =>
    lzinv p (fst r) /\ read_pos (fst r) = read_pos d /\ write_pos (fst r) = write_pos d /\
    read_limit (fst r) = write_pos d - 1 /\ finishing (fst r) = finishing d /\ acct (snd r) = acct tr /\
    ((pending_size (fst r) = pending_size d /\ ~ (0 < pending_size d /\ read_pos d < write_pos d - 1)) \/
     (0 < pending_size d /\ Kp p (fst r)))).
Proof.
  intros W I. pose proof I as [[Ha Hb] Hc [Hd He] [Hf Hg] Hpb]. pose proof (wf_i32 p W).
  unfold set_flushing. rewrite ck_i32_ok by (unfold I32_MIN, I32_MAX in *; lia). cbn [obind].
  eapply okor_weaken.
  { apply process_pending_spec; [assumption|]. constructor; cbn [read_pos write_pos read_limit pending_size]; lia. }
  cbn [read_pos write_pos read_limit pending_size finishing].
  intros r (I2 & A & B & C & D & F & Hcase).
  split; [assumption|]. split; [assumption|]. split; [assumption|]. split; [assumption|].
  split; [assumption|]. split; [assumption|].
  destruct Hcase as [[Eq Hn']|(P1 & P2 & P3 & P4)].
  - left. rewrite Eq. cbn [pending_size]. split; [reflexivity|exact Hn'].
  - right. split; assumption.
Qed.

Lemma set_finishing_spec p d tr : wf_p p -> lzinv p d ->
  okor (set_finishing p d tr) (fun r =>
    lzinv p (fst r) /\ read_pos (fst r) = read_pos d /\ write_pos (fst r) = write_pos d /\
    read_limit (fst r) = write_pos d - 1 /\ finishing (fst r) = true /\ acct (snd r) = acct tr /\
    ((pending_size (fst r) = pending_size d /\ ~ (0 < pending_size d /\ read_pos d < write_pos d - 1)) \/
     (0 < pending_size d /\ Kp p (fst r)))).
Proof.
  intros W I. pose proof I as [[Ha Hb] Hc [Hd He] [Hf Hg] Hpb]. pose proof (wf_i32 p W).
  unfold set_finishing. rewrite ck_i32_ok by (unfold I32_MIN, I32_MAX in *; lia). cbn [obind].
  eapply okor_weaken.
  { apply process_pending_spec; [assumption|]. constructor; cbn [read_pos write_pos read_limit pending_size]; lia. }
  cbn [read_pos write_pos read_limit pending_size finishing].
  intros r (I2 & A & B & C & D & F & Hcase).
  split; [assumption|]. split; [assumption|]. split; [assumption|]. split; [assumption|].
  split; [assumption|]. split; [assumption|].
  destruct Hcase as [[Eq Hn']|(P1 & P2 & P3 & P4)].
  - left. rewrite Eq. cbn [pending_size]. split; [reflexivity|exact Hn'].
  - right. split; assumption.
Qed.

(* ---------------------------------------------------------------------------------------------
   one consultation of the parser *)
Definition pidx (e : encd) : Z := read_pos (e_lz e) - read_ahead e.   (* buffer index of the next byte to code *)

(* the state while the parser is being consulted *)
Record minv (p : lzp) (e : encd) : Prop := mkMinv {
  mi_lz : lzinv p (e_lz e);
  mi_ra : -1 <= read_ahead e <= read_pos (e_lz e);
  mi_K : 0 < pending_size (e_lz e) -> Kp p (e_lz e) \/ read_pos (e_lz e) = write_pos (e_lz e) - 1
}.

Section Oracle.
  Variable PS : Type.
  Variable parse : PS -> Z -> Z -> strat PS.
  Variable chunkc : PS -> Z -> Z * PS.

  (* The same consultation seen from the DATA alone: [A] is the number of bytes from the match
     finder's position to the end of all the data the writer will ever get, [ra] the read-ahead.
     This is what the parser would observe if the whole input were already in an unbounded window
     and the writer were finishing. *)
  Fixpoint irun (p : lzp) (s : strat PS) (A ra : Z) : option (Z * Z * bool * PS) :=
    match s with
    | SFail => None
    | SMove k =>
        let A1 := A - 1 in
        if (A1 <? 1) || (extra_after p <? ra + 1) then None else
        let ret := if (A1 <? req_flush p) && (A1 <? REQ_FINISH) then 0 else A1 in
        irun p (k (Z.min ret (match_len_max p))) A1 (ra + 1)
    | SAvail c k =>
        if (ra <? 0) || (c <? 0) || (keep_after p <? c + ra) then None else irun p (k (Z.min A c)) A ra
    | SEmit len full ps =>
        if (len <? 1) || (ra + 1 <? len) || (mode_before p <=? ra - len) then None else Some (ra, len, full, ps)
    end.

  (* when the real consultation sees what the data-only consultation sees: the writer is finishing
     and the window ends where the data ends, or the window holds the full look-ahead *)
  Definition view_ok (p : lzp) (e : encd) (A : Z) : Prop :=
    let av := write_pos (e_lz e) - read_pos (e_lz e) in
    (finishing (e_lz e) = true /\ A = av) \/
    (match_len_max p + extra_after p - read_ahead e <= av /\ av <= A).

  Lemma run_strat_spec p : wf_p p -> forall s e tr, minv p e ->
    okor (run_strat PS p s e tr) (fun r =>
      let '(e1, len, full, ps1, tr1) := r in
      minv p e1 /\
      (exists k, 0 <= k /\ read_pos (e_lz e1) = read_pos (e_lz e) + k /\ read_ahead e1 = read_ahead e + k /\
                 (0 < k -> read_ahead e1 <= extra_after p)) /\
      write_pos (e_lz e1) = write_pos (e_lz e) /\ read_limit (e_lz e1) = read_limit (e_lz e) /\
      finishing (e_lz e1) = finishing (e_lz e) /\
      unc_size e1 = unc_size e /\ rc_full e1 = rc_full e /\ g_base e1 = g_base e /\
      1 <= len <= read_ahead e1 + 1 /\ read_ahead e1 - len < mode_before p /\
      pending_size (e_lz e) <= pending_size (e_lz e1) /\
      (match_len_max p + extra_after p <= write_pos (e_lz e) - pidx e -> pending_size (e_lz e1) = pending_size (e_lz e)) /\
      acct tr1 = acct tr /\
      (forall A, view_ok p e A -> irun p s A (read_ahead e) = Some (read_ahead e1, len, full, ps1))).
  Proof.
    intros W. pose proof W as [W1 W2 W3 W4 W5 W6 W7 W8 W9 W10].
    induction s as [k IH|c k IH|len full ps|]; intros e tr M.
    - (* SMove *)
      pose proof M as [[[Ha Hb] Hc [Hd He] [Hf Hg] Hpb] [Hr1 Hr2] HK].
      cbn [run_strat].
      rewrite ck_i32_ok by (unfold I32_MIN, I32_MAX in *; lia). cbn [obind].
      destruct (Z.eq_dec (read_pos (e_lz e)) (write_pos (e_lz e) - 1)) as [Hend|Hend].
      + (* the move leaves the data: contract violation *)
        rewrite move_pos_eq by (unfold REQ_FINISH, I32_MAX in *; lia). cbv zeta. cbn [obind].
        destruct ((write_pos (e_lz e) - (read_pos (e_lz e) + 1) <? req_flush p) && _);
          cbn [write_pos read_pos];
          (destruct (Z.ltb_spec (write_pos (e_lz e) - (read_pos (e_lz e) + 1)) 1); [|lia]); cbn [orb okor]; left; reflexivity.
      + assert (HK0 : Kp p (e_lz e)).
        { destruct (Z.eq_dec (pending_size (e_lz e)) 0) as [Hz|Hz]; [left; exact Hz|].
          destruct HK as [HK|HK]; [lia|exact HK|lia]. }
        destruct (move_pos_step p (e_lz e) W) as (d1 & ret & E & A & B & C & D & K1 & Hcase & Hbig);
          try assumption; try (unfold I32_MAX in *; lia).
        rewrite E. cbn [obind].
        destruct (Z.ltb_spec (write_pos d1 - read_pos d1) 1); [cbn [orb okor]; left; reflexivity|].
        destruct (Z.ltb_spec (extra_after p) (read_ahead e + 1)); [cbn [orb okor]; left; reflexivity|].
        cbn [orb].
        assert (Hpend1 : 0 <= pending_size d1 <= read_pos d1 + 1 /\ pending_size d1 < req_flush p /\ pending_size (e_lz e) <= pending_size d1).
        { destruct Hcase as [(? & ? & ?)|(? & ? & ?)]; [|lia]. destruct K1 as [K1|K1]; lia. }
        eapply okor_weaken.
        { apply IH. constructor; cbn [e_lz read_ahead].
          - constructor; lia.
          - lia.
          - intros _. left. exact K1. }
        intros [[[[e1 len] full] ps1] tr1].
        cbn [e_lz read_ahead unc_size rc_full g_base].
        intros (M1 & (k1 & Hk1 & Hk2 & Hk3 & Hk4) & X1 & X2 & X3 & X4 & X5 & X6 & X7 & X8 & X9 & X10 & X11 & X12).
        split; [exact M1|].
        split.
        { exists (k1 + 1). split; [lia|]. split; [lia|]. split; [lia|]. intros _.
          destruct (Z.eq_dec k1 0); [lia|]. apply Hk4; lia. }
        split; [congruence|]. split; [congruence|]. split; [congruence|].
        split; [exact X4|]. split; [exact X5|]. split; [exact X6|]. split; [exact X7|]. split; [exact X8|].
        split; [lia|].
        split.
        { unfold pidx in *. cbn [e_lz read_ahead] in X10. intros Hs.
          rewrite X10 by lia. apply Hbig. lia. }
        split; [rewrite X11; reflexivity|].
        (* the data-only consultation makes the same move *)
        intros AA HV. cbn [irun]. unfold view_ok in HV. cbv zeta in HV.
        set (av := write_pos (e_lz e) - read_pos (e_lz e)) in *.
        assert (Hav1 : write_pos d1 - read_pos d1 = av - 1) by (unfold av; lia).
        assert (Hmp : forall (Hfin : finishing (e_lz e) = true),
                   ret = (if (av - 1 <? req_flush p) && (av - 1 <? REQ_FINISH) then 0 else av - 1)).
        { intros Hfin. unfold move_pos in E. revert E.
          destruct (Z.ltb_spec (req_flush p) REQ_FINISH); [unfold REQ_FINISH in *; lia|].
          rewrite ck_i32_ok by (unfold I32_MIN, I32_MAX in *; lia). cbn [obind].
          rewrite ck_i32_ok by (unfold I32_MIN, I32_MAX in *; lia). cbn [obind].
          rewrite Hfin. cbn [negb]. rewrite orb_false_r.
          replace (write_pos (e_lz e) - (read_pos (e_lz e) + 1)) with (av - 1) by (unfold av; lia).
          destruct ((av - 1 <? req_flush p) && (av - 1 <? REQ_FINISH)).
          { rewrite ck_u32_ok by (unfold U32_MAX, I32_MAX in *; lia). cbn [obind]. intros E. injection E as _ E. lia. }
          intros E. injection E as _ E. lia. }
        destruct HV as [[Hfin HA]|[Hst HA]].
        { (* finishing: identical arithmetic *)
          subst AA.
          destruct (Z.ltb_spec (av - 1) 1); [lia|].
          destruct (Z.ltb_spec (extra_after p) (read_ahead e + 1)); [lia|]. cbn [orb].
          rewrite <- (Hmp Hfin). apply X12. unfold view_ok. cbn [e_lz read_ahead]. cbv zeta. left.
          split; [congruence|lia]. }
        (* full look-ahead on both sides: both observe the clamp *)
        destruct (Z.ltb_spec (AA - 1) 1); [unfold av in *; lia|].
        destruct (Z.ltb_spec (extra_after p) (read_ahead e + 1)); [lia|]. cbn [orb].
        assert (Hge : match_len_max p <= av - 1) by lia.
        assert (Hret : ret = av - 1) by (destruct Hbig as [Hb1 _]; [unfold av in *; lia|unfold av in *; lia]).
        assert (Hi : (if (AA - 1 <? req_flush p) && (AA - 1 <? REQ_FINISH) then 0 else AA - 1) = AA - 1).
        { destruct (Z.ltb_spec (AA - 1) (req_flush p)); [lia|]. reflexivity. }
        rewrite Hi. rewrite Hret in X12.
        replace (Z.min (AA - 1) (match_len_max p)) with (Z.min (av - 1) (match_len_max p)) by lia.
        apply X12. unfold view_ok. cbn [e_lz read_ahead]. cbv zeta. right. lia.
    - (* SAvail *)
      pose proof M as [[[Ha Hb] Hc [Hd He] [Hf Hg] Hpb] [Hr1 Hr2] HK].
      cbn [run_strat].
      destruct (Z.ltb_spec (read_ahead e) 0); [cbn [orb okor]; left; reflexivity|]. cbn [orb].
      destruct ((c <? 0) || (keep_after p <? c + read_ahead e)) eqn:Ec; [cbn [okor]; left; reflexivity|].
      unfold get_avail. rewrite ck_i32_ok by (unfold I32_MIN, I32_MAX in *; lia). cbn [obind].
      eapply okor_weaken; [apply IH; exact M|].
      intros [[[[e1 len] full] ps1] tr1].
      intros (M1 & Hk & X1 & X2 & X3 & X4 & X5 & X6 & X7 & X8 & X9 & X10 & X11 & X12).
      repeat (split; [assumption|]).
      intros A HV. cbn [irun].
      destruct (Z.ltb_spec (read_ahead e) 0); [lia|]. cbn [orb]. rewrite Ec. 
      replace (Z.min A c) with (Z.min (write_pos (e_lz e) - read_pos (e_lz e)) c); [apply X12; exact HV|].
      unfold view_ok in HV. cbv zeta in HV. apply orb_false_iff in Ec as [Ec1 Ec2].
      apply Z.ltb_ge in Ec1, Ec2. destruct HV as [[_ HA]|[Hst HA]]; lia.
    - (* SEmit *)
      cbn [run_strat].
      destruct (Z.ltb_spec len 1); [cbn [orb okor]; left; reflexivity|].
      destruct (Z.ltb_spec (read_ahead e + 1) len); [cbn [orb okor]; left; reflexivity|].
      destruct (Z.leb_spec (mode_before p) (read_ahead e - len)); [cbn [orb okor]; left; reflexivity|].
      cbn [orb okor].
      split; [exact M|]. split; [exists 0; repeat split; lia|].
      repeat split; try reflexivity; try lia.
      intros A _. cbn [irun].
      destruct (Z.ltb_spec len 1); [lia|]. destruct (Z.ltb_spec (read_ahead e + 1) len); [lia|].
      destruct (Z.leb_spec (mode_before p) (read_ahead e - len)); [lia|]. reflexivity.
    - cbn [run_strat okor]. left; reflexivity.
  Qed.

  (* the encoder between two symbols.  [org] ties the state to the event trace: the number of
     bytes accepted so far is org + g_base + write_pos. *)
  Record einv (p : lzp) (org : Z) (e : encd) (tr : list wev) : Prop := mkEinv {
    ei_lz : lzinv p (e_lz e);
    ei_ra : -1 <= read_ahead e <= read_pos (e_lz e);
    ei_mb : read_ahead e < mode_before p;
    ei_base : 0 <= g_base e /\ g_base e mod 64 = 0;
    ei_hist : g_base e = 0 \/ keep_before p <= read_pos (e_lz e) + 1;
    ei_dict : g_base e = 0 \/ dict_size p <= pidx e;
    ei_pidx1 : read_pos (e_lz e) = -1 \/ 1 <= pidx e;
    ei_unc : 0 <= unc_size e;
    ei_U : 0 < pending_size (e_lz e) ->
           Kp p (e_lz e) \/ (read_ahead e = -1 /\ read_limit (e_lz e) <= read_pos (e_lz e)) \/
           read_pos (e_lz e) = write_pos (e_lz e) - 1;
    ei_fill : sum_fill tr = org + g_base e + write_pos (e_lz e);
    ei_sym : sum_sym tr + sum_abs tr = org + logical_pos e;
    ei_chunk : sum_chunk tr + unc_size e = org + logical_pos e;
    ei_org : org <= sum_chunk tr
  }.

  (* uncompressed_size (u32) cannot overflow while the current chunk plus what is still uncoded
     in the window stays below 2^32 *)
  Definition cap (e : encd) : Prop := unc_size e + (write_pos (e_lz e) - pidx e) <= U32_MAX.
  (* no consultation possible: has_enough_data(read_ahead + 1) is false *)
  Definition quiet (e : encd) : Prop := read_limit (e_lz e) <= pidx e - 1.

  Lemma logical_pidx e : logical_pos e = g_base e + pidx e.
  Proof. unfold logical_pos, pidx. lia. Qed.

  (* the longest symbol the contract admits *)
  Definition SYM_MAX (p : lzp) : Z := Z.max (extra_after p + 1) (mode_before p).

  Definition steady (p : lzp) (e : encd) : Prop := read_limit (e_lz e) <= write_pos (e_lz e) - keep_after p.

  (* The data-only machine: state = (logical position of the next byte to code, read_ahead,
     parser state); [T] = logical end of all data (kept preset bytes + every byte that will be
     written).  One step = the forced first literal, or one consultation of the parser. *)
  Definition ist : Type := (Z * Z * PS)%type.
  Definition istep (p : lzp) (T : Z) (st : ist) : option (ist * iev) :=
    let '(P, ra, ps) := st in
    if P =? 0 then (if 1 <=? T then Some ((1, -1, ps), ISym 1) else None)
    else match irun p (parse ps P ra) (T - (P + ra)) ra with
         | Some (ra1, len, full, ps1) => Some ((P + len, ra1 - len, ps1), ISym len)
         | None => None
         end.
  (* n steps; the symbol lengths newest first *)
  Fixpoint isteps (p : lzp) (T : Z) (n : nat) (st : ist) (acc : list iev) : option (ist * list iev) :=
    match n with
    | O => Some (st, acc)
    | S k => match istep p T st with
             | Some (st1, ev) => isteps p T k st1 (ev :: acc)
             | None => None
             end
    end.
  Definition est (e : encd) (ps : PS) : ist := (logical_pos e, read_ahead e, ps).

  Lemma isteps_app p T n1 : forall st acc st1 acc1 n2 st2 acc2,
    isteps p T n1 st acc = Some (st1, acc1) -> isteps p T n2 st1 acc1 = Some (st2, acc2) ->
    isteps p T (n1 + n2) st acc = Some (st2, acc2).
  Proof.
    induction n1 as [|n IH]; intros st acc st1 acc1 n2 st2 acc2 H1 H2.
    - cbn in H1. injection H1 as -> ->. exact H2.
    - cbn [isteps Nat.add] in *. destruct (istep p T st) as [[st' len]|]; [|discriminate].
      eapply IH; eassumption.
  Qed.

  (* the real encoder sees what the data-only machine sees *)
  Definition Vc (p : lzp) (e : encd) (T : Z) : Prop :=
    (finishing (e_lz e) = true /\ g_base e + write_pos (e_lz e) = T) \/
    (g_base e + write_pos (e_lz e) <= T /\ (quiet e \/ steady p e)).

  Lemma irun_len p : forall s A ra ra1 len full ps1, irun p s A ra = Some (ra1, len, full, ps1) -> 1 <= len.
  Proof.
    induction s as [k IH|c k IH|len0 full0 ps0|]; intros A ra ra1 len full ps1 H; cbn [irun] in H.
    - destruct ((A - 1 <? 1) || (extra_after p <? ra + 1)); [discriminate|]. eapply IH; exact H.
    - destruct ((ra <? 0) || (c <? 0) || (keep_after p <? c + ra)); [discriminate|]. eapply IH; exact H.
    - destruct (Z.ltb_spec len0 1); [discriminate|]. cbn [orb] in H.
      destruct ((ra + 1 <? len0) || (mode_before p <=? ra - len0)); [discriminate|]. injection H as _ <- _ _. lia.
    - discriminate.
  Qed.

  Lemma istep_P p T P ra ps P1 ra1 ps1 ev : istep p T (P, ra, ps) = Some ((P1, ra1, ps1), ev) -> 0 <= P -> P < P1.
  Proof.
    unfold istep. intros H HP. destruct (Z.eqb_spec P 0).
    - destruct (1 <=? T); [|discriminate]. injection H as <- _ _ _. lia.
    - destruct (irun p (parse ps P ra) (T - (P + ra)) ra) as [[[[ra' len'] full'] ps']|] eqn:E; [|discriminate].
      injection H as <- _ _ _. pose proof (irun_len _ _ _ _ _ _ _ _ E). lia.
  Qed.

  Lemma isteps_P p T : forall n P ra ps acc P1 ra1 ps1 acc1,
    isteps p T n (P, ra, ps) acc = Some ((P1, ra1, ps1), acc1) -> 0 <= P -> P + Z.of_nat n <= P1.
  Proof.
    induction n as [|n IH]; intros P ra ps acc P1 ra1 ps1 acc1 H HP.
    - cbn in H. injection H as <- _ _ _. lia.
    - cbn [isteps] in H. destruct (istep p T (P, ra, ps)) as [[[[P' ra'] ps'] len]|] eqn:E; [|discriminate].
      pose proof (istep_P _ _ _ _ _ _ _ _ _ E HP). specialize (IH _ _ _ _ _ _ _ _ H ltac:(lia)). lia.
  Qed.

  Lemma isteps_split p T : forall n1 n2 st acc r,
    isteps p T (n1 + n2) st acc = Some r ->
    exists mid macc, isteps p T n1 st acc = Some (mid, macc) /\ isteps p T n2 mid macc = Some r.
  Proof.
    induction n1 as [|n IH]; intros n2 st acc r H.
    - exists st, acc. split; [reflexivity|exact H].
    - cbn [isteps Nat.add] in *. destruct (istep p T st) as [[st' len]|]; [|discriminate].
      apply IH. exact H.
  Qed.

  (* two runs of the data-only machine from the same state that stop at the same position are the same run *)
  Lemma isteps_deterministic p T st P ra : 0 <= P -> st = (P, ra, (snd st)) ->
    forall n n' acc Pf ra1 ps1 acc1 ra1' ps1' acc1',
    isteps p T n st acc = Some ((Pf, ra1, ps1), acc1) -> isteps p T n' st acc = Some ((Pf, ra1', ps1'), acc1') ->
    (n <= n')%nat -> ps1 = ps1' /\ acc1 = acc1' /\ ra1 = ra1'.
  Proof.
    intros HP Est n n' acc Pf ra1 ps1 acc1 ra1' ps1' acc1' H H' Hle.
    replace n' with (n + (n' - n))%nat in H' by lia.
    destruct (isteps_split _ _ _ _ _ _ _ H') as (mid & macc & M1 & M2).
    rewrite H in M1. injection M1 as <- <-.
    destruct (n' - n)%nat as [|m] eqn:Em.
    - cbn in M2. injection M2 as <- <- <-. repeat split; reflexivity.
    - exfalso. cbn [isteps] in M2.
      destruct (istep p T (Pf, ra1, ps1)) as [[[[P2 ra2] ps2] len]|] eqn:E; [|discriminate].
      assert (HPf : 0 <= Pf).
      { rewrite Est in H. pose proof (isteps_P _ _ _ _ _ _ _ _ _ _ _ H HP). lia. }
      pose proof (istep_P _ _ _ _ _ _ _ _ _ E HPf).
      pose proof (isteps_P _ _ _ _ _ _ _ _ _ _ _ M2 ltac:(lia)). lia.
  Qed.

  Lemma encode_symbol_spec p org ps e tr : wf_p p -> einv p org e tr -> cap e -> 1 <= pidx e ->
    okor (encode_symbol PS parse p ps e tr) (fun r =>
      match r with
      | None => quiet e
      | Some (e1, ps1, tr1) =>
          einv p org e1 tr1 /\ cap e1 /\ ~ quiet e /\
          pidx e < pidx e1 /\ read_pos (e_lz e) <= read_pos (e_lz e1) /\
          write_pos (e_lz e1) = write_pos (e_lz e) /\ read_limit (e_lz e1) = read_limit (e_lz e) /\
          finishing (e_lz e1) = finishing (e_lz e) /\ g_base e1 = g_base e /\
          unc_size e1 = unc_size e + (pidx e1 - pidx e) /\
          pending_size (e_lz e) <= pending_size (e_lz e1) /\
          (match_len_max p + extra_after p <= write_pos (e_lz e) - pidx e -> pending_size (e_lz e1) = pending_size (e_lz e)) /\
          sum_abs tr1 = sum_abs tr /\ pidx e1 - pidx e <= SYM_MAX p /\
          rsyms tr1 = ISym (pidx e1 - pidx e) :: rsyms tr /\
          (forall T, Vc p e T -> istep p T (est e ps) = Some (est e1 ps1, ISym (pidx e1 - pidx e))) /\
          (forall T, Vc p e T ->
             logical_pos e < T /\
             irun p (parse ps (logical_pos e) (read_ahead e)) (T - (logical_pos e + read_ahead e)) (read_ahead e) =
             Some (read_ahead e1 + (pidx e1 - pidx e), pidx e1 - pidx e, rc_full e1, ps1))
      end).
  Proof.
    intros W I Hcap Hp1. pose proof W as [W1 W2 W3 W4 W5 W6 W7 W8 W9 W10].
    pose proof I as [[[Ha Hb] Hc [Hd He] [Hf Hg] Hpb] [Hr1 Hr2] Hmb [Hb1 Hb2] Hh Hdict Hpx Hu HU Hfill Hsym Hchunk Horg].
    unfold encode_symbol, has_enough_data.
    rewrite ck_i32_ok by (unfold I32_MIN, I32_MAX in *; lia). cbn [obind].
    rewrite ck_i32_ok by (unfold I32_MIN, I32_MAX in *; lia). cbn [obind].
    unfold pidx in Hp1.
    destruct (Z.ltb_spec (read_pos (e_lz e) - (read_ahead e + 1)) (read_limit (e_lz e))) as [Hq|Hq]; cbn [negb].
    2:{ cbn [okor]. unfold quiet, pidx. lia. }
    eapply okor_bind.
    { apply run_strat_spec; [exact W|]. constructor.
      - exact (ei_lz _ _ _ _ I).
      - lia.
      - intros Hp. destruct (HU Hp) as [K|[[K1 K2]|K]]; [left; exact K | lia | right; exact K]. }
    intros [[[[e1 len] full] ps1] tr1].
    intros (M1 & (k1 & Hk1 & Hk2 & Hk3 & Hk4) & X1 & X2 & X3 & X4 & X5 & X6 & X7 & X8 & X9 & X10 & X11 & X12).
    pose proof M1 as [[[Ha' Hb'] Hc' [Hd' He'] [Hf' Hg'] Hpb'] [Hr1' Hr2'] HK'].
    injection X11 as E1 E2 E3 E4 E5.
    destruct (Z.ltb_spec (read_ahead e1) 0); [lia|].
    replace (read_pos (e_lz e1) - read_ahead e1) with (read_pos (e_lz e) - read_ahead e) by lia.
    destruct (Z.ltb_spec (read_pos (e_lz e) - read_ahead e - 1) 0); [lia|].
    destruct (Z.leb_spec (buf_size p) (read_pos (e_lz e) - read_ahead e)); [lia|]. cbn [orb].
    assert (Hsh : (g_base e1 =? 0) || (dict_size p <=? read_pos (e_lz e) - read_ahead e) = true).
    { rewrite X6. unfold pidx in Hdict. destruct Hdict as [Hd0|Hd0]; apply orb_true_iff; [left; apply Z.eqb_eq|right; apply Z.leb_le]; assumption. }
    rewrite Hsh. cbn [negb].
    rewrite as_i32_id by (unfold I32_MIN, I32_MAX in *; lia).
    rewrite ck_i32_ok by (unfold I32_MIN, I32_MAX in *; lia). cbn [obind].
    unfold cap, pidx in Hcap.
    rewrite ck_u32_ok by (unfold U32_MAX in *; lia). cbn [obind okor].
    assert (Hpi : pidx (mkEncd (e_lz e1) (read_ahead e1 - len) (unc_size e1 + len) full (g_base e1)) = pidx e + len).
    { unfold pidx. cbn [e_lz read_ahead]. lia. }
    split.
    { constructor; cbn [e_lz read_ahead unc_size g_base rc_full]; try rewrite Hpi.
      - exact (mi_lz _ _ M1).
      - lia.
      - lia.
      - rewrite X6. split; assumption.
      - rewrite X6. destruct Hh; [left; assumption | right; lia].
      - rewrite X6. destruct Hdict as [Hd0|Hd0]; [left; assumption | right; unfold pidx in *; lia].
      - right. unfold pidx. lia.
      - lia.
      - intros Hp. destruct (HK' Hp) as [K|K]; [left; exact K | right; right; exact K].
      - cbn [sum_fill]. rewrite X6, X1, E2. exact Hfill.
      - rewrite logical_pidx. cbn [g_base]. rewrite Hpi, X6.
        cbn [sum_sym sum_abs]. rewrite E1, E3. rewrite logical_pidx in Hsym. lia.
      - rewrite logical_pidx. cbn [g_base]. rewrite Hpi, X6.
        cbn [sum_chunk]. rewrite E4. rewrite logical_pidx in Hchunk. lia.
      - cbn [sum_chunk]. rewrite E4. exact Horg. }
    split.
    { unfold cap. rewrite Hpi. cbn [e_lz unc_size]. unfold pidx. unfold U32_MAX in *. lia. }
    split; [unfold quiet, pidx; lia|].
    rewrite Hpi. cbn [e_lz g_base unc_size].
    split; [lia|]. split; [lia|]. split; [exact X1|]. split; [exact X2|]. split; [exact X3|]. split; [exact X6|].
    split; [lia|]. split; [exact X9|]. split; [exact X10|]. split; [cbn [sum_abs]; exact E3|].
    split; [unfold SYM_MAX; destruct (Z.eq_dec k1 0); [|specialize (Hk4 ltac:(lia))]; lia|].
    split; [cbn [rsyms]; rewrite E5; do 2 f_equal; lia|].
    assert (HVok : forall T, Vc p e T -> view_ok p e (T - (logical_pos e + read_ahead e)) /\ logical_pos e < T).
    { intros T HV. unfold view_ok. cbv zeta. unfold Vc in HV. unfold logical_pos.
      destruct HV as [[Hfin HT]|[HT [Hqq|Hs]]].
      + split; [left; split; [exact Hfin|lia]|lia].
      + exfalso. unfold quiet, pidx in Hqq. lia.
      + unfold steady in Hs. split; [right; lia|lia]. }
    split.
    2:{ intros T HV. destruct (HVok T HV) as [Hv Hlt]. split; [exact Hlt|].
        rewrite (X12 _ Hv). cbn [read_ahead rc_full]. replace (pidx e + len - pidx e) with len by lia.
        replace (read_ahead e1 - len + len) with (read_ahead e1) by lia. reflexivity. }
    intros T HV. unfold istep, est.
    assert (Hlp : logical_pos e =? 0 = false).
    { apply Z.eqb_neq. rewrite logical_pidx. unfold pidx. lia. }
    rewrite Hlp.
    rewrite (X12 (T - (logical_pos e + read_ahead e))).
    - cbn [read_ahead]. unfold logical_pos. cbn [e_lz read_ahead g_base]. rewrite X6.
      replace (g_base e + read_pos (e_lz e1) - (read_ahead e1 - len)) with (g_base e + read_pos (e_lz e) - read_ahead e + len) by lia.
      replace (pidx e + len - pidx e) with len by lia. reflexivity.
    - exact (proj1 (HVok T HV)).
  Qed.

  Lemma encode_init_spec p org e tr : wf_p p -> einv p org e tr -> cap e -> read_pos (e_lz e) = -1 ->
    okor (encode_init p e tr) (fun r =>
      let '(ok, e1, tr1) := r in
      if ok then
        einv p org e1 tr1 /\ cap e1 /\ pidx e1 = 1 /\ read_pos (e_lz e1) = 0 /\
        write_pos (e_lz e1) = write_pos (e_lz e) /\ read_limit (e_lz e1) = read_limit (e_lz e) /\
        finishing (e_lz e1) = finishing (e_lz e) /\ g_base e1 = g_base e /\ unc_size e1 = 1 /\
        (req_flush p <= write_pos (e_lz e) -> pending_size (e_lz e1) = 0) /\ ~ quiet e /\ sum_abs tr1 = sum_abs tr /\
        rsyms tr1 = ISym 1 :: rsyms tr /\
        (forall T ps, g_base e + write_pos (e_lz e) <= T -> istep p T (est e ps) = Some (est e1 ps, ISym 1)) /\
        rc_full e1 = rc_full e
      else e1 = e /\ tr1 = tr /\ quiet e).
  Proof.
    intros W I Hcap Hns. pose proof W as [W1 W2 W3 W4 W5 W6 W7 W8 W9 W10].
    pose proof I as [[[Ha Hb] Hc [Hd He] [Hf Hg] Hpb] [Hr1 Hr2] Hmb [Hb1 Hb2] Hh Hdict Hpx Hu HU Hfill Hsym Hchunk Horg].
    assert (Hra : read_ahead e = -1) by lia.
    assert (Hbase : g_base e = 0) by (destruct Hh; lia).
    assert (Hunc : unc_size e = 0).
    { rewrite logical_pidx in Hchunk. unfold pidx in Hchunk. lia. }
    assert (Hp0 : pending_size (e_lz e) = 0) by lia.
    unfold encode_init, has_enough_data. rewrite Hra. cbn [Z.eqb negb].
    rewrite ck_i32_ok by (unfold I32_MIN, I32_MAX in *; lia). cbn [obind].
    rewrite Z.sub_0_r.
    destruct (Z.ltb_spec (read_pos (e_lz e)) (read_limit (e_lz e))) as [Hq|Hq]; cbn [negb].
    2:{ cbn [okor]. split; [reflexivity|]. split; [reflexivity|]. unfold quiet, pidx. lia. }
    rewrite ck_i32_ok by (unfold I32_MIN, I32_MAX in *; lia). cbn [obind].
    eapply okor_bind.
    { apply (mf_skip_spec p W 1%nat); try lia. left; exact Hp0. }
    intros [d1 tr1]. cbn [fst snd]. intros (A & B & C & D & E & K & Hbig & F).
    change (Z.of_nat 1) with 1 in *.
    destruct (Z.ltb_spec (read_pos d1 - (-1 + 1)) 0); [lia|].
    destruct (Z.leb_spec (buf_size p) (read_pos d1 - (-1 + 1))); [lia|]. cbn [orb].
    rewrite ck_i32_ok by (unfold I32_MIN, I32_MAX in *; lia). cbn [obind].
    change (-1 + 1 - 1 =? -1) with true. cbn [negb].
    rewrite Hunc. rewrite ck_u32_ok by (unfold U32_MAX; lia). cbn [obind].
    change (0 + 1 =? 1) with true. cbn [negb okor].
    injection F as E1 E2 E3 E4 E5.
    assert (Hpi : pidx (mkEncd d1 (-1 + 1 - 1) (0 + 1) (rc_full e) (g_base e)) = 1).
    { unfold pidx. cbn [e_lz read_ahead]. lia. }
    split.
    { constructor; cbn [e_lz read_ahead unc_size g_base rc_full]; try rewrite Hpi.
      - constructor; try lia; destruct K as [K|K]; lia.
      - lia.
      - lia.
      - split; assumption.
      - left; assumption.
      - left; assumption.
      - right; lia.
      - lia.
      - intros _. left. exact K.
      - cbn [sum_fill]. rewrite E2, B. exact Hfill.
      - rewrite logical_pidx. cbn [g_base]. rewrite Hpi. cbn [sum_sym sum_abs]. rewrite E1, E3.
        rewrite logical_pidx in Hsym. unfold pidx in Hsym. lia.
      - rewrite logical_pidx. cbn [g_base]. rewrite Hpi. cbn [sum_chunk]. rewrite E4.
        rewrite logical_pidx in Hchunk. unfold pidx in Hchunk. lia.
      - cbn [sum_chunk]. rewrite E4. exact Horg. }
    split.
    { unfold cap in *. rewrite Hpi. cbn [e_lz unc_size]. unfold pidx in Hcap. lia. }
    split; [exact Hpi|]. cbn [e_lz g_base unc_size].
    split; [lia|]. split; [exact B|]. split; [exact C|]. split; [exact D|]. split; [reflexivity|]. split; [reflexivity|].
    split; [intros Hbg; rewrite Hbig by lia; exact Hp0|].
    split; [unfold quiet, pidx; lia|]. split; [cbn [sum_abs]; exact E3|].
    split; [cbn [rsyms]; rewrite E5; reflexivity|].
    split; [|reflexivity].
    intros T ps HT. unfold istep, est, logical_pos. cbn [e_lz read_ahead g_base].
    replace (g_base e + read_pos (e_lz e) - read_ahead e) with 0 by lia. cbn [Z.eqb].
    destruct (Z.leb_spec 1 T); [|lia].
    replace (g_base e + read_pos d1 - (-1 + 1 - 1)) with 1 by lia. reflexivity.
  Qed.

  (* the symbol loop: ends with no consultation possible; fuel = bytes left in the window + 1 *)
  Lemma enc_loop1_spec p org : wf_p p -> forall fuel ps e tr,
    einv p org e tr -> cap e -> 1 <= pidx e ->
    write_pos (e_lz e) - pidx e + 1 <= Z.of_nat fuel ->
    okor (enc_loop1 PS parse fuel p ps e tr) (fun r =>
      let '(e1, ps1, tr1) := r in
      einv p org e1 tr1 /\ cap e1 /\ quiet e1 /\ pidx e <= pidx e1 /\ read_pos (e_lz e) <= read_pos (e_lz e1) /\
      write_pos (e_lz e1) = write_pos (e_lz e) /\ read_limit (e_lz e1) = read_limit (e_lz e) /\
      finishing (e_lz e1) = finishing (e_lz e) /\ g_base e1 = g_base e /\
      unc_size e1 = unc_size e + (pidx e1 - pidx e) /\
      pending_size (e_lz e) <= pending_size (e_lz e1) /\
      (finishing (e_lz e) = false -> read_limit (e_lz e) <= write_pos (e_lz e) - keep_after p ->
       pending_size (e_lz e1) = pending_size (e_lz e)) /\
      (quiet e -> e1 = e /\ ps1 = ps /\ tr1 = tr) /\ sum_abs tr1 = sum_abs tr /\
      (forall T acc, Vc p e T -> exists n L, isteps p T n (est e ps) acc = Some (est e1 ps1, L ++ acc) /\
                                             rsyms tr1 = L ++ rsyms tr)).
  Proof.
    intros W. induction fuel as [|f IH]; intros ps e tr I Hcap Hp1 Hfuel.
    - exfalso. pose proof (ei_lz _ _ _ _ I) as [[? ?] ? ? ? ?]. pose proof (ei_ra _ _ _ _ I). unfold pidx in *. lia.
    - cbn [enc_loop1].
      eapply okor_bind; [apply (encode_symbol_spec p org ps e tr W I Hcap Hp1)|].
      intros [[[e1 ps1] tr1]|].
      + intros (I1 & C1 & Q & X1 & X1' & X2 & X3 & X4 & X5 & X6 & X7 & X8 & XA & XS & XR & XI & XJ).
        eapply okor_weaken; [apply IH; try assumption; lia|].
        intros [[e2 ps2] tr2] (I2 & C2 & Q2 & Y1 & Y1' & Y2 & Y3 & Y4 & Y5 & Y6 & Y7 & Y8 & Y9 & YA & YI).
        split; [exact I2|]. split; [exact C2|]. split; [exact Q2|]. split; [lia|]. split; [lia|].
        split; [congruence|]. split; [congruence|]. split; [congruence|]. split; [congruence|].
        split; [lia|]. split; [lia|].
        split; [|split; [intros Q'; contradiction|split; [congruence|]]].
        2:{ intros T acc HV.
            assert (HV1 : Vc p e1 T).
            { unfold Vc, steady in *. rewrite X2, X3, X4, X5.
              destruct HV as [HV|[HT [Hq|Hs]]]; [left; exact HV|contradiction|right; split; [exact HT|right; exact Hs]]. }
            destruct (YI T (ISym (pidx e1 - pidx e) :: acc) HV1) as (n & L & En & Er).
            exists (S n), (L ++ [ISym (pidx e1 - pidx e)]). cbn [isteps]. rewrite (XI T HV).
            rewrite <- app_assoc. cbn [app]. split; [exact En|]. rewrite Er, XR, <- app_assoc. reflexivity. }
        intros Hnf Hst.
        rewrite Y8 by (rewrite ?X2, ?X3, ?X4; assumption).
        apply X8. pose proof (wf_ka p W). unfold quiet in Q. lia.
      + cbn [okor]. intros Q.
        split; [exact I|]. split; [exact Hcap|]. split; [exact Q|].
        repeat split; try lia.
        intros T acc _. exists O, []. split; reflexivity.
  Qed.

  Lemma encode_for_lzma1_spec p org ps e tr : wf_p p -> einv p org e tr -> cap e ->
    okor (encode_for_lzma1 PS parse p ps e tr) (fun r =>
      let '(e1, ps1, tr1) := r in
      einv p org e1 tr1 /\ cap e1 /\ quiet e1 /\ pidx e <= pidx e1 /\ read_pos (e_lz e) <= read_pos (e_lz e1) /\
      write_pos (e_lz e1) = write_pos (e_lz e) /\ read_limit (e_lz e1) = read_limit (e_lz e) /\
      finishing (e_lz e1) = finishing (e_lz e) /\ g_base e1 = g_base e /\
      unc_size e1 = unc_size e + (pidx e1 - pidx e) /\
      (quiet e -> e1 = e /\ ps1 = ps /\ tr1 = tr) /\
      (finishing (e_lz e) = false -> read_limit (e_lz e) <= write_pos (e_lz e) - keep_after p ->
       pending_size (e_lz e) = 0 -> pending_size (e_lz e1) = 0) /\ sum_abs tr1 = sum_abs tr /\
      (forall T acc, Vc p e T -> exists n L, isteps p T n (est e ps) acc = Some (est e1 ps1, L ++ acc) /\
                                             rsyms tr1 = L ++ rsyms tr)).
  Proof.
    intros W I Hcap. pose proof W as [W1 W2 W3 W4 W5 W6 W7 W8 W9 W10].
    pose proof I as [[[Ha Hb] Hc [Hd He] [Hf Hg] Hpb] [Hr1 Hr2] Hmb [Hb1 Hb2] Hh Hdict Hpx Hu HU Hfill Hsym Hchunk Horg].
    unfold encode_for_lzma1, is_started.
    destruct (Z.eqb_spec (read_pos (e_lz e)) (-1)) as [Hns|Hst]; cbn [negb].
    - eapply okor_bind; [apply (encode_init_spec p org e tr W I Hcap Hns)|].
      intros [[ok e1] tr1]. destruct ok; cbn [negb].
      + intros (I1 & C1 & P1 & R1 & X2 & X3 & X4 & X5 & X6 & X7 & NQ & XA & XR & XI & XF).
        assert (Hp0 : pidx e = 0) by (unfold pidx; lia).
        assert (Hunc : unc_size e = 0).
        { assert (g_base e = 0) by (destruct Hh; lia). rewrite logical_pidx in Hchunk. lia. }
        eapply okor_weaken.
        { apply (enc_loop1_spec p org W); try assumption; try lia.
          unfold sym_fuel. pose proof (ei_lz _ _ _ _ I1) as [[? ?] ? ? ? ?]. lia. }
        intros [[e2 ps2] tr2] (I2 & C2 & Q2 & Y1 & Y1' & Y2 & Y3 & Y4 & Y5 & Y6 & Y7 & Y8 & Y9 & YA & YI).
        split; [exact I2|]. split; [exact C2|]. split; [exact Q2|]. split; [lia|]. split; [lia|].
        split; [congruence|]. split; [congruence|]. split; [congruence|]. split; [congruence|].
        split; [lia|].
        split; [intros Q; contradiction|].
        split; [|split; [congruence|]].
        { intros Hnf Hs Hp. rewrite Y8; [apply X7; unfold quiet, pidx in NQ; lia|congruence|congruence]. }
        intros T acc HV.
        assert (HT : g_base e + write_pos (e_lz e) <= T) by (unfold Vc in HV; destruct HV as [[_ ?]|[? _]]; lia).
        assert (HV1 : Vc p e1 T).
        { unfold Vc, steady in *. rewrite X2, X3, X4, X5.
          destruct HV as [HV|[HT' [Hq|Hs]]]; [left; exact HV|contradiction|right; split; [exact HT'|right; exact Hs]]. }
        destruct (YI T (ISym 1 :: acc) HV1) as (n & L & En & Er).
        exists (S n), (L ++ [ISym 1]). cbn [isteps]. rewrite (XI T ps HT).
        rewrite <- app_assoc. cbn [app]. split; [exact En|]. rewrite Er, XR, <- app_assoc. reflexivity.
      + intros (E1 & E2 & Q). subst e1 tr1. cbn [okor].
        split; [exact I|]. split; [exact Hcap|]. split; [exact Q|].
        repeat split; try lia; auto.
        intros T acc _. exists O, []. split; reflexivity.
    - assert (Hp1 : 1 <= pidx e) by (destruct Hpx; [lia|assumption]).
      eapply okor_weaken.
      { apply (enc_loop1_spec p org W); try assumption. unfold sym_fuel, pidx in *. lia. }
      intros [[e2 ps2] tr2] (I2 & C2 & Q2 & Y1 & Y1' & Y2 & Y3 & Y4 & Y5 & Y6 & Y7 & Y8 & Y9 & YA & YI).
      split; [exact I2|]. split; [exact C2|]. split; [exact Q2|]. split; [lia|]. split; [lia|].
      split; [exact Y2|]. split; [exact Y3|]. split; [exact Y4|]. split; [exact Y5|]. split; [exact Y6|].
      split; [exact Y9|]. split; [|split; [exact YA|exact YI]].
      intros Hnf Hs Hp. rewrite Y8; assumption.
  Qed.

  (* ---- the "steady" phase: write calls, no flush in progress ------------------------------- *)

  Record phi (p : lzp) (e : encd) : Prop := mkPhi {
    ph_fin : finishing (e_lz e) = false;
    ph_sq : steady p e \/ quiet e;
    ph_pend : 0 < pending_size (e_lz e) -> read_ahead e = -1;
    ph_G : write_pos (e_lz e) = buf_size p -> buf_size p - keep_after p <= read_limit (e_lz e)
  }.

  (* a consultation in the steady phase finds no pending position (fill_window has re-processed them) *)
  Lemma phi_consult_nopend p org e tr : wf_p p -> einv p org e tr -> phi p e -> ~ quiet e ->
    steady p e /\ pending_size (e_lz e) = 0.
  Proof.
    intros W I [Hfin Hsq Hpend HG] NQ. pose proof W as [W1 W2 W3 W4 W5 W6 W7 W8 W9 W10].
    pose proof I as [[[Ha Hb] Hc [Hd He] [Hf Hg] Hpb] [Hr1 Hr2] Hmb [Hb1 Hb2] Hh Hdict Hpx Hu HU Hfill Hsym Hchunk Horg].
    assert (Hst : steady p e) by (destruct Hsq; [assumption|contradiction]).
    split; [exact Hst|].
    destruct (Z.eq_dec (pending_size (e_lz e)) 0) as [Hz|Hz]; [exact Hz|exfalso].
    assert (Hp : 0 < pending_size (e_lz e)) by lia.
    pose proof (Hpend Hp) as Hra. unfold steady, quiet, pidx, Kp in *.
    destruct (HU Hp) as [[K|K]|[[K1 K2]|K]]; lia.
  Qed.

  (* fill_window as the write loops use it (the ghost base follows a window move) *)
  Definition after_fill (e : encd) (d1 : lzd) : encd :=
    mkEncd d1 (read_ahead e) (unc_size e) (rc_full e) (g_base e + (read_pos (e_lz e) - read_pos d1)).

  Lemma fill_step p org e tr n : wf_p p -> einv p org e tr -> phi p e -> 0 <= n ->
    okor (fill_window p (e_lz e) n tr) (fun r =>
      let '(d1, used, tr1) := r in
      let e1 := after_fill e d1 in
      einv p org e1 tr1 /\ phi p e1 /\ 0 <= used <= n /\
      logical_pos e1 = logical_pos e /\ unc_size e1 = unc_size e /\ rc_full e1 = rc_full e /\
      write_pos (e_lz e1) - pidx e1 = write_pos (e_lz e) - pidx e + used /\
      g_base e1 + write_pos (e_lz e1) = g_base e + write_pos (e_lz e) + used /\
      (quiet e -> 0 < n -> 1 <= used) /\
      (used = 0 -> 0 < n -> write_pos (e_lz e1) = buf_size p /\ d1 = e_lz e) /\
      sum_abs tr1 = sum_abs tr /\ sum_fill tr1 = sum_fill tr + used /\ rsyms tr1 = rsyms tr).
  Proof.
    intros W I F Hn. pose proof W as [W1 W2 W3 W4 W5 W6 W7 W8 W9 W10].
    pose proof I as [[[Ha Hb] Hc [Hd He] [Hf Hg] Hpb] [Hr1 Hr2] Hmb [Hb1 Hb2] Hh Hdict Hpx Hu HU Hfill Hsym Hchunk Horg].
    pose proof F as [Hfin Hsq Hpend HG].
    eapply okor_weaken; [apply (fill_window_spec p (e_lz e) n tr W (ei_lz _ _ _ _ I) Hfin Hn)|].
    intros [[d1 used] tr1] (off & L1 & F1 & O1 & O2 & O3 & R1 & U1 & U2 & Wp1 & Rl1 & Pcase & Acc).
    injection Acc as E1 E2 E3 E4 E5.
    pose proof L1 as [[Ha1 Hb1'] Hc1 [Hd1 He1] [Hf1 Hg1] Hpb1].
    assert (Hbase : g_base e + (read_pos (e_lz e) - read_pos d1) = g_base e + off) by lia.
    assert (Hpi : pidx (after_fill e d1) = pidx e - off) by (unfold pidx, after_fill; cbn [e_lz read_ahead]; lia).
    assert (Hoff : off = 0 \/ (64 <= off /\ dict_size p <= pidx e - off /\ keep_before p <= read_pos d1 + 1)).
    { destruct O3 as [[? ?]|(? & ? & ?)]; [left; assumption|right]. unfold pidx. lia. }
    split.
    { constructor; unfold after_fill; cbn [e_lz read_ahead unc_size g_base rc_full]; fold (after_fill e d1); try rewrite Hpi.
      - exact L1.
      - destruct Hoff as [?|(? & ? & ?)]; unfold pidx in *; lia.
      - exact Hmb.
      - rewrite Hbase. split; [lia|]. rewrite Z.add_mod by lia. rewrite Hb2, O2. reflexivity.
      - rewrite Hbase. destruct Hoff as [?|(? & ? & ?)]; [|right; lia]. subst off. rewrite Z.add_0_r.
        destruct Hh; [left; assumption|right; lia].
      - rewrite Hbase. destruct Hoff as [?|(? & ? & ?)]; [|right; lia]. subst off. rewrite Z.add_0_r, Z.sub_0_r. exact Hdict.
      - destruct Hoff as [?|(? & ? & ?)]; [|right; lia]. subst off. rewrite Z.sub_0_r.
        destruct Hpx; [left; lia|right; assumption].
      - exact Hu.
      - intros Hp. destruct Pcase as [[Pq Pn]|(P1 & P2 & P3 & P4)].
        + right; left. split; [apply Hpend; lia|]. lia.
        + left. exact P3.
      - rewrite E2, Hbase, Wp1, Hfill. lia.
      - rewrite E1, E3, Hsym. unfold logical_pos, after_fill. cbn [e_lz read_ahead g_base]. lia.
      - rewrite E4, Hchunk. unfold logical_pos, after_fill. cbn [e_lz read_ahead g_base]. lia.
      - rewrite E4. exact Horg. }
    split.
    { constructor; unfold after_fill, steady, quiet; cbn [e_lz read_ahead]; fold (after_fill e d1); try rewrite Hpi.
      - exact F1.
      - rewrite Rl1. destruct (Z.leb_spec (keep_after p) (write_pos d1)); [left; lia|].
        assert (off = 0) by (destruct Hoff as [?|(? & ? & ?)]; lia). subst off.
        destruct Hsq as [Hs|Hq]; [left; unfold steady in Hs; lia|right; unfold quiet in Hq; lia].
      - intros Hp. apply Hpend. destruct Pcase as [[Pq Pn]|(P1 & P2 & P3 & P4)]; lia.
      - intros Hfull. rewrite Rl1. destruct (Z.leb_spec (keep_after p) (write_pos d1)); lia. }
    rewrite Hpi. unfold after_fill. cbn [e_lz read_ahead unc_size g_base rc_full].
    split; [lia|].
    split; [unfold logical_pos; cbn [e_lz read_ahead g_base]; lia|].
    split; [reflexivity|]. split; [reflexivity|].
    split; [lia|]. split; [lia|].
    split.
    { intros Q Hn0. unfold quiet, pidx in Q.
      destruct O3 as [[Ho Hlt]|(Ho & Hge & Hb3)]; [|lia].
      (* no move: there must be room, otherwise the window is full and a drained encoder forces a move *)
      subst off. destruct (Z.eq_dec (write_pos (e_lz e)) (buf_size p)) as [Hfullw|Hnf]; [|lia].
      pose proof (HG Hfullw). lia. }
    split; [|split; [exact E3|split; [exact E2|exact E5]]].
    intros Hu0 Hn0. subst used.
    assert (Hroom : buf_size p - (write_pos (e_lz e) - off) = 0) by lia.
    assert (off = 0) by (destruct O3 as [[? ?]|(? & ? & ?)]; lia). subst off.
    split; [lia|].
    (* nothing changed *)
    destruct d1 as [rp1 rl1 fin1 wp1 pe1]. cbn [read_pos write_pos read_limit finishing pending_size] in *.
    destruct (e_lz e) as [rp0 rl0 fin0 wp0 pe0] eqn:Ed. cbn [read_pos write_pos read_limit finishing pending_size] in *.
    assert (rl1 = rl0).
    { rewrite Rl1. destruct (Z.leb_spec (keep_after p) wp1); [|reflexivity].
      assert (wp0 = buf_size p) by lia. pose proof (HG H0). destruct Hsq as [Hs|Hq]; unfold steady, quiet, pidx in *; rewrite Ed in *;
        cbn [read_pos write_pos read_limit] in *; lia. }
    assert (pe1 = pe0).
    { destruct Pcase as [[Pq Pn]|(P1 & P2 & P3 & P4)]; [exact Pq|exfalso].
      assert (Hp : 0 < pe0) by exact P1. pose proof (Hpend Hp) as Hra.
      destruct Hsq as [Hs|Hq]; unfold steady, quiet, pidx in *; rewrite Ed in *; cbn [read_pos write_pos read_limit] in *; [|lia].
      assert (wp0 = buf_size p) by lia.
      destruct (HU Hp) as [[K|K]|[[K1 K2]|K]]; unfold Kp in *; cbn [read_pos write_pos read_limit pending_size] in *; lia. }
    f_equal; try lia; congruence.
  Qed.


  (* ---- LZMAWriter -------------------------------------------------------------------------- *)
  (* between two calls of an LZMAWriter *)
  Definition l1inv (p : lzp) (org : Z) (e : encd) (tr : list wev) : Prop :=
    einv p org e tr /\ phi p e /\ quiet e /\ sum_abs tr = 0.

  Lemma l1_write_loop_spec p org : wf_p p -> forall fuel ps e len off tr,
    l1inv p org e tr -> 0 <= len ->
    unc_size e + (write_pos (e_lz e) - pidx e) + len <= U32_MAX ->
    len + 1 <= Z.of_nat fuel ->
    okor (l1_write_loop PS parse fuel p ps e len off tr) (fun r =>
      let '(e1, ps1, off1, tr1) := r in
      l1inv p org e1 tr1 /\ off1 = off + len /\ sum_fill tr1 = sum_fill tr + len /\
      unc_size e1 + (write_pos (e_lz e1) - pidx e1) = unc_size e + (write_pos (e_lz e) - pidx e) + len /\
      (forall T acc, g_base e + write_pos (e_lz e) + len <= T ->
         exists n L, isteps p T n (est e ps) acc = Some (est e1 ps1, L ++ acc) /\ rsyms tr1 = L ++ rsyms tr)).
  Proof.
    intros W. induction fuel as [|f IH]; intros ps e len off tr (I & F & Q & A0) Hlen Hcap Hfuel; [lia|].
    cbn [l1_write_loop].
    destruct (Z.leb_spec len 0) as [Hz|Hpos].
    { cbn [okor]. assert (len = 0) by lia. subst len.
      split; [split; [exact I|split; [exact F|split; [exact Q|exact A0]]]|]. split; [lia|]. split; [lia|]. split; [lia|].
      intros T acc _. exists O, []. split; reflexivity. }
    eapply okor_bind; [apply (fill_step p org e tr len W I F Hlen)|].
    intros [[d1 used] tr1]. fold (after_fill e d1).
    intros (I1 & F1 & U1 & L1 & Un1 & Rc1 & Wn1 & Bw1 & Hprog & _ & Ab1 & Fl1 & Rs1).
    assert (Hu : 1 <= used) by (apply Hprog; [exact Q|lia]).
    assert (Hcap1 : cap (after_fill e d1)) by (unfold cap; rewrite Un1; lia).
    eapply okor_bind; [apply (encode_for_lzma1_spec p org ps _ tr1 W I1 Hcap1)|].
    intros [[e2 ps2] tr2] (I2 & C2 & Q2 & Y1 & Y1' & Y2 & Y3 & Y4 & Y5 & Y6 & Y9 & Y8 & YA & YI).
    assert (F2 : phi p e2).
    { destruct F1 as [G1 G2 G3 G4]. constructor.
      - congruence.
      - right; exact Q2.
      - destruct (Z_le_dec (read_limit (e_lz (after_fill e d1))) (pidx (after_fill e d1) - 1)) as [Hq|Hnq].
        + destruct (Y9 Hq) as (E1 & _ & _). subst e2. exact G3.
        + assert (NQ : ~ quiet (after_fill e d1)) by (unfold quiet; lia).
          destruct (phi_consult_nopend p org _ tr1 W I1 (mkPhi _ _ G1 G2 G3 G4) NQ) as [Hst Hp0].
          rewrite (Y8 G1 Hst Hp0). lia.
      - rewrite Y2, Y3. exact G4. }
    eapply okor_weaken.
    { apply (IH ps2 e2 (len - used) (off + used) tr2).
      - split; [exact I2|]. split; [exact F2|]. split; [exact Q2|]. congruence.
      - lia.
      - rewrite Y6, Y2. lia.
      - lia. }
    intros [[[e3 ps3] off3] tr3] (L3 & O3 & S3 & C3 & ZI).
    pose proof (ei_fill _ _ _ _ I2) as Hf2. pose proof (ei_fill _ _ _ _ I1) as Hf1.
    split; [exact L3|]. split; [lia|]. split; [lia|]. split; [rewrite C3, Y6, Y2; lia|].
    intros T acc HT.
    assert (HV1 : Vc p (after_fill e d1) T).
    { unfold Vc. right. split; [lia|]. destruct (ph_sq _ _ F1) as [Hs|Hq]; [right; exact Hs|left; exact Hq]. }
    destruct (YI T acc HV1) as (n1 & L1' & En1 & Er1).
    assert (Hest : est (after_fill e d1) ps = est e ps) by (unfold est; rewrite L1; reflexivity).
    rewrite Hest in En1.
    destruct (ZI T (L1' ++ acc)) as (n2 & L2' & En2 & Er2); [rewrite Y5, Y2; lia|].
    exists (n1 + n2)%nat, (L2' ++ L1'). split.
    - rewrite <- app_assoc. eapply isteps_app; eassumption.
    - rewrite Er2, Er1, Rs1, <- app_assoc. reflexivity.
  Qed.

  (* the state of an LZMAWriter between calls, tied to what has been written *)
  Record l1ok (s : l1st PS) (p : lzp) (org : Z) : Prop := mkL1ok {
    lo_p : l1_p _ s = p;
    lo_inv : l1inv p org (l1_e _ s) (l1_tr _ s);
    lo_cur : l1_cur _ s = sum_fill (l1_tr _ s);          (* current_uncompressed_size = bytes accepted *)
    lo_org : org <= 0;                                    (* - (preset dictionary bytes in the window) *)
    lo_nn : 0 <= sum_fill (l1_tr _ s)
  }.

  Lemma einv_cap_bound p org e tr : einv p org e tr ->
    unc_size e + (write_pos (e_lz e) - pidx e) <= sum_fill tr - org.
  Proof.
    intros I. pose proof (ei_fill _ _ _ _ I). pose proof (ei_chunk _ _ _ _ I). pose proof (ei_org _ _ _ _ I).
    rewrite logical_pidx in *. lia.
  Qed.

  Lemma l1_write_spec p org s n : wf_p p -> l1ok s p org -> 0 <= n ->
    sum_fill (l1_tr _ s) - org + n <= U32_MAX ->
    okor (l1_write PS parse s n) (fun r =>
      let '(s1, res) := r in
      if (match l1_exp _ s with Some ex => ex <? l1_cur _ s + n | None => false end)
      then s1 = s /\ res = RRej E_INVALID_INPUT
      else l1ok s1 p org /\ res = RWrote n /\ l1_exp _ s1 = l1_exp _ s /\
           sum_fill (l1_tr _ s1) = sum_fill (l1_tr _ s) + n /\
           (forall T acc, sum_fill (l1_tr _ s) - org + n <= T ->
              exists k L, isteps p T k (est (l1_e _ s) (l1_ps _ s)) acc = Some (est (l1_e _ s1) (l1_ps _ s1), L ++ acc) /\
                          rsyms (l1_tr _ s1) = L ++ rsyms (l1_tr _ s))).
  Proof.
    intros W [Hp Hinv Hcur Horg Hnn] Hn Hcap. unfold l1_write.
    pose proof Hinv as (I & F & Q & A0).
    assert (Hcur64 : 0 <= l1_cur _ s + n <= U64_MAX).
    { rewrite Hcur. unfold U64_MAX, U32_MAX, I32_MAX in *. lia. }
    assert (Htest : (match l1_exp PS s with
                     | Some ex => do t <- ck_u64 (l1_cur PS s + n); Ok (ex <? t)
                     | None => Ok false end) =
                    Ok (match l1_exp _ s with Some ex => ex <? l1_cur _ s + n | None => false end)).
    { destruct (l1_exp PS s); [rewrite ck_u64_ok by exact Hcur64; reflexivity|reflexivity]. }
    rewrite Htest.
    destruct (match l1_exp _ s with Some ex => ex <? l1_cur _ s + n | None => false end).
    { cbn [okor]. split; reflexivity. }
    rewrite ck_u64_ok by exact Hcur64. cbn [obind].
    rewrite Hp.
    eapply okor_bind.
    { apply (l1_write_loop_spec p org W (write_fuel n) (l1_ps _ s) (l1_e _ s) n 0 (l1_tr _ s) Hinv Hn).
      - pose proof (einv_cap_bound _ _ _ _ I). lia.
      - unfold write_fuel. lia. }
    intros [[[e1 ps1] off1] tr1] (L1 & O1 & S1 & C1 & ZI). cbn [okor].
    split.
    { constructor; cbn [l1_p l1_e l1_tr l1_cur]; try assumption; try reflexivity; try lia. }
    split; [f_equal; lia|]. split; [reflexivity|]. split; [exact S1|].
    cbn [l1_e l1_ps l1_tr]. intros T acc HT. apply ZI. pose proof (ei_fill _ _ _ _ I). lia.
  Qed.

  Lemma l1_finish_spec p org s : wf_p p -> l1ok s p org -> sum_fill (l1_tr _ s) - org <= U32_MAX ->
    okor (l1_finish PS parse s) (fun r =>
      let '(s1, res) := r in
      if (match l1_exp _ s with Some ex => negb (ex =? l1_cur _ s) | None => false end)
      then s1 = s /\ res = RRej E_INVALID_INPUT
      else res = RDone /\ sum_fill (l1_tr _ s1) = sum_fill (l1_tr _ s) /\
           sum_sym (l1_tr _ s1) = sum_fill (l1_tr _ s1) /\ sum_abs (l1_tr _ s1) = 0 /\
           l1_cur _ s1 = l1_cur _ s /\ l1_exp _ s1 = l1_exp _ s /\
           (forall acc, let T := sum_fill (l1_tr _ s) - org in
              exists k L, isteps p T k (est (l1_e _ s) (l1_ps _ s)) acc = Some ((T, -1, l1_ps _ s1), L ++ acc) /\
                          rsyms (l1_tr _ s1) = L ++ rsyms (l1_tr _ s))).
  Proof.
    intros W [Hp Hinv Hcur Horg Hnn] Hcap. unfold l1_finish.
    pose proof Hinv as (I & F & Q & A0).
    destruct (match l1_exp _ s with Some ex => negb (ex =? l1_cur _ s) | None => false end).
    { cbn [okor]. split; reflexivity. }
    rewrite Hp.
    eapply okor_bind; [apply (set_finishing_spec p _ (l1_tr _ s) W (ei_lz _ _ _ _ I))|].
    intros [d1 tr1]. cbn [fst snd]. intros (L1 & R1 & Wp1 & Rl1 & Fin1 & Acc & Pcase).
    injection Acc as E1 E2 E3 E4 E5.
    pose proof I as [[[Ha Hb] Hc [Hd He] [Hf Hg] Hpb] [Hr1 Hr2] Hmb [Hb1 Hb2] Hh Hdict Hpx Hu HU Hfill Hsym Hchunk Horg'].
    assert (I1 : einv p org (with_lz (l1_e _ s) d1) tr1).
    { constructor; unfold with_lz, pidx, logical_pos in *; cbn [e_lz read_ahead unc_size g_base rc_full]; try rewrite R1; try rewrite Wp1;
        try assumption; try lia.
      intros Hp0. destruct Pcase as [[Pq Pn]|[P1 P2]].
      + right; right. lia.
      + left; exact P2. }
    assert (C1 : cap (with_lz (l1_e _ s) d1)).
    { pose proof (einv_cap_bound _ _ _ _ I1). unfold cap. rewrite E2 in H. lia. }
    eapply okor_bind; [apply (encode_for_lzma1_spec p org (l1_ps _ s) _ tr1 W I1 C1)|].
    intros [[e2 ps2] tr2] (I2 & C2 & Q2 & Y1 & Y1' & Y2 & Y3 & Y4 & Y5 & Y6 & Y9 & Y8 & YA & YI).
    cbn [okor l1_tr l1_cur l1_exp l1_ps l1_e sum_fill sum_sym sum_abs rsyms].
    split; [reflexivity|].
    pose proof (ei_fill _ _ _ _ I2) as Hf2. pose proof (ei_sym _ _ _ _ I2) as Hs2.
    pose proof (ei_fill _ _ _ _ I1) as Hf1.
    pose proof (ei_lz _ _ _ _ I2) as [[Ha2 Hb2'] Hc2 [Hd2 He2] [Hf2' Hg2] Hpb2]. pose proof (ei_ra _ _ _ _ I2) as [Hr12 Hr22].
    unfold quiet in Q2. rewrite Y3 in Q2. unfold with_lz in Q2 at 1. cbn [e_lz] in Q2. rewrite Rl1 in Q2.
    unfold with_lz in Y2, Y5. cbn [e_lz g_base] in Y2, Y5.
    rewrite logical_pidx in Hs2. unfold pidx in *.
    split; [lia|]. split; [lia|]. split; [lia|]. split; [reflexivity|]. split; [reflexivity|].
    intros acc. set (T := sum_fill (l1_tr PS s) - org).
    assert (HV : Vc p (with_lz (l1_e PS s) d1) T).
    { unfold Vc. left. unfold with_lz. cbn [e_lz g_base]. split; [exact Fin1|]. unfold T. lia. }
    destruct (YI T acc HV) as (k & L & Ek & Er).
    exists k, L. split.
    - assert (E1' : est (with_lz (l1_e PS s) d1) (l1_ps PS s) = est (l1_e PS s) (l1_ps PS s)).
      { unfold est, with_lz, logical_pos. cbn [e_lz read_ahead g_base]. rewrite R1. reflexivity. }
      rewrite E1' in Ek. rewrite Ek. unfold est, logical_pos.
      replace (g_base e2 + read_pos (e_lz e2) - read_ahead e2) with T by (unfold T; lia).
      replace (read_ahead e2) with (-1) by lia. reflexivity.
    - rewrite Er, E5. reflexivity.
  Qed.


  (* ---- constructors ------------------------------------------------------------------------ *)
  (* option vectors the theorems cover: DICT_SIZE_MIN <= dict_size <= 1 GiB (beyond about 1.5 GiB
     buf_size no longer fits the i32 positions), 4 <= nice_len <= MATCH_LEN_MAX *)
  Definition opts_ok (dict nice : Z) : Prop := 4096 <= dict <= 1073741824 /\ 4 <= nice <= 273.

  Definition enc0 : encd := mkEncd (mkLzd (-1) (-1) false 0 0) (-1) 0 false 0.

  Lemma enc_new_with_spec eb normal bt4 dict nice : opts_ok dict nice ->
    mode_extra_before normal <= eb <= 65536 + 4096 ->
    exists p, enc_new_with eb normal bt4 dict nice = Ok (p, enc0) /\ wf_p p /\
      keep_before p = eb + dict /\ dict_size p = dict /\ mode_before p = mode_extra_before normal /\
      extra_after p = mode_extra_after normal /\ match_len_max p = MATCH_LEN_MAX /\
      keep_after p = mode_extra_after normal + MATCH_LEN_MAX /\ dict < buf_size p.
  Proof.
    intros [[Hd1 Hd2] [Hn1 Hn2]] Heb.
    assert (Hmb : 1 <= mode_extra_before normal <= 4096) by (unfold mode_extra_before, mode_extra_after, NORMAL_EXTRA_BEFORE, FAST_EXTRA_BEFORE, NORMAL_EXTRA_AFTER, FAST_EXTRA_AFTER; destruct normal; lia).
    assert (Hma : 272 <= mode_extra_after normal <= 4096) by (unfold mode_extra_before, mode_extra_after, NORMAL_EXTRA_BEFORE, FAST_EXTRA_BEFORE, NORMAL_EXTRA_AFTER, FAST_EXTRA_AFTER; destruct normal; lia).
    assert (Hmm : mode_extra_after normal + 273 <= mode_extra_before normal + 4096) by (unfold mode_extra_before, mode_extra_after, NORMAL_EXTRA_BEFORE, FAST_EXTRA_BEFORE, NORMAL_EXTRA_AFTER, FAST_EXTRA_AFTER; destruct normal; lia).
    unfold enc_new_with, lz_new, get_buf_size, MATCH_LEN_MAX.
    set (reserve := Z.min (dict / 2 + 262144) 536870912).
    assert (Hres : 64 <= reserve <= 536870912) by (unfold reserve; lia).
    rewrite (ck_u32_ok (eb + dict)) by (unfold U32_MAX; lia). cbn [obind].
    rewrite (ck_u32_ok (mode_extra_after normal + 273)) by (unfold U32_MAX; lia). cbn [obind].
    rewrite ck_u32_ok by (unfold U32_MAX; lia). cbn [obind].
    rewrite ck_u32_ok by (unfold U32_MAX; lia). cbn [obind].
    destruct (Z.ltb_spec (eb + dict + (mode_extra_after normal + 273) + reserve) 2); [lia|].
    destruct (Z.ltb_spec nice 1); [lia|]. cbn [fst snd].
    eexists. split; [reflexivity|].
    split.
    { constructor; cbn [fst snd match_len_max req_flush extra_after keep_after mode_before dict_size keep_before buf_size];
        unfold REQ_FINISH, I32_MAX; try lia. destruct bt4; lia. }
    cbn [fst snd match_len_max req_flush extra_after keep_after mode_before dict_size keep_before buf_size].
    repeat split; lia.
  Qed.

  Lemma enc0_einv p : wf_p p -> einv p 0 enc0 [] /\ phi p enc0 /\ quiet enc0.
  Proof.
    intros [W1 W2 W3 W4 W5 W6 W7 W8 W9 W10]. unfold REQ_FINISH in *.
    split; [|split].
    - constructor; unfold enc0, pidx, logical_pos, Kp; cbn; try lia; try (left; reflexivity).
      constructor; cbn; lia.
    - constructor; unfold enc0, steady, quiet, pidx; cbn; try lia; try reflexivity.
    - unfold quiet, enc0, pidx; cbn. lia.
  Qed.

  (* set_preset_dict on a fresh encoder: the kept bytes are in the window, handed to the match
     finder (the last ones may stay pending), none of them is coded *)
  Lemma preset_spec p dict plen : wf_p p -> dict_size p = dict -> dict < buf_size p -> 0 <= plen ->
    okor (set_preset_dict p dict plen (e_lz enc0) []) (fun r =>
      let cs := Z.min plen dict in
      let e1 := with_lz enc0 (fst r) in
      einv p (- cs) e1 (snd r) /\ phi p e1 /\ quiet e1 /\ acct (snd r) = acct []).
  Proof.
    intros W Hd Hbuf Hpl. pose proof W as [W1 W2 W3 W4 W5 W6 W7 W8 W9 W10]. unfold REQ_FINISH in *.
    unfold set_preset_dict, enc0. cbn [e_lz read_pos write_pos read_limit finishing pending_size Z.eqb andb negb].
    set (cs := Z.min plen dict).
    destruct (Z.ltb_spec (buf_size p) cs); [lia|].
    rewrite as_i32_id by (unfold I32_MIN, I32_MAX in *; lia).
    rewrite ck_i32_ok by (unfold I32_MIN, I32_MAX in *; lia). cbn [obind].
    eapply okor_weaken.
    { apply (mf_skip_spec p W); cbn [read_pos write_pos pending_size]; try lia. left; reflexivity. }
    cbn [read_pos write_pos pending_size read_limit finishing].
    intros [d1 tr1]. cbn [fst snd]. rewrite Z2Nat.id by lia. intros (A & B & C & D & E & K & Hbig & F).
    injection F as E1 E2 E3 E4 E5. cbn [sum_sym sum_fill sum_abs sum_chunk rsyms] in *.
    assert (Hpb : pending_size d1 < req_flush p) by (destruct K as [K|K]; lia).
    split; [|split; [|split]].
    - constructor; unfold with_lz, pidx, logical_pos; cbn [e_lz read_ahead unc_size g_base rc_full]; try lia; try (left; reflexivity).
      constructor; lia.
    - constructor; unfold with_lz, steady, quiet, pidx; cbn [e_lz read_ahead]; try lia.
      exact D.
    - unfold quiet, with_lz, pidx; cbn [e_lz read_ahead]. lia.
    - unfold acct. cbn [sum_sym sum_fill sum_abs sum_chunk rsyms]. rewrite E1, E2, E3, E4, E5. reflexivity.
  Qed.

  Lemma l1_new_spec normal bt4 dict nice preset expected ps0 : opts_ok dict nice ->
    (match preset with Some plen => 0 <= plen | None => True end) ->
    okor (l1_new PS normal bt4 dict nice preset expected ps0) (fun s =>
      exists p, wf_p p /\ l1ok s p (- (match preset with Some plen => Z.min plen dict | None => 0 end)) /\
        sum_fill (l1_tr _ s) = 0 /\ l1_exp _ s = expected /\ l1_cur _ s = 0 /\
        dict_size p = dict /\ keep_before p = dict + mode_extra_before normal).
  Proof.
    intros Ho Hpl. pose proof Ho as [[Hd1 Hd2] [Hn1 Hn2]]. unfold l1_new, enc_new, extra_before_sum.
    assert (Hmb : 1 <= mode_extra_before normal <= 4096) by (unfold mode_extra_before, mode_extra_after, NORMAL_EXTRA_BEFORE, FAST_EXTRA_BEFORE, NORMAL_EXTRA_AFTER, FAST_EXTRA_AFTER; destruct normal; lia).
    rewrite ck_u32_ok by (unfold U32_MAX; lia). cbn [obind].
    destruct (enc_new_with_spec (0 + mode_extra_before normal) normal bt4 dict nice Ho) as (p & E & W & Kb & Ds & Mb & Ea & Ml & Ka & Hbuf); [lia|].
    rewrite E. cbn [obind].
    destruct preset as [plen|].
    - eapply okor_bind; [apply (preset_spec p dict plen W Ds Hbuf Hpl)|].
      intros [d1 tr1]. cbn [fst snd okor]. intros (I & F & Q & Acc). injection Acc as E1 E2 E3 E4 E5.
      cbn [sum_sym sum_fill sum_abs sum_chunk rsyms] in *.
      exists p. split; [exact W|]. split.
      { constructor; cbn [l1_p l1_e l1_tr l1_cur]; try reflexivity; try lia.
        split; [exact I|]. split; [exact F|]. split; [exact Q|exact E3]. }
      cbn [l1_tr l1_exp l1_cur]. repeat split; try assumption; try reflexivity; lia.
    - cbn [okor]. destruct (enc0_einv p W) as (I & F & Q).
      exists p. split; [exact W|]. split.
      { constructor; cbn [l1_p l1_e l1_tr l1_cur sum_fill]; try reflexivity; try lia.
        split; [exact I|]. split; [exact F|]. split; [exact Q|reflexivity]. }
      cbn [l1_tr l1_exp l1_cur sum_fill]. repeat split; try assumption; try reflexivity; lia.
  Qed.


  (* ---- whole call histories of an LZMAWriter ------------------------------------------------ *)
  (* what the calls return and how many bytes have been accepted, as a function of the history,
     the declared size and nothing else *)
  Fixpoint l1_results (exp : option Z) (cur : Z) (ops : list wop) : list opres * Z * bool :=
    match ops with
    | [] => ([], cur, false)
    | WoWrite n :: r =>
        if (match exp with Some ex => ex <? cur + n | None => false end)
        then let '(rs, c, f) := l1_results exp cur r in (RRej E_INVALID_INPUT :: rs, c, f)
        else let '(rs, c, f) := l1_results exp (cur + n) r in (RWrote n :: rs, c, f)
    | WoFlush :: r => let '(rs, c, f) := l1_results exp cur r in (RDone :: rs, c, f)
    | WoFinish :: _ =>
        if (match exp with Some ex => negb (ex =? cur) | None => false end)
        then ([RRej E_INVALID_INPUT], cur, false) else ([RDone], cur, true)
    end.

  Fixpoint ops_total (ops : list wop) : Z :=
    match ops with [] => 0 | WoWrite n :: r => n + ops_total r | _ :: r => ops_total r end.
  (* slice lengths are lengths *)
  Fixpoint ops_ok (ops : list wop) : Prop :=
    match ops with [] => True | WoWrite n :: r => 0 <= n /\ ops_ok r | _ :: r => ops_ok r end.

  Lemma ops_total_nonneg ops : ops_ok ops -> 0 <= ops_total ops.
  Proof. induction ops as [|[n| |] r IH]; cbn; intros H; try lia; try (apply IH; exact H). destruct H. specialize (IH H0). lia. Qed.

  Lemma l1_results_mono exp : forall ops cur, ops_ok ops ->
    cur <= snd (fst (l1_results exp cur ops)).
  Proof.
    induction ops as [|[n| |] r IH]; intros cur Hok; cbn [l1_results ops_ok] in *.
    - cbn. lia.
    - destruct Hok as [Hn Hok].
      destruct (match exp with Some ex => ex <? cur + n | None => false end).
      + specialize (IH cur Hok). destruct (l1_results exp cur r) as [[rs c] f]. cbn in *. lia.
      + specialize (IH (cur + n) Hok). destruct (l1_results exp (cur + n) r) as [[rs c] f]. cbn in *. lia.
    - specialize (IH cur Hok). destruct (l1_results exp cur r) as [[rs c] f]. cbn in *. lia.
    - destruct (match exp with Some ex => negb (ex =? cur) | None => false end); cbn; lia.
  Qed.

  Lemma l1_run_spec p org exp : wf_p p -> forall ops s acc,
    l1ok s p org -> l1_exp _ s = exp -> ops_ok ops ->
    sum_fill (l1_tr _ s) - org + ops_total ops <= U32_MAX ->
    okor (l1_run PS parse s ops acc) (fun r =>
      let '(s1, res) := r in
      let '(rs, c, fin) := l1_results exp (l1_cur _ s) ops in
      res = rev acc ++ rs /\ sum_fill (l1_tr _ s1) = c /\
      (fin = true -> sum_sym (l1_tr _ s1) = c /\ sum_abs (l1_tr _ s1) = 0 /\
         forall iacc, exists k L,
           isteps p (c - org) k (est (l1_e _ s) (l1_ps _ s)) iacc = Some ((c - org, -1, l1_ps _ s1), L ++ iacc) /\
           rsyms (l1_tr _ s1) = L ++ rsyms (l1_tr _ s))).
  Proof.
    intros W. induction ops as [|op r IH]; intros s acc L Hexp Hok Hcap.
    - cbn [l1_run l1_results okor]. rewrite frev_rev, app_nil_r. split; [reflexivity|]. split; [symmetry; apply (lo_cur _ _ _ L)|discriminate].
    - destruct op as [n| |]; cbn [l1_run l1_results ops_total ops_ok] in *.
      + destruct Hok as [Hn Hok]. pose proof (ops_total_nonneg _ Hok).
        eapply okor_bind; [apply (l1_write_spec p org s n W L Hn); lia|].
        intros [s1 res]. rewrite Hexp. cbn [fst snd].
        destruct (match exp with Some ex => ex <? l1_cur PS s + n | None => false end).
        * intros [E1 E2]. subst s1 res.
          eapply okor_weaken; [apply (IH s (RRej E_INVALID_INPUT :: acc) L Hexp Hok); lia|].
          intros [s2 res2]. destruct (l1_results exp (l1_cur PS s) r) as [[rs c] fin].
          intros (R1 & R2 & R3). split; [|split; assumption].
          rewrite R1. cbn [rev]. rewrite <- app_assoc. reflexivity.
        * intros (L1 & E2 & E3 & E4 & ZI). subst res.
          assert (Hc1 : l1_cur _ s1 = l1_cur _ s + n).
          { rewrite (lo_cur _ _ _ L1), (lo_cur _ _ _ L), E4. reflexivity. }
          pose proof (l1_results_mono exp r (l1_cur PS s + n) Hok) as Hmono.
          eapply okor_weaken; [apply (IH s1 (RWrote n :: acc) L1); [congruence|exact Hok|lia]|].
          intros [s2 res2]. rewrite Hc1. destruct (l1_results exp (l1_cur PS s + n) r) as [[rs c] fin].
          cbn [fst snd] in Hmono.
          intros (R1 & R2 & R3). split; [|split; [assumption|]].
          { rewrite R1. cbn [rev]. rewrite <- app_assoc. reflexivity. }
          intros Hfin. destruct (R3 Hfin) as (R4 & R5 & R6). split; [exact R4|]. split; [exact R5|].
          intros iacc.
          destruct (ZI (c - org) iacc) as (k1 & L1' & Ek1 & Er1); [rewrite <- (lo_cur _ _ _ L); lia|].
          destruct (R6 (L1' ++ iacc)) as (k2 & L2' & Ek2 & Er2).
          exists (k1 + k2)%nat, (L2' ++ L1'). split.
          -- rewrite <- app_assoc. eapply isteps_app; eassumption.
          -- rewrite Er2, Er1, <- app_assoc. reflexivity.
      + eapply okor_weaken; [apply (IH s (RDone :: acc) L Hexp Hok Hcap)|].
        intros [s2 res2]. destruct (l1_results exp (l1_cur PS s) r) as [[rs c] fin].
        intros (R1 & R2 & R3). split; [|split; assumption].
        rewrite R1. cbn [rev]. rewrite <- app_assoc. reflexivity.
      + pose proof (ops_total_nonneg _ Hok).
        eapply okor_bind; [apply (l1_finish_spec p org s W L); lia|].
        intros [s1 res]. rewrite Hexp. cbn [fst snd okor].
        destruct (match exp with Some ex => negb (ex =? l1_cur PS s) | None => false end).
        * intros [E1 E2]. subst s1 res. rewrite frev_rev. cbn [rev].
          split; [reflexivity|]. split; [symmetry; apply (lo_cur _ _ _ L)|discriminate].
        * intros (E1 & E2 & E3 & E4 & E5 & E6 & ZI). subst res. rewrite frev_rev. cbn [rev].
          split; [reflexivity|]. rewrite (lo_cur _ _ _ L).
          split; [exact E2|]. intros _. split; [rewrite E3; exact E2|]. split; [exact E4|].
          intros iacc. destruct (ZI iacc) as (k & L' & Ek & Er). exists k, L'. split; assumption.
  Qed.


  (* ---- LZMA2Writer ------------------------------------------------------------------------- *)
  Definition UNC_BOUND (p : lzp) : Z := LZMA2_UNCOMPRESSED_LIMIT + SYM_MAX p.
  Definition loop2_cond (e : encd) : bool := (unc_size e <=? LZMA2_UNCOMPRESSED_LIMIT) && negb (rc_full e).

  (* The data-only machine of the LZMA2 writer (no flush, no chunk_size): state = (logical position,
     read_ahead, oracle state, uncompressed_size of the chunk, range-coder bit).  A step is the
     forced first literal, a consultation, or write_chunk — the latter as soon as the chunk is full,
     and once more when all data is coded. *)
  Definition ist2 : Type := (Z * Z * PS * Z * bool)%type.
  Definition ichunk (st : ist2) : option (ist2 * iev) :=
    let '(P, ra, ps, unc, full) := st in
    let '(c, ps1) := chunkc ps unc in
    if (c <? 1) || (COMPRESSED_SIZE_MAX <? c + 2) || negb (Bool.eqb full (LZMA2_COMPRESSED_LIMIT <? c)) then None else
    if c + 2 <? unc then Some ((P, ra, ps1, 0, false), ILzma unc c)
    else Some ((P + (ra + 1), -1, ps1, 0, false), IUnc (unc + (ra + 1))).
  Definition istep2 (p : lzp) (T : Z) (st : ist2) : option (ist2 * iev) :=
    let '(P, ra, ps, unc, full) := st in
    if P =? 0 then (if 1 <=? T then Some ((1, -1, ps, unc + 1, full), ISym 1) else None)
    else if (unc <=? LZMA2_UNCOMPRESSED_LIMIT) && negb full then
      if P <? T then
        match irun p (parse ps P ra) (T - (P + ra)) ra with
        | Some (ra1, len, full1, ps1) => Some ((P + len, ra1 - len, ps1, unc + len, full1), ISym len)
        | None => None
        end
      else if 1 <=? unc then ichunk st else None
    else ichunk st.
  Fixpoint isteps2 (p : lzp) (T : Z) (n : nat) (st : ist2) (acc : list iev) : option (ist2 * list iev) :=
    match n with
    | O => Some (st, acc)
    | S k => match istep2 p T st with
             | Some (st1, ev) => isteps2 p T k st1 (ev :: acc)
             | None => None
             end
    end.
  Definition est2 (e : encd) (ps : PS) : ist2 := (logical_pos e, read_ahead e, ps, unc_size e, rc_full e).

  Lemma isteps2_app p T n1 : forall st acc st1 acc1 n2 st2 acc2,
    isteps2 p T n1 st acc = Some (st1, acc1) -> isteps2 p T n2 st1 acc1 = Some (st2, acc2) ->
    isteps2 p T (n1 + n2) st acc = Some (st2, acc2).
  Proof.
    induction n1 as [|n IH]; intros st acc st1 acc1 n2 st2 acc2 H1 H2.
    - cbn in H1. injection H1 as -> ->. exact H2.
    - cbn [isteps2 Nat.add] in *. destruct (istep2 p T st) as [[st' ev]|]; [|discriminate].
      eapply IH; eassumption.
  Qed.

  Lemma isteps2_split p T : forall n1 n2 st acc r,
    isteps2 p T (n1 + n2) st acc = Some r ->
    exists mid macc, isteps2 p T n1 st acc = Some (mid, macc) /\ isteps2 p T n2 mid macc = Some r.
  Proof.
    induction n1 as [|n IH]; intros n2 st acc r H.
    - exists st, acc. split; [reflexivity|exact H].
    - cbn [isteps2 Nat.add] in *. destruct (istep2 p T st) as [[st' ev]|]; [|discriminate].
      apply IH. exact H.
  Qed.

  (* two runs from the same state that both end in a state without successor are the same run *)
  Lemma isteps2_deterministic p T st : forall n n' acc f acc1 f' acc1',
    isteps2 p T n st acc = Some (f, acc1) -> isteps2 p T n' st acc = Some (f', acc1') ->
    istep2 p T f = None -> istep2 p T f' = None -> f = f' /\ acc1 = acc1'.
  Proof.
    assert (Hle : forall n n' acc f acc1 f' acc1',
      isteps2 p T n st acc = Some (f, acc1) -> isteps2 p T n' st acc = Some (f', acc1') ->
      istep2 p T f = None -> (n <= n')%nat -> f = f' /\ acc1 = acc1').
    { intros n n' acc f acc1 f' acc1' H H' Hf Hle.
      replace n' with (n + (n' - n))%nat in H' by lia.
      destruct (isteps2_split _ _ _ _ _ _ _ H') as (mid & macc & M1 & M2).
      rewrite H in M1. injection M1 as <- <-.
      destruct (n' - n)%nat as [|m].
      - cbn in M2. injection M2 as <- <-. split; reflexivity.
      - cbn [isteps2] in M2. rewrite Hf in M2. discriminate. }
    intros n n' acc f acc1 f' acc1' H H' Hf Hf'.
    destruct (Nat.le_ge_cases n n') as [L|L].
    - eapply Hle; eassumption.
    - destruct (Hle _ _ _ _ _ _ _ H' H Hf' L) as [A B]. split; congruence.
  Qed.

  Lemma cap_of_bound p org e tr : wf_p p -> einv p org e tr -> unc_size e <= UNC_BOUND p -> cap e.
  Proof.
    intros W I Hb. pose proof W as [W1 W2 W3 W4 W5 W6 W7 W8 W9 W10].
    pose proof (ei_lz _ _ _ _ I) as [[? ?] ? ? ? ?]. pose proof (ei_ra _ _ _ _ I).
    unfold cap, pidx, UNC_BOUND, SYM_MAX, LZMA2_UNCOMPRESSED_LIMIT, U32_MAX, I32_MAX in *. lia.
  Qed.

  Lemma enc_loop2_spec p org : wf_p p -> forall fuel ps e tr,
    einv p org e tr -> unc_size e <= UNC_BOUND p -> 1 <= pidx e ->
    write_pos (e_lz e) - pidx e + 1 <= Z.of_nat fuel ->
    okor (enc_loop2 PS parse fuel p ps e tr) (fun r =>
      let '(b, e1, ps1, tr1) := r in
      einv p org e1 tr1 /\ unc_size e1 <= UNC_BOUND p /\
      (if b then loop2_cond e1 = false else quiet e1 /\ loop2_cond e1 = true) /\
      pidx e <= pidx e1 /\ read_pos (e_lz e) <= read_pos (e_lz e1) /\
      write_pos (e_lz e1) = write_pos (e_lz e) /\ read_limit (e_lz e1) = read_limit (e_lz e) /\
      finishing (e_lz e1) = finishing (e_lz e) /\ g_base e1 = g_base e /\
      unc_size e1 = unc_size e + (pidx e1 - pidx e) /\
      pending_size (e_lz e) <= pending_size (e_lz e1) /\
      (finishing (e_lz e) = false -> read_limit (e_lz e) <= write_pos (e_lz e) - keep_after p ->
       pending_size (e_lz e1) = pending_size (e_lz e)) /\
      (quiet e -> e1 = e /\ ps1 = ps /\ tr1 = tr) /\
      (~ quiet e -> loop2_cond e = true -> pidx e < pidx e1) /\
      sum_abs tr1 = sum_abs tr /\
      (forall T acc, Vc p e T -> exists n L, isteps2 p T n (est2 e ps) acc = Some (est2 e1 ps1, L ++ acc) /\
                                             rsyms tr1 = L ++ rsyms tr)).
  Proof.
    intros W. induction fuel as [|f IH]; intros ps e tr I Hub Hp1 Hfuel.
    - exfalso. pose proof (ei_lz _ _ _ _ I) as [[? ?] ? ? ? ?]. pose proof (ei_ra _ _ _ _ I). unfold pidx in *. lia.
    - cbn [enc_loop2]. fold (loop2_cond e).
      destruct (loop2_cond e) eqn:Ec.
      2:{ cbn [okor]. split; [exact I|]. split; [exact Hub|]. split; [exact Ec|].
          repeat split; try lia; try reflexivity; try (intros _ X; discriminate).
          intros T acc _. exists O, []. split; reflexivity. }
      assert (Hcap : cap e) by (apply (cap_of_bound p org e tr W I Hub)).
      eapply okor_bind; [apply (encode_symbol_spec p org ps e tr W I Hcap Hp1)|].
      intros [[[e1 ps1] tr1]|].
      + intros (I1 & C1 & Q & X1 & X1' & X2 & X3 & X4 & X5 & X6 & X7 & X8 & XA & XS & XR & XI & XJ).
        assert (Hub1 : unc_size e1 <= UNC_BOUND p).
        { unfold loop2_cond in Ec. apply andb_true_iff in Ec as [Ec1 _]. apply Z.leb_le in Ec1.
          unfold UNC_BOUND. lia. }
        eapply okor_weaken; [apply (IH ps1 e1 tr1 I1 Hub1); lia|].
        intros [[[b e2] ps2] tr2] (I2 & U2 & B2 & Y1 & Y1' & Y2 & Y3 & Y4 & Y5 & Y6 & Y7 & Y8 & Y9 & Y10 & YA & YI).
        split; [exact I2|]. split; [exact U2|]. split; [exact B2|]. split; [lia|]. split; [lia|].
        split; [congruence|]. split; [congruence|]. split; [congruence|]. split; [congruence|].
        split; [lia|]. split; [lia|].
        split.
        { intros Hnf Hst. rewrite Y8 by (rewrite ?X2, ?X3, ?X4; assumption).
          apply X8. pose proof (wf_ka p W). unfold quiet in Q. lia. }
        split; [intros Q'; contradiction|]. split; [intros _ _; lia|]. split; [congruence|].
        intros T acc HV.
        assert (HV1 : Vc p e1 T).
        { unfold Vc, steady in *. rewrite X2, X3, X4, X5.
          destruct HV as [HV|[HT [Hq|Hs]]]; [left; exact HV|contradiction|right; split; [exact HT|right; exact Hs]]. }
        destruct (YI T (ISym (pidx e1 - pidx e) :: acc) HV1) as (n & L & En & Er).
        exists (S n), (L ++ [ISym (pidx e1 - pidx e)]). cbn [isteps2].
        destruct (XJ T HV) as [Hlt Hir].
        assert (Hst : istep2 p T (est2 e ps) = Some (est2 e1 ps1, ISym (pidx e1 - pidx e))).
        { unfold istep2, est2.
          assert (Hlp : logical_pos e =? 0 = false) by (apply Z.eqb_neq; rewrite logical_pidx; pose proof (ei_base _ _ _ _ I) as [? _]; lia).
          rewrite Hlp. unfold loop2_cond in Ec. rewrite Ec.
          destruct (Z.ltb_spec (logical_pos e) T); [|lia].
          rewrite Hir. rewrite !logical_pidx, X5, X6.
          replace (read_ahead e1 + (pidx e1 - pidx e) - (pidx e1 - pidx e)) with (read_ahead e1) by lia.
          replace (g_base e + pidx e + (pidx e1 - pidx e)) with (g_base e + pidx e1) by lia. reflexivity. }
        rewrite Hst. rewrite <- app_assoc. cbn [app]. split; [exact En|]. rewrite Er, XR, <- app_assoc. reflexivity.
      + cbn [okor]. intros Q.
        split; [exact I|]. split; [exact Hub|]. split; [split; [exact Q|exact Ec]|].
        repeat split; try lia; try reflexivity; try (intros NQ; contradiction).
        intros T acc _. exists O, []. split; reflexivity.
  Qed.

  Lemma encode_for_lzma2_spec p org ps e tr : wf_p p -> einv p org e tr -> unc_size e <= UNC_BOUND p ->
    okor (encode_for_lzma2 PS parse p ps e tr) (fun r =>
      let '(b, e1, ps1, tr1) := r in
      einv p org e1 tr1 /\ unc_size e1 <= UNC_BOUND p /\
      (if b then loop2_cond e1 = false else quiet e1) /\
      pidx e <= pidx e1 /\ read_pos (e_lz e) <= read_pos (e_lz e1) /\
      write_pos (e_lz e1) = write_pos (e_lz e) /\ read_limit (e_lz e1) = read_limit (e_lz e) /\
      finishing (e_lz e1) = finishing (e_lz e) /\ g_base e1 = g_base e /\
      unc_size e1 = unc_size e + (pidx e1 - pidx e) /\
      (quiet e -> e1 = e /\ ps1 = ps /\ tr1 = tr) /\
      (~ quiet e -> loop2_cond e = true -> pidx e < pidx e1) /\
      (loop2_cond e = true -> b = false -> loop2_cond e1 = true) /\
      (finishing (e_lz e) = false -> read_limit (e_lz e) <= write_pos (e_lz e) - keep_after p ->
       pending_size (e_lz e) = 0 -> pending_size (e_lz e1) = 0) /\ sum_abs tr1 = sum_abs tr /\
      (forall T acc, Vc p e T -> exists n L, isteps2 p T n (est2 e ps) acc = Some (est2 e1 ps1, L ++ acc) /\
                                             rsyms tr1 = L ++ rsyms tr)).
  Proof.
    intros W I Hub. pose proof W as [W1 W2 W3 W4 W5 W6 W7 W8 W9 W10].
    pose proof I as [[[Ha Hb] Hc [Hd He] [Hf Hg] Hpb] [Hr1 Hr2] Hmb [Hb1 Hb2] Hh Hdict Hpx Hu HU Hfill Hsym Hchunk Horg].
    unfold encode_for_lzma2, is_started.
    destruct (Z.eqb_spec (read_pos (e_lz e)) (-1)) as [Hns|Hst]; cbn [negb].
    - assert (Hcap : cap e) by (apply (cap_of_bound p org e tr W I Hub)).
      eapply okor_bind; [apply (encode_init_spec p org e tr W I Hcap Hns)|].
      intros [[ok e1] tr1]. destruct ok; cbn [negb].
      + intros (I1 & C1 & P1 & R1 & X2 & X3 & X4 & X5 & X6 & X7 & NQ & XA & XR & XI & XF).
        assert (Hp0 : pidx e = 0) by (unfold pidx; lia).
        assert (Hbase0 : g_base e = 0) by (destruct Hh; lia).
        assert (Hunc : unc_size e = 0) by (rewrite logical_pidx in Hchunk; lia).
        assert (Hub1 : unc_size e1 <= UNC_BOUND p).
        { rewrite X6. unfold UNC_BOUND, SYM_MAX, LZMA2_UNCOMPRESSED_LIMIT. lia. }
        eapply okor_weaken.
        { apply (enc_loop2_spec p org W _ ps e1 tr1 I1 Hub1); try lia.
          unfold sym_fuel. pose proof (ei_lz _ _ _ _ I1) as [[? ?] ? ? ? ?]. lia. }
        intros [[[b e2] ps2] tr2] (I2 & U2 & B2 & Y1 & Y1' & Y2 & Y3 & Y4 & Y5 & Y6 & Y7 & Y8 & Y9 & Y10 & YA & YI).
        split; [exact I2|]. split; [exact U2|].
        split; [destruct b; [exact B2|exact (proj1 B2)]|].
        split; [lia|]. split; [lia|].
        split; [congruence|]. split; [congruence|]. split; [congruence|]. split; [congruence|].
        split; [lia|].
        split; [intros Q; contradiction|].
        split; [intros _ _; lia|].
        split; [intros _ Eb; subst b; exact (proj2 B2)|].
        split; [|split; [congruence|]].
        { intros Hnf Hs Hp. rewrite Y8; [apply X7; unfold quiet, pidx in NQ; lia|congruence|congruence]. }
        intros T acc HV.
        assert (HT : g_base e + write_pos (e_lz e) <= T) by (unfold Vc in HV; destruct HV as [[_ ?]|[? _]]; lia).
        assert (HV1 : Vc p e1 T).
        { unfold Vc, steady in *. rewrite X2, X3, X4, X5.
          destruct HV as [HV|[HT' [Hq|Hs]]]; [left; exact HV|contradiction|right; split; [exact HT'|right; exact Hs]]. }
        destruct (YI T (ISym 1 :: acc) HV1) as (n & L & En & Er).
        exists (S n), (L ++ [ISym 1]). cbn [isteps2].
        assert (Hst : istep2 p T (est2 e ps) = Some (est2 e1 ps, ISym 1)).
        { unfold istep2, est2. rewrite !logical_pidx, Hp0, Hbase0, X5, Hbase0, P1. cbn [Z.add Z.eqb].
          pose proof (ei_lz _ _ _ _ I1) as [[? ?] ? ? ? ?]. pose proof (ei_ra _ _ _ _ I1). unfold pidx in P1.
          destruct (Z.leb_spec 1 T); [|lia].
          replace (read_ahead e1) with (-1) by lia. rewrite Hunc, X6, XF. reflexivity. }
        rewrite Hst. rewrite <- app_assoc. cbn [app]. split; [exact En|]. rewrite Er, XR, <- app_assoc. reflexivity.
      + intros (E1 & E2 & Q). subst e1 tr1. cbn [okor].
        split; [exact I|]. split; [exact Hub|]. split; [exact Q|].
        repeat split; try lia; auto; try (intros NQ; contradiction).
        intros T acc _. exists O, []. split; reflexivity.
    - assert (Hp1 : 1 <= pidx e) by (destruct Hpx; [lia|assumption]).
      eapply okor_weaken.
      { apply (enc_loop2_spec p org W _ ps e tr I Hub Hp1). unfold sym_fuel, pidx in *. lia. }
      intros [[[b e2] ps2] tr2] (I2 & U2 & B2 & Y1 & Y1' & Y2 & Y3 & Y4 & Y5 & Y6 & Y7 & Y8 & Y9 & Y10 & YA & YI).
      split; [exact I2|]. split; [exact U2|].
      split; [destruct b; [exact B2|exact (proj1 B2)]|].
      split; [lia|]. split; [lia|].
      split; [exact Y2|]. split; [exact Y3|]. split; [exact Y4|]. split; [exact Y5|]. split; [exact Y6|].
      split; [exact Y9|]. split; [exact Y10|].
      split; [intros _ Eb; subst b; exact (proj2 B2)|].
      split; [|split; [exact YA|exact YI]].
      intros Hnf Hs Hp. rewrite Y8; assumption.
  Qed.

  (* write_uncompressed's copies: every slice read from the window lies inside it *)
  Lemma unc_copies_spec p d : wf_p p -> lzinv p d -> forall fuel u tr,
    0 <= u <= read_pos d + 1 -> u <= 65536 * (Z.of_nat fuel - 1) ->
    okor (unc_copies fuel p d u tr) (fun tr1 => acct tr1 = acct tr).
  Proof.
    intros W [[Ha Hb] Hc [Hd He] [Hf Hg] Hpb]. pose proof (wf_i32 p W) as Hi.
    induction fuel as [|f IH]; intros u tr Hu Hfu; [lia|].
    cbn [unc_copies].
    destruct (Z.leb_spec u 0); [cbn [okor]; reflexivity|].
    unfold copy_uncompressed, COMPRESSED_SIZE_MAX.
    rewrite ck_i32_ok by (unfold I32_MIN, I32_MAX in *; lia). cbn [obind].
    rewrite as_i32_id by (unfold I32_MIN, I32_MAX in *; lia).
    rewrite ck_i32_ok by (unfold I32_MIN, I32_MAX in *; lia). cbn [obind].
    destruct (Z.ltb_spec (read_pos d + 1 - u) 0); [lia|].
    destruct (Z.ltb_spec (buf_size p) (read_pos d + 1 - u + Z.min u 65536)); [lia|].
    cbn [obind fst snd].
    eapply okor_weaken; [apply IH; lia|].
    intros tr1 E. rewrite E. reflexivity.
  Qed.

  (* the state of an LZMA2Writer, tied to the event trace *)
  Record l2inv (p : lzp) (org : Z) (s : l2st PS) : Prop := mkL2inv {
    l2i_p : l2_p _ s = p;
    l2i_new : l2_new _ s = Ok (p, enc0);
    l2i_e : einv p org (l2_e _ s) (l2_tr _ s);
    l2i_pend : l2_pending _ s = sum_fill (l2_tr _ s) - sum_chunk (l2_tr _ s);   (* accepted, not yet in a chunk *)
    l2i_unc : l2_unc _ s = sum_chunk (l2_tr _ s) - Z.max org 0;                 (* chunked since the last independent start *)
    l2i_big : sum_fill (l2_tr _ s) <= 4611686018427387904;                      (* 2^62: no u64 overflow of the byte counters *)
    l2i_cnn : 0 <= sum_chunk (l2_tr _ s)
  }.

  (* what the LZMA2 writer needs of the window: a nearly full incompressible chunk plus what the
     parser has read ahead must survive a window move *)
  Definition l2_hist_ok (p : lzp) : Prop := COMPRESSED_SIZE_MAX + mode_before p <= keep_before p.

  Lemma l2_pending_cap p org s : l2inv p org s ->
    l2_pending _ s = unc_size (l2_e _ s) + (write_pos (e_lz (l2_e _ s)) - pidx (l2_e _ s)).
  Proof.
    intros [_ _ I Hp _ _ _]. pose proof (ei_fill _ _ _ _ I). pose proof (ei_chunk _ _ _ _ I).
    rewrite logical_pidx in *. lia.
  Qed.

  Lemma write_chunk_spec p org s : wf_p p -> l2_hist_ok p -> l2inv p org s ->
    1 <= unc_size (l2_e _ s) <= UNC_BOUND p ->
    okor (write_chunk PS chunkc s) (fun s1 =>
      l2inv p org s1 /\ l2_chunk _ s1 = l2_chunk _ s /\
      e_lz (l2_e _ s1) = e_lz (l2_e _ s) /\ g_base (l2_e _ s1) = g_base (l2_e _ s) /\
      unc_size (l2_e _ s1) = 0 /\ rc_full (l2_e _ s1) = false /\
      (read_ahead (l2_e _ s1) = read_ahead (l2_e _ s) \/ read_ahead (l2_e _ s1) = -1) /\
      sum_fill (l2_tr _ s1) = sum_fill (l2_tr _ s) /\
      sum_chunk (l2_tr _ s) < sum_chunk (l2_tr _ s1) /\ l2_pending _ s1 < l2_pending _ s /\
      (forall T, 1 <= logical_pos (l2_e _ s) -> loop2_cond (l2_e _ s) = false \/ T <= logical_pos (l2_e _ s) ->
         exists ev, istep2 p T (est2 (l2_e _ s) (l2_ps _ s)) = Some (est2 (l2_e _ s1) (l2_ps _ s1), ev) /\
                    rsyms (l2_tr _ s1) = ev :: rsyms (l2_tr _ s))).
  Proof.
    intros W HH L Hunc. pose proof W as [W1 W2 W3 W4 W5 W6 W7 W8 W9 W10].
    pose proof L as [Lp Ln I Lpend Lunc Lbig Lcnn].
    pose proof I as [[[Ha Hb] Hc [Hd He] [Hf Hg] Hpb] [Hr1 Hr2] Hmb [Hb1 Hb2] Hh Hdict Hpx Hu HU Hfill Hsym Hchunk Horg].
    pose proof (l2_pending_cap p org s L) as Hpc.
    unfold write_chunk. rewrite Lp.
    destruct (chunkc (l2_ps PS s) (unc_size (l2_e PS s))) as [c ps1] eqn:Ech.
    destruct (Z.ltb_spec c 1) as [?|Hc1]; [cbn [orb okor]; right; reflexivity|].
    destruct (Z.ltb_spec COMPRESSED_SIZE_MAX (c + 2)) as [?|Hc2]; [cbn [orb okor]; right; reflexivity|].
    destruct (Bool.eqb (rc_full (l2_e PS s)) (LZMA2_COMPRESSED_LIMIT <? c)) eqn:Hc3; [|cbn [orb negb okor]; right; reflexivity].
    cbn [orb negb].
    (* the data-only machine takes the same chunk step *)
    assert (Hich : forall T, 1 <= logical_pos (l2_e _ s) -> loop2_cond (l2_e _ s) = false \/ T <= logical_pos (l2_e _ s) ->
              istep2 p T (est2 (l2_e _ s) (l2_ps _ s)) = ichunk (est2 (l2_e _ s) (l2_ps _ s))).
    { intros T HP Hcase. unfold istep2, est2.
      destruct (Z.eqb_spec (logical_pos (l2_e PS s)) 0); [lia|].
      fold (loop2_cond (l2_e PS s)). destruct (loop2_cond (l2_e PS s)); [|reflexivity].
      destruct Hcase as [Hcf|HT]; [discriminate|].
      destruct (Z.ltb_spec (logical_pos (l2_e PS s)) T); [lia|].
      destruct (Z.leb_spec 1 (unc_size (l2_e PS s))); [reflexivity|lia]. }
    assert (Hichv : ichunk (est2 (l2_e _ s) (l2_ps _ s)) =
              if c + 2 <? unc_size (l2_e _ s)
              then Some ((logical_pos (l2_e _ s), read_ahead (l2_e _ s), ps1, 0, false), ILzma (unc_size (l2_e _ s)) c)
              else Some ((logical_pos (l2_e _ s) + (read_ahead (l2_e _ s) + 1), -1, ps1, 0, false), IUnc (unc_size (l2_e _ s) + (read_ahead (l2_e _ s) + 1)))).
    { unfold ichunk, est2. rewrite Ech.
      destruct (Z.ltb_spec c 1); [lia|]. destruct (Z.ltb_spec COMPRESSED_SIZE_MAX (c + 2)); [lia|].
      rewrite Hc3. reflexivity. }
    destruct (Z.ltb_spec (unc_size (l2_e PS s)) 1); [lia|].
    set (e := l2_e PS s) in *. set (tr := l2_tr PS s) in *.
    destruct (Z.ltb_spec (c + 2) (unc_size e)) as [Hlz|Hfb].
    - (* LZMA chunk *)
      cbn [obind].
      rewrite ck_u32_ok by (unfold U32_MAX, I32_MAX, pidx in *; lia). cbn [obind].
      rewrite ck_u64_ok by (unfold U64_MAX, UNC_BOUND, SYM_MAX, LZMA2_UNCOMPRESSED_LIMIT, I32_MAX, pidx in *; lia). cbn [obind okor].
      cbn [l2_chunk l2_e l2_tr l2_pending e_lz g_base unc_size rc_full read_ahead sum_fill sum_chunk].
      split.
      { constructor; cbn [l2_p l2_new l2_e l2_tr l2_pending l2_unc sum_fill sum_chunk]; try assumption; try reflexivity; try lia.
        constructor; unfold pidx, logical_pos in *; cbn [e_lz read_ahead unc_size g_base rc_full sum_fill sum_sym sum_abs sum_chunk];
          try assumption; try lia; try (split; assumption); try exact (ei_lz _ _ _ _ I). }
      repeat split; try reflexivity; try lia; try (left; reflexivity).
      intros T HP Hcase. exists (ILzma (unc_size e) c). rewrite (Hich T HP Hcase), Hichv.
      destruct (Z.ltb_spec (c + 2) (unc_size e)); [|lia].
      split; [unfold est2, logical_pos; cbn [e_lz read_ahead g_base unc_size rc_full l2_e l2_ps]; reflexivity|reflexivity].
    - (* uncompressed fallback *)
      unfold enc_reset.
      rewrite ck_i32_ok by (unfold I32_MIN, I32_MAX in *; lia). cbn [obind].
      rewrite as_u32_id by (unfold U32_MAX, I32_MAX in *; lia).
      assert (HU' : unc_size e + (read_ahead e + 1) <= read_pos (e_lz e) + 1).
      { (* the chunk and the read-ahead lie inside the window *)
        unfold l2_hist_ok, COMPRESSED_SIZE_MAX in *.
        destruct Hh as [Hb0|Hk]; [|lia].
        rewrite logical_pidx in Hchunk. unfold pidx in Hchunk. lia. }
      rewrite ck_u32_ok by (unfold U32_MAX, I32_MAX in *; lia). cbn [obind e_lz unc_size read_ahead].
      set (U := unc_size e + (read_ahead e + 1)).
      set (TR := EvUnc U :: EvAbsorb (read_ahead e + 1) :: EvChunk (unc_size e) c (read_ahead e) :: tr).
      eapply (okor_bind _ _ (fun r => fst (fst r) = mkEncd (e_lz e) (-1) U (rc_full e) (g_base e) /\
                                     snd (fst r) = U /\ acct (snd r) = acct TR)).
      { eapply okor_bind.
        - apply (unc_copies_spec p (e_lz e) W (ei_lz _ _ _ _ I)); [unfold U; lia|].
          rewrite Z2Nat.id by (apply Z.add_nonneg_nonneg; [apply Z.div_pos; unfold U, COMPRESSED_SIZE_MAX; lia|lia]).
          unfold COMPRESSED_SIZE_MAX, U. lia.
        - intros tr1 Acc. cbn [okor fst snd]. split; [reflexivity|]. split; [reflexivity|exact Acc]. }
      intros [[e2 u2] tr1] (Ee & Eu & Acc). cbn [fst snd] in Ee, Eu, Acc. subst e2 u2.
      injection Acc as E1 E2 E3 E4 E5. unfold TR, U in *. cbn [sum_sym sum_fill sum_abs sum_chunk rsyms] in *.
      rewrite ck_u32_ok by (unfold U32_MAX, I32_MAX, pidx in *; lia). cbn [obind].
      rewrite ck_u64_ok by (unfold U64_MAX, UNC_BOUND, SYM_MAX, LZMA2_UNCOMPRESSED_LIMIT, I32_MAX, pidx in *; lia). cbn [obind okor].
      cbn [l2_chunk l2_e l2_tr l2_pending e_lz g_base unc_size rc_full read_ahead].
      split.
      { constructor; cbn [l2_p l2_new l2_e l2_tr l2_pending l2_unc]; try assumption; try reflexivity; try lia.
        constructor; unfold pidx, logical_pos in *; cbn [e_lz read_ahead unc_size g_base rc_full];
          try assumption; try lia; try (split; assumption).
        - exact (ei_lz _ _ _ _ I).
        - intros Hp0. destruct (HU Hp0) as [K|[[K1 K2]|K]]; [left; exact K| |right; right; exact K].
          right; left. split; [reflexivity|exact K2]. }
      repeat split; try reflexivity; try lia; try (right; reflexivity).
      intros T HP Hcase. exists (IUnc (unc_size e + (read_ahead e + 1))). rewrite (Hich T HP Hcase), Hichv.
      destruct (Z.ltb_spec (c + 2) (unc_size e)); [lia|].
      split; [|rewrite E5; reflexivity].
      unfold est2, logical_pos. cbn [e_lz read_ahead g_base unc_size rc_full l2_e l2_ps].
      replace (g_base e + read_pos (e_lz e) - read_ahead e + (read_ahead e + 1)) with (g_base e + read_pos (e_lz e) - -1) by lia.
      reflexivity.
  Qed.


  (* set_flushing / set_finishing seen from the encoder *)
  Lemma set_limit_einv p org e tr d1 tr1 :
    einv p org e tr -> lzinv p d1 -> read_pos d1 = read_pos (e_lz e) -> write_pos d1 = write_pos (e_lz e) ->
    acct tr1 = acct tr ->
    ((pending_size d1 = pending_size (e_lz e) /\ ~ (0 < pending_size (e_lz e) /\ read_pos (e_lz e) < write_pos (e_lz e) - 1)) \/
     (0 < pending_size (e_lz e) /\ Kp p d1)) ->
    einv p org (with_lz e d1) tr1.
  Proof.
    intros I L1 R1 Wp1 Acc Pcase. injection Acc as E1 E2 E3 E4 E5.
    pose proof I as [[[Ha Hb] Hc [Hd He] [Hf Hg] Hpb] [Hr1 Hr2] Hmb [Hb1 Hb2] Hh Hdict Hpx Hu HU Hfill Hsym Hchunk Horg'].
    constructor; unfold with_lz, pidx, logical_pos in *; cbn [e_lz read_ahead unc_size g_base rc_full]; try rewrite R1; try rewrite Wp1;
      try assumption; try lia.
    intros Hp0. destruct Pcase as [[Pq Pn]|[P1 P2]].
    + right; right. lia.
    + left; exact P2.
  Qed.

  (* the drain loop of flush / finish / start_independent_chunk: read_limit = write_pos - 1 *)
  Lemma l2_drain_spec p org : wf_p p -> l2_hist_ok p -> forall fuel s,
    l2inv p org s -> unc_size (l2_e _ s) <= UNC_BOUND p -> loop2_cond (l2_e _ s) = true ->
    read_limit (e_lz (l2_e _ s)) = write_pos (e_lz (l2_e _ s)) - 1 ->
    l2_pending _ s + 1 <= Z.of_nat fuel ->
    okor (l2_drain PS parse chunkc fuel s) (fun s1 =>
      l2inv p org s1 /\ l2_pending _ s1 = 0 /\ l2_chunk _ s1 = l2_chunk _ s /\
      unc_size (l2_e _ s1) = 0 /\ rc_full (l2_e _ s1) = false /\ read_ahead (l2_e _ s1) = -1 /\
      pidx (l2_e _ s1) = write_pos (e_lz (l2_e _ s1)) /\
      write_pos (e_lz (l2_e _ s1)) = write_pos (e_lz (l2_e _ s)) /\
      read_limit (e_lz (l2_e _ s1)) = read_limit (e_lz (l2_e _ s)) /\
      finishing (e_lz (l2_e _ s1)) = finishing (e_lz (l2_e _ s)) /\
      g_base (l2_e _ s1) = g_base (l2_e _ s) /\
      sum_fill (l2_tr _ s1) = sum_fill (l2_tr _ s) /\
      (forall T acc, finishing (e_lz (l2_e _ s)) = true -> g_base (l2_e _ s) + write_pos (e_lz (l2_e _ s)) = T ->
         exists n L, isteps2 p T n (est2 (l2_e _ s) (l2_ps _ s)) acc = Some (est2 (l2_e _ s1) (l2_ps _ s1), L ++ acc) /\
                     rsyms (l2_tr _ s1) = L ++ rsyms (l2_tr _ s))).
  Proof.
    intros W HH. induction fuel as [|f IH]; intros s L Hub Hc Hrl Hfuel.
    - exfalso. pose proof (l2_pending_cap p org s L) as Hpc. pose proof (l2i_e _ _ _ L) as I.
      pose proof (ei_lz _ _ _ _ I) as [[? ?] ? ? ? ?]. pose proof (ei_ra _ _ _ _ I). pose proof (ei_unc _ _ _ _ I).
      unfold pidx in *. lia.
    - cbn [l2_drain].
      pose proof (l2_pending_cap p org s L) as Hpc. pose proof L as [Lp Ln I Lpend Lunc Lbig Lcnn].
      pose proof (ei_lz _ _ _ _ I) as [[Ha Hb] Hcw [Hd He] [Hf Hg] Hpb]. pose proof (ei_ra _ _ _ _ I) as [Hr1 Hr2].
      pose proof (ei_unc _ _ _ _ I) as Hu0.
      destruct (Z.leb_spec (l2_pending PS s) 0) as [Hz|Hpos].
      { cbn [okor]. unfold loop2_cond in Hc. apply andb_true_iff in Hc as [_ Hc2]. apply negb_true_iff in Hc2.
        unfold pidx in *.
        split; [exact L|]. repeat split; try lia; try assumption.
        intros T acc _ _. exists O, []. split; reflexivity. }
      rewrite Lp.
      eapply okor_bind; [apply (encode_for_lzma2_spec p org (l2_ps _ s) (l2_e _ s) (l2_tr _ s) W I Hub)|].
      intros [[[b e1] ps1] tr1] (I1 & U1 & B1 & Y1 & Y1' & Y2 & Y3 & Y4 & Y5 & Y6 & Y9 & Y10 & Y11 & Y8 & YA & YI).
      assert (Hu1 : 1 <= unc_size e1).
      { destruct (Z_le_dec 1 (unc_size (l2_e _ s))) as [Hge|Hlt]; [lia|].
        assert (NQ : ~ quiet (l2_e _ s)) by (unfold quiet, pidx in *; lia).
        specialize (Y10 NQ Hc). lia. }
      pose proof (ei_fill _ _ _ _ I1) as Hf1. pose proof (ei_fill _ _ _ _ I) as Hf0.
      pose proof (ei_chunk _ _ _ _ I1) as Hc1. pose proof (ei_chunk _ _ _ _ I) as Hc0. rewrite logical_pidx in Hc1, Hc0.
      set (s' := mkL2 PS p e1 (l2_pending _ s) (l2_chunk _ s) (l2_unc _ s) (l2_new _ s) ps1 tr1).
      assert (L' : l2inv p org s').
      { constructor; unfold s'; cbn [l2_p l2_new l2_e l2_tr l2_pending l2_unc]; try assumption; try reflexivity; try lia. }
      eapply okor_bind; [apply (write_chunk_spec p org s' W HH L'); unfold s'; cbn [l2_e]; lia|].
      intros s2 (L2 & C2 & E2 & G2 & Un2 & Rc2 & Ra2 & F2 & Ch2 & P2 & ZC).
      unfold s' in *. cbn [l2_e l2_tr l2_pending l2_chunk l2_ps] in *.
      eapply okor_weaken.
      { apply (IH s2 L2).
        - rewrite Un2. unfold UNC_BOUND, SYM_MAX, LZMA2_UNCOMPRESSED_LIMIT. pose proof (wf_ea p W). lia.
        - unfold loop2_cond. rewrite Un2, Rc2. reflexivity.
        - rewrite E2. congruence.
        - lia. }
      intros s3 (L3 & P3 & C3 & X).
      split; [exact L3|]. split; [exact P3|]. split; [congruence|].
      rewrite E2, G2 in X.
      destruct X as (X1 & X2 & X3 & X4 & X5 & X6 & X7 & X8 & X9 & XI).
      repeat (split; [first [assumption|congruence|lia]|]).
      intros T acc Hfin HT.
      assert (HV : Vc p (l2_e PS s) T) by (unfold Vc; left; split; assumption).
      destruct (YI T acc HV) as (n1 & L1 & En1 & Er1).
      assert (HP1 : 1 <= logical_pos e1).
      { pose proof (ei_org _ _ _ _ I1). rewrite logical_pidx. lia. }
      assert (Hcase : loop2_cond e1 = false \/ T <= logical_pos e1).
      { destruct b; [left; exact B1|right]. unfold quiet in B1. rewrite Y3, Hrl in B1. rewrite logical_pidx. lia. }
      destruct (ZC T HP1 Hcase) as (ev & Est & Erc).
      destruct (XI T (ev :: L1 ++ acc)) as (n3 & L3' & En3 & Er3); [congruence|lia|].
      exists (n1 + S n3)%nat, (L3' ++ ev :: L1). split.
      { eapply isteps2_app; [exact En1|]. cbn [isteps2]. rewrite Est.
        rewrite <- app_assoc. cbn [app]. exact En3. }
      rewrite Er3, Erc, Er1, <- app_assoc. reflexivity.
  Qed.


  (* an LZMA2Writer between two calls *)
  Definition l2ok (p : lzp) (org : Z) (s : l2st PS) : Prop :=
    l2inv p org s /\ phi p (l2_e _ s) /\ loop2_cond (l2_e _ s) = true /\ unc_size (l2_e _ s) <= UNC_BOUND p.

  Lemma enc0_einv_gen p org tr : wf_p p ->
    sum_fill tr = org -> sum_sym tr + sum_abs tr = org -> sum_chunk tr = org -> einv p org enc0 tr.
  Proof.
    intros [W1 W2 W3 W4 W5 W6 W7 W8 W9 W10] H1 H2 H3. unfold REQ_FINISH in *.
    constructor; unfold enc0, pidx, logical_pos, Kp; cbn; try lia; try (left; reflexivity).
    constructor; cbn; lia.
  Qed.

  (* after a completed drain the writer is back in the steady phase *)
  Lemma drained_phi p e : wf_p p -> finishing (e_lz e) = false ->
    read_limit (e_lz e) = write_pos (e_lz e) - 1 -> pidx e = write_pos (e_lz e) -> read_ahead e = -1 -> phi p e.
  Proof.
    intros [W1 W2 W3 W4 W5 W6 W7 W8 W9 W10] Hf Hrl Hp Hra.
    constructor; unfold steady, quiet; try assumption; try lia; try (intros _; exact Hra).
  Qed.

  Lemma l2_flush_spec p org s : wf_p p -> l2_hist_ok p -> l2ok p org s ->
    okor (l2_flush PS parse chunkc s) (fun r =>
      l2ok p org (fst r) /\ snd r = RDone /\ l2_pending _ (fst r) = 0 /\ l2_chunk _ (fst r) = l2_chunk _ s /\
      sum_fill (l2_tr _ (fst r)) = sum_fill (l2_tr _ s)).
  Proof.
    intros W HH (L & F & J1 & J2). pose proof L as [Lp Ln I Lpend Lunc Lbig Lcnn].
    unfold l2_flush. rewrite Lp.
    eapply okor_bind; [apply (set_flushing_spec p _ (l2_tr _ s) W (ei_lz _ _ _ _ I))|].
    intros [d1 tr1]. cbn [fst snd]. intros (L1 & R1 & Wp1 & Rl1 & Fin1 & Acc & Pcase).
    assert (I1 : einv p org (with_lz (l2_e _ s) d1) tr1) by (apply (set_limit_einv p org _ (l2_tr _ s)); assumption).
    injection Acc as E1 E2 E3 E4 E5.
    assert (L' : l2inv p org (l2_with_lz PS s (d1, tr1))).
    { constructor; unfold l2_with_lz; cbn [l2_p l2_new l2_e l2_tr l2_pending l2_unc fst snd]; try assumption; try lia. }
    eapply okor_bind.
    { apply (l2_drain_spec p org W HH (drain_fuel PS s) _ L').
      - exact J2.
      - exact J1.
      - unfold l2_with_lz, with_lz. cbn [l2_e e_lz fst]. lia.
      - unfold drain_fuel, l2_with_lz. cbn [l2_pending].
        pose proof (l2_pending_cap p org s L). pose proof (ei_lz _ _ _ _ I) as [[? ?] ? ? ? ?]. pose proof (ei_ra _ _ _ _ I).
        pose proof (ei_unc _ _ _ _ I). unfold pidx in *. lia. }
    intros s1 (L2 & P2 & C2 & Un2 & Rc2 & Ra2 & Pi2 & Wp2 & Rl2 & Fin2 & G2 & F2).
    unfold l2_with_lz, with_lz in *. cbn [l2_e e_lz fst snd l2_tr l2_chunk] in *. cbn [okor fst snd].
    split.
    { split; [exact L2|]. split.
      - apply (drained_phi p _ W); try assumption; try lia. rewrite Fin2, Fin1. exact (ph_fin _ _ F).
      - split; [unfold loop2_cond; rewrite Un2, Rc2; reflexivity|].
        rewrite Un2. unfold UNC_BOUND, SYM_MAX, LZMA2_UNCOMPRESSED_LIMIT. pose proof (wf_ea p W). lia. }
    split; [reflexivity|]. split; [exact P2|]. split; [exact C2|]. lia.
  Qed.

  Lemma l2_finish_spec p org s : wf_p p -> l2_hist_ok p -> l2ok p org s ->
    okor (l2_finish PS parse chunkc s) (fun r =>
      snd r = RDone /\ sum_fill (l2_tr _ (fst r)) = sum_fill (l2_tr _ s) /\
      sum_chunk (l2_tr _ (fst r)) = sum_fill (l2_tr _ (fst r)) /\
      sum_sym (l2_tr _ (fst r)) + sum_abs (l2_tr _ (fst r)) = sum_fill (l2_tr _ (fst r)) /\
      (forall acc, let T := sum_fill (l2_tr _ s) - org in
         exists k L', isteps2 p T k (est2 (l2_e _ s) (l2_ps _ s)) acc = Some ((T, -1, l2_ps _ (fst r), 0, false), L' ++ acc) /\
                      rsyms (l2_tr _ (fst r)) = L' ++ rsyms (l2_tr _ s))).
  Proof.
    intros W HH (L & F & J1 & J2). pose proof L as [Lp Ln I Lpend Lunc Lbig Lcnn].
    unfold l2_finish. rewrite Lp.
    eapply okor_bind; [apply (set_finishing_spec p _ (l2_tr _ s) W (ei_lz _ _ _ _ I))|].
    intros [d1 tr1]. cbn [fst snd]. intros (L1 & R1 & Wp1 & Rl1 & Fin1 & Acc & Pcase).
    assert (I1 : einv p org (with_lz (l2_e _ s) d1) tr1) by (apply (set_limit_einv p org _ (l2_tr _ s)); assumption).
    injection Acc as E1 E2 E3 E4 E5.
    assert (L' : l2inv p org (l2_with_lz PS s (d1, tr1))).
    { constructor; unfold l2_with_lz; cbn [l2_p l2_new l2_e l2_tr l2_pending l2_unc fst snd]; try assumption; try lia. }
    eapply okor_bind.
    { apply (l2_drain_spec p org W HH (drain_fuel PS s) _ L').
      - exact J2.
      - exact J1.
      - unfold l2_with_lz, with_lz. cbn [l2_e e_lz fst]. lia.
      - unfold drain_fuel, l2_with_lz. cbn [l2_pending].
        pose proof (l2_pending_cap p org s L). pose proof (ei_lz _ _ _ _ I) as [[? ?] ? ? ? ?]. pose proof (ei_ra _ _ _ _ I).
        pose proof (ei_unc _ _ _ _ I). unfold pidx in *. lia. }
    intros s1 (L2 & P2 & C2 & Un2 & Rc2 & Ra2 & Pi2 & Wp2 & Rl2 & Fin2 & G2 & F2 & ZI).
    unfold l2_with_lz, with_lz in *. cbn [l2_e e_lz fst snd l2_tr l2_chunk l2_ps g_base read_ahead unc_size rc_full] in *.
    cbn [okor fst snd l2_tr l2_ps sum_fill sum_chunk sum_sym sum_abs rsyms].
    pose proof L2 as [_ _ I2 Lpend2 _ _ _].
    pose proof (ei_fill _ _ _ _ I2). pose proof (ei_sym _ _ _ _ I2). pose proof (ei_fill _ _ _ _ I) as Hf0. rewrite logical_pidx in *.
    split; [reflexivity|]. split; [lia|]. split; [lia|]. split; [lia|].
    intros acc. set (T := sum_fill (l2_tr PS s) - org).
    destruct (ZI T acc Fin1) as (k & Lk & Ek & Er); [unfold T; lia|].
    exists k, Lk. split; [|rewrite Er, E5; reflexivity].
    assert (E0 : est2 (mkEncd d1 (read_ahead (l2_e PS s)) (unc_size (l2_e PS s)) (rc_full (l2_e PS s)) (g_base (l2_e PS s))) (l2_ps PS s)
                 = est2 (l2_e PS s) (l2_ps PS s)).
    { unfold est2, logical_pos. cbn [e_lz read_ahead g_base unc_size rc_full]. rewrite R1. reflexivity. }
    rewrite E0 in Ek. rewrite Ek. unfold est2. rewrite logical_pidx, Pi2, Ra2, Un2, Rc2.
    replace (g_base (l2_e PS s1) + write_pos (e_lz (l2_e PS s1))) with T by (unfold T; lia). reflexivity.
  Qed.

  Lemma l2_start_independent_spec p org s : wf_p p -> l2_hist_ok p -> l2ok p org s ->
    okor (l2_start_independent PS parse chunkc s) (fun s1 =>
      l2ok p (sum_fill (l2_tr _ s1)) s1 /\ l2_e _ s1 = enc0 /\ l2_chunk _ s1 = l2_chunk _ s /\
      sum_fill (l2_tr _ s1) = sum_fill (l2_tr _ s)).
  Proof.
    intros W HH (L & F & J1 & J2). pose proof L as [Lp Ln I Lpend Lunc Lbig Lcnn].
    unfold l2_start_independent. rewrite Lp.
    eapply okor_bind; [apply (set_flushing_spec p _ (l2_tr _ s) W (ei_lz _ _ _ _ I))|].
    intros [d1 tr1]. cbn [fst snd]. intros (L1 & R1 & Wp1 & Rl1 & Fin1 & Acc & Pcase).
    assert (I1 : einv p org (with_lz (l2_e _ s) d1) tr1) by (apply (set_limit_einv p org _ (l2_tr _ s)); assumption).
    injection Acc as E1 E2 E3 E4 E5.
    assert (L' : l2inv p org (l2_with_lz PS s (d1, tr1))).
    { constructor; unfold l2_with_lz; cbn [l2_p l2_new l2_e l2_tr l2_pending l2_unc fst snd]; try assumption; try lia. }
    eapply okor_bind.
    { apply (l2_drain_spec p org W HH (drain_fuel PS s) _ L').
      - exact J2.
      - exact J1.
      - unfold l2_with_lz, with_lz. cbn [l2_e e_lz fst]. lia.
      - unfold drain_fuel, l2_with_lz. cbn [l2_pending].
        pose proof (l2_pending_cap p org s L). pose proof (ei_lz _ _ _ _ I) as [[? ?] ? ? ? ?]. pose proof (ei_ra _ _ _ _ I).
        pose proof (ei_unc _ _ _ _ I). unfold pidx in *. lia. }
    intros s1 (L2 & P2 & C2 & Un2 & Rc2 & Ra2 & Pi2 & Wp2 & Rl2 & Fin2 & G2 & F2).
    unfold l2_with_lz, with_lz in *. cbn [l2_e e_lz fst snd l2_tr l2_chunk] in *.
    pose proof L2 as [Lp2 Ln2 I2 Lpend2 Lunc2 Lbig2 Lcnn2].
    rewrite Ln2. cbn [obind okor fst snd l2_tr l2_e l2_chunk sum_fill].
    pose proof (ei_fill _ _ _ _ I2). pose proof (ei_sym _ _ _ _ I2). rewrite logical_pidx in *.
    assert (Hsc : sum_chunk (l2_tr _ s1) = sum_fill (l2_tr _ s1)) by lia.
    split.
    { split.
      - constructor; cbn [l2_p l2_new l2_e l2_tr l2_pending l2_unc sum_fill sum_chunk]; try assumption; try reflexivity; try lia.
        apply enc0_einv_gen; cbn [sum_fill sum_sym sum_abs sum_chunk]; try assumption; lia.
      - cbn [l2_e]. destruct (enc0_einv p W) as (_ & F0 & _). split; [exact F0|]. split; [reflexivity|].
        unfold enc0; cbn [unc_size]. unfold UNC_BOUND, SYM_MAX, LZMA2_UNCOMPRESSED_LIMIT. pose proof (wf_ea p W). lia. }
    split; [reflexivity|]. split; [exact C2|]. lia.
  Qed.


  (* fuel measure of the LZMA2 write loop *)
  Definition qflag (e : encd) : Z := if read_limit (e_lz e) <=? pidx e - 1 then 0 else 1.
  Definition wmeasure (e : encd) (len : Z) : Z := 3 * len + (write_pos (e_lz e) - pidx e) + qflag e.

  Lemma qflag_quiet e : quiet e -> qflag e = 0.
  Proof. unfold quiet, qflag. intros H. destruct (Z.leb_spec (read_limit (e_lz e)) (pidx e - 1)); lia. Qed.
  Lemma qflag_range e : 0 <= qflag e <= 1.
  Proof. unfold qflag. destruct (_ <=? _); lia. Qed.
  Lemma qflag_nquiet e : ~ quiet e -> qflag e = 1.
  Proof. unfold quiet, qflag. intros H. destruct (Z.leb_spec (read_limit (e_lz e)) (pidx e - 1)); lia. Qed.

  Lemma l2_write_loop_spec p : wf_p p -> l2_hist_ok p -> forall fuel s org len off,
    l2ok p org s -> 0 <= len ->
    sum_fill (l2_tr _ s) + len <= 4611686018427387904 ->
    wmeasure (l2_e _ s) len + 1 <= Z.of_nat fuel ->
    okor (l2_write_loop PS parse chunkc fuel s len off) (fun r =>
      exists org1, l2ok p org1 (fst r) /\ snd r = off + len /\ l2_chunk _ (fst r) = l2_chunk _ s /\
        sum_fill (l2_tr _ (fst r)) = sum_fill (l2_tr _ s) + len /\
        (l2_chunk _ s = None -> org1 = org /\
           forall T acc, g_base (l2_e _ s) + write_pos (e_lz (l2_e _ s)) + len <= T ->
             exists n L, isteps2 p T n (est2 (l2_e _ s) (l2_ps _ s)) acc = Some (est2 (l2_e _ (fst r)) (l2_ps _ (fst r)), L ++ acc) /\
                         rsyms (l2_tr _ (fst r)) = L ++ rsyms (l2_tr _ s))).
  Proof.
    intros W HH. pose proof W as [W1 W2 W3 W4 W5 W6 W7 W8 W9 W10].
    induction fuel as [|f IH]; intros s org len off Lok Hlen Hbig Hfuel.
    - exfalso. destruct Lok as (L & _). pose proof (l2i_e _ _ _ L) as I.
      pose proof (ei_lz _ _ _ _ I) as [[? ?] ? ? ? ?]. pose proof (ei_ra _ _ _ _ I). pose proof (qflag_range (l2_e _ s)).
      unfold wmeasure, pidx in *. lia.
    - cbn [l2_write_loop].
      destruct (Z.leb_spec len 0) as [Hz|Hpos].
      { cbn [okor fst snd]. exists org. split; [exact Lok|]. split; [lia|]. split; [reflexivity|]. split; [lia|].
        intros _. split; [reflexivity|]. intros T acc _. exists O, []. split; reflexivity. }
      (* optional independent restart *)
      assert (Hs0 : okor (match l2_chunk PS s with
                          | Some cs => if cs <=? l2_unc PS s then l2_start_independent PS parse chunkc s else Ok s
                          | None => Ok s end)
                         (fun s0 => exists org0, l2ok p org0 s0 /\ l2_chunk _ s0 = l2_chunk _ s /\
                                                 sum_fill (l2_tr _ s0) = sum_fill (l2_tr _ s) /\
                                                 wmeasure (l2_e _ s0) len <= wmeasure (l2_e _ s) len /\
                                                 (l2_chunk _ s = None -> s0 = s /\ org0 = org))).
      { assert (Hsame : okor (Ok s) (fun s0 => exists org0, l2ok p org0 s0 /\ l2_chunk _ s0 = l2_chunk _ s /\
                                                 sum_fill (l2_tr _ s0) = sum_fill (l2_tr _ s) /\
                                                 wmeasure (l2_e _ s0) len <= wmeasure (l2_e _ s) len /\
                                                 (l2_chunk _ s = None -> s0 = s /\ org0 = org))).
        { cbn [okor]. exists org. split; [exact Lok|]. split; [reflexivity|]. split; [reflexivity|]. split; [lia|]. intros _; split; reflexivity. }
        destruct (l2_chunk PS s) as [cs|] eqn:Ecs; [|exact Hsame].
        destruct (cs <=? l2_unc PS s); [|exact Hsame].
        eapply okor_weaken; [apply (l2_start_independent_spec p org s W HH Lok)|].
        intros s0 (Lok0 & E0 & C0 & F0). exists (sum_fill (l2_tr _ s0)).
        split; [exact Lok0|]. split; [congruence|]. split; [exact F0|].
        split; [|intros X; congruence].
        rewrite E0. destruct Lok as (L & _). pose proof (l2i_e _ _ _ L) as I.
        pose proof (ei_lz _ _ _ _ I) as [[? ?] ? ? ? ?]. pose proof (ei_ra _ _ _ _ I). pose proof (qflag_range (l2_e _ s)).
        assert (Hq0 : qflag enc0 = 0) by reflexivity.
        assert (Hw0 : write_pos (e_lz enc0) - pidx enc0 = 0) by reflexivity.
        unfold wmeasure. rewrite Hq0, Hw0. unfold pidx in *. lia. }
      eapply okor_bind; [exact Hs0|]. clear Hs0.
      intros s0 (org0 & (L0 & F0 & J1 & J2) & C0 & Fl0 & M0 & Hnone).
      pose proof L0 as [Lp Ln I Lpend Lunc Lbig Lcnn].
      rewrite Lp.
      eapply okor_bind; [apply (fill_step p org0 (l2_e _ s0) (l2_tr _ s0) len W I F0 Hlen)|].
      intros [[d1 used] tr1]. fold (after_fill (l2_e _ s0) d1).
      set (e0 := l2_e _ s0) in *. set (e1 := after_fill e0 d1).
      intros (I1 & F1 & U1 & Lg1 & Un1 & Rc1 & Wn1 & Bw1 & Hprog & Hstuck & Ab1 & Fl1 & Rs1).
      pose proof (l2_pending_cap p org0 s0 L0) as Hpc. fold e0 in Hpc.
      pose proof (ei_lz _ _ _ _ I1) as [[Ha1 Hb1] Hc1 [Hd1 He1] [Hf1 Hg1] Hpb1]. pose proof (ei_ra _ _ _ _ I1) as [Hr11 Hr12].
      pose proof (ei_unc _ _ _ _ I) as Hu0.
      pose proof (ei_lz _ _ _ _ I) as [[Ha0 Hb0] Hc0 _ _ _]. pose proof (ei_ra _ _ _ _ I) as [Hr01 Hr02].
      assert (Hused : used <= buf_size p) by (unfold pidx in *; lia).
      rewrite as_u32_id by (unfold U32_MAX, I32_MAX in *; lia).
      rewrite ck_u32_ok by (unfold U32_MAX, I32_MAX, UNC_BOUND, SYM_MAX, LZMA2_UNCOMPRESSED_LIMIT, pidx in *; lia). cbn [obind].
      assert (Hub1 : unc_size e1 <= UNC_BOUND p) by (rewrite Un1; exact J2).
      eapply okor_bind; [apply (encode_for_lzma2_spec p org0 (l2_ps _ s0) e1 tr1 W I1 Hub1)|].
      intros [[[b e2] ps2] tr2] (I2 & U2 & B2 & Y1 & Y1' & Y2 & Y3 & Y4 & Y5 & Y6 & Y9 & Y10 & Y11 & Y8 & YA & YI).
      assert (Hc1' : loop2_cond e1 = true) by (unfold loop2_cond in *; rewrite Un1, Rc1; exact J1).
      pose proof (ei_fill _ _ _ _ I2) as Hf2. pose proof (ei_fill _ _ _ _ I1) as Hf1'. pose proof (ei_fill _ _ _ _ I) as Hf0.
      pose proof (ei_chunk _ _ _ _ I2) as Hch2. pose proof (ei_chunk _ _ _ _ I1) as Hch1. pose proof (ei_chunk _ _ _ _ I) as Hch0.
      rewrite logical_pidx in Hch2, Hch1, Hch0. rewrite logical_pidx in Lg1. rewrite logical_pidx in Lg1.
      set (s2 := mkL2 PS p e2 (l2_pending PS s0 + used) (l2_chunk PS s0) (l2_unc PS s0) (l2_new PS s0) ps2 tr2).
      assert (L2 : l2inv p org0 s2).
      { constructor; unfold s2; cbn [l2_p l2_new l2_e l2_tr l2_pending l2_unc]; try assumption; try reflexivity; try lia. }
      (* phi for e2 *)
      assert (F2 : phi p e2).
      { destruct F1 as [G1 G2 G3 G4]. constructor.
        - congruence.
        - destruct (Z_le_dec (read_limit (e_lz e1)) (pidx e1 - 1)) as [Hq|Hnq].
          + destruct (Y9 Hq) as (E1 & _ & _). subst e2. exact G2.
          + assert (NQ : ~ quiet e1) by (unfold quiet; lia).
            destruct (phi_consult_nopend p org0 e1 tr1 W I1 (mkPhi _ _ G1 G2 G3 G4) NQ) as [Hst _].
            left. unfold steady in *. rewrite Y2, Y3. exact Hst.
        - destruct (Z_le_dec (read_limit (e_lz e1)) (pidx e1 - 1)) as [Hq|Hnq].
          + destruct (Y9 Hq) as (E1 & _ & _). subst e2. exact G3.
          + assert (NQ : ~ quiet e1) by (unfold quiet; lia).
            destruct (phi_consult_nopend p org0 e1 tr1 W I1 (mkPhi _ _ G1 G2 G3 G4) NQ) as [Hst Hp0].
            rewrite (Y8 G1 Hst Hp0). lia.
        - rewrite Y2, Y3. exact G4. }
      (* the state after the optional chunk *)
      assert (Hs3 : okor (if b then write_chunk PS chunkc s2 else Ok s2)
                         (fun s3 => l2ok p org0 s3 /\ l2_chunk _ s3 = l2_chunk _ s0 /\
                                    sum_fill (l2_tr _ s3) = sum_fill tr2 /\
                                    write_pos (e_lz (l2_e _ s3)) = write_pos (e_lz e2) /\
                                    read_limit (e_lz (l2_e _ s3)) = read_limit (e_lz e2) /\
                                    pidx e2 <= pidx (l2_e _ s3) /\ g_base (l2_e _ s3) = g_base e2 /\
                                    (forall T acc, exists n L, isteps2 p T n (est2 e2 ps2) acc = Some (est2 (l2_e _ s3) (l2_ps _ s3), L ++ acc) /\
                                                               rsyms (l2_tr _ s3) = L ++ rsyms tr2))).
      { destruct b.
        - (* a symbol was coded in this call or before: the chunk is not empty *)
          assert (Hu2 : 1 <= unc_size e2).
          { destruct (Z_le_dec (read_limit (e_lz e1)) (pidx e1 - 1)) as [Hq|Hnq].
            - destruct (Y9 Hq) as (E1 & _ & _). subst e2. rewrite Hc1' in B2. discriminate.
            - assert (NQ : ~ quiet e1) by (unfold quiet; lia). specialize (Y10 NQ Hc1'). rewrite Un1 in Y6. lia. }
          eapply okor_weaken; [apply (write_chunk_spec p org0 s2 W HH L2); unfold s2; cbn [l2_e]; lia|].
          intros s3 (L3 & C3 & E3 & G3 & Un3 & Rc3 & Ra3 & Fl3 & Ch3 & P3 & ZC).
          unfold s2 in *. cbn [l2_e l2_tr l2_chunk l2_pending l2_ps] in *.
          assert (Hpi : pidx e2 <= pidx (l2_e _ s3)).
          { unfold pidx. rewrite E3. pose proof (ei_ra _ _ _ _ I2). destruct Ra3 as [R|R]; rewrite R; lia. }
          split.
          { split; [exact L3|]. split.
            - destruct F2 as [G1 G2 G3' G4]. constructor.
              + rewrite E3. exact G1.
              + destruct G2 as [Gs|Gq]; [left; unfold steady in *; rewrite E3; exact Gs|right; unfold quiet in *; rewrite E3; lia].
              + rewrite E3. intros Hp0. destruct Ra3 as [R|R]; [rewrite R; exact (G3' Hp0)|exact R].
              + rewrite E3. exact G4.
            - split; [unfold loop2_cond; rewrite Un3, Rc3; reflexivity|].
              rewrite Un3. unfold UNC_BOUND, SYM_MAX, LZMA2_UNCOMPRESSED_LIMIT. lia. }
          split; [exact C3|]. split; [exact Fl3|]. rewrite E3. split; [reflexivity|]. split; [reflexivity|]. split; [exact Hpi|].
          split; [exact G3|].
          intros T acc.
          assert (HP2 : 1 <= logical_pos e2) by (pose proof (ei_org _ _ _ _ I2); rewrite logical_pidx; lia).
          destruct (ZC T HP2 (or_introl B2)) as (ev & Est & Erc).
          exists 1%nat, [ev]. cbn [isteps2 app]. rewrite Est. split; [reflexivity|exact Erc].
        - cbn [okor]. unfold s2. cbn [l2_e l2_tr l2_chunk l2_ps].
          split.
          { split; [exact L2|]. split; [exact F2|]. split; [apply Y11; [exact Hc1'|reflexivity]|exact U2]. }
          repeat split; try reflexivity; try lia.
          intros T acc. exists O, []. split; reflexivity. }
      eapply okor_bind; [exact Hs3|]. clear Hs3.
      intros s3 (Lok3 & C3 & Fl3 & Wp3 & Rl3 & Pi3 & G3 & ZS).
      eapply okor_weaken.
      { apply (IH s3 org0 (len - used) (off + used) Lok3); try lia.
        (* the measure decreases *)
        pose proof (qflag_range (l2_e _ s3)). pose proof (qflag_range e0).
        unfold wmeasure in *. rewrite Wp3, Y2.
        destruct (Z.eq_dec used 0) as [Hu0'|Hun0].
        - (* nothing accepted: the encoder was not drained, so it codes at least one symbol *)
          subst used.
          assert (NQ0 : ~ quiet e0) by (intros Q; specialize (Hprog Q Hpos); lia).
          destruct (Hstuck eq_refl Hpos) as [_ Ed1].
          assert (NQ1 : ~ quiet e1).
          { unfold quiet, e1, after_fill, pidx in *. cbn [e_lz read_ahead]. rewrite Ed1. exact NQ0. }
          specialize (Y10 NQ1 Hc1'). rewrite (qflag_nquiet e0 NQ0) in M0. lia.
        - lia. }
      intros [s4 off4] (org4 & Lok4 & O4 & C4 & Fl4 & ZI). cbn [fst snd] in *.
      exists org4. split; [exact Lok4|]. split; [lia|]. split; [congruence|]. split; [lia|].
      intros Hn. destruct (Hnone Hn) as [Es0 Eo0]. subst s0 org0.
      destruct (ZI ltac:(congruence)) as [Eo4 ZI']. split; [exact Eo4|].
      intros T acc HT.
      assert (HV1 : Vc p e1 T).
      { unfold Vc. right. split; [unfold e0 in *; lia|]. destruct (ph_sq _ _ F1) as [Hs|Hq]; [right; exact Hs|left; exact Hq]. }
      destruct (YI T acc HV1) as (n1 & L1' & En1 & Er1).
      assert (Hest : est2 e1 (l2_ps PS s) = est2 e0 (l2_ps PS s)).
      { unfold est2. rewrite !logical_pidx, Lg1, Un1, Rc1. reflexivity. }
      rewrite Hest in En1.
      destruct (ZS T (L1' ++ acc)) as (n2 & L2' & En2 & Er2).
      destruct (ZI' T (L2' ++ L1' ++ acc)) as (n3 & L3' & En3 & Er3); [rewrite G3, Y5, Wp3, Y2; unfold e0 in *; lia|].
      exists (n1 + (n2 + n3))%nat, (L3' ++ L2' ++ L1'). split.
      { eapply isteps2_app; [exact En1|]. eapply isteps2_app; [exact En2|].
        rewrite <- !app_assoc. exact En3. }
      rewrite Er3, Er2, Er1, Rs1, <- !app_assoc. reflexivity.
  Qed.


  Lemma l2_write_spec p org s n : wf_p p -> l2_hist_ok p -> l2ok p org s -> 0 <= n ->
    sum_fill (l2_tr _ s) + n <= 4611686018427387904 ->
    okor (l2_write PS parse chunkc s n) (fun r =>
      exists org1, l2ok p org1 (fst r) /\ snd r = RWrote n /\ l2_chunk _ (fst r) = l2_chunk _ s /\
        sum_fill (l2_tr _ (fst r)) = sum_fill (l2_tr _ s) + n /\
        (l2_chunk _ s = None -> org1 = org /\
           forall T acc, sum_fill (l2_tr _ s) - org + n <= T ->
             exists k L, isteps2 p T k (est2 (l2_e _ s) (l2_ps _ s)) acc = Some (est2 (l2_e _ (fst r)) (l2_ps _ (fst r)), L ++ acc) /\
                         rsyms (l2_tr _ (fst r)) = L ++ rsyms (l2_tr _ s))).
  Proof.
    intros W HH Lok Hn Hbig. unfold l2_write.
    eapply okor_bind.
    { apply (l2_write_loop_spec p W HH (write_fuel2 PS s n) s org n 0 Lok Hn Hbig).
      destruct Lok as (L & _). pose proof L as [Lp _ I _ _ _ _].
      pose proof (ei_lz _ _ _ _ I) as [[? ?] ? ? ? ?]. pose proof (ei_ra _ _ _ _ I). pose proof (qflag_range (l2_e _ s)).
      unfold write_fuel2, wmeasure, pidx in *. rewrite Lp. lia. }
    intros [s1 off1] (org1 & Lok1 & O1 & C1 & F1 & ZI). cbn [fst snd okor] in *.
    exists org1. split; [exact Lok1|]. split; [f_equal; lia|]. split; [assumption|]. split; [assumption|].
    intros Hn0. destruct (ZI Hn0) as [Eo ZI']. split; [exact Eo|].
    intros T acc HT. apply ZI'. destruct Lok as (L & _). pose proof (ei_fill _ _ _ _ (l2i_e _ _ _ L)). lia.
  Qed.

  (* what the calls of an LZMA2Writer return *)
  Fixpoint l2_results (cur : Z) (ops : list wop) : list opres * Z * bool :=
    match ops with
    | [] => ([], cur, false)
    | WoWrite n :: r => let '(rs, c, f) := l2_results (cur + n) r in (RWrote n :: rs, c, f)
    | WoFlush :: r => let '(rs, c, f) := l2_results cur r in (RDone :: rs, c, f)
    | WoFinish :: _ => ([RDone], cur, true)
    end.

  Fixpoint no_flush (ops : list wop) : Prop :=
    match ops with [] => True | WoFlush :: _ => False | _ :: r => no_flush r end.

  Lemma l2_results_mono : forall ops cur, ops_ok ops -> cur <= snd (fst (l2_results cur ops)).
  Proof.
    induction ops as [|[n| |] r IH]; intros cur Hok; cbn [l2_results ops_ok] in *.
    - cbn. lia.
    - destruct Hok as [Hn Hok]. specialize (IH (cur + n) Hok).
      destruct (l2_results (cur + n) r) as [[rs c] f]. cbn in *. lia.
    - specialize (IH cur Hok). destruct (l2_results cur r) as [[rs c] f]. cbn in *. lia.
    - cbn. lia.
  Qed.

  Lemma l2_run_spec p : wf_p p -> l2_hist_ok p -> forall ops s org acc,
    l2ok p org s -> ops_ok ops ->
    sum_fill (l2_tr _ s) + ops_total ops <= 4611686018427387904 ->
    okor (l2_run PS parse chunkc s ops acc) (fun r =>
      let '(s1, res) := r in
      let '(rs, c, fin) := l2_results (sum_fill (l2_tr _ s)) ops in
      res = rev acc ++ rs /\ sum_fill (l2_tr _ s1) = c /\
      (fin = true -> sum_chunk (l2_tr _ s1) = c /\ sum_sym (l2_tr _ s1) + sum_abs (l2_tr _ s1) = c /\
         (l2_chunk _ s = None -> no_flush ops -> forall iacc, exists k L,
            isteps2 p (c - org) k (est2 (l2_e _ s) (l2_ps _ s)) iacc = Some ((c - org, -1, l2_ps _ s1, 0, false), L ++ iacc) /\
            rsyms (l2_tr _ s1) = L ++ rsyms (l2_tr _ s)))).
  Proof.
    intros W HH. induction ops as [|op r IH]; intros s org acc Lok Hok Hcap.
    - cbn [l2_run l2_results okor]. rewrite frev_rev, app_nil_r. split; [reflexivity|]. split; [reflexivity|discriminate].
    - destruct op as [n| |]; cbn [l2_run l2_results ops_total ops_ok no_flush] in *.
      + destruct Hok as [Hn Hok]. pose proof (ops_total_nonneg _ Hok).
        eapply okor_bind; [apply (l2_write_spec p org s n W HH Lok Hn); lia|].
        intros [s1 res] (org1 & Lok1 & E2 & C1 & F1 & ZI). cbn [fst snd] in *. subst res.
        pose proof (l2_results_mono r (sum_fill (l2_tr PS s) + n) Hok) as Hmono.
        eapply okor_weaken; [apply (IH s1 org1 (RWrote n :: acc) Lok1 Hok); lia|].
        intros [s2 res2]. rewrite F1. destruct (l2_results (sum_fill (l2_tr PS s) + n) r) as [[rs c] fin].
        cbn [fst snd] in Hmono.
        intros (R1 & R2 & R3). split; [|split; [assumption|]].
        { rewrite R1. cbn [rev]. rewrite <- app_assoc. reflexivity. }
        intros Hfin. destruct (R3 Hfin) as (R4 & R5 & R6). split; [exact R4|]. split; [exact R5|].
        intros Hn0 Hnf iacc. destruct (ZI Hn0) as [Eo ZI']. subst org1.
        destruct (ZI' (c - org) iacc) as (k1 & L1' & Ek1 & Er1); [lia|].
        destruct (R6 ltac:(congruence) Hnf (L1' ++ iacc)) as (k2 & L2' & Ek2 & Er2).
        exists (k1 + k2)%nat, (L2' ++ L1'). split.
        * rewrite <- app_assoc. eapply isteps2_app; eassumption.
        * rewrite Er2, Er1, <- app_assoc. reflexivity.
      + eapply okor_bind; [apply (l2_flush_spec p org s W HH Lok)|].
        intros [s1 res] (Lok1 & E2 & P1 & C1 & F1). cbn [fst snd] in *. subst res.
        eapply okor_weaken; [apply (IH s1 org (RDone :: acc) Lok1 Hok); lia|].
        intros [s2 res2]. rewrite F1. destruct (l2_results (sum_fill (l2_tr PS s)) r) as [[rs c] fin].
        intros (R1 & R2 & R3). split; [|split; [assumption|]].
        { rewrite R1. cbn [rev]. rewrite <- app_assoc. reflexivity. }
        intros Hfin. destruct (R3 Hfin) as (R4 & R5 & _). split; [exact R4|]. split; [exact R5|].
        intros _ Hnf. contradiction.
      + eapply okor_bind; [apply (l2_finish_spec p org s W HH Lok)|].
        intros [s1 res] (E1 & E2 & E3 & E4 & ZI). cbn [fst snd okor] in *. subst res. rewrite frev_rev. cbn [rev].
        split; [reflexivity|]. split; [exact E2|]. intros _. split; [lia|]. split; [lia|].
        intros _ _ iacc. destruct (ZI iacc) as (k & L' & Ek & Er). exists k, L'. split; assumption.
  Qed.

  Lemma l2_new_spec normal bt4 dict nice preset chunk ps0 : opts_ok dict nice ->
    (match preset with Some plen => 0 <= plen | None => True end) ->
    okor (l2_new_repaired PS normal bt4 dict nice preset chunk ps0) (fun s =>
      exists p org, wf_p p /\ l2_hist_ok p /\ l2ok p org s /\ sum_fill (l2_tr _ s) = 0 /\
        dict_size p = dict /\ keep_before p = get_extra_size_before dict + mode_extra_before normal + dict /\
        org = - (match preset with Some plen => Z.min plen dict | None => 0 end) /\
        l2_chunk _ s = (match chunk with Some c => Some (Z.max c dict) | None => None end)).
  Proof.
    intros Ho Hpl. pose proof Ho as [[Hd1 Hd2] [Hn1 Hn2]].
    unfold l2_new_repaired, l2_new_with, enc_new, extra_before_sum, get_extra_size_before, COMPRESSED_SIZE_MAX.
    assert (Hmb : 1 <= mode_extra_before normal <= 4096)
      by (unfold mode_extra_before, NORMAL_EXTRA_BEFORE, FAST_EXTRA_BEFORE; destruct normal; lia).
    rewrite ck_u32_ok by (unfold U32_MAX; lia). cbn [obind].
    destruct (enc_new_with_spec (Z.max 0 (65536 - dict) + mode_extra_before normal) normal bt4 dict nice Ho)
      as (p & E & W & Kb & Ds & Mb & Ea & Ml & Ka & Hbuf); [lia|].
    rewrite E. cbn [obind].
    assert (HH : l2_hist_ok p) by (unfold l2_hist_ok, COMPRESSED_SIZE_MAX; lia).
    assert (Hub0 : 0 <= UNC_BOUND p).
    { unfold UNC_BOUND, SYM_MAX, LZMA2_UNCOMPRESSED_LIMIT. pose proof (wf_ea p W). lia. }
    destruct preset as [plen|].
    - eapply okor_bind; [apply (preset_spec p dict plen W Ds Hbuf Hpl)|].
      intros [d1 tr1]. cbn [fst snd okor]. intros (I & F & Q & Acc). injection Acc as E1 E2 E3 E4 E5.
      cbn [sum_sym sum_fill sum_abs sum_chunk rsyms] in *.
      exists p, (- Z.min plen dict). split; [exact W|]. split; [exact HH|]. split.
      { split.
        - constructor; cbn [l2_p l2_new l2_e l2_tr l2_pending l2_unc]; try assumption; try reflexivity; try lia.
        - split; [exact F|]. split; [reflexivity|]. exact Hub0. }
      cbn [l2_tr l2_chunk]. repeat split; try assumption; try reflexivity; lia.
    - cbn [okor]. destruct (enc0_einv p W) as (I & F & Q).
      exists p, 0. split; [exact W|]. split; [exact HH|]. split.
      { split.
        - constructor; cbn [l2_p l2_new l2_e l2_tr l2_pending l2_unc sum_fill sum_chunk]; try assumption; try reflexivity; try lia.
        - split; [exact F|]. split; [reflexivity|]. exact Hub0. }
      cbn [l2_tr l2_chunk sum_fill]. repeat split; try assumption; try reflexivity; lia.
  Qed.


  (* lookahead_clamped: while the window holds the full look-ahead (not flushing, not finishing:
     read_limit = write_pos - keep_size_after) the parser observes the same thing whatever amount
     of further data the caller has already supplied: two states that differ only in write_pos
     (and read_limit) lead the same strategy to the same decision *)
  Lemma run_strat_frame p s e e' tr tr' : wf_p p -> minv p e -> minv p e' ->
    read_ahead e = read_ahead e' ->
    match_len_max p + extra_after p - read_ahead e <= write_pos (e_lz e) - read_pos (e_lz e) ->
    match_len_max p + extra_after p - read_ahead e' <= write_pos (e_lz e') - read_pos (e_lz e') ->
    forall e1 len full ps1 tr1 e1' len' full' ps1' tr1',
    run_strat PS p s e tr = Ok (e1, len, full, ps1, tr1) ->
    run_strat PS p s e' tr' = Ok (e1', len', full', ps1', tr1') ->
    len = len' /\ full = full' /\ ps1 = ps1' /\ read_ahead e1 = read_ahead e1'.
  Proof.
    intros W M M' Hra Hs Hs' e1 len full ps1 tr1 e1' len' full' ps1' tr1' E E'.
    pose proof (run_strat_spec p W s e tr M) as R. pose proof (run_strat_spec p W s e' tr' M') as R'.
    rewrite E in R. rewrite E' in R'. cbn [okor] in R, R'.
    destruct R as (_ & _ & _ & _ & _ & _ & _ & _ & _ & _ & _ & _ & _ & RI).
    destruct R' as (_ & _ & _ & _ & _ & _ & _ & _ & _ & _ & _ & _ & _ & RI').
    set (A := Z.max (write_pos (e_lz e) - read_pos (e_lz e)) (write_pos (e_lz e') - read_pos (e_lz e'))).
    assert (H1 : irun p s A (read_ahead e) = Some (read_ahead e1, len, full, ps1)).
    { apply RI. unfold view_ok. cbv zeta. right. split; [exact Hs|unfold A; lia]. }
    assert (H2 : irun p s A (read_ahead e') = Some (read_ahead e1', len', full', ps1')).
    { apply RI'. unfold view_ok. cbv zeta. right. split; [exact Hs'|unfold A; lia]. }
    rewrite <- Hra in H2. rewrite H1 in H2. injection H2 as <- <- <- <-. repeat split; reflexivity.
  Qed.

End Oracle.

(* =============================================================================================
   LZMAWriter, top level *)

(* LZMAWriter under EVERY call history, parser strategy and option vector in range: no panic (in
   particular every buffer index is in range), the fuel of the model loops suffices, every write
   returns the whole slice or is rejected as a whole by the declared-size check, and when finish
   succeeds the symbols coded cover exactly the bytes accepted. *)
Theorem lzma1_run_exact : forall (PS : Type) (parse : PS -> Z -> Z -> strat PS) (ps0 : PS)
    normal bt4 dict nice preset expected ops,
  opts_ok dict nice ->
  (match preset with Some plen => 0 <= plen | None => True end) ->
  ops_ok ops ->
  (match preset with Some plen => Z.min plen dict | None => 0 end) + ops_total ops <= U32_MAX ->
  okor (do s <- l1_new PS normal bt4 dict nice preset expected ps0; l1_run PS parse s ops [])
       (fun r =>
          let '(s1, res) := r in
          let '(rs, c, fin) := l1_results expected 0 ops in
          res = rs /\ sum_fill (l1_tr _ s1) = c /\
          (fin = true -> sum_sym (l1_tr _ s1) = c /\ sum_abs (l1_tr _ s1) = 0)).
Proof.
  intros PS parse ps0 normal bt4 dict nice preset expected ops Ho Hpl Hok Hcap.
  pose (chunkc := fun (ps : PS) (_ : Z) => (0, ps)).
  eapply okor_bind; [apply (l1_new_spec PS parse chunkc normal bt4 dict nice preset expected ps0 Ho Hpl)|].
  intros s (p & W & L & F0 & Ex & C0 & _ & _).
  eapply okor_weaken.
  { apply (l1_run_spec PS parse chunkc p _ expected W ops s [] L Ex Hok). rewrite F0. lia. }
  intros [s1 res]. rewrite C0. destruct (l1_results expected 0 ops) as [[rs c] fin]. cbn [rev app].
  intros (R1 & R2 & R3). split; [exact R1|]. split; [exact R2|].
  intros Hf. destruct (R3 Hf) as (R4 & R5 & _). split; assumption.
Qed.

(* ---------------------------------------------------------------------------------------------
   enc_partition_independent (LZMAWriter; LZIPWriter forwards to it) *)

Lemma ops_total_nn ops : ops_ok ops -> 0 <= ops_total ops.
Proof. induction ops as [|[n| |] r IH]; cbn; intros H; try lia; try (apply IH; exact H). destruct H. specialize (IH H0). lia. Qed.

(* a call history before the final finish() *)
Fixpoint no_finish (ops : list wop) : Prop :=
  match ops with [] => True | WoFinish :: _ => False | _ :: r => no_finish r end.

Lemma l1_results_body exp : forall body cur, no_finish body -> ops_ok body ->
  (match exp with Some ex => ex = cur + ops_total body | None => True end) ->
  snd (fst (l1_results exp cur (body ++ [WoFinish]))) = cur + ops_total body /\
  snd (l1_results exp cur (body ++ [WoFinish])) = true.
Proof.
  induction body as [|[n| |] r IH]; intros cur Hnf Hok Hex; cbn [app l1_results ops_total no_finish ops_ok] in *.
  - assert (E : (match exp with Some ex => negb (ex =? cur) | None => false end) = false).
    { destruct exp as [ex|]; [|reflexivity]. subst ex. rewrite Z.add_0_r, Z.eqb_refl. reflexivity. }
    rewrite E. cbn. split; [lia|reflexivity].
  - destruct Hok as [Hn Hok]. pose proof (ops_total_nn _ Hok).
    assert (E : (match exp with Some ex => ex <? cur + n | None => false end) = false).
    { destruct exp as [ex|]; [|reflexivity]. subst ex. apply Z.ltb_ge. lia. }
    rewrite E. specialize (IH (cur + n) Hnf Hok).
    destruct (l1_results exp (cur + n) (r ++ [WoFinish])) as [[rs c] f]. cbn [fst snd] in *.
    destruct IH as [I1 I2]; [destruct exp; [lia|exact I]|]. split; [lia|exact I2].
  - specialize (IH cur Hnf Hok Hex). destruct (l1_results exp cur (r ++ [WoFinish])) as [[rs c] f]. exact IH.
  - contradiction.
Qed.

Lemma ops_ok_app a b : ops_ok a -> ops_ok b -> ops_ok (a ++ b).
Proof. induction a as [|[n| |] r IH]; cbn; intros Ha Hb; auto. destruct Ha; split; auto. Qed.
Lemma ops_total_app a b : ops_total (a ++ b) = ops_total a + ops_total b.
Proof. induction a as [|[n| |] r IH]; cbn; lia. Qed.

(* For LZMAWriter, under every parser strategy [parse] (an arbitrary function of the logical
   position, the read-ahead, its own state and the clamped observations), two call histories
   over the same amount of data — any partitions into write() calls, empty writes, flush() calls
   anywhere — lead the parser through the same consultations: the same symbol lengths in the same
   order and the same final parser state (a parser state may record whatever the parser decided:
   kinds, distances, literals).  Together with Codec/LzmaWriters.v, where the output is a function
   [lzma1_write] of options, data and that symbol sequence, the compressed bytes are equal. *)
Theorem enc_partition_independent_lzma1 : forall (PS : Type) (parse : PS -> Z -> Z -> strat PS) (ps0 : PS)
    normal bt4 dict nice preset expected body body' s0 s1 res s1' res',
  opts_ok dict nice ->
  (match preset with Some plen => 0 <= plen | None => True end) ->
  ops_ok body -> ops_ok body' -> no_finish body -> no_finish body' ->
  ops_total body = ops_total body' ->
  (match expected with Some ex => ex = ops_total body | None => True end) ->
  (match preset with Some plen => Z.min plen dict | None => 0 end) + ops_total body <= U32_MAX ->
  l1_new PS normal bt4 dict nice preset expected ps0 = Ok s0 ->
  l1_run PS parse s0 (body ++ [WoFinish]) [] = Ok (s1, res) ->
  l1_run PS parse s0 (body' ++ [WoFinish]) [] = Ok (s1', res') ->
  rsyms (l1_tr _ s1) = rsyms (l1_tr _ s1') /\ l1_ps _ s1 = l1_ps _ s1'.
Proof.
  intros PS parse ps0 normal bt4 dict nice preset expected body body' s0 s1 res s1' res'
         Ho Hpl Hok Hok' Hnf Hnf' Htot Hex Hcap Enew Erun Erun'.
  pose (chunkc := fun (ps : PS) (_ : Z) => (0, ps)).
  pose proof (l1_new_spec PS parse chunkc normal bt4 dict nice preset expected ps0 Ho Hpl) as Hnew.
  rewrite Enew in Hnew. cbn [okor] in Hnew.
  destruct Hnew as (p & W & L & F0 & Ex & C0 & _ & _).
  set (org := - (match preset with Some plen => Z.min plen dict | None => 0 end)) in *.
  assert (Hfin : ops_ok [WoFinish]) by exact I.
  pose proof (l1_run_spec PS parse chunkc p org expected W (body ++ [WoFinish]) s0 [] L Ex (ops_ok_app _ _ Hok Hfin)) as R.
  pose proof (l1_run_spec PS parse chunkc p org expected W (body' ++ [WoFinish]) s0 [] L Ex (ops_ok_app _ _ Hok' Hfin)) as R'.
  rewrite Erun in R. rewrite Erun' in R'. cbn [okor] in R, R'.
  rewrite C0 in R, R'.
  destruct (l1_results_body expected body 0 Hnf Hok) as [B1 B2]; [destruct expected; [lia|exact I]|].
  destruct (l1_results_body expected body' 0 Hnf' Hok') as [B1' B2']; [destruct expected; [lia|exact I]|].
  destruct (l1_results expected 0 (body ++ [WoFinish])) as [[rs c] fin].
  destruct (l1_results expected 0 (body' ++ [WoFinish])) as [[rs' c'] fin'].
  cbn [fst snd] in *. subst fin fin' c c'.
  specialize (R ltac:(rewrite F0, ops_total_app; cbn [ops_total]; unfold org; lia)).
  specialize (R' ltac:(rewrite F0, ops_total_app; cbn [ops_total]; unfold org; lia)).
  destruct R as (_ & _ & R). destruct R' as (_ & _ & R').
  destruct (R eq_refl) as (_ & _ & RI). destruct (R' eq_refl) as (_ & _ & RI').
  destruct (RI []) as (k & Lk & Ek & Er). destruct (RI' []) as (k' & Lk' & Ek' & Er').
  rewrite <- Htot in Ek'. rewrite app_nil_r in Ek, Ek'.
  pose proof L as [_ (I0 & _) _ _ _].
  assert (HP0 : 0 <= logical_pos (l1_e PS s0)).
  { rewrite logical_pidx. pose proof (ei_base _ _ _ _ I0) as [? _]. pose proof (ei_ra _ _ _ _ I0).
    pose proof (ei_lz _ _ _ _ I0) as [[? ?] ? ? ? ?]. unfold pidx. lia. }
  assert (Est : est PS (l1_e PS s0) (l1_ps PS s0) = (logical_pos (l1_e PS s0), read_ahead (l1_e PS s0), snd (est PS (l1_e PS s0) (l1_ps PS s0))))
    by reflexivity.
  destruct (Nat.le_ge_cases k k') as [Hle|Hle].
  - destruct (isteps_deterministic PS parse chunkc p _ _ _ _ HP0 Est _ _ _ _ _ _ _ _ _ _ Ek Ek' Hle) as (E1 & E2 & _).
    split; [rewrite Er, Er', E2; reflexivity|exact E1].
  - destruct (isteps_deterministic PS parse chunkc p _ _ _ _ HP0 Est _ _ _ _ _ _ _ _ _ _ Ek' Ek Hle) as (E1 & E2 & _).
    split; [rewrite Er, Er', E2; reflexivity|symmetry; exact E1].
Qed.

(* =============================================================================================
   LZMA2Writer, top level *)

(* LZMA2Writer (repaired history policy) under EVERY call history with flushes, chunk_size or not,
   EVERY parser strategy and range-coder oracle: no panic — every buffer index is in range, in
   particular the slices write_uncompressed copies out of the window (uncompressed fallback) —,
   the fuel of the loops suffices, every write returns the whole slice, and when finish succeeds
   every accepted byte is in exactly one chunk and the symbols coded plus the bytes the fallback
   took over from the parser's read-ahead cover exactly the bytes accepted. *)
Theorem lzma2_run_exact : forall (PS : Type) (parse : PS -> Z -> Z -> strat PS) (chunkc : PS -> Z -> Z * PS) (ps0 : PS)
    normal bt4 dict nice preset chunk ops,
  opts_ok dict nice ->
  (match preset with Some plen => 0 <= plen | None => True end) ->
  ops_ok ops -> ops_total ops <= 4611686018427387904 ->
  okor (do s <- l2_new_repaired PS normal bt4 dict nice preset chunk ps0; l2_run PS parse chunkc s ops [])
       (fun r =>
          let '(s1, res) := r in
          let '(rs, c, fin) := l2_results 0 ops in
          res = rs /\ sum_fill (l2_tr _ s1) = c /\
          (fin = true -> sum_chunk (l2_tr _ s1) = c /\ sum_sym (l2_tr _ s1) + sum_abs (l2_tr _ s1) = c)).
Proof.
  intros PS parse chunkc ps0 normal bt4 dict nice preset chunk ops Ho Hpl Hok Hcap.
  eapply okor_bind; [apply (l2_new_spec PS parse chunkc normal bt4 dict nice preset chunk ps0 Ho Hpl)|].
  intros s (p & org & W & HH & L & F0 & _ & _).
  eapply okor_weaken.
  { apply (l2_run_spec PS parse chunkc p W HH ops s org [] L Hok). rewrite F0. lia. }
  intros [s1 res]. rewrite F0. destruct (l2_results 0 ops) as [[rs c] fin]. cbn [rev app].
  intros (R1 & R2 & R3). split; [exact R1|]. split; [exact R2|].
  intros Hf. destruct (R3 Hf) as (R4 & R5 & _). split; assumption.
Qed.

(* ---------------------------------------------------------------------------------------------
   enc_partition_independent (LZMA2Writer without chunk_size and without flush; XZWriter without
   block size forwards to one LZMA2Writer) *)
Lemma l2_results_body : forall body cur, no_finish body ->
  snd (fst (l2_results cur (body ++ [WoFinish]))) = cur + ops_total body /\
  snd (l2_results cur (body ++ [WoFinish])) = true.
Proof.
  induction body as [|[n| |] r IH]; intros cur Hnf; cbn [app l2_results ops_total no_finish] in *.
  - cbn. split; [lia|reflexivity].
  - specialize (IH (cur + n) Hnf). destruct (l2_results (cur + n) (r ++ [WoFinish])) as [[rs c] f]. cbn [fst snd] in *.
    destruct IH. split; [lia|assumption].
  - specialize (IH cur Hnf). destruct (l2_results cur (r ++ [WoFinish])) as [[rs c] f]. exact IH.
  - contradiction.
Qed.

Lemma no_flush_app a b : no_flush a -> no_flush b -> no_flush (a ++ b).
Proof. induction a as [|[n| |] r IH]; cbn; intros Ha Hb; auto. Qed.

(* Same statement as for LZMAWriter, with the range coder's chunk decisions included: the two
   histories lead every parser strategy and every range-coder oracle through the same
   consultations and the same chunk decisions. *)
Theorem enc_partition_independent_lzma2 : forall (PS : Type) (parse : PS -> Z -> Z -> strat PS) (chunkc : PS -> Z -> Z * PS) (ps0 : PS)
    normal bt4 dict nice preset body body' s0 s1 res s1' res',
  opts_ok dict nice ->
  (match preset with Some plen => 0 <= plen | None => True end) ->
  ops_ok body -> ops_ok body' -> no_finish body -> no_finish body' -> no_flush body -> no_flush body' ->
  ops_total body = ops_total body' -> ops_total body <= 4611686018427387904 ->
  l2_new_repaired PS normal bt4 dict nice preset None ps0 = Ok s0 ->
  l2_run PS parse chunkc s0 (body ++ [WoFinish]) [] = Ok (s1, res) ->
  l2_run PS parse chunkc s0 (body' ++ [WoFinish]) [] = Ok (s1', res') ->
  rsyms (l2_tr _ s1) = rsyms (l2_tr _ s1') /\ l2_ps _ s1 = l2_ps _ s1'.
Proof.
  intros PS parse chunkc ps0 normal bt4 dict nice preset body body' s0 s1 res s1' res'
         Ho Hpl Hok Hok' Hnf Hnf' Hnfl Hnfl' Htot Hcap Enew Erun Erun'.
  pose proof (l2_new_spec PS parse chunkc normal bt4 dict nice preset None ps0 Ho Hpl) as Hnew.
  rewrite Enew in Hnew. cbn [okor] in Hnew.
  destruct Hnew as (p & org & W & HH & L & F0 & _ & _ & _ & Hch).
  assert (Hfin : ops_ok [WoFinish]) by exact I.
  assert (Hnff : no_flush [WoFinish]) by exact I.
  pose proof (l2_run_spec PS parse chunkc p W HH (body ++ [WoFinish]) s0 org [] L (ops_ok_app _ _ Hok Hfin)) as R.
  pose proof (l2_run_spec PS parse chunkc p W HH (body' ++ [WoFinish]) s0 org [] L (ops_ok_app _ _ Hok' Hfin)) as R'.
  rewrite Erun in R. rewrite Erun' in R'. cbn [okor] in R, R'. rewrite F0 in R, R'.
  destruct (l2_results_body body 0 Hnf) as [B1 B2].
  destruct (l2_results_body body' 0 Hnf') as [B1' B2'].
  destruct (l2_results 0 (body ++ [WoFinish])) as [[rs c] fin].
  destruct (l2_results 0 (body' ++ [WoFinish])) as [[rs' c'] fin'].
  cbn [fst snd] in *. subst fin fin' c c'.
  specialize (R ltac:(rewrite ops_total_app; cbn [ops_total]; lia)).
  specialize (R' ltac:(rewrite ops_total_app; cbn [ops_total]; lia)).
  destruct R as (_ & _ & R). destruct R' as (_ & _ & R').
  destruct (R eq_refl) as (_ & _ & RI). destruct (R' eq_refl) as (_ & _ & RI').
  destruct (RI Hch (no_flush_app _ _ Hnfl Hnff) []) as (k & Lk & Ek & Er).
  destruct (RI' Hch (no_flush_app _ _ Hnfl' Hnff) []) as (k' & Lk' & Ek' & Er').
  rewrite <- Htot in Ek'. rewrite app_nil_r in Ek, Ek'.
  set (T := 0 + ops_total body - org) in *.
  assert (Hterm : forall ps, istep2 PS parse chunkc p T (T, -1, ps, 0, false) = None).
  { intros ps. unfold istep2. destruct (Z.eqb_spec T 0) as [E0|E0].
    - rewrite E0. reflexivity.
    - cbn [Z.leb andb negb]. destruct (Z.ltb_spec T T); [lia|]. reflexivity. }
  destruct (isteps2_deterministic PS parse chunkc p T _ _ _ _ _ _ _ _ Ek Ek' (Hterm _) (Hterm _)) as [E1 E2].
  split; [rewrite Er, Er', E2; reflexivity|]. injection E1 as E1. exact E1.
Qed.

(* history_kept: a window move shifts by a multiple of 64 (so buffer positions and logical
   positions agree modulo 64: pos_mask and the literal position mask are unaffected) and keeps
   keep_size_before bytes before read_pos + 1, together with everything after them *)
Theorem history_kept : forall p d tr, wf_p p -> lzinv p d ->
  buf_size p - keep_after p <= read_pos d ->
  exists off, move_window p d tr =
    Ok (mkLzd (read_pos d - off) (read_limit d - off) (finishing d) (write_pos d - off) (pending_size d),
        EvMove off (write_pos d - off) :: tr) /\
    64 <= off /\ off mod 64 = 0 /\ keep_before p <= (read_pos d - off) + 1 /\ (read_pos d - off) + 1 < keep_before p + 64.
Proof.
  intros p d tr W I Hl. destruct (move_window_spec p d tr W I Hl) as (off & E & O1 & O2 & O3).
  exists off. repeat split; try assumption; lia.
Qed.

(* =============================================================================================
   The two earlier history policies are refuted: the uncompressed fallback reads before the start
   of the buffer (copy_uncompressed: Panic P_INDEX) *)

(* extra_size_before = max(64 KiB - dict_size, mode's) (repo commit fa095d0), normal mode,
   dict_size 4096: a 65465-byte incompressible chunk whose last consultation left 4094 bytes read
   ahead, with a window move in between *)
Definition old_max_witness_ops : list wop := [WoWrite 334097; WoWrite 100; WoFinish].
Definition old_max_witness_ds : list ditem :=
  repeat (DSym 273 273 false) 967 ++ [DSym 273 273 true; DChunk 65511] ++
  repeat (DSym 273 273 false) 239 ++ [DSym 216 216 false; DSym 4096 1 false; DSym 0 1 true; DChunk 65511].

Lemma uncompressed_fallback_in_window_max_refuted :
  l2_replay 1 true false 4096 273 None None old_max_witness_ops old_max_witness_ds = Panic P_INDEX.
Proof. vm_compute. reflexivity. Qed.

(* the same history and decisions on the repaired policy: no panic *)
Lemma old_max_witness_repaired :
  match l2_replay 0 true false 4096 273 None None old_max_witness_ops old_max_witness_ds with
  | Panic _ => False | _ => True end.
Proof. vm_compute. exact I. Qed.

(* extra_size_before = the mode's own (before fa095d0), fast mode, dict_size 4096 *)
Definition old_mode_witness_ops : list wop := [WoWrite 268834; WoWrite 100; WoFinish].
Definition old_mode_witness_ds : list ditem :=
  repeat (DSym 273 273 false) 759 ++ [DSym 273 273 true; DChunk 65511] ++
  repeat (DSym 273 273 false) 223 ++ [DSym 1 1 true; DChunk 65511].

Lemma uncompressed_fallback_in_window_old_refuted :
  l2_replay 2 false false 4096 273 None None old_mode_witness_ops old_mode_witness_ds = Panic P_INDEX.
Proof. vm_compute. reflexivity. Qed.

(* lookahead_clamped, top level: see run_strat_frame.  The hypothesis on write_pos - read_pos is
   what has_enough_data guarantees in the steady phase: pidx <= read_limit = write_pos -
   keep_size_after and keep_size_after = EXTRA_SIZE_AFTER + MATCH_LEN_MAX (phi_consult_nopend +
   the contract read_ahead <= EXTRA_SIZE_AFTER), so every clamp the parsers apply — min(avail,
   MATCH_LEN_MAX), min(avail, nice_len), min(get_avail(), OPTS - 1) — returns the clamp. *)
Theorem lookahead_clamped : forall (PS : Type) p (s : strat PS) e e' tr tr',
  wf_p p -> minv p e -> minv p e' ->
  read_ahead e = read_ahead e' ->
  match_len_max p + extra_after p - read_ahead e <= write_pos (e_lz e) - read_pos (e_lz e) ->
  match_len_max p + extra_after p - read_ahead e' <= write_pos (e_lz e') - read_pos (e_lz e') ->
  forall e1 len full ps1 tr1 e1' len' full' ps1' tr1',
  run_strat PS p s e tr = Ok (e1, len, full, ps1, tr1) ->
  run_strat PS p s e' tr' = Ok (e1', len', full', ps1', tr1') ->
  len = len' /\ full = full' /\ ps1 = ps1' /\ read_ahead e1 = read_ahead e1'.
Proof.
  intros PS p s e e' tr tr'.
  exact (run_strat_frame PS (fun ps _ _ => SFail) (fun ps _ => (0, ps)) p s e e' tr tr').
Qed.

(* ---------------------------------------------------------------------------------------------
   lzma_expected_size (the .lzma clause of C18) *)
Lemma l1_results_finished exp : forall ops cur rs c,
  l1_results exp cur ops = (rs, c, true) -> match exp with Some ex => c = ex | None => True end.
Proof.
  induction ops as [|[n| |] r IH]; intros cur rs c H; cbn [l1_results] in H.
  - discriminate.
  - destruct (match exp with Some ex => ex <? cur + n | None => false end).
    + destruct (l1_results exp cur r) as [[rs' c'] f'] eqn:E. injection H as _ <- ->. eapply IH; exact E.
    + destruct (l1_results exp (cur + n) r) as [[rs' c'] f'] eqn:E. injection H as _ <- ->. eapply IH; exact E.
  - destruct (l1_results exp cur r) as [[rs' c'] f'] eqn:E. injection H as _ <- ->. eapply IH; exact E.
  - destruct exp as [ex|]; [|exact I].
    destruct (Z.eqb_spec ex cur) as [Heq|Hne]; cbn [negb] in H; [injection H as _ <-; exact (eq_sym Heq)|discriminate].
Qed.

(* An LZMAWriter that was given an expected size [ex]: for every call history and parser, what the
   calls return is [l1_results (Some ex) 0 ops] — a write() of n bytes is rejected (InvalidInput,
   nothing accepted, the writer stays usable) exactly when the bytes accepted so far plus n exceed
   ex; finish() is rejected exactly when the bytes accepted differ from ex — and when finish()
   succeeds the header's size field (ex, written by the constructor) equals the number of bytes
   accepted, which equals the sum of the coded symbol lengths. *)
Theorem lzma_expected_size : forall (PS : Type) (parse : PS -> Z -> Z -> strat PS) (ps0 : PS)
    normal bt4 dict nice ex ops,
  opts_ok dict nice -> ops_ok ops -> ops_total ops <= U32_MAX ->
  okor (do s <- l1_new PS normal bt4 dict nice None (Some ex) ps0; l1_run PS parse s ops [])
       (fun r =>
          let '(s1, res) := r in
          let '(rs, c, fin) := l1_results (Some ex) 0 ops in
          res = rs /\ sum_fill (l1_tr _ s1) = c /\
          (fin = true -> ex = c /\ sum_sym (l1_tr _ s1) = ex)).
Proof.
  intros PS parse ps0 normal bt4 dict nice ex ops Ho Hok Hcap.
  eapply okor_weaken.
  { apply (lzma1_run_exact PS parse ps0 normal bt4 dict nice None (Some ex) ops Ho I Hok). lia. }
  intros [s1 res]. destruct (l1_results (Some ex) 0 ops) as [[rs c] fin] eqn:E.
  intros (R1 & R2 & R3). split; [exact R1|]. split; [exact R2|].
  intros Hf. subst fin. pose proof (l1_results_finished _ _ _ _ _ E) as Hc. cbn in Hc.
  destruct (R3 eq_refl) as [R4 _]. split; [symmetry; exact Hc|]. rewrite R4. exact Hc.
Qed.

(* ---------------------------------------------------------------------------------------------
   fill_window before the repair "write() of a slice of 2 GiB or more panics in fill_window":
   for a slice of 2^31 bytes the number of bytes to copy came out as the whole slice length,
   whatever the room left in the window (655906 = buf_size of preset 0's window): the slice
   buf[write_pos .. write_pos + len] is then out of range. *)
Lemma fill_window_huge_slice_old_refuted :
  fill_len_old 655906 2147483648 = 2147483648 /\ 655906 < fill_len_old 655906 2147483648.
Proof. vm_compute. split; reflexivity. Qed.

(* ---------------------------------------------------------------------------------------------
   The debug assertion of process_pending_bytes as it was (`pending_size < old_pending`) fails in
   a reachable state: fast mode / HC4, one byte of preset dictionary pending, one more byte
   written, finish(): the pending position still sees fewer than 4 bytes. *)
Lemma process_pending_strict_assert_refuted :
  match enc_new false false 4096 0 32 with
  | Ok (p, _) =>
      let d := mkLzd 0 1 true 2 1 in
      match process_pending p d [] with
      | Ok (d1, _) => pending_assert_old (pending_size d) (pending_size d1) = false
      | _ => False
      end
  | _ => False
  end.
Proof. vm_compute. reflexivity. Qed.
