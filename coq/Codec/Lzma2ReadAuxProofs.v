(* Codec/Lzma2ReadAuxProofs.v — auxiliary facts for the LZMA2 reader proof: the header bytes decode
   to the sizes the writer meant, rc.prepare = RangeDecoder initialisation on the chunk payload,
   the specification decoder does not depend on a stale pending distance, one decode call leaves
   the range decoder normalised, and how the encoder's view of the data relates to histories. *)
From LzVerif Require Import Base.Bytes Codec.Store Codec.Range Codec.ProbProofs Codec.LzWindow Codec.LzmaDec
  Codec.LzmaEnc Codec.LzmaAbs Codec.LzWindowProofs Codec.ProgProofs Codec.LzmaAbsProofs
  Codec.RangeEncProofs Codec.RangeDecProofs Codec.RangeProofs Codec.LzmaSymProofs Codec.LzmaRoundtrip
  Codec.LzmaWriters Codec.LzmaChunkProofs Codec.LzmaReadProofs Codec.Lzma2Dec Codec.Lzma2FrameProofs
  Codec.Lzma2SpecProofs Codec.Lzma2WindowProofs.
Ltac Zify.zify_post_hook ::= Z.div_mod_to_equations.

(* ---- header bytes --------------------------------------------------------------------------- *)
Lemma u16_bytes v : 0 <= v < 65536 -> wrap8 (Z.shiftr v 8) * 256 + wrap8 v = v.
Proof. intros H. unfold wrap8. rewrite Z.shiftr_div_pow2 by lia. change (2 ^ 8) with 256. lia. Qed.

Lemma wrap8_range x : 0 <= wrap8 x < 256.
Proof. unfold wrap8. lia. Qed.

Definition ctl_chk (x : Z) : bool :=
  forallb (fun c0 => (Z.lor c0 x =? c0 + x) && (Z.land (c0 + x) 31 =? x)) [128; 160; 192; 224].

Lemma ctl_sweep : forallb ctl_chk (zrange 0 32) = true.
Proof. vm_compute. reflexivity. Qed.

Lemma ctl_facts c0 x : In c0 [128; 160; 192; 224] -> 0 <= x < 32 ->
  Z.lor c0 x = c0 + x /\ Z.land (c0 + x) 31 = x.
Proof.
  intros Hc Hx. pose proof ctl_sweep as HS. rewrite forallb_forall in HS.
  specialize (HS x (in_zrange 0 32 x ltac:(lia))). unfold ctl_chk in HS. rewrite forallb_forall in HS.
  specialize (HS c0 Hc). apply andb_true_iff in HS as [H1 H2]. apply Z.eqb_eq in H1, H2. split; assumption.
Qed.

Lemma lzma_ctl_decode c0 usize : In c0 [128; 160; 192; 224] -> 1 <= usize <= 2097152 ->
  wrap8 (Z.lor c0 (Z.shiftr (usize - 1) 16)) = c0 + (usize - 1) / 65536 /\
  0 <= (usize - 1) / 65536 < 32 /\
  Z.shiftl (Z.land (c0 + (usize - 1) / 65536) 31) 16
    + (wrap8 (Z.shiftr (usize - 1) 8) * 256 + wrap8 (usize - 1)) + 1 = usize.
Proof.
  intros Hc Hu. rewrite Z.shiftr_div_pow2 by lia. change (2 ^ 16) with 65536.
  assert (Hx : 0 <= (usize - 1) / 65536 < 32) by lia.
  destruct (ctl_facts c0 _ Hc Hx) as [H1 H2]. rewrite H1, H2.
  assert (Hc0 : 128 <= c0 <= 224) by (cbn [In] in Hc; lia).
  split; [unfold wrap8; lia|]. split; [exact Hx|].
  rewrite Z.shiftl_mul_pow2 by lia. change (2 ^ 16) with 65536.
  rewrite Z.shiftr_div_pow2 by lia. change (2 ^ 8) with 256. unfold wrap8. lia.
Qed.

Lemma decode_props_ok lc lp pb rest : 0 <= lc -> 0 <= lp -> lc + lp <= 4 -> 0 <= pb <= 4 ->
  lzma2_decode_props (props_byte lc lp pb :: rest) = Ok (coder_new lc lp pb, rest).
Proof.
  intros Hlc Hlp Hs Hpb.
  assert (Hv : props_byte lc lp pb = 45 * pb + 9 * lp + lc) by (unfold props_byte, wrap8; lia).
  unfold lzma2_decode_props, read_u8. cbn [obind]. rewrite Hv.
  destruct (Z.ltb_spec 224 (45 * pb + 9 * lp + lc)) as [Hbad|_]; [lia|].
  assert (E1 : (45 * pb + 9 * lp + lc) / 45 = pb) by lia. rewrite E1.
  assert (E2 : (45 * pb + 9 * lp + lc - pb * 45) / 9 = lp) by lia. rewrite E2.
  replace (45 * pb + 9 * lp + lc - pb * 45 - lp * 9) with lc by lia.
  destruct (Z.ltb_spec 4 (lc + lp)) as [Hbad|_]; [lia|]. reflexivity.
Qed.

(* ---- rc.prepare on the chunk payload = RangeDecoder::new on it ------------------------------- *)
Lemma rdec_prepare_of_init body rest d0 :
  rdec_init body = Ok d0 -> rdec_prepare (body ++ rest) (zlen body) = Ok (d0, rest).
Proof.
  unfold rdec_init. destruct body as [|b0 r0]; [discriminate|].
  destruct (Z.eqb_spec b0 0) as [->|Hne]; cbn [negb]; [|discriminate].
  destruct r0 as [|b1 [|b2 [|b3 [|b4 payload]]]]; try discriminate.
  intros H. apply Ok_inj in H. subst d0.
  unfold rdec_prepare. rewrite !zlen_cons. pose proof (zlen_nonneg payload) as Hp.
  destruct (Z.ltb_spec (zlen payload + 1 + 1 + 1 + 1 + 1) 5) as [Hbad|_]; [lia|].
  cbn [app]. change (0 =? 0) with true. cbn [negb].
  replace (Z.to_nat (zlen payload + 1 + 1 + 1 + 1 + 1 - 5)) with (length payload) by (unfold zlen; lia).
  destruct (Nat.ltb_spec (length (payload ++ rest)) (length payload)) as [Hbad|_];
    [rewrite app_length in Hbad; lia|].
  rewrite firstn_app_exact, skipn_app_exact by reflexivity. reflexivity.
Qed.

Lemma rdec_is_finished_intro d : rd_in d = [] -> rd_code d = 0 -> rd_over d = 0 -> rdec_is_finished d = true.
Proof. intros H1 H2 H3. unfold rdec_is_finished. rewrite H1, H2, H3. reflexivity. Qed.

(* ---- postconditions through run_trace -------------------------------------------------------- *)
Lemma run_trace_pall {A} (P : A -> Prop) (p : prog A) evs a r :
  pall P p -> Forall ev_wf evs -> run_trace p evs = Some (Ok a, r) -> P a.
Proof.
  intros HP Hwf Hr.
  pose proof (run_trace_peq _ _ _ (peq_pall_refl P p HP) evs Hwf) as H.
  rewrite Hr in H. tauto.
Qed.

(* ---- a pending distance that is not in use does not matter ----------------------------------- *)
Definition pd_eq (s s' : astate) : Prop :=
  a_coder s = a_coder s' /\ a_hist s = a_hist s' /\ a_dict s = a_dict s' /\ a_pend_len s = a_pend_len s' /\
  (0 < a_pend_len s -> a_pend_dist s = a_pend_dist s').

Lemma aproduce_pd_eq n : forall s s', pd_eq s s' ->
  peq (fun r r' => pd_eq (fst r) (fst r') /\ snd r = snd r') (aproduce n s) (aproduce n s').
Proof.
  induction n as [|k IH]; intros s s' (Hc & Hh & Hd & Hl & Hpd); cbn [aproduce].
  - constructor. cbn [fst snd]. split; [repeat split; assumption | reflexivity].
  - rewrite <- Hl. destruct (Z.ltb_spec 0 (a_pend_len s)) as [Hpos|Hzero].
    + apply IH. rewrite <- Hc, <- Hh, <- Hd, <- (Hpd Hpos).
      unfold pd_eq; cbn [a_coder a_hist a_dict a_pend_len a_pend_dist]. repeat split; auto.
    + rewrite <- Hc, <- Hh. eapply peq_bind; [apply peq_refl|]. intros r ? <-.
      destruct (snd r) as [b|dist len].
      * apply IH. rewrite <- Hd. unfold pd_eq; cbn [a_coder a_hist a_dict a_pend_len a_pend_dist].
        repeat split; auto. intros X; lia.
      * assert (Hf : a_full s' = a_full s) by (unfold a_full; rewrite Hh, Hd; reflexivity).
        rewrite Hf. destruct (a_full s <=? dist).
        -- constructor. cbn [fst snd]. rewrite <- Hd. split; [|reflexivity].
           unfold pd_eq; cbn [a_coder a_hist a_dict a_pend_len a_pend_dist]. repeat split; auto. intros X; lia.
        -- destruct (len <=? 0); [constructor|].
           apply IH. rewrite <- Hd. unfold pd_eq; cbn [a_coder a_hist a_dict a_pend_len a_pend_dist].
           repeat split; auto.
Qed.

Lemma aproduce_pd_irrel n c hist dict pl pd pd' evs se r :
  Forall ev_wf evs -> (0 < pl -> pd = pd') ->
  run_trace (aproduce n (mkAstate c hist dict pl pd)) evs = Some (Ok (se, Ok tt), r) ->
  exists se', run_trace (aproduce n (mkAstate c hist dict pl pd')) evs = Some (Ok (se', Ok tt), r) /\
              a_coder se' = a_coder se /\ a_hist se' = a_hist se /\ a_dict se' = a_dict se /\
              a_pend_len se' = a_pend_len se.
Proof.
  intros Hwf Hpd Hr.
  assert (HE : pd_eq (mkAstate c hist dict pl pd) (mkAstate c hist dict pl pd')).
  { unfold pd_eq; cbn [a_coder a_hist a_dict a_pend_len a_pend_dist]. repeat split; auto. }
  pose proof (run_trace_peq _ _ _ (aproduce_pd_eq n _ _ HE) evs Hwf) as H.
  rewrite Hr in H.
  destruct (run_trace (aproduce n (mkAstate c hist dict pl pd')) evs) as [[[[se' st']|e|e|] r']|]; try contradiction.
  destruct H as ((Hq & Hst) & ->). cbn [fst snd] in Hq, Hst. subst st'.
  destruct Hq as (Q1 & Q2 & Q3 & Q4 & _).
  exists se'. split; [reflexivity|]. repeat split; congruence.
Qed.

(* ---- one decode call, leaving the range decoder normalised ----------------------------------- *)
Theorem decode_call_sim_norm : forall all t0 tail done rest c w hist d t b s' rest',
  rc_sim all t0 tail done d t -> all = done ++ rest ->
  Rel w hist -> coder_ok c (w_full w) -> w_pos w <= w_limit w -> Z.of_nat b = w_limit w - w_pos w ->
  (0 < w_pending_len w -> 0 <= w_pending_dist w < w_full w) ->
  run_trace (aproduce b (mkAstate c hist (w_size w) (w_pending_len w) (w_pending_dist w))) rest
    = Some (Ok (s', Ok tt), rest') ->
  exists w1 d1 t1 evs1,
    rest = evs1 ++ rest' /\
    lzma_decode c w d t = Ok (a_coder s', w1, Ok tt, d1, t1) /\
    rc_sim all t0 tail (done ++ evs1) d1 t1 /\ rdec_normalize d1 = d1 /\
    loop_rel w hist (a_coder s', w1, Ok tt) (s', Ok tt).
Proof.
  intros all t0 tail done rest c w hist d t b s' rest' Hsim Hall R Hc Hpl Hb Hpd Hrun.
  destruct (run_trace_consumed _ _ _ _ Hrun) as (evs1 & Hrest & _).
  subst rest.
  destruct (rc_sim_run all t0 tail done d t _ _ evs1 rest' _ Hsim Hall Hrun) as (d' & t' & Hrc & Hsim').
  pose proof (lzma_decode_abs c w hist d t b R Hc Hpl Hb Hpd) as HA.
  rewrite Hrc in HA. destruct HA as (w1 & Hdec & Hrel).
  exists w1, (rdec_normalize d'), t', evs1.
  split; [reflexivity|]. split; [exact Hdec|]. split; [apply rc_sim_normalize; exact Hsim'|].
  split; [|exact Hrel].
  destruct (rc_sim_state _ _ _ _ _ _ Hsim') as (HI & _).
  destruct Hsim' as (_ & _ & _ & rest2 & _ & _ & Hm).
  exact (dec_match_normalized _ _ _ _ Hm HI).
Qed.

(* ---- the encoder's view of the data and histories -------------------------------------------- *)
Lemma h_at_pos h : h_at h (h_pos h) = h.
Proof. destruct h; reflexivity. Qed.

Lemma h_at_at h p q : h_at (h_at h p) q = h_at h q.
Proof. reflexivity. Qed.

(* stored bytes extend the history *)
Lemma hist_rel_stored n : forall h hist,
  hist_rel h hist ->
  hist_rel (h_at h (h_pos h + Z.of_nat n)) (rev (aget_list (h_data h) (h_pos h) n) ++ hist).
Proof.
  induction n as [|k IH]; intros h hist Hr.
  - cbn [aget_list rev app Z.of_nat]. replace (h_pos h + 0) with (h_pos h) by lia. rewrite h_at_pos. exact Hr.
  - cbn [aget_list rev]. rewrite <- app_assoc. cbn [app].
    pose proof (hist_rel_lit h hist (aget 0 (h_data h) (h_pos h)) Hr eq_refl) as H1.
    specialize (IH (h_advance h 1) _ H1).
    unfold h_advance in IH; cbn [h_data h_pos] in IH. unfold h_at in *; cbn [h_data h_total h_base h_pos h_dict] in *.
    replace (h_pos h + Z.of_nat (S k)) with (h_pos h + 1 + Z.of_nat k) by lia. exact IH.
Qed.

(* the newest n bytes of a history are the n data bytes before the position *)
Lemma hist_rel_newest n : forall h hist,
  hist_rel h hist -> Z.of_nat n <= zlen hist ->
  rev (firstn n hist) = aget_list (h_data h) (h_pos h - Z.of_nat n) n.
Proof.
  induction n as [|k IH]; intros h hist Hr Hn; [reflexivity|].
  rewrite rev_firstn_S by (unfold zlen in Hn; lia).
  cbn [aget_list]. pose proof Hr as (Hl & Hb & Hc).
  rewrite Hc by lia. unfold hget. f_equal; [f_equal; lia|].
  rewrite (IH h hist Hr) by lia. f_equal. lia.
Qed.

Lemma data_from_split h n : 0 <= n <= h_total h - h_pos h ->
  data_from h = aget_list (h_data h) (h_pos h) (Z.to_nat n) ++ data_from (h_at h (h_pos h + n)).
Proof.
  intros Hn. unfold data_from. cbn [h_at h_data h_total h_pos].
  rewrite (aget_list_split (h_data h) (h_pos h) (h_total h - h_pos h) n) by lia.
  do 3 f_equal. lia.
Qed.

Lemma data_from_end h : h_pos h = h_total h -> data_from h = [].
Proof. intros H. unfold data_from. rewrite H, Z.sub_diag. reflexivity. Qed.

Lemma data_from_rebase h : data_from (h_rebase h) = data_from h.
Proof. reflexivity. Qed.

(* ---- positions along a chunk sequence stay inside the data ----------------------------------- *)
From LzVerif Require Import Codec.Lzma2BitsProofs.

Lemma chunks_ok_pos lc lp pb r h bytes : chunks_ok lc lp pb r h bytes -> h_pos h <= h_total h.
Proof.
  induction 1 as [r h He | r h bytes _ IH | r h n bytes Hn Hle _ _ | r h syms E c' h' usize csize bytes
                  Hne Hs Hp Hb Hu Hur Hc Hcr _ IH].
  - lia.
  - exact IH.
  - lia.
  - destruct (enc_syms_fields _ _ _ _ _ _ Hs) as (_ & Ht & _). lia.
Qed.
