(* Codec/Store.v — functional arrays (binary tries over positive) used for the probability tables
   and for the dictionary window, with the two characterising lemmas (gss/gso) every proof uses.
   A cell never written reads as the array's initial value, which the caller supplies. *)
From LzVerif Require Export Base.Bytes.

Inductive ptree : Type :=
| PLeaf
| PNode (l : ptree) (v : option Z) (r : ptree).

Fixpoint pget (t : ptree) (p : positive) : option Z :=
  match t with
  | PLeaf => None
  | PNode l v r =>
      match p with
      | xH => v
      | xO q => pget l q
      | xI q => pget r q
      end
  end.

Fixpoint pset (t : ptree) (p : positive) (x : Z) : ptree :=
  match p with
  | xH => match t with PLeaf => PNode PLeaf (Some x) PLeaf | PNode l _ r => PNode l (Some x) r end
  | xO q => match t with PLeaf => PNode (pset PLeaf q x) None PLeaf | PNode l v r => PNode (pset l q x) v r end
  | xI q => match t with PLeaf => PNode PLeaf None (pset PLeaf q x) | PNode l v r => PNode l v (pset r q x) end
  end.

(* arrays indexed by Z >= 0 *)
Definition akey (i : Z) : positive := Z.to_pos (i + 1).
Definition aget (dflt : Z) (t : ptree) (i : Z) : Z :=
  match pget t (akey i) with Some v => v | None => dflt end.
Definition aset (t : ptree) (i : Z) (x : Z) : ptree := pset t (akey i) x.

Lemma pget_leaf p : pget PLeaf p = None.
Proof. destruct p; reflexivity. Qed.

Lemma pgss t p x : pget (pset t p x) p = Some x.
Proof. revert t; induction p as [q IH|q IH|]; intros [|l v r]; cbn; auto. Qed.

Lemma pgso t p q x : p <> q -> pget (pset t p x) q = pget t q.
Proof.
  revert t q; induction p as [p IH|p IH|]; intros [|l v r] [q|q|] Hne; cbn;
    try rewrite pget_leaf; try reflexivity; try (apply IH; congruence);
    try (rewrite IH by congruence; apply pget_leaf); try congruence.
Qed.

Lemma akey_inj i j : 0 <= i -> 0 <= j -> akey i = akey j -> i = j.
Proof. unfold akey; intros Hi Hj H. apply Z2Pos.inj in H; lia. Qed.

Lemma agss d t i x : aget d (aset t i x) i = x.
Proof. unfold aget, aset. rewrite pgss. reflexivity. Qed.

Lemma agso d t i j x : 0 <= i -> 0 <= j -> i <> j -> aget d (aset t i x) j = aget d t j.
Proof.
  intros Hi Hj Hne. unfold aget, aset. rewrite pgso; [reflexivity|].
  intro H. apply akey_inj in H; lia.
Qed.
