(* Codec/LzmaAbs.v — the LZMA decoder over an unbounded history list, byte-granular.
   This is the SPECIFICATION-level decoder: no cyclic buffer, no limits, no flush positions.
   State: coder, history (newest byte first), and the part of the current match that has not been
   materialised yet (pending length / distance).  [aproduce n] produces up to n bytes.
   LzmaAbsProofs.v shows that LZMADecoder::decode over the cyclic window (LzmaDec.v) computes
   exactly this, for every sequence of limits. Definitions only. *)
From LzVerif Require Export Codec.LzmaDec.

Record astate := mkAstate {
  a_coder : coder;
  a_hist : list Z;          (* newest first; everything since the last dictionary reset *)
  a_dict : Z;               (* buffer size of the decoder = how far back a match may reach *)
  a_pend_len : Z;
  a_pend_dist : Z
}.

(* the decoding of one symbol's bits: literal byte, or (distance, length) of a copy *)
Inductive symres : Type :=
| RLit (b : Z)
| RCopy (dist len : Z).

Definition asym (c : coder) (hist : list Z) : prog (coder * symres) :=
  let apos := zlen hist in
  let pos_state := pos_state_of c apos in
  bind km <- lift (key2 K_IS_MATCH 12 16 (c_state c) pos_state);
  Bit km (fun bm =>
    if bm =? 0 then
      bind lbase <- lift (lit_base c (hnth hist 0) apos);
      let mb := if state_is_literal (c_state c) then None else Some (hnth hist (rep_as_usize (c_rep0 c))) in
      bind symbol <- lit_prog lbase mb;
      Ret (set_state c (state_update_literal (c_state c)), RLit (wrap8 symbol))
    else
      bind kr <- lift (key1 K_IS_REP 12 (c_state c));
      Bit kr (fun br =>
        bind cl <- (if br =? 0 then decode_match c pos_state else decode_rep_match c pos_state);
        Ret (fst cl, RCopy (rep_as_usize (c_rep0 (fst cl))) (snd cl)))).

(* how much of the history a match may reach into: min(length, dictionary) *)
Definition a_full (s : astate) : Z := Z.min (zlen (a_hist s)) (a_dict s).

(* produce up to n bytes; status Err = the stream asked for a distance outside the dictionary *)
Fixpoint aproduce (n : nat) (s : astate) : prog (astate * outcome unit) :=
  match n with
  | O => Ret (s, Ok tt)
  | S k =>
      if 0 <? a_pend_len s then
        aproduce k (mkAstate (a_coder s) (hnth (a_hist s) (a_pend_dist s) :: a_hist s) (a_dict s)
                             (a_pend_len s - 1) (a_pend_dist s))
      else
        bind r <- asym (a_coder s) (a_hist s);
        match snd r with
        | RLit b => aproduce k (mkAstate (fst r) (b :: a_hist s) (a_dict s) 0 (a_pend_dist s))
        | RCopy dist len =>
            if a_full s <=? dist then Ret (mkAstate (fst r) (a_hist s) (a_dict s) 0 (a_pend_dist s), Err E_OTHER)
            else if len <=? 0 then Fail (Panic 70)
            else aproduce k (mkAstate (fst r) (hnth (a_hist s) dist :: a_hist s) (a_dict s) (len - 1) dist)
        end
  end.
