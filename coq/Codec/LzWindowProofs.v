(* Codec/LzWindowProofs.v — the cyclic dictionary buffer refines a plain history list.
   [hist] is everything written since the last dictionary reset, newest byte first. *)
From LzVerif Require Import Base.Bytes Codec.Store Codec.LzWindow.
Ltac Zify.zify_post_hook ::= Z.div_mod_to_equations.

(* index of the byte at distance d behind the write position: the formula of get_byte / repeat *)
Definition widx (w : lzwin) (d : Z) : Z :=
  if w_pos w <=? d then w_size w + w_pos w - d - 1 else w_pos w - d - 1.

Definition hprev (hist : list Z) : Z := hnth hist 0.

Record Rel (w : lzwin) (hist : list Z) : Prop := mkRel {
  r_size : 0 < w_size w /\ w_size w mod 16 = 0;
  r_pos : 0 <= w_start w <= w_pos w /\ w_pos w <= w_size w;
  r_full : w_full w = Z.min (zlen hist) (w_size w) /\ w_pos w <= w_full w /\ (zlen hist < w_size w -> w_pos w = zlen hist);
  r_limit : w_limit w <= w_size w;
  r_mod : w_pos w mod 16 = zlen hist mod 16;
  r_cells : forall d, 0 <= d < w_full w -> bget w (widx w d) = hnth hist d;
  r_empty : zlen hist = 0 -> bget w (w_size w - 1) = 0;
  r_pending : 0 <= w_pending_len w
}.

Lemma zlen_cons {A} (x : A) l : zlen (x :: l) = zlen l + 1.
Proof. unfold zlen. cbn [length]. lia. Qed.

Lemma zlen_nonneg {A} (l : list A) : 0 <= zlen l.
Proof. unfold zlen. lia. Qed.

Lemma hnth_cons_0 x l : hnth (x :: l) 0 = x.
Proof. reflexivity. Qed.

Lemma hnth_cons_S x l d : 1 <= d -> hnth (x :: l) d = hnth l (d - 1).
Proof.
  intros H. unfold hnth, zth. destruct (Z.ltb_spec d 0); [lia|]. destruct (Z.ltb_spec (d - 1) 0); [lia|].
  replace (Z.to_nat d) with (S (Z.to_nat (d - 1))) by lia. reflexivity.
Qed.

(* get_byte agrees with the history for every distance inside the dictionary *)
Lemma get_byte_rel w hist d :
  Rel w hist -> 0 <= d < w_full w -> lzwin_get_byte w d = Ok (hnth hist d).
Proof.
  intros R Hd. destruct R as [[Hs _] [Hp Hp2] [Hf [Hpf Hnw]] _ _ Hc _ _].
  unfold lzwin_get_byte. fold (widx w d).
  assert (Hr : 0 <= widx w d < w_size w).
  { unfold widx. destruct (Z.leb_spec (w_pos w) d); lia. }
  destruct (Z.ltb_spec (widx w d) 0); [lia|]. destruct (Z.leb_spec (w_size w) (widx w d)); [lia|].
  cbn [orb]. rewrite Hc by assumption. reflexivity.
Qed.

(* the byte before the write position, 0 at the very start (buf[buf_size - 1] = 0) *)
Lemma get_prev_rel w hist :
  Rel w hist -> lzwin_get_byte w 0 = Ok (hprev hist).
Proof.
  intros R. destruct (Z.eq_dec (zlen hist) 0) as [He|Hne].
  - destruct R as [[Hs _] [Hp Hp2] [Hf [Hpf Hnw]] _ _ _ Hem _].
    assert (w_pos w = 0) by lia.
    unfold lzwin_get_byte. destruct (Z.leb_spec (w_pos w) 0); [|lia].
    replace (w_size w + w_pos w - 0 - 1) with (w_size w - 1) by lia.
    destruct (Z.ltb_spec (w_size w - 1) 0); [lia|]. destruct (Z.leb_spec (w_size w) (w_size w - 1)); [lia|].
    cbn [orb]. rewrite Hem by assumption.
    destruct hist; [reflexivity | rewrite zlen_cons in He; pose proof (zlen_nonneg hist); lia].
  - apply get_byte_rel; [assumption|]. destruct R as [[Hs _] _ [Hf [_ _]] _ _ _ _ _].
    pose proof (zlen_nonneg hist). lia.
Qed.

Lemma bget_aset_same w i x : bget (set_buf w (aset (w_buf w) i x)) i = x.
Proof. unfold bget, set_buf; cbn [w_buf]. apply agss. Qed.

(* put_byte appends to the history *)
Lemma put_byte_rel w hist b :
  Rel w hist -> w_pos w < w_size w ->
  exists w', lzwin_put_byte w b = Ok w' /\ Rel w' (b :: hist) /\
             w_start w' = w_start w /\ w_limit w' = w_limit w /\ w_pos w' = w_pos w + 1 /\
             w_size w' = w_size w /\ w_pending_len w' = w_pending_len w /\ w_pending_dist w' = w_pending_dist w.
Proof.
  intros R Hlt. destruct R as [[Hs Hs16] [Hp Hp2] [Hf [Hpf Hnw]] Hl Hm Hc Hem Hpe].
  unfold lzwin_put_byte.
  destruct (Z.ltb_spec (w_pos w) 0); [lia|]. destruct (Z.leb_spec (w_size w) (w_pos w)); [lia|]. cbn [orb].
  eexists. split; [reflexivity|]. split; [|cbn; repeat split; reflexivity].
  pose proof (zlen_nonneg hist) as Hz.
  constructor; cbn [w_size w_start w_pos w_full w_limit w_pending_len w_buf]; try rewrite zlen_cons.
  - split; assumption.
  - lia.
  - lia.
  - assumption.
  - lia.
  - intros d Hd. unfold widx, bget; cbn [w_pos w_size w_buf].
    destruct (Z.eq_dec d 0) as [->|Hd0].
    + destruct (Z.leb_spec (w_pos w + 1) 0); [lia|].
      replace (w_pos w + 1 - 0 - 1) with (w_pos w) by lia. rewrite agss. reflexivity.
    + rewrite hnth_cons_S by lia.
      assert (Hd' : 0 <= d - 1 < w_full w) by lia.
      specialize (Hc (d - 1) Hd'). unfold widx, bget in Hc.
      destruct (Z.leb_spec (w_pos w + 1) d); destruct (Z.leb_spec (w_pos w) (d - 1)); try lia.
      * rewrite agso by lia. replace (w_size w + (w_pos w + 1) - d - 1) with (w_size w + w_pos w - (d - 1) - 1) by lia.
        exact Hc.
      * rewrite agso by lia. replace (w_pos w + 1 - d - 1) with (w_pos w - (d - 1) - 1) by lia. exact Hc.
  - lia.
  - assumption.
Qed.

(* spec of a match copy on the history: each new byte repeats the one at distance dist *)
Fixpoint hcopy (hist : list Z) (dist : Z) (n : nat) : list Z :=
  match n with
  | O => hist
  | S k => hcopy (hnth hist dist :: hist) dist k
  end.

Lemma hcopy_length hist dist n : zlen (hcopy hist dist n) = zlen hist + Z.of_nat n.
Proof.
  revert hist; induction n as [|k IH]; intros hist; cbn [hcopy]; [lia|].
  rewrite IH, zlen_cons. lia.
Qed.

(* the copy loop of repeat(): n bytes, n <= room in the buffer *)
Lemma copy_match_rel n : forall w hist dist,
  Rel w hist -> 0 <= dist < w_full w -> w_pos w + Z.of_nat n <= w_size w ->
  let '(buf, pos) := copy_match (w_buf w) (w_size w) (w_pos w) dist n in
  pos = w_pos w + Z.of_nat n /\
  Rel (mkLzwin buf (w_size w) (w_start w) pos (Z.max (w_full w) pos) (w_limit w) (w_pending_len w) (w_pending_dist w))
      (hcopy hist dist n).
Proof.
  induction n as [|k IH]; intros w hist dist R Hd Hroom.
  - cbn [copy_match hcopy]. split; [lia|].
    destruct R as [A B [C1 [C2 C3]] D E F G H].
    replace (Z.max (w_full w) (w_pos w)) with (w_full w) by lia.
    destruct w; constructor; cbn in *; auto.
  - cbn [copy_match hcopy].
    assert (Hlt : w_pos w < w_size w) by lia.
    pose proof (get_byte_rel w hist dist R Hd) as Hg. unfold lzwin_get_byte in Hg.
    fold (widx w dist) in Hg.
    assert (Hsrc : aget 0 (w_buf w) (if w_pos w <=? dist then w_size w + w_pos w - dist - 1 else w_pos w - dist - 1) = hnth hist dist).
    { destruct R as [[Hs _] [Hp Hp2] [Hf [Hpf Hnw]] _ _ Hc _ _]. apply (Hc dist Hd). }
    rewrite Hsrc.
    destruct (put_byte_rel w hist (hnth hist dist) R Hlt) as (w' & Hput & R' & Hst & Hli & Hpo & Hsz & Hpl & Hpd).
    unfold lzwin_put_byte in Hput.
    destruct (Z.ltb_spec (w_pos w) 0); [destruct R as [_ [? ?] _ _ _ _ _ _]; lia|].
    destruct (Z.leb_spec (w_size w) (w_pos w)); [lia|]. cbn [orb] in Hput. inversion Hput as [Hw']; clear Hput.
    assert (Hd' : 0 <= dist < w_full w').
    { rewrite <- Hw'. cbn [w_full]. lia. }
    assert (Hroom' : w_pos w' + Z.of_nat k <= w_size w') by (rewrite Hpo, Hsz; lia).
    specialize (IH w' (hnth hist dist :: hist) dist R' Hd' Hroom').
    rewrite <- Hw' in IH. cbn [w_buf w_size w_pos w_start w_full w_limit w_pending_len w_pending_dist] in IH.
    destruct (copy_match (aset (w_buf w) (w_pos w) (hnth hist dist)) (w_size w) (w_pos w + 1) dist k) as [buf pos].
    destruct IH as [Hpos Hrel]. split; [lia|].
    replace (Z.max (Z.max (w_full w) (w_pos w + 1)) pos) with (Z.max (w_full w) pos) in Hrel by lia.
    exact Hrel.
Qed.

Lemma rev_firstn_S k : forall l, (S k <= length l)%nat ->
  rev (firstn (S k) l) = hnth l (Z.of_nat k) :: rev (firstn k l).
Proof.
  induction k as [|j IH]; intros l Hlen.
  - destruct l as [|x t]; [cbn in Hlen; lia|]. reflexivity.
  - destruct l as [|x t]; [cbn in Hlen; lia|]. cbn [length] in Hlen.
    change (firstn (S (S j)) (x :: t)) with (x :: firstn (S j) t).
    change (firstn (S j) (x :: t)) with (x :: firstn j t).
    cbn [rev]. rewrite (IH t) by lia.
    rewrite hnth_cons_S by lia. replace (Z.of_nat (S j) - 1) with (Z.of_nat j) by lia.
    reflexivity.
Qed.

(* reading the cells start..pos returns the newest pos-start bytes, oldest first *)
Lemma aget_list_rel n : forall w hist i,
  Rel w hist -> 0 <= i -> i + Z.of_nat n = w_pos w ->
  aget_list (w_buf w) i n = rev (firstn n hist).
Proof.
  induction n as [|k IH]; intros w hist i R Hi Hsum; [reflexivity|].
  cbn [aget_list].
  destruct R as [[Hs Hs16] [Hp Hp2] [Hf [Hpf Hnw]] Hl Hm Hc Hem Hpe].
  pose proof (zlen_nonneg hist) as Hz.
  assert (Hk : Z.of_nat (S k) <= zlen hist) by lia.
  (* cell i holds the byte at distance k *)
  assert (Hcell : aget 0 (w_buf w) i = hnth hist (Z.of_nat k)).
  { assert (Hd : 0 <= Z.of_nat k < w_full w) by lia.
    specialize (Hc _ Hd). unfold widx, bget in Hc.
    destruct (Z.leb_spec (w_pos w) (Z.of_nat k)); [lia|].
    replace (w_pos w - Z.of_nat k - 1) with i in Hc by lia. exact Hc. }
  (* the remaining cells: use the lemma on a window whose pos is unchanged: direct induction on lists instead *)
  rewrite Hcell.
  assert (Hrest : aget_list (w_buf w) (i + 1) k = rev (firstn k hist)).
  { apply (IH w hist (i + 1)); [constructor; auto | lia | lia]. }
  rewrite Hrest.
  rewrite rev_firstn_S; [reflexivity|]. unfold zlen in Hk. lia.
Qed.

(* the pending fields do not matter for the contents *)
Lemma Rel_set_pending w hist pl pd :
  Rel w hist -> 0 <= pl ->
  Rel (mkLzwin (w_buf w) (w_size w) (w_start w) (w_pos w) (w_full w) (w_limit w) pl pd) hist.
Proof.
  intros [A B C D E F G H] Hpl. constructor; cbn [w_buf w_size w_start w_pos w_full w_limit w_pending_len]; auto.
Qed.

(* repeat(dist, len): rejects a distance outside the dictionary, otherwise copies
   min(limit - pos, len) bytes and leaves the rest pending *)
Lemma repeat_err w hist dist len :
  Rel w hist -> w_full w <= dist -> lzwin_repeat w dist len = Err E_OTHER.
Proof. intros _ H. unfold lzwin_repeat. destruct (Z.leb_spec (w_full w) dist); [reflexivity | lia]. Qed.

Lemma repeat_rel w hist dist len :
  Rel w hist -> w_pos w <= w_limit w -> 0 <= dist < w_full w -> 0 <= len ->
  let m := Z.min (w_limit w - w_pos w) len in
  exists w', lzwin_repeat w dist len = Ok w' /\ Rel w' (hcopy hist dist (Z.to_nat m)) /\
             w_pending_len w' = len - m /\ w_pending_dist w' = dist /\
             w_start w' = w_start w /\ w_limit w' = w_limit w /\ w_size w' = w_size w /\
             w_pos w' = w_pos w + m.
Proof.
  intros R Hpl Hd Hlen m. unfold lzwin_repeat.
  destruct (Z.leb_spec (w_full w) dist); [lia|].
  destruct (Z.ltb_spec (w_limit w) (w_pos w)); [lia|].
  fold m.
  assert (Hm : 0 <= m) by (unfold m; lia).
  assert (Hroom : w_pos w + Z.of_nat (Z.to_nat m) <= w_size w).
  { destruct R as [_ _ _ Hl _ _ _ _]. unfold m. lia. }
  pose proof (copy_match_rel (Z.to_nat m) w hist dist R Hd Hroom) as Hc.
  destruct (copy_match (w_buf w) (w_size w) (w_pos w) dist (Z.to_nat m)) as [buf pos].
  destruct Hc as [Hpos Hrel].
  eexists. split; [reflexivity|].
  split.
  - apply (Rel_set_pending _ _ (len - m) dist) in Hrel; [|unfold m; lia].
    cbn [w_buf w_size w_start w_pos w_full w_limit] in Hrel. exact Hrel.
  - cbn [w_pending_len w_pending_dist w_start w_limit w_size w_pos]. repeat split; lia.
Qed.

(* set_limit keeps the contents *)
Lemma set_limit_rel w hist n : Rel w hist -> 0 <= n -> Rel (lzwin_set_limit w n) hist /\ w_pos w <= w_limit (lzwin_set_limit w n).
Proof.
  intros R Hn. destruct R as [A [B1 B2] C D E F G H]. unfold lzwin_set_limit.
  split; [constructor; cbn; auto; lia | cbn; lia].
Qed.

(* flush(): hands out the bytes produced since the last flush, oldest first *)
Lemma flush_rel w hist :
  Rel w hist ->
  let '(out, w') := lzwin_flush w in
  out = rev (firstn (Z.to_nat (w_pos w - w_start w)) hist) /\ Rel w' hist /\
  w_start w' = w_pos w' /\ w_size w' = w_size w /\ w_limit w' = w_limit w /\
  w_pending_len w' = w_pending_len w /\ w_pending_dist w' = w_pending_dist w.
Proof.
  intros R. unfold lzwin_flush.
  pose proof R as [[Hs Hs16] [[Hp0 Hp1] Hp2] [Hf [Hpf Hnw]] Hl Hm Hc Hem Hpe].
  split.
  - apply (aget_list_rel _ w hist (w_start w) R); lia.
  - split; [|cbn; repeat split; reflexivity].
    destruct (Z.eqb_spec (w_pos w) (w_size w)) as [Heq|Hne].
    + (* the write position wraps to the start of the buffer *)
      constructor; cbn [w_size w_start w_pos w_full w_limit w_pending_len w_buf].
      * split; assumption.
      * lia.
      * pose proof (zlen_nonneg hist). split; [assumption|]. split; [lia|]. intros Hlt. lia.
      * assumption.
      * rewrite <- Hm, Heq. rewrite Hs16. reflexivity.
      * intros d Hd. specialize (Hc d Hd). unfold widx, bget in *. cbn [w_pos w_size w_buf].
        destruct (Z.leb_spec 0 d); [|lia]. destruct (Z.leb_spec (w_pos w) d); [lia|].
        replace (w_size w + 0 - d - 1) with (w_pos w - d - 1) by lia. exact Hc.
      * intros Hz. apply Hem; assumption.
      * assumption.
    + constructor; cbn [w_size w_start w_pos w_full w_limit w_pending_len w_buf]; auto.
      * lia.
Qed.
