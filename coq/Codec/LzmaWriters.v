(* Codec/LzmaWriters.v — models of src/enc/lzma_writer.rs (header, end marker, finish) and of the
   chunk framing of src/enc/lzma2_writer.rs (write_chunk, write_lzma, write_uncompressed,
   start_independent_chunk), driven by the symbol/chunk event sequence the real encoder chose.
   Definitions only. *)
From LzVerif Require Export Codec.LzmaEnc.

Definition props_byte (lc lp pb : Z) : Z := wrap8 ((pb * 5 + lp) * 9 + lc).

Definition array_of_list (l : list Z) : ptree := aset_list PLeaf 0 l.

(* the part of a preset dictionary the encoder keeps: its last min(len, dict_size) bytes *)
Definition preset_kept (dict : Z) (preset : list Z) : list Z :=
  lastn (Z.to_nat (Z.min (zlen preset) dict)) preset.

Definition ehist_new (dict : Z) (preset data : list Z) : ehist :=
  let p := preset_kept dict preset in
  mkEhist (array_of_list (p ++ data)) (zlen p + zlen data) 0 (zlen p) dict.

Record encst := mkEncst { es_coder : coder; es_hist : ehist; es_rc : renc; es_probs : probs }.

Definition enc_step (s : encst) (x : sym) : outcome encst :=
  do r <- enc_symbol (es_coder s) (es_hist s) x;
  let '(evs, c1, h1) := r in
  let '(e1, t1) := renc_events (es_rc s) (es_probs s) evs in
  Ok (mkEncst c1 h1 e1 t1).

Fixpoint enc_steps (s : encst) (l : list sym) : outcome encst :=
  match l with
  | [] => Ok s
  | x :: r => do s1 <- enc_step s x; enc_steps s1 r
  end.

(* LZMAWriter: optional 13-byte header, the symbols, optional end marker, 5 flush bytes.
   [expected] = Some n writes n into the header, None writes u64::MAX. *)
Definition lzma1_write (lc lp pb dict : Z) (preset : list Z) (data : list Z) (syms : list sym)
           (use_header use_end_marker : bool) (expected : option Z) : outcome (list Z) :=
  let s0 := mkEncst (coder_new lc lp pb) (ehist_new dict preset data) renc_init PLeaf in
  do s1 <- enc_steps s0 syms;
  if negb (h_pos (es_hist s1) =? h_total (es_hist s1)) then Err V_BAD_TRACE else
  do s2 <- (if use_end_marker then enc_step s1 SEnd else Ok s1);
  let body := renc_bytes (renc_finish (es_rc s2)) in
  let header :=
    if use_header then
      props_byte lc lp pb :: le_bytes 4 dict ++ le_bytes 8 (match expected with Some n => n | None => 18446744073709551615 end)
    else [] in
  Ok (header ++ body).

(* ---------------------------------------------------------------------------------------------
   LZMA2 *)
Inductive l2ev : Type :=
| L2Sym (s : sym)
| L2Lzma (usize csize : Z)   (* write_lzma(uncompressed_size, compressed_size) *)
| L2Unc (usize : Z)          (* write_uncompressed(uncompressed_size) after lzma.reset() *)
| L2New.                     (* start_independent_chunk: fresh encoder *)

Record l2st := mkL2st {
  w_enc : encst;
  w_chunk_start : Z;            (* data position where the chunk being coded began *)
  w_dict_reset_needed : bool;
  w_state_reset_needed : bool;
  w_props_needed : bool;
  w_force_independent : bool;
  w_out : list Z                (* bytes written to the inner writer, reversed *)
}.

Definition l2_emit (out : list Z) (bytes : list Z) : list Z := rev_append bytes out.

(* write_uncompressed: 64 KiB pieces, the first one resets the dictionary if needed *)
Fixpoint l2_unc_chunks (fuel : nat) (h : ehist) (start size : Z) (dict_reset : bool) (out : list Z) : list Z :=
  match fuel with
  | O => out
  | S f =>
      if size <=? 0 then out else
      let n := Z.min size 65536 in
      let hdr := [if dict_reset then 1 else 2; wrap8 (Z.shiftr (n - 1) 8); wrap8 (n - 1)] in
      let body := aget_list (h_data h) start (Z.to_nat n) in
      l2_unc_chunks f h (start + n) (size - n) false (l2_emit (l2_emit out hdr) body)
  end.

Definition l2_step (lc lp pb : Z) (s : l2st) (ev : l2ev) : outcome l2st :=
  let e := w_enc s in
  match ev with
  | L2Sym x =>
      do e1 <- enc_step e x;
      Ok (mkL2st e1 (w_chunk_start s) (w_dict_reset_needed s) (w_state_reset_needed s) (w_props_needed s)
                 (w_force_independent s) (w_out s))
  | L2Lzma usize csize =>
      let body := renc_bytes (renc_finish (es_rc e)) in
      (* the sizes the real encoder reports must be the model's own *)
      if negb ((usize =? h_pos (es_hist e) - w_chunk_start s) && (csize =? zlen body)) then Err V_BAD_TRACE else
      if (usize <? 1) || (2097152 <? usize) || (csize <? 1) || (65536 <? csize) then Err V_BAD_TRACE else
      let control0 :=
        if w_props_needed s || w_force_independent s then
          (if w_dict_reset_needed s || w_force_independent s then 224 else 192)
        else if w_state_reset_needed s then 160 else 128 in
      let control := Z.lor control0 (Z.shiftr (usize - 1) 16) in
      let hdr5 := [wrap8 control; wrap8 (Z.shiftr (usize - 1) 8); wrap8 (usize - 1);
                   wrap8 (Z.shiftr (csize - 1) 8); wrap8 (csize - 1)] in
      let hdr := if w_props_needed s then hdr5 ++ [props_byte lc lp pb] else hdr5 in
      Ok (mkL2st (mkEncst (es_coder e) (es_hist e) renc_init (es_probs e)) (h_pos (es_hist e))
                 false false false false (l2_emit (l2_emit (w_out s) hdr) body))
  | L2Unc usize =>
      (* the symbols coded since the chunk began are dropped; lzma.reset(); raw bytes go out *)
      let h := es_hist e in
      let start := w_chunk_start s in
      if (usize <? 1) || (h_total h <? start + usize) || (start + usize <? h_pos h) then Err V_BAD_TRACE else
      let out := l2_unc_chunks (Z.to_nat (usize / 65536 + 2)) h start usize (w_dict_reset_needed s) (w_out s) in
      let h1 := mkEhist (h_data h) (h_total h) (h_base h) (start + usize) (h_dict h) in
      (* force_independent_chunk is cleared by the uncompressed chunk (fix d19b4c2; before it the
         flag survived and the next LZMA chunk reset the dictionary a second time) *)
      Ok (mkL2st (mkEncst (coder_reset (es_coder e)) h1 renc_init PLeaf) (start + usize)
                 false true (w_props_needed s) false out)
  | L2New =>
      let h := es_hist e in
      if negb (h_pos h =? w_chunk_start s) then Err V_BAD_TRACE else
      let h1 := mkEhist (h_data h) (h_total h) (h_pos h) (h_pos h) (h_dict h) in
      Ok (mkL2st (mkEncst (coder_new lc lp pb) h1 renc_init PLeaf) (h_pos h) true true true true (w_out s))
  end.

Fixpoint l2_steps (lc lp pb : Z) (s : l2st) (evs : list l2ev) : outcome l2st :=
  match evs with
  | [] => Ok s
  | ev :: r => do s1 <- l2_step lc lp pb s ev; l2_steps lc lp pb s1 r
  end.

(* LZMA2Writer::new .. finish *)
Definition lzma2_write (lc lp pb dict : Z) (preset : option (list Z)) (data : list Z) (evs : list l2ev)
  : outcome (list Z) :=
  let p := match preset with Some p => p | None => [] end in
  (* an empty preset dictionary counts as none (fix 14cc6e9 in /repo; before it Some [] suppressed
     the first dictionary reset while the reader insisted on one) *)
  let has_preset := match preset with Some (_ :: _) => true | _ => false end in
  let s0 := mkL2st (mkEncst (coder_new lc lp pb) (ehist_new dict p data) renc_init PLeaf)
                   (zlen (preset_kept dict p)) (negb has_preset) true true false [] in
  do s1 <- l2_steps lc lp pb s0 evs;
  let h := es_hist (w_enc s1) in
  if negb ((h_pos h =? h_total h) && (w_chunk_start s1 =? h_pos h)) then Err V_BAD_TRACE else
  Ok (frev (0 :: w_out s1)).
