(* Codec/LzmaRoundtrip.v — the specification decoder (LzmaAbs.v) reads back what the symbol
   encoder (LzmaEnc.v) wrote: symbol by symbol at the level of recorded decisions. *)
From LzVerif Require Import Base.Bytes Codec.Store Codec.Range Codec.LzWindow Codec.LzmaDec
  Codec.LzmaEnc Codec.LzmaAbs Codec.LzWindowProofs Codec.ProgProofs Codec.LzmaAbsProofs Codec.LzmaSymProofs.
Ltac Zify.zify_post_hook ::= Z.div_mod_to_equations.

(* the encoder's view of the data and the decoder's history describe the same bytes *)
Definition hist_rel (h : ehist) (hist : list Z) : Prop :=
  zlen hist = h_pos h - h_base h /\ 0 <= h_base h /\
  forall d, 0 <= d < zlen hist -> hnth hist d = hget h (h_pos h - 1 - d).

Lemma hnth_nil d : hnth [] d = 0.
Proof. unfold hnth, zth. destruct (d <? 0); [reflexivity|]. destruct (Z.to_nat d); reflexivity. Qed.

Lemma hist_rel_prev h hist : hist_rel h hist ->
  hnth hist 0 = (if zlen hist <=? 0 then 0 else hget h (h_pos h - 1)).
Proof.
  intros (Hl & Hb & Hc). destruct (Z.leb_spec (zlen hist) 0) as [Hle|Hgt].
  - destruct hist as [|x t]; [apply hnth_nil|]. rewrite zlen_cons in Hle. pose proof (zlen_nonneg t). lia.
  - rewrite Hc by lia. f_equal. lia.
Qed.

Lemma hist_rel_lit h hist b : hist_rel h hist -> hget h (h_pos h) = b -> hist_rel (h_advance h 1) (b :: hist).
Proof.
  intros (Hl & Hb & Hc) Hd. unfold hist_rel, h_advance; cbn [h_pos h_base]. rewrite zlen_cons.
  split; [lia|]. split; [assumption|]. intros d Hr. unfold hget in *; cbn [h_data].
  destruct (Z.eq_dec d 0) as [->|Hne].
  - rewrite hnth_cons_0. rewrite <- Hd. f_equal. lia.
  - rewrite hnth_cons_S by lia. rewrite Hc by lia. f_equal. lia.
Qed.

(* a validated copy extends the history exactly as hcopy does *)
Lemma hist_rel_copy n : forall h hist dist,
  hist_rel h hist -> 0 <= dist < zlen hist ->
  match_ok (h_data h) (h_pos h) (h_pos h - dist - 1) n = true ->
  hist_rel (h_advance h (Z.of_nat n)) (hcopy hist dist n).
Proof.
  induction n as [|k IH]; intros h hist dist Hr Hd Hm.
  - cbn [hcopy Z.of_nat]. destruct Hr as (Hl & Hb & Hc). unfold hist_rel, h_advance; cbn [h_pos h_base].
    split; [lia|]. split; [assumption|]. intros d Hdr. unfold hget in *; cbn [h_data]. rewrite Hc by lia. f_equal. lia.
  - cbn [match_ok] in Hm. apply andb_true_iff in Hm as [Hb1 Hrest]. apply Z.eqb_eq in Hb1.
    cbn [hcopy].
    assert (Hnew : hist_rel (h_advance h 1) (hnth hist dist :: hist)).
    { apply hist_rel_lit; [assumption|]. destruct Hr as (Hl & Hb & Hc). rewrite Hc by lia.
      unfold hget. rewrite Hb1. f_equal. lia. }
    specialize (IH (h_advance h 1) (hnth hist dist :: hist) dist Hnew).
    rewrite zlen_cons in IH. specialize (IH ltac:(lia)).
    assert (Hrest' : match_ok (h_data (h_advance h 1)) (h_pos (h_advance h 1)) (h_pos (h_advance h 1) - dist - 1) k = true).
    { unfold h_advance; cbn [h_data h_pos]. replace (h_pos h + 1 - dist - 1) with (h_pos h - dist - 1 + 1) by lia. exact Hrest. }
    specialize (IH Hrest').
    unfold h_advance in *; cbn [h_data h_total h_base h_pos h_dict] in *.
    replace (h_pos h + Z.of_nat (S k)) with (h_pos h + 1 + Z.of_nat k) by lia. exact IH.
Qed.

(* ---- one symbol ------------------------------------------------------------------------------ *)
Definition sym_res (c' : coder) (s : sym) : symres :=
  match s with
  | SLit b => RLit b
  | SMatch _ len => RCopy (rep_as_usize (c_rep0 c')) len
  | SRep _ len => RCopy (rep_as_usize (c_rep0 c')) len
  | SEnd => RCopy (rep_as_usize (c_rep0 c')) 2
  end.

Definition sym_len (s : sym) : Z :=
  match s with SLit _ => 1 | SMatch _ len => len | SRep _ len => len | SEnd => 0 end.

Lemma rep_as_usize_small r : 0 <= r < 2147483648 -> rep_as_usize r = r.
Proof. intros H. unfold rep_as_usize, P2_31. destruct (Z.ltb_spec r 2147483648); lia. Qed.

Definition data_ok (h : ehist) : Prop := forall i, 0 <= hget h i < 256.

Lemma obind_ok {A B} (x : outcome A) (f : A -> outcome B) b :
  obind x f = Ok b -> exists a, x = Ok a /\ f a = Ok b.
Proof. destruct x; cbn [obind]; intros H; try discriminate. eauto. Qed.

Lemma copy_valid_inv h dist len : copy_valid h dist len = true ->
  0 <= dist < h_pos h - h_base h /\ dist < h_dict h /\ h_pos h + len <= h_total h /\
  match_ok (h_data h) (h_pos h) (h_pos h - dist - 1) (Z.to_nat len) = true.
Proof.
  unfold copy_valid. intros H. repeat (apply andb_true_iff in H as [H ?]).
  apply Z.leb_le in H. repeat match goal with X : (_ <? _) = true |- _ => apply Z.ltb_lt in X | X : (_ <=? _) = true |- _ => apply Z.leb_le in X end.
  auto.
Qed.

Lemma enc_match_events_coder c ps dist len evs c' :
  enc_match_events c ps dist len = Ok (evs, c') ->
  c' = mkCoder (state_update_match (c_state c)) dist (c_rep0 c) (c_rep1 c) (c_rep2 c) (c_lc c) (c_lp c) (c_pb c).
Proof.
  unfold enc_match_events. intros H.
  apply obind_ok in H as (elen & _ & H). apply obind_ok in H as (dsk & _ & H).
  apply Ok_inj in H. apply pair_inj in H as [_ <-]. reflexivity.
Qed.

Lemma enc_rep_events_reps c ps idx len evs c' :
  reps_nonneg c -> enc_rep_events c ps idx len = Ok (evs, c') -> reps_nonneg c'.
Proof.
  intros (H0 & H1 & H2 & H3). unfold enc_rep_events. intros H.
  apply obind_ok in H as (k0 & _ & H).
  destruct (idx =? 0).
  - apply obind_ok in H as (k0l & _ & H). destruct (len =? 1).
    + apply Ok_inj in H. apply pair_inj in H as [_ <-]. unfold reps_nonneg, set_state; cbn. auto.
    + apply obind_ok in H as (elen & _ & H). apply Ok_inj in H. apply pair_inj in H as [_ <-].
      unfold reps_nonneg, set_state; cbn. auto.
  - destruct ((idx <? 0) || (3 <? idx) || (len =? 1)); [discriminate|].
    apply obind_ok in H as (k1 & _ & H). apply obind_ok in H as (k2 & _ & H).
    destruct (idx =? 1); [|destruct (idx =? 2)];
      apply obind_ok in H as (elen & _ & H); apply Ok_inj in H; apply pair_inj in H as [_ <-];
      unfold reps_nonneg, set_state, set_reps; cbn; auto.
Qed.

Theorem sym_abs_step c h hist s evs c' h' rest :
  hist_rel h hist -> h_dict h <= 2147483648 -> data_ok h -> reps_nonneg c ->
  enc_symbol c h s = Ok (evs, c', h') ->
  run_trace (asym c hist) (evs ++ rest) = Some (Ok (c', sym_res c' s), rest) /\
  reps_nonneg c' /\
  match s with
  | SLit b => hist_rel h' (b :: hist) /\ h_pos h' = h_pos h + 1
  | SEnd => h' = h /\ c_rep0 c' = 4294967295
  | _ => 0 <= rep_as_usize (c_rep0 c') < Z.min (zlen hist) (h_dict h) /\ 1 <= sym_len s <= 273 /\
         hist_rel h' (hcopy hist (rep_as_usize (c_rep0 c')) (Z.to_nat (sym_len s))) /\ h_pos h' = h_pos h + sym_len s
  end /\
  h_base h' = h_base h /\ h_dict h' = h_dict h /\ h_total h' = h_total h /\ h_data h' = h_data h /\
  (s <> SEnd -> h_pos h' <= h_total h).
Proof.
  intros Hr Hdict Hdata Hreps He.
  pose proof Hr as (Hl & Hb & Hcells). pose proof Hreps as (Hn0 & Hn1 & Hn2 & Hn3).
  unfold enc_symbol in He. rewrite <- Hl in He.
  apply obind_ok in He as (km & Hkm & He).
  apply key2_inv in Hkm as (Hst & Hps & ->).
  unfold asym. rewrite (key2_ok K_IS_MATCH 12 16 (c_state c) (pos_state_of c (zlen hist))) by assumption.
  rewrite run_trace_bind_lift_ok.
  destruct s as [b|dist len|idx len|].
  - (* literal *)
    destruct ((h_pos h <? h_total h) && (hget h (h_pos h) =? b)) eqn:Ev; cbn [negb] in He; [|discriminate].
    apply andb_true_iff in Ev as [Hpt Hb']. apply Z.eqb_eq in Hb'. apply Z.ltb_lt in Hpt.
    apply obind_ok in He as (lbase & Hlb & He).
    apply obind_ok in He as (mb & Hmb & He).
    apply Ok_inj in He. apply pair_inj in He as [He <-]. apply pair_inj in He as [<- <-].
    cbn [app]. rewrite run_trace_bit by (left; reflexivity). change (0 =? 0) with true. cbv iota.
    rewrite <- (hist_rel_prev h hist Hr) in Hlb. rewrite Hlb. rewrite run_trace_bind_lift_ok.
    assert (Hbr : 0 <= b < 256) by (rewrite <- Hb'; apply Hdata).
    assert (Hmbeq : mb = (if state_is_literal (c_state c) then None else Some (hnth hist (rep_as_usize (c_rep0 c)))) /\
                    (mb = None \/ exists m, mb = Some m /\ 0 <= m < 256)).
    { destruct (state_is_literal (c_state c)).
      - apply Ok_inj in Hmb. subst mb. split; [reflexivity | left; reflexivity].
      - destruct ((c_rep0 c <? zlen hist) && (c_rep0 c <? h_dict h)) eqn:Er; cbn [negb] in Hmb; [|discriminate].
        apply andb_true_iff in Er as [Er1 Er2]. apply Z.ltb_lt in Er1, Er2.
        apply Ok_inj in Hmb. subst mb.
        rewrite rep_as_usize_small by lia. rewrite Hcells by lia.
        replace (h_pos h - 1 - c_rep0 c) with (h_pos h - c_rep0 c - 1) by lia. split; [reflexivity|].
        right. eexists. split; [reflexivity | apply Hdata]. }
    destruct Hmbeq as (-> & Hmbr).
    rewrite (run_trace_seq _ _ _ rest (256 + b)).
    2:{ intros r. apply lit_roundtrip_strong; assumption. }
    rewrite run_trace_ret.
    replace (wrap8 (256 + b)) with b by (unfold wrap8; lia).
    split; [reflexivity|]. split; [unfold reps_nonneg, set_state; cbn; auto|].
    split; [split; [apply hist_rel_lit; assumption | reflexivity]|].
    unfold h_advance; cbn. repeat split; auto; intros _; lia.
  - (* match *)
    destruct ((2 <=? len) && (len <=? 273) && copy_valid h dist len) eqn:Ev; cbn [negb] in He; [|discriminate].
    apply andb_true_iff in Ev as [Ev Hcv]. apply andb_true_iff in Ev as [Hl1 Hl2]. apply Z.leb_le in Hl1, Hl2.
    apply copy_valid_inv in Hcv as (Hd & Hdd & Htot & Hmo).
    apply obind_ok in He as (kr & Hkr & He). apply key1_inv in Hkr as (_ & ->).
    apply obind_ok in He as ([ev1 c1] & Hec & He).
    apply Ok_inj in He. apply pair_inj in He as [He <-]. apply pair_inj in He as [<- <-]. cbn [fst snd].
    pose proof (enc_match_events_coder _ _ _ _ _ _ Hec) as Hc1.
    cbn [app]. rewrite run_trace_bit by (right; reflexivity). change (1 =? 0) with false. cbv iota.
    rewrite (key1_ok K_IS_REP 12 (c_state c)) by assumption. rewrite run_trace_bind_lift_ok.
    rewrite run_trace_bit by (left; reflexivity). change (0 =? 0) with true. cbv iota.
    rewrite (run_trace_seq _ _ _ rest (c1, len)).
    2:{ intros r. eapply match_roundtrip; [| | |exact Hec]; lia. }
    rewrite run_trace_ret. cbn [fst snd sym_res].
    assert (Hr0 : c_rep0 c1 = dist) by (rewrite Hc1; reflexivity).
    rewrite Hr0, rep_as_usize_small by lia.
    split; [reflexivity|]. split; [rewrite Hc1; unfold reps_nonneg; cbn; repeat split; lia|].
    split.
    + cbn [sym_len]. split; [lia|]. split; [lia|]. split; [|unfold h_advance; cbn; reflexivity].
      rewrite <- (Z2Nat.id len) at 1 by lia. apply hist_rel_copy; [assumption | lia | assumption].
    + unfold h_advance; cbn. repeat split; auto; intros _; lia.
  - (* rep *)
    apply obind_ok in He as (kr & Hkr & He). apply key1_inv in Hkr as (_ & ->).
    apply obind_ok in He as ([ev1 c1] & Hec & He). cbn [fst snd] in He.
    destruct ((1 <=? len) && (len <=? 273) && copy_valid h (c_rep0 c1) len) eqn:Ev; cbn [negb] in He; [|discriminate].
    apply andb_true_iff in Ev as [Ev Hcv]. apply andb_true_iff in Ev as [Hl1 Hl2]. apply Z.leb_le in Hl1, Hl2.
    apply copy_valid_inv in Hcv as (Hd & Hdd & Htot & Hmo).
    apply Ok_inj in He. apply pair_inj in He as [He <-]. apply pair_inj in He as [<- <-].
    cbn [app]. rewrite run_trace_bit by (right; reflexivity). change (1 =? 0) with false. cbv iota.
    rewrite (key1_ok K_IS_REP 12 (c_state c)) by assumption. rewrite run_trace_bind_lift_ok.
    rewrite run_trace_bit by (right; reflexivity). change (1 =? 0) with false. cbv iota.
    rewrite (run_trace_seq _ _ _ rest (c1, len)).
    2:{ intros r. eapply rep_roundtrip_of_ok. exact Hec. }
    rewrite run_trace_ret. cbn [fst snd sym_res].
    rewrite rep_as_usize_small by lia.
    split; [reflexivity|]. split; [eapply enc_rep_events_reps; eassumption|].
    split.
    + cbn [sym_len]. split; [lia|]. split; [lia|]. split; [|unfold h_advance; cbn; reflexivity].
      rewrite <- (Z2Nat.id len) at 1 by lia. apply hist_rel_copy; [assumption | lia | assumption].
    + unfold h_advance; cbn. repeat split; auto; intros _; lia.
  - (* end marker *)
    apply obind_ok in He as (kr & Hkr & He). apply key1_inv in Hkr as (_ & ->).
    apply obind_ok in He as ([ev1 c1] & Hec & He).
    apply Ok_inj in He. apply pair_inj in He as [He <-]. apply pair_inj in He as [<- <-]. cbn [fst snd].
    pose proof (enc_match_events_coder _ _ _ _ _ _ Hec) as Hc1.
    cbn [app]. rewrite run_trace_bit by (right; reflexivity). change (1 =? 0) with false. cbv iota.
    rewrite (key1_ok K_IS_REP 12 (c_state c)) by assumption. rewrite run_trace_bind_lift_ok.
    rewrite run_trace_bit by (left; reflexivity). change (0 =? 0) with true. cbv iota.
    rewrite (run_trace_seq _ _ _ rest (c1, 2)).
    2:{ intros r. eapply end_marker_roundtrip; [|exact Hec]. assumption. }
    rewrite run_trace_ret. cbn [fst snd sym_res].
    split; [reflexivity|]. split; [rewrite Hc1; unfold reps_nonneg; cbn; repeat split; lia|].
    split; [split; [reflexivity | rewrite Hc1; reflexivity]|]. repeat split; auto. intros X; congruence.
Qed.

(* ---- a whole symbol list ------------------------------------------------------------------- *)
Fixpoint enc_syms (c : coder) (h : ehist) (l : list sym) : outcome (list event * coder * ehist) :=
  match l with
  | [] => Ok ([], c, h)
  | s :: r =>
      do x <- enc_symbol c h s;
      do y <- enc_syms (snd (fst x)) (snd x) r;
      Ok (fst (fst x) ++ fst (fst y), snd (fst y), snd y)
  end.

Definition no_end (l : list sym) : Prop := forall s, In s l -> s <> SEnd.

Lemma enc_symbol_mono c h s evs c' h' : enc_symbol c h s = Ok (evs, c', h') -> h_pos h <= h_pos h'.
Proof.
  intros Hsa. unfold enc_symbol in Hsa. apply obind_ok in Hsa as (km & _ & Hsa).
  destruct s as [b|dist len|idx len|].
  - destruct (negb _); [discriminate|]. apply obind_ok in Hsa as (? & _ & Hsa). apply obind_ok in Hsa as (? & _ & Hsa).
    apply Ok_inj in Hsa. apply pair_inj in Hsa as [_ <-]. cbn. lia.
  - destruct ((2 <=? len) && (len <=? 273) && copy_valid h dist len) eqn:E; cbn [negb] in Hsa; [|discriminate].
    apply andb_true_iff in E as [E _]. apply andb_true_iff in E as [E _]. apply Z.leb_le in E.
    apply obind_ok in Hsa as (? & _ & Hsa). apply obind_ok in Hsa as (? & _ & Hsa).
    apply Ok_inj in Hsa. apply pair_inj in Hsa as [_ <-]. cbn. lia.
  - apply obind_ok in Hsa as (? & _ & Hsa). apply obind_ok in Hsa as (ec & _ & Hsa).
    destruct ((1 <=? len) && (len <=? 273) && copy_valid h (c_rep0 (snd ec)) len) eqn:E; cbn [negb] in Hsa; [|discriminate].
    apply andb_true_iff in E as [E _]. apply andb_true_iff in E as [E _]. apply Z.leb_le in E.
    apply Ok_inj in Hsa. apply pair_inj in Hsa as [_ <-]. cbn. lia.
  - apply obind_ok in Hsa as (? & _ & Hsa). apply obind_ok in Hsa as (? & _ & Hsa).
    apply Ok_inj in Hsa. apply pair_inj in Hsa as [_ <-]. lia.
Qed.

Lemma enc_syms_mono r : forall c h evs c' h', enc_syms c h r = Ok (evs, c', h') -> h_pos h <= h_pos h'.
Proof.
  induction r as [|s r IH]; intros c h evs c' h' H; cbn [enc_syms] in H.
  - apply Ok_inj in H. apply pair_inj in H as [_ <-]. lia.
  - apply obind_ok in H as ([[ea ca] ha] & Hsa & H). cbn [fst snd] in H.
    apply obind_ok in H as ([[eb cb] hb] & Hsb & H). cbn [fst snd] in H.
    apply Ok_inj in H. apply pair_inj in H as [_ <-].
    pose proof (enc_symbol_mono _ _ _ _ _ _ Hsa). pose proof (IH _ _ _ _ _ Hsb). lia.
Qed.

Theorem aproduce_syms : forall syms c h hist dict pd n evs c' h' rest,
  no_end syms -> hist_rel h hist -> h_dict h <= 2147483648 ->
  (h_dict h <= dict \/ h_total h - h_base h <= dict) -> data_ok h -> reps_nonneg c ->
  enc_syms c h syms = Ok (evs, c', h') ->
  Z.of_nat n = h_pos h' - h_pos h ->
  exists hist' pd',
    run_trace (aproduce n (mkAstate c hist dict 0 pd)) (evs ++ rest)
      = Some (Ok (mkAstate c' hist' dict 0 pd', Ok tt), rest) /\
    hist_rel h' hist' /\ reps_nonneg c' /\
    h_base h' = h_base h /\ h_dict h' = h_dict h /\ h_total h' = h_total h /\ h_data h' = h_data h.
Proof.
  induction syms as [|s r IH]; intros c h hist dict pd n evs c' h' rest Hne Hr Hd Hdd Hdata Hreps He Hn.
  - cbn [enc_syms] in He. apply Ok_inj in He. apply pair_inj in He as [He <-]. apply pair_inj in He as [<- <-].
    assert (n = 0%nat) by lia. subst n. cbn [aproduce app]. rewrite run_trace_ret.
    exists hist, pd. split; [reflexivity|]. split; [exact Hr|]. split; [exact Hreps|]. auto.
  - cbn [enc_syms] in He.
    apply obind_ok in He as ([[e1 c1] h1] & Hs & He). cbn [fst snd] in He.
    apply obind_ok in He as ([[e2 c2] h2] & Hrs & He). cbn [fst snd] in He.
    apply Ok_inj in He. apply pair_inj in He as [He <-]. apply pair_inj in He as [<- <-].
    assert (Hs_ne : s <> SEnd) by (apply Hne; left; reflexivity).
    assert (Hne' : no_end r) by (intros x Hx; apply Hne; right; assumption).
    destruct (sym_abs_step c h hist s e1 c1 h1 (e2 ++ rest) Hr Hd Hdata Hreps Hs)
      as (Htr & Hreps1 & Hshape & Hb1 & Hd1 & Ht1 & Hda1 & Hpt1).
    specialize (Hpt1 Hs_ne).
    assert (Hdd1 : h_dict h1 <= dict \/ h_total h1 - h_base h1 <= dict) by (rewrite Hd1, Ht1, Hb1; exact Hdd).
    assert (Hdata1 : data_ok h1) by (intros i; unfold hget; rewrite Hda1; apply Hdata).
    rewrite <- app_assoc.
    (* how far the rest advances *)
    pose proof (enc_syms_mono _ _ _ _ _ _ Hrs) as Hmono.
    assert (Hadv : exists k, n = S k).
    { destruct n as [|k]; [|eauto]. exfalso.
      destruct s as [b|dist len|idx len|]; try congruence; cbn [sym_len] in Hshape; lia. }
    destruct Hadv as (k & ->).
    cbn [aproduce a_pend_len a_coder a_hist a_dict a_pend_dist]. change (0 <? 0) with false. cbv iota.
    rewrite (run_trace_bind_ok _ _ _ _ _ Htr). cbn [fst snd].
    destruct s as [b|dist len|idx len|]; try congruence; cbn [sym_res].
    + (* literal *)
      destruct Hshape as (Hr1 & Hp1).
      destruct (IH c1 h1 (b :: hist) dict pd k e2 c2 h2 rest Hne' Hr1) as (hist' & pd' & Hrun & Hr2 & Hreps2 & Hb2 & Hd2 & Ht2 & Hda2);
        try assumption; try lia.
      exists hist', pd'. rewrite Hrun. split; [reflexivity|]. split; [exact Hr2|]. split; [exact Hreps2|]. repeat split; congruence.
    + (* match *)
      destruct Hshape as (Hdist & Hlen & Hr1 & Hp1). cbn [sym_len] in *.
      set (d := rep_as_usize (c_rep0 c1)) in *.
      unfold a_full; cbn [a_hist a_dict].
      destruct (Z.leb_spec (Z.min (zlen hist) dict) d); [destruct Hr as (Hzl & _); lia|].
      destruct (Z.leb_spec len 0); [lia|].
      rewrite (aproduce_pending (Z.to_nat (len - 1)) k) by (cbn [a_pend_len]; lia).
      cbn [a_coder a_hist a_dict a_pend_len a_pend_dist].
      replace (len - 1 - Z.of_nat (Z.to_nat (len - 1))) with 0 by lia.
      assert (Hh : hcopy (hnth hist d :: hist) d (Z.to_nat (len - 1)) = hcopy hist d (Z.to_nat len)).
      { replace (Z.to_nat len) with (S (Z.to_nat (len - 1))) by lia. reflexivity. }
      rewrite Hh.
      destruct (IH c1 h1 (hcopy hist d (Z.to_nat len)) dict d (k - Z.to_nat (len - 1))%nat e2 c2 h2 rest Hne' Hr1)
        as (hist' & pd' & Hrun & Hr2 & Hreps2 & Hb2 & Hd2 & Ht2 & Hda2); try assumption; try lia.
      exists hist', pd'. rewrite Hrun. split; [reflexivity|]. split; [exact Hr2|]. split; [exact Hreps2|]. repeat split; congruence.
    + (* rep *)
      destruct Hshape as (Hdist & Hlen & Hr1 & Hp1). cbn [sym_len] in *.
      set (d := rep_as_usize (c_rep0 c1)) in *.
      unfold a_full; cbn [a_hist a_dict].
      destruct (Z.leb_spec (Z.min (zlen hist) dict) d); [destruct Hr as (Hzl & _); lia|].
      destruct (Z.leb_spec len 0); [lia|].
      rewrite (aproduce_pending (Z.to_nat (len - 1)) k) by (cbn [a_pend_len]; lia).
      cbn [a_coder a_hist a_dict a_pend_len a_pend_dist].
      replace (len - 1 - Z.of_nat (Z.to_nat (len - 1))) with 0 by lia.
      assert (Hh : hcopy (hnth hist d :: hist) d (Z.to_nat (len - 1)) = hcopy hist d (Z.to_nat len)).
      { replace (Z.to_nat len) with (S (Z.to_nat (len - 1))) by lia. reflexivity. }
      rewrite Hh.
      destruct (IH c1 h1 (hcopy hist d (Z.to_nat len)) dict d (k - Z.to_nat (len - 1))%nat e2 c2 h2 rest Hne' Hr1)
        as (hist' & pd' & Hrun & Hr2 & Hreps2 & Hb2 & Hd2 & Ht2 & Hda2); try assumption; try lia.
      exists hist', pd'. rewrite Hrun. split; [reflexivity|]. split; [exact Hr2|]. split; [exact Hreps2|]. repeat split; congruence.
Qed.
