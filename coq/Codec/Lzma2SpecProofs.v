(* Codec/Lzma2SpecProofs.v — the LZMA2 container at specification level: a stream is a sequence
   of chunks, each described by what the READER must hold when it starts (reset level), by the
   position in the data, and by the bytes of the chunk.  [chunks_ok] is the meeting point of
     - Lzma2FrameSyncProofs.v: whatever the writer model accepts and writes is such a sequence;
     - Lzma2ReadProofs.v: the reader model decodes any such sequence for any buffer sizes.
   Definitions and small list facts only. *)
From LzVerif Require Import Base.Bytes Codec.Store Codec.Range Codec.ProbProofs Codec.LzWindow Codec.LzmaDec
  Codec.LzmaEnc Codec.LzmaAbs Codec.LzWindowProofs Codec.ProgProofs Codec.LzmaAbsProofs
  Codec.RangeEncProofs Codec.RangeProofs Codec.LzmaSymProofs Codec.LzmaRoundtrip Codec.LzmaWriters.
Ltac Zify.zify_post_hook ::= Z.div_mod_to_equations.

(* What has to be reset before the next LZMA chunk can be coded.  The four flags of the writer
   (dict_reset_needed <= props_needed <= state_reset_needed, force_independent) only occur in
   these combinations.  [RNone c t]: nothing; the coder state and the probabilities carry over. *)
Inductive rlevel : Type :=
| RNone (c : coder) (t : probs)
| RState          (* control 0xA0: state reset *)
| RProps          (* control 0xC0: state reset + new properties *)
| RDict.          (* control 0xE0 / 0x01: dictionary reset (+ state + properties) *)

Definition h_at (h : ehist) (p : Z) : ehist := mkEhist (h_data h) (h_total h) (h_base h) p (h_dict h).
Definition h_rebase (h : ehist) : ehist := mkEhist (h_data h) (h_total h) (h_pos h) (h_pos h) (h_dict h).

Definition after_unc (r : rlevel) : rlevel :=
  match r with RDict => RProps | RProps => RProps | _ => RState end.
Definition unc_ctl (r : rlevel) : Z := match r with RDict => 1 | _ => 2 end.
Definition lzma_ctl0 (r : rlevel) : Z :=
  match r with RNone _ _ => 128 | RState => 160 | RProps => 192 | RDict => 224 end.
Definition has_props (r : rlevel) : bool := match r with RProps | RDict => true | _ => false end.
Definition start_coder (lc lp pb : Z) (r : rlevel) : coder :=
  match r with RNone c _ => c | _ => coder_new lc lp pb end.
Definition start_probs (r : rlevel) : probs := match r with RNone _ t => t | _ => PLeaf end.

Definition unc_header (r : rlevel) (n : Z) : list Z :=
  [unc_ctl r; wrap8 (Z.shiftr (n - 1) 8); wrap8 (n - 1)].
Definition lzma_header (lc lp pb : Z) (r : rlevel) (usize csize : Z) : list Z :=
  [wrap8 (Z.lor (lzma_ctl0 r) (Z.shiftr (usize - 1) 16));
   wrap8 (Z.shiftr (usize - 1) 8); wrap8 (usize - 1);
   wrap8 (Z.shiftr (csize - 1) 8); wrap8 (csize - 1)]
  ++ (if has_props r then [props_byte lc lp pb] else []).

(* the payload of an LZMA chunk: the range coder's complete output for the chunk's decisions *)
Definition chunk_body (t0 : probs) (E : list event) : list Z :=
  renc_bytes (renc_finish (fst (renc_events renc_init t0 E))).

Definition coder_params (c : coder) (lc lp pb : Z) : Prop := c_lc c = lc /\ c_lp c = lp /\ c_pb c = pb.

(* [chunks_ok r h bytes]: [bytes] is a complete LZMA2 stream tail (ending with the 0x00 control
   byte) for the data from position [h_pos h] to the end, for a reader at reset level [r]. *)
Inductive chunks_ok (lc lp pb : Z) : rlevel -> ehist -> list Z -> Prop :=
| ck_end r h :
    h_pos h = h_total h -> chunks_ok lc lp pb r h [0]
| ck_new r h bytes :                        (* start_independent_chunk: nothing is written *)
    chunks_ok lc lp pb RDict (h_rebase h) bytes -> chunks_ok lc lp pb r h bytes
| ck_unc r h n bytes :                      (* one stored chunk of n <= 64 KiB bytes *)
    1 <= n <= 65536 -> h_pos h + n <= h_total h ->
    chunks_ok lc lp pb (after_unc r) (h_at h (h_pos h + n)) bytes ->
    chunks_ok lc lp pb r h (unc_header r n ++ aget_list (h_data h) (h_pos h) (Z.to_nat n) ++ bytes)
| ck_lzma r h syms E c' h' usize csize bytes :
    no_end syms ->
    enc_syms (start_coder lc lp pb r) h syms = Ok (E, c', h') ->
    coder_params c' lc lp pb ->
    events_bits E <= RC_MAX_BITS ->
    usize = h_pos h' - h_pos h -> 1 <= usize <= 2097152 ->
    csize = zlen (chunk_body (start_probs r) E) -> 1 <= csize <= 65536 ->
    chunks_ok lc lp pb (RNone c' (snd (renc_events renc_init (start_probs r) E))) h' bytes ->
    chunks_ok lc lp pb r h
      (lzma_header lc lp pb r usize csize ++ chunk_body (start_probs r) E ++ bytes).

(* the data from the current position to the end *)
Definition data_from (h : ehist) : list Z := aget_list (h_data h) (h_pos h) (Z.to_nat (h_total h - h_pos h)).

(* ---- list facts about aget_list ------------------------------------------------------------- *)
Lemma aget_list_length t n : forall i, length (aget_list t i n) = n.
Proof. induction n as [|k IH]; intros i; cbn [aget_list length]; [reflexivity | rewrite IH; reflexivity]. Qed.

Lemma aget_list_app t a : forall b i,
  aget_list t i (a + b) = aget_list t i a ++ aget_list t (i + Z.of_nat a) b.
Proof.
  induction a as [|k IH]; intros b i.
  - cbn [Nat.add aget_list app]. f_equal. lia.
  - cbn [Nat.add aget_list app]. rewrite IH. do 3 f_equal. lia.
Qed.

Lemma aget_list_split t i n k : 0 <= k <= n ->
  aget_list t i (Z.to_nat n) = aget_list t i (Z.to_nat k) ++ aget_list t (i + k) (Z.to_nat (n - k)).
Proof.
  intros H. replace (Z.to_nat n) with (Z.to_nat k + Z.to_nat (n - k))%nat by lia.
  rewrite aget_list_app. do 2 f_equal. lia.
Qed.

Lemma zlen_app {A} (a b : list A) : zlen (a ++ b) = zlen a + zlen b.
Proof. unfold zlen. rewrite app_length. lia. Qed.

Lemma zlen_aget_list t i n : zlen (aget_list t i n) = Z.of_nat n.
Proof. unfold zlen. rewrite aget_list_length. reflexivity. Qed.

Lemma firstn_app_exact {A} (a b : list A) n : n = length a -> firstn n (a ++ b) = a.
Proof. intros ->. rewrite firstn_app, Nat.sub_diag, firstn_all. cbn [firstn]. apply app_nil_r. Qed.

Lemma skipn_app_exact {A} (a b : list A) n : n = length a -> skipn n (a ++ b) = b.
Proof. intros ->. rewrite skipn_app, Nat.sub_diag, skipn_all. reflexivity. Qed.
