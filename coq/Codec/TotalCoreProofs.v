(* Codec/TotalCoreProofs.v — what the totality proofs of the two readers (Total1Proofs.v: LZMAReader,
   Total2Proofs.v: LZMA2Reader) share.
   (1) A potential of the range decoder that every decoded bit lowers as long as no byte is fetched
       past the end of the source: 400 * (bytes left) + lev(range), lev = how many bits the range can
       still take before a normalisation must fetch a byte (each bit multiplies the range by at most
       2017/2048, so at most 364 of them between two fetches).  Hence: bits decoded <= 400 * (bytes
       consumed + 1).
   (2) Bit counting for decision programs ([pbits]) and the cost of one LZMA symbol: a symbol that
       produces len bytes costs at least len / 20 bits (273 bytes: at least 14 bits).
   (3) lzma_decode_post: LZMADecoder::decode from a consistent state over ANY input returns, and
       everything the readers' invariants need holds again afterwards (window relation, byte
       history, coder, pending copy, tables, registers, progress, potential).
   (4) A generic read-history loop and its termination bound (both readers' read_all are instances).
   Proofs only (the definitions here are proof devices, not models of code). *)
From LzVerif Require Import Base.Bytes Codec.Store Codec.Range Codec.ProbProofs Codec.RangeArithProofs
  Codec.LzWindow Codec.LzmaDec Codec.LzmaAbs Codec.LzWindowProofs Codec.ProgProofs Codec.LzmaAbsProofs
  Codec.RangeNoWrapProofs Codec.LzmaReadProofs Codec.LzmaTotalProofs Codec.TruncProofs.
Ltac Zify.zify_post_hook ::= Z.div_mod_to_equations.

(* ---------------------------------------------------------------------------------------------
   (1) the potential of the range decoder *)
Definition gstep (r : Z) : Z := r * 2017 / 2048 + 31.

Fixpoint lev_aux (f : nat) (r : Z) : Z :=
  match f with
  | O => 0
  | S k => if r <? P2_24 then 0 else 1 + lev_aux k (gstep r)
  end.

Definition LEVF : nat := 400.
Definition lev (r : Z) : Z := lev_aux LEVF r.
Definition MU_BYTE : Z := 400.
Definition mu (d : rdec) : Z := MU_BYTE * zlen (rd_in d) + lev (rd_range d).

Lemma lev_aux_S k r : lev_aux (S k) r = if r <? P2_24 then 0 else 1 + lev_aux k (gstep r).
Proof. reflexivity. Qed.

Lemma lev_aux_range f : forall r, 0 <= lev_aux f r <= Z.of_nat f.
Proof.
  induction f as [|k IH]; intros r; cbn [lev_aux]; [lia|].
  destruct (r <? P2_24); [lia|]. specialize (IH (gstep r)). lia.
Qed.

Lemma gstep_mono r r' : r' <= r -> gstep r' <= gstep r.
Proof. intros H. unfold gstep. lia. Qed.

Lemma lev_aux_mono f : forall r r', r' <= r -> lev_aux f r' <= lev_aux f r.
Proof.
  induction f as [|k IH]; intros r r' H; cbn [lev_aux]; [lia|].
  destruct (Z.ltb_spec r' P2_24) as [Hs'|Hb']; destruct (Z.ltb_spec r P2_24) as [Hs|Hb].
  - lia.
  - pose proof (lev_aux_range k (gstep r)). lia.
  - lia.
  - specialize (IH _ _ (gstep_mono _ _ H)). lia.
Qed.

Lemma lev_aux_stable f : forall r, lev_aux f r < Z.of_nat f -> lev_aux (S f) r = lev_aux f r.
Proof.
  induction f as [|k IH]; intros r H.
  - cbn [lev_aux] in H. lia.
  - change (lev_aux (S (S k)) r) with (if r <? P2_24 then 0 else 1 + lev_aux (S k) (gstep r)).
    change (lev_aux (S k) r) with (if r <? P2_24 then 0 else 1 + lev_aux k (gstep r)) in *.
    destruct (r <? P2_24); [reflexivity|].
    rewrite IH; [reflexivity|]. lia.
Qed.

(* from the largest 32-bit range 364 bits bring the range below 2^24 *)
Lemma lev_top : lev_aux 399 4294967295 = 364.
Proof. vm_compute. reflexivity. Qed.

Lemma lev_399 r : r < 4294967296 -> lev_aux 399 r <= 364.
Proof. intros H. rewrite <- lev_top. apply lev_aux_mono. lia. Qed.

Lemma lev_unfold r : r < 4294967296 -> lev r = lev_aux 399 r.
Proof.
  intros H. unfold lev, LEVF. change 400%nat with (S 399). apply lev_aux_stable.
  pose proof (lev_399 r H). lia.
Qed.

Lemma lev_range r : r < 4294967296 -> 0 <= lev r <= 364.
Proof. intros H. rewrite (lev_unfold r H). pose proof (lev_399 r H). pose proof (lev_aux_range 399 r). lia. Qed.

Lemma lev_small r : r < P2_24 -> lev r = 0.
Proof. intros H. unfold lev, LEVF. change 400%nat with (S 399). rewrite lev_aux_S. destruct (Z.ltb_spec r P2_24); [reflexivity | lia]. Qed.

(* one bit: the range shrinks to at most gstep of itself, the level drops *)
Lemma lev_step r r' : P2_24 <= r < 4294967296 -> r' <= gstep r -> lev r' + 1 <= lev r.
Proof.
  intros Hr Hr'. unfold P2_24 in Hr.
  assert (Hg : gstep r < 4294967296) by (unfold gstep; lia).
  assert (Hr'32 : r' < 4294967296) by lia.
  rewrite (lev_unfold r') by assumption.
  unfold lev, LEVF. change 400%nat with (S 399). rewrite (lev_aux_S 399 r).
  destruct (Z.ltb_spec r P2_24) as [Hlt|_]; [unfold P2_24 in Hlt; lia|].
  pose proof (lev_aux_mono 399 _ _ Hr'). lia.
Qed.

Lemma mu_nonneg d : rd_range d < 4294967296 -> 0 <= mu d.
Proof. intros H. unfold mu, MU_BYTE. pose proof (lev_range _ H). pose proof (zlen_nonneg (rd_in d)). lia. Qed.

(* normalisation that does not run past the end of the source does not raise the potential *)
Lemma normalize_mu d : rdec_wf d -> 0 <= rd_over d -> rd_over (rdec_normalize d) = 0 ->
  mu (rdec_normalize d) <= mu d /\ rd_over d = 0 /\
  (rd_range d < P2_24 -> MU_BYTE * zlen (rd_in (rdec_normalize d)) + 400 <= mu d) /\
  (P2_24 <= rd_range d -> rdec_normalize d = d).
Proof.
  intros Hwf Ho Hn. unfold rdec_wf in Hwf. unfold rdec_normalize in *.
  destruct (Z.ltb_spec (rd_range d) P2_24) as [Hlt|Hge].
  - unfold rdec_read in *. destruct (rd_in d) as [|b tl] eqn:Ein; cbn [rd_over rd_in rd_range] in *; [lia|].
    unfold mu, MU_BYTE; cbn [rd_in rd_range]. rewrite Ein, zlen_cons.
    pose proof (lev_range (wrap32 (rd_range d * 256))) as Hl.
    assert (Hw : wrap32 (rd_range d * 256) < 4294967296) by (unfold wrap32; lia).
    specialize (Hl Hw). pose proof (lev_small _ Hlt) as Hs. rewrite Hs.
    split; [lia|]. split; [lia|]. split; [intros _; lia | intros Hx; lia].
  - split; [lia|]. split; [lia|]. split; [intros Hlt; lia | reflexivity].
Qed.

(* the potential after a step that leaves range r' (the other registers do not matter) *)
Lemma mu_after_step d d1 r' : rdec_wf d -> 0 <= rd_over d -> d1 = rdec_normalize d -> rd_over d1 = 0 ->
  r' < 4294967296 -> (P2_24 <= rd_range d1 -> r' <= gstep (rd_range d1)) ->
  MU_BYTE * zlen (rd_in d1) + lev r' + 1 <= mu d /\ rd_over d = 0.
Proof.
  intros Hwf Ho Hd1 Ho1 Hr' Hbig. subst d1.
  destruct (normalize_mu d Hwf Ho Ho1) as (Hmu & Hod & Hsm & Hsame).
  split; [|exact Hod].
  pose proof (rdec_normalize_range d Hwf) as Hwf1.
  pose proof (lev_range r' Hr') as Hl'.
  destruct (Z.lt_ge_cases (rd_range d) P2_24) as [Hdl|Hdg].
  - specialize (Hsm Hdl). lia.
  - rewrite (Hsame Hdg) in *.
    pose proof (lev_step (rd_range d) r' ltac:(unfold rdec_wf in Hwf; lia) (Hbig Hdg)). unfold mu. lia.
Qed.

Lemma decode_bit_mu d t k b d' t' : probs_ok t -> rdec_wf d -> 0 <= rd_over d ->
  decode_bit d t k = Some (b, d', t') -> rd_over d' = 0 -> mu d' + 1 <= mu d /\ rd_over d = 0.
Proof.
  intros Ht Hwf Ho H Ho'. unfold decode_bit in H.
  pose proof (probs_ok_get t k Ht) as Hp. apply prob_ok_iff in Hp.
  remember (rdec_normalize d) as d1 eqn:Hd1.
  assert (Hwf1 : rd_range d1 < 4294967296) by (subst d1; apply rdec_normalize_range; exact Hwf).
  destruct (P2_32 <=? Z.shiftr (rd_range d1) 11 * prob_get t k) eqn:E; [discriminate|].
  apply Z.leb_gt in E. unfold P2_32 in E.
  rewrite shiftr_div in * by lia. change (2 ^ 11) with 2048 in *.
  set (p := prob_get t k) in *. set (r := rd_range d1) in *.
  set (q := r / 2048) in *.
  assert (Ho1 : rd_over d1 = 0).
  { destruct (rd_code d1 <? q * p); inversion H; subst; cbn [rd_over] in Ho'; exact Ho'. }
  assert (Hq : q * 2048 <= r < q * 2048 + 2048) by (unfold q; lia).
  assert (Hgs : P2_24 <= r -> 2017 * q + 2047 - 30 <= gstep r + 2047 - 30 /\ 0 <= q).
  { intros Hb. unfold gstep, P2_24 in *. lia. }
  destruct (rd_code d1 <? q * p) eqn:Ec; inversion H; subst b d' t'; clear H.
  - unfold mu at 1; cbn [rd_in rd_range].
    apply (mu_after_step d d1 (q * p) Hwf Ho Hd1 Ho1); [lia|].
    intros Hb. fold r in Hb |- *. destruct (Hgs Hb) as (_ & Hq0). unfold gstep, P2_24 in *. nia.
  - unfold mu at 1; cbn [rd_in rd_range].
    pose proof (wrap32_range (r - q * p)) as Hw.
    apply (mu_after_step d d1 (wrap32 (r - q * p)) Hwf Ho Hd1 Ho1); [lia|].
    intros Hb. fold r in Hb |- *. destruct (Hgs Hb) as (_ & Hq0).
    assert (Hqp : 31 * q <= q * p <= 2017 * q) by nia.
    assert (Hwe : wrap32 (r - q * p) = r - q * p) by (unfold wrap32; apply Z.mod_small; lia).
    rewrite Hwe. unfold gstep, P2_24 in *. lia.
Qed.

Lemma decode_direct_bits_mu n : forall d acc v d', rdec_wf d -> 0 <= rd_over d ->
  decode_direct_bits d n acc = (v, d') -> rd_over d' = 0 -> mu d' + Z.of_nat n <= mu d /\ rd_over d = 0.
Proof.
  induction n as [|m IH]; intros d acc v d' Hwf Ho H Ho'; cbn [decode_direct_bits] in H.
  - inversion H; subst. split; lia.
  - remember (rdec_normalize d) as d1 eqn:Hd1.
    assert (Hwf1 : rd_range d1 < 4294967296) by (subst d1; apply rdec_normalize_range; exact Hwf).
    assert (Hom : rd_over d <= rd_over d1) by (subst d1; apply normalize_over_mono).
    match type of H with decode_direct_bits ?dn _ _ = _ => set (d2 := dn) in * end.
    assert (Hr2 : rd_range d2 = rd_range d1 / 2) by (unfold d2; cbn [rd_range]; rewrite shiftr_div by lia; reflexivity).
    assert (Hwf2 : rdec_wf d2).
    { unfold rdec_wf. rewrite Hr2. destruct (Z.lt_ge_cases (rd_range d1) 0); lia. }
    assert (Ho2 : 0 <= rd_over d2) by (unfold d2; cbn [rd_over]; lia).
    destruct (IH d2 _ v d' Hwf2 Ho2 H Ho') as (Hmu2 & Ho2z).
    assert (Ho1 : rd_over d1 = 0) by (unfold d2 in Ho2z; cbn [rd_over] in Ho2z; exact Ho2z).
    assert (Hst : MU_BYTE * zlen (rd_in d1) + lev (rd_range d2) + 1 <= mu d /\ rd_over d = 0).
    { apply (mu_after_step d d1 (rd_range d2) Hwf Ho Hd1 Ho1); [apply Hwf2|].
      intros Hb. rewrite Hr2. unfold gstep, P2_24 in *. lia. }
    destruct Hst as (Hst & Hod). split; [|exact Hod].
    assert (Hin : mu d2 = MU_BYTE * zlen (rd_in d1) + lev (rd_range d2)) by (unfold mu, d2; cbn [rd_in rd_range]; reflexivity).
    lia.
Qed.

(* ---------------------------------------------------------------------------------------------
   (2) counting the bits a decision program asks for *)
Inductive pbits {A : Type} (Q : A -> Z -> Prop) : prog A -> Z -> Prop :=
| pb_ret a k : Q a k -> pbits Q (Ret a) k
| pb_fail e k : pbits Q (Fail e) k
| pb_bit key f k : (forall b, bit_ok b -> pbits Q (f b) (k + 1)) -> pbits Q (Bit key f) k
| pb_direct n f k : (forall v, direct_ok n v -> pbits Q (f v) (k + Z.of_nat n)) -> pbits Q (Direct n f) k.

Lemma pbits_mono {A} (Q Q' : A -> Z -> Prop) p k : (forall a j, Q a j -> Q' a j) -> pbits Q p k -> pbits Q' p k.
Proof. intros HQ H. induction H; constructor; auto. Qed.

Lemma pbits_bind {A B} (Q : B -> Z -> Prop) (p : prog A) (f : A -> prog B) k :
  pbits (fun a j => pbits Q (f a) j) p k -> pbits Q (pbind p f) k.
Proof. intros H. induction H; cbn [pbind]; try constructor; auto. Qed.

Lemma pbits_pall {A} (P : A -> Prop) (Q : A -> Z -> Prop) p k :
  pall P p -> pbits Q p k -> pbits (fun a j => P a /\ Q a j) p k.
Proof.
  intros HP; revert k; induction HP as [a Ha|e|key f Hf IH|n f Hf IH]; intros k HQ; inversion HQ; subst; constructor; auto.
Qed.

(* at least: the counter never goes down *)
Lemma pbits_ge {A} (p : prog A) k : pbits (fun _ j => k <= j) p k.
Proof.
  revert k; induction p as [a|e|key f IH|n f IH]; intros k; constructor; try lia.
  - intros b _. eapply pbits_mono; [|apply IH]. cbv beta. intros; lia.
  - intros v _. eapply pbits_mono; [|apply IH]. cbv beta. intros; lia.
Qed.

Theorem run_rc_pbits {A} (Q : A -> Z -> Prop) (p : prog A) k :
  pbits Q p k -> forall d t a d' t', probs_ok t -> rdec_wf d -> 0 <= rd_over d ->
  run_rc p d t = Ok (a, d', t') -> rd_over d' = 0 ->
  exists j, Q a j /\ mu d' + (j - k) <= mu d.
Proof.
  induction 1 as [a0 k Ha|e k|key f k Hf IH|n f k Hf IH]; intros d t a d' t' Ht Hwf Ho Hr Ho'; cbn [run_rc] in Hr.
  - inversion Hr; subst. exists k. split; [exact Ha | lia].
  - destruct e; discriminate.
  - destruct (decode_bit d t key) as [[[b d1] t1]|] eqn:E; [|discriminate].
    destruct (decode_bit_wf _ _ _ _ _ _ Ht Hwf E) as (Hwf1 & Ht1).
    pose proof (decode_bit_over_mono _ _ _ _ _ _ E) as Hom.
    pose proof (run_rc_over_mono _ _ _ _ _ _ Hr) as Hom2.
    assert (Ho1 : rd_over d1 = 0) by lia.
    destruct (decode_bit_mu _ _ _ _ _ _ Ht Hwf Ho E Ho1) as (Hmu & _).
    destruct (IH b (decode_bit_bit _ _ _ _ _ _ E) d1 t1 a d' t' Ht1 Hwf1 ltac:(lia) Hr Ho') as (j & Hq & Hj).
    exists j. split; [exact Hq | lia].
  - destruct (decode_direct_bits d n 0) as [v d1] eqn:E.
    pose proof (decode_direct_bits_wf _ _ _ _ _ Hwf E) as Hwf1.
    pose proof (direct_bits_over_mono _ _ _ _ _ E) as Hom.
    pose proof (run_rc_over_mono _ _ _ _ _ _ Hr) as Hom2.
    assert (Ho1 : rd_over d1 = 0) by lia.
    destruct (decode_direct_bits_mu _ _ _ _ _ Hwf Ho E Ho1) as (Hmu & _).
    destruct (IH v (decode_direct_bits_ok _ _ _ _ E) d1 t a d' t' Ht Hwf1 ltac:(lia) Hr Ho') as (j & Hq & Hj).
    exists j. split; [exact Hq | lia].
Qed.

(* ---- the cost of one LZMA symbol ------------------------------------------------------------- *)
Lemma bittree_bits base levels : forall sym k, pbits (fun _ j => j = k + Z.of_nat levels) (bittree base levels sym) k.
Proof.
  induction levels as [|l IH]; intros sym k; cbn [bittree].
  - constructor. lia.
  - constructor. intros b _. eapply pbits_mono; [|apply IH]. cbv beta. intros; lia.
Qed.

Lemma decode_bit_tree_bits base levels k :
  pbits (fun s j => 0 <= s < 2 ^ Z.of_nat levels /\ j = k + Z.of_nat levels) (decode_bit_tree base levels) k.
Proof.
  apply pbits_pall; [apply decode_bit_tree_post|].
  unfold decode_bit_tree. apply pbits_bind. eapply pbits_mono; [|apply bittree_bits].
  cbv beta. intros s j Hj. constructor. exact Hj.
Qed.

Lemma decode_len_bits base ps k : 0 <= ps < 16 ->
  pbits (fun l j => 2 <= l <= 273 /\ k + 4 <= j /\ (18 <= l -> k + 10 <= j)) (decode_len base ps) k.
Proof.
  intros Hps. unfold decode_len. constructor. intros c0 _. destruct (c0 =? 0).
  - rewrite key2_ok by lia. cbn [lift pbind]. apply pbits_bind.
    eapply pbits_mono; [|apply decode_bit_tree_bits]. cbv beta. intros s j (Hs & Hj). constructor.
    change (2 ^ Z.of_nat 3) with 8 in Hs. lia.
  - constructor. intros c1 _. destruct (c1 =? 0).
    + rewrite key2_ok by lia. cbn [lift pbind]. apply pbits_bind.
      eapply pbits_mono; [|apply decode_bit_tree_bits]. cbv beta. intros s j (Hs & Hj). constructor.
      change (2 ^ Z.of_nat 3) with 8 in Hs. lia.
    + apply pbits_bind.
      eapply pbits_mono; [|apply decode_bit_tree_bits]. cbv beta. intros s j (Hs & Hj). constructor.
      change (2 ^ Z.of_nat 8) with 256 in Hs. lia.
Qed.

Lemma decode_match_bits c ps k : 0 <= ps < 16 ->
  pbits (fun r j => snd r <= 20 * (j - k)) (decode_match c ps) k.
Proof.
  intros Hps. unfold decode_match. apply pbits_bind.
  eapply pbits_mono; [|apply decode_len_bits; assumption]. cbv beta. intros len j1 (Hlen & Hj1 & Hj1b).
  assert (Hds : 0 <= dist_state_of_len len < 4) by (unfold dist_state_of_len; destruct (len <? 6) eqn:E; lia).
  rewrite key2_ok by lia. cbn [lift pbind]. apply pbits_bind.
  eapply pbits_mono; [|apply decode_bit_tree_bits]. cbv beta. intros slot j2 (_ & Hj2).
  apply pbits_bind. eapply pbits_mono; [|apply pbits_ge]. cbv beta. intros rep0 j3 Hj3.
  constructor. cbn [snd]. change (Z.of_nat 6) with 6 in Hj2. lia.
Qed.

Lemma decode_rep_match_bits c ps k : 0 <= c_state c < 12 -> 0 <= ps < 16 ->
  pbits (fun r j => snd r <= 20 * (j - k) + 33) (decode_rep_match c ps) k.
Proof.
  intros Hst Hps. unfold decode_rep_match.
  rewrite key1_ok by lia. cbn [lift pbind]. constructor. intros b0 _. destruct (b0 =? 0).
  - rewrite key2_ok by lia. cbn [lift pbind]. constructor. intros bl _. destruct (bl =? 0).
    + constructor. cbn [snd]. lia.
    + apply pbits_bind. eapply pbits_mono; [|apply decode_len_bits; assumption]. cbv beta.
      intros len j (Hlen & Hj & Hjb). constructor. cbn [snd]. lia.
  - rewrite key1_ok by lia. cbn [lift pbind]. constructor. intros b1 _.
    apply pbits_bind. eapply pbits_mono; [|apply pbits_ge]. cbv beta. intros c1 j1 Hj1.
    apply pbits_bind. eapply pbits_mono; [|apply decode_len_bits; assumption]. cbv beta.
    intros len j (Hlen & Hj & Hjb). constructor. cbn [snd]. lia.
Qed.

(* a literal costs at least one bit, a copy of len bytes at least len / 20 bits *)
Lemma asym_bits c hist k : params_ok c -> 0 <= c_state c < 12 ->
  pbits (fun r j => match snd r with RLit _ => k + 1 <= j | RCopy _ len => len <= 20 * (j - k) end) (asym c hist) k.
Proof.
  intros Hpar Hst. pose proof (zlen_nonneg hist) as Hz.
  pose proof (pos_state_range c (zlen hist) Hpar Hz) as Hps.
  unfold asym. rewrite key2_ok by lia. cbn [lift pbind].
  constructor. intros bm _. destruct (bm =? 0).
  - destruct (lit_base c (hnth hist 0) (zlen hist)) as [lb|e|e|]; cbn [lift pbind]; try constructor.
    apply pbits_bind. eapply pbits_mono; [|apply pbits_ge]. cbv beta. intros sym j Hj. constructor. cbn [snd]. lia.
  - rewrite key1_ok by lia. cbn [lift pbind]. constructor. intros br _.
    apply pbits_bind.
    assert (HP : pbits (fun r j => snd r <= 20 * (j - (k + 1 + 1)) + 33)
                   (if br =? 0 then decode_match c (pos_state_of c (zlen hist)) else decode_rep_match c (pos_state_of c (zlen hist)))
                   (k + 1 + 1)).
    { destruct (br =? 0).
      - eapply pbits_mono; [|apply decode_match_bits; assumption]. cbv beta. intros; lia.
      - apply decode_rep_match_bits; assumption. }
    eapply pbits_mono; [|exact HP]. cbv beta. intros cl j Hj. constructor. cbn [snd]. lia.
Qed.

(* the specification decoder: bytes produced plus bytes still pending cost 1/20 bit each *)
Lemma aproduce_bits n : forall s k, asafe s -> 0 <= a_pend_len s ->
  pbits (fun r j => 0 <= a_pend_len (fst r) /\
                    a_pend_len (fst r) + zlen (a_hist (fst r)) - zlen (a_hist s) <= 20 * (j - k) + a_pend_len s)
        (aproduce n s) k.
Proof.
  induction n as [|m IH]; intros s k Hs Hp; cbn [aproduce].
  - constructor. cbn [fst]. lia.
  - destruct Hs as (Hpar & Hst & Hh).
    destruct (Z.ltb_spec 0 (a_pend_len s)) as [Hpos|Hzero].
    + eapply pbits_mono; [|apply IH].
      * cbv beta. cbn [a_hist a_pend_len]. intros r j (H1 & H2). rewrite zlen_cons in H2. split; lia.
      * unfold asafe; cbn [a_coder a_hist]. split; [exact Hpar|]. split; [exact Hst|]. apply hist_bytes_cons; [apply Hh | exact Hh].
      * cbn [a_pend_len]. lia.
    + destruct (asym_safe (a_coder s) (a_hist s) Hpar Hst Hh) as (_ & Hpost).
      apply pbits_bind. eapply pbits_mono; [|apply pbits_pall; [exact Hpost | apply asym_bits; assumption]].
      cbv beta. intros [c1 res] j ((Hp1 & Hs1 & Hres) & Hcost). cbn [fst snd] in *.
      destruct res as [b|dist len].
      * eapply pbits_mono; [|apply IH].
        -- cbv beta. cbn [a_hist a_pend_len]. intros r j2 (H1 & H2). rewrite zlen_cons in H2. split; lia.
        -- unfold asafe; cbn [a_coder a_hist]. split; [exact Hp1|]. split; [exact Hs1|]. apply hist_bytes_cons; assumption.
        -- cbn [a_pend_len]. lia.
      * destruct (a_full s <=? dist).
        -- constructor. cbn [fst a_pend_len a_hist]. lia.
        -- destruct (Z.leb_spec len 0); [constructor|].
           eapply pbits_mono; [|apply IH].
           ++ cbv beta. cbn [a_hist a_pend_len]. intros r j2 (H1 & H2). rewrite zlen_cons in H2. split; lia.
           ++ unfold asafe; cbn [a_coder a_hist]. split; [exact Hp1|]. split; [exact Hs1|]. apply hist_bytes_cons; [apply Hh | exact Hh].
           ++ cbn [a_pend_len]. lia.
Qed.

(* ---------------------------------------------------------------------------------------------
   (3) LZMADecoder::decode from a consistent state, on any input *)
Lemma aproduce_status n : forall s, pall (fun r => snd r = Ok tt \/ exists e, snd r = Err e) (aproduce n s).
Proof.
  induction n as [|k IH]; intros s; cbn [aproduce]; [constructor; left; reflexivity|].
  destruct (0 <? a_pend_len s); [apply IH|].
  eapply pall_bind; [apply pall_true|]. intros r _. destruct (snd r) as [b|dist len]; [apply IH|].
  destruct (a_full s <=? dist); [constructor; right; eexists; reflexivity|].
  destruct (len <=? 0); [constructor | apply IH].
Qed.

Lemma aproduce_asafe n : forall s, asafe s -> pall (fun r => asafe (fst r)) (aproduce n s).
Proof.
  induction n as [|k IH]; intros s (Hpar & Hst & Hh); cbn [aproduce].
  - constructor. cbn [fst]. unfold asafe. auto.
  - destruct (0 <? a_pend_len s).
    + apply IH. unfold asafe; cbn [a_coder a_hist]. split; [exact Hpar|]. split; [exact Hst|].
      apply hist_bytes_cons; [apply Hh | exact Hh].
    + destruct (asym_safe (a_coder s) (a_hist s) Hpar Hst Hh) as (_ & Hpost).
      eapply pall_bind; [exact Hpost|]. intros [c1 res] (Hp1 & Hs1 & Hres). cbn [fst snd] in *.
      destruct res as [b|dist len].
      * apply IH. unfold asafe; cbn [a_coder a_hist]. split; [exact Hp1|]. split; [exact Hs1|]. apply hist_bytes_cons; assumption.
      * destruct (a_full s <=? dist).
        -- constructor. cbn [fst]. unfold asafe; cbn [a_coder a_hist]. auto.
        -- destruct (len <=? 0); [constructor|].
           apply IH. unfold asafe; cbn [a_coder a_hist]. split; [exact Hp1|]. split; [exact Hs1|].
           apply hist_bytes_cons; [apply Hh | exact Hh].
Qed.

(* the source only shrinks *)
Lemma normalize_in_len d : (length (rd_in (rdec_normalize d)) <= length (rd_in d))%nat.
Proof.
  unfold rdec_normalize. destruct (rd_range d <? P2_24); [|lia].
  unfold rdec_read. destruct (rd_in d) as [|b tl]; cbn [rd_in length]; lia.
Qed.

Lemma decode_bit_in_len d t k b d1 t1 : decode_bit d t k = Some (b, d1, t1) -> (length (rd_in d1) <= length (rd_in d))%nat.
Proof.
  unfold decode_bit. intros H. pose proof (normalize_in_len d) as Hn.
  destruct (P2_32 <=? _); [discriminate|].
  destruct (rd_code (rdec_normalize d) <? _); inversion H; subst; cbn [rd_in]; exact Hn.
Qed.

Lemma direct_bits_in_len n : forall d acc v d1, decode_direct_bits d n acc = (v, d1) -> (length (rd_in d1) <= length (rd_in d))%nat.
Proof.
  induction n as [|m IH]; intros d acc v d1 H; cbn [decode_direct_bits] in H.
  - inversion H; subst. lia.
  - apply IH in H. cbn [rd_in] in H. pose proof (normalize_in_len d). lia.
Qed.

Lemma run_rc_in_len {A} (p : prog A) : forall d t a d1 t1, run_rc p d t = Ok (a, d1, t1) ->
  (length (rd_in d1) <= length (rd_in d))%nat.
Proof.
  induction p as [a0|e|key f IH|n f IH]; intros d t a d1 t1 H; cbn [run_rc] in H.
  - inversion H; subst. lia.
  - destruct e; discriminate.
  - destruct (decode_bit d t key) as [[[b d2] t2]|] eqn:E; [|discriminate].
    apply decode_bit_in_len in E. apply IH in H. lia.
  - destruct (decode_direct_bits d n 0) as [v d2] eqn:E.
    apply direct_bits_in_len in E. apply IH in H. lia.
Qed.

Theorem lzma_decode_post : forall c w hist d t,
  Rel w hist -> hist_bytes hist -> coder_ok c (w_full w) -> w_pos w <= w_limit w ->
  (0 < w_pending_len w -> 0 <= w_pending_dist w < w_full w) ->
  probs_ok t -> rdec_wf d ->
  exists c1 w1 st d1 t1 hist1,
    lzma_decode c w d t = Ok (c1, w1, st, d1, t1) /\
    Rel w1 hist1 /\ hist_bytes hist1 /\ probs_ok t1 /\ rdec_wf d1 /\
    w_size w1 = w_size w /\ w_limit w1 = w_limit w /\ w_start w1 = w_start w /\
    w_pos w <= w_pos w1 <= w_limit w /\
    (0 < w_pending_len w1 -> 0 <= w_pending_dist w1 < w_full w1) /\
    ((st = Ok tt /\ coder_ok c1 (w_full w1) /\ w_pos w1 = w_limit w) \/ exists e, st = Err e) /\
    (length (rd_in d1) <= length (rd_in d))%nat /\ rd_over d <= rd_over d1 /\
    (0 <= rd_over d -> rd_over d1 = 0 ->
       20 * mu d1 + w_pending_len w1 + (w_pos w1 - w_pos w) <= 20 * mu d + w_pending_len w).
Proof.
  intros c w hist d t R Hh Hc Hpl Hpd Ht Hd.
  set (n := Z.to_nat (w_limit w - w_pos w)).
  set (s0 := mkAstate c hist (w_size w) (w_pending_len w) (w_pending_dist w)).
  pose proof (lzma_decode_abs c w hist d t n R Hc Hpl ltac:(unfold n; lia) Hpd) as HA. fold s0 in HA.
  assert (Hs0 : asafe s0).
  { destruct Hc as (Hpar & Hst & _). unfold asafe, s0; cbn [a_coder a_hist]. auto. }
  assert (Hp0 : 0 <= a_pend_len s0) by (unfold s0; cbn [a_pend_len]; destruct R; assumption).
  destruct (run_rc_safe _ (aproduce_safe n s0 Hs0) d t Ht Hd) as ([s2 st2] & d2 & t2 & Hrun & Hd2 & Ht2).
  rewrite Hrun in HA. destruct HA as (w1 & Hdec & Hrel).
  pose proof (run_rc_pall _ _ (pall_and _ _ _ (aproduce_status n s0) (pall_and _ _ _ (aproduce_asafe n s0 Hs0) (aproduce_grows n s0)))
                _ _ _ _ _ Hrun) as (Hstat & Hsafe2 & Hgrow).
  unfold grows in Hgrow. cbn [fst snd] in Hstat, Hsafe2, Hgrow.
  unfold loop_rel in Hrel. destruct Hrel as (_ & _ & R1 & E4 & E5 & E6 & E7 & E8 & E9 & E10 & E11 & E12).
  set (dfin := match st2 with Ok _ => rdec_normalize d2 | _ => d2 end) in *.
  pose proof (run_rc_over_mono _ _ _ _ _ _ Hrun) as Hov.
  pose proof (run_rc_in_len _ _ _ _ _ _ Hrun) as Hin.
  exists (a_coder s2), w1, st2, dfin, t2, (a_hist s2).
  split; [exact Hdec|]. split; [exact R1|]. split; [apply Hsafe2|]. split; [exact Ht2|].
  split.
  { unfold dfin. destruct st2; try exact Hd2. apply rdec_normalize_range. exact Hd2. }
  split; [exact E5|]. split; [exact E6|]. split; [exact E7|]. split; [exact E8|].
  split.
  { intros Hpos. rewrite E10 in Hpos. destruct (E12 Hpos) as (Hpd1 & Hpd2). rewrite Hpd1. exact Hpd2. }
  split.
  { destruct Hstat as [Hok|(e & He)]; [|right; exists e; exact He]. left.
    destruct (E11 Hok) as (Hc1 & _). split; [exact Hok|]. split; [exact Hc1|].
    destruct Hgrow as (_ & Hg & _). destruct (Hg Hok) as (new & Hnew & Hlen).
    unfold s0 in Hnew; cbn [a_hist] in Hnew. rewrite Hnew, zlen_app in E9. unfold zlen in E9 at 1. rewrite Hlen in E9.
    unfold n in E9. lia. }
  split.
  { unfold dfin. destruct st2; try exact Hin. pose proof (normalize_in_len d2). lia. }
  split.
  { unfold dfin. destruct st2; try exact Hov. pose proof (normalize_over_mono d2). lia. }
  intros Ho Ho1.
  assert (Ho2 : rd_over d2 = 0).
  { unfold dfin in Ho1. destruct st2; try lia. pose proof (normalize_over_mono d2). lia. }
  destruct (run_rc_pbits _ _ 0 (aproduce_bits n s0 0 Hs0 Hp0) d t _ _ _ Ht Hd Ho Hrun Ho2) as (j & (Hq1 & Hq2) & Hj).
  cbn [fst] in Hq1, Hq2. unfold s0 in Hq2; cbn [a_hist a_pend_len] in Hq2.
  assert (Hfin : mu dfin <= mu d2).
  { unfold dfin. destruct st2; try lia. apply (normalize_mu d2 Hd2 ltac:(lia)). unfold dfin in Ho1. exact Ho1. }
  lia.
Qed.

(* ---------------------------------------------------------------------------------------------
   (4) read histories: destination sizes cycled until a non-empty buffer gets nothing *)
Inductive gend := GEnd | GErr (e : Z) | GPanic (e : Z) | GFuel.

Fixpoint lead0 (l : list Z) : Z :=
  match l with
  | [] => 0
  | x :: r => if 0 <? x then 0 else 1 + lead0 r
  end.

(* read calls until the next one with a non-empty buffer *)
Definition rdist (cur all : list Z) : Z := if lead0 cur <? zlen cur then lead0 cur else zlen cur + lead0 all.

Lemma lead0_range l : 0 <= lead0 l <= zlen l.
Proof.
  induction l as [|x r IH]; cbn [lead0]; [unfold zlen; cbn; lia|].
  rewrite zlen_cons. destruct (0 <? x); lia.
Qed.

Section GenReadAll.
  Variable St : Type.
  Variable step : St -> Z -> outcome (list Z * St).

  (* bytes of the successful calls, the state (after the last successful call; at an error: the
     state the failing call found) and how the history ended *)
  Fixpoint g_obs (fuel : nat) (s : St) (cur all : list Z) (acc : list Z) : list Z * St * gend :=
    match fuel with
    | O => (frev acc, s, GFuel)
    | S f =>
        let '(sz, rest) := match cur with [] => (4096, all) | x :: r => (x, r) end in
        match step s sz with
        | Ok (out, s1) =>
            if (0 <? sz) && (zlen out =? 0) then (frev acc, s1, GEnd)
            else g_obs f s1 (match rest with [] => all | _ => rest end) all (rev_append out acc)
        | Err e => (frev acc, s, GErr e)
        | Panic e => (frev acc, s, GPanic e)
        | Fuel => (frev acc, s, GFuel)
        end
    end.

  Variable I : St -> Prop.
  Variable pot : St -> Z.
  Hypothesis pot_nonneg : forall s, I s -> 0 <= pot s.
  Hypothesis step_zero : forall s n, n <= 0 -> step s n = Ok ([], s).
  Hypothesis step_pos : forall s n, I s -> 0 < n ->
    (exists e, step s n = Err e) \/
    exists out s1, step s n = Ok (out, s1) /\ I s1 /\ zlen out + pot s1 <= pot s.

  Definition g_done (r : list Z * St * gend) (acc : list Z) (s : St) : Prop :=
    exists new s', fst (fst r) = rev acc ++ new /\ snd (fst r) = s' /\ I s' /\ zlen new + pot s' <= pot s /\
                   (snd r = GEnd \/ exists e, snd r = GErr e).

  Lemma g_obs_total_aux M : forall fuel s cur all acc, I s -> (all = [] \/ lead0 all < zlen all) ->
    zlen cur <= M -> zlen all <= M ->
    pot s * (M + zlen all + 1) + rdist cur all + 1 <= Z.of_nat fuel ->
    g_done (g_obs fuel s cur all acc) acc s.
  Proof.
    induction fuel as [|f IH]; intros s cur all acc HI Hall Hcur HallM Hfuel.
    { exfalso. pose proof (pot_nonneg s HI). pose proof (zlen_nonneg all). pose proof (zlen_nonneg cur).
      pose proof (lead0_range cur). pose proof (lead0_range all).
      assert (0 <= rdist cur all) by (unfold rdist; destruct (lead0 cur <? zlen cur); lia). nia. }
    pose proof (pot_nonneg s HI) as Hp0. pose proof (zlen_nonneg all) as Ha0. pose proof (zlen_nonneg cur) as Hc0.
    pose proof (lead0_range all) as Hla.
    set (K := M + zlen all + 1) in *.
    (* a call with a non-empty buffer *)
    assert (Hposcall : forall sz rest, 0 < sz -> zlen rest <= M -> rdist cur all = 0 \/ True ->
              pot s * K + 1 <= Z.of_nat (S f) ->
              g_done (match step s sz with
                      | Ok (out, s1) =>
                          if (0 <? sz) && (zlen out =? 0) then (frev acc, s1, GEnd)
                          else g_obs f s1 (match rest with [] => all | _ => rest end) all (rev_append out acc)
                      | Err e => (frev acc, s, GErr e)
                      | Panic e => (frev acc, s, GPanic e)
                      | Fuel => (frev acc, s, GFuel)
                      end) acc s).
    { intros sz rest Hsz Hrest _ Hf.
      destruct (step_pos s sz HI Hsz) as [(e & He)|(out & s1 & Hok & HI1 & Hpot)].
      - rewrite He. exists [], s. cbn [fst snd]. rewrite frev_rev, app_nil_r.
        split; [reflexivity|]. split; [reflexivity|]. split; [exact HI|]. split; [unfold zlen; cbn; lia|]. right. eexists; reflexivity.
      - rewrite Hok. destruct (Z.ltb_spec 0 sz) as [_|]; [|lia]. cbn [andb].
        pose proof (pot_nonneg s1 HI1) as Hp1. pose proof (zlen_nonneg out) as Ho0.
        destruct (Z.eqb_spec (zlen out) 0) as [Hz|Hnz].
        + exists [], s1. cbn [fst snd]. rewrite frev_rev, app_nil_r.
          split; [reflexivity|]. split; [reflexivity|]. split; [exact HI1|]. split; [unfold zlen at 1; cbn; lia|]. left; reflexivity.
        + set (cur' := match rest with [] => all | _ => rest end).
          assert (Hc' : zlen cur' <= M) by (unfold cur'; destruct rest; assumption).
          assert (Hd' : rdist cur' all <= M + zlen all).
          { unfold rdist. pose proof (lead0_range cur'). destruct (lead0 cur' <? zlen cur'); lia. }
          assert (Hf' : pot s1 * K + rdist cur' all + 1 <= Z.of_nat f).
          { assert (pot s1 * K <= (pot s - 1) * K) by (apply Z.mul_le_mono_nonneg_r; unfold K; lia). unfold K in *. lia. }
          destruct (IH s1 cur' all (rev_append out acc) HI1 Hall Hc' HallM Hf') as (new & s' & E1 & E2 & HI' & Hpot' & Hend).
          exists (out ++ new), s'. split; [rewrite E1, rev_append_rev, rev_app_distr, rev_involutive, <- app_assoc; reflexivity|].
          split; [exact E2|]. split; [exact HI'|]. split; [rewrite zlen_app; lia | exact Hend]. }
    cbn [g_obs]. destruct cur as [|x rest].
    - (* the default size *)
      apply (Hposcall 4096 all); [lia | exact HallM | right; exact Logic.I |].
      assert (0 <= rdist [] all) by (unfold rdist; cbn [lead0]; change (zlen (@nil Z)) with 0; cbn; lia). lia.
    - rewrite zlen_cons in Hcur. pose proof (zlen_nonneg rest) as Hr0.
      destruct (Z.lt_ge_cases 0 x) as [Hx|Hx].
      + apply (Hposcall x rest); [exact Hx | lia | right; exact Logic.I |].
        assert (0 <= rdist (x :: rest) all).
        { unfold rdist. pose proof (lead0_range (x :: rest)). destruct (lead0 (x :: rest) <? zlen (x :: rest)); lia. }
        lia.
      + rewrite (step_zero s x ltac:(lia)). destruct (Z.ltb_spec 0 x) as [|_]; [lia|]. cbn [andb rev_append].
        set (cur' := match rest with [] => all | _ => rest end).
        assert (Hc' : zlen cur' <= M) by (unfold cur'; destruct rest; [assumption | lia]).
        assert (Hd' : rdist cur' all + 1 = rdist (x :: rest) all).
        { unfold rdist at 2. cbn [lead0]. destruct (Z.ltb_spec 0 x) as [|_]; [lia|]. rewrite zlen_cons.
          unfold cur'. destruct rest as [|y r'].
          - change (zlen (@nil Z)) with 0. cbn [lead0]. destruct (Z.ltb_spec (1 + 0) (0 + 1)); [lia|].
            unfold rdist. destruct Hall as [->|Hall]; [reflexivity|].
            destruct (Z.ltb_spec (lead0 all) (zlen all)); lia.
          - unfold rdist. destruct (Z.ltb_spec (lead0 (y :: r')) (zlen (y :: r')));
              destruct (Z.ltb_spec (1 + lead0 (y :: r')) (zlen (y :: r') + 1)); lia. }
        destruct (IH s cur' all acc HI Hall Hc' HallM ltac:(fold K; lia)) as (new & s' & E1 & E2 & HI' & Hpot' & Hend).
        exists new, s'. auto.
  Qed.

  (* the number of read calls a history needs: a function of the sizes and of the potential *)
  Definition ra_fuel (sizes all : list Z) (p : Z) : nat :=
    Z.to_nat ((p + 1) * (zlen sizes + 2 * zlen all + 2)).

  Theorem g_obs_total : forall fuel s sizes all acc, I s -> (all = [] \/ lead0 all < zlen all) ->
    (ra_fuel sizes all (pot s) <= fuel)%nat ->
    g_done (g_obs fuel s sizes all acc) acc s.
  Proof.
    intros fuel s sizes all acc HI Hall Hfuel.
    pose proof (pot_nonneg s HI) as Hp0. pose proof (zlen_nonneg all) as Ha0. pose proof (zlen_nonneg sizes) as Hc0.
    apply (g_obs_total_aux (Z.max (zlen sizes) (zlen all))); [exact HI | exact Hall | lia | lia|].
    unfold ra_fuel in Hfuel.
    assert (Hd : rdist sizes all <= zlen sizes + zlen all).
    { unfold rdist. pose proof (lead0_range sizes). pose proof (lead0_range all). destruct (lead0 sizes <? zlen sizes); lia. }
    assert (pot s * (Z.max (zlen sizes) (zlen all) + zlen all + 1) <= pot s * (zlen sizes + 2 * zlen all + 2))
      by (apply Z.mul_le_mono_nonneg_l; lia).
    nia.
  Qed.
End GenReadAll.

Print Assumptions run_rc_pbits.
Print Assumptions lzma_decode_post.
Print Assumptions g_obs_total.
