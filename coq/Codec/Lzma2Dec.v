(* Codec/Lzma2Dec.v — model of src/lzma2_reader.rs (LZMA2Reader).  Definitions only. *)
From LzVerif Require Export Codec.LzmaDec.

Definition COMPRESSED_SIZE_MAX : Z := 65536.

Record lzma2 := mkLzma2 {
  m_in : list Z;                 (* bytes of the inner reader not consumed yet *)
  m_win : lzwin;
  m_rc : rdec;
  m_probs : probs;
  m_coder : option coder;        (* self.lzma *)
  m_uncompressed_size : Z;
  m_is_lzma_chunk : bool;
  m_need_dict_reset : bool;
  m_need_props : bool;
  m_end_reached : bool;
  m_error : option Z             (* sticky error kind *)
}.

(* get_dict_size(dict_size): clamp into [DICT_SIZE_MIN, DICT_SIZE_MAX], then (d + 15) & !15.
   (Before the "fix:" commit 009e680 the value was not clamped: d + 15 overflowed above
   u32::MAX - 15, and d = 0 made read() loop forever or panic.) *)
Definition lzma2_get_dict_size (dict_size : Z) : outcome Z :=
  let d := Z.min (Z.max dict_size 4096) 4294967280 in
  Ok ((d + 15) / 16 * 16).

(* LZMA2Reader::new(inner, dict_size, preset_dict).  RangeDecoder::new_buffer: code = 0, range = 0,
   empty buffer positioned at its end. *)
Definition lzma2_new (input : list Z) (dict_size : Z) (preset : option (list Z)) : outcome lzma2 :=
  do ds <- lzma2_get_dict_size dict_size;
  let has_preset := match preset with Some (_ :: _) => true | _ => false end in
  Ok (mkLzma2 input (lzwin_new ds preset) (mkRdec 0 0 [] 0) PLeaf None 0 false (negb has_preset) true false None).

Definition read_u8 (input : list Z) : outcome (Z * list Z) :=
  match input with b :: r => Ok (b, r) | [] => Err E_UNEXPECTED_EOF end.
Definition read_u16_be (input : list Z) : outcome (Z * list Z) :=
  match input with a :: b :: r => Ok (a * 256 + b, r) | _ => Err E_UNEXPECTED_EOF end.

Definition with_in (s : lzma2) (input : list Z) : lzma2 :=
  mkLzma2 input (m_win s) (m_rc s) (m_probs s) (m_coder s) (m_uncompressed_size s) (m_is_lzma_chunk s)
          (m_need_dict_reset s) (m_need_props s) (m_end_reached s) (m_error s).

(* rc.prepare(reader, len): len >= 5, first byte 0, 4 bytes code, then read_exact of len - 5 bytes
   into the chunk buffer *)
Definition rdec_prepare (input : list Z) (len : Z) : outcome (rdec * list Z) :=
  if len <? 5 then Err E_INVALID_INPUT else
  match input with
  | b0 :: rest0 =>
      if negb (b0 =? 0) then Err E_INVALID_INPUT else
      match rest0 with
      | b1 :: b2 :: b3 :: b4 :: rest =>
          let n := Z.to_nat (len - 5) in
          if (length rest <? n)%nat then Err E_UNEXPECTED_EOF else
          Ok (mkRdec 4294967295 (((b1 * 256 + b2) * 256 + b3) * 256 + b4) (firstn n rest) 0, skipn n rest)
      | _ => Err E_UNEXPECTED_EOF
      end
  | [] => Err E_UNEXPECTED_EOF
  end.

(* decode_props() *)
Definition lzma2_decode_props (input : list Z) : outcome (coder * list Z) :=
  do pr <- read_u8 input;
  let '(props, rest) := pr in
  if 224 <? props then Err E_INVALID_INPUT else
  let pb := props / 45 in
  let r := props - pb * 45 in
  let lp := r / 9 in
  let lc := r - lp * 9 in
  if 4 <? lc + lp then Err E_INVALID_INPUT else
  Ok (coder_new lc lp pb, rest).

(* decode_chunk_header(): field by field in the order of the Rust code, so that the state left
   behind by an error is the same *)
Definition lzma2_chunk_header (s : lzma2) : outcome lzma2 :=
  do cr <- read_u8 (m_in s);
  let '(control, in1) := cr in
  if control =? 0 then
    Ok (mkLzma2 in1 (m_win s) (m_rc s) (m_probs s) (m_coder s) (m_uncompressed_size s) (m_is_lzma_chunk s)
                (m_need_dict_reset s) (m_need_props s) true (m_error s))
  else
  do st1 <-
    (if (224 <=? control) || (control =? 1) then
       do w <- lzwin_reset (m_win s); Ok (w, true, false)
     else if m_need_dict_reset s then Err E_INVALID_INPUT
     else Ok (m_win s, m_need_props s, m_need_dict_reset s));
  let '(w1, need_props1, need_dict_reset1) := st1 in
  if 128 <=? control then
    do u <- read_u16_be in1;
    let '(ulow, in2) := u in
    let usize := Z.shiftl (Z.land control 31) 16 + ulow + 1 in
    do cs <- read_u16_be in2;
    let '(clow, in3) := cs in
    let csize := clow + 1 in
    do pc <-
      (if 192 <=? control then
         do cp <- lzma2_decode_props in3;
         let '(c, in4) := cp in Ok (Some c, PLeaf, false, in4)
       else if need_props1 then Err E_INVALID_INPUT
       else if 160 <=? control then
         Ok (match m_coder s with Some c => Some (coder_reset c) | None => None end,
             match m_coder s with Some _ => PLeaf | None => m_probs s end, need_props1, in3)
       else Ok (m_coder s, m_probs s, need_props1, in3));
    let '(coder1, probs1, need_props2, in4) := pc in
    do rp <- rdec_prepare in4 csize;
    let '(rc1, in5) := rp in
    Ok (mkLzma2 in5 w1 rc1 probs1 coder1 usize true need_dict_reset1 need_props2 false (m_error s))
  else if 2 <? control then Err E_INVALID_INPUT
  else
    do u <- read_u16_be in1;
    let '(ulow, in2) := u in
    Ok (mkLzma2 in2 w1 (m_rc s) (m_probs s) (m_coder s) (ulow + 1) false need_dict_reset1 need_props1 false (m_error s)).

(* rc.is_finished(): buffer exhausted exactly and code == 0 *)
Definition rdec_is_finished (d : rdec) : bool :=
  match rd_in d with [] => (rd_over d =? 0) && (rd_code d =? 0) | _ => false end.

(* one iteration of the while loop of read_decode with [len] > 0 bytes still wanted: the chunk
   header if a new chunk starts, then one copy / decode step and the flush.  Returns the bytes
   flushed and the new state; m_end_reached of the new state says that the end-of-stream control
   byte was read (then nothing was flushed). *)
Definition lzma2_iter (s : lzma2) (len : Z) : outcome (list Z * lzma2) :=
  do s1 <- (if m_uncompressed_size s =? 0 then lzma2_chunk_header s else Ok s);
  if m_end_reached s1 then Ok ([], s1) else
  let copy_size_max := Z.min (m_uncompressed_size s1) len in
  do s2 <-
    (if negb (m_is_lzma_chunk s1) then
       do wi <- lzwin_copy_uncompressed (m_win s1) (m_in s1) copy_size_max;
       let '(w, input) := wi in
       Ok (mkLzma2 input w (m_rc s1) (m_probs s1) (m_coder s1) (m_uncompressed_size s1) (m_is_lzma_chunk s1)
                   (m_need_dict_reset s1) (m_need_props s1) (m_end_reached s1) (m_error s1))
     else
       let w := lzwin_set_limit (m_win s1) copy_size_max in
       match m_coder s1 with
       | None => Ok (mkLzma2 (m_in s1) w (m_rc s1) (m_probs s1) None (m_uncompressed_size s1) true
                             (m_need_dict_reset s1) (m_need_props s1) (m_end_reached s1) (m_error s1))
       | Some c =>
           do r <- lzma_decode c w (m_rc s1) (m_probs s1);
           let '(c1, w1, status, d1, t1) := r in
           match status with
           | Ok _ => Ok (mkLzma2 (m_in s1) w1 d1 t1 (Some c1) (m_uncompressed_size s1) true
                                 (m_need_dict_reset s1) (m_need_props s1) (m_end_reached s1) (m_error s1))
           | Err e => Err e
           | Panic e => Panic e
           | Fuel => Fuel
           end
       end);
  let '(out, w3) := lzwin_flush (m_win s2) in
  let copied := zlen out in
  let usize := m_uncompressed_size s2 - copied in
  if usize <? 0 then Panic 51 else
  let s3 := mkLzma2 (m_in s2) w3 (m_rc s2) (m_probs s2) (m_coder s2) usize (m_is_lzma_chunk s2)
                    (m_need_dict_reset s2) (m_need_props s2) (m_end_reached s2) (m_error s2) in
  if (usize =? 0) && (negb (rdec_is_finished (m_rc s3)) || lzwin_has_pending w3) then Err E_INVALID_INPUT
  else Ok (out, s3).

(* the while loop of read_decode *)
Fixpoint lzma2_read_loop (fuel : nat) (s : lzma2) (len : Z) (acc : list Z) : outcome (list Z * lzma2) :=
  if len <=? 0 then Ok (frev acc, s) else
  match fuel with
  | O => Fuel
  | S f =>
      do r <- lzma2_iter s len;
      let '(out, s1) := r in
      if m_end_reached s1 then Ok (frev acc, s1)
      else lzma2_read_loop f s1 (len - zlen out) (rev_append out acc)
  end.

(* read(buf): sticky error.  On error the Rust reader keeps whatever state read_decode reached;
   every later call returns the stored error kind, so that state is unobservable: the model keeps
   the state from before the failing call and records the error. *)
Definition lzma2_read (s : lzma2) (buflen : Z) : outcome (list Z * lzma2) :=
  if buflen <=? 0 then Ok ([], s) else
  match m_error s with
  | Some e => Err e
  | None =>
      if m_end_reached s then Ok ([], s) else
      lzma2_read_loop (Z.to_nat (2 * buflen + 4)) s buflen []
  end.

Definition lzma2_set_error (s : lzma2) (e : Z) : lzma2 :=
  mkLzma2 (m_in s) (m_win s) (m_rc s) (m_probs s) (m_coder s) (m_uncompressed_size s) (m_is_lzma_chunk s)
          (m_need_dict_reset s) (m_need_props s) (m_end_reached s) (Some e).

(* a whole read history; returns the bytes, the terminating status (0 = end of stream, e = error
   kind of the failing call; bytes before the failing call are kept) and the final state *)
Fixpoint lzma2_read_all (fuel : nat) (s : lzma2) (sizes all : list Z) (acc : list Z)
  : outcome (list Z * Z * lzma2) :=
  match fuel with
  | O => Fuel
  | S f =>
      let '(sz, rest) := match sizes with [] => (4096, all) | x :: r => (x, r) end in
      match lzma2_read s sz with
      | Ok (out, s1) =>
          if (0 <? sz) && (zlen out =? 0) then Ok (frev acc, 0, s1)
          else lzma2_read_all f s1 (match rest with [] => all | _ => rest end) all (rev_append out acc)
      | Err e => Ok (frev acc, e, lzma2_set_error s e)
      | Panic e => Panic e
      | Fuel => Fuel
      end
  end.
