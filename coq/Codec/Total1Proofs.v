(* Codec/Total1Proofs.v — C06 for the LZMAReader model (Codec/Lzma1.v): TOTAL on arbitrary input.
   For every source (any list of integers behind the header), every parameter vector the
   constructors accept, and every history of destination sizes: construction returns Ok or Err,
   every read() returns Ok or Err within the iteration budget the model gives it (buflen + 2), and
   a whole read history ends (end of stream or error) within a number of calls that is a stated
   function of the source length and the sizes; the bytes returned are at most 8000 per source byte.
   The reader-state invariant [inv1] (window represents a byte history, coder in range, tables
   valid, pending copy inside the dictionary, registers 32-bit, nothing read past the end of the
   source, flushed window) is established by construction and kept by every iteration; from it
   lzma_decode_post (TotalCoreProofs.v) applies at each decode call.  After the end of the stream
   the reader answers Ok(0) whatever its state; after an error read_all stops.  Proofs only. *)
From LzVerif Require Import Base.Bytes Codec.Store Codec.Range Codec.ProbProofs Codec.RangeArithProofs
  Codec.LzWindow Codec.LzmaDec Codec.LzmaAbs Codec.LzWindowProofs Codec.ProgProofs Codec.LzmaAbsProofs
  Codec.RangeNoWrapProofs Codec.LzmaSymProofs Codec.LzmaReadProofs Codec.LzmaChunkProofs Codec.LzmaTotalProofs Codec.TruncProofs
  Codec.Lzma2WindowProofs Codec.Lzma1 Codec.Lzma1LoopProofs Codec.Lzma1ReadProofs Codec.TruncLzma1Proofs
  Codec.TotalCoreProofs.
Ltac Zify.zify_post_hook ::= Z.div_mod_to_equations.

(* ---- the reader-state invariant ---------------------------------------------------------------- *)
Definition inv1 (s : lzma1) : Prop :=
  exists hist, Rel (l_win s) hist /\ hist_bytes hist /\ coder_ok (l_coder s) (w_full (l_win s)) /\
    (0 < w_pending_len (l_win s) -> 0 <= w_pending_dist (l_win s) < w_full (l_win s)) /\
    probs_ok (l_probs s) /\ rdec_wf (l_rc s) /\ rd_over (l_rc s) = 0 /\
    w_start (l_win s) = w_pos (l_win s) /\ 0 <= l_remaining s.

(* after the end of the stream nothing is decoded any more *)
Definition rinv1 (s : lzma1) : Prop := l_end_reached s = true \/ inv1 s.

(* bytes the reader can still return: 20 per bit the range decoder can still deliver, plus the
   part of the current match not yet copied *)
Definition P1 (s : lzma1) : Z := 20 * mu (l_rc s) + w_pending_len (l_win s).
Definition pot1 (s : lzma1) : Z := if l_end_reached s then 0 else P1 s.

Lemma P1_nonneg s : inv1 s -> 0 <= P1 s.
Proof.
  intros (hist & R & _ & _ & _ & _ & Hwf & _). unfold P1.
  pose proof (mu_nonneg _ Hwf). destruct R. lia.
Qed.

Lemma pot1_nonneg s : rinv1 s -> 0 <= pot1 s.
Proof.
  intros [He|Hi]; unfold pot1.
  - rewrite He. lia.
  - destruct (l_end_reached s); [lia | apply P1_nonneg; exact Hi].
Qed.

Lemma csm_range s len : 0 <= l_remaining s -> 0 < len ->
  0 <= csm s len <= len /\ (l_remaining s <= U64_HALF -> csm s len <= l_remaining s) /\
  (csm s len = 0 -> l_remaining s = 0).
Proof.
  intros Hr Hl. unfold csm.
  destruct (Z.leb_spec (l_remaining s) U64_HALF); destruct (Z.ltb_spec (l_remaining s) len); cbn [andb]; lia.
Qed.

(* ---- one iteration of read_decode -------------------------------------------------------------- *)
Lemma iter1_total s len : inv1 s -> l_end_reached s = false -> 0 < len ->
  (exists e, lzma1_iter s len = Err e) \/
  exists out s1, lzma1_iter s len = Ok (out, s1) /\ rinv1 s1 /\
    zlen out <= len /\ zlen out + P1 s1 <= P1 s /\ 0 <= P1 s1 /\
    (length (rd_in (l_rc s1)) <= length (rd_in (l_rc s)))%nat /\
    (l_end_reached s1 = false ->
       w_pos (l_win s1) < w_size (l_win s1) /\ (1 <= zlen out \/ w_pos (l_win s) = w_size (l_win s))).
Proof.
  intros (hist & R & Hhb & Hco & Hpd & Hpr & Hwf & Ho & Hsp & Hrem) Hne Hlen.
  destruct (csm_range s len Hrem Hlen) as (Hm & Hmk & Hm0).
  set (m := csm s len) in *.
  destruct (set_limit_rel (l_win s) hist m R ltac:(lia)) as (R' & Hpl').
  destruct (lzma_decode_post (l_coder s) (lzwin_set_limit (l_win s) m) hist (l_rc s) (l_probs s) R' Hhb Hco Hpl' Hpd Hpr Hwf)
    as (c1 & w1 & st & d1 & t1 & hist1 & Hdec & R1 & Hhb1 & Hpr1 & Hwf1 & Esz & Eli & Est & Epos & Hpd1 & Hst & Hlen1 & Hov & Hpot).
  cbn [lzwin_set_limit w_size w_limit w_start w_pos w_pending_len] in Esz, Eli, Est, Epos, Hpot.
  destruct (Z.ltb_spec 0 (rd_over d1)) as [Hov1|Hov0].
  { left. unfold lzma1_iter. fold (csm s len). fold m. rewrite Hdec. cbn [obind].
    destruct (Z.ltb_spec 0 (rd_over d1)); [eexists; reflexivity | lia]. }
  assert (Hd10 : rd_over d1 = 0) by lia.
  specialize (Hpot ltac:(lia) Hd10).
  assert (Hovb : (0 <? rd_over d1) = false) by (apply Z.ltb_ge; lia).
  pose proof (flush_rel w1 hist1 R1) as HF. pose proof (flush_facts w1) as (Ffull & Fpos & Flen).
  pose proof R as [[Hs0 _] [[Hp0 Hp1] Hp2] _ _ _ _ _ Hpe].
  pose proof R1 as [[Hs1 _] [[Hq0 Hq1] Hq2] _ _ _ _ _ Hpe1].
  destruct Hst as [(-> & Hco1 & Hlim)|(e & ->)].
  - (* the decoder filled the window up to the limit *)
    cbn [lzwin_set_limit w_limit w_pos w_size] in Hlim.
    rewrite (iter_of_decode_ok s len c1 w1 d1 t1 Hdec Hovb). cbv zeta.
    destruct (lzwin_flush w1) as [out w2]. cbn [fst snd] in *.
    destruct HF as (_ & R2 & Fst & Fsz & Fli & Fpl & Fpd).
    assert (Hzl : zlen out = w_pos w1 - w_pos (l_win s)) by lia.
    assert (Hzm : zlen out = Z.min m (w_size (l_win s) - w_pos (l_win s))) by lia.
    set (rem1 := if l_remaining s <=? U64_HALF then l_remaining s - zlen out else l_remaining s).
    assert (Hrem1 : 0 <= rem1).
    { unfold rem1. destruct (Z.leb_spec (l_remaining s) U64_HALF) as [Hk|Hk]; [specialize (Hmk Hk); lia | lia]. }
    rewrite Hne. cbn [orb].
    set (end2 := (l_remaining s <=? U64_HALF) && (rem1 =? 0)).
    destruct (end2 && lzwin_has_pending w2); [left; eexists; reflexivity|].
    right. eexists. eexists. split; [reflexivity|].
    cbn [l_coder l_win l_rc l_probs l_end_reached l_remaining].
    split.
    { right. exists hist1. cbn [l_coder l_win l_rc l_probs l_end_reached l_remaining].
      split; [exact R2|]. split; [exact Hhb1|]. split; [rewrite Ffull; exact Hco1|].
      split; [rewrite Fpl, Fpd, Ffull; exact Hpd1|]. split; [exact Hpr1|]. split; [exact Hwf1|].
      split; [exact Hd10|]. split; [exact Fst | exact Hrem1]. }
    split; [lia|]. split; [unfold P1; cbn [l_rc l_win]; lia|].
    split; [unfold P1; cbn [l_rc l_win]; pose proof (mu_nonneg _ Hwf1); destruct R2; lia|].
    split; [exact Hlen1|].
    intros Hend. split; [rewrite Fsz; apply Fpos; lia|].
    destruct (Z.eq_dec m 0) as [Hmz|Hmnz].
    + (* nothing was asked for: only when the declared size is exhausted, and then the call ends *)
      exfalso. specialize (Hm0 Hmz). unfold end2, rem1 in Hend.
      rewrite Hm0 in Hend. change (0 <=? U64_HALF) with true in Hend. cbn [andb] in Hend.
      assert (zlen out = 0) by lia. destruct (Z.eqb_spec (0 - zlen out) 0); [discriminate | lia].
    + destruct (Z.eq_dec (w_pos (l_win s)) (w_size (l_win s))); [right; assumption | left; lia].
  - (* the decoder stopped with an error: the end marker of a stream of unknown size, or fatal *)
    unfold lzma1_iter. fold (csm s len). fold m. rewrite Hdec. cbn [obind]. rewrite Hovb.
    destruct (negb (l_remaining s =? U64_MAX) || negb (c_rep0 c1 =? 4294967295)) eqn:Emk; cbn [obind];
      [left; eexists; reflexivity|].
    destruct (Z.ltb_spec 0 (rd_over (rdec_normalize d1))) as [Hn1|Hn0]; cbn [obind]; [left; eexists; reflexivity|].
    pose proof (normalize_over_mono d1) as Hnm.
    assert (Hn : rd_over (rdec_normalize d1) = 0) by lia.
    destruct (normalize_mu d1 Hwf1 ltac:(lia) Hn) as (Hmun & _).
    destruct (lzwin_flush w1) as [out w2]. cbn [fst snd] in *.
    destruct HF as (_ & R2 & Fst & Fsz & Fli & Fpl & Fpd).
    cbn [orb andb].
    destruct (lzwin_has_pending w2); [left; eexists; reflexivity|].
    right. eexists. eexists. split; [reflexivity|].
    cbn [l_coder l_win l_rc l_probs l_end_reached l_remaining].
    split; [left; reflexivity|].
    split; [lia|]. split; [unfold P1; cbn [l_rc l_win]; lia|].
    split; [unfold P1; cbn [l_rc l_win]; pose proof (mu_nonneg _ (rdec_normalize_range d1 Hwf1)); destruct R2; lia|].
    split; [pose proof (normalize_in_len d1); lia|].
    intros Hx. discriminate.
Qed.

(* ---- the while loop of read_decode ------------------------------------------------------------- *)
Lemma loop1_total fuel : forall s len acc, inv1 s -> l_end_reached s = false -> 0 <= len ->
  len + (if w_pos (l_win s) =? w_size (l_win s) then 1 else 0) <= Z.of_nat fuel ->
  (exists e, lzma1_read_loop fuel s len acc = Err e) \/
  exists new s1, lzma1_read_loop fuel s len acc = Ok (rev acc ++ new, s1) /\ rinv1 s1 /\
    zlen new <= len /\ zlen new + P1 s1 <= P1 s /\ 0 <= P1 s1 /\
    (length (rd_in (l_rc s1)) <= length (rd_in (l_rc s)))%nat /\
    (l_end_reached s1 = false -> zlen new = len).
Proof.
  induction fuel as [|f IH]; intros s len acc Hi Hne Hlen Hf.
  - assert (len = 0) by (destruct (w_pos (l_win s) =? w_size (l_win s)); lia). subst len.
    cbn [lzma1_read_loop]. change (0 <=? 0) with true. cbv iota.
    right. exists [], s. rewrite frev_rev, app_nil_r. split; [reflexivity|]. split; [right; exact Hi|].
    pose proof (P1_nonneg s Hi). change (zlen (@nil Z)) with 0. repeat split; lia.
  - cbn [lzma1_read_loop]. destruct (Z.leb_spec len 0) as [Hz|Hpos].
    + right. exists [], s. rewrite frev_rev, app_nil_r. split; [reflexivity|]. split; [right; exact Hi|].
      pose proof (P1_nonneg s Hi). change (zlen (@nil Z)) with 0. repeat split; lia.
    + destruct (iter1_total s len Hi Hne Hpos) as [(e & He)|(out & s2 & Hit & Hi2 & Hol & Hpot & Hp2 & Hin & Hprog)].
      * left. rewrite He. cbn [obind]. eexists; reflexivity.
      * rewrite Hit. cbn [obind]. pose proof (zlen_nonneg out) as Ho0.
        destruct (l_end_reached s2) eqn:Eend.
        -- right. exists out, s2. rewrite frev_rev, rev_append_rev, rev_app_distr, rev_involutive.
           split; [reflexivity|]. split; [exact Hi2|]. split; [lia|]. split; [lia|]. split; [lia|]. split; [lia|]. intros Hx; congruence.
        -- destruct (Hprog eq_refl) as (Hroom & Hadv).
           assert (Hi2' : inv1 s2) by (destruct Hi2 as [Hx|Hx]; [congruence | exact Hx]).
           assert (Hf2 : len - zlen out + (if w_pos (l_win s2) =? w_size (l_win s2) then 1 else 0) <= Z.of_nat f).
           { destruct (Z.eqb_spec (w_pos (l_win s2)) (w_size (l_win s2))); [lia|].
             destruct (Z.eqb_spec (w_pos (l_win s)) (w_size (l_win s))); destruct Hadv as [Hadv|Hadv]; lia. }
           destruct (IH s2 (len - zlen out) (rev_append out acc) Hi2' Eend ltac:(lia) Hf2)
             as [(e & He)|(new & s1 & Hl & Hi1 & Hnl & Hpot1 & Hp1 & Hin1 & Hfull)].
           ++ left. rewrite He. eexists; reflexivity.
           ++ right. exists (out ++ new), s1.
              rewrite Hl, rev_append_rev, rev_app_distr, rev_involutive, <- app_assoc.
              split; [reflexivity|]. split; [exact Hi1|]. rewrite zlen_app.
              split; [lia|]. split; [lia|]. split; [lia|]. split; [lia|]. intros Hx. specialize (Hfull Hx). lia.
Qed.

(* ---- read(buf) ---------------------------------------------------------------------------------- *)
Theorem read1_total s n : rinv1 s ->
  (exists e, lzma1_read s n = Err e) \/
  exists out s1, lzma1_read s n = Ok (out, s1) /\ rinv1 s1 /\
    zlen out <= Z.max 0 n /\ zlen out + pot1 s1 <= pot1 s /\
    (length (rd_in (l_rc s1)) <= length (rd_in (l_rc s)))%nat /\
    (l_end_reached s1 = false -> 0 < n -> zlen out = n).
Proof.
  intros Hi. unfold lzma1_read.
  destruct (Z.leb_spec n 0) as [Hz|Hpos].
  { right. exists [], s. split; [reflexivity|]. split; [exact Hi|]. change (zlen (@nil Z)) with 0. repeat split; lia. }
  destruct (l_end_reached s) eqn:Eend.
  { right. exists [], s. split; [reflexivity|]. split; [exact Hi|]. change (zlen (@nil Z)) with 0.
    split; [lia|]. split; [lia|]. split; [lia|]. intros Hx _. congruence. }
  assert (Hi' : inv1 s) by (destruct Hi as [Hx|Hx]; [congruence | exact Hx]).
  destruct (loop1_total (Z.to_nat (n + 2)) s n [] Hi' Eend ltac:(lia)
              ltac:(destruct (w_pos (l_win s) =? w_size (l_win s)); lia))
    as [(e & He)|(new & s1 & Hl & Hi1 & Hnl & Hpot & Hp1 & Hin & Hfull)].
  - left. exists e. exact He.
  - right. exists new, s1. cbn [rev app] in Hl. split; [exact Hl|]. split; [exact Hi1|].
    split; [lia|]. split.
    { unfold pot1. rewrite Eend. destruct (l_end_reached s1); lia. }
    split; [exact Hin|]. intros Hx _. exact (Hfull Hx).
Qed.

(* ---- a whole read history ----------------------------------------------------------------------- *)
Lemma read_all_g fuel : forall s cur all acc,
  lzma1_read_all fuel s cur all acc =
  match g_obs lzma1 lzma1_read fuel s cur all acc with
  | (out, s1, GEnd) => Ok (out, s1)
  | (_, _, GErr e) => Err e
  | (_, _, GPanic e) => Panic e
  | (_, _, GFuel) => Fuel
  end.
Proof.
  induction fuel as [|f IH]; intros s cur all acc; cbn [lzma1_read_all g_obs]; [reflexivity|].
  destruct (match cur with [] => (4096, all) | x :: r => (x, r) end) as [sz rest].
  destruct (lzma1_read s sz) as [[out s1]|e|e|]; cbn [obind]; try reflexivity.
  destruct ((0 <? sz) && (zlen out =? 0)); [reflexivity | apply IH].
Qed.

Lemma lead0_exists l : Exists (fun z => 0 < z) l -> lead0 l < zlen l.
Proof.
  induction 1 as [x r Hx|x r _ IH]; cbn [lead0]; rewrite zlen_cons; pose proof (zlen_nonneg r).
  - destruct (Z.ltb_spec 0 x); lia.
  - destruct (0 <? x); lia.
Qed.

Definition sizes_ok (all : list Z) : Prop := all = [] \/ Exists (fun z => 0 < z) all.

Lemma sizes_ok_lead0 all : sizes_ok all -> all = [] \/ lead0 all < zlen all.
Proof. intros [H|H]; [left; exact H | right; apply lead0_exists; exact H]. Qed.

Lemma ra_fuel_mono sizes all p q : 0 <= p <= q -> (ra_fuel sizes all p <= ra_fuel sizes all q)%nat.
Proof.
  intros H. unfold ra_fuel. pose proof (zlen_nonneg sizes). pose proof (zlen_nonneg all).
  apply Z2Nat.inj_le; [nia | nia|]. apply Z.mul_le_mono_nonneg_r; lia.
Qed.

Theorem lzma1_read_all_inv : forall s0 sizes all fuel, rinv1 s0 -> sizes_ok all ->
  (ra_fuel sizes all (pot1 s0) <= fuel)%nat ->
  (exists out s1, lzma1_read_all fuel s0 sizes all [] = Ok (out, s1) /\ zlen out <= pot1 s0) \/
  (exists e, lzma1_read_all fuel s0 sizes all [] = Err e).
Proof.
  intros s0 sizes all fuel Hi Hall Hfuel.
  assert (Hstep : forall s n, rinv1 s -> 0 < n ->
            (exists e, lzma1_read s n = Err e) \/
            exists out s1, lzma1_read s n = Ok (out, s1) /\ rinv1 s1 /\ zlen out + pot1 s1 <= pot1 s).
  { intros s n Hs _. destruct (read1_total s n Hs) as [He|(out & s1 & Hr & Hi1 & _ & Hp & _)]; [left; exact He|].
    right. exists out, s1. auto. }
  destruct (g_obs_total lzma1 lzma1_read rinv1 pot1 pot1_nonneg lzma1_read_zero Hstep fuel s0 sizes all []
              Hi (sizes_ok_lead0 all Hall) Hfuel) as (new & s' & E1 & E2 & Hi' & Hpot & Hend).
  rewrite read_all_g.
  destruct (g_obs lzma1 lzma1_read fuel s0 sizes all []) as [[out s1] en]. cbn [fst snd rev app] in *. subst out s1.
  pose proof (pot1_nonneg s' Hi').
  destruct Hend as [->|(e & ->)]; [left; exists new, s'; split; [reflexivity | lia] | right; exists e; reflexivity].
Qed.

(* ---- construction ------------------------------------------------------------------------------- *)
Definition preset_bytes (preset : option (list Z)) : Prop :=
  match preset with Some p => bytes_ok p = true | None => True end.

Lemma get_dict_size_any x : match lzma1_get_dict_size x with
                            | Ok r => 0 < r /\ r mod 16 = 0
                            | Err _ => True
                            | _ => False
                            end.
Proof. unfold lzma1_get_dict_size. destruct (DICT_SIZE_MAX <? x); [exact I | lia]. Qed.

Lemma lzwin_new_inv ds preset : 0 < ds -> ds mod 16 = 0 -> preset_bytes preset ->
  exists hist, Rel (lzwin_new ds preset) hist /\ hist_bytes hist /\
    w_start (lzwin_new ds preset) = w_pos (lzwin_new ds preset) /\ w_pending_len (lzwin_new ds preset) = 0.
Proof.
  intros Hds H16 Hp. destruct preset as [p|].
  - eexists. split; [apply lzwin_new_preset_rel; assumption|]. split; [|split; reflexivity].
    apply hist_bytes_in. intros x Hx. apply in_rev in Hx. unfold lastn in Hx. apply In_skipn in Hx.
    exact (bytes_ok_in _ _ Hp Hx).
  - exists []. split; [apply lzwin_new_rel; assumption|]. split; [|split; reflexivity].
    apply hist_bytes_in. intros x [].
Qed.

Lemma rdec_init_wf input d : rdec_init input = Ok d ->
  rdec_wf d /\ rd_over d = 0 /\ rd_range d = 4294967295 /\ (length (rd_in d) + 5 = length input)%nat.
Proof.
  unfold rdec_init. destruct input as [|b0 [|b1 [|b2 [|b3 [|b4 r]]]]]; try discriminate;
    try (destruct (negb (b0 =? 0)); discriminate).
  destruct (negb (b0 =? 0)); [discriminate|]. intros H. apply Ok_inj in H. subst d.
  unfold rdec_wf. cbn [rd_range rd_over rd_in length]. repeat split; lia.
Qed.

Lemma lev_init : lev 4294967295 = 364.
Proof. rewrite lev_unfold by lia. apply lev_top. Qed.

(* construct2: every parameter vector; the reader it returns satisfies the invariant and can
   return at most 8000 bytes per source byte *)
Theorem construct2_inv input uncomp lc lp pb dict preset :
  0 <= lc -> 0 <= lp -> 0 <= pb -> 0 <= uncomp -> preset_bytes preset ->
  match lzma1_construct2 input uncomp lc lp pb dict preset with
  | Ok s0 => inv1 s0 /\ l_end_reached s0 = false /\ pot1 s0 <= 8000 * zlen input /\
             (length (rd_in (l_rc s0)) <= length input)%nat
  | Err _ => True
  | _ => False
  end.
Proof.
  intros Hlc Hlp Hpb Hu Hpre. unfold lzma1_construct2.
  destruct (Z.ltb_spec 8 lc); [exact I|]. destruct (Z.ltb_spec 4 lp); [exact I|]. destruct (Z.ltb_spec 4 pb); [exact I|].
  cbn [orb].
  pose proof (get_dict_size_any dict) as G0.
  destruct (lzma1_get_dict_size dict) as [ds|e|e|]; cbn [obind]; try contradiction; [|exact I].
  match goal with |- context [if ?c then lzma1_get_dict_size (wrap32 uncomp) else Ok ds] =>
    assert (G1 : match (if c then lzma1_get_dict_size (wrap32 uncomp) else Ok ds) with
                 | Ok r => True | Err _ => True | _ => False end)
      by (destruct c; [pose proof (get_dict_size_any (wrap32 uncomp)) as G; destruct (lzma1_get_dict_size (wrap32 uncomp)); auto | exact I]);
    destruct (if c then lzma1_get_dict_size (wrap32 uncomp) else Ok ds) as [ds1|e|e|] end;
    cbn [obind]; try contradiction; [|exact I].
  destruct (rdec_init input) as [d0|e|e|] eqn:Ei; cbn [obind]; try exact I;
    try (unfold rdec_init in Ei; destruct input as [|b0 [|b1 [|b2 [|b3 [|b4 r]]]]]; try discriminate;
         destruct (negb (b0 =? 0)); discriminate).
  pose proof (get_dict_size_any ds1) as G2.
  destruct (lzma1_get_dict_size ds1) as [ds2|e|e|]; cbn [obind]; try contradiction; [|exact I].
  destruct G2 as (Hds2 & H16).
  destruct (rdec_init_wf input d0 Ei) as (Hwf & Hov & Hrange & Hlen).
  destruct (lzwin_new_inv ds2 preset Hds2 H16 Hpre) as (hist & R & Hhb & Hst & Hpl).
  split; [|split; [reflexivity|split]].
  - exists hist. cbn [l_coder l_win l_rc l_probs l_end_reached l_remaining].
    split; [exact R|]. split; [exact Hhb|]. split; [apply coder_new_ok; lia|].
    split; [rewrite Hpl; lia|]. split; [apply probs_ok_empty|]. split; [exact Hwf|].
    split; [exact Hov|]. split; [exact Hst | exact Hu].
  - unfold pot1, P1, mu, MU_BYTE. cbn [l_coder l_win l_rc l_probs l_end_reached l_remaining].
    rewrite Hpl, Hrange, lev_init. unfold zlen. lia.
  - cbn [l_rc]. lia.
Qed.

(* construct1 (new_with_props): the properties byte *)
Theorem construct1_inv input uncomp props dict preset :
  0 <= props -> 0 <= uncomp -> preset_bytes preset ->
  match lzma1_construct1 input uncomp props dict preset with
  | Ok s0 => inv1 s0 /\ l_end_reached s0 = false /\ pot1 s0 <= 8000 * zlen input /\
             (length (rd_in (l_rc s0)) <= length input)%nat
  | Err _ => True
  | _ => False
  end.
Proof.
  intros Hp Hu Hpre. unfold lzma1_construct1. destruct (Z.ltb_spec 224 props); [exact I|]. cbv zeta.
  destruct (DICT_SIZE_MAX <? dict); [exact I|].
  set (pbv := props / 45). set (r := props - pbv * 45). set (lpv := r / 9). set (lcv := r - lpv * 9).
  apply construct2_inv; try assumption; unfold lcv, lpv, r, pbv; lia.
Qed.

(* the .lzma header: props byte, dictionary size, declared size, memory limit *)
Lemma le_value_4 d0 d1 d2 d3 : bytes_ok [d0; d1; d2; d3] = true -> 0 <= le_value [d0; d1; d2; d3] < 4294967296.
Proof. intros H. apply (le_value_bound [d0; d1; d2; d3]) in H. exact H. Qed.

Lemma memory_usage_total dict lc lp : 0 <= dict -> 0 <= lc -> 0 <= lp ->
  match lzma1_memory_usage dict lc lp with Ok _ | Err _ => True | _ => False end.
Proof.
  intros Hd Hlc Hlp. unfold lzma1_memory_usage.
  destruct (Z.ltb_spec 8 lc); [exact I|]. destruct (Z.ltb_spec 4 lp); [exact I|]. cbn [orb].
  unfold lzma1_get_dict_size. destruct (Z.ltb_spec DICT_SIZE_MAX dict); cbn [obind]; [exact I|].
  assert (Hs : Z.shiftl 1536 (lc + lp) <= 6291456).
  { rewrite Z.shiftl_mul_pow2 by lia. assert (2 ^ (lc + lp) <= 2 ^ 12) by (apply Z.pow_le_mono_r; lia).
    change (2 ^ 12) with 4096 in *. lia. }
  assert (Hs0 : 0 <= Z.shiftl 1536 (lc + lp)) by (apply Z.shiftl_nonneg; lia).
  unfold P2_32, DICT_SIZE_MAX in *.
  destruct (Z.leb_spec 4294967296 (Z.shiftl 1536 (lc + lp))); [lia|].
  match goal with |- context [4294967296 <=? ?m] => destruct (Z.leb_spec 4294967296 m); [lia | exact I] end.
Qed.

Theorem new_mem_limit_inv input mem preset : bytes_ok input = true -> preset_bytes preset ->
  match lzma1_new_mem_limit input mem preset with
  | Ok s0 => inv1 s0 /\ l_end_reached s0 = false /\ pot1 s0 <= 8000 * zlen input /\
             (length (rd_in (l_rc s0)) <= length input)%nat
  | Err _ => True
  | _ => False
  end.
Proof.
  intros Hb Hpre. unfold lzma1_new_mem_limit.
  destruct input as [|props [|d0 [|d1 [|d2 [|d3 [|s0 [|s1 [|s2 [|s3 [|s4 [|s5 [|s6 [|s7 rest]]]]]]]]]]]]]; try exact I.
  change (props :: d0 :: d1 :: d2 :: d3 :: s0 :: s1 :: s2 :: s3 :: s4 :: s5 :: s6 :: s7 :: rest)
    with ([props] ++ [d0; d1; d2; d3] ++ [s0; s1; s2; s3; s4; s5; s6; s7] ++ rest) in Hb.
  apply bytes_ok_app in Hb as (Hbp & Hb). apply bytes_ok_app in Hb as (Hbd & Hb). apply bytes_ok_app in Hb as (Hbs & _).
  pose proof (le_value_4 _ _ _ _ Hbd) as Hd.
  pose proof (le_value_bound _ Hbs) as Hs. change (256 ^ zlen [s0; s1; s2; s3; s4; s5; s6; s7]) with 18446744073709551616 in Hs.
  apply bytes_ok_cons in Hbp as (Hp & _).
  set (dict := le_value [d0; d1; d2; d3]) in *. set (uncomp := le_value [s0; s1; s2; s3; s4; s5; s6; s7]) in *.
  (* the memory estimate *)
  assert (Hmu : match lzma1_memory_usage_by_props dict props with Ok _ | Err _ => True | _ => False end).
  { unfold lzma1_memory_usage_by_props. destruct (DICT_SIZE_MAX <? dict); [exact I|]. destruct (224 <? props); [exact I|].
    cbv zeta. apply memory_usage_total; lia. }
  destruct (lzma1_memory_usage_by_props dict props) as [need|e|e|]; cbn [obind]; try contradiction; [|exact I].
  destruct (mem <? need); [exact I|].
  unfold lzma1_construct1. destruct (Z.ltb_spec 224 props); [exact I|]. cbv zeta.
  destruct (DICT_SIZE_MAX <? dict); [exact I|].
  set (pbv := props / 45). set (r := props - pbv * 45). set (lpv := r / 9). set (lcv := r - lpv * 9).
  pose proof (construct2_inv rest uncomp lcv lpv pbv dict preset ltac:(unfold lcv, lpv, r, pbv; lia)
                ltac:(unfold lpv, r, pbv; lia) ltac:(unfold pbv; lia) ltac:(lia) Hpre) as HC.
  destruct (lzma1_construct2 rest uncomp lcv lpv pbv dict preset) as [st|e|e|]; try exact HC.
  destruct HC as (Hi & He & Hpot & Hlen). split; [exact Hi|]. split; [exact He|].
  pose proof (zlen_nonneg rest). split; [rewrite !zlen_cons; lia | cbn [length]; lia].
Qed.

(* ---- LZMAReader: total on arbitrary input ------------------------------------------------------- *)
Definition total1 (o : outcome (list Z * lzma1)) (bound : Z) : Prop :=
  (exists out s1, o = Ok (out, s1) /\ zlen out <= bound) \/ (exists e, o = Err e).

Theorem lzma1_raw_total : forall input uncomp lc lp pb dict preset sizes all fuel,
  0 <= lc -> 0 <= lp -> 0 <= pb -> 0 <= uncomp -> preset_bytes preset -> sizes_ok all ->
  (ra_fuel sizes all (8000 * zlen input) <= fuel)%nat ->
  match lzma1_construct2 input uncomp lc lp pb dict preset with
  | Ok s0 => total1 (lzma1_read_all fuel s0 sizes all []) (8000 * zlen input)
  | Err _ => True
  | _ => False
  end.
Proof.
  intros input uncomp lc lp pb dict preset sizes all fuel Hlc Hlp Hpb Hu Hpre Hall Hfuel.
  pose proof (construct2_inv input uncomp lc lp pb dict preset Hlc Hlp Hpb Hu Hpre) as HC.
  destruct (lzma1_construct2 input uncomp lc lp pb dict preset) as [s0|e|e|]; try exact HC.
  destruct HC as (Hi & He & Hpot & _).
  pose proof (pot1_nonneg s0 (or_intror Hi)) as Hp0.
  destruct (lzma1_read_all_inv s0 sizes all fuel (or_intror Hi) Hall
              ltac:(pose proof (ra_fuel_mono sizes all (pot1 s0) (8000 * zlen input) ltac:(lia)); lia))
    as [(out & s1 & Hr & Hz)|(e & Hr)].
  - left. exists out, s1. split; [exact Hr | lia].
  - right. exists e. exact Hr.
Qed.

Theorem lzma1_hdr_total : forall input mem preset sizes all fuel,
  bytes_ok input = true -> preset_bytes preset -> sizes_ok all ->
  (ra_fuel sizes all (8000 * zlen input) <= fuel)%nat ->
  match lzma1_new_mem_limit input mem preset with
  | Ok s0 => total1 (lzma1_read_all fuel s0 sizes all []) (8000 * zlen input)
  | Err _ => True
  | _ => False
  end.
Proof.
  intros input mem preset sizes all fuel Hb Hpre Hall Hfuel.
  pose proof (new_mem_limit_inv input mem preset Hb Hpre) as HC.
  destruct (lzma1_new_mem_limit input mem preset) as [s0|e|e|]; try exact HC.
  destruct HC as (Hi & He & Hpot & _).
  pose proof (pot1_nonneg s0 (or_intror Hi)) as Hp0.
  destruct (lzma1_read_all_inv s0 sizes all fuel (or_intror Hi) Hall
              ltac:(pose proof (ra_fuel_mono sizes all (pot1 s0) (8000 * zlen input) ltac:(lia)); lia))
    as [(out & s1 & Hr & Hz)|(e & Hr)].
  - left. exists out, s1. split; [exact Hr | lia].
  - right. exists e. exact Hr.
Qed.

(* the hypothesis on the cycled sizes is needed: with zero-size buffers only, a read history never
   reaches a call that could report the end (every such read() is a no-op) *)
Lemma read_all_zero_sizes_fuel fuel : forall s acc, lzma1_read_all fuel s [0] [0] acc = Fuel.
Proof.
  induction fuel as [|f IH]; intros s acc; cbn [lzma1_read_all]; [reflexivity|].
  rewrite (lzma1_read_zero s 0 ltac:(lia)). cbn [obind]. change (0 <? 0) with false. cbn [andb rev_append]. apply IH.
Qed.

Theorem lzma1_props_total : forall input uncomp props dict preset sizes all fuel,
  0 <= props -> 0 <= uncomp -> preset_bytes preset -> sizes_ok all ->
  (ra_fuel sizes all (8000 * zlen input) <= fuel)%nat ->
  match lzma1_construct1 input uncomp props dict preset with
  | Ok s0 => total1 (lzma1_read_all fuel s0 sizes all []) (8000 * zlen input)
  | Err _ => True
  | _ => False
  end.
Proof.
  intros input uncomp props dict preset sizes all fuel Hp Hu Hpre Hall Hfuel.
  pose proof (construct1_inv input uncomp props dict preset Hp Hu Hpre) as HC.
  destruct (lzma1_construct1 input uncomp props dict preset) as [s0|e|e|]; try exact HC.
  destruct HC as (Hi & He & Hpot & _).
  pose proof (pot1_nonneg s0 (or_intror Hi)) as Hp0.
  destruct (lzma1_read_all_inv s0 sizes all fuel (or_intror Hi) Hall
              ltac:(pose proof (ra_fuel_mono sizes all (pot1 s0) (8000 * zlen input) ltac:(lia)); lia))
    as [(out & s1 & Hr & Hz)|(e & Hr)].
  - left. exists out, s1. split; [exact Hr | lia].
  - right. exists e. exact Hr.
Qed.

Print Assumptions read1_total.
Print Assumptions lzma1_props_total.
Print Assumptions lzma1_raw_total.
Print Assumptions lzma1_hdr_total.
