(* Codec/Lzma2FrameSyncProofs.v — whatever the LZMA2 writer model (LzmaWriters.v: l2_step, l2_steps,
   lzma2_write) accepts and writes is a well-formed chunk sequence in the sense of
   Lzma2SpecProofs.v ([chunks_ok]).  The four flags of the writer only occur in the combinations
   named by [rlevel]; a writer state at a chunk boundary is described by [wb]. *)
From LzVerif Require Import Base.Bytes Codec.Store Codec.Range Codec.ProbProofs Codec.LzWindow Codec.LzmaDec
  Codec.LzmaEnc Codec.LzmaAbs Codec.LzWindowProofs Codec.ProgProofs Codec.LzmaAbsProofs
  Codec.RangeEncProofs Codec.RangeProofs Codec.LzmaSymProofs Codec.LzmaRoundtrip Codec.LzmaWriters
  Codec.Lzma2SpecProofs Codec.Lzma2BitsProofs.
Ltac Zify.zify_post_hook ::= Z.div_mod_to_equations.

Definition l2_no_end (evs : list l2ev) : Prop := forall ev, In ev evs -> ev <> L2Sym SEnd.
Definition start_level (preset : option (list Z)) : rlevel :=
  match preset with Some (_ :: _) => RProps | _ => RDict end.
Definition preset_list (preset : option (list Z)) : list Z :=
  match preset with Some p => p | None => [] end.

(* ---- list facts ------------------------------------------------------------------------------ *)
Lemma rev_l2_emit out bytes : rev (l2_emit out bytes) = rev out ++ bytes.
Proof. unfold l2_emit. rewrite rev_append_rev, rev_app_distr, rev_involutive. reflexivity. Qed.

Lemma l2_steps_app lc lp pb a : forall s b,
  l2_steps lc lp pb s (a ++ b) = obind (l2_steps lc lp pb s a) (fun s1 => l2_steps lc lp pb s1 b).
Proof.
  induction a as [|ev r IH]; intros s b; cbn [app l2_steps]; [reflexivity|].
  destruct (l2_step lc lp pb s ev) as [s1|code|code|]; cbn [obind]; auto.
Qed.

Definition not_sym (ev : l2ev) : Prop := forall x, ev <> L2Sym x.

(* the symbols up to the first chunk event *)
Lemma l2_split evs : exists syms rest, evs = map L2Sym syms ++ rest /\
  (rest = [] \/ exists cev rest', rest = cev :: rest' /\ not_sym cev).
Proof.
  induction evs as [|ev r IH].
  - exists [], []. split; [reflexivity | left; reflexivity].
  - destruct IH as (syms & rest & Heq & Hrest).
    destruct ev as [x|u c|u|].
    + exists (x :: syms), rest. split; [cbn [map app]; rewrite Heq; reflexivity | exact Hrest].
    + exists [], (L2Lzma u c :: r). split; [reflexivity|]. right. exists (L2Lzma u c), r.
      split; [reflexivity|]. intros x; discriminate.
    + exists [], (L2Unc u :: r). split; [reflexivity|]. right. exists (L2Unc u), r.
      split; [reflexivity|]. intros x; discriminate.
    + exists [], (L2New :: r). split; [reflexivity|]. right. exists L2New, r.
      split; [reflexivity|]. intros x; discriminate.
Qed.

Lemma l2_no_end_app a b : l2_no_end (a ++ b) -> l2_no_end a /\ l2_no_end b.
Proof.
  intros H. split; intros ev Hin; apply H; apply in_or_app; [left | right]; exact Hin.
Qed.

Lemma l2_no_end_tail ev r : l2_no_end (ev :: r) -> l2_no_end r.
Proof. intros H x Hin. apply H. right. exact Hin. Qed.

Lemma l2_no_end_syms syms : l2_no_end (map L2Sym syms) -> no_end syms.
Proof.
  intros H s Hin Heq. apply (H (L2Sym s)); [apply in_map; exact Hin | rewrite Heq; reflexivity].
Qed.

(* ---- running symbols -------------------------------------------------------------------------- *)
Lemma enc_step_inv s x s1 : enc_step s x = Ok s1 ->
  exists evs c1 h1, enc_symbol (es_coder s) (es_hist s) x = Ok (evs, c1, h1) /\
    s1 = mkEncst c1 h1 (fst (renc_events (es_rc s) (es_probs s) evs))
                       (snd (renc_events (es_rc s) (es_probs s) evs)).
Proof.
  unfold enc_step. intros H. apply obind_ok in H as ([[evs c1] h1] & He & H).
  cbv beta iota in H.
  exists evs, c1, h1. split; [exact He|].
  destruct (renc_events (es_rc s) (es_probs s) evs) as [e1 t1]. apply Ok_inj in H.
  rewrite <- H. reflexivity.
Qed.

Definition with_enc (s : l2st) (e : encst) : l2st :=
  mkL2st e (w_chunk_start s) (w_dict_reset_needed s) (w_state_reset_needed s) (w_props_needed s)
         (w_force_independent s) (w_out s).

Lemma run_syms lc lp pb syms : forall s s',
  l2_steps lc lp pb s (map L2Sym syms) = Ok s' ->
  exists E c' h',
    enc_syms (es_coder (w_enc s)) (es_hist (w_enc s)) syms = Ok (E, c', h') /\
    s' = with_enc s (mkEncst c' h' (fst (renc_events (es_rc (w_enc s)) (es_probs (w_enc s)) E))
                                   (snd (renc_events (es_rc (w_enc s)) (es_probs (w_enc s)) E))).
Proof.
  induction syms as [|x r IH]; intros s s' H.
  - cbn [map l2_steps] in H. apply Ok_inj in H. subst s'.
    exists [], (es_coder (w_enc s)), (es_hist (w_enc s)). split; [reflexivity|].
    cbn [renc_events fst snd]. destruct s as [[c h e t] a b0 b1 b2 b3 o]. reflexivity.
  - cbn [map l2_steps] in H. apply obind_ok in H as (s1 & Hs & H).
    cbn [l2_step] in Hs. apply obind_ok in Hs as (e1 & He & Hs). apply Ok_inj in Hs.
    apply enc_step_inv in He as (evs & c1 & h1 & Hsym & He1).
    apply IH in H as (E & c' & h' & Hsyms & Hs').
    subst s1 e1. cbn [w_enc es_coder es_hist es_rc es_probs] in Hsyms, Hs'.
    exists (evs ++ E), c', h'. split.
    + cbn [enc_syms]. rewrite Hsym. cbn [obind fst snd]. rewrite Hsyms. cbn [obind fst snd]. reflexivity.
    + rewrite renc_events_app. exact Hs'.
Qed.

Lemma enc_syms_nil c h E c' h' : enc_syms c h [] = Ok (E, c', h') -> E = [] /\ c' = c /\ h' = h.
Proof.
  cbn [enc_syms]. intros H. apply Ok_inj in H. apply pair_inj in H as [H <-].
  apply pair_inj in H as [<- <-]. auto.
Qed.

Lemma h_at_pos h : h_at h (h_pos h) = h.
Proof. destruct h as [d t b p k]. reflexivity. Qed.

Lemma h_at_same h h' p : h_data h' = h_data h -> h_total h' = h_total h -> h_base h' = h_base h ->
  h_dict h' = h_dict h -> h_at h' p = h_at h p.
Proof. intros H1 H2 H3 H4. unfold h_at. rewrite H1, H2, H3, H4. reflexivity. Qed.

Lemma after_unc_idem r : after_unc (after_unc r) = after_unc r.
Proof. destruct r; reflexivity. Qed.

(* ---------------------------------------------------------------------------------------------- *)
Section Sync.
Variables lc lp pb : Z.

Definition level_of (s : l2st) : rlevel :=
  if w_dict_reset_needed s then RDict else if w_props_needed s then RProps
  else if w_state_reset_needed s then RState else RNone (es_coder (w_enc s)) (es_probs (w_enc s)).

(* writer at a chunk boundary *)
Record wb (s : l2st) : Prop := {
  wb_rc : es_rc (w_enc s) = renc_init;
  wb_start : w_chunk_start s = h_pos (es_hist (w_enc s));
  wb_flags : (w_dict_reset_needed s = true -> w_props_needed s = true) /\
             (w_props_needed s = true -> w_state_reset_needed s = true) /\
             (w_force_independent s = true -> w_dict_reset_needed s = true);
  wb_fresh : w_state_reset_needed s = true ->
             es_coder (w_enc s) = coder_new lc lp pb /\ es_probs (w_enc s) = PLeaf;
  wb_params : coder_params (es_coder (w_enc s)) lc lp pb;
  wb_dict : h_dict (es_hist (w_enc s)) <= 2147483648 }.

(* the four flag combinations *)
Lemma wb_cases s : wb s ->
  (w_dict_reset_needed s = true /\ w_props_needed s = true /\ w_state_reset_needed s = true /\
   level_of s = RDict) \/
  (w_dict_reset_needed s = false /\ w_props_needed s = true /\ w_state_reset_needed s = true /\
   w_force_independent s = false /\ level_of s = RProps) \/
  (w_dict_reset_needed s = false /\ w_props_needed s = false /\ w_state_reset_needed s = true /\
   w_force_independent s = false /\ level_of s = RState) \/
  (w_dict_reset_needed s = false /\ w_props_needed s = false /\ w_state_reset_needed s = false /\
   w_force_independent s = false /\ level_of s = RNone (es_coder (w_enc s)) (es_probs (w_enc s))).
Proof.
  intros Hwb. destruct (wb_flags s Hwb) as (F1 & F2 & F3). unfold level_of.
  destruct (w_dict_reset_needed s), (w_props_needed s), (w_state_reset_needed s), (w_force_independent s);
    try (discriminate (F1 eq_refl)); try (discriminate (F2 eq_refl)); try (discriminate (F3 eq_refl));
    tauto.
Qed.

Lemma wb_level_start s : wb s ->
  start_coder lc lp pb (level_of s) = es_coder (w_enc s) /\ start_probs (level_of s) = es_probs (w_enc s).
Proof.
  intros Hwb. pose proof (wb_fresh s Hwb) as Hf.
  destruct (wb_cases s Hwb) as [(_ & _ & S & ->) | [(_ & _ & S & _ & ->) | [(_ & _ & S & _ & ->) | (_ & _ & _ & _ & ->)]]];
    cbn [start_coder start_probs]; try (destruct (Hf S) as [-> ->]); auto.
Qed.

Lemma wb_level_dict s : wb s -> (w_dict_reset_needed s = true <-> level_of s = RDict).
Proof.
  intros Hwb.
  destruct (wb_cases s Hwb) as [(D & _ & _ & ->) | [(D & _ & _ & _ & ->) | [(D & _ & _ & _ & ->) | (D & _ & _ & _ & ->)]]];
    rewrite D; split; intros H; try reflexivity; discriminate H.
Qed.

Lemma wb_level_after_unc s : wb s ->
  (if w_props_needed s then RProps else RState) = after_unc (level_of s).
Proof.
  intros Hwb.
  destruct (wb_cases s Hwb) as [(_ & P & _ & ->) | [(_ & P & _ & _ & ->) | [(_ & P & _ & _ & ->) | (_ & P & _ & _ & ->)]]];
    rewrite P; reflexivity.
Qed.

(* the header write_lzma emits is the specification's *)
Lemma wb_lzma_header s usize csize : wb s ->
  (if w_props_needed s
   then [wrap8 (Z.lor (if w_props_needed s || w_force_independent s
                       then (if w_dict_reset_needed s || w_force_independent s then 224 else 192)
                       else if w_state_reset_needed s then 160 else 128) (Z.shiftr (usize - 1) 16));
         wrap8 (Z.shiftr (usize - 1) 8); wrap8 (usize - 1);
         wrap8 (Z.shiftr (csize - 1) 8); wrap8 (csize - 1)] ++ [props_byte lc lp pb]
   else [wrap8 (Z.lor (if w_props_needed s || w_force_independent s
                       then (if w_dict_reset_needed s || w_force_independent s then 224 else 192)
                       else if w_state_reset_needed s then 160 else 128) (Z.shiftr (usize - 1) 16));
         wrap8 (Z.shiftr (usize - 1) 8); wrap8 (usize - 1);
         wrap8 (Z.shiftr (csize - 1) 8); wrap8 (csize - 1)])
  = lzma_header lc lp pb (level_of s) usize csize.
Proof.
  intros Hwb. unfold lzma_header.
  destruct (wb_cases s Hwb) as [(D & P & S & ->) | [(D & P & S & F & ->) | [(D & P & S & F & ->) | (D & P & S & F & ->)]]];
    rewrite D, P, S; try rewrite F; cbn [orb lzma_ctl0 has_props]; try rewrite app_nil_r; reflexivity.
Qed.

(* ---- write_uncompressed ----------------------------------------------------------------------- *)
Lemma unc_chunks_ok : forall fuel h start size d out,
  0 <= size -> size <= 65536 * Z.of_nat fuel -> start + size <= h_total h ->
  exists X, rev (l2_unc_chunks fuel h start size d out) = rev out ++ X /\
    forall r bytes, (d = true <-> r = RDict) ->
      chunks_ok lc lp pb (if 0 <? size then after_unc r else r) (h_at h (start + size)) bytes ->
      chunks_ok lc lp pb r (h_at h start) (X ++ bytes).
Proof.
  induction fuel as [|f IH]; intros h start size d out H0 Hf Ht.
  - assert (size = 0) by lia. subst size. exists []. cbn [l2_unc_chunks].
    split; [rewrite app_nil_r; reflexivity|].
    intros r bytes _ Hc. change (0 <? 0) with false in Hc. cbv iota in Hc.
    rewrite Z.add_0_r in Hc. exact Hc.
  - cbn [l2_unc_chunks]. destruct (Z.leb_spec size 0) as [Hle|Hgt].
    + assert (size = 0) by lia. subst size. exists [].
      split; [rewrite app_nil_r; reflexivity|].
      intros r bytes _ Hc. change (0 <? 0) with false in Hc. cbv iota in Hc.
      rewrite Z.add_0_r in Hc. exact Hc.
    + set (n := Z.min size 65536).
      assert (Hn : 1 <= n <= 65536 /\ n <= size) by (unfold n; lia).
      destruct (IH h (start + n) (size - n) false
                  (l2_emit (l2_emit out [if d then 1 else 2; wrap8 (Z.shiftr (n - 1) 8); wrap8 (n - 1)])
                           (aget_list (h_data h) start (Z.to_nat n))))
        as (X' & Hrev & Hck); [lia | unfold n; lia | lia |].
      exists ([if d then 1 else 2; wrap8 (Z.shiftr (n - 1) 8); wrap8 (n - 1)]
                ++ aget_list (h_data h) start (Z.to_nat n) ++ X').
      split.
      * rewrite Hrev, !rev_l2_emit, <- !app_assoc. reflexivity.
      * intros r bytes Hd Hc. destruct (Z.ltb_spec 0 size) as [_|Hbad]; [|lia].
        assert (Hctl : (if d then 1 else 2) = unc_ctl r).
        { destruct Hd as [Ha Hb]. destruct d.
          - rewrite (Ha eq_refl). reflexivity.
          - destruct r; try reflexivity. discriminate (Hb eq_refl). }
        rewrite Hctl. rewrite <- !app_assoc.
        change (chunks_ok lc lp pb r (h_at h start)
                  (unc_header r n ++ aget_list (h_data (h_at h start)) (h_pos (h_at h start)) (Z.to_nat n)
                     ++ (X' ++ bytes))).
        apply ck_unc.
        -- lia.
        -- cbn [h_at h_pos h_total]. lia.
        -- change (h_at (h_at h start) (h_pos (h_at h start) + n)) with (h_at h (start + n)).
           apply Hck.
           ++ split; intros Hx; [discriminate Hx | destruct r; discriminate Hx].
           ++ replace (start + n + (size - n)) with (start + size) by lia.
              destruct (0 <? size - n); [rewrite after_unc_idem|]; exact Hc.
Qed.

(* ---- one round: the symbols of a chunk, then the chunk event ---------------------------------- *)
Definition round_ok (s s2 : l2st) : Prop :=
  wb s2 /\
  exists Xc, rev (w_out s2) = rev (w_out s) ++ Xc /\
    forall bytes, chunks_ok lc lp pb (level_of s2) (es_hist (w_enc s2)) bytes ->
                  chunks_ok lc lp pb (level_of s) (es_hist (w_enc s)) (Xc ++ bytes).

Lemma round_new s syms s1 s2 : wb s -> no_end syms ->
  l2_steps lc lp pb s (map L2Sym syms) = Ok s1 -> l2_step lc lp pb s1 L2New = Ok s2 -> round_ok s s2.
Proof.
  intros Hwb Hne Hrun Hstep.
  apply run_syms in Hrun as (E & c' & h' & Hsyms & Hs1). subst s1.
  cbn [l2_step with_enc w_enc w_chunk_start w_dict_reset_needed w_state_reset_needed w_props_needed
       w_force_independent w_out es_coder es_hist es_rc es_probs] in Hstep.
  destruct (Z.eqb_spec (h_pos h') (w_chunk_start s)) as [Hpos|Hpos]; cbn [negb] in Hstep; [|discriminate].
  apply Ok_inj in Hstep. subst s2.
  rewrite (wb_start s Hwb) in Hpos.
  assert (Hnil : syms = []).
  { destruct syms as [|x r]; [reflexivity|]. exfalso.
    pose proof (enc_syms_advance (x :: r) _ _ _ _ _ Hne ltac:(discriminate) Hsyms). lia. }
  subst syms. apply enc_syms_nil in Hsyms as (-> & -> & ->).
  split.
  - constructor; cbn [w_enc w_chunk_start w_dict_reset_needed w_state_reset_needed w_props_needed
                      w_force_independent es_coder es_hist es_rc es_probs h_pos h_dict].
    + reflexivity.
    + reflexivity.
    + auto.
    + auto.
    + unfold coder_params, coder_new. cbn [c_lc c_lp c_pb]. auto.
    + apply (wb_dict s Hwb).
  - exists []. cbn [w_out]. split; [rewrite app_nil_r; reflexivity|].
    intros bytes Hc. cbn [app]. apply ck_new. exact Hc.
Qed.

Lemma round_lzma s syms s1 usize csize s2 : wb s -> no_end syms ->
  l2_steps lc lp pb s (map L2Sym syms) = Ok s1 -> l2_step lc lp pb s1 (L2Lzma usize csize) = Ok s2 ->
  round_ok s s2.
Proof.
  intros Hwb Hne Hrun Hstep.
  apply run_syms in Hrun as (E & c' & h' & Hsyms & Hs1). subst s1.
  rewrite (wb_rc s Hwb) in Hstep.
  cbn [l2_step with_enc w_enc w_chunk_start w_dict_reset_needed w_state_reset_needed w_props_needed
       w_force_independent w_out es_coder es_hist es_rc es_probs] in Hstep.
  match type of Hstep with (if negb ?b then _ else _) = _ => destruct b eqn:Echk end;
    cbn [negb] in Hstep; [|discriminate].
  match type of Hstep with (if ?b then _ else _) = _ => destruct b eqn:Erng end; [discriminate|].
  apply Ok_inj in Hstep. subst s2.
  apply andb_true_iff in Echk as [Eu Ec]. apply Z.eqb_eq in Eu, Ec.
  apply orb_false_iff in Erng as [Erng R4]. apply orb_false_iff in Erng as [Erng R3].
  apply orb_false_iff in Erng as [R1 R2]. apply Z.ltb_ge in R1, R2, R3, R4.
  rewrite (wb_start s Hwb) in Eu.
  destruct (wb_level_start s Hwb) as [Hsc Hsp].
  destruct (enc_syms_params _ _ _ _ _ _ Hsyms) as (P1 & P2 & P3).
  destruct (enc_syms_fields _ _ _ _ _ _ Hsyms) as (_ & _ & _ & F4).
  destruct (wb_params s Hwb) as (Q1 & Q2 & Q3).
  pose proof (wb_dict s Hwb) as Hdict.
  pose proof (enc_syms_bits _ _ _ _ _ _ Hne Hdict Hsyms) as Hbits. unfold SYM_MAX_BITS in Hbits.
  rewrite (wb_lzma_header s usize csize Hwb).
  rewrite <- Hsp in Ec |- *. rewrite <- Hsc in Hsyms.
  assert (Hbody : renc_bytes (renc_finish (fst (renc_events renc_init (start_probs (level_of s)) E)))
                  = chunk_body (start_probs (level_of s)) E) by (unfold chunk_body; reflexivity).
  rewrite Hbody in Ec |- *. clear Hbody.
  split.
  - constructor; cbn [w_enc w_chunk_start w_dict_reset_needed w_state_reset_needed w_props_needed
                      w_force_independent es_coder es_hist es_rc es_probs].
    + reflexivity.
    + reflexivity.
    + repeat split; intros Hx; discriminate Hx.
    + intros Hx; discriminate Hx.
    + unfold coder_params. rewrite P1, P2, P3. auto.
    + lia.
  - exists (lzma_header lc lp pb (level_of s) usize csize ++ chunk_body (start_probs (level_of s)) E).
    cbn [w_out]. split; [rewrite !rev_l2_emit, <- app_assoc; reflexivity|].
    intros bytes Hc. rewrite <- app_assoc.
    unfold level_of in Hc at 1.
    cbn [w_enc w_dict_reset_needed w_state_reset_needed w_props_needed es_coder es_hist es_probs] in Hc.
    apply (ck_lzma lc lp pb (level_of s) (es_hist (w_enc s)) syms E c' h' usize csize bytes).
    + exact Hne.
    + exact Hsyms.
    + unfold coder_params. rewrite P1, P2, P3. auto.
    + unfold RC_MAX_BITS. lia.
    + exact Eu.
    + lia.
    + exact Ec.
    + lia.
    + exact Hc.
Qed.

Lemma round_unc s syms s1 usize s2 : wb s -> no_end syms ->
  l2_steps lc lp pb s (map L2Sym syms) = Ok s1 -> l2_step lc lp pb s1 (L2Unc usize) = Ok s2 ->
  round_ok s s2.
Proof.
  intros Hwb Hne Hrun Hstep.
  apply run_syms in Hrun as (E & c' & h' & Hsyms & Hs1). subst s1.
  cbn [l2_step with_enc w_enc w_chunk_start w_dict_reset_needed w_state_reset_needed w_props_needed
       w_force_independent w_out es_coder es_hist es_rc es_probs] in Hstep.
  match type of Hstep with (if ?b then _ else _) = _ => destruct b eqn:Erng end; [discriminate|].
  apply Ok_inj in Hstep. subst s2.
  apply orb_false_iff in Erng as [Erng R3]. apply orb_false_iff in Erng as [R1 R2].
  apply Z.ltb_ge in R1, R2, R3.
  pose proof (wb_start s Hwb) as Hstart.
  destruct (enc_syms_params _ _ _ _ _ _ Hsyms) as (P1 & P2 & P3).
  destruct (enc_syms_fields _ _ _ _ _ _ Hsyms) as (F1 & F2 & F3 & F4).
  destruct (wb_params s Hwb) as (Q1 & Q2 & Q3).
  pose proof (wb_dict s Hwb) as Hdict.
  assert (Hreset : coder_reset c' = coder_new lc lp pb).
  { unfold coder_reset. rewrite P1, P2, P3, Q1, Q2, Q3. reflexivity. }
  rewrite Hreset.
  destruct (unc_chunks_ok (Z.to_nat (usize / 65536 + 2)) h' (w_chunk_start s) usize
              (w_dict_reset_needed s) (w_out s)) as (X & Hrev & Hck); [lia | lia | lia |].
  split.
  - constructor; cbn [w_enc w_chunk_start w_dict_reset_needed w_state_reset_needed w_props_needed
                      w_force_independent es_coder es_hist es_rc es_probs h_pos h_dict].
    + reflexivity.
    + reflexivity.
    + split; [intros Hx; discriminate Hx|]. split; [auto | intros Hx; discriminate Hx].
    + auto.
    + unfold coder_params, coder_new. cbn [c_lc c_lp c_pb]. auto.
    + lia.
  - exists X. cbn [w_out]. split; [exact Hrev|].
    intros bytes Hc.
    unfold level_of in Hc at 1.
    cbn [w_enc w_dict_reset_needed w_state_reset_needed w_props_needed es_coder es_hist es_probs] in Hc.
    rewrite (wb_level_after_unc s Hwb) in Hc.
    specialize (Hck (level_of s) bytes (wb_level_dict s Hwb)).
    destruct (Z.ltb_spec 0 usize) as [_|Hbad]; [|lia].
    rewrite (h_at_same (es_hist (w_enc s)) h' (w_chunk_start s) F1 F2 F3 F4) in Hck.
    rewrite Hstart, h_at_pos in Hck. apply Hck.
    rewrite <- Hstart. exact Hc.
Qed.

Lemma round_any s syms s1 cev s2 : wb s -> no_end syms -> not_sym cev ->
  l2_steps lc lp pb s (map L2Sym syms) = Ok s1 -> l2_step lc lp pb s1 cev = Ok s2 -> round_ok s s2.
Proof.
  intros Hwb Hne Hns Hrun Hstep. destruct cev as [x|u c|u|].
  - exfalso. exact (Hns x eq_refl).
  - eapply round_lzma; eassumption.
  - eapply round_unc; eassumption.
  - eapply round_new; eassumption.
Qed.

(* the trailing symbols after the last chunk event: there are none *)
Lemma round_last s syms sf : wb s -> no_end syms ->
  l2_steps lc lp pb s (map L2Sym syms) = Ok sf ->
  w_chunk_start sf = h_pos (es_hist (w_enc sf)) -> sf = s.
Proof.
  intros Hwb Hne Hrun Hfin.
  apply run_syms in Hrun as (E & c' & h' & Hsyms & Hs1). subst sf.
  cbn [with_enc w_enc w_chunk_start es_hist] in Hfin. rewrite (wb_start s Hwb) in Hfin.
  assert (Hnil : syms = []).
  { destruct syms as [|x r]; [reflexivity|]. exfalso.
    pose proof (enc_syms_advance (x :: r) _ _ _ _ _ Hne ltac:(discriminate) Hsyms). lia. }
  subst syms. apply enc_syms_nil in Hsyms as (-> & -> & ->).
  cbn [renc_events fst snd]. destruct s as [[c h e t] a b0 b1 b2 b3 o]. reflexivity.
Qed.

Lemma frame_sync_gen : forall n evs s sf, (length evs <= n)%nat -> wb s -> l2_no_end evs ->
  l2_steps lc lp pb s evs = Ok sf ->
  h_pos (es_hist (w_enc sf)) = h_total (es_hist (w_enc sf)) ->
  w_chunk_start sf = h_pos (es_hist (w_enc sf)) ->
  exists X, rev (w_out sf) = rev (w_out s) ++ X /\
            chunks_ok lc lp pb (level_of s) (es_hist (w_enc s)) (X ++ [0]).
Proof.
  induction n as [|n IH]; intros evs s sf Hlen Hwb Hne Hrun Hfin1 Hfin2;
    destruct (l2_split evs) as (syms & rest & Heq & Hrest); subst evs;
    apply l2_no_end_app in Hne as [Hne1 Hne2]; apply l2_no_end_syms in Hne1;
    rewrite l2_steps_app in Hrun; apply obind_ok in Hrun as (s1 & Hrun1 & Hrun2);
    destruct Hrest as [-> | (cev & rest' & -> & Hns)].
  - cbn [l2_steps] in Hrun2. apply Ok_inj in Hrun2. subst s1.
    pose proof (round_last s syms sf Hwb Hne1 Hrun1 Hfin2). subst sf.
    exists []. split; [rewrite app_nil_r; reflexivity|]. cbn [app]. apply ck_end. exact Hfin1.
  - exfalso. rewrite app_length in Hlen. cbn [length] in Hlen. lia.
  - cbn [l2_steps] in Hrun2. apply Ok_inj in Hrun2. subst s1.
    pose proof (round_last s syms sf Hwb Hne1 Hrun1 Hfin2). subst sf.
    exists []. split; [rewrite app_nil_r; reflexivity|]. cbn [app]. apply ck_end. exact Hfin1.
  - cbn [l2_steps] in Hrun2. apply obind_ok in Hrun2 as (s2 & Hstep & Hrun2).
    destruct (round_any s syms s1 cev s2 Hwb Hne1 Hns Hrun1 Hstep) as (Hwb2 & Xc & Hout & Hck).
    apply l2_no_end_tail in Hne2.
    destruct (IH rest' s2 sf) as (X' & Hout' & Hck'); try assumption.
    { rewrite app_length in Hlen. cbn [length] in Hlen. lia. }
    exists (Xc ++ X'). split.
    + rewrite Hout', Hout, app_assoc. reflexivity.
    + rewrite <- app_assoc. apply Hck. exact Hck'.
Qed.

End Sync.

(* ---------------------------------------------------------------------------------------------- *)
Theorem lzma2_frame_sync lc lp pb dict preset data evs stream :
  dict <= 2147483648 -> l2_no_end evs ->
  lzma2_write lc lp pb dict preset data evs = Ok stream ->
  chunks_ok lc lp pb (start_level preset) (ehist_new dict (preset_list preset) data) stream.
Proof.
  intros Hd Hne H. unfold lzma2_write in H. cbv zeta in H.
  apply obind_ok in H as (s1 & Hrun & H).
  match type of H with (if negb ?b then _ else _) = _ => destruct b eqn:Echk end;
    cbn [negb] in H; [|discriminate].
  apply Ok_inj in H. subst stream.
  apply andb_true_iff in Echk as [E1 E2]. apply Z.eqb_eq in E1, E2.
  fold (preset_list preset) in Hrun.
  match type of Hrun with l2_steps _ _ _ ?s0 _ = _ =>
    destruct (frame_sync_gen lc lp pb (length evs) evs s0 s1 (le_n _)) as (X & Hout & Hck) end;
    try assumption.
  - constructor; cbn [w_enc w_chunk_start w_dict_reset_needed w_state_reset_needed w_props_needed
                      w_force_independent es_coder es_hist es_rc es_probs].
    + reflexivity.
    + reflexivity.
    + split; [auto|]. split; [auto | intros Hx; discriminate Hx].
    + auto.
    + unfold coder_params, coder_new. cbn [c_lc c_lp c_pb]. auto.
    + unfold ehist_new. cbn [h_dict]. exact Hd.
  - rewrite frev_rev. cbn [rev]. rewrite Hout. cbn [w_out rev app].
    cbn [w_enc es_hist] in Hck.
    replace (start_level preset) with
      (level_of (mkL2st (mkEncst (coder_new lc lp pb) (ehist_new dict (preset_list preset) data) renc_init PLeaf)
                        (zlen (preset_kept dict (preset_list preset)))
                        (negb match preset with Some (_ :: _) => true | _ => false end) true true false []))
      by (destruct preset as [[|x q]|]; reflexivity).
    exact Hck.
Qed.
