(* Codec/RangeProofs.v — range coder round trip (DESIGN.md 4.1: rc_roundtrip,
   rc_consumes_exactly, rc_finished).  For ANY decision program whose requests are answered by
   the recorded events, running it against the range decoder over the encoder's output followed
   by arbitrary trailing bytes returns the same result and the same probability tables; after
   the trailing normalize exactly the encoder's bytes are consumed and code = 0.  The prefix
   form [rc_sim] lets callers run many programs in sequence over one encoded chunk.

   Side condition that is really needed: the total number of coded bits is below 2^32 - 6.
   [cache_size] is a u32 that counts a run of pending 0xFF bytes; `self.cache_size += 1`
   overflows after 2^32 - 1 pending bytes (debug: panic; release, and the model's wrap32: the
   pending bytes are lost), and an adversarial event list can keep every byte pending.  Each
   coded bit shifts out at most one byte, so the bound on the bit count excludes this.
   Proofs only. *)
From LzVerif Require Import Base.Bytes Codec.Store Codec.Range Codec.ProbProofs Codec.RangeArith.
From LzVerif Require Import Codec.LzmaDec Codec.LzmaEnc Codec.RangeEncProofs Codec.RangeDecProofs.
Ltac Zify.zify_post_hook ::= Z.div_mod_to_equations.

(* what run_rc returns when run_trace returns o *)
Definition rc_result {A} (o : outcome A) (d : rdec) (t : probs) : outcome (A * rdec * probs) :=
  match o with
  | Ok a => Ok (a, d, t)
  | Err c => Err c
  | Panic c => Panic c
  | Fuel => Fuel
  end.

Lemma ev_ok_direct n v : ev_ok (EDirect n v) = true -> (1 <= n <= 32)%nat /\ 0 <= v < 2 ^ Z.of_nat n.
Proof.
  cbn [ev_ok]. rewrite !andb_true_iff, !Nat.leb_le, Z.leb_le, Z.ltb_lt.
  rewrite Z.shiftl_1_l. lia.
Qed.

Lemma renc_output_cons e t ev r :
  renc_output e t (ev :: r) =
  renc_output (fst (renc_events e t [ev])) (snd (renc_events e t [ev])) r.
Proof. unfold renc_output. change (ev :: r) with ([ev] ++ r). rewrite renc_events_app. reflexivity. Qed.

(* ---------------------------------------------------------------------------------------------
   the simulation, for one program *)
Lemma run_sim A (p : prog A) : forall evs rest o e t d out tail,
  run_trace p evs = Some (o, rest) ->
  renc_inv e -> probs_ok t -> forallb ev_ok evs = true ->
  re_cache_size e + events_bits evs + 5 < 4294967296 ->
  out = renc_output e t evs -> bytes_ok out = true ->
  dec_match out tail (rdec_normalize d) e ->
  exists c d',
    evs = c ++ rest /\
    run_rc p d t = rc_result o d' (snd (renc_events e t c)) /\
    dec_match out tail (rdec_normalize d') (fst (renc_events e t c)).
Proof.
  induction p as [a | x | key k IH | n k IH]; intros evs rest o e t d out tail Hrun HI Ht Hok Hs Hout Hb Hm.
  - cbn [run_trace] in Hrun. inversion Hrun; subst o rest. exists [], d.
    cbn [app renc_events fst snd run_rc rc_result]. split; [reflexivity|]. split; [reflexivity | exact Hm].
  - exists [], d. cbn [app renc_events fst snd].
    destruct x as [u | c | c |]; cbn [run_trace] in Hrun; inversion Hrun; subst o rest;
      cbn [run_rc rc_result]; (split; [reflexivity|]; split; [reflexivity | exact Hm]).
  - cbn [run_trace] in Hrun. destruct evs as [|[key' b | n' v] r]; try discriminate.
    destruct ((key =? key') && ((b =? 0) || (b =? 1))) eqn:Hchk; [|discriminate].
    apply andb_true_iff in Hchk as [Hkey _]. apply Z.eqb_eq in Hkey. subst key'.
    cbn [forallb] in Hok. apply andb_true_iff in Hok as [Hev Hok]. pose proof (ev_ok_bit _ _ Hev) as Hbit.
    cbn [events_bits ev_bits] in Hs. pose proof (events_bits_nonneg r) as Hnn.
    destruct (encode_bit_ok e t key b HI Ht Hbit ltac:(lia)) as (I1 & T1 & S1 & _).
    rewrite renc_output_cons in Hout. cbn [renc_events] in Hout.
    assert (Hf : renc_fut out (fst (encode_bit e t key b))).
    { destruct (encode_bit e t key b) as [e1 t1] eqn:E. cbn [fst snd] in *. subst out.
      apply renc_output_fut; try assumption. lia. }
    destruct (decode_bit_ok out tail d e t key b HI Ht Hbit ltac:(lia) Hb Hm Hf) as (d1 & Hdec & Hm1).
    destruct (encode_bit e t key b) as [e1 t1] eqn:E. cbn [fst snd] in *.
    destruct (IH b r rest o e1 t1 d1 out tail Hrun I1 T1 Hok ltac:(lia) Hout Hb Hm1) as (c & d' & Hc & Hrc & Hm').
    exists (EBit key b :: c), d'. cbn [app renc_events]. rewrite E.
    split; [rewrite Hc; reflexivity|]. split; [|exact Hm'].
    cbn [run_rc]. rewrite Hdec. exact Hrc.
  - cbn [run_trace] in Hrun. destruct evs as [|[key' b | n' v] r]; try discriminate.
    destruct (Nat.eqb n n') eqn:Hchk; [|discriminate]. apply Nat.eqb_eq in Hchk. subst n'.
    cbn [forallb] in Hok. apply andb_true_iff in Hok as [Hev Hok].
    apply ev_ok_direct in Hev as [Hn Hv].
    cbn [events_bits ev_bits] in Hs. pose proof (events_bits_nonneg r) as Hnn.
    destruct (encode_direct_bits_ok n e v HI ltac:(lia)) as (I1 & S1 & _).
    rewrite renc_output_cons in Hout. cbn [renc_events fst snd] in Hout.
    assert (Hf : renc_fut out (encode_direct_bits e v n)).
    { subst out. apply renc_output_fut; try assumption. lia. }
    assert (Hpow : 2 ^ Z.of_nat n <= 4294967296).
    { change 4294967296 with (2 ^ 32). apply Z.pow_le_mono_r; lia. }
    destruct (decode_direct_ok out tail n e v d 0 HI ltac:(lia) Hb Hm Hf ltac:(lia) ltac:(lia)) as (d1 & Hdec & Hm1).
    rewrite Z.mul_0_l, Z.add_0_l, Z.mod_small in Hdec by exact Hv.
    destruct (IH v r rest o (encode_direct_bits e v n) t d1 out tail Hrun I1 Ht Hok ltac:(lia) Hout Hb Hm1)
      as (c & d' & Hc & Hrc & Hm').
    exists (EDirect n v :: c), d'. cbn [app renc_events].
    split; [rewrite Hc; reflexivity|]. split; [|exact Hm'].
    cbn [run_rc]. rewrite Hdec. exact Hrc.
Qed.
