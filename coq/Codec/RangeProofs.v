(* Codec/RangeProofs.v — range coder round trip (DESIGN.md 4.1: rc_roundtrip,
   rc_consumes_exactly, rc_finished).  For ANY decision program whose requests are answered by
   the recorded events, running it against the range decoder over the encoder's output followed
   by arbitrary trailing bytes returns the same result and the same probability tables; after
   the trailing normalize exactly the encoder's bytes are consumed and code = 0.  The prefix
   form [rc_sim] lets callers run many programs in sequence over one encoded chunk.

   Side condition that is really needed: the total number of coded bits is below 2^32 - 6.
   [cache_size] is a u32 that counts a run of pending 0xFF bytes; `self.cache_size += 1`
   overflows after 2^32 - 1 pending bytes (debug: panic; release, and the model's wrap32: the
   pending bytes are lost), and an adversarial event list can keep every byte pending.  Each
   coded bit shifts out at most one byte, so the bound on the bit count excludes this.
   Proofs only. *)
From LzVerif Require Import Base.Bytes Codec.Store Codec.Range Codec.ProbProofs Codec.RangeArithProofs.
From LzVerif Require Import Codec.LzmaDec Codec.LzmaEnc Codec.RangeEncProofs Codec.RangeDecProofs.
Ltac Zify.zify_post_hook ::= Z.div_mod_to_equations.

(* what run_rc returns when run_trace returns o *)
Definition rc_result {A} (o : outcome A) (d : rdec) (t : probs) : outcome (A * rdec * probs) :=
  match o with
  | Ok a => Ok (a, d, t)
  | Err c => Err c
  | Panic c => Panic c
  | Fuel => Fuel
  end.

Lemma ev_ok_direct n v : ev_ok (EDirect n v) = true -> (1 <= n <= 32)%nat /\ 0 <= v < 2 ^ Z.of_nat n.
Proof.
  cbn [ev_ok]. rewrite !andb_true_iff, !Nat.leb_le, Z.leb_le, Z.ltb_lt.
  rewrite Z.shiftl_1_l. lia.
Qed.

Lemma renc_output_cons e t ev r :
  renc_output e t (ev :: r) =
  renc_output (fst (renc_events e t [ev])) (snd (renc_events e t [ev])) r.
Proof. change (ev :: r) with ([ev] ++ r). rewrite renc_events_app. reflexivity. Qed.

(* ---------------------------------------------------------------------------------------------
   the simulation, for one program *)
Lemma run_sim A (p : prog A) : forall evs rest o e t d out tail,
  run_trace p evs = Some (o, rest) ->
  renc_inv e -> probs_ok t -> forallb ev_ok evs = true ->
  re_cache_size e + events_bits evs + 5 < 4294967296 ->
  out = renc_output e t evs -> bytes_ok out = true ->
  dec_match out tail (rdec_normalize d) e ->
  exists c d',
    evs = c ++ rest /\
    run_rc p d t = rc_result o d' (snd (renc_events e t c)) /\
    dec_match out tail (rdec_normalize d') (fst (renc_events e t c)).
Proof.
  induction p as [a | x | key k IH | n k IH]; intros evs rest o e t d out tail Hrun HI Ht Hok Hs Hout Hb Hm.
  - cbn [run_trace] in Hrun. inversion Hrun; subst o rest. exists [], d.
    cbn [app renc_events fst snd run_rc rc_result]. split; [reflexivity|]. split; [reflexivity | exact Hm].
  - exists [], d. cbn [app renc_events fst snd].
    destruct x as [u | c | c |]; cbn [run_trace] in Hrun; inversion Hrun; subst o rest;
      cbn [run_rc rc_result]; (split; [reflexivity|]; split; [reflexivity | exact Hm]).
  - cbn [run_trace] in Hrun. destruct evs as [|[key' b | n' v] r]; try discriminate.
    destruct ((key =? key') && ((b =? 0) || (b =? 1))) eqn:Hchk; [|discriminate].
    apply andb_true_iff in Hchk as [Hkey _]. apply Z.eqb_eq in Hkey. subst key'.
    cbn [forallb] in Hok. apply andb_true_iff in Hok as [Hev Hok]. pose proof (ev_ok_bit _ _ Hev) as Hbit.
    cbn [events_bits ev_bits] in Hs. pose proof (events_bits_nonneg r) as Hnn.
    destruct (encode_bit_ok e t key b HI Ht Hbit ltac:(lia)) as (I1 & T1 & S1 & _).
    rewrite renc_output_cons in Hout. cbn [renc_events] in Hout.
    assert (Hf : renc_fut out (fst (encode_bit e t key b))).
    { destruct (encode_bit e t key b) as [e1 t1] eqn:E. cbn [fst snd] in *. subst out.
      apply renc_output_fut; try assumption. lia. }
    destruct (decode_bit_ok out tail d e t key b HI Ht Hbit ltac:(lia) Hb Hm Hf) as (d1 & Hdec & Hm1).
    destruct (encode_bit e t key b) as [e1 t1] eqn:E. cbn [fst snd] in *.
    destruct (IH b r rest o e1 t1 d1 out tail Hrun I1 T1 Hok ltac:(lia) Hout Hb Hm1) as (c & d' & Hc & Hrc & Hm').
    exists (EBit key b :: c), d'. cbn [app renc_events]. rewrite E.
    split; [rewrite Hc; reflexivity|]. split; [|exact Hm'].
    cbn [run_rc]. rewrite Hdec. exact Hrc.
  - cbn [run_trace] in Hrun. destruct evs as [|[key' b | n' v] r]; try discriminate.
    destruct (Nat.eqb n n') eqn:Hchk; [|discriminate]. apply Nat.eqb_eq in Hchk. subst n'.
    cbn [forallb] in Hok. apply andb_true_iff in Hok as [Hev Hok].
    apply ev_ok_direct in Hev as [Hn Hv].
    cbn [events_bits ev_bits] in Hs. pose proof (events_bits_nonneg r) as Hnn.
    destruct (encode_direct_bits_ok n e v HI ltac:(lia)) as (I1 & S1 & _).
    rewrite renc_output_cons in Hout. cbn [renc_events fst snd] in Hout.
    assert (Hf : renc_fut out (encode_direct_bits e v n)).
    { subst out. apply renc_output_fut; try assumption. lia. }
    assert (Hpow : 2 ^ Z.of_nat n <= 4294967296).
    { change 4294967296 with (2 ^ 32). apply Z.pow_le_mono_r; lia. }
    destruct (decode_direct_ok out tail n e v d 0 HI ltac:(lia) Hb Hm Hf ltac:(lia) ltac:(lia)) as (d1 & Hdec & Hm1).
    rewrite Z.mul_0_l, Z.add_0_l, Z.mod_small in Hdec by exact Hv.
    destruct (IH v r rest o (encode_direct_bits e v n) t d1 out tail Hrun I1 Ht Hok ltac:(lia) Hout Hb Hm1)
      as (c & d' & Hc & Hrc & Hm').
    exists (EDirect n v :: c), d'. cbn [app renc_events].
    split; [rewrite Hc; reflexivity|]. split; [|exact Hm'].
    cbn [run_rc]. rewrite Hdec. exact Hrc.
Qed.

(* ---------------------------------------------------------------------------------------------
   facts about the complete output *)
Definition RC_MAX_BITS : Z := 4294967289.   (* 2^32 - 7 *)

Lemma renc_output_facts e t evs :
  renc_inv e -> probs_ok t -> forallb ev_ok evs = true ->
  re_cache_size e + events_bits evs + 5 < 4294967296 ->
  bytes_ok (renc_output e t evs) = true /\
  zlen (renc_output e t evs) = enc_digits (fst (renc_events e t evs)) /\
  be_val (renc_output e t evs) = enc_V (fst (renc_events e t evs)).
Proof.
  intros HI Ht Hok Hs. pose proof (events_bits_nonneg evs) as Hnn.
  destruct (renc_events_ok evs e t HI Ht Hok ltac:(lia)) as (I1 & _ & S1 & _).
  destruct (renc_finish_ok _ _ (proj1 I1) ltac:(lia)) as (H1 & H2 & H3 & _).
  tauto.
Qed.

Theorem renc_output_bytes_ok t0 evs :
  probs_ok t0 -> forallb ev_ok evs = true -> events_bits evs <= RC_MAX_BITS ->
  bytes_ok (renc_bytes (renc_finish (fst (renc_events renc_init t0 evs)))) = true.
Proof.
  intros Ht Hok Hbits. unfold RC_MAX_BITS in Hbits.
  apply (renc_output_facts renc_init t0 evs renc_inv_init Ht Hok). cbn [renc_init re_cache_size]. lia.
Qed.

(* the output starts with the 5 bytes that rdec_init reads, and the first one is 0 *)
Lemma renc_output_head t0 evs :
  probs_ok t0 -> forallb ev_ok evs = true -> events_bits evs <= RC_MAX_BITS ->
  exists b1 b2 b3 b4 rest,
    renc_output renc_init t0 evs = 0 :: b1 :: b2 :: b3 :: b4 :: rest /\
    0 <= ((b1 * 256 + b2) * 256 + b3) * 256 + b4 < 4294967295.
Proof.
  intros Ht Hok Hbits. unfold RC_MAX_BITS in Hbits.
  assert (Hs : re_cache_size renc_init + events_bits evs + 5 < 4294967296) by (cbn [renc_init re_cache_size]; lia).
  destruct (renc_output_facts renc_init t0 evs renc_inv_init Ht Hok Hs) as (Hb & _).
  pose proof (renc_output_fut renc_init t0 evs renc_inv_init Ht Hok Hs) as [Hd Hf].
  rewrite enc_V_init, enc_digits_init in *. cbn [renc_init re_range] in Hf.
  remember (renc_output renc_init t0 evs) as out eqn:Eout. clear Eout.
  destruct out as [|b0 [|b1 [|b2 [|b3 [|b4 rest]]]]]; try (unfold zlen in Hd; cbn [length] in Hd; lia).
  change (b0 :: b1 :: b2 :: b3 :: b4 :: rest) with ([b0; b1; b2; b3; b4] ++ rest) in Hf, Hb.
  apply bytes_ok_app in Hb as [Hb5 Hbr].
  rewrite be_val_app, zlen_app in Hf. change (zlen [b0; b1; b2; b3; b4]) with 5 in Hf.
  replace (5 + zlen rest - 5) with (zlen rest) in Hf by lia.
  pose proof (be_val_bound rest Hbr) as HT.
  assert (HM : 0 < 256 ^ zlen rest) by (apply Z.pow_pos_nonneg; [lia | apply zlen_nonneg]).
  assert (H5v : be_val [b0; b1; b2; b3; b4] = b4 + 256 * (b3 + 256 * (b2 + 256 * (b1 + 256 * b0))))
    by (unfold be_val; cbn [rev app le_value]; lia).
  repeat (apply bytes_ok_cons in Hb5 as [? Hb5]).
  set (M := 256 ^ zlen rest) in *.
  assert (H5 : 0 <= be_val [b0; b1; b2; b3; b4] - 0 < 4294967295).
  { apply (code_in_interval M (be_val rest)); [exact HM | exact HT | lia]. }
  rewrite H5v in H5.
  assert (b0 = 0) by lia. subst b0.
  exists b1, b2, b3, b4, rest. split; [reflexivity | lia].
Qed.

Theorem renc_output_first_zero t0 evs :
  probs_ok t0 -> forallb ev_ok evs = true -> events_bits evs <= RC_MAX_BITS ->
  exists rest, renc_bytes (renc_finish (fst (renc_events renc_init t0 evs))) = 0 :: rest /\ 4 <= zlen rest.
Proof.
  intros Ht Hok Hbits.
  destruct (renc_output_head t0 evs Ht Hok Hbits) as (b1 & b2 & b3 & b4 & rest & Hout & _).
  rewrite Hout. eexists. split; [reflexivity|].
  rewrite !zlen_cons. pose proof (zlen_nonneg rest). lia.
Qed.

(* ---------------------------------------------------------------------------------------------
   prefix form of the decoder simulation *)
Definition rc_sim (all : list event) (t0 : probs) (tail : list Z)
           (done : list event) (d : rdec) (t : probs) : Prop :=
  probs_ok t0 /\ forallb ev_ok all = true /\ events_bits all <= RC_MAX_BITS /\
  exists rest, all = done ++ rest /\
    t = snd (renc_events renc_init t0 done) /\
    dec_match (renc_output renc_init t0 all) tail (rdec_normalize d) (fst (renc_events renc_init t0 done)).

Lemma rc_sim_init all t0 tail :
  probs_ok t0 -> forallb ev_ok all = true -> events_bits all <= RC_MAX_BITS ->
  exists d0,
    rdec_init (renc_bytes (renc_finish (fst (renc_events renc_init t0 all))) ++ tail) = Ok d0 /\
    rc_sim all t0 tail [] d0 t0.
Proof.
  intros Ht Hok Hbits.
  destruct (renc_output_head t0 all Ht Hok Hbits) as (b1 & b2 & b3 & b4 & rest & Hout & Hcode).
  rewrite Hout.
  eexists. split; [reflexivity|].
  split; [exact Ht|]. split; [exact Hok|]. split; [exact Hbits|].
  exists all. split; [reflexivity|]. cbn [renc_events fst snd]. split; [reflexivity|].
  rewrite Hout. unfold rdec_normalize. cbn [rd_range].
  change (4294967295 <? P2_24) with false. cbv iota.
  split; [reflexivity|]. split; [reflexivity|].
  exists [0; b1; b2; b3; b4], rest. cbn [rd_in rd_code].
  split; [reflexivity|]. split; [reflexivity|]. split; [reflexivity|].
  rewrite enc_V_init. unfold be_val. cbn [rev app le_value]. lia.
Qed.

Lemma rc_sim_state all t0 tail done d t :
  rc_sim all t0 tail done d t ->
  renc_inv (fst (renc_events renc_init t0 done)) /\ probs_ok t /\
  exists rest, all = done ++ rest /\ forallb ev_ok rest = true /\
    re_cache_size (fst (renc_events renc_init t0 done)) + events_bits rest + 5 < 4294967296.
Proof.
  intros (Ht & Hok & Hbits & rest & Hall & Htt & Hm). unfold RC_MAX_BITS in Hbits.
  subst all. rewrite forallb_app in Hok. apply andb_true_iff in Hok as [Hok1 Hok2].
  rewrite events_bits_app in Hbits.
  pose proof (events_bits_nonneg done) as Hn1. pose proof (events_bits_nonneg rest) as Hn2.
  destruct (renc_events_ok done renc_init t0 renc_inv_init Ht Hok1) as (I1 & T1 & S1 & _).
  { cbn [renc_init re_cache_size]. lia. }
  cbn [renc_init re_cache_size] in S1. subst t.
  split; [exact I1|]. split; [exact T1|]. exists rest. split; [reflexivity|]. split; [exact Hok2 | lia].
Qed.

Lemma rc_sim_probs_ok all t0 tail done d t : rc_sim all t0 tail done d t -> probs_ok t.
Proof. intros H. apply rc_sim_state in H. tauto. Qed.

(* general form: whatever the trace run returns (a value, or an error raised by the program
   logic through Fail), the run against the range decoder returns the same *)
Lemma rc_sim_run_gen all t0 tail done d t A (p : prog A) evs1 evs2 o :
  rc_sim all t0 tail done d t ->
  all = done ++ evs1 ++ evs2 ->
  run_trace p (evs1 ++ evs2) = Some (o, evs2) ->
  exists d' t',
    run_rc p d t = rc_result o d' t' /\ rc_sim all t0 tail (done ++ evs1) d' t'.
Proof.
  intros Hsim Hall Hrun.
  destruct (rc_sim_state _ _ _ _ _ _ Hsim) as (HI & Htok & rest & Hall' & Hokr & Hs).
  destruct Hsim as (Ht & Hok & Hbits & rest' & Hall'' & Htt & Hm).
  assert (rest = evs1 ++ evs2) by (apply (app_inv_head done); congruence).
  assert (rest' = rest) by (apply (app_inv_head done); congruence). subst rest' rest.
  set (e := fst (renc_events renc_init t0 done)) in *.
  assert (Houtb : bytes_ok (renc_output renc_init t0 all) = true).
  { apply renc_output_bytes_ok; assumption. }
  assert (Hout : renc_output renc_init t0 all = renc_output e t (evs1 ++ evs2)).
  { rewrite Hall, renc_events_app. subst t. reflexivity. }
  destruct (run_sim A p (evs1 ++ evs2) evs2 o e t d _ tail Hrun HI Htok Hokr Hs Hout Houtb Hm)
    as (c & d' & Hc & Hrc & Hm').
  apply app_inv_tail in Hc. subst c.
  exists d', (snd (renc_events e t evs1)). split; [exact Hrc|].
  split; [exact Ht|]. split; [exact Hok|]. split; [exact Hbits|].
  exists evs2. split; [rewrite <- app_assoc; exact Hall|].
  rewrite renc_events_app. fold e. rewrite <- Htt. split; [reflexivity | exact Hm'].
Qed.

Lemma rc_sim_run all t0 tail done d t A (p : prog A) evs1 evs2 a :
  rc_sim all t0 tail done d t ->
  all = done ++ evs1 ++ evs2 ->
  run_trace p (evs1 ++ evs2) = Some (Ok a, evs2) ->
  exists d' t',
    run_rc p d t = Ok (a, d', t') /\ rc_sim all t0 tail (done ++ evs1) d' t'.
Proof. intros Hsim Hall Hrun. exact (rc_sim_run_gen _ _ _ _ _ _ A p evs1 evs2 (Ok a) Hsim Hall Hrun). Qed.

Lemma rc_sim_normalize all t0 tail done d t :
  rc_sim all t0 tail done d t -> rc_sim all t0 tail done (rdec_normalize d) t.
Proof.
  intros Hsim. destruct (rc_sim_state _ _ _ _ _ _ Hsim) as (HI & _).
  destruct Hsim as (Ht & Hok & Hbits & rest & Hall & Htt & Hm).
  split; [exact Ht|]. split; [exact Hok|]. split; [exact Hbits|].
  exists rest. split; [exact Hall|]. split; [exact Htt|].
  rewrite (dec_match_normalized _ _ _ _ Hm HI). exact Hm.
Qed.

Lemma rc_sim_end all t0 tail d t :
  rc_sim all t0 tail all d t ->
  t = snd (renc_events renc_init t0 all) /\
  rd_in (rdec_normalize d) = tail /\ rd_code (rdec_normalize d) = 0 /\ rd_over (rdec_normalize d) = 0.
Proof.
  intros Hsim.
  destruct Hsim as (Ht & Hok & Hbits & rest & Hall & Htt & Hm).
  assert (rest = []).
  { apply (app_inv_head all). rewrite app_nil_r. symmetry. exact Hall. }
  subst rest. clear Hall.
  destruct (renc_output_facts renc_init t0 all renc_inv_init Ht Hok) as (Hb & Hlen & Hval).
  { unfold RC_MAX_BITS in Hbits. cbn [renc_init re_cache_size]. lia. }
  destruct Hm as (_ & Hover & read & unread & Hout & Hrl & Hin & Hcode).
  split; [exact Htt|].
  assert (unread = []).
  { rewrite Hout, zlen_app in Hlen. destruct unread as [|x u]; [reflexivity|].
    rewrite zlen_cons in Hlen. pose proof (zlen_nonneg u). lia. }
  subst unread. rewrite app_nil_r in Hout. subst read.
  split; [exact Hin|]. split; [lia | exact Hover].
Qed.

(* ---------------------------------------------------------------------------------------------
   the closed theorem *)
Theorem rc_roundtrip : forall (A : Type) (p : prog A) (evs : list event) (a : A) (tail : list Z) (t0 : probs),
  probs_ok t0 ->
  forallb ev_ok evs = true ->
  events_bits evs <= RC_MAX_BITS ->
  run_trace p evs = Some (Ok a, []) ->
  let '(e, t1) := renc_events renc_init t0 evs in
  let bytes := renc_bytes (renc_finish e) in
  exists d0 d1, rdec_init (bytes ++ tail) = Ok d0 /\
                run_rc p d0 t0 = Ok (a, d1, t1) /\
                probs_ok t1 /\
                rd_in (rdec_normalize d1) = tail /\ rd_code (rdec_normalize d1) = 0 /\
                rd_over (rdec_normalize d1) = 0.
Proof.
  intros A p evs a tail t0 Ht Hok Hbits Hrun.
  destruct (rc_sim_init evs t0 tail Ht Hok Hbits) as (d0 & Hinit & Hsim).
  destruct (rc_sim_run evs t0 tail [] d0 t0 A p evs [] a Hsim) as (d1 & t1' & Hrc & Hsim1).
  { rewrite app_nil_r. reflexivity. }
  { rewrite app_nil_r. exact Hrun. }
  cbn [app] in Hsim1.
  pose proof (rc_sim_probs_ok _ _ _ _ _ _ Hsim1) as Ht1.
  destruct (rc_sim_end evs t0 tail d1 t1' Hsim1) as (Htt & Hin & Hcode & Hover).
  destruct (renc_events renc_init t0 evs) as [e t1] eqn:E. cbn [fst snd] in *. subst t1'.
  exists d0, d1. tauto.
Qed.

(* ---------------------------------------------------------------------------------------------
   why the bound on the number of coded bits is there: a state that satisfies every invariant
   of the encoder (a run of 2^32 - 2 pending 0xFF bytes) on which shift_low wraps cache_size to
   0, so that the pending bytes are never written.  (Rust, debug build: `self.cache_size += 1`
   panics; release build: wraps as the model does.) *)
Lemma renc_pending_state_inv s : 1 <= s -> renc_inv (mkRenc 4278190080 16777216 0 s []).
Proof.
  intros Hs. split; [|cbn [re_range]; lia].
  assert (HP : 0 < 256 ^ (s - 1)) by (apply Z.pow_pos_nonneg; lia).
  constructor; cbn [re_low re_range re_cache re_cache_size re_out]; [lia | lia | lia | lia | lia | reflexivity |].
  unfold enc_V, enc_cap, enc_O, Vof. cbn [re_low re_range re_cache re_cache_size re_out le_value].
  remember (256 ^ (s - 1)) as P eqn:EP. clear EP. lia.
Qed.

Lemma renc_cache_size_overflow_state :
  let e := mkRenc 4278190080 16777216 0 4294967295 [] in
  renc_inv e /\ re_cache_size (shift_low e) = 0 /\ re_out (shift_low e) = [].
Proof.
  cbv zeta. split; [apply renc_pending_state_inv; lia|].
  split; vm_compute; reflexivity.
Qed.

(* ---------------------------------------------------------------------------------------------
   non-vacuity: a small program, its trace, and the complete pipeline evaluated *)
Definition rc_example_prog : prog (Z * Z * Z) :=
  Bit 7 (fun b1 => Direct 5 (fun v => Bit 7 (fun b2 => Ret (b1, v, b2)))).
Definition rc_example_evs : list event := [EBit 7 1; EDirect 5 19; EBit 7 0].

Example rc_example_hyps :
  probs_ok PLeaf /\ forallb ev_ok rc_example_evs = true /\ events_bits rc_example_evs <= RC_MAX_BITS /\
  run_trace rc_example_prog rc_example_evs = Some (Ok (1, 19, 0), []).
Proof. split; [exact probs_ok_empty|]. vm_compute. repeat split; congruence. Qed.

Example rc_example_run :
  let '(e, t1) := renc_events renc_init PLeaf rc_example_evs in
  let bytes := renc_bytes (renc_finish e) in
  bytes = [0; 203; 255; 254; 93] /\
  match rdec_init (bytes ++ [1; 2; 3]) with
  | Ok d0 =>
      match run_rc rc_example_prog d0 PLeaf with
      | Ok (a, d1, t1') => a = (1, 19, 0) /\ rd_in (rdec_normalize d1) = [1; 2; 3] /\ rd_code (rdec_normalize d1) = 0
      | _ => False
      end
  | _ => False
  end.
Proof. vm_compute. repeat split; reflexivity. Qed.

(* nothing beyond the encoder's bytes is ever requested *)
Lemma rc_sim_no_overread all t0 tail done d t :
  rc_sim all t0 tail done d t -> rd_over (rdec_normalize d) = 0.
Proof. intros (_ & _ & _ & rest & _ & _ & (_ & Hover & _)). exact Hover. Qed.
