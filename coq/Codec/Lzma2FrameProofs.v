(* Codec/Lzma2FrameProofs.v — facts about the LZMA2 chunk framing of the reader model. *)
From LzVerif Require Import Base.Bytes Codec.Store Codec.Range Codec.LzWindow Codec.LzmaDec Codec.Lzma2Dec.

(* rc.prepare reads exactly compressed_size bytes: 0x00, the 4 code bytes, the payload *)
Lemma rdec_prepare_exact input csize rc rest :
  rdec_prepare input csize = Ok (rc, rest) ->
  exists b1 b2 b3 b4 payload,
    input = 0 :: b1 :: b2 :: b3 :: b4 :: payload ++ rest /\
    length payload = Z.to_nat (csize - 5) /\ 5 <= csize /\
    rd_in rc = payload /\ rd_over rc = 0 /\ rd_range rc = 4294967295 /\
    rd_code rc = ((b1 * 256 + b2) * 256 + b3) * 256 + b4.
Proof.
  unfold rdec_prepare. destruct (Z.ltb_spec csize 5) as [Hc|Hc]; [discriminate|].
  destruct input as [|b0 r0]; [discriminate|].
  destruct (Z.eqb_spec b0 0) as [->|]; cbn [negb]; [|discriminate].
  destruct r0 as [|b1 [|b2 [|b3 [|b4 r]]]]; try discriminate.
  destruct (Nat.ltb_spec (length r) (Z.to_nat (csize - 5))) as [Hl|Hl]; [discriminate|].
  intros Heq. inversion Heq; subst; clear Heq.
  exists b1, b2, b3, b4, (firstn (Z.to_nat (csize - 5)) r).
  rewrite firstn_skipn. cbn [rd_in rd_over rd_range rd_code].
  repeat split; auto. apply firstn_length_le. lia.
Qed.
