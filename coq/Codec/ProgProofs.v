(* Codec/ProgProofs.v — generic facts about decision programs: equivalence of programs under
   well-formed answers (bits are 0/1, n direct bits give a value below 2^n), postconditions,
   and how run_rc / run_trace respect them. *)
From LzVerif Require Import Base.Bytes Codec.Store Codec.Range Codec.LzmaDec.
Ltac Zify.zify_post_hook ::= Z.div_mod_to_equations.

Definition bit_ok (b : Z) : Prop := b = 0 \/ b = 1.
Definition direct_ok (n : nat) (v : Z) : Prop := 0 <= v < 2 ^ Z.of_nat (Nat.min n 32).

(* two programs ask the same questions and give R-related answers *)
Inductive peq {A B : Type} (R : A -> B -> Prop) : prog A -> prog B -> Prop :=
| peq_ret a b : R a b -> peq R (Ret a) (Ret b)
| peq_fail e : peq R (Fail e) (Fail e)
| peq_bit key k1 k2 : (forall b, bit_ok b -> peq R (k1 b) (k2 b)) -> peq R (Bit key k1) (Bit key k2)
| peq_direct n k1 k2 : (forall v, direct_ok n v -> peq R (k1 v) (k2 v)) -> peq R (Direct n k1) (Direct n k2).

(* every result a program can return under well-formed answers satisfies P *)
Inductive pall {A : Type} (P : A -> Prop) : prog A -> Prop :=
| pall_ret a : P a -> pall P (Ret a)
| pall_fail e : pall P (Fail e)
| pall_bit key k : (forall b, bit_ok b -> pall P (k b)) -> pall P (Bit key k)
| pall_direct n k : (forall v, direct_ok n v -> pall P (k v)) -> pall P (Direct n k).

Lemma peq_refl {A} (p : prog A) : peq eq p p.
Proof. induction p as [a|e|key k IH|n k IH]; constructor; auto. Qed.

Lemma peq_pall_refl {A} (P : A -> Prop) (p : prog A) : pall P p -> peq (fun a b => a = b /\ P a) p p.
Proof. induction 1; constructor; auto. Qed.

Lemma pall_mono {A} (P Q : A -> Prop) p : (forall a, P a -> Q a) -> pall P p -> pall Q p.
Proof. intros H; induction 1; constructor; auto. Qed.

Lemma peq_mono {A B} (R S : A -> B -> Prop) p q : (forall a b, R a b -> S a b) -> peq R p q -> peq S p q.
Proof. intros H; induction 1; constructor; auto. Qed.

Lemma peq_bind {A B C D} (R : A -> B -> Prop) (S : C -> D -> Prop) p q f g :
  peq R p q -> (forall a b, R a b -> peq S (f a) (g b)) -> peq S (pbind p f) (pbind q g).
Proof. intros H Hf; induction H; cbn [pbind]; try constructor; auto. Qed.

Lemma pall_bind {A B} (P : A -> Prop) (Q : B -> Prop) p f :
  pall P p -> (forall a, P a -> pall Q (f a)) -> pall Q (pbind p f).
Proof. intros H Hf; induction H; cbn [pbind]; try constructor; auto. Qed.

Lemma peq_trans {A B C} (R : A -> B -> Prop) (S : B -> C -> Prop) p q r :
  peq R p q -> peq S q r -> peq (fun a c => exists b, R a b /\ S b c) p r.
Proof.
  intros H; revert r; induction H as [a b Hab|e|key k1 k2 Hk IH|n k1 k2 Hk IH]; intros r Hr; inversion Hr; subst.
  - constructor. eauto.
  - constructor.
  - constructor. intros b0 Hb. apply IH; auto.
  - constructor. intros v Hv. apply IH; auto.
Qed.

Lemma peq_sym {A B} (R : A -> B -> Prop) p q : peq R p q -> peq (fun b a => R a b) q p.
Proof. induction 1; constructor; auto. Qed.

Lemma pbind_ret {A} (p : prog A) : peq eq (pbind p (fun a => Ret a)) p.
Proof. induction p; cbn [pbind]; constructor; auto. Qed.

Lemma pbind_assoc {A B C} (p : prog A) (f : A -> prog B) (g : B -> prog C) :
  peq eq (pbind (pbind p f) g) (pbind p (fun a => pbind (f a) g)).
Proof. induction p; cbn [pbind]; try constructor; auto. apply peq_refl. Qed.

Lemma lift_ok {A} (o : outcome A) a : o = Ok a -> lift o = Ret a.
Proof. intros ->. reflexivity. Qed.

(* ---- the range decoder gives well-formed answers ------------------------------------------- *)
Lemma decode_bit_bit d t k b d' t' : decode_bit d t k = Some (b, d', t') -> bit_ok b.
Proof.
  unfold decode_bit. destruct (P2_32 <=? _); [discriminate|].
  destruct (rd_code _ <? _); intros H; inversion H; subst; [left | right]; reflexivity.
Qed.

Lemma wrap32_range x : 0 <= wrap32 x < 4294967296.
Proof. unfold wrap32. apply Z.mod_pos_bound. lia. Qed.

Lemma shiftr31_bit x : 0 <= x < 4294967296 -> Z.shiftr x 31 = 0 \/ Z.shiftr x 31 = 1.
Proof.
  intros H. rewrite Z.shiftr_div_pow2 by lia. change (2 ^ 31) with 2147483648.
  assert (0 <= x / 2147483648 < 2) by (split; [apply Z.div_pos; lia | apply Z.div_lt_upper_bound; lia]).
  lia.
Qed.

(* n direct bits appended to an accumulator below 2^k stay below 2^(k+n) while k + n <= 32 *)
Lemma decode_direct_bits_small n : forall d acc k v d',
  0 <= acc < 2 ^ Z.of_nat k -> (k + n <= 32)%nat ->
  decode_direct_bits d n acc = (v, d') -> 0 <= v < 2 ^ Z.of_nat (k + n).
Proof.
  induction n as [|m IH]; intros d acc k v d' Hacc Hk H.
  - cbn [decode_direct_bits] in H. inversion H; subst. rewrite Nat.add_0_r. exact Hacc.
  - cbn [decode_direct_bits] in H.
    set (d1 := rdec_normalize d) in *.
    set (t := Z.shiftr (wrap32 (rd_code d1 - Z.shiftr (rd_range d1) 1)) 31) in *.
    assert (Ht : t = 0 \/ t = 1) by (apply shiftr31_bit, wrap32_range).
    assert (Hp : 2 ^ Z.of_nat (S k) = 2 * 2 ^ Z.of_nat k) by (rewrite Nat2Z.inj_succ, Z.pow_succ_r by lia; reflexivity).
    assert (Hle : 2 ^ Z.of_nat (S k) <= 2 ^ 32) by (apply Z.pow_le_mono_r; lia).
    assert (Hnew : 0 <= acc * 2 + (1 - t) < 2 ^ Z.of_nat (S k)) by lia.
    assert (Hw : wrap32 (acc * 2 + (1 - t)) = acc * 2 + (1 - t)).
    { unfold wrap32. apply Z.mod_small. change (2 ^ 32) with 4294967296 in Hle. lia. }
    rewrite Hw in H.
    replace (k + S m)%nat with (S k + m)%nat by lia.
    eapply IH; [exact Hnew | lia | exact H].
Qed.

Lemma decode_direct_bits_u32 n : forall d acc v d',
  0 <= acc < 4294967296 -> decode_direct_bits d n acc = (v, d') -> 0 <= v < 4294967296.
Proof.
  induction n as [|m IH]; intros d acc v d' Hacc H.
  - cbn [decode_direct_bits] in H. inversion H; subst. exact Hacc.
  - cbn [decode_direct_bits] in H. eapply IH; [|exact H]. apply wrap32_range.
Qed.

Lemma decode_direct_bits_ok n d v d' : decode_direct_bits d n 0 = (v, d') -> direct_ok n v.
Proof.
  intros H. unfold direct_ok. destruct (Nat.le_gt_cases n 32) as [Hle|Hgt].
  - rewrite Nat.min_l by assumption.
    apply (decode_direct_bits_small n d 0 0%nat v d'); [cbn; lia | lia | exact H].
  - rewrite Nat.min_r by lia. change (2 ^ Z.of_nat 32) with 4294967296.
    eapply decode_direct_bits_u32; [|exact H]. lia.
Qed.

(* run_rc respects peq: same result up to R, same decoder state and tables *)
Lemma run_rc_peq {A B} (R : A -> B -> Prop) p q :
  peq R p q -> forall d t,
  match run_rc p d t, run_rc q d t with
  | Ok (a, d1, t1), Ok (b, d2, t2) => R a b /\ d1 = d2 /\ t1 = t2
  | Err e1, Err e2 => e1 = e2
  | Panic e1, Panic e2 => e1 = e2
  | Fuel, Fuel => True
  | _, _ => False
  end.
Proof.
  induction 1 as [a b Hab|e|key k1 k2 Hk IH|n k1 k2 Hk IH]; intros d t; cbn [run_rc].
  - auto.
  - destruct e as [u|c|c|]; auto.
  - destruct (decode_bit d t key) as [[[b d1] t1]|] eqn:E; [|reflexivity].
    apply IH. eapply decode_bit_bit; eassumption.
  - destruct (decode_direct_bits d n 0) as [v d1] eqn:E.
    apply IH. eapply decode_direct_bits_ok; eassumption.
Qed.

(* run_rc and postconditions *)
Lemma run_rc_pall {A} (P : A -> Prop) p :
  pall P p -> forall d t a d1 t1, run_rc p d t = Ok (a, d1, t1) -> P a.
Proof.
  induction 1 as [a Ha|e|key k Hk IH|n k Hk IH]; intros d t a0 d1 t1 Hr; cbn [run_rc] in Hr.
  - inversion Hr; subst; assumption.
  - destruct e; discriminate.
  - destruct (decode_bit d t key) as [[[b d2] t2]|] eqn:E; [|discriminate].
    eapply IH; [eapply decode_bit_bit; eassumption | eassumption].
  - destruct (decode_direct_bits d n 0) as [v d2] eqn:E.
    eapply IH; [eapply decode_direct_bits_ok; eassumption | eassumption].
Qed.

(* run_rc of a bind *)
Lemma run_rc_bind {A B} (p : prog A) (f : A -> prog B) d t :
  run_rc (pbind p f) d t =
  match run_rc p d t with
  | Ok (a, d1, t1) => run_rc (f a) d1 t1
  | Err e => Err e
  | Panic e => Panic e
  | Fuel => Fuel
  end.
Proof.
  revert d t; induction p as [a|e|key k IH|n k IH]; intros d t; cbn [pbind run_rc].
  - reflexivity.
  - destruct e; reflexivity.
  - destruct (decode_bit d t key) as [[[b d1] t1]|]; [apply IH | reflexivity].
  - destruct (decode_direct_bits d n 0) as [v d1]. apply IH.
Qed.

(* run_trace of a bind *)
Lemma run_trace_bind {A B} (p : prog A) (f : A -> prog B) evs :
  run_trace (pbind p f) evs =
  match run_trace p evs with
  | Some (Ok a, rest) => run_trace (f a) rest
  | Some (Err e, rest) => Some (Err e, rest)
  | Some (Panic e, rest) => Some (Panic e, rest)
  | Some (Fuel, rest) => Some (Fuel, rest)
  | None => None
  end.
Proof.
  revert evs; induction p as [a|e|key k IH|n k IH]; intros evs; cbn [pbind run_trace].
  - reflexivity.
  - destruct e; reflexivity.
  - destruct evs as [|[key' b|n' v] rest]; try reflexivity.
    destruct ((key =? key') && ((b =? 0) || (b =? 1))); [apply IH | reflexivity].
  - destruct evs as [|[key' b|n' v] rest]; try reflexivity.
    destruct (Nat.eqb n n'); [apply IH | reflexivity].
Qed.

(* bind nested on the left (the shape produced by helper definitions) *)
Lemma peq_bind2 {A B C D E} (R : A -> B -> Prop) (S : D -> E -> Prop) p q (f : A -> prog C) (g : C -> prog D) h :
  peq R p q -> (forall a b, R a b -> peq S (pbind (f a) g) (h b)) -> peq S (pbind (pbind p f) g) (pbind q h).
Proof. intros H Hf; induction H; cbn [pbind]; try constructor; auto. Qed.

Lemma peq_trans_eq {A} (p q r : prog A) : peq eq p q -> peq eq q r -> peq eq p r.
Proof.
  intros H1 H2. eapply peq_mono; [|eapply peq_trans; eassumption].
  intros a c (b & -> & ->). reflexivity.
Qed.

Lemma peq_sym_eq {A} (p q : prog A) : peq eq p q -> peq eq q p.
Proof. intros H. eapply peq_mono; [|apply peq_sym; exact H]. intros a b ->. reflexivity. Qed.
