(* Codec/Lzma2LoopProofs.v — the two loops of the LZMA2 reader model (lzma2_read_loop inside
   lzma2_read, and the read history lzma2_read_all), proved from an abstract description of one
   iteration (lzma2_iter) by an invariant. *)
From LzVerif Require Import Base.Bytes Codec.Store Codec.Range Codec.LzWindow Codec.LzmaDec Codec.Lzma2Dec.
Ltac Zify.zify_post_hook ::= Z.div_mod_to_equations.

(* small list facts *)
Lemma l2_zlen_app {A} (a b : list A) : zlen (a ++ b) = zlen a + zlen b.
Proof. unfold zlen. rewrite app_length. lia. Qed.

Lemma l2_zlen_nonneg {A} (l : list A) : 0 <= zlen l.
Proof. unfold zlen. lia. Qed.

Lemma l2_zlen_pos {A} (l : list A) : l <> [] -> 0 < zlen l.
Proof.
  intros Hne. destruct l as [|x t]; [congruence|].
  unfold zlen. cbn [length]. lia.
Qed.

Lemma l2_zlen_zero {A} (l : list A) : zlen l = 0 -> l = [].
Proof.
  intros Hz. destruct l as [|x t]; [reflexivity|].
  unfold zlen in Hz. cbn [length] in Hz. lia.
Qed.

Lemma l2_length_pos {A} (l : list A) : l <> [] -> (1 <= length l)%nat.
Proof.
  intros Hne. destruct l as [|x t]; [congruence|]. cbn [length]. lia.
Qed.

Lemma l2_rev_rev_append {A} (out acc : list A) : rev (rev_append out acc) = rev acc ++ out.
Proof. rewrite rev_append_rev, rev_app_distr, rev_involutive. reflexivity. Qed.

(* unfolding equations of the two fixpoints *)
Lemma l2_read_loop_done fuel s len acc :
  len <= 0 -> lzma2_read_loop fuel s len acc = Ok (frev acc, s).
Proof.
  intros Hlen. destruct fuel as [|f]; cbn [lzma2_read_loop];
    destruct (Z.leb_spec len 0) as [Hle|Hgt]; try lia; reflexivity.
Qed.

Lemma l2_read_loop_step f s len acc :
  0 < len ->
  lzma2_read_loop (S f) s len acc =
  obind (lzma2_iter s len) (fun r =>
    let '(out, s1) := r in
    if m_end_reached s1 then Ok (frev acc, s1)
    else lzma2_read_loop f s1 (len - zlen out) (rev_append out acc)).
Proof.
  intros Hlen. cbn [lzma2_read_loop].
  destruct (Z.leb_spec len 0) as [Hle|Hgt]; [lia|reflexivity].
Qed.

Lemma l2_read_live s sz :
  0 < sz -> m_error s = None -> m_end_reached s = false ->
  lzma2_read s sz = lzma2_read_loop (Z.to_nat (2 * sz + 4)) s sz [].
Proof.
  intros Hsz Herr Hend. unfold lzma2_read.
  destruct (Z.leb_spec sz 0) as [Hle|Hgt]; [lia|].
  rewrite Herr, Hend. reflexivity.
Qed.

Definition l2_next (sizes all : list Z) : Z * list Z :=
  match sizes with [] => (4096, all) | x :: r => (x, r) end.

Lemma l2_read_all_step f s sizes all acc :
  lzma2_read_all (S f) s sizes all acc =
  match lzma2_read s (fst (l2_next sizes all)) with
  | Ok (out, s1) =>
      if (0 <? fst (l2_next sizes all)) && (zlen out =? 0) then Ok (frev acc, 0, s1)
      else lzma2_read_all f s1
             (match snd (l2_next sizes all) with [] => all | _ => snd (l2_next sizes all) end)
             all (rev_append out acc)
  | Err e => Ok (frev acc, e, lzma2_set_error s e)
  | Panic e => Panic e
  | Fuel => Fuel
  end.
Proof.
  cbn [lzma2_read_all]. destruct sizes as [|x r]; reflexivity.
Qed.

Lemma l2_next_pos sizes all :
  Forall (fun z => 0 < z) sizes -> Forall (fun z => 0 < z) all ->
  0 < fst (l2_next sizes all) /\
  Forall (fun z => 0 < z)
    (match snd (l2_next sizes all) with [] => all | _ => snd (l2_next sizes all) end).
Proof.
  intros Hs Ha. destruct sizes as [|x r]; cbn [l2_next fst snd].
  - split; [lia|]. destruct all as [|y t]; assumption.
  - inversion Hs as [|x0 r0 Hx Hr]; subst. split; [assumption|].
    destruct r as [|y t]; assumption.
Qed.

Section Loops.
  Variable Inv : lzma2 -> list Z -> Prop.     (* reader state, data it still has to deliver *)
  Variable tail : list Z.
  Definition Ended (s : lzma2) : Prop :=
    m_end_reached s = true /\ m_error s = None /\ m_in s = tail.

  Hypothesis Inv_live : forall s rem, Inv s rem -> m_end_reached s = false /\ m_error s = None.
  Hypothesis iter_step : forall s rem len, Inv s rem -> 0 < len ->
    exists out s', lzma2_iter s len = Ok (out, s') /\
      ((rem = [] /\ out = [] /\ Ended s') \/
       (out <> [] /\ zlen out <= len /\ exists rem', rem = out ++ rem' /\ Inv s' rem')).

  (* the while loop: with enough fuel it returns a prefix of the remaining data; it stops short
     of [len] bytes only at the end of the stream *)
  Lemma read_loop_ok : forall fuel s rem len acc,
    Inv s rem -> 0 <= len -> (Z.to_nat len + 1 <= fuel)%nat ->
    exists out s' rem',
      lzma2_read_loop fuel s len acc = Ok (rev acc ++ out, s') /\
      rem = out ++ rem' /\ zlen out <= len /\
      ((Inv s' rem' /\ zlen out = len) \/ (rem' = [] /\ Ended s')).
  Proof.
    induction fuel as [|f IH]; intros s rem len acc HInv Hlen Hfuel; [lia|].
    destruct (Z.eq_dec len 0) as [Hz|Hnz].
    - exists [], s, rem. rewrite l2_read_loop_done by lia.
      rewrite frev_rev, app_nil_r. cbn [app].
      split; [reflexivity|]. split; [reflexivity|].
      split; [unfold zlen; cbn [length]; lia|].
      left. split; [assumption|]. unfold zlen; cbn [length]; lia.
    - assert (Hpos : 0 < len) by lia.
      rewrite l2_read_loop_step by assumption.
      destruct (iter_step s rem len HInv Hpos) as (out & s1 & Hiter & Hcase).
      rewrite Hiter. cbn [obind].
      destruct Hcase as [(Hrem & Hout & HEnd) | (Hne & Hle & rem1 & Hrem & HInv1)].
      + destruct HEnd as (He1 & He2 & He3). rewrite He1.
        exists [], s1, []. rewrite frev_rev, app_nil_r. subst rem.
        split; [reflexivity|]. split; [reflexivity|].
        split; [unfold zlen; cbn [length]; lia|].
        right. split; [reflexivity|]. repeat split; assumption.
      + destruct (Inv_live s1 rem1 HInv1) as (Hlive & _). rewrite Hlive.
        pose proof (l2_zlen_pos out Hne) as Hop.
        destruct (IH s1 rem1 (len - zlen out) (rev_append out acc) HInv1 ltac:(lia) ltac:(lia))
          as (out2 & s2 & rem2 & Hloop & Hrem2 & Hle2 & Hcase2).
        exists (out ++ out2), s2, rem2.
        rewrite Hloop, l2_rev_rev_append, <- app_assoc.
        split; [reflexivity|].
        split; [subst rem rem1; rewrite <- app_assoc; reflexivity|].
        rewrite l2_zlen_app.
        split; [lia|].
        destruct Hcase2 as [(HInv2 & Hfull) | (Hnil & HEnd2)].
        * left. split; [assumption|lia].
        * right. split; assumption.
  Qed.

  Lemma read_ok : forall s rem sz, Inv s rem -> 0 < sz ->
    exists out s' rem', lzma2_read s sz = Ok (out, s') /\ rem = out ++ rem' /\
      (Inv s' rem' \/ (rem' = [] /\ Ended s')) /\
      (out = [] -> rem = [] /\ Ended s') /\ (rem <> [] -> out <> []).
  Proof.
    intros s rem sz HInv Hsz.
    destruct (Inv_live s rem HInv) as (Hend & Herr).
    rewrite l2_read_live by assumption.
    destruct (read_loop_ok (Z.to_nat (2 * sz + 4)) s rem sz [] HInv ltac:(lia) ltac:(lia))
      as (out & s1 & rem1 & Hloop & Hrem & Hle & Hcase).
    cbn [rev app] in Hloop.
    exists out, s1, rem1.
    split; [assumption|]. split; [assumption|].
    destruct Hcase as [(HInv1 & Hfull) | (Hnil & HEnd1)].
    - split; [left; assumption|].
      split.
      + intros Hout. subst out. unfold zlen in Hfull; cbn [length] in Hfull. lia.
      + intros _ Hout. subst out. unfold zlen in Hfull; cbn [length] in Hfull. lia.
    - split; [right; split; assumption|].
      split.
      + intros Hout. subst out rem1. cbn [app] in Hrem. split; assumption.
      + intros Hne Hout. subst out rem1. cbn [app] in Hrem. congruence.
  Qed.

  Lemma read_ended : forall s sz, Ended s -> 0 < sz -> lzma2_read s sz = Ok ([], s).
  Proof using tail.
    clear Inv_live iter_step Inv.
    intros s sz (He1 & He2 & He3) Hsz. unfold lzma2_read.
    destruct (Z.leb_spec sz 0) as [Hle|Hgt]; [lia|].
    rewrite He2, He1. reflexivity.
  Qed.

  Lemma read_all_ended : forall f s sizes all acc,
    Ended s -> Forall (fun z => 0 < z) sizes -> Forall (fun z => 0 < z) all ->
    lzma2_read_all (S f) s sizes all acc = Ok (frev acc, 0, s).
  Proof using tail.
    clear Inv_live iter_step Inv.
    intros f s sizes all acc HEnd Hs Ha.
    destruct (l2_next_pos sizes all Hs Ha) as (Hsz & _).
    rewrite l2_read_all_step, (read_ended s _ HEnd Hsz).
    destruct (Z.ltb_spec 0 (fst (l2_next sizes all))) as [Hlt|Hge]; [|lia].
    reflexivity.
  Qed.

  Theorem read_all_ok : forall fuel s rem sizes all acc,
    Inv s rem -> Forall (fun z => 0 < z) sizes -> Forall (fun z => 0 < z) all ->
    (length rem + 2 <= fuel)%nat ->
    exists s_end, lzma2_read_all fuel s sizes all acc = Ok (rev acc ++ rem, 0, s_end) /\ Ended s_end.
  Proof.
    induction fuel as [|f IH]; intros s rem sizes all acc HInv Hs Ha Hfuel; [lia|].
    destruct (l2_next_pos sizes all Hs Ha) as (Hsz & Hnext).
    rewrite l2_read_all_step.
    destruct (read_ok s rem _ HInv Hsz)
      as (out & s1 & rem1 & Hread & Hrem & Hcase & Hempty & Hnonempty).
    rewrite Hread.
    destruct (Z.ltb_spec 0 (fst (l2_next sizes all))) as [Hlt|Hge]; [|lia].
    cbn [andb].
    destruct (Z.eqb_spec (zlen out) 0) as [Hz|Hnz].
    - apply l2_zlen_zero in Hz. destruct (Hempty Hz) as (Hrnil & HEnd1).
      exists s1. rewrite Hrnil, frev_rev, app_nil_r. split; [reflexivity|assumption].
    - assert (Hne : out <> []).
      { intros Hout. subst out. apply Hnz. reflexivity. }
      pose proof (l2_length_pos out Hne) as Hlen1.
      assert (Hlen : length rem = (length out + length rem1)%nat).
      { subst rem. apply app_length. }
      destruct Hcase as [HInv1 | (Hnil & HEnd1)].
      + destruct (IH s1 rem1 _ all (rev_append out acc) HInv1 Hnext Ha ltac:(lia))
          as (s_end & Hall & HEnd).
        exists s_end. rewrite Hall, l2_rev_rev_append, <- app_assoc, Hrem.
        split; [reflexivity|assumption].
      + destruct f as [|f']; [lia|].
        rewrite (read_all_ended f' s1 _ all (rev_append out acc) HEnd1 Hnext Ha).
        exists s1. rewrite frev_rev, l2_rev_rev_append, Hrem, Hnil, app_nil_r.
        split; [reflexivity|assumption].
  Qed.
End Loops.
