(* Codec/Lzma1LoopProofs.v — the read loops of the LZMAReader model (Lzma1.v) over a stream whose
   decisions are known: whatever destination sizes the caller uses, the calls of LZMADecoder::decode
   they cause compose to ONE run of the specification decoder (LzmaAbs.v), the bytes handed out are
   consecutive segments of the data, and when the end is reported exactly the encoder's bytes have
   been consumed.  Both ways a stream ends are covered: declared size reached, end marker met.
   This file is parametric in the facts about the recorded decisions (Section Reader);
   Lzma1ReadProofs.v instantiates them from the writer model.  Proofs only. *)
From LzVerif Require Import Base.Bytes Codec.Store Codec.Range Codec.ProbProofs Codec.RangeArithProofs
  Codec.LzWindow Codec.LzmaDec Codec.LzmaAbs Codec.LzWindowProofs Codec.ProgProofs Codec.LzmaAbsProofs
  Codec.RangeEncProofs Codec.RangeDecProofs Codec.RangeProofs Codec.LzmaSymProofs Codec.LzmaReadProofs
  Codec.Lzma1.
Ltac Zify.zify_post_hook ::= Z.div_mod_to_equations.

(* ---------------------------------------------------------------------------------------------
   lists: segments of the data and the newest-first history *)
Definition seg {A} (l : list A) (k m : nat) : list A := firstn m (skipn k l).

Lemma firstn_skipn_add {A} a : forall b (l : list A), firstn a l ++ firstn b (skipn a l) = firstn (a + b) l.
Proof.
  induction a as [|a IH]; intros b l; [reflexivity|].
  destruct l as [|x t].
  - cbn [firstn skipn app Nat.add]. apply firstn_nil.
  - cbn [firstn skipn app Nat.add]. rewrite IH. reflexivity.
Qed.

Lemma skipn_add {A} a : forall k (l : list A), skipn a (skipn k l) = skipn (k + a) l.
Proof.
  induction k as [|k IH]; intros l; [reflexivity|].
  destruct l as [|x t]; [cbn [skipn Nat.add]; apply skipn_nil|]. cbn [skipn Nat.add]. apply IH.
Qed.

Lemma seg_app {A} (l : list A) k a b : seg l k a ++ seg l (k + a) b = seg l k (a + b).
Proof.
  unfold seg. replace (skipn (k + a) l) with (skipn a (skipn k l)) by apply skipn_add.
  apply firstn_skipn_add.
Qed.

Lemma seg_length {A} (l : list A) k m : (k + m <= length l)%nat -> length (seg l k m) = m.
Proof. intros H. unfold seg. rewrite firstn_length, skipn_length. lia. Qed.

Lemma seg_all {A} (l : list A) : seg l 0 (length l) = l.
Proof. unfold seg. cbn [skipn]. apply firstn_all. Qed.

Lemma seg_nil {A} (l : list A) k : seg l k 0 = [].
Proof. reflexivity. Qed.

Lemma app_eq_len {A} : forall (a b c d : list A), a ++ b = c ++ d -> length a = length c -> a = c /\ b = d.
Proof.
  induction a as [|x a IH]; intros b c d He Hl; destruct c as [|y c]; cbn [length] in Hl; try lia.
  - split; [reflexivity | exact He].
  - cbn [app] in He. inversion He; subst. destruct (IH b c d) as [-> ->]; [assumption | lia |]. split; reflexivity.
Qed.

(* the history is the data reversed (followed by what was there before); the piece [newb] that a
   call adds on top of the first k bytes is segment k.. of the data *)
Lemma hist_seg (data hist0 hist new2 newb : list Z) k :
  rev data ++ hist0 = new2 ++ newb ++ hist ->
  (k + length newb + length new2 = length data)%nat ->
  rev newb = seg data k (length newb).
Proof.
  intros He Hl. set (b := length newb) in *.
  assert (Hd : data = firstn k data ++ seg data k b ++ skipn (k + b) data).
  { rewrite <- (firstn_skipn k data) at 1. f_equal.
    rewrite <- (firstn_skipn b (skipn k data)) at 1. unfold seg. f_equal. apply skipn_add. }
  rewrite Hd in He at 1. rewrite !rev_app_distr, <- !app_assoc in He.
  apply app_eq_len in He as [_ He].
  2:{ rewrite rev_length, skipn_length. lia. }
  apply app_eq_len in He as [He _].
  2:{ rewrite rev_length, seg_length; lia. }
  rewrite <- He. apply rev_involutive.
Qed.

(* ---------------------------------------------------------------------------------------------
   decision programs: postconditions on recorded runs; the pending distance is irrelevant while
   nothing is pending *)
Lemma run_trace_pall {A} (P : A -> Prop) p evs a rest :
  pall P p -> Forall ev_wf evs -> run_trace p evs = Some (Ok a, rest) -> P a.
Proof.
  intros Hp Hwf Hr. pose proof (run_trace_peq _ _ _ (peq_pall_refl P p Hp) evs Hwf) as H.
  rewrite Hr in H. tauto.
Qed.

Lemma run_trace_grows k s evs s' st rest : Forall ev_wf evs ->
  run_trace (aproduce k s) evs = Some (Ok (s', st), rest) -> grows k s (s', st).
Proof. intros Hwf Hr. exact (run_trace_pall _ _ _ _ _ (aproduce_grows k s) Hwf Hr). Qed.

Definition aeqv (s s' : astate) : Prop :=
  a_coder s = a_coder s' /\ a_hist s = a_hist s' /\ a_dict s = a_dict s' /\ a_pend_len s = a_pend_len s' /\
  (0 < a_pend_len s -> a_pend_dist s = a_pend_dist s').

Lemma aeqv_refl s : aeqv s s.
Proof. unfold aeqv; tauto. Qed.

Lemma aproduce_aeqv n : forall s s', aeqv s s' ->
  peq (fun r r' => aeqv (fst r) (fst r') /\ snd r = snd r') (aproduce n s) (aproduce n s').
Proof.
  induction n as [|n IH]; intros s s' Hs; cbn [aproduce].
  - constructor. cbn [fst snd]. split; [exact Hs | reflexivity].
  - destruct s as [c h dct pl pd]. destruct s' as [c' h' dct' pl' pd']. unfold aeqv in Hs.
    cbn [a_coder a_hist a_dict a_pend_len a_pend_dist] in *.
    destruct Hs as (<- & <- & <- & <- & Hpd).
    destruct (Z.ltb_spec 0 pl) as [Hpos|Hz].
    + rewrite <- (Hpd Hpos). apply IH. unfold aeqv; cbn [a_coder a_hist a_dict a_pend_len a_pend_dist]. tauto.
    + eapply peq_bind; [apply peq_refl|]. intros r ? <-.
      destruct (snd r) as [b|dist len].
      * apply IH. unfold aeqv; cbn [a_coder a_hist a_dict a_pend_len a_pend_dist]. repeat split; lia.
      * unfold a_full; cbn [a_hist a_dict].
        destruct (Z.min (zlen h) dct <=? dist).
        -- constructor. cbn [fst snd]. split; [|reflexivity].
           unfold aeqv; cbn [a_coder a_hist a_dict a_pend_len a_pend_dist]. repeat split; lia.
        -- destruct (len <=? 0); [constructor|].
           apply IH. unfold aeqv; cbn [a_coder a_hist a_dict a_pend_len a_pend_dist]. tauto.
Qed.

Lemma run_trace_aeqv n s s' evs r st rest : aeqv s s' -> Forall ev_wf evs ->
  run_trace (aproduce n s) evs = Some (Ok (r, st), rest) ->
  exists r', run_trace (aproduce n s') evs = Some (Ok (r', st), rest) /\ aeqv r r'.
Proof.
  intros Hs Hwf Hr. pose proof (run_trace_peq _ _ _ (aproduce_aeqv n s s' Hs) evs Hwf) as H.
  rewrite Hr in H. destruct (run_trace (aproduce n s') evs) as [[[[r' st']|e|e|] rest']|]; try contradiction.
  cbn [fst snd] in H. destruct H as ((Ha & <-) & <-). exists r'. split; [reflexivity | exact Ha].
Qed.

(* ---------------------------------------------------------------------------------------------
   range decoder: small facts *)
Lemma rdec_normalize_over d : rd_over d <= rd_over (rdec_normalize d).
Proof.
  unfold rdec_normalize. destruct (rd_range d <? P2_24); [|lia].
  unfold rdec_read. destruct (rd_in d); cbn [rd_over]; lia.
Qed.

Lemma rc_sim_over all t0 tail done d t : rc_sim all t0 tail done d t -> (0 <? rd_over d) = false.
Proof.
  intros H. apply rc_sim_no_overread in H. pose proof (rdec_normalize_over d). apply Z.ltb_ge. lia.
Qed.

Lemma rc_sim_normal all t0 tail done d t :
  rc_sim all t0 tail done d t -> rdec_normalize (rdec_normalize d) = rdec_normalize d.
Proof.
  intros Hsim. destruct (rc_sim_state _ _ _ _ _ _ Hsim) as (HI & _).
  destruct Hsim as (_ & _ & _ & rest & _ & _ & Hm).
  exact (dec_match_normalized _ _ _ _ Hm HI).
Qed.

(* decode_call_sim, recording in addition that a successful call leaves the range decoder normalised *)
Lemma decode_call_sim_norm all t0 tail done rest c w hist d t b s' st' rest' :
  rc_sim all t0 tail done d t -> all = done ++ rest ->
  Rel w hist -> coder_ok c (w_full w) -> w_pos w <= w_limit w -> Z.of_nat b = w_limit w - w_pos w ->
  (0 < w_pending_len w -> 0 <= w_pending_dist w < w_full w) ->
  run_trace (aproduce b (mkAstate c hist (w_size w) (w_pending_len w) (w_pending_dist w))) rest
    = Some (Ok (s', st'), rest') ->
  exists w1 d1 t1 evs1,
    rest = evs1 ++ rest' /\
    lzma_decode c w d t = Ok (a_coder s', w1, st', d1, t1) /\
    rc_sim all t0 tail (done ++ evs1) d1 t1 /\
    loop_rel w hist (a_coder s', w1, st') (s', st') /\
    (st' = Ok tt -> rdec_normalize d1 = d1).
Proof.
  intros Hsim Hall R Hc Hpl Hb Hpd Hrun.
  destruct (run_trace_consumed _ _ _ _ Hrun) as (evs1 & Hrest & _).
  subst rest.
  destruct (rc_sim_run all t0 tail done d t _ _ evs1 rest' _ Hsim Hall Hrun) as (d' & t' & Hrc & Hsim').
  pose proof (lzma_decode_abs c w hist d t b R Hc Hpl Hb Hpd) as HA.
  rewrite Hrc in HA. destruct HA as (w1 & Hdec & Hrel).
  exists w1, (match st' with Ok _ => rdec_normalize d' | _ => d' end), t', evs1.
  split; [reflexivity|]. split; [exact Hdec|]. split; [|split; [exact Hrel|]].
  - destruct st'; [apply rc_sim_normalize|..]; exact Hsim'.
  - intros ->. eapply rc_sim_normal; exact Hsim'.
Qed.

(* ---------------------------------------------------------------------------------------------
   window: flush leaves room *)
Lemma flush_pos_lt w : 0 < w_size w -> w_pos w <= w_size w ->
  w_pos (snd (lzwin_flush w)) < w_size (snd (lzwin_flush w)) /\ w_full (snd (lzwin_flush w)) = w_full w.
Proof.
  intros Hs Hp. unfold lzwin_flush. cbn [snd w_pos w_size w_full].
  destruct (Z.eqb_spec (w_pos w) (w_size w)); split; try reflexivity; lia.
Qed.
(* ---------------------------------------------------------------------------------------------
   one iteration of read_decode, in terms of the decode call it makes *)
Definition csm (s : lzma1) (len : Z) : Z :=
  if (l_remaining s <=? U64_HALF) && (l_remaining s <? len) then l_remaining s else len.

Lemma iter_of_decode_ok s len c1 w1 d1 t1 :
  lzma_decode (l_coder s) (lzwin_set_limit (l_win s) (csm s len)) (l_rc s) (l_probs s) = Ok (c1, w1, Ok tt, d1, t1) ->
  (0 <? rd_over d1) = false ->
  lzma1_iter s len =
    (let out := fst (lzwin_flush w1) in
     let w2 := snd (lzwin_flush w1) in
     let remaining := if l_remaining s <=? U64_HALF then l_remaining s - zlen out else l_remaining s in
     let end2 := l_end_reached s || ((l_remaining s <=? U64_HALF) && (remaining =? 0)) in
     if end2 && lzwin_has_pending w2 then Err E_INVALID_DATA else Ok (out, mkLzma1 c1 w2 d1 t1 end2 remaining)).
Proof.
  intros Hd Ho. unfold lzma1_iter. fold (csm s len). rewrite Hd. cbn [obind]. rewrite Ho.
  cbn [obind]. destruct (lzwin_flush w1) as [out w2]. reflexivity.
Qed.

Lemma iter_of_decode_end s len c1 w1 e d1 t1 :
  lzma_decode (l_coder s) (lzwin_set_limit (l_win s) (csm s len)) (l_rc s) (l_probs s) = Ok (c1, w1, Err e, d1, t1) ->
  (0 <? rd_over d1) = false -> l_remaining s = U64_MAX -> c_rep0 c1 = 4294967295 ->
  (0 <? rd_over (rdec_normalize d1)) = false ->
  lzma1_iter s len =
    (let out := fst (lzwin_flush w1) in
     let w2 := snd (lzwin_flush w1) in
     if lzwin_has_pending w2 then Err E_INVALID_DATA else Ok (out, mkLzma1 c1 w2 (rdec_normalize d1) t1 true U64_MAX)).
Proof.
  intros Hd Ho Hr Hc Ho2. unfold lzma1_iter. fold (csm s len). rewrite Hd. cbn [obind]. rewrite Ho.
  rewrite Hr, Hc, Ho2. change (U64_MAX =? U64_MAX) with true. change (4294967295 =? 4294967295) with true.
  cbn [negb orb obind]. change (U64_MAX <=? U64_HALF) with false.
  destruct (lzwin_flush w1) as [out w2]. reflexivity.
Qed.

(* ---------------------------------------------------------------------------------------------
   the reader over a stream with known decisions *)
Section Reader.
Variable E : list event.        (* all decisions coded in the stream *)
Variable tail : list Z.         (* what follows the stream in the source *)
Variable W : Z.                 (* the decoder's window size *)
Variable data : list Z.
Variable hist0 : list Z.        (* the history before the first byte (newest first): [] or the preset *)
Variable marker : bool.         (* true: unknown size, end marker; false: declared size *)
Hypothesis Hsmall : zlen data <= U64_HALF.
Notation N := (length data).

(* the state of the specification decoder once all the data has been produced *)
Definition fin_ok (sN : astate) (restN : list event) : Prop :=
  a_hist sN = rev data ++ hist0 /\ a_pend_len sN = 0 /\
  if marker then
    forall j, exists sE, run_trace (aproduce (S j) sN) restN = Some (Ok (sE, Err E_OTHER), []) /\
      c_rep0 (a_coder sE) = 4294967295 /\ a_hist sE = rev data ++ hist0 /\ a_pend_len sE = 0
  else restN = [].

(* the reader after k bytes, between two iterations.  [strict = false] also covers the state right
   after construction with a preset dictionary that fills the window completely (pos = buf_size):
   the first iteration then produces nothing and flush() wraps the position. *)
Definition InvG (strict : bool) (k : nat) (s : lzma1) : Prop :=
  (k <= N)%nat /\
  exists hist done rest sN restN,
    E = done ++ rest /\
    rc_sim E PLeaf tail done (l_rc s) (l_probs s) /\
    Rel (l_win s) hist /\ w_start (l_win s) = w_pos (l_win s) /\
    (strict = true -> w_pos (l_win s) < w_size (l_win s)) /\
    w_size (l_win s) = W /\
    coder_ok (l_coder s) (w_full (l_win s)) /\
    (0 < w_pending_len (l_win s) -> 0 <= w_pending_dist (l_win s) < w_full (l_win s)) /\
    run_trace (aproduce (N - k) (mkAstate (l_coder s) hist (w_size (l_win s)) (w_pending_len (l_win s))
                                          (w_pending_dist (l_win s)))) rest
      = Some (Ok (sN, Ok tt), restN) /\
    fin_ok sN restN /\
    l_end_reached s = false /\
    l_remaining s = (if marker then U64_MAX else Z.of_nat (N - k)).

Notation Inv := (InvG true).

Lemma Inv_weaken strict k s : Inv k s -> InvG strict k s.
Proof.
  intros (HkN & hist & done & rest & sN & restN & HE & Hsim & R & Hst & Hpos & H).
  split; [exact HkN|]. exists hist, done, rest, sN, restN.
  split; [exact HE|]. split; [exact Hsim|]. split; [exact R|]. split; [exact Hst|].
  split; [intros _; apply Hpos; reflexivity | exact H].
Qed.

Definition Ended (s : lzma1) : Prop := l_end_reached s = true /\ rd_in (l_rc s) = tail.

Lemma fin_ok_aeqv sN sN' restN : Forall ev_wf restN -> aeqv sN sN' -> fin_ok sN restN -> fin_ok sN' restN.
Proof.
  intros Hwf Ha (HH & Hpl & Hm). pose proof Ha as (Hc & Hh & Hd & Hp & _).
  split; [congruence|]. split; [congruence|].
  destruct marker; [|exact Hm].
  intros j. destruct (Hm j) as (sE & Hrun & Hrep & HhE & HpE).
  destruct (run_trace_aeqv _ _ _ _ _ _ _ Ha Hwf Hrun) as (sE' & Hrun' & (Hc' & Hh' & _ & Hp' & _)).
  exists sE'. split; [exact Hrun'|]. split; [congruence|]. split; congruence.
Qed.

Lemma iter_step strict k s len : InvG strict k s -> 0 < len ->
  exists m s', lzma1_iter s len = Ok (seg data k m, s') /\ Z.of_nat m <= len /\ (k + m <= N)%nat /\
    ((Ended s' /\ (k + m = N)%nat) \/ (Inv (k + m) s' /\ (strict = true -> (0 < m)%nat))).
Proof.
  intros (HkN & hist & done & rest & sN & restN & HE & Hsim & R & Hst & Hpos & Hsz & Hco & Hpd & Hrun & Hfin & Hend & Hrem) Hlen.
  set (w := l_win s) in *.
  assert (HwfE : Forall ev_wf E) by (apply forall_ev_wf; destruct Hsim as (_ & H & _); exact H).
  assert (Hwfr : Forall ev_wf rest) by (rewrite HE in HwfE; eapply Forall_app_r; exact HwfE).
  pose proof R as [[HW0 HW16] [[Hp0 Hp1] Hp2] _ _ _ _ _ Hpe].
  assert (Hcsm : 0 <= csm s len <= len /\ (marker = false -> csm s len = Z.min (Z.of_nat (N - k)) len) /\
                 (marker = true -> csm s len = len)).
  { unfold csm. rewrite Hrem. destruct marker.
    - change (U64_MAX <=? U64_HALF) with false. cbn [andb].
      split; [lia|]. split; [intros; discriminate | reflexivity].
    - assert (Hs' : Z.of_nat (N - k) <= U64_HALF) by (unfold zlen in Hsmall; lia).
      destruct (Z.leb_spec (Z.of_nat (N - k)) U64_HALF); [|lia].
      destruct (Z.ltb_spec (Z.of_nat (N - k)) len); cbn [andb];
        (split; [lia|]); (split; [intros _; lia | intros; discriminate]). }
  destruct Hcsm as (Hcsm0 & HcsmD & HcsmM).
  set (w' := lzwin_set_limit w (csm s len)).
  destruct (set_limit_rel w hist (csm s len) R ltac:(lia)) as (R' & Hpl'). fold w' in R', Hpl'.
  set (b := Z.to_nat (w_limit w' - w_pos w')).
  assert (Hb : Z.of_nat b = Z.min (csm s len) (W - w_pos w)).
  { unfold b, w', lzwin_set_limit; cbn [w_limit w_pos]. rewrite Hsz. lia. }
  assert (Hpw : w_pos w' = w_pos w) by reflexivity.
  assert (Hb' : Z.of_nat b = w_limit w' - w_pos w') by (unfold b; lia).
  destruct (le_lt_dec b (N - k)) as [Hle|Hgt].
  - (* a call that stays inside the data *)
    replace (N - k)%nat with (b + (N - k - b))%nat in Hrun by lia.
    destruct (trace_prefix_ok _ _ _ _ _ _ Hwfr Hrun) as (s1 & r1 & Hrun1 & Hrun2).
    destruct (decode_call_sim_norm E PLeaf tail done rest (l_coder s) w' hist (l_rc s) (l_probs s) b s1 (Ok tt) r1
                Hsim HE R' Hco Hpl' Hb' Hpd Hrun1) as (w1 & d1 & t1 & evs1 & Hrest & Hdec & Hsim1 & Hrel & Hnorm).
    unfold loop_rel in Hrel.
    destruct Hrel as (_ & _ & R1 & Hd1 & Hsz1 & Hli1 & Hst1 & Hpo1 & Hzl1 & Hpl1 & Hok1 & Hpd1).
    specialize (Hnorm eq_refl). destruct (Hok1 eq_refl) as (Hco1 & _).
    destruct (run_trace_grows _ _ _ _ _ _ Hwfr Hrun1) as (_ & Hg1 & _).
    destruct (Hg1 eq_refl) as (newb & Hh1 & Hlb). cbn [a_hist fst] in Hh1.
    assert (Hwfr1 : Forall ev_wf r1) by (eapply run_trace_rest_wf; eassumption).
    destruct (run_trace_grows _ _ _ _ _ _ Hwfr1 Hrun2) as (_ & Hg2 & _).
    destruct (Hg2 eq_refl) as (new2 & Hh2 & Hl2). cbn [a_hist fst] in Hh2.
    pose proof Hfin as (HH & HplN & Hmode).
    assert (Hseg : rev newb = seg data k b).
    { rewrite <- Hlb. apply (hist_seg data hist0 hist new2 newb k); [rewrite <- HH, Hh2, Hh1; reflexivity | lia]. }
    rewrite (iter_of_decode_ok s len _ _ _ _ Hdec (rc_sim_over _ _ _ _ _ _ Hsim1)).
    pose proof (flush_rel w1 (a_hist s1) R1) as Hfl.
    pose proof R1 as [[HW0' _] [_ Hp2'] _ _ _ _ _ _].
    pose proof (flush_pos_lt w1 HW0' Hp2') as (Hfp & Hff).
    destruct (lzwin_flush w1) as [out w2] eqn:Efl. cbn [fst snd] in *. cbv zeta.
    destruct Hfl as (Hout & R2 & Hst2 & Hsz2 & Hli2 & Hpl2 & Hpd2).
    assert (Hnb : Z.to_nat (w_pos w1 - w_start w1) = b).
    { change (w_start w') with (w_start w) in Hst1. change (w_pos w') with (w_pos w) in Hzl1.
      rewrite Hh1 in Hzl1. unfold zlen in Hzl1. rewrite app_length in Hzl1. lia. }
    assert (Hout' : out = seg data k b).
    { rewrite Hout, Hnb, Hh1. rewrite <- Hlb at 1.
      rewrite firstn_app, Nat.sub_diag, firstn_O, app_nil_r, firstn_all. exact Hseg. }
    assert (Hzo : zlen out = Z.of_nat b) by (rewrite Hout'; unfold zlen; rewrite seg_length; lia).
    assert (Hblen : Z.of_nat b <= len) by lia.
    assert (HwfN : Forall ev_wf restN) by (eapply run_trace_rest_wf; eassumption).
    (* the state from which the next iteration starts *)
    assert (Hcont : forall remaining, remaining = (if marker then U64_MAX else Z.of_nat (N - (k + b))) ->
              Inv (k + b) (mkLzma1 (a_coder s1) w2 d1 t1 false remaining)).
    { intros remaining Hremaining. split; [lia|].
      set (s1' := mkAstate (a_coder s1) (a_hist s1) (w_size w2) (w_pending_len w2) (w_pending_dist w2)).
      assert (Haeq : aeqv s1 s1').
      { unfold aeqv, s1'; cbn [a_coder a_hist a_dict a_pend_len a_pend_dist].
        split; [reflexivity|]. split; [reflexivity|]. split; [congruence|]. split; [congruence|].
        intros Hp. destruct (Hpd1 Hp) as (Hpd1' & _). congruence. }
      destruct (run_trace_aeqv _ _ _ _ _ _ _ Haeq Hwfr1 Hrun2) as (sN' & Hrun2' & HaN).
      exists (a_hist s1), (done ++ evs1), r1, sN', restN. cbn [l_coder l_win l_rc l_probs l_end_reached l_remaining].
      split; [rewrite <- app_assoc, <- Hrest; exact HE|].
      split; [exact Hsim1|]. split; [exact R2|]. split; [exact Hst2|]. split; [intros _; exact Hfp|].
      split; [change (w_size w') with (w_size w) in Hsz1; congruence|].
      split; [rewrite Hff; exact Hco1|].
      split; [intros Hp; rewrite Hpl2, Hpl1 in Hp; destruct (Hpd1 Hp) as (Hq1 & Hq2); rewrite Hpd2, Hq1, Hff; exact Hq2|].
      split; [replace (N - (k + b))%nat with (N - k - b)%nat by lia; exact Hrun2'|].
      split; [eapply fin_ok_aeqv; eassumption|]. split; [reflexivity | exact Hremaining]. }
    rewrite Hend, Hrem, Hzo. cbn [orb].
    destruct marker.
    + change (U64_MAX <=? U64_HALF) with false. cbn [andb].
      exists b. eexists. split; [rewrite Hout'; reflexivity|]. split; [exact Hblen|]. split; [lia|].
      right. split; [apply Hcont; reflexivity|]. intros Hs. specialize (Hpos Hs). specialize (HcsmM eq_refl). lia.
    + assert (Hs' : Z.of_nat (N - k) <= U64_HALF) by (unfold zlen in Hsmall; lia).
      destruct (Z.leb_spec (Z.of_nat (N - k)) U64_HALF); [|lia]. cbn [andb].
      destruct (Z.eqb_spec (Z.of_nat (N - k) - Z.of_nat b) 0) as [Hz|Hnz].
      * (* the declared size is reached *)
        assert (HkbN : (N - k - b = 0)%nat) by lia. rewrite HkbN in Hrun2. cbn [aproduce run_trace] in Hrun2.
        inversion Hrun2; subst sN restN. subst r1. rewrite app_nil_r in Hrest. subst rest.
        unfold lzwin_has_pending. rewrite Hpl2, Hpl1, HplN. change (0 <? 0) with false.
        exists b. eexists. split; [rewrite Hout'; reflexivity|]. split; [exact Hblen|]. split; [lia|].
        left. split; [|lia]. split; [reflexivity|]. cbn [l_rc].
        rewrite <- HE in Hsim1. destruct (rc_sim_end _ _ _ _ _ Hsim1) as (_ & Hin & _).
        rewrite Hnorm in Hin. exact Hin.
      * destruct (lzwin_has_pending w2); cbn [andb];
        exists b; eexists; (split; [rewrite Hout'; reflexivity|]); (split; [exact Hblen|]); (split; [lia|]);
        right; (split; [apply Hcont; lia|]); intros Hs; specialize (Hpos Hs); specialize (HcsmD eq_refl); lia.
  - (* the call runs into the end marker *)
    pose proof Hfin as (HH & HplN & Hmode).
    destruct marker; [|specialize (HcsmD eq_refl); lia].
    destruct (Hmode (b - (N - k) - 1)%nat) as (sE & HrunE & Hrep & HhE & HplE).
    assert (HrunB : run_trace (aproduce b (mkAstate (l_coder s) hist (w_size w') (w_pending_len w') (w_pending_dist w'))) rest
                    = Some (Ok (sE, Err E_OTHER), [])).
    { replace b with ((N - k) + S (b - (N - k) - 1))%nat by lia.
      rewrite (run_trace_split _ _ _ _ Hwfr). change (w_size w') with (w_size w).
      change (w_pending_len w') with (w_pending_len w). change (w_pending_dist w') with (w_pending_dist w).
      rewrite Hrun. exact HrunE. }
    destruct (decode_call_sim_norm E PLeaf tail done rest (l_coder s) w' hist (l_rc s) (l_probs s) b sE (Err E_OTHER) []
                Hsim HE R' Hco Hpl' Hb' Hpd HrunB) as (w1 & d1 & t1 & evs1 & Hrest & Hdec & Hsim1 & Hrel & _).
    rewrite app_nil_r in Hrest. subst rest. rewrite <- HE in Hsim1.
    unfold loop_rel in Hrel.
    destruct Hrel as (_ & _ & R1 & Hd1 & Hsz1 & Hli1 & Hst1 & Hpo1 & Hzl1 & Hpl1 & _ & _).
    destruct (run_trace_grows _ _ _ _ _ _ Hwfr Hrun) as (_ & Hg & _).
    destruct (Hg eq_refl) as (new & Hh & Hln). cbn [a_hist fst] in Hh.
    assert (Hseg : rev new = seg data k (N - k)).
    { rewrite <- Hln. apply (hist_seg data hist0 hist [] new k); [rewrite <- HH, Hh; reflexivity | cbn [length]; lia]. }
    rewrite (iter_of_decode_end s len _ _ _ _ _ Hdec (rc_sim_over _ _ _ _ _ _ Hsim1) Hrem Hrep
               (rc_sim_over _ _ _ _ _ _ (rc_sim_normalize _ _ _ _ _ _ Hsim1))).
    pose proof (flush_rel w1 (a_hist sE) R1) as Hfl.
    destruct (lzwin_flush w1) as [out w2] eqn:Efl. cbn [fst snd] in *. cbv zeta.
    destruct Hfl as (Hout & R2 & Hst2 & Hsz2 & Hli2 & Hpl2 & Hpd2).
    assert (Hnb : Z.to_nat (w_pos w1 - w_start w1) = (N - k)%nat).
    { change (w_start w') with (w_start w) in Hst1. change (w_pos w') with (w_pos w) in Hzl1.
      rewrite HhE, <- HH, Hh in Hzl1. unfold zlen in Hzl1. rewrite app_length in Hzl1. lia. }
    assert (Hout' : out = seg data k (N - k)).
    { rewrite Hout, Hnb, HhE, <- HH, Hh. rewrite <- Hln at 1.
      rewrite firstn_app, Nat.sub_diag, firstn_O, app_nil_r, firstn_all. exact Hseg. }
    unfold lzwin_has_pending. rewrite Hpl2, Hpl1, HplE. change (0 <? 0) with false.
    exists (N - k)%nat. eexists. split; [rewrite Hout'; reflexivity|]. split; [lia|]. split; [lia|].
    left. split; [|lia]. split; [reflexivity|]. cbn [l_rc].
    destruct (rc_sim_end _ _ _ _ _ Hsim1) as (_ & Hin & _). exact Hin.
Qed.

Lemma Inv_not_ended strict k s : InvG strict k s -> l_end_reached s = false.
Proof. intros (_ & hist & done & rest & sN & restN & H). tauto. Qed.

Lemma rev_rev_append {A} (out acc : list A) : rev (rev_append out acc) = rev acc ++ out.
Proof. rewrite rev_append_rev, rev_app_distr, rev_involutive. reflexivity. Qed.

(* the while loop of read_decode *)
Lemma loop_steps fuel : forall k s len acc, Inv k s -> 0 <= len <= Z.of_nat fuel ->
  exists m s', lzma1_read_loop fuel s len acc = Ok (rev acc ++ seg data k m, s') /\
    Z.of_nat m <= len /\ (k + m <= N)%nat /\
    ((Ended s' /\ (k + m = N)%nat) \/ (Inv (k + m) s' /\ Z.of_nat m = len)).
Proof.
  induction fuel as [|f IH]; intros k s len acc HI Hlen.
  - assert (len = 0) by lia. subst len. cbn [lzma1_read_loop]. change (0 <=? 0) with true. cbv iota.
    exists 0%nat, s. rewrite frev_rev, seg_nil, app_nil_r, Nat.add_0_r.
    split; [reflexivity|]. split; [lia|]. split; [destruct HI; lia|]. right. split; [exact HI | reflexivity].
  - cbn [lzma1_read_loop]. destruct (Z.leb_spec len 0) as [Hz|Hpos].
    + assert (len = 0) by lia. subst len.
      exists 0%nat, s. rewrite frev_rev, seg_nil, app_nil_r, Nat.add_0_r.
      split; [reflexivity|]. split; [lia|]. split; [destruct HI; lia|]. right. split; [exact HI | reflexivity].
    + destruct (iter_step true k s len HI Hpos) as (m1 & s1 & Hit & Hm1 & Hk1 & Hcase).
      rewrite Hit. cbn [obind].
      assert (Hzl : zlen (seg data k m1) = Z.of_nat m1) by (unfold zlen; rewrite seg_length; lia).
      destruct Hcase as [((He & Hin) & HkN)|(HI1 & Hm1pos)].
      * rewrite He. exists m1, s1. rewrite frev_rev, rev_rev_append.
        split; [reflexivity|]. split; [exact Hm1|]. split; [exact Hk1|]. left. split; [split; assumption | exact HkN].
      * specialize (Hm1pos eq_refl). rewrite (Inv_not_ended _ _ _ HI1). rewrite Hzl.
        destruct (IH (k + m1)%nat s1 (len - Z.of_nat m1) (rev_append (seg data k m1) acc) HI1 ltac:(lia))
          as (m2 & s' & Hloop & Hm2 & Hk2 & Hcase2).
        exists (m1 + m2)%nat, s'. rewrite Hloop, rev_rev_append, <- app_assoc, seg_app.
        split; [reflexivity|]. split; [lia|]. split; [lia|].
        rewrite Nat.add_assoc. destruct Hcase2 as [(He2 & HkN2)|(HI2 & Hm2eq)]; [left | right]; split; try assumption; lia.
Qed.

(* read(buf) *)
Lemma read_zero s buflen : buflen <= 0 -> lzma1_read s buflen = Ok ([], s).
Proof. intros H. unfold lzma1_read. destruct (Z.leb_spec buflen 0); [reflexivity | lia]. Qed.

Lemma read_ended s buflen : l_end_reached s = true -> lzma1_read s buflen = Ok ([], s).
Proof. intros H. unfold lzma1_read. rewrite H. destruct (buflen <=? 0); reflexivity. Qed.

(* the same from a state whose window may be full: at most one iteration without progress *)
Lemma loop_steps_weak fuel strict k s len acc : InvG strict k s -> 0 < len -> len + 1 <= Z.of_nat fuel ->
  exists m s', lzma1_read_loop fuel s len acc = Ok (rev acc ++ seg data k m, s') /\
    Z.of_nat m <= len /\ (k + m <= N)%nat /\
    ((Ended s' /\ (k + m = N)%nat) \/ (Inv (k + m) s' /\ Z.of_nat m = len)).
Proof.
  intros HI Hlen Hf. destruct fuel as [|f]; [lia|].
  cbn [lzma1_read_loop]. destruct (Z.leb_spec len 0) as [Hz|_]; [lia|].
  destruct (iter_step strict k s len HI Hlen) as (m1 & s1 & Hit & Hm1 & Hk1 & Hcase).
  rewrite Hit. cbn [obind].
  assert (Hzl : zlen (seg data k m1) = Z.of_nat m1) by (unfold zlen; rewrite seg_length; lia).
  destruct Hcase as [((He & Hin) & HkN)|(HI1 & _)].
  - rewrite He. exists m1, s1. rewrite frev_rev, rev_rev_append.
    split; [reflexivity|]. split; [exact Hm1|]. split; [exact Hk1|]. left. split; [split; assumption | exact HkN].
  - rewrite (Inv_not_ended _ _ _ HI1). rewrite Hzl.
    destruct (loop_steps f (k + m1)%nat s1 (len - Z.of_nat m1) (rev_append (seg data k m1) acc) HI1 ltac:(lia))
      as (m2 & s' & Hloop & Hm2 & Hk2 & Hcase2).
    exists (m1 + m2)%nat, s'. rewrite Hloop, rev_rev_append, <- app_assoc, seg_app.
    split; [reflexivity|]. split; [lia|]. split; [lia|].
    rewrite Nat.add_assoc. destruct Hcase2 as [(He2 & HkN2)|(HI2 & Hm2eq)]; [left | right]; split; try assumption; lia.
Qed.

Lemma read_steps strict k s buflen : InvG strict k s -> 0 < buflen ->
  exists m s', lzma1_read s buflen = Ok (seg data k m, s') /\ (k + m <= N)%nat /\
    ((Ended s' /\ (k + m = N)%nat) \/ (Inv (k + m) s' /\ Z.of_nat m = buflen)).
Proof.
  intros HI Hb. unfold lzma1_read. destruct (Z.leb_spec buflen 0); [lia|].
  rewrite (Inv_not_ended _ _ _ HI).
  destruct (loop_steps_weak (Z.to_nat (buflen + 2)) strict k s buflen [] HI Hb ltac:(lia)) as (m & s' & Hl & _ & Hk & Hc).
  exists m, s'. rewrite Hl. cbn [rev app]. split; [reflexivity|]. split; assumption.
Qed.

(* a whole read history *)
Lemma read_all_ended fuel s cur all acc : Ended s -> Forall (fun z => 0 < z) cur -> Forall (fun z => 0 < z) all ->
  lzma1_read_all (S fuel) s cur all acc = Ok (rev acc, s).
Proof.
  intros (He & _) Hc Ha. cbn [lzma1_read_all].
  destruct cur as [|x r].
  - rewrite (read_ended _ _ He). cbn [obind]. change (0 <? 4096) with true. cbn [zlen length Z.of_nat andb].
    change (0 =? 0) with true. cbv iota. rewrite frev_rev. reflexivity.
  - rewrite (read_ended _ _ He). cbn [obind]. inversion Hc; subst.
    destruct (Z.ltb_spec 0 x); [|lia]. cbn [zlen length Z.of_nat andb]. change (0 =? 0) with true. cbv iota.
    rewrite frev_rev. reflexivity.
Qed.

Lemma read_all_steps fuel : forall strict k s cur all acc, InvG strict k s ->
  Forall (fun z => 0 < z) cur -> Forall (fun z => 0 < z) all -> (N - k + 2 <= fuel)%nat ->
  exists s_end, lzma1_read_all fuel s cur all acc = Ok (rev acc ++ seg data k (N - k), s_end) /\ Ended s_end.
Proof.
  induction fuel as [|f IH]; intros strict k s cur all acc HI Hc Ha Hf; [lia|].
  cbn [lzma1_read_all].
  set (sz := fst (match cur with [] => (4096, all) | x :: r => (x, r) end)).
  set (rest := snd (match cur with [] => (4096, all) | x :: r => (x, r) end)).
  assert (Hsz : 0 < sz) by (unfold sz; destruct cur as [|x r]; cbn [fst]; [lia | inversion Hc; assumption]).
  assert (Hrest : Forall (fun z => 0 < z) rest)
    by (unfold rest; destruct cur as [|x r]; cbn [snd]; [assumption | inversion Hc; assumption]).
  replace (match cur with [] => (4096, all) | x :: r => (x, r) end) with (sz, rest)
    by (unfold sz, rest; destruct cur; reflexivity).
  assert (Hnext : Forall (fun z => 0 < z) (match rest with [] => all | _ => rest end))
    by (destruct rest; assumption).
  destruct (read_steps strict k s sz HI Hsz) as (m & s1 & Hrd & Hk & Hcase).
  rewrite Hrd. cbn [obind].
  assert (Hzl : zlen (seg data k m) = Z.of_nat m) by (unfold zlen; rewrite seg_length; lia).
  destruct (Z.ltb_spec 0 sz); [|lia]. cbn [andb]. rewrite Hzl.
  destruct Hcase as [(He & HkN)|(HI1 & Hm)].
  - destruct (Z.eqb_spec (Z.of_nat m) 0) as [Hm0|Hm0].
    + exists s1. assert (m = 0%nat) by lia. subst m. replace (N - k)%nat with 0%nat by lia.
      rewrite frev_rev, seg_nil, app_nil_r. split; [reflexivity | exact He].
    + destruct f as [|f']; [lia|].
      rewrite (read_all_ended f' s1 _ all _ He Hnext Ha). exists s1.
      rewrite rev_rev_append. replace (N - k)%nat with m by lia. split; [reflexivity | exact He].
  - destruct (Z.eqb_spec (Z.of_nat m) 0) as [Hm0|Hm0]; [lia|].
    destruct (IH true (k + m)%nat s1 (match rest with [] => all | _ => rest end) all (rev_append (seg data k m) acc)
                HI1 Hnext Ha ltac:(lia)) as (s_end & Hra & He).
    exists s_end. rewrite Hra, rev_rev_append, <- app_assoc, seg_app.
    replace (m + (N - (k + m)))%nat with (N - k)%nat by lia. split; [reflexivity | exact He].
Qed.

End Reader.
