(* Codec/Range.v — models of src/enc/range_enc.rs (RangeEncoder) and src/range_dec.rs
   (RangeDecoder over a stream or over the LZMA2 chunk buffer).  Definitions only.
   All arithmetic is on Z with the u32/u64 wrap written out. *)
From LzVerif Require Export Base.Bytes Codec.Store.

Definition P2_8  : Z := 256.
Definition P2_11 : Z := 2048.
Definition P2_24 : Z := 16777216.
Definition P2_31 : Z := 2147483648.
Definition P2_32 : Z := 4294967296.
Definition P2_64 : Z := 18446744073709551616.
Definition PROB_INIT : Z := 1024.

(* ---------------------------------------------------------------------------------------------
   Probability update.  Encoder and decoder use different formulas in the Rust code. *)

(* encoder: bit 0: *prob += (2048 - *prob) >> 5 ; bit 1: *prob -= *prob >> 5  (u16 arithmetic) *)
Definition prob_update_enc (p bit : Z) : Z :=
  if bit =? 0 then wrap16 (p + Z.shiftr (wrap32 (P2_11 - p)) 5)
  else wrap16 (p - Z.shiftr p 5).

(* decoder: offset = RC_BIT_MODEL_OFFSET & !mask; *prob = (p - ((p + offset) >> 5)) as u16,
   RC_BIT_MODEL_OFFSET = (1 << 5) - 1 - 2048 as u32 *)
Definition RC_BIT_MODEL_OFFSET : Z := wrap32 (31 - 2048).
Definition prob_update_dec (p bit : Z) : Z :=
  let offset := if bit =? 0 then RC_BIT_MODEL_OFFSET else 0 in
  wrap16 (wrap32 (p - Z.shiftr (wrap32 (p + offset)) 5)).

(* probability tables: one flat array, cells never written read as PROB_INIT *)
Definition probs := ptree.
Definition prob_get (t : probs) (k : Z) : Z := aget PROB_INIT t k.
Definition prob_set (t : probs) (k : Z) (v : Z) : probs := aset t k v.

(* ---------------------------------------------------------------------------------------------
   Range encoder.  Output is accumulated newest-first. *)
Record renc := mkRenc {
  re_low : Z;          (* u64 *)
  re_range : Z;        (* u32 *)
  re_cache : Z;        (* u8 *)
  re_cache_size : Z;   (* u32 *)
  re_out : list Z      (* bytes written so far, reversed *)
}.

Definition renc_init : renc := mkRenc 0 4294967295 0 1 [].

(* the do-while loop of shift_low: first the cache byte, then cache_size-1 bytes 0xFF, each plus carry *)
Fixpoint emit_ff (n : nat) (carry : Z) (out : list Z) : list Z :=
  match n with
  | O => out
  | S k => emit_ff k carry (wrap8 (255 + carry) :: out)
  end.

Definition shift_low (e : renc) : renc :=
  let low := re_low e in
  let low_hi := wrap32 (Z.shiftr low 32) in
  if negb (low_hi =? 0) || (low <? 4278190080) then
    let out1 := wrap8 (re_cache e + low_hi) :: re_out e in
    let out2 := emit_ff (Z.to_nat (re_cache_size e - 1)) low_hi out1 in
    mkRenc (wrap64 ((low mod P2_24) * 256)) (re_range e) (wrap8 (Z.shiftr low 24)) 1 out2
  else
    mkRenc (wrap64 ((low mod P2_24) * 256)) (re_range e) (re_cache e) (wrap32 (re_cache_size e + 1)) (re_out e).

(* the common tail of encode_bit / encode_direct_bits *)
Definition renc_normalize (e : renc) : renc :=
  if Z.land (re_range e) 4278190080 =? 0 then
    shift_low (mkRenc (re_low e) (wrap32 (re_range e * 256)) (re_cache e) (re_cache_size e) (re_out e))
  else e.

Definition encode_bit (e : renc) (t : probs) (k : Z) (bit : Z) : renc * probs :=
  let p := prob_get t k in
  let bound := wrap32 (Z.shiftr (re_range e) 11 * p) in
  let e1 :=
    if bit =? 0 then mkRenc (re_low e) bound (re_cache e) (re_cache_size e) (re_out e)
    else mkRenc (wrap64 (re_low e + bound)) (wrap32 (re_range e - bound)) (re_cache e) (re_cache_size e) (re_out e) in
  (renc_normalize e1, prob_set t k (prob_update_enc p bit)).

(* encode_direct_bits(value, count): count >= 1 (count = 0 underflows in the Rust code) *)
Fixpoint encode_direct_bits (e : renc) (value : Z) (count : nat) : renc :=
  match count with
  | O => e
  | S c =>
      let range := Z.shiftr (re_range e) 1 in
      let b := Z.land (Z.shiftr value (Z.of_nat c)) 1 in
      let low := if b =? 1 then wrap64 (re_low e + range) else re_low e in
      encode_direct_bits (renc_normalize (mkRenc low range (re_cache e) (re_cache_size e) (re_out e))) value c
  end.

Definition renc_finish (e : renc) : renc :=
  shift_low (shift_low (shift_low (shift_low (shift_low e)))).

Definition renc_bytes (e : renc) : list Z := frev (re_out e).

(* get_pending_size for the LZMA2 buffer encoder: pos + cache_size + 5 - 1 *)
Definition renc_pending_size (e : renc) : Z := zlen (re_out e) + re_cache_size e + 5 - 1.

(* ---------------------------------------------------------------------------------------------
   Range decoder.  [rd_in] is what has not been read yet; reads past the end yield 0 and are
   counted in [rd_over] (stream reader: read_exact error => 0; buffer reader: pos beyond len). *)
Record rdec := mkRdec {
  rd_range : Z;   (* u32 *)
  rd_code : Z;    (* u32 *)
  rd_in : list Z;
  rd_over : Z
}.

Definition rdec_read (d : rdec) : Z * rdec :=
  match rd_in d with
  | b :: t => (b, mkRdec (rd_range d) (rd_code d) t (rd_over d))
  | [] => (0, mkRdec (rd_range d) (rd_code d) [] (rd_over d + 1))
  end.

Definition rdec_normalize (d : rdec) : rdec :=
  if rd_range d <? P2_24 then
    let '(b, d1) := rdec_read d in
    mkRdec (wrap32 (rd_range d * 256)) (Z.lor (wrap32 (rd_code d * 256)) b) (rd_in d1) (rd_over d1)
  else d.

(* decode_bit; the u32 product is checked in a debug build: reported as None (= Panic) *)
Definition decode_bit (d : rdec) (t : probs) (k : Z) : option (Z * rdec * probs) :=
  let d1 := rdec_normalize d in
  let p := prob_get t k in
  let bound := Z.shiftr (rd_range d1) 11 * p in
  if P2_32 <=? bound then None else
  if rd_code d1 <? bound then
    Some (0, mkRdec bound (rd_code d1) (rd_in d1) (rd_over d1), prob_set t k (prob_update_dec p 0))
  else
    Some (1, mkRdec (wrap32 (rd_range d1 - bound)) (wrap32 (rd_code d1 - bound)) (rd_in d1) (rd_over d1),
          prob_set t k (prob_update_dec p 1)).

(* decode_direct_bits, portable loop: per bit: normalize, halve the range, compare *)
Fixpoint decode_direct_bits (d : rdec) (count : nat) (acc : Z) : Z * rdec :=
  match count with
  | O => (acc, d)
  | S c =>
      let d1 := rdec_normalize d in
      let range := Z.shiftr (rd_range d1) 1 in
      let t := Z.shiftr (wrap32 (rd_code d1 - range)) 31 in
      let code := if t =? 0 then wrap32 (rd_code d1 - range) else rd_code d1 in
      decode_direct_bits (mkRdec range code (rd_in d1) (rd_over d1)) c (wrap32 (acc * 2 + (1 - t)))
  end.

(* RangeDecoder::new_stream: try_read_u8 (EOF -> UnexpectedEof), first byte must be 0
   (InvalidInput), then the big-endian code (EOF -> UnexpectedEof). *)
Definition rdec_init (input : list Z) : outcome rdec :=
  match input with
  | [] => Err E_UNEXPECTED_EOF
  | b0 :: rest0 =>
      if negb (b0 =? 0) then Err E_INVALID_INPUT else
      match rest0 with
      | b1 :: b2 :: b3 :: b4 :: rest => Ok (mkRdec 4294967295 (((b1 * 256 + b2) * 256 + b3) * 256 + b4) rest 0)
      | _ => Err E_UNEXPECTED_EOF
      end
  end.
