(* Codec/LzmaChunkProofs.v — composition: what the symbol encoder + range encoder wrote for a run
   of symbols is decoded by LZMADecoder::decode over the cyclic window into exactly the bytes the
   symbols describe; the range decoder ends on the last byte with code = 0.
   (range coder: RangeProofs.v; symbol level: LzmaSymProofs.v, LzmaRoundtrip.v; window:
   LzWindowProofs.v, LzmaAbsProofs.v) *)
From LzVerif Require Import Base.Bytes Codec.Store Codec.Range Codec.ProbProofs Codec.LzWindow Codec.LzmaDec
  Codec.LzmaEnc Codec.LzmaAbs Codec.LzWindowProofs Codec.ProgProofs Codec.LzmaAbsProofs
  Codec.RangeEncProofs Codec.RangeProofs Codec.LzmaSymProofs Codec.LzmaRoundtrip Codec.LzmaWriters.
Ltac Zify.zify_post_hook ::= Z.div_mod_to_equations.

Lemma ev_ok_same ev : RangeEncProofs.ev_ok ev = LzmaSymProofs.ev_ok ev.
Proof. reflexivity. Qed.

Lemma forallb_ev_ok_same l : forallb RangeEncProofs.ev_ok l = forallb LzmaSymProofs.ev_ok l.
Proof. induction l as [|x t IH]; cbn [forallb]; [reflexivity|]. rewrite IH, ev_ok_same. reflexivity. Qed.

(* every decision the symbol encoder emits is well formed *)
Lemma enc_symbol_events_ok c h s evs c' h' :
  h_dict h <= 2147483648 -> enc_symbol c h s = Ok (evs, c', h') -> forallb LzmaSymProofs.ev_ok evs = true.
Proof.
  intros Hd He. unfold enc_symbol in He. apply obind_ok in He as (km & _ & He).
  destruct s as [b|dist len|idx len|].
  - destruct (negb _); [discriminate|]. apply obind_ok in He as (lb & _ & He). apply obind_ok in He as (mb & _ & He).
    apply Ok_inj in He. apply pair_inj in He as [He _]. apply pair_inj in He as [<- _].
    cbn [forallb]. rewrite lit_events_ok. reflexivity.
  - destruct ((2 <=? len) && (len <=? 273) && copy_valid h dist len) eqn:E; cbn [negb] in He; [|discriminate].
    apply andb_true_iff in E as [_ Hcv]. apply copy_valid_inv in Hcv as (Hd0 & Hdd & _).
    apply obind_ok in He as (kr & _ & He). apply obind_ok in He as ([ev1 c1] & Hec & He).
    apply Ok_inj in He. apply pair_inj in He as [He _]. apply pair_inj in He as [<- _].
    cbn [forallb fst]. eapply match_events_ok; [|exact Hec]. change (2 ^ 32) with 4294967296. lia.
  - apply obind_ok in He as (kr & _ & He). apply obind_ok in He as ([ev1 c1] & Hec & He).
    destruct (negb _); [discriminate|].
    apply Ok_inj in He. apply pair_inj in He as [He _]. apply pair_inj in He as [<- _].
    cbn [forallb fst]. eapply rep_events_ok; exact Hec.
  - apply obind_ok in He as (kr & _ & He). apply obind_ok in He as ([ev1 c1] & Hec & He).
    apply Ok_inj in He. apply pair_inj in He as [He _]. apply pair_inj in He as [<- _].
    cbn [forallb fst]. eapply match_events_ok; [|exact Hec]. change (2 ^ 32) with 4294967296. lia.
Qed.

Lemma enc_syms_events_ok syms : forall c h evs c' h',
  h_dict h <= 2147483648 -> enc_syms c h syms = Ok (evs, c', h') -> forallb LzmaSymProofs.ev_ok evs = true.
Proof.
  induction syms as [|s r IH]; intros c h evs c' h' Hd He; cbn [enc_syms] in He.
  - apply Ok_inj in He. apply pair_inj in He as [He _]. apply pair_inj in He as [<- _]. reflexivity.
  - apply obind_ok in He as ([[e1 c1] h1] & Hs & He). cbn [fst snd] in He.
    apply obind_ok in He as ([[e2 c2] h2] & Hrs & He). cbn [fst snd] in He.
    apply Ok_inj in He. apply pair_inj in He as [He _]. apply pair_inj in He as [<- _].
    apply forallb_app_true; [eapply enc_symbol_events_ok; eassumption|].
    eapply IH; [|exact Hrs].
    assert (h_dict h1 = h_dict h); [|lia].
    clear - Hs. unfold enc_symbol in Hs. apply obind_ok in Hs as (km & _ & Hs).
    destruct s as [b|dist len|idx len|].
    + destruct (negb _); [discriminate|]. apply obind_ok in Hs as (? & _ & Hs). apply obind_ok in Hs as (? & _ & Hs).
      apply Ok_inj in Hs. apply pair_inj in Hs as [_ <-]. reflexivity.
    + destruct (negb _); [discriminate|]. apply obind_ok in Hs as (? & _ & Hs). apply obind_ok in Hs as (? & _ & Hs).
      apply Ok_inj in Hs. apply pair_inj in Hs as [_ <-]. reflexivity.
    + apply obind_ok in Hs as (? & _ & Hs). apply obind_ok in Hs as (? & _ & Hs). destruct (negb _); [discriminate|].
      apply Ok_inj in Hs. apply pair_inj in Hs as [_ <-]. reflexivity.
    + apply obind_ok in Hs as (? & _ & Hs). apply obind_ok in Hs as (? & _ & Hs).
      apply Ok_inj in Hs. apply pair_inj in Hs as [_ <-]. reflexivity.
Qed.

(* ---- one run of symbols, one decode call ------------------------------------------------------- *)
Theorem chunk_roundtrip :
  forall c h hist w syms evs c' h' t0 tail n,
  (* the encoder side *)
  no_end syms -> hist_rel h hist -> data_ok h -> reps_nonneg c ->
  h_dict h <= 2147483648 -> (h_dict h <= w_size w \/ h_total h - h_base h <= w_size w) ->
  enc_syms c h syms = Ok (evs, c', h') ->
  probs_ok t0 -> events_bits evs <= RC_MAX_BITS ->
  (* the decoder side: a window holding the same history, room for the whole run *)
  Rel w hist -> coder_ok c (w_full w) -> w_pending_len w = 0 ->
  Z.of_nat n = h_pos h' - h_pos h -> w_limit w = w_pos w + Z.of_nat n ->
  let bytes := renc_bytes (renc_finish (fst (renc_events renc_init t0 evs))) in
  exists d0 w1 d1 hist',
    rdec_init (bytes ++ tail) = Ok d0 /\
    lzma_decode c w d0 t0 = Ok (c', w1, Ok tt, d1, snd (renc_events renc_init t0 evs)) /\
    Rel w1 hist' /\ hist_rel h' hist' /\ zlen hist' = zlen hist + Z.of_nat n /\
    w_pending_len w1 = 0 /\ w_start w1 = w_start w /\ w_pos w1 = w_pos w + Z.of_nat n /\
    rd_in d1 = tail /\ rd_code d1 = 0 /\ rd_over d1 = 0.
Proof.
  intros c h hist w syms evs c' h' t0 tail n Hne Hhr Hdata Hreps Hd1 Hd2 He Ht Hbits R Hc Hp0 Hn Hlim bytes.
  pose proof (enc_syms_events_ok syms c h evs c' h' Hd1 He) as Hok.
  rewrite <- forallb_ev_ok_same in Hok.
  destruct (rc_sim_init evs t0 tail Ht Hok Hbits) as (d0 & Hinit & Hsim).
  destruct (aproduce_syms syms c h hist (w_size w) (w_pending_dist w) n evs c' h' [] Hne Hhr Hd1 Hd2 Hdata Hreps He Hn)
    as (hist' & pd' & Hrun & Hhr' & Hreps' & Hbase & _).
  destruct (rc_sim_run evs t0 tail [] d0 t0 _ _ evs [] _ Hsim ltac:(rewrite app_nil_r; reflexivity) Hrun)
    as (d' & t' & Hrc & Hsim').
  cbn [app] in Hsim'.
  destruct (rc_sim_end evs t0 tail d' t' Hsim') as (Ht' & Hin & Hcode & Hover).
  pose proof (lzma_decode_abs c w hist d0 t0 n R Hc ltac:(lia) ltac:(lia) ltac:(intros; lia)) as HA.
  rewrite Hp0 in HA. rewrite Hrc in HA.
  destruct HA as (w1 & Hdec & Hrel).
  unfold loop_rel in Hrel. cbn [a_coder a_hist a_dict a_pend_len a_pend_dist] in Hrel.
  destruct Hrel as (_ & _ & R1 & _ & Hsz & Hli & Hst & Hpos & Hzl & Hpl & Hok1 & _).
  exists d0, w1, (rdec_normalize d'), hist'.
  split; [exact Hinit|]. split; [rewrite Hdec, Ht'; reflexivity|].
  split; [exact R1|]. split; [exact Hhr'|].
  assert (Hzl' : zlen hist' = zlen hist + Z.of_nat n).
  { destruct Hhr as (Hl0 & _). destruct Hhr' as (Hl1 & _). lia. }
  repeat split; auto; lia.
Qed.

(* ---- the initial states satisfy the hypotheses (non-vacuity helpers) -------------------------- *)
Lemma lzwin_new_rel size : 0 < size -> size mod 16 = 0 -> Rel (lzwin_new size None) [].
Proof.
  intros Hs H16. unfold lzwin_new. constructor; cbn [w_buf w_size w_start w_pos w_full w_limit w_pending_len].
  - split; assumption.
  - lia.
  - unfold zlen; cbn [length]. split; [lia|]. split; [lia|]. intros _. reflexivity.
  - lia.
  - reflexivity.
  - intros d Hd. lia.
  - intros _. unfold bget, aget. cbn [w_buf]. rewrite pget_leaf. reflexivity.
  - lia.
Qed.

Lemma aget_aset_list_range l : forall t i j,
  (forall k, 0 <= aget 0 t k < 256) -> bytes_ok l = true -> 0 <= i -> 0 <= aget 0 (aset_list t i l) j < 256.
Proof.
  induction l as [|x r IH]; intros t i j Ht Hb Hi; cbn [aset_list]; [apply Ht|].
  cbn [bytes_ok forallb] in Hb. apply andb_true_iff in Hb as [Hx Hr].
  unfold is_byte in Hx. apply andb_true_iff in Hx as [Hx0 Hx1]. apply Z.leb_le in Hx0. apply Z.ltb_lt in Hx1.
  apply IH; [|exact Hr|lia].
  intros k. destruct (Z.eq_dec k i) as [->|Hne].
  - rewrite agss. lia.
  - destruct (Z.ltb_spec k 0) as [Hneg|Hpos].
    + (* negative keys share cell 0 of the trie; the value there is a byte either way *)
      unfold aget, aset, akey. replace (Z.to_pos (k + 1)) with 1%positive by (destruct (k + 1) eqn:E; try reflexivity; lia).
      destruct (Pos.eq_dec (Z.to_pos (i + 1)) 1) as [E|E].
      * rewrite E, pgss. lia.
      * rewrite pgso by assumption. specialize (Ht (-1)). unfold aget, akey in Ht. cbn in Ht. exact Ht.
    + rewrite agso by lia. apply Ht.
Qed.

Lemma in_skipn {A} n : forall (l : list A) x, In x (skipn n l) -> In x l.
Proof. induction n as [|k IH]; intros l x H; [exact H|]. destruct l as [|y t]; [exact H|]. right. apply IH. exact H. Qed.

Lemma data_ok_new dict preset data : bytes_ok preset = true -> bytes_ok data = true ->
  data_ok (LzmaWriters.ehist_new dict preset data).
Proof.
  intros Hp Hd i. unfold LzmaWriters.ehist_new, hget; cbn [h_data]. unfold LzmaWriters.array_of_list.
  apply aget_aset_list_range; [| |lia].
  - intros k. unfold aget. rewrite pget_leaf. lia.
  - unfold bytes_ok in *. rewrite forallb_app. rewrite Hd, andb_true_r.
    unfold LzmaWriters.preset_kept, lastn. rewrite forallb_forall in Hp |- *.
    intros x Hx. apply Hp. eapply in_skipn; exact Hx.
Qed.
