(* Codec/LzmaReadProofs.v — sequences of decode calls: whatever budgets the caller's buffer sizes
   and the cyclic buffer impose, the calls compose to one specification run. *)
From LzVerif Require Import Base.Bytes Codec.Store Codec.Range Codec.LzWindow Codec.LzmaDec
  Codec.LzmaAbs Codec.LzWindowProofs Codec.ProgProofs Codec.LzmaAbsProofs.
Ltac Zify.zify_post_hook ::= Z.div_mod_to_equations.

(* ---- what a successful specification run looks like ----------------------------------------- *)
Definition grows (k : nat) (s : astate) (r : astate * outcome unit) : Prop :=
  a_dict (fst r) = a_dict s /\
  (snd r = Ok tt -> exists new, a_hist (fst r) = new ++ a_hist s /\ length new = k) /\
  (snd r <> Ok tt -> exists new, a_hist (fst r) = new ++ a_hist s /\ (length new < k)%nat).

Lemma aproduce_grows k : forall s, pall (grows k s) (aproduce k s).
Proof.
  induction k as [|k IH]; intros s; cbn [aproduce].
  - constructor. unfold grows; cbn [fst snd]. split; [reflexivity|]. split.
    + intros _. exists []. split; reflexivity.
    + intros H. congruence.
  - destruct (0 <? a_pend_len s).
    + eapply pall_mono; [|apply IH]. intros [s' st]. unfold grows; cbn [fst snd a_hist a_dict].
      intros (Hd & Hok & Herr). split; [exact Hd|]. split.
      * intros E. destruct (Hok E) as (new & Hn & Hl). exists (new ++ [hnth (a_hist s) (a_pend_dist s)]).
        rewrite <- app_assoc. split; [exact Hn|]. rewrite app_length. cbn [length]. lia.
      * intros E. destruct (Herr E) as (new & Hn & Hl). exists (new ++ [hnth (a_hist s) (a_pend_dist s)]).
        rewrite <- app_assoc. split; [exact Hn|]. rewrite app_length. cbn [length]. lia.
    + eapply pall_bind; [apply pall_true|]. intros r _.
      destruct (snd r) as [b|dist len].
      * eapply pall_mono; [|apply IH]. intros [s' st]. unfold grows; cbn [fst snd a_hist a_dict].
        intros (Hd & Hok & Herr). split; [exact Hd|]. split.
        -- intros E. destruct (Hok E) as (new & Hn & Hl). exists (new ++ [b]).
           rewrite <- app_assoc. split; [exact Hn|]. rewrite app_length. cbn [length]. lia.
        -- intros E. destruct (Herr E) as (new & Hn & Hl). exists (new ++ [b]).
           rewrite <- app_assoc. split; [exact Hn|]. rewrite app_length. cbn [length]. lia.
      * destruct (a_full s <=? dist).
        -- constructor. unfold grows; cbn [fst snd a_hist a_dict]. split; [reflexivity|]. split.
           ++ intros E. discriminate.
           ++ intros _. exists []. split; [reflexivity | cbn; lia].
        -- destruct (len <=? 0); [constructor|].
           eapply pall_mono; [|apply IH]. intros [s' st]. unfold grows; cbn [fst snd a_hist a_dict].
           intros (Hd & Hok & Herr). split; [exact Hd|]. split.
           ++ intros E. destruct (Hok E) as (new & Hn & Hl). exists (new ++ [hnth (a_hist s) dist]).
              rewrite <- app_assoc. split; [exact Hn|]. rewrite app_length. cbn [length]. lia.
           ++ intros E. destruct (Herr E) as (new & Hn & Hl). exists (new ++ [hnth (a_hist s) dist]).
              rewrite <- app_assoc. split; [exact Hn|]. rewrite app_length. cbn [length]. lia.
Qed.

(* ---- producing a+b bytes against the range decoder = producing a, then b ---------------------- *)
Lemma run_rc_split a b s d t :
  run_rc (aproduce (a + b) s) d t =
  match run_rc (aproduce a s) d t with
  | Ok (s1, Ok _, d1, t1) => run_rc (aproduce b s1) d1 t1
  | Ok (s1, st, d1, t1) => Ok (s1, st, d1, t1)
  | Err e => Err e
  | Panic e => Panic e
  | Fuel => Fuel
  end.
Proof.
  pose proof (run_rc_peq _ _ _ (aproduce_split a b s) d t) as H.
  rewrite run_rc_bind in H.
  destruct (run_rc (aproduce a s) d t) as [[[[s1 st] d1] t1]|e|e|].
  - unfold athen in H. cbn [snd fst] in H.
    destruct st as [u|e|e|].
    + destruct (run_rc (aproduce (a + b) s) d t) as [[[r1 d2] t2]|e1|e1|];
        destruct (run_rc (aproduce b s1) d1 t1) as [[[r2 d3] t3]|e2|e2|]; try contradiction; try (subst; reflexivity).
      destruct H as (-> & -> & ->). reflexivity.
    + cbn [run_rc] in H. destruct (run_rc (aproduce (a + b) s) d t) as [[[r1 d2] t2]|e1|e1|]; try contradiction.
      destruct H as (-> & -> & ->). reflexivity.
    + cbn [run_rc] in H. destruct (run_rc (aproduce (a + b) s) d t) as [[[r1 d2] t2]|e1|e1|]; try contradiction.
      destruct H as (-> & -> & ->). reflexivity.
    + cbn [run_rc] in H. destruct (run_rc (aproduce (a + b) s) d t) as [[[r1 d2] t2]|e1|e1|]; try contradiction.
      destruct H as (-> & -> & ->). reflexivity.
  - destruct (run_rc (aproduce (a + b) s) d t) as [[[r1 d2] t2]|e1|e1|]; try contradiction. subst. reflexivity.
  - destruct (run_rc (aproduce (a + b) s) d t) as [[[r1 d2] t2]|e1|e1|]; try contradiction. subst. reflexivity.
  - destruct (run_rc (aproduce (a + b) s) d t) as [[[r1 d2] t2]|e1|e1|]; try contradiction. reflexivity.
Qed.

(* ---- the same split on recorded decisions ---------------------------------------------------- *)
Definition ev_wf (ev : event) : Prop :=
  match ev with
  | EBit _ b => bit_ok b
  | EDirect n v => direct_ok n v
  end.

Lemma run_trace_peq {A B} (R : A -> B -> Prop) p q :
  peq R p q -> forall evs, Forall ev_wf evs ->
  match run_trace p evs, run_trace q evs with
  | Some (Ok a, r1), Some (Ok b, r2) => R a b /\ r1 = r2
  | Some (Err e1, r1), Some (Err e2, r2) => e1 = e2 /\ r1 = r2
  | Some (Panic e1, r1), Some (Panic e2, r2) => e1 = e2 /\ r1 = r2
  | Some (Fuel, r1), Some (Fuel, r2) => r1 = r2
  | None, None => True
  | _, _ => False
  end.
Proof.
  induction 1 as [a b Hab|e|key k1 k2 Hk IH|n k1 k2 Hk IH]; intros evs Hwf; cbn [run_trace].
  - auto.
  - destruct e as [u|c|c|]; auto.
  - destruct evs as [|[key' b|n' v] rest]; auto.
    destruct ((key =? key') && ((b =? 0) || (b =? 1))) eqn:E; [|exact I].
    inversion Hwf; subst. apply IH; assumption.
  - destruct evs as [|[key' b|n' v] rest]; auto.
    destruct (Nat.eqb_spec n n') as [->|]; [|exact I].
    inversion Hwf; subst. apply IH; assumption.
Qed.

Lemma run_trace_split a b s evs : Forall ev_wf evs ->
  run_trace (aproduce (a + b) s) evs =
  match run_trace (aproduce a s) evs with
  | Some (Ok (s1, Ok _), rest) => run_trace (aproduce b s1) rest
  | Some (Ok (s1, st), rest) => Some (Ok (s1, st), rest)
  | other => other
  end.
Proof.
  intros Hwf.
  pose proof (run_trace_peq _ _ _ (aproduce_split a b s) evs Hwf) as H.
  rewrite ProgProofs.run_trace_bind in H.
  destruct (run_trace (aproduce a s) evs) as [[[[s1 st]|e|e|] rest]|].
  - unfold athen in H. cbn [snd fst] in H.
    destruct st as [u|e|e|].
    + destruct (run_trace (aproduce (a + b) s) evs) as [[[r1|e1|e1|] r1']|];
        destruct (run_trace (aproduce b s1) rest) as [[[r2|e2|e2|] r2']|]; try contradiction; try reflexivity;
        try (destruct H as (-> & ->); reflexivity); try (subst; reflexivity).
    + cbn [run_trace] in H. destruct (run_trace (aproduce (a + b) s) evs) as [[[r1|e1|e1|] r1']|]; try contradiction.
      destruct H as (-> & ->). reflexivity.
    + cbn [run_trace] in H. destruct (run_trace (aproduce (a + b) s) evs) as [[[r1|e1|e1|] r1']|]; try contradiction.
      destruct H as (-> & ->). reflexivity.
    + cbn [run_trace] in H. destruct (run_trace (aproduce (a + b) s) evs) as [[[r1|e1|e1|] r1']|]; try contradiction.
      destruct H as (-> & ->). reflexivity.
  - destruct (run_trace (aproduce (a + b) s) evs) as [[[r1|e1|e1|] r1']|]; try contradiction.
    destruct H as (-> & ->). reflexivity.
  - destruct (run_trace (aproduce (a + b) s) evs) as [[[r1|e1|e1|] r1']|]; try contradiction.
    destruct H as (-> & ->). reflexivity.
  - destruct (run_trace (aproduce (a + b) s) evs) as [[[r1|e1|e1|] r1']|]; try contradiction.
    subst. reflexivity.
  - destruct (run_trace (aproduce (a + b) s) evs) as [[[r1|e1|e1|] r1']|]; try contradiction. reflexivity.
Qed.

(* ---- one decode call, related to the recorded decisions and the range coder ------------------- *)
From LzVerif Require Import Codec.ProbProofs Codec.RangeEncProofs Codec.RangeProofs Codec.LzmaSymProofs.

Lemma ev_ok_wf ev : RangeEncProofs.ev_ok ev = true -> ev_wf ev.
Proof.
  destruct ev as [k b|n v]; cbn [RangeEncProofs.ev_ok ev_wf].
  - intros H. apply orb_true_iff in H as [H|H]; apply Z.eqb_eq in H; [left | right]; assumption.
  - intros H. repeat (apply andb_true_iff in H as [H ?]).
    apply Nat.leb_le in H. match goal with X : Nat.leb n 32 = true |- _ => apply Nat.leb_le in X end.
    match goal with X : (0 <=? v) = true |- _ => apply Z.leb_le in X end.
    match goal with X : (v <? _) = true |- _ => apply Z.ltb_lt in X; rewrite Z.shiftl_1_l in X end.
    unfold direct_ok. rewrite Nat.min_l by assumption. lia.
Qed.

Lemma forall_ev_wf evs : forallb RangeEncProofs.ev_ok evs = true -> Forall ev_wf evs.
Proof.
  induction evs as [|e r IH]; intros H; constructor; cbn [forallb] in H; apply andb_true_iff in H as [H1 H2];
    [apply ev_ok_wf; assumption | apply IH; assumption].
Qed.

Lemma Forall_app_r {A} (P : A -> Prop) l1 l2 : Forall P (l1 ++ l2) -> Forall P l2.
Proof. induction l1 as [|x t IH]; cbn [app]; intros H; [exact H | inversion H; auto]. Qed.

Theorem decode_call_sim : forall all t0 tail done rest c w hist d t b s' st' rest',
  rc_sim all t0 tail done d t -> all = done ++ rest ->
  Rel w hist -> coder_ok c (w_full w) -> w_pos w <= w_limit w -> Z.of_nat b = w_limit w - w_pos w ->
  (0 < w_pending_len w -> 0 <= w_pending_dist w < w_full w) ->
  run_trace (aproduce b (mkAstate c hist (w_size w) (w_pending_len w) (w_pending_dist w))) rest
    = Some (Ok (s', st'), rest') ->
  exists w1 d1 t1 evs1,
    rest = evs1 ++ rest' /\
    lzma_decode c w d t = Ok (a_coder s', w1, st', d1, t1) /\
    rc_sim all t0 tail (done ++ evs1) d1 t1 /\
    loop_rel w hist (a_coder s', w1, st') (s', st').
Proof.
  intros all t0 tail done rest c w hist d t b s' st' rest' Hsim Hall R Hc Hpl Hb Hpd Hrun.
  destruct (run_trace_consumed _ _ _ _ Hrun) as (evs1 & Hrest & _).
  subst rest.
  destruct (rc_sim_run all t0 tail done d t _ _ evs1 rest' _ Hsim Hall Hrun) as (d' & t' & Hrc & Hsim').
  pose proof (lzma_decode_abs c w hist d t b R Hc Hpl Hb Hpd) as HA.
  rewrite Hrc in HA. destruct HA as (w1 & Hdec & Hrel).
  exists w1, (match st' with Ok _ => rdec_normalize d' | _ => d' end), t', evs1.
  split; [reflexivity|]. split; [exact Hdec|]. split; [|exact Hrel].
  destruct st'; [apply rc_sim_normalize|..]; exact Hsim'.
Qed.

(* if a run of a+b bytes succeeds, so does its first part, and the second continues from it *)
Lemma trace_prefix_ok a b s evs s2 r2 : Forall ev_wf evs ->
  run_trace (aproduce (a + b) s) evs = Some (Ok (s2, Ok tt), r2) ->
  exists s1 r1, run_trace (aproduce a s) evs = Some (Ok (s1, Ok tt), r1) /\
                run_trace (aproduce b s1) r1 = Some (Ok (s2, Ok tt), r2).
Proof.
  intros Hwf H. rewrite (run_trace_split a b s evs Hwf) in H.
  destruct (run_trace (aproduce a s) evs) as [[[[s1 st]|e|e|] r1]|]; try discriminate.
  destruct st as [[]|e|e|]; try discriminate.
  exists s1, r1. split; [reflexivity | exact H].
Qed.

Lemma run_trace_rest_wf {A} (p : prog A) evs r rest : Forall ev_wf evs -> run_trace p evs = Some (r, rest) -> Forall ev_wf rest.
Proof.
  intros Hwf H. destruct (run_trace_consumed _ _ _ _ H) as (used & -> & _). eapply Forall_app_r; exact Hwf.
Qed.

(* ---- zero-length reads never disturb the stream ---------------------------------------------- *)
From LzVerif Require Import Codec.Lzma1 Codec.Lzma2Dec.

Lemma lzma1_read_zero s n : n <= 0 -> lzma1_read s n = Ok ([], s).
Proof. intros H. unfold lzma1_read. destruct (Z.leb_spec n 0); [reflexivity | lia]. Qed.

Lemma lzma2_read_zero s n : n <= 0 -> lzma2_read s n = Ok ([], s).
Proof. intros H. unfold lzma2_read. destruct (Z.leb_spec n 0); [reflexivity | lia]. Qed.
