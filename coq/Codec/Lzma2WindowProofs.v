(* Codec/Lzma2WindowProofs.v — the window operations only the LZMA2 reader uses (reset,
   copy_uncompressed) at the level of the history relation [Rel], and a few facts about flush. *)
From LzVerif Require Import Base.Bytes Codec.Store Codec.LzWindow Codec.LzWindowProofs.
Ltac Zify.zify_post_hook ::= Z.div_mod_to_equations.

(* reset(): an empty history; everything but the pending fields is re-initialised *)
Lemma reset_rel w :
  0 < w_size w -> w_size w mod 16 = 0 -> 0 <= w_pending_len w ->
  exists w', lzwin_reset w = Ok w' /\ Rel w' [] /\ w_size w' = w_size w /\ w_start w' = 0 /\ w_pos w' = 0 /\
             w_full w' = 0 /\ w_pending_len w' = w_pending_len w /\ w_pending_dist w' = w_pending_dist w.
Proof.
  intros Hs H16 Hp. unfold lzwin_reset. destruct (Z.leb_spec (w_size w) 0) as [Hle|Hgt]; [lia|].
  eexists. split; [reflexivity|]. split; [|cbn; repeat split; reflexivity].
  constructor; cbn [w_buf w_size w_start w_pos w_full w_limit w_pending_len].
  - split; assumption.
  - lia.
  - unfold zlen; cbn [length]. split; [lia|]. split; [lia|]. intros _. reflexivity.
  - lia.
  - reflexivity.
  - intros d Hd. lia.
  - intros _. unfold bget; cbn [w_buf]. apply agss.
  - exact Hp.
Qed.

(* writing a list at the write position = appending it to the history *)
Lemma put_list_rel l : forall w hist,
  Rel w hist -> w_pos w + zlen l <= w_size w ->
  Rel (mkLzwin (aset_list (w_buf w) (w_pos w) l) (w_size w) (w_start w) (w_pos w + zlen l)
               (Z.max (w_full w) (w_pos w + zlen l)) (w_limit w) (w_pending_len w) (w_pending_dist w))
      (rev l ++ hist).
Proof.
  induction l as [|x r IH]; intros w hist R Hroom.
  - cbn [aset_list rev app]. change (zlen (@nil Z)) with 0.
    destruct R as [A B [C1 [C2 C3]] D E F G H].
    replace (w_pos w + 0) with (w_pos w) by lia.
    replace (Z.max (w_full w) (w_pos w)) with (w_full w) by lia.
    destruct w; constructor; cbn in *; auto.
  - rewrite zlen_cons in Hroom |- *. pose proof (zlen_nonneg r) as Hr.
    assert (Hlt : w_pos w < w_size w) by lia.
    destruct (put_byte_rel w hist x R Hlt) as (w' & Hput & R' & Hst & Hli & Hpo & Hsz & Hpl & Hpd).
    unfold lzwin_put_byte in Hput.
    destruct (Z.ltb_spec (w_pos w) 0); [destruct R as [_ [? ?] _ _ _ _ _ _]; lia|].
    destruct (Z.leb_spec (w_size w) (w_pos w)); [lia|]. cbn [orb] in Hput. inversion Hput as [Hw']; clear Hput.
    specialize (IH w' (x :: hist) R' ltac:(rewrite Hpo, Hsz; lia)).
    rewrite <- Hw' in IH. cbn [w_buf w_size w_pos w_start w_full w_limit w_pending_len w_pending_dist] in IH.
    cbn [aset_list rev]. rewrite <- app_assoc. cbn [app].
    replace (w_pos w + (zlen r + 1)) with (w_pos w + 1 + zlen r) by lia.
    replace (Z.max (w_full w) (w_pos w + 1 + zlen r)) with (Z.max (Z.max (w_full w) (w_pos w + 1)) (w_pos w + 1 + zlen r)) by lia.
    exact IH.
Qed.

(* copy_uncompressed(in, len): min(buf_size - pos, len) bytes of the input go to the history *)
Lemma copy_uncompressed_rel w hist input len :
  Rel w hist -> 0 <= len ->
  let n := Z.min (w_size w - w_pos w) len in
  (Z.to_nat n <= length input)%nat ->
  exists w', lzwin_copy_uncompressed w input len = Ok (w', skipn (Z.to_nat n) input) /\
             Rel w' (rev (firstn (Z.to_nat n) input) ++ hist) /\
             w_size w' = w_size w /\ w_start w' = w_start w /\ w_pos w' = w_pos w + n /\
             w_pending_len w' = w_pending_len w /\ w_pending_dist w' = w_pending_dist w.
Proof.
  intros R Hlen n Hin. unfold lzwin_copy_uncompressed. fold n.
  pose proof R as [_ [_ Hp2] _ _ _ _ _ _].
  destruct (Z.ltb_spec n 0) as [Hneg|Hnn]; [unfold n in Hneg; lia|].
  destruct (Nat.ltb_spec (length input) (Z.to_nat n)) as [Hshort|Hok]; [lia|].
  eexists. split; [reflexivity|].
  assert (Hz : zlen (firstn (Z.to_nat n) input) = n).
  { unfold zlen. rewrite firstn_length_le by lia. lia. }
  split.
  - pose proof (put_list_rel (firstn (Z.to_nat n) input) w hist R) as HP. rewrite Hz in HP.
    apply HP. unfold n. lia.
  - cbn [w_size w_start w_pos w_pending_len w_pending_dist]. repeat split; reflexivity.
Qed.

(* flush(): the fields the reader's invariants talk about *)
Lemma flush_facts w :
  w_full (snd (lzwin_flush w)) = w_full w /\
  (0 < w_size w -> w_pos w <= w_size w -> w_pos (snd (lzwin_flush w)) < w_size w) /\
  zlen (fst (lzwin_flush w)) = Z.max 0 (w_pos w - w_start w).
Proof.
  unfold lzwin_flush. cbn [fst snd w_full w_pos].
  split; [reflexivity|]. split.
  - intros Hs Hp. destruct (Z.eqb_spec (w_pos w) (w_size w)); lia.
  - unfold zlen.
    assert (Hl : forall t n i, length (aget_list t i n) = n).
    { intros t n; induction n as [|k IH]; intros i; cbn [aget_list length]; [reflexivity | rewrite IH; reflexivity]. }
    rewrite Hl. lia.
Qed.
