(* Codec/LzmaTotalProofs.v — totality on untrusted input: LZMADecoder::decode over the window never
   panics and never runs out of its fuel (limit - pos iterations), whatever bytes the range decoder
   is fed, as long as the decoder state itself is consistent (which every constructor and every
   successful step establish). *)
From LzVerif Require Import Base.Bytes Codec.Store Codec.Range Codec.ProbProofs Codec.LzWindow Codec.LzmaDec
  Codec.LzmaAbs Codec.LzWindowProofs Codec.ProgProofs Codec.LzmaAbsProofs Codec.RangeArithProofs Codec.RangeNoWrapProofs.
Ltac Zify.zify_post_hook ::= Z.div_mod_to_equations.

(* ---- programs that cannot fail (no reachable Fail node under well-formed answers) ------------ *)
Inductive psafe {A : Type} : prog A -> Prop :=
| psafe_ret a : psafe (Ret a)
| psafe_bit key k : (forall b, bit_ok b -> psafe (k b)) -> psafe (Bit key k)
| psafe_direct n k : (forall v, direct_ok n v -> psafe (k v)) -> psafe (Direct n k).

Lemma psafe_bind {A B} (P : A -> Prop) (p : prog A) (f : A -> prog B) :
  pall P p -> psafe p -> (forall a, P a -> psafe (f a)) -> psafe (pbind p f).
Proof.
  intros HP Hs Hf. induction HP as [a Ha|e|key k Hk IH|n k Hk IH]; cbn [pbind].
  - apply Hf; assumption.
  - inversion Hs.
  - inversion Hs as [|key' k' Hk'|]; subst. constructor. intros b Hb. apply IH; auto.
  - inversion Hs as [| |n' k' Hk']; subst. constructor. intros v Hv. apply IH; auto.
Qed.

Lemma psafe_bind_true {A B} (p : prog A) (f : A -> prog B) :
  psafe p -> (forall a, psafe (f a)) -> psafe (pbind p f).
Proof. intros Hs Hf. eapply psafe_bind; [apply pall_true | exact Hs | auto]. Qed.

Lemma peq_psafe {A B} (R : A -> B -> Prop) p q : peq R p q -> psafe q -> psafe p.
Proof.
  induction 1 as [a b Hab|e|key k1 k2 Hk IH|n k1 k2 Hk IH]; intros Hs.
  - constructor.
  - inversion Hs.
  - inversion Hs; subst. constructor. auto.
  - inversion Hs; subst. constructor. auto.
Qed.

(* ---- the range decoder keeps its registers in range on ANY input ----------------------------- *)
Definition rdec_wf (d : rdec) : Prop := rd_range d < 4294967296.

Lemma decode_bit_wf d t k b d' t' :
  probs_ok t -> rdec_wf d -> decode_bit d t k = Some (b, d', t') -> rdec_wf d' /\ probs_ok t'.
Proof.
  intros Ht Hd H. unfold decode_bit in H.
  destruct (P2_32 <=? Z.shiftr (rd_range (rdec_normalize d)) 11 * prob_get t k) eqn:E; [discriminate|].
  apply Z.leb_gt in E. unfold P2_32 in E.
  pose proof (probs_ok_get t k Ht) as Hp.
  destruct (rd_code (rdec_normalize d) <? _); inversion H; subst; clear H; unfold rdec_wf; cbn [rd_range].
  - split; [lia|]. apply probs_ok_set; [assumption|].
    destruct (prob_update_twins (prob_get t k) 0 Hp (or_introl eq_refl)) as (<- & Hok). exact Hok.
  - split; [pose proof (wrap32_range (rd_range (rdec_normalize d) - Z.shiftr (rd_range (rdec_normalize d)) 11 * prob_get t k)); lia|].
    apply probs_ok_set; [assumption|].
    destruct (prob_update_twins (prob_get t k) 1 Hp (or_intror eq_refl)) as (<- & Hok). exact Hok.
Qed.

Lemma decode_direct_bits_wf n : forall d acc v d', rdec_wf d -> decode_direct_bits d n acc = (v, d') -> rdec_wf d'.
Proof.
  induction n as [|m IH]; intros d acc v d' Hd H; cbn [decode_direct_bits] in H.
  - inversion H; subst. exact Hd.
  - eapply IH; [|exact H]. unfold rdec_wf in *. cbn [rd_range].
    pose proof (rdec_normalize_range d Hd) as Hn.
    rewrite Z.shiftr_div_pow2 by lia. change (2 ^ 1) with 2.
    destruct (Z.lt_ge_cases (rd_range (rdec_normalize d)) 0) as [Hneg|Hpos].
    + assert (rd_range (rdec_normalize d) / 2 < 0) by (apply Z.div_lt_upper_bound; lia). lia.
    + assert (rd_range (rdec_normalize d) / 2 <= rd_range (rdec_normalize d)) by (apply Z.div_le_upper_bound; lia). lia.
Qed.

(* a program without Fail nodes run against the range decoder always returns a value - never a
   panic, never fuel exhaustion - for every input *)
Theorem run_rc_safe {A} (p : prog A) :
  psafe p -> forall d t, probs_ok t -> rdec_wf d ->
  exists a d' t', run_rc p d t = Ok (a, d', t') /\ rdec_wf d' /\ probs_ok t'.
Proof.
  induction 1 as [a|key k Hk IH|n k Hk IH]; intros d t Ht Hd; cbn [run_rc].
  - exists a, d, t. auto.
  - destruct (decode_bit d t key) as [[[b d1] t1]|] eqn:E.
    + destruct (decode_bit_wf _ _ _ _ _ _ Ht Hd E) as (Hd1 & Ht1).
      apply IH; [eapply decode_bit_bit; eassumption | assumption | assumption].
    + exfalso. eapply decode_bit_never_none; eassumption.
  - destruct (decode_direct_bits d n 0) as [v d1] eqn:E.
    apply IH; [eapply decode_direct_bits_ok; eassumption | assumption | eapply decode_direct_bits_wf; eassumption].
Qed.

(* ---- the sub-decoders are safe ---------------------------------------------------------------- *)
Lemma bittree_safe base levels : forall sym, psafe (bittree base levels sym).
Proof. induction levels as [|l IH]; intros sym; cbn [bittree]; constructor. intros b _. apply IH. Qed.

Lemma decode_bit_tree_safe base levels : psafe (decode_bit_tree base levels).
Proof. unfold decode_bit_tree. apply psafe_bind_true; [apply bittree_safe | intros; constructor]. Qed.

Lemma rev_bittree_safe base levels : forall sym i res, psafe (rev_bittree base levels sym i res).
Proof. induction levels as [|l IH]; intros sym i res; cbn [rev_bittree]; constructor. intros b _. apply IH. Qed.

Lemma lit_matched_safe lbase n : forall mb off sym, psafe (lit_matched lbase n mb off sym).
Proof. induction n as [|k IH]; intros mb off sym; cbn [lit_matched]; constructor. intros b _. apply IH. Qed.

Lemma lit_prog_safe lbase mb : psafe (lit_prog lbase mb).
Proof. destruct mb; cbn [lit_prog]; [apply lit_matched_safe | apply bittree_safe]. Qed.

Lemma decode_len_safe base ps : 0 <= ps < 16 -> psafe (decode_len base ps).
Proof.
  intros Hps. unfold decode_len. constructor. intros c0 _. destruct (c0 =? 0).
  - rewrite key2_ok by lia. cbn [lift pbind]. apply psafe_bind_true; [apply decode_bit_tree_safe | intros; constructor].
  - constructor. intros c1 _. destruct (c1 =? 0).
    + rewrite key2_ok by lia. cbn [lift pbind]. apply psafe_bind_true; [apply decode_bit_tree_safe | intros; constructor].
    + apply psafe_bind_true; [apply decode_bit_tree_safe | intros; constructor].
Qed.

Lemma decode_match_safe c ps : 0 <= ps < 16 -> psafe (decode_match c ps).
Proof.
  intros Hps. unfold decode_match.
  eapply psafe_bind; [apply decode_len_post; assumption | apply decode_len_safe; assumption|].
  intros len Hlen. cbv beta in Hlen.
  assert (Hds : 0 <= dist_state_of_len len < 4) by (unfold dist_state_of_len; destruct (len <? 6) eqn:E; lia).
  rewrite key2_ok by lia. cbn [lift pbind].
  apply psafe_bind_true; [apply decode_bit_tree_safe|]. intros slot.
  apply psafe_bind_true; [|intros; constructor].
  destruct (slot <? 4); [constructor|]. destruct (slot <? 14).
  - apply psafe_bind_true; [apply rev_bittree_safe | intros; constructor].
  - constructor. intros v _. apply psafe_bind_true; [apply rev_bittree_safe | intros; constructor].
Qed.

Lemma decode_rep_match_safe c ps : 0 <= c_state c < 12 -> 0 <= ps < 16 -> psafe (decode_rep_match c ps).
Proof.
  intros Hst Hps. unfold decode_rep_match.
  rewrite key1_ok by lia. cbn [lift pbind]. constructor. intros b0 _. destruct (b0 =? 0).
  - rewrite key2_ok by lia. cbn [lift pbind]. constructor. intros bl _. destruct (bl =? 0); [constructor|].
    apply psafe_bind_true; [apply decode_len_safe; assumption | intros; constructor].
  - rewrite key1_ok by lia. cbn [lift pbind]. constructor. intros b1 _.
    apply psafe_bind_true.
    + destruct (b1 =? 0); [constructor|]. rewrite key1_ok by lia. cbn [lift pbind]. constructor. intros b2 _.
      destruct (b2 =? 0); constructor.
    + intros c1. apply psafe_bind_true; [apply decode_len_safe; assumption | intros; constructor].
Qed.

(* the literal table index is inside the table for every previous byte and position *)
Lemma lit_base_ok c prev pos : params_ok c -> 0 <= prev < 256 -> 0 <= pos ->
  exists lb, lit_base c prev pos = Ok lb.
Proof.
  intros (Hlc & Hlp & _) Hprev Hpos. unfold lit_base.
  destruct (Z.ltb_spec 8 (c_lc c)); [lia|].
  rewrite land_mask_mod by assumption.
  set (m := pos mod 2 ^ c_lp c).
  assert (Hm : 0 <= m < 2 ^ c_lp c) by (apply Z.mod_pos_bound; apply Z.pow_pos_nonneg; lia).
  rewrite (Z.shiftl_mul_pow2 m) by lia. rewrite Z.shiftr_div_pow2 by lia.
  assert (Hlow : 0 <= prev / 2 ^ (8 - c_lc c) < 2 ^ c_lc c).
  { split; [apply Z.div_pos; [lia | apply Z.pow_pos_nonneg; lia]|].
    apply Z.div_lt_upper_bound; [apply Z.pow_pos_nonneg; lia|].
    rewrite <- Z.pow_add_r by lia. replace (8 - c_lc c + c_lc c) with 8 by lia. change (2 ^ 8) with 256. lia. }
  assert (Hpl : 0 < 2 ^ c_lc c) by (apply Z.pow_pos_nonneg; lia).
  assert (Hsum : 0 <= prev / 2 ^ (8 - c_lc c) + m * 2 ^ c_lc c < 2 ^ (c_lc c + c_lp c)).
  { rewrite Z.pow_add_r by lia. nia. }
  assert (Hle : 2 ^ (c_lc c + c_lp c) <= 2 ^ 12) by (apply Z.pow_le_mono_r; lia).
  change (2 ^ 12) with 4096 in Hle.
  assert (Hw1 : wrap32 (m * 2 ^ c_lc c) = m * 2 ^ c_lc c) by (unfold wrap32; apply Z.mod_small; nia).
  rewrite Hw1.
  assert (Hw2 : wrap32 (prev / 2 ^ (8 - c_lc c) + m * 2 ^ c_lc c) = prev / 2 ^ (8 - c_lc c) + m * 2 ^ c_lc c)
    by (unfold wrap32; apply Z.mod_small; lia).
  rewrite Hw2. rewrite Z.shiftl_1_l. rewrite key1_ok by lia. cbn [obind]. eauto.
Qed.

(* ---- the specification decoder cannot fail ---------------------------------------------------- *)
Definition hist_bytes (hist : list Z) : Prop := forall d, 0 <= hnth hist d < 256.

Lemma hist_bytes_cons b hist : 0 <= b < 256 -> hist_bytes hist -> hist_bytes (b :: hist).
Proof.
  intros Hb Hh d. destruct (Z.eq_dec d 0) as [->|Hne]; [rewrite hnth_cons_0; exact Hb|].
  destruct (Z.lt_ge_cases d 0) as [Hneg|Hpos].
  - unfold hnth, zth. destruct (Z.ltb_spec d 0); [lia | lia].
  - rewrite hnth_cons_S by lia. apply Hh.
Qed.

Definition asafe (s : astate) : Prop :=
  params_ok (a_coder s) /\ 0 <= c_state (a_coder s) < 12 /\ hist_bytes (a_hist s).

Definition asym_post (c : coder) (r : coder * symres) : Prop :=
  params_ok (fst r) /\ 0 <= c_state (fst r) < 12 /\
  match snd r with RLit b => 0 <= b < 256 | RCopy _ len => 1 <= len end.

Lemma wrap8_range x : 0 <= wrap8 x < 256.
Proof. unfold wrap8. apply Z.mod_pos_bound. lia. Qed.

Lemma asym_safe c hist : params_ok c -> 0 <= c_state c < 12 -> hist_bytes hist ->
  psafe (asym c hist) /\ pall (asym_post c) (asym c hist).
Proof.
  intros Hpar Hst Hh. pose proof (zlen_nonneg hist) as Hz.
  pose proof (pos_state_range c (zlen hist) Hpar Hz) as Hps.
  destruct (lit_base_ok c (hnth hist 0) (zlen hist) Hpar (Hh 0) Hz) as (lb & Hlb).
  pose proof (state_update_range (c_state c) Hst) as (Hu1 & Hu2 & Hu3 & Hu4).
  unfold asym. rewrite key2_ok by lia. cbn [lift pbind]. split.
  - constructor. intros bm _. destruct (bm =? 0).
    + rewrite Hlb. cbn [lift pbind]. apply psafe_bind_true; [apply lit_prog_safe | intros; constructor].
    + rewrite key1_ok by lia. cbn [lift pbind]. constructor. intros br _.
      apply psafe_bind_true; [|intros; constructor].
      destruct (br =? 0); [apply decode_match_safe | apply decode_rep_match_safe]; assumption.
  - constructor. intros bm _. destruct (bm =? 0).
    + rewrite Hlb. cbn [lift pbind]. eapply pall_bind; [apply pall_true|]. intros sym _. constructor.
      unfold asym_post; cbn [fst snd set_state c_state c_lc c_lp c_pb params_ok].
      split; [exact Hpar|]. split; [exact Hu1 | apply wrap8_range].
    + rewrite key1_ok by lia. cbn [lift pbind]. constructor. intros br _.
      eapply pall_bind.
      * destruct (br =? 0); [apply decode_match_post | apply decode_rep_match_post]; assumption.
      * intros cl (Hsame & Hst1 & _ & Hlen). constructor. unfold asym_post; cbn [fst snd].
        destruct Hsame as (S1 & S2 & S3). unfold params_ok. rewrite S1, S2, S3.
        split; [exact Hpar|]. split; [exact Hst1 | lia].
Qed.

Theorem aproduce_safe n : forall s, asafe s -> psafe (aproduce n s).
Proof.
  induction n as [|k IH]; intros s (Hpar & Hst & Hh); cbn [aproduce]; [constructor|].
  destruct (0 <? a_pend_len s).
  - apply IH. unfold asafe; cbn [a_coder a_hist]. split; [exact Hpar|]. split; [exact Hst|].
    apply hist_bytes_cons; [apply Hh | exact Hh].
  - destruct (asym_safe (a_coder s) (a_hist s) Hpar Hst Hh) as (Hsafe & Hpost).
    eapply psafe_bind; [exact Hpost | exact Hsafe|].
    intros [c1 res] (Hp1 & Hs1 & Hres). cbn [fst snd] in *.
    destruct res as [b|dist len].
    + apply IH. unfold asafe; cbn [a_coder a_hist]. split; [exact Hp1|]. split; [exact Hs1|].
      apply hist_bytes_cons; assumption.
    + destruct (a_full s <=? dist); [constructor|].
      destruct (Z.leb_spec len 0); [lia|].
      apply IH. unfold asafe; cbn [a_coder a_hist]. split; [exact Hp1|]. split; [exact Hs1|].
      apply hist_bytes_cons; [apply Hh | exact Hh].
Qed.

(* ---- hence LZMADecoder::decode over the window is total on every input ------------------------ *)
Theorem lzma_decode_total : forall c w hist d t,
  Rel w hist -> hist_bytes hist -> coder_ok c (w_full w) -> w_pos w <= w_limit w ->
  (0 < w_pending_len w -> 0 <= w_pending_dist w < w_full w) ->
  probs_ok t -> rdec_wf d ->
  exists c1 w1 st d1 t1,
    lzma_decode c w d t = Ok (c1, w1, st, d1, t1) /\ (st = Ok tt \/ exists e, st = Err e) /\
    probs_ok t1.
Proof.
  intros c w hist d t R Hh Hc Hpl Hpd Ht Hd.
  set (n := Z.to_nat (w_limit w - w_pos w)).
  pose proof (lzma_decode_abs c w hist d t n R Hc Hpl ltac:(unfold n; lia) Hpd) as HA.
  assert (Hsafe : psafe (aproduce n (mkAstate c hist (w_size w) (w_pending_len w) (w_pending_dist w)))).
  { apply aproduce_safe. destruct Hc as (Hpar & Hst & _). unfold asafe; cbn [a_coder a_hist]. auto. }
  destruct (run_rc_safe _ Hsafe d t Ht Hd) as ([s2 st2] & d2 & t2 & Hrun & Hd2 & Ht2).
  rewrite Hrun in HA. destruct HA as (w1 & Hdec & Hrel).
  exists (a_coder s2), w1, st2, (match st2 with Ok _ => rdec_normalize d2 | _ => d2 end), t2.
  split; [exact Hdec|]. split; [|exact Ht2].
  (* the status of a specification run is Ok or the distance error *)
  assert (Hst : pall (fun r => snd r = Ok tt \/ exists e, snd r = Err e)
                     (aproduce n (mkAstate c hist (w_size w) (w_pending_len w) (w_pending_dist w)))).
  { generalize (mkAstate c hist (w_size w) (w_pending_len w) (w_pending_dist w)). clear.
    induction n as [|k IH]; intros s; cbn [aproduce]; [constructor; left; reflexivity|].
    destruct (0 <? a_pend_len s); [apply IH|].
    eapply pall_bind; [apply pall_true|]. intros r _. destruct (snd r) as [b|dist len]; [apply IH|].
    destruct (a_full s <=? dist); [constructor; right; eexists; reflexivity|].
    destruct (len <=? 0); [constructor | apply IH]. }
  apply (run_rc_pall _ _ Hst _ _ _ _ _ Hrun).
Qed.
