(* Codec/RangeNoWrapProofs.v — "no overflow in a debug build" facts for the range coder.
   The encoder functions of Codec/Range.v carry the u32/u64 wrap-arounds of the Rust code
   explicitly (wrap32/wrap64, and wrap16/wrap32 in the probability update).  Here the same
   functions are written over unbounded integers ([*_exact]; only the intended `as u8`
   truncations remain) and shown to compute the same result on every run that satisfies the
   hypotheses of rc_roundtrip: none of the wraps ever wraps.  On the decoder side the checked
   u32 product of decode_bit never overflows (decode_bit is never None).  Proofs only. *)
From LzVerif Require Import Base.Bytes Codec.Store Codec.Range Codec.ProbProofs Codec.RangeArithProofs.
From LzVerif Require Import Codec.LzmaDec Codec.LzmaEnc Codec.RangeEncProofs.
Ltac Zify.zify_post_hook ::= Z.div_mod_to_equations.

Definition prob_update_exact (p bit : Z) : Z :=
  if bit =? 0 then p + Z.shiftr (P2_11 - p) 5 else p - Z.shiftr p 5.

Definition renc_normalize_exact (e : renc) : renc :=
  if Z.land (re_range e) 4278190080 =? 0 then
    shift_low_exact (mkRenc (re_low e) (re_range e * 256) (re_cache e) (re_cache_size e) (re_out e))
  else e.

Definition encode_bit_exact (e : renc) (t : probs) (k : Z) (bit : Z) : renc * probs :=
  let p := prob_get t k in
  let bound := Z.shiftr (re_range e) 11 * p in
  let e1 :=
    if bit =? 0 then mkRenc (re_low e) bound (re_cache e) (re_cache_size e) (re_out e)
    else mkRenc (re_low e + bound) (re_range e - bound) (re_cache e) (re_cache_size e) (re_out e) in
  (renc_normalize_exact e1, prob_set t k (prob_update_exact p bit)).

Fixpoint encode_direct_bits_exact (e : renc) (value : Z) (count : nat) : renc :=
  match count with
  | O => e
  | S c =>
      let range := Z.shiftr (re_range e) 1 in
      let b := Z.land (Z.shiftr value (Z.of_nat c)) 1 in
      let low := if b =? 1 then re_low e + range else re_low e in
      encode_direct_bits_exact
        (renc_normalize_exact (mkRenc low range (re_cache e) (re_cache_size e) (re_out e))) value c
  end.

Definition renc_finish_exact (e : renc) : renc :=
  shift_low_exact (shift_low_exact (shift_low_exact (shift_low_exact (shift_low_exact e)))).

Fixpoint renc_events_exact (e : renc) (t : probs) (evs : list event) : renc * probs :=
  match evs with
  | [] => (e, t)
  | EBit key bit :: r => let '(e1, t1) := encode_bit_exact e t key bit in renc_events_exact e1 t1 r
  | EDirect n v :: r => renc_events_exact (encode_direct_bits_exact e v n) t r
  end.

(* ---------------------------------------------------------------------------------------------
   step by step *)
Lemma prob_update_nowrap p bit :
  prob_ok p = true -> bit = 0 \/ bit = 1 -> prob_update_enc p bit = prob_update_exact p bit.
Proof.
  intros Hp Hbit. apply prob_ok_iff in Hp.
  unfold prob_update_enc, prob_update_exact, wrap16, wrap32, P2_11.
  rewrite !shiftr_div by lia. change (2 ^ 5) with 32.
  rewrite (Z.mod_small (2048 - p)) by lia.
  destruct Hbit as [-> | ->]; cbn [Z.eqb]; rewrite Z.mod_small; lia.
Qed.

Lemma renc_normalize_nowrap e :
  renc_inv1 e -> re_cache_size e + 1 < 4294967296 -> renc_normalize e = renc_normalize_exact e.
Proof.
  intros [HI Hr] Hs. unfold renc_normalize, renc_normalize_exact.
  rewrite top_mask_zero by lia.
  destruct (Z.ltb_spec (re_range e) 16777216) as [Hlt|Hge]; [|reflexivity].
  unfold wrap32. rewrite Z.mod_small by lia.
  pose proof (ir_low _ _ HI). pose proof (ir_sum _ _ HI). pose proof (ir_size _ _ HI).
  apply shift_low_nowrap; cbn [re_low re_cache_size]; lia.
Qed.

Lemma encode_bit_nowrap e t k bit :
  renc_inv e -> probs_ok t -> bit = 0 \/ bit = 1 -> re_cache_size e + 1 < 4294967296 ->
  encode_bit e t k bit = encode_bit_exact e t k bit.
Proof.
  intros HI Ht Hbit Hs. rewrite encode_bit_eq by assumption.
  pose proof HI as [HIR Hr].
  pose proof (probs_ok_get t k Ht) as Hp.
  pose proof (bit_step_bounds (re_range e) (prob_get t k) bit Hr (proj1 (prob_ok_iff _) Hp)) as (Ho & Hw & Hsum).
  assert (Hw0 : 0 < bit_width (re_range e) (prob_get t k) bit) by lia.
  destruct (enc_step_ok e _ _ HIR Ho Hw0 Hsum) as (I1 & _ & _ & S1).
  rewrite renc_normalize_nowrap;
    [| split; [exact I1 | cbn [enc_step re_range]; lia] | rewrite S1; exact Hs].
  rewrite (prob_update_nowrap _ _ Hp Hbit).
  unfold encode_bit_exact, enc_step, bit_off, bit_width.
  rewrite shiftr_div by lia. change (2 ^ 11) with 2048.
  destruct (bit =? 0); [rewrite Z.add_0_r|]; reflexivity.
Qed.

Lemma encode_direct_bits_nowrap n : forall e v,
  renc_inv e -> re_cache_size e + Z.of_nat n < 4294967296 ->
  encode_direct_bits e v n = encode_direct_bits_exact e v n.
Proof.
  induction n as [|c IH]; intros e v HI Hs; [reflexivity|].
  rewrite encode_direct_bits_S by exact HI.
  pose proof HI as [HIR Hr].
  set (b := Z.land (Z.shiftr v (Z.of_nat c)) 1).
  pose proof (dir_step_bounds (re_range e) b Hr) as (Ho & Hw & Hsum).
  assert (Hw0 : 0 < re_range e / 2) by lia.
  destruct (enc_step_ok e _ _ HIR Ho Hw0 Hsum) as (I1 & _ & _ & S1).
  set (e1 := enc_step e (dir_off (re_range e) b) (re_range e / 2)) in *.
  assert (HI1 : renc_inv1 e1) by (split; [exact I1 | cbn [e1 enc_step re_range]; lia]).
  destruct (renc_normalize_ok e1 HI1 ltac:(lia)) as (I2 & S2 & _).
  rewrite IH by (try exact I2; lia).
  rewrite renc_normalize_nowrap by (try exact HI1; lia).
  cbn [encode_direct_bits_exact]. fold b.
  rewrite (shiftr_div (re_range e) 1) by lia. change (2 ^ 1) with 2.
  unfold e1, enc_step, dir_off. destruct (b =? 1); [|rewrite Z.add_0_r]; reflexivity.
Qed.

Lemma renc_finish_nowrap e R :
  renc_invR e R -> re_cache_size e + 5 < 4294967296 -> renc_finish e = renc_finish_exact e.
Proof.
  intros HI Hs. apply (renc_invR_weaken e R 1) in HI; [|pose proof (ir_R _ _ HI); lia].
  unfold renc_finish, renc_finish_exact.
  assert (step : forall x, renc_invR x 1 -> re_cache_size x + 1 < 4294967296 ->
                 shift_low x = shift_low_exact x /\ renc_invR (shift_low x) 1 /\
                 re_cache_size (shift_low x) <= re_cache_size x + 1).
  { intros x Hx Hsx. destruct (shift_low_ok x 1 1 Hx) as (I1 & _ & _ & _ & _ & S1); try lia.
    split; [|split; [exact I1 | lia]].
    pose proof (ir_low _ _ Hx). pose proof (ir_sum _ _ Hx). pose proof (ir_size _ _ Hx).
    apply shift_low_nowrap; lia. }
  destruct (step e HI ltac:(lia)) as (E1 & I1 & S1).
  destruct (step _ I1 ltac:(lia)) as (E2 & I2 & S2).
  destruct (step _ I2 ltac:(lia)) as (E3 & I3 & S3).
  destruct (step _ I3 ltac:(lia)) as (E4 & I4 & S4).
  destruct (step _ I4 ltac:(lia)) as (E5 & I5 & S5).
  rewrite E5, E4, E3, E2, E1. reflexivity.
Qed.

Lemma renc_events_nowrap evs : forall e t,
  renc_inv e -> probs_ok t -> forallb ev_ok evs = true ->
  re_cache_size e + events_bits evs < 4294967296 ->
  renc_events e t evs = renc_events_exact e t evs.
Proof.
  induction evs as [|ev r IH]; intros e t HI Ht Hok Hs; [reflexivity|].
  cbn [forallb] in Hok. apply andb_true_iff in Hok as [Hev Hok].
  cbn [events_bits] in Hs. pose proof (events_bits_nonneg r) as Hnn.
  cbn [renc_events renc_events_exact]. destruct ev as [k bit | n v]; cbn [ev_bits] in Hs.
  - pose proof (ev_ok_bit _ _ Hev) as Hbit.
    destruct (encode_bit_ok e t k bit HI Ht Hbit ltac:(lia)) as (I1 & T1 & S1 & _).
    rewrite <- encode_bit_nowrap by (try assumption; lia).
    destruct (encode_bit e t k bit) as [e1 t1]. cbn [fst snd] in *. apply IH; try assumption. lia.
  - destruct (encode_direct_bits_ok n e v HI ltac:(lia)) as (I1 & S1 & _).
    rewrite <- encode_direct_bits_nowrap by (try assumption; lia).
    apply IH; try assumption. lia.
Qed.

(* the whole encoder run of rc_roundtrip *)
Theorem renc_run_nowrap t0 evs :
  probs_ok t0 -> forallb ev_ok evs = true -> events_bits evs <= 4294967289 ->
  renc_events renc_init t0 evs = renc_events_exact renc_init t0 evs /\
  renc_finish (fst (renc_events renc_init t0 evs)) =
    renc_finish_exact (fst (renc_events_exact renc_init t0 evs)).
Proof.
  intros Ht Hok Hbits. pose proof (events_bits_nonneg evs) as Hnn.
  assert (Hs : re_cache_size renc_init + events_bits evs < 4294967296) by (cbn [renc_init re_cache_size]; lia).
  pose proof (renc_events_nowrap evs renc_init t0 renc_inv_init Ht Hok Hs) as E.
  split; [exact E|]. rewrite <- E.
  destruct (renc_events_ok evs renc_init t0 renc_inv_init Ht Hok Hs) as (I1 & _ & S1 & _).
  cbn [renc_init re_cache_size] in S1.
  apply (renc_finish_nowrap _ _ (proj1 I1)). lia.
Qed.

(* ---------------------------------------------------------------------------------------------
   decoder: the checked product (range >> 11) * prob fits u32 whenever the table is valid *)
Lemma rdec_normalize_range d : rd_range d < 4294967296 -> rd_range (rdec_normalize d) < 4294967296.
Proof.
  intros H. unfold rdec_normalize. destruct (rd_range d <? P2_24); [|exact H].
  destruct (rdec_read d) as [b d1]. cbn [rd_range]. unfold wrap32. lia.
Qed.

Theorem decode_bit_never_none d t k :
  probs_ok t -> rd_range d < 4294967296 -> decode_bit d t k <> None.
Proof.
  intros Ht Hr. pose proof (probs_ok_get t k Ht) as Hp. apply prob_ok_iff in Hp.
  pose proof (rdec_normalize_range d Hr) as Hr1.
  unfold decode_bit. rewrite shiftr_div by lia. change (2 ^ 11) with 2048.
  replace (P2_32 <=? rd_range (rdec_normalize d) / 2048 * prob_get t k) with false.
  - destruct (rd_code (rdec_normalize d) <? rd_range (rdec_normalize d) / 2048 * prob_get t k); discriminate.
  - symmetry. apply Z.leb_gt. unfold P2_32. nia.
Qed.
