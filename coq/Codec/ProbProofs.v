(* Codec/ProbProofs.v — the two probability-update formulas of the Rust code (encoder:
   `+= (2048 - p) >> 5` / `-= p >> 5`; decoder: `p - ((p + offset) >> 5)` with a wrapped offset)
   are the same function, and they keep every probability inside [31, 2017], which is what makes
   `bound = (range >> 11) * p` satisfy 0 < bound < range and never overflow u32. *)
From LzVerif Require Import Base.Bytes Codec.Store Codec.Range.

Fixpoint zrange (lo : Z) (n : nat) : list Z :=
  match n with O => [] | S k => lo :: zrange (lo + 1) k end.

Lemma in_zrange lo n x : lo <= x < lo + Z.of_nat n -> In x (zrange lo n).
Proof.
  revert lo; induction n as [|k IH]; intros lo H; [lia|].
  cbn [zrange In]. destruct (Z.eq_dec lo x); [left; assumption | right; apply IH; lia].
Qed.

Definition PROB_MIN : Z := 31.
Definition PROB_MAX : Z := 2017.
Definition prob_ok (p : Z) : bool := (PROB_MIN <=? p) && (p <=? PROB_MAX).

Definition twin_chk (p : Z) : bool :=
  (prob_update_enc p 0 =? prob_update_dec p 0) && (prob_update_enc p 1 =? prob_update_dec p 1) &&
  prob_ok (prob_update_enc p 0) && prob_ok (prob_update_enc p 1).

Lemma twin_sweep : forallb twin_chk (zrange 31 1987) = true.
Proof. vm_compute. reflexivity. Qed.

(* finite domain: the 1987 values 31..2017 x 2 bits, enumerated *)
Theorem prob_update_twins : forall p bit,
  prob_ok p = true -> (bit = 0 \/ bit = 1) ->
  prob_update_enc p bit = prob_update_dec p bit /\ prob_ok (prob_update_enc p bit) = true.
Proof.
  intros p bit Hp Hb. unfold prob_ok, PROB_MIN, PROB_MAX in Hp.
  apply andb_true_iff in Hp as [H1 H2]. apply Z.leb_le in H1, H2.
  pose proof twin_sweep as S. rewrite forallb_forall in S.
  specialize (S p (in_zrange 31 1987 p ltac:(lia))). unfold twin_chk in S.
  repeat (apply andb_true_iff in S as [S ?]). apply Z.eqb_eq in S.
  match goal with H : (prob_update_enc p 1 =? _) = true |- _ => apply Z.eqb_eq in H end.
  destruct Hb as [-> | ->]; split; assumption.
Qed.

(* every cell of a table is a valid probability *)
Definition probs_ok (t : probs) : Prop := forall q v, pget t q = Some v -> prob_ok v = true.

Lemma probs_ok_empty : probs_ok PLeaf.
Proof. intros q v H. rewrite pget_leaf in H. discriminate. Qed.

Lemma probs_ok_get t k : probs_ok t -> prob_ok (prob_get t k) = true.
Proof.
  intros H. unfold prob_get, aget. destruct (pget t (akey k)) as [v|] eqn:E; [eapply H; eassumption | reflexivity].
Qed.

Lemma probs_ok_set t k v : probs_ok t -> prob_ok v = true -> probs_ok (prob_set t k v).
Proof.
  intros H Hv q x Hq. unfold prob_set, aset in Hq.
  destruct (Pos.eq_dec (akey k) q) as [<-|Hne].
  - rewrite pgss in Hq. inversion Hq; subst; assumption.
  - rewrite pgso in Hq by assumption. eapply H; eassumption.
Qed.
