(* Codec/XCheckDec.v — extraction cross-check of the reader areas (lib/framework.py: xcheck).
   The OCaml driver (driver/h_lzmadec.ml) runs the extracted [lzma1_read] / [lzma2_read] inside a
   read loop written in OCaml.  The theorems (C06_lzma1_*_total, C06_lzma2_total, C07, C16) are
   about the Gallina loops [lzma1_read_all] / [lzma2_read_all].  Here the driver's printed answer
   is compared, inside Coq by vm_compute, with what the Gallina loop computes on the same source
   and the same cycle of destination sizes: this ties the hand-written OCaml loop and the
   extraction of the reader models to the definitions the theorems quantify over.
   Definitions only. *)
From LzVerif Require Import Base.Bytes Base.XCheck Codec.Lzma1 Codec.Lzma2Dec.

(* What the driver printed:  END <out> <unconsumed> | ERR<c> <out> | CERR<c> | PANIC | FUEL *)
Inductive xread : Type :=
| XEnd (out : list Z) (unconsumed : Z)
| XErrOut (code : Z) (out : list Z)
| XCErr (code : Z)
| XRPanic
| XRFuel.

Definition XFUEL : nat := Z.to_nat 200000.

Definition x_lzma2 (new : outcome lzma2) (sizes : list Z) (e : xread) : bool :=
  match new, e with
  | Err c, XCErr d => c =? d
  | Panic _, XRPanic => true
  | Fuel, XRFuel => true
  | Ok st, _ =>
      match lzma2_read_all XFUEL st sizes sizes [], e with
      | Ok (out, 0, s1), XEnd o n => zlist_eqb out o && (zlen (m_in s1) =? n)
      | Ok (out, c, _), XErrOut d o => negb (c =? 0) && (c =? d) && zlist_eqb out o
      | Panic _, XRPanic => true
      | _, _ => false
      end
  | _, _ => false
  end.

(* [lzma1_read_all] returns the error alone: the bytes delivered before it are not compared *)
Definition x_lzma1 (new : outcome lzma1) (sizes : list Z) (e : xread) : bool :=
  match new, e with
  | Err c, XCErr d => c =? d
  | Panic _, XRPanic => true
  | Fuel, XRFuel => true
  | Ok st, _ =>
      match lzma1_read_all XFUEL st sizes sizes [], e with
      | Ok (out, s1), XEnd o n => zlist_eqb out o && (zlen (lzma1_unconsumed s1) =? n)
      | Err c, XErrOut d _ => c =? d
      | Panic _, XRPanic => true
      | _, _ => false
      end
  | _, _ => false
  end.
