(* Codec/Lzma2Loop0Proofs.v — the read loops when the FIRST iteration may return no bytes without
   the stream being at its end (a preset dictionary that fills the window: the first flush only
   wraps the write position).  After that iteration the invariant of Lzma2LoopProofs.v holds. *)
From LzVerif Require Import Base.Bytes Codec.Store Codec.Range Codec.LzWindow Codec.LzmaDec Codec.Lzma2Dec
  Codec.Lzma2LoopProofs.
Ltac Zify.zify_post_hook ::= Z.div_mod_to_equations.

Section Loops0.
  Variables Inv Inv0 : lzma2 -> list Z -> Prop.
  Variable tail : list Z.

  Hypothesis Inv_live : forall s rem, Inv s rem -> m_end_reached s = false /\ m_error s = None.
  Hypothesis iter_step : forall s rem len, Inv s rem -> 0 < len ->
    exists out s', lzma2_iter s len = Ok (out, s') /\
      ((rem = [] /\ out = [] /\ Ended tail s') \/
       (out <> [] /\ zlen out <= len /\ exists rem', rem = out ++ rem' /\ Inv s' rem')).
  Hypothesis Inv0_live : forall s rem, Inv0 s rem -> m_end_reached s = false /\ m_error s = None.
  Hypothesis iter_step0 : forall s rem len, Inv0 s rem -> 0 < len ->
    exists out s', lzma2_iter s len = Ok (out, s') /\
      ((rem = [] /\ out = [] /\ Ended tail s') \/
       (zlen out <= len /\ exists rem', rem = out ++ rem' /\ Inv s' rem')).

  Lemma read_ok0 : forall s rem sz, Inv0 s rem -> 0 < sz ->
    exists out s' rem', lzma2_read s sz = Ok (out, s') /\ rem = out ++ rem' /\
      (Inv s' rem' \/ (rem' = [] /\ Ended tail s')) /\
      (out = [] -> rem = [] /\ Ended tail s') /\ (rem <> [] -> out <> []).
  Proof.
    intros s rem sz HInv Hsz.
    destruct (Inv0_live s rem HInv) as (Hend & Herr).
    rewrite l2_read_live by assumption.
    replace (Z.to_nat (2 * sz + 4)) with (S (Z.to_nat (2 * sz + 3))) by lia.
    rewrite l2_read_loop_step by assumption.
    destruct (iter_step0 s rem sz HInv Hsz) as (out & s1 & Hiter & Hcase).
    rewrite Hiter. cbn [obind].
    destruct Hcase as [(Hrem & Hout & HEnd) | (Hle & rem1 & Hrem & HInv1)].
    - pose proof HEnd as (He1 & _). rewrite He1.
      exists [], s1, []. subst rem.
      split; [reflexivity|]. split; [reflexivity|]. split; [right; split; [reflexivity | exact HEnd]|].
      split; [intros _; split; [reflexivity | exact HEnd] | intros X; congruence].
    - destruct (Inv_live s1 rem1 HInv1) as (Hlive & _). rewrite Hlive.
      pose proof (l2_zlen_nonneg out) as Hon.
      destruct (read_loop_ok Inv tail Inv_live iter_step (Z.to_nat (2 * sz + 3)) s1 rem1 (sz - zlen out)
                  (rev_append out []) HInv1 ltac:(lia) ltac:(lia))
        as (out2 & s2 & rem2 & Hloop & Hrem2 & Hle2 & Hcase2).
      rewrite Hloop, l2_rev_rev_append. cbn [rev app].
      exists (out ++ out2), s2, rem2.
      split; [reflexivity|]. split; [subst rem rem1; rewrite <- app_assoc; reflexivity|].
      pose proof (l2_zlen_nonneg out2) as Hon2.
      destruct Hcase2 as [(HInv2 & Hfull) | (Hnil & HEnd2)].
      + split; [left; exact HInv2|].
        assert (Hne : out ++ out2 <> []).
        { intros X. apply app_eq_nil in X as [X1 X2]. subst out out2.
          unfold zlen in Hfull; cbn [length] in Hfull. lia. }
        split; [intros X; congruence | intros _; exact Hne].
      + split; [right; split; assumption|].
        split.
        * intros X. apply app_eq_nil in X as [X1 X2]. subst out out2 rem2. cbn [app] in Hrem, Hrem2.
          subst rem rem1. split; [reflexivity | exact HEnd2].
        * intros Hne X. apply app_eq_nil in X as [X1 X2]. subst out out2 rem2. cbn [app] in Hrem, Hrem2.
          subst rem rem1. congruence.
  Qed.

  Theorem read_all_ok0 : forall fuel s rem sizes all acc,
    Inv0 s rem -> Forall (fun z => 0 < z) sizes -> Forall (fun z => 0 < z) all ->
    (length rem + 2 <= fuel)%nat ->
    exists s_end, lzma2_read_all fuel s sizes all acc = Ok (rev acc ++ rem, 0, s_end) /\ Ended tail s_end.
  Proof.
    intros fuel s rem sizes all acc HInv Hs Ha Hfuel.
    destruct fuel as [|f]; [lia|].
    destruct (l2_next_pos sizes all Hs Ha) as (Hsz & Hnext).
    rewrite l2_read_all_step.
    destruct (read_ok0 s rem _ HInv Hsz) as (out & s1 & rem1 & Hread & Hrem & Hcase & Hempty & Hnonempty).
    rewrite Hread.
    destruct (Z.ltb_spec 0 (fst (l2_next sizes all))) as [Hlt|Hge]; [|lia].
    cbn [andb].
    destruct (Z.eqb_spec (zlen out) 0) as [Hz|Hnz].
    - apply l2_zlen_zero in Hz. destruct (Hempty Hz) as (Hrnil & HEnd1).
      exists s1. rewrite Hrnil, frev_rev, app_nil_r. split; [reflexivity|assumption].
    - assert (Hne : out <> []).
      { intros Hout. subst out. apply Hnz. reflexivity. }
      pose proof (l2_length_pos out Hne) as Hlen1.
      assert (Hlen : length rem = (length out + length rem1)%nat).
      { subst rem. apply app_length. }
      destruct Hcase as [HInv1 | (Hnil & HEnd1)].
      + destruct (read_all_ok Inv tail Inv_live iter_step f s1 rem1 _ all (rev_append out acc) HInv1 Hnext Ha
                    ltac:(lia)) as (s_end & Hall & HEnd).
        exists s_end. rewrite Hall, l2_rev_rev_append, <- app_assoc, Hrem.
        split; [reflexivity|assumption].
      + destruct f as [|f']; [lia|].
        rewrite (read_all_ended tail f' s1 _ all (rev_append out acc) HEnd1 Hnext Ha).
        exists s1. rewrite frev_rev, l2_rev_rev_append, Hrem, Hnil, app_nil_r.
        split; [reflexivity|assumption].
  Qed.
End Loops0.
