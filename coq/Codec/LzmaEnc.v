(* Codec/LzmaEnc.v — model of the symbol-coding half of src/enc/encoder.rs (encode_symbol,
   encode_match, encode_rep_match, LiteralSubEncoder::encode, LengthEncoder::encode,
   encode_lzma1_end_marker) and of get_dist_slot.  Definitions only.

   The parser and the match finders (which symbol to emit) are NOT modelled: the encoder model
   takes the symbol sequence as input (on the real code it comes from the trace hook), checks it
   against the data and the window (validator) and produces the decisions the range encoder
   codes.  The window used for the literal contexts is the decoder's window model: it holds what
   the decoder will have reconstructed at that point. *)
From LzVerif Require Export Codec.LzmaDec.

Inductive sym : Type :=
| SLit (b : Z)
| SMatch (dist len : Z)     (* dist = distance - 1, as coded *)
| SRep (idx len : Z)        (* idx 0..3; len = 1 only with idx = 0 (short rep) *)
| SEnd.                     (* LZMA1 end marker: match with dist = 0xFFFFFFFF, len = 2 *)

Definition V_BAD_TRACE : Z := 90.   (* validator verdict: the symbol sequence is not a parse of the data *)

(* LZMAEncoder::get_dist_slot(dist: u32) *)
Definition get_dist_slot (dist : Z) : Z :=
  if dist <=? 4 then dist else
  let i := Z.log2 dist in                 (* the shift cascade computes floor(log2 dist) *)
  2 * i + Z.land (Z.shiftr dist (i - 1)) 1.

(* events of encode_bit_tree(probs, symbol) with probs.len() = 2^levels: most significant first *)
Fixpoint enc_bittree (base : Z) (levels : nat) (symbol : Z) (index : Z) : list event :=
  match levels with
  | O => []
  | S l =>
      let bit := Z.land (Z.shiftr symbol (Z.of_nat l)) 1 in
      EBit (base + index) bit :: enc_bittree base l symbol (2 * index + bit)
  end.

(* encode_reverse_bit_tree: least significant first *)
Fixpoint enc_rev_bittree (base : Z) (levels : nat) (symbol : Z) (index : Z) : list event :=
  match levels with
  | O => []
  | S l =>
      let bit := Z.land symbol 1 in
      EBit (base + index) bit :: enc_rev_bittree base l (Z.shiftr symbol 1) (2 * index + bit)
  end.

(* LengthEncoder::encode(len, pos_state) *)
Definition enc_len (base : Z) (len pos_state : Z) : outcome (list event) :=
  let l := len - 2 in
  if l <? 0 then Panic 60 else
  if l <? 8 then
    do low <- key2 (base + 2) 16 8 pos_state 0;
    Ok (EBit (base + 0) 0 :: enc_bittree low 3 l 1)
  else if l <? 16 then
    do mid <- key2 (base + 130) 16 8 pos_state 0;
    Ok (EBit (base + 0) 1 :: EBit (base + 1) 0 :: enc_bittree mid 3 (l - 8) 1)
  else if l <? 272 then
    Ok (EBit (base + 0) 1 :: EBit (base + 1) 1 :: enc_bittree (base + 258) 8 (l - 16) 1)
  else Panic 61.

(* LiteralSubEncoder::encode, matched variant, as written in the Rust encoder *)
Fixpoint enc_lit_matched (lbase : Z) (n : nat) (match_byte offset symbol : Z) : list event :=
  match n with
  | O => []
  | S k =>
      let match_byte := wrap32 (match_byte * 2) in
      let match_bit := Z.land match_byte offset in
      let idx := offset + match_bit + Z.shiftr symbol 8 in
      let bit := Z.land (Z.shiftr symbol 7) 1 in
      let symbol := wrap32 (symbol * 2) in
      let offset := Z.land offset (lnot32 (Z.lxor match_byte symbol)) in
      EBit (lbase + idx) bit :: enc_lit_matched lbase k match_byte offset symbol
  end.

Fixpoint enc_lit_normal (lbase : Z) (n : nat) (symbol : Z) : list event :=
  match n with
  | O => []
  | S k =>
      EBit (lbase + Z.shiftr symbol 8) (Z.land (Z.shiftr symbol 7) 1) :: enc_lit_normal lbase k (wrap32 (symbol * 2))
  end.

(* The encoder's view of the data: the whole input (preset dictionary followed by the data) as an
   array, the position of the next byte to code, the position where the current window started
   (0, or the start of the current independent LZMA2 unit) and the dictionary size option. *)
Record ehist := mkEhist { h_data : ptree; h_total : Z; h_base : Z; h_pos : Z; h_dict : Z }.


Definition hget (h : ehist) (i : Z) : Z := aget 0 (h_data h) i.
Definition h_advance (h : ehist) (n : Z) : ehist :=
  mkEhist (h_data h) (h_total h) (h_base h) (h_pos h + n) (h_dict h).

(* does data[pos .. pos+len) repeat data[pos-dist-1 ..) ? *)
Fixpoint match_ok (t : ptree) (pos back : Z) (n : nat) : bool :=
  match n with
  | O => true
  | S k => (aget 0 t pos =? aget 0 t back) && match_ok t (pos + 1) (back + 1) k
  end.

(* validator for a copy of [len] bytes from distance [dist]+1 *)
Definition copy_valid (h : ehist) (dist len : Z) : bool :=
  (0 <=? dist) && (dist <? h_pos h - h_base h) && (dist <? h_dict h) &&
  (h_pos h + len <=? h_total h) &&
  match_ok (h_data h) (h_pos h) (h_pos h - dist - 1) (Z.to_nat len).

(* window-free cores, mirrored by lit_prog / decode_match / decode_rep_match of LzmaDec.v *)
Definition lit_events (lbase : Z) (mb : option Z) (b : Z) : list event :=
  match mb with
  | None => enc_lit_normal lbase 8 (Z.lor b 256)
  | Some m => enc_lit_matched lbase 8 m 256 (Z.lor b 256)
  end.

(* encode_match(dist, len, pos_state): events after the is_match / is_rep bits, and the new coder *)
Definition enc_match_events (c : coder) (pos_state dist len : Z) : outcome (list event * coder) :=
  do elen <- enc_len K_MATCH_LEN len pos_state;
  let dist_slot := get_dist_slot dist in
  do dsk <- key2 K_DIST_SLOTS 4 64 (dist_state_of_len len) 0;
  let eslot := enc_bittree dsk 6 dist_slot 1 in
  let efoot :=
    if dist_slot <? 4 then []
    else
      let footer_bits := Z.shiftr dist_slot 1 - 1 in
      let base := wrap32 (Z.shiftl (Z.lor 2 (Z.land dist_slot 1)) footer_bits) in
      let dist_reduced := wrap32 (dist - base) in
      if dist_slot <? 14 then
        enc_rev_bittree (K_DIST_SPECIAL + DIST_SPECIAL_INDEX (dist_slot - 4)) (Z.to_nat footer_bits) dist_reduced 1
      else
        EDirect (Z.to_nat (footer_bits - 4)) (Z.shiftr dist_reduced 4)
          :: enc_rev_bittree K_DIST_ALIGN 4 (Z.land dist_reduced 15) 1 in
  Ok (elen ++ eslot ++ efoot,
      mkCoder (state_update_match (c_state c)) dist (c_rep0 c) (c_rep1 c) (c_rep2 c) (c_lc c) (c_lp c) (c_pb c)).

(* encode_rep_match(rep, len, pos_state): events after the is_match / is_rep bits, and the new
   coder.  A rep1..3 with len 1 is not decodable (the decoder would read a length): rejected. *)
Definition enc_rep_events (c : coder) (pos_state idx len : Z) : outcome (list event * coder) :=
  let s0 := c_state c in
  do k0 <- key1 K_IS_REP0 12 s0;
  if idx =? 0 then
    do k0l <- key2 K_IS_REP0_LONG 12 16 s0 pos_state;
    if len =? 1 then Ok ([EBit k0 0; EBit k0l 0], set_state c (state_update_short_rep s0))
    else
      do elen <- enc_len K_REP_LEN len pos_state;
      Ok (EBit k0 0 :: EBit k0l 1 :: elen, set_state c (state_update_long_rep s0))
  else
    if (idx <? 0) || (3 <? idx) || (len =? 1) then Err V_BAD_TRACE else
    do k1 <- key1 K_IS_REP1 12 s0;
    do k2 <- key1 K_IS_REP2 12 s0;
    let '(erep, c1) :=
      if idx =? 1 then ([EBit k1 0], set_reps c (c_rep1 c) (c_rep0 c) (c_rep2 c) (c_rep3 c))
      else if idx =? 2 then ([EBit k1 1; EBit k2 0], set_reps c (c_rep2 c) (c_rep0 c) (c_rep1 c) (c_rep3 c))
      else ([EBit k1 1; EBit k2 1], set_reps c (c_rep3 c) (c_rep0 c) (c_rep1 c) (c_rep2 c)) in
    do elen <- enc_len K_REP_LEN len pos_state;
    Ok (EBit k0 1 :: erep ++ elen, set_state c1 (state_update_long_rep s0)).

(* one symbol: events and new coder; the symbol must be a correct description of the next bytes *)
Definition enc_symbol (c : coder) (h : ehist) (s : sym) : outcome (list event * coder * ehist) :=
  let rel := h_pos h - h_base h in
  let pos_state := pos_state_of c rel in
  do km <- key2 K_IS_MATCH 12 16 (c_state c) pos_state;
  match s with
  | SLit b =>
      if negb ((h_pos h <? h_total h) && (hget h (h_pos h) =? b)) then Err V_BAD_TRACE else
      let prev := if rel <=? 0 then 0 else hget h (h_pos h - 1) in
      do lbase <- lit_base c prev rel;
      do mb <-
        (if state_is_literal (c_state c) then Ok None
         else
           if negb ((c_rep0 c <? rel) && (c_rep0 c <? h_dict h)) then Err V_BAD_TRACE else
           Ok (Some (hget h (h_pos h - c_rep0 c - 1))));
      Ok (EBit km 0 :: lit_events lbase mb b, set_state c (state_update_literal (c_state c)), h_advance h 1)
  | SMatch dist len =>
      if negb ((2 <=? len) && (len <=? 273) && copy_valid h dist len) then Err V_BAD_TRACE else
      do kr <- key1 K_IS_REP 12 (c_state c);
      do ec <- enc_match_events c pos_state dist len;
      Ok (EBit km 1 :: EBit kr 0 :: fst ec, snd ec, h_advance h len)
  | SEnd =>
      (* encode_lzma1_end_marker: encode_match(u32::MAX, 2); nothing is copied *)
      do kr <- key1 K_IS_REP 12 (c_state c);
      do ec <- enc_match_events c pos_state 4294967295 2;
      Ok (EBit km 1 :: EBit kr 0 :: fst ec, snd ec, h)
  | SRep idx len =>
      do kr <- key1 K_IS_REP 12 (c_state c);
      do ec <- enc_rep_events c pos_state idx len;
      let dist := c_rep0 (snd ec) in
      if negb ((1 <=? len) && (len <=? 273) && copy_valid h dist len) then Err V_BAD_TRACE else
      Ok (EBit km 1 :: EBit kr 1 :: fst ec, snd ec, h_advance h len)
  end.

(* range-encode a list of events *)
Fixpoint renc_events (e : renc) (t : probs) (evs : list event) : renc * probs :=
  match evs with
  | [] => (e, t)
  | EBit key bit :: r => let '(e1, t1) := encode_bit e t key bit in renc_events e1 t1 r
  | EDirect n v :: r => renc_events (encode_direct_bits e v n) t r
  end.
