(* Codec/RangeArithProofs.v — small arithmetic and list facts used by the range-coder proofs:
   big-endian values of byte lists, the bit-operation idioms of the Rust code rewritten as
   div/mod, and the pure interval arithmetic of one coding step. Proofs only. *)
From LzVerif Require Import Base.Bytes Codec.Store Codec.Range Codec.ProbProofs.
Ltac Zify.zify_post_hook ::= Z.div_mod_to_equations.

(* ---------------------------------------------------------------------------------------------
   bytes *)
Lemma is_byte_iff x : is_byte x = true <-> 0 <= x < 256.
Proof. unfold is_byte. rewrite andb_true_iff, Z.leb_le, Z.ltb_lt. tauto. Qed.

Lemma bytes_ok_cons b l : bytes_ok (b :: l) = true <-> 0 <= b < 256 /\ bytes_ok l = true.
Proof. unfold bytes_ok. cbn [forallb]. rewrite andb_true_iff, is_byte_iff. tauto. Qed.

Lemma bytes_ok_app a b : bytes_ok (a ++ b) = true <-> bytes_ok a = true /\ bytes_ok b = true.
Proof. unfold bytes_ok. rewrite forallb_app, andb_true_iff. tauto. Qed.

Lemma bytes_ok_rev l : bytes_ok (rev l) = bytes_ok l.
Proof.
  induction l as [|b t IH]; [reflexivity|].
  cbn [rev]. unfold bytes_ok in *. rewrite forallb_app, IH. cbn [forallb]. rewrite andb_true_r. apply andb_comm.
Qed.

Lemma zlen_nonneg {A} (l : list A) : 0 <= zlen l.
Proof. unfold zlen. lia. Qed.

Lemma zlen_cons {A} (x : A) l : zlen (x :: l) = zlen l + 1.
Proof. unfold zlen. cbn [length]. lia. Qed.

Lemma zlen_app {A} (a b : list A) : zlen (a ++ b) = zlen a + zlen b.
Proof. unfold zlen. rewrite app_length. lia. Qed.

Lemma zlen_rev {A} (l : list A) : zlen (rev l) = zlen l.
Proof. unfold zlen. rewrite rev_length. reflexivity. Qed.

Lemma zlen_nil {A} : zlen (@nil A) = 0.
Proof. reflexivity. Qed.

(* value of a byte list written least-significant first ([le_value]) *)
Lemma le_value_app a b : le_value (a ++ b) = le_value a + 256 ^ zlen a * le_value b.
Proof.
  induction a as [|x t IH]; [cbn [app le_value]; change (zlen (@nil Z)) with 0; lia|].
  cbn [app le_value]. rewrite IH, zlen_cons, Z.pow_add_r by (pose proof (zlen_nonneg t); lia). lia.
Qed.

Lemma le_value_bound l : bytes_ok l = true -> 0 <= le_value l < 256 ^ zlen l.
Proof.
  induction l as [|x t IH]; intros Hb; [cbn; lia|].
  apply bytes_ok_cons in Hb as [Hx Ht]. specialize (IH Ht).
  cbn [le_value]. rewrite zlen_cons, Z.pow_add_r by (pose proof (zlen_nonneg t); lia). lia.
Qed.

(* big-endian value: most significant byte first *)
Definition be_val (l : list Z) : Z := le_value (rev l).

Lemma be_val_nil : be_val [] = 0.
Proof. reflexivity. Qed.

Lemma be_val_snoc l b : be_val (l ++ [b]) = b + 256 * be_val l.
Proof. unfold be_val. rewrite rev_app_distr. reflexivity. Qed.

Lemma be_val_app a b : be_val (a ++ b) = be_val b + 256 ^ zlen b * be_val a.
Proof. unfold be_val. rewrite rev_app_distr, le_value_app, zlen_rev. reflexivity. Qed.

Lemma be_val_cons x l : be_val (x :: l) = be_val l + 256 ^ zlen l * x.
Proof. change (x :: l) with ([x] ++ l). rewrite be_val_app. unfold be_val at 2. cbn [rev app le_value]. lia. Qed.

Lemma be_val_bound l : bytes_ok l = true -> 0 <= be_val l < 256 ^ zlen l.
Proof. intros H. unfold be_val. rewrite <- (zlen_rev l). apply le_value_bound. rewrite bytes_ok_rev. exact H. Qed.

(* ---------------------------------------------------------------------------------------------
   bit idioms *)
Lemma shiftr_div x n : 0 <= n -> Z.shiftr x n = x / 2 ^ n.
Proof. intros H. apply Z.shiftr_div_pow2. exact H. Qed.

(* range & 0xFF000000 == 0  <->  range < 2^24   (u32 range) *)
Lemma top_mask_zero r : 0 <= r < 4294967296 -> (Z.land r 4278190080 =? 0) = (r <? 16777216).
Proof.
  intros Hr.
  change 4278190080 with (Z.ldiff (Z.ones 32) (Z.ones 24)).
  rewrite Z.ldiff_land, Z.land_assoc, Z.land_ones by lia.
  rewrite <- Z.ldiff_land, Z.ldiff_ones_r by lia.
  rewrite Z.shiftl_mul_pow2, Z.shiftr_div_pow2 by lia.
  change (2 ^ 32) with 4294967296. change (2 ^ 24) with 16777216.
  rewrite (Z.mod_small r) by lia.
  destruct (Z.ltb_spec r 16777216) as [Hlt|Hge].
  - apply Z.eqb_eq. lia.
  - apply Z.eqb_neq. lia.
Qed.

(* (code << 8) | b  for a byte b *)
Lemma lor_shift8 c b : 0 <= c -> 0 <= b < 256 -> Z.lor (c * 256) b = c * 256 + b.
Proof.
  intros Hc Hb.
  rewrite <- Z.lxor_lor, <- Z.add_nocarry_lxor; try reflexivity.
  all: apply Z.bits_inj'; intros n Hn; rewrite Z.land_spec, Z.bits_0;
    change 256 with (2 ^ 8); rewrite <- Z.shiftl_mul_pow2 by lia;
    destruct (Z.ltb_spec n 8) as [Hlt|Hge].
  all: try (rewrite Z.shiftl_spec_low by lia; reflexivity).
  all: replace b with (b mod 2 ^ 8) by (apply Z.mod_small; change (2 ^ 8) with 256; lia);
    rewrite Z.mod_pow2_bits_high by lia; apply andb_false_r.
Qed.

(* (v >> c) & 1 *)
Lemma land_one x : Z.land x 1 = x mod 2.
Proof. change 1 with (Z.ones 1). rewrite Z.land_ones by lia. reflexivity. Qed.

(* ---------------------------------------------------------------------------------------------
   probabilities and the bound of one coded bit *)
Lemma prob_ok_iff p : prob_ok p = true <-> 31 <= p <= 2017.
Proof. unfold prob_ok, PROB_MIN, PROB_MAX. rewrite andb_true_iff, !Z.leb_le. tauto. Qed.

Lemma bound_facts r p : 16777216 <= r < 4294967296 -> 31 <= p <= 2017 ->
  let bound := r / 2048 * p in
  65536 <= bound /\ bound < r /\ 65536 <= r - bound /\ bound < 4294967296.
Proof. intros Hr Hp bound. subst bound. nia. Qed.

(* the code value lies in the current interval as soon as the final numeral does *)
Lemma code_in_interval M T V R br :
  0 < M -> 0 <= T < M -> V * M <= br * M + T < (V + R) * M -> 0 <= br - V < R.
Proof. intros HM HT H. nia. Qed.
