(* Codec/Lzma1ReadProofs.v — END-TO-END LZMA1 round trip through the LZMAReader model (Lzma1.v):
   what the writer model (LzmaWriters.v, lzma1_write) produced for a validated symbol sequence is
   read back by the reader model, for EVERY sequence of destination buffer sizes, as exactly the
   data, and exactly the bytes after the stream are left in the source.
   Built on Lzma1LoopProofs.v (the read loops over a stream with known decisions), LzmaRoundtrip.v
   (symbols -> decisions -> specification decoder), RangeProofs.v (range coder), LzmaAbsProofs.v /
   LzmaReadProofs.v (decode calls over the cyclic window).  Proofs only. *)
From LzVerif Require Import Base.Bytes Codec.Store Codec.Range Codec.ProbProofs Codec.RangeArithProofs
  Codec.LzWindow Codec.LzmaDec Codec.LzmaEnc Codec.LzmaAbs Codec.LzWindowProofs Codec.ProgProofs Codec.LzmaAbsProofs
  Codec.RangeEncProofs Codec.RangeDecProofs Codec.RangeProofs Codec.LzmaSymProofs Codec.LzmaRoundtrip
  Codec.LzmaChunkProofs Codec.LzmaReadProofs Codec.LzmaWriters Codec.Lzma1 Codec.Lzma1LoopProofs.
Ltac Zify.zify_post_hook ::= Z.div_mod_to_equations.
(* ---------------------------------------------------------------------------------------------
   the encoder's data array and the decoder's history *)
Lemma aget_aset_list_lo l : forall t i j, 0 <= j < i -> aget 0 (aset_list t i l) j = aget 0 t j.
Proof.
  induction l as [|x r IH]; intros t i j Hj; cbn [aset_list]; [reflexivity|].
  rewrite IH by lia. apply agso; lia.
Qed.

Lemma aget_aset_list_in l : forall t i d, 0 <= i -> 0 <= d < zlen l -> aget 0 (aset_list t i l) (i + d) = hnth l d.
Proof.
  induction l as [|x r IH]; intros t i d Hi Hd; [change (zlen (@nil Z)) with 0 in Hd; lia|].
  cbn [aset_list]. rewrite zlen_cons in Hd. destruct (Z.eq_dec d 0) as [->|Hne].
  - rewrite Z.add_0_r, aget_aset_list_lo by lia. rewrite agss. reflexivity.
  - replace (i + d) with ((i + 1) + (d - 1)) by lia. rewrite IH by lia. rewrite hnth_cons_S by lia. reflexivity.
Qed.

Lemma hnth_app_l a : forall b d, 0 <= d < zlen a -> hnth (a ++ b) d = hnth a d.
Proof.
  induction a as [|x t IH]; intros b d Hd; [change (zlen (@nil Z)) with 0 in Hd; lia|].
  rewrite zlen_cons in Hd. cbn [app]. destruct (Z.eq_dec d 0) as [->|Hne]; [reflexivity|].
  rewrite !hnth_cons_S by lia. apply IH. lia.
Qed.

Lemma hnth_app_r a : forall b d, zlen a <= d -> hnth (a ++ b) d = hnth b (d - zlen a).
Proof.
  induction a as [|x t IH]; intros b d Hd; [change (zlen (@nil Z)) with 0; rewrite Z.sub_0_r; reflexivity|].
  rewrite zlen_cons in *. pose proof (zlen_nonneg t). cbn [app]. rewrite hnth_cons_S by lia. rewrite IH by lia. f_equal. lia.
Qed.

Lemma hnth_rev l : forall d, 0 <= d < zlen l -> hnth (rev l) d = hnth l (zlen l - 1 - d).
Proof.
  induction l as [|x t IH]; intros d Hd; [change (zlen (@nil Z)) with 0 in Hd; lia|].
  rewrite zlen_cons in *. cbn [rev]. destruct (Z.ltb_spec d (zlen t)) as [Hlt|Hge].
  - rewrite hnth_app_l by (rewrite zlen_rev; lia). rewrite IH by lia.
    rewrite (hnth_cons_S x t) by lia. f_equal. lia.
  - rewrite hnth_app_r by (rewrite zlen_rev; lia). rewrite zlen_rev.
    replace (d - zlen t) with 0 by lia. replace (zlen t + 1 - 1 - d) with 0 by lia. reflexivity.
Qed.

Lemma hnth_ext : forall l1 l2, zlen l1 = zlen l2 -> (forall d, 0 <= d < zlen l1 -> hnth l1 d = hnth l2 d) -> l1 = l2.
Proof.
  induction l1 as [|x t IH]; intros [|y u] Hl Hd; rewrite ?zlen_cons in *; change (zlen (@nil Z)) with 0 in *;
    try (pose proof (zlen_nonneg t)); try (pose proof (zlen_nonneg u)); try lia; [reflexivity|].
  f_equal.
  - specialize (Hd 0 ltac:(lia)). exact Hd.
  - apply IH; [lia|]. intros d Hr. specialize (Hd (d + 1) ltac:(lia)).
    rewrite !hnth_cons_S in Hd by lia. replace (d + 1 - 1) with d in Hd by lia. exact Hd.
Qed.

(* the encoder at position |l1| of the array l1 ++ l2 has the history rev l1 *)
Lemma hist_rel_prefix l1 l2 tot dict hist :
  hist_rel (mkEhist (array_of_list (l1 ++ l2)) tot 0 (zlen l1) dict) hist <-> hist = rev l1.
Proof.
  assert (Hcell : forall d, 0 <= d < zlen l1 ->
            aget 0 (array_of_list (l1 ++ l2)) (zlen l1 - 1 - d) = hnth (rev l1) d).
  { intros d Hd. unfold array_of_list. replace (zlen l1 - 1 - d) with (0 + (zlen l1 - 1 - d)) by lia.
    pose proof (zlen_nonneg l2).
    rewrite aget_aset_list_in by (rewrite ?zlen_app; lia). rewrite hnth_app_l by lia. rewrite hnth_rev by lia. reflexivity. }
  unfold hist_rel, hget; cbn [h_pos h_base h_data]. split.
  - intros (Hl & _ & Hc). apply hnth_ext; [rewrite zlen_rev; lia|].
    intros d Hd. rewrite Hc by lia. apply Hcell. lia.
  - intros ->. rewrite zlen_rev. split; [lia|]. split; [lia|]. intros d Hd. symmetry. apply Hcell. exact Hd.
Qed.

(* ---------------------------------------------------------------------------------------------
   the writer model in terms of the pure decision list *)
Lemma enc_steps_syms syms : forall s s1, enc_steps s syms = Ok s1 ->
  exists evs, enc_syms (es_coder s) (es_hist s) syms = Ok (evs, es_coder s1, es_hist s1) /\
    renc_events (es_rc s) (es_probs s) evs = (es_rc s1, es_probs s1).
Proof.
  induction syms as [|x r IH]; intros s s1 H; cbn [enc_steps] in H.
  - apply Ok_inj in H. subst s1. exists []. split; reflexivity.
  - apply obind_ok in H as (s' & Hstep & H). unfold enc_step in Hstep.
    apply obind_ok in Hstep as ([[e1 c1] h1] & Hsym & Hstep).
    destruct (renc_events (es_rc s) (es_probs s) e1) as [re1 t1] eqn:Ere.
    apply Ok_inj in Hstep. subst s'.
    destruct (IH _ _ H) as (e2 & Hsyms & Hre2). cbn [es_coder es_hist es_rc es_probs] in *.
    exists (e1 ++ e2). cbn [enc_syms]. rewrite Hsym. cbn [obind fst snd]. rewrite Hsyms. cbn [obind fst snd].
    split; [reflexivity|]. rewrite renc_events_app, Ere. exact Hre2.
Qed.

Lemma enc_syms_app l1 : forall c h l2 e1 c1 h1 e2 c2 h2,
  enc_syms c h l1 = Ok (e1, c1, h1) -> enc_syms c1 h1 l2 = Ok (e2, c2, h2) ->
  enc_syms c h (l1 ++ l2) = Ok (e1 ++ e2, c2, h2).
Proof.
  induction l1 as [|x r IH]; intros c h l2 e1 c1 h1 e2 c2 h2 H1 H2; cbn [enc_syms app] in *.
  - apply Ok_inj in H1. apply pair_inj in H1 as [H1 <-]. apply pair_inj in H1 as [<- <-]. exact H2.
  - apply obind_ok in H1 as ([[ea ca] ha] & Hs & H1). cbn [fst snd] in H1.
    apply obind_ok in H1 as ([[eb cb] hb] & Hr & H1). cbn [fst snd] in H1.
    apply Ok_inj in H1. apply pair_inj in H1 as [H1 <-]. apply pair_inj in H1 as [<- <-].
    rewrite Hs. cbn [obind fst snd]. rewrite (IH _ _ _ _ _ _ _ _ _ Hr H2). cbn [obind fst snd].
    rewrite app_assoc. reflexivity.
Qed.

(* every symbol costs at least one coded bit and describes at most 273 bytes *)
Lemma enc_symbol_adv c h s evs c' h' : enc_symbol c h s = Ok (evs, c', h') ->
  h_pos h' - h_pos h <= 273 /\ 1 <= events_bits evs.
Proof.
  intros Hsa. unfold enc_symbol in Hsa. apply obind_ok in Hsa as (km & _ & Hsa).
  destruct s as [b|dist len|idx len|].
  - destruct (negb _); [discriminate|]. apply obind_ok in Hsa as (? & _ & Hsa). apply obind_ok in Hsa as (? & _ & Hsa).
    apply Ok_inj in Hsa. apply pair_inj in Hsa as [Hsa <-]. apply pair_inj in Hsa as [<- _].
    cbn [events_bits ev_bits h_advance h_pos]. match goal with |- context [events_bits ?l] => pose proof (events_bits_nonneg l) end. lia.
  - destruct ((2 <=? len) && (len <=? 273) && copy_valid h dist len) eqn:Ev; cbn [negb] in Hsa; [|discriminate].
    apply andb_true_iff in Ev as [Ev _]. apply andb_true_iff in Ev as [_ Ev]. apply Z.leb_le in Ev.
    apply obind_ok in Hsa as (? & _ & Hsa). apply obind_ok in Hsa as (? & _ & Hsa).
    apply Ok_inj in Hsa. apply pair_inj in Hsa as [Hsa <-]. apply pair_inj in Hsa as [<- _].
    cbn [events_bits ev_bits h_advance h_pos]. match goal with |- context [events_bits ?l] => pose proof (events_bits_nonneg l) end. lia.
  - apply obind_ok in Hsa as (? & _ & Hsa). apply obind_ok in Hsa as (ec & _ & Hsa).
    destruct ((1 <=? len) && (len <=? 273) && copy_valid h (c_rep0 (snd ec)) len) eqn:Ev; cbn [negb] in Hsa; [|discriminate].
    apply andb_true_iff in Ev as [Ev _]. apply andb_true_iff in Ev as [_ Ev]. apply Z.leb_le in Ev.
    apply Ok_inj in Hsa. apply pair_inj in Hsa as [Hsa <-]. apply pair_inj in Hsa as [<- _].
    cbn [events_bits ev_bits h_advance h_pos]. match goal with |- context [events_bits ?l] => pose proof (events_bits_nonneg l) end. lia.
  - apply obind_ok in Hsa as (? & _ & Hsa). apply obind_ok in Hsa as (? & _ & Hsa).
    apply Ok_inj in Hsa. apply pair_inj in Hsa as [Hsa <-]. apply pair_inj in Hsa as [<- _].
    cbn [events_bits ev_bits]. match goal with |- context [events_bits ?l] => pose proof (events_bits_nonneg l) end. lia.
Qed.

Lemma enc_syms_adv r : forall c h evs c' h', enc_syms c h r = Ok (evs, c', h') ->
  h_pos h' - h_pos h <= 273 * events_bits evs.
Proof.
  induction r as [|s r IH]; intros c h evs c' h' H; cbn [enc_syms] in H.
  - apply Ok_inj in H. apply pair_inj in H as [H <-]. apply pair_inj in H as [<- _]. cbn [events_bits]. lia.
  - apply obind_ok in H as ([[ea ca] ha] & Hsa & H). cbn [fst snd] in H.
    apply obind_ok in H as ([[eb cb] hb] & Hsb & H). cbn [fst snd] in H.
    apply Ok_inj in H. apply pair_inj in H as [H <-]. apply pair_inj in H as [<- _].
    rewrite events_bits_app. pose proof (enc_symbol_adv _ _ _ _ _ _ Hsa). pose proof (IH _ _ _ _ _ Hsb). lia.
Qed.

(* ---------------------------------------------------------------------------------------------
   the specification decoder over the decisions of the whole stream *)
Lemma coder_new_reps lc lp pb : reps_nonneg (coder_new lc lp pb).
Proof. unfold reps_nonneg, coder_new; cbn. lia. Qed.

Lemma stream_facts lc lp pb dict preset data syms (marker : bool) W E1 c1 h1 E2 :
  4096 <= dict <= 2147483648 -> bytes_ok preset = true -> bytes_ok data = true -> no_end syms ->
  let p := preset_kept dict preset in
  (dict <= W \/ zlen p + zlen data <= W) -> W <= 4294967296 ->
  enc_syms (coder_new lc lp pb) (ehist_new dict preset data) syms = Ok (E1, c1, h1) ->
  h_pos h1 = h_total h1 ->
  (if marker then exists c2 h2, enc_symbol c1 h1 SEnd = Ok (E2, c2, h2) else E2 = []) ->
  exists sN,
    run_trace (aproduce (length data) (mkAstate (coder_new lc lp pb) (rev p) W 0 0)) (E1 ++ E2)
      = Some (Ok (sN, Ok tt), E2) /\
    fin_ok data (rev p) marker sN E2 /\ h_pos h1 = zlen p + zlen data.
Proof.
  intros Hdict Hbp Hbd Hne p HW HW32 Hsyms Hall Hend.
  set (h0 := ehist_new dict preset data) in *.
  assert (Hh0 : h0 = mkEhist (array_of_list (p ++ data)) (zlen p + zlen data) 0 (zlen p) dict) by reflexivity.
  assert (Hr0 : hist_rel h0 (rev p)) by (rewrite Hh0; apply hist_rel_prefix; reflexivity).
  assert (Hdata0 : data_ok h0) by (apply data_ok_new; assumption).
  pose proof (enc_syms_mono _ _ _ _ _ _ Hsyms) as Hmono.
  destruct (aproduce_syms syms (coder_new lc lp pb) h0 (rev p) W 0 (Z.to_nat (h_pos h1 - h_pos h0)) E1 c1 h1 E2
              Hne Hr0) as (hist' & pd' & Hrun & Hr1 & Hreps1 & Hb1 & Hd1 & Ht1 & Hda1).
  { rewrite Hh0; cbn [h_dict]; lia. }
  { rewrite Hh0; cbn [h_dict h_total h_base]. lia. }
  { exact Hdata0. }
  { apply coder_new_reps. }
  { exact Hsyms. }
  { lia. }
  assert (Hn : Z.to_nat (h_pos h1 - h_pos h0) = length data).
  { rewrite Hall, Ht1, Hh0. cbn [h_total h_pos]. unfold zlen. lia. }
  rewrite Hn in Hrun.
  assert (Hhist : hist' = rev data ++ rev p).
  { rewrite <- rev_app_distr. destruct h1 as [dat tot base pos dct]. cbn [h_pos h_total h_base h_dict h_data] in *.
    rewrite Hh0 in *. cbn [h_pos h_total h_base h_dict h_data] in *. subst dat base dct tot. subst pos.
    rewrite <- zlen_app in Hr1. rewrite <- (app_nil_r (p ++ data)) in Hr1 at 1.
    apply hist_rel_prefix in Hr1. exact Hr1. }
  subst hist'.
  eexists. split; [exact Hrun|].
  split; [|rewrite Hall, Ht1, Hh0; reflexivity].
  split; [reflexivity|]. split; [reflexivity|].
  destruct marker; [|exact Hend].
  destruct Hend as (c2 & h2 & Hsym).
  assert (Hdata1 : data_ok h1) by (intros i; unfold hget; rewrite Hda1; apply Hdata0).
  destruct (sym_abs_step c1 h1 (rev data ++ rev p) SEnd E2 c2 h2 [] Hr1 ltac:(rewrite Hd1, Hh0; cbn [h_dict]; lia)
              Hdata1 Hreps1 Hsym) as (Htr & _ & (_ & Hrep0) & _).
  rewrite app_nil_r in Htr.
  intros j. eexists.
  cbn [aproduce a_pend_len a_coder a_hist a_dict a_pend_dist]. change (0 <? 0) with false. cbv iota.
  rewrite (run_trace_bind_ok _ _ _ _ _ Htr). cbn [fst snd sym_res].
  unfold a_full; cbn [a_hist a_dict].
  assert (Hfar : Z.min (zlen (rev data ++ rev p)) W <= rep_as_usize (c_rep0 c2)).
  { rewrite Hrep0. unfold rep_as_usize, P2_31, P2_64, P2_32. change (4294967295 <? 2147483648) with false. cbv iota. lia. }
  destruct (Z.leb_spec (Z.min (zlen (rev data ++ rev p)) W) (rep_as_usize (c_rep0 c2))); [|lia].
  rewrite run_trace_ret. split; [reflexivity|]. cbn [a_coder a_hist a_pend_len]. repeat split. exact Hrep0.
Qed.

(* ---------------------------------------------------------------------------------------------
   what lzma1_write produced, in terms of the decision list *)
Definition lzma1_header (lc lp pb dict : Z) (expected : option Z) : list Z :=
  props_byte lc lp pb :: le_bytes 4 dict ++
  le_bytes 8 (match expected with Some n => n | None => 18446744073709551615 end).

Definition end_syms (marker : bool) : list sym := if marker then [SEnd] else [].

Lemma lzma1_write_inv lc lp pb dict preset data syms use_header marker expected out :
  lzma1_write lc lp pb dict preset data syms use_header marker expected = Ok out ->
  exists E1 c1 h1 E2 c2 h2,
    enc_syms (coder_new lc lp pb) (ehist_new dict preset data) syms = Ok (E1, c1, h1) /\
    h_pos h1 = h_total h1 /\
    (if marker then exists c2 h2, enc_symbol c1 h1 SEnd = Ok (E2, c2, h2) else E2 = []) /\
    enc_syms (coder_new lc lp pb) (ehist_new dict preset data) (syms ++ end_syms marker) = Ok (E1 ++ E2, c2, h2) /\
    out = (if use_header then lzma1_header lc lp pb dict expected else []) ++
          renc_bytes (renc_finish (fst (renc_events renc_init PLeaf (E1 ++ E2)))).
Proof.
  unfold lzma1_write. intros H.
  apply obind_ok in H as (s1 & Hsteps & H).
  destruct (h_pos (es_hist s1) =? h_total (es_hist s1)) eqn:Hall; cbn [negb] in H; [|discriminate].
  apply Z.eqb_eq in Hall.
  apply obind_ok in H as (s2 & Hs2 & H). apply Ok_inj in H.
  destruct (enc_steps_syms _ _ _ Hsteps) as (E1 & Hsyms & Hre1). cbn [es_coder es_hist es_rc es_probs] in Hsyms, Hre1.
  destruct marker.
  - unfold enc_step in Hs2. apply obind_ok in Hs2 as ([[e2 c2] h2] & Hsym & Hs2).
    destruct (renc_events (es_rc s1) (es_probs s1) e2) as [re2 t2] eqn:Ere2.
    apply Ok_inj in Hs2. subst s2. cbn [es_rc] in H.
    exists E1, (es_coder s1), (es_hist s1), e2, c2, h2.
    split; [exact Hsyms|]. split; [exact Hall|]. split; [exists c2, h2; exact Hsym|].
    split.
    + eapply enc_syms_app; [exact Hsyms|]. cbn [end_syms enc_syms]. rewrite Hsym. cbn [obind fst snd].
      rewrite app_nil_r. reflexivity.
    + rewrite renc_events_app, Hre1. cbn [fst snd]. rewrite Ere2. cbn [fst]. symmetry. exact H.
  - apply Ok_inj in Hs2. subst s2.
    exists E1, (es_coder s1), (es_hist s1), [], (es_coder s1), (es_hist s1).
    split; [exact Hsyms|]. split; [exact Hall|]. split; [reflexivity|].
    split.
    + eapply enc_syms_app; [exact Hsyms|]. reflexivity.
    + rewrite app_nil_r, Hre1. cbn [fst]. symmetry. exact H.
Qed.

(* ---------------------------------------------------------------------------------------------
   construct2: the window size the reader chooses *)
Lemma get_dict_size_ok x : 0 <= x <= DICT_SIZE_MAX ->
  exists r, lzma1_get_dict_size x = Ok r /\ Z.max x 4096 <= r < Z.max x 4096 + 16 /\ r mod 16 = 0.
Proof.
  intros Hx. unfold lzma1_get_dict_size. destruct (Z.ltb_spec DICT_SIZE_MAX x); [lia|].
  eexists. split; [reflexivity|]. lia.
Qed.

Lemma get_dict_size_fix r : 4096 <= r <= DICT_SIZE_MAX -> r mod 16 = 0 -> lzma1_get_dict_size r = Ok r.
Proof.
  intros Hr Hm. unfold lzma1_get_dict_size. destruct (Z.ltb_spec DICT_SIZE_MAX r); [lia|]. f_equal. lia.
Qed.

Lemma construct2_ok input d0 uncomp lc lp pb dict preset :
  0 <= lc <= 8 -> 0 <= lp <= 4 -> 0 <= pb <= 4 -> 4096 <= dict <= 2147483648 ->
  rdec_init input = Ok d0 -> 0 <= uncomp ->
  exists W, lzma1_construct2 input uncomp lc lp pb dict preset
            = Ok (mkLzma1 (coder_new lc lp pb) (lzwin_new W preset) d0 PLeaf false uncomp) /\
    4096 <= W < dict + 16 /\ W mod 16 = 0 /\
    (dict <= W \/ (uncomp <= U64_HALF /\ Z.max uncomp 4096 <= W)).
Proof.
  intros Hlc Hlp Hpb Hdict Hinit Hu. unfold lzma1_construct2.
  destruct (Z.ltb_spec 8 lc); [lia|]. destruct (Z.ltb_spec 4 lp); [lia|]. destruct (Z.ltb_spec 4 pb); [lia|].
  cbn [orb].
  destruct (get_dict_size_ok dict ltac:(unfold DICT_SIZE_MAX; lia)) as (ds & Hds & Hdsr & Hds16).
  rewrite Hds. cbn [obind].
  destruct preset as [pre|].
  { (* with a preset dictionary the buffer is never shrunk *)
    cbn [andb]. cbn [obind]. rewrite Hinit. cbn [obind].
    rewrite (get_dict_size_fix ds) by (unfold DICT_SIZE_MAX; lia). cbn [obind].
    exists ds. split; [reflexivity|]. split; [lia|]. split; [exact Hds16|]. left. lia. }
  destruct (Z.leb_spec uncomp U64_HALF) as [Hh|Hh]; [destruct (Z.ltb_spec uncomp ds) as [Hlt|Hge]|]; cbn [andb].
  - assert (Hw : wrap32 uncomp = uncomp) by (unfold wrap32; rewrite Z.mod_small; lia).
    rewrite Hw.
    destruct (get_dict_size_ok uncomp ltac:(unfold DICT_SIZE_MAX; lia)) as (ds1 & Hds1 & Hds1r & Hds116).
    rewrite Hds1. cbn [obind]. rewrite Hinit. cbn [obind].
    rewrite (get_dict_size_fix ds1) by (unfold DICT_SIZE_MAX; lia). cbn [obind].
    exists ds1. split; [reflexivity|]. split; [lia|]. split; [exact Hds116|]. right. lia.
  - cbn [obind]. rewrite Hinit. cbn [obind].
    rewrite (get_dict_size_fix ds) by (unfold DICT_SIZE_MAX; lia). cbn [obind].
    exists ds. split; [reflexivity|]. split; [lia|]. split; [exact Hds16|]. left. lia.
  - cbn [obind]. rewrite Hinit. cbn [obind].
    rewrite (get_dict_size_fix ds) by (unfold DICT_SIZE_MAX; lia). cbn [obind].
    exists ds. split; [reflexivity|]. split; [lia|]. split; [exact Hds16|]. left. lia.
Qed.

Lemma coder_new_ok lc lp pb full : 0 <= lc <= 8 -> 0 <= lp <= 4 -> 0 <= pb <= 4 -> coder_ok (coder_new lc lp pb) full.
Proof.
  intros Hlc Hlp Hpb. unfold coder_ok, params_ok, coder_new, reps_nonneg; cbn [c_lc c_lp c_pb c_state c_rep0 c_rep1 c_rep2 c_rep3].
  repeat split; try lia. intros H. discriminate.
Qed.

(* ---------------------------------------------------------------------------------------------
   the window LZDecoder::new builds from a preset dictionary *)
Lemma lastn_length {A} n (l : list A) : (n <= length l)%nat -> length (lastn n l) = n.
Proof. intros H. unfold lastn. rewrite skipn_length. lia. Qed.

Lemma lzwin_new_preset_rel W preset : 0 < W -> W mod 16 = 0 ->
  Rel (lzwin_new W (Some preset)) (rev (lastn (Z.to_nat (Z.min (zlen preset) W)) preset)).
Proof.
  intros HW H16. unfold lzwin_new. set (n := Z.min (zlen preset) W). set (q := lastn (Z.to_nat n) preset).
  pose proof (zlen_nonneg preset) as Hp0.
  assert (Hq : zlen q = n) by (unfold zlen, q; rewrite lastn_length; unfold n, zlen in *; lia).
  assert (Hh : zlen (rev q) = n) by (rewrite zlen_rev; exact Hq).
  constructor; cbn [w_buf w_size w_start w_pos w_full w_limit w_pending_len]; rewrite ?Hh.
  - split; assumption.
  - unfold n. lia.
  - unfold n. lia.
  - lia.
  - reflexivity.
  - intros d Hd. unfold widx, bget; cbn [w_pos w_size w_buf].
    destruct (Z.leb_spec n d); [lia|].
    replace (n - d - 1) with (0 + (n - 1 - d)) by lia.
    rewrite aget_aset_list_in by lia. rewrite hnth_rev by lia. rewrite Hq. reflexivity.
  - intros Hz. assert (q = []) by (destruct q; [reflexivity | rewrite zlen_cons in Hq; pose proof (zlen_nonneg q); lia]).
    unfold bget; cbn [w_buf]. rewrite H. cbn [aset_list]. unfold aget. rewrite pget_leaf. reflexivity.
  - lia.
Qed.

Definition preset_list (popt : option (list Z)) : list Z := match popt with Some p => p | None => [] end.

Lemma preset_kept_length dict preset : 0 <= dict -> zlen (preset_kept dict preset) = Z.min (zlen preset) dict.
Proof.
  intros Hd. unfold preset_kept, zlen. rewrite lastn_length by lia. lia.
Qed.

(* the reader's initial window represents the part of the preset the encoder kept *)
Lemma lzwin_new_start W dict popt : 0 < W -> W mod 16 = 0 ->
  Z.min (zlen (preset_list popt)) W = Z.min (zlen (preset_list popt)) dict ->
  let w0 := lzwin_new W popt in
  Rel w0 (rev (preset_kept dict (preset_list popt))) /\ w_start w0 = w_pos w0 /\ w_size w0 = W /\
  w_pending_len w0 = 0 /\ w_pending_dist w0 = 0.
Proof.
  intros HW H16 Hmin. destruct popt as [preset|]; cbn [preset_list] in *.
  - split; [|repeat split; reflexivity].
    unfold preset_kept. rewrite <- Hmin. apply lzwin_new_preset_rel; assumption.
  - split; [|repeat split; reflexivity]. apply lzwin_new_rel; assumption.
Qed.

(* ---------------------------------------------------------------------------------------------
   from the constructed reader to the end of the stream *)
Lemma reader_roundtrip lc lp pb dict preset data syms (marker : bool) E1 c1 h1 E2 cE hE W w0 tail :
  0 <= lc <= 8 -> 0 <= lp <= 4 -> 0 <= pb <= 4 -> 4096 <= dict <= 2147483648 ->
  bytes_ok preset = true -> bytes_ok data = true -> no_end syms ->
  enc_syms (coder_new lc lp pb) (ehist_new dict preset data) syms = Ok (E1, c1, h1) ->
  h_pos h1 = h_total h1 ->
  (if marker then exists c2 h2, enc_symbol c1 h1 SEnd = Ok (E2, c2, h2) else E2 = []) ->
  enc_syms (coder_new lc lp pb) (ehist_new dict preset data) (syms ++ end_syms marker) = Ok (E1 ++ E2, cE, hE) ->
  events_bits (E1 ++ E2) <= RC_MAX_BITS ->
  let p := preset_kept dict preset in
  (dict <= W \/ zlen p + zlen data <= W) -> W <= 4294967296 ->
  Rel w0 (rev p) -> w_start w0 = w_pos w0 -> w_size w0 = W ->
  w_pending_len w0 = 0 -> w_pending_dist w0 = 0 ->
  let body := renc_bytes (renc_finish (fst (renc_events renc_init PLeaf (E1 ++ E2)))) in
  let uncomp := if marker then U64_MAX else zlen data in
  exists d0, rdec_init (body ++ tail) = Ok d0 /\ zlen data <= U64_HALF /\
    forall sizes fuel, Forall (fun z => 0 < z) sizes -> zlen data + 2 <= Z.of_nat fuel ->
    exists s_end,
      lzma1_read_all fuel (mkLzma1 (coder_new lc lp pb) w0 d0 PLeaf false uncomp) sizes sizes [] = Ok (data, s_end) /\
      lzma1_unconsumed s_end = tail.
Proof.
  intros Hlc Hlp Hpb Hdict Hbp Hbd Hne Hsyms Hall Hend Hfull Hbits p HW HW32 R0 Hst0 Hsz0 Hpl0 Hpd0 body uncomp.
  assert (Hok : forallb RangeEncProofs.ev_ok (E1 ++ E2) = true).
  { rewrite forallb_ev_ok_same. eapply enc_syms_events_ok; [|exact Hfull]. cbn [ehist_new h_dict]. lia. }
  destruct (rc_sim_init (E1 ++ E2) PLeaf tail probs_ok_empty Hok Hbits) as (d0 & Hinit & Hsim).
  exists d0. split; [exact Hinit|].
  destruct (stream_facts lc lp pb dict preset data syms marker W E1 c1 h1 E2 Hdict Hbp Hbd Hne HW HW32 Hsyms Hall Hend)
    as (sN & Hrun & Hfin & Hpos1).
  assert (Hsmall : zlen data <= U64_HALF).
  { pose proof (enc_syms_adv _ _ _ _ _ _ Hsyms) as Hadv. rewrite Hpos1 in Hadv. cbn [ehist_new h_pos] in Hadv.
    fold p in Hadv. rewrite events_bits_app in Hbits. pose proof (events_bits_nonneg E2).
    unfold RC_MAX_BITS in Hbits. unfold U64_HALF. lia. }
  split; [exact Hsmall|].
  intros sizes fuel Hsizes Hfuel.
  set (s0 := mkLzma1 (coder_new lc lp pb) w0 d0 PLeaf false uncomp).
  assert (HI : InvG (E1 ++ E2) tail W data (rev p) marker false 0 s0).
  { split; [lia|]. exists (rev p), [], (E1 ++ E2), sN, E2.
    unfold s0; cbn [l_coder l_win l_rc l_probs l_end_reached l_remaining].
    split; [reflexivity|]. split; [exact Hsim|]. split; [exact R0|]. split; [exact Hst0|].
    split; [intros; discriminate|].
    split; [exact Hsz0|]. split; [apply coder_new_ok; assumption|]. split; [intros; lia|].
    split; [rewrite Nat.sub_0_r, Hsz0, Hpl0, Hpd0; exact Hrun|]. split; [exact Hfin|]. split; [reflexivity|].
    unfold uncomp. destruct marker; [reflexivity|]. rewrite Nat.sub_0_r. reflexivity. }
  destruct (read_all_steps (E1 ++ E2) tail W data (rev p) marker Hsmall fuel false 0 s0 sizes sizes [] HI Hsizes Hsizes)
    as (s_end & Hra & (_ & Hin)).
  { unfold zlen in Hfuel. lia. }
  exists s_end. rewrite Hra. cbn [rev app]. rewrite Nat.sub_0_r, seg_all. split; [reflexivity | exact Hin].
Qed.

(* ---------------------------------------------------------------------------------------------
   the general form: optional preset dictionary, the stream after the optional header *)
Definition preset_hyps (dict : Z) (preset data : list Z) (marker : bool) : Prop :=
  (* both sides keep the same part of the preset (the reader rounds the dictionary size up to a
     multiple of 16, the encoder does not) *)
  (zlen preset <= dict \/ dict mod 16 = 0) /\
  (* a declared size below the dictionary size shrinks the reader's window to that size: what
     matches may reach (preset and data) must still fit *)
  (marker = true \/ dict <= zlen data \/ zlen preset + zlen data <= Z.max (zlen data) 4096).

Lemma preset_hyps_none dict data marker : 0 <= dict -> preset_hyps dict [] data marker.
Proof.
  intros Hd. split; [left; change (zlen (@nil Z)) with 0; lia|]. right. right. change (zlen (@nil Z)) with 0. lia.
Qed.

Theorem lzma1_roundtrip_body : forall lc lp pb dict popt data syms use_header use_end_marker expected stream tail sizes,
  0 <= lc <= 8 -> 0 <= lp <= 4 -> 0 <= pb <= 4 -> 4096 <= dict <= 2147483648 ->
  let preset := preset_list popt in
  bytes_ok preset = true -> bytes_ok data = true -> no_end syms ->
  preset_hyps dict preset data use_end_marker ->
  lzma1_write lc lp pb dict preset data syms use_header use_end_marker expected = Ok stream ->
  (forall E c' h', enc_syms (coder_new lc lp pb) (ehist_new dict preset data) (syms ++ end_syms use_end_marker) = Ok (E, c', h') ->
     events_bits E <= RC_MAX_BITS) ->
  Forall (fun z => 0 < z) sizes ->
  let uncomp := if use_end_marker then U64_MAX else zlen data in
  exists body s0,
    stream = (if use_header then lzma1_header lc lp pb dict expected else []) ++ body /\
    lzma1_construct2 (body ++ tail) uncomp lc lp pb dict popt = Ok s0 /\ zlen data <= U64_HALF /\
    forall fuel, zlen data + 2 <= Z.of_nat fuel ->
    exists s_end, lzma1_read_all fuel s0 sizes sizes [] = Ok (data, s_end) /\ lzma1_unconsumed s_end = tail.
Proof.
  intros lc lp pb dict popt data syms use_header marker expected stream tail sizes Hlc Hlp Hpb Hdict preset
         Hbp Hbd Hne (HP1 & HP2) Hw Hbits Hsizes uncomp.
  destruct (lzma1_write_inv _ _ _ _ _ _ _ _ _ _ _ Hw) as (E1 & c1 & h1 & E2 & cE & hE & Hsyms & Hall & Hend & Hfull & ->).
  specialize (Hbits _ _ _ Hfull).
  assert (Hu : 0 <= uncomp) by (unfold uncomp, U64_MAX; destruct marker; [lia | apply zlen_nonneg]).
  assert (Hok : forallb RangeEncProofs.ev_ok (E1 ++ E2) = true).
  { rewrite forallb_ev_ok_same. eapply enc_syms_events_ok; [|exact Hfull]. cbn [ehist_new h_dict]. lia. }
  destruct (rc_sim_init (E1 ++ E2) PLeaf tail probs_ok_empty Hok Hbits) as (d0 & Hinit & _).
  destruct (construct2_ok _ d0 uncomp lc lp pb dict popt Hlc Hlp Hpb Hdict Hinit Hu) as (W & Hc2 & HWr & HW16 & HWd).
  pose proof (zlen_nonneg preset) as Hp0. pose proof (zlen_nonneg data) as Hd0.
  assert (HuM : marker = true -> ~ uncomp <= U64_HALF) by (intros ->; unfold uncomp, U64_MAX, U64_HALF; lia).
  assert (HuD : marker = false -> uncomp = zlen data) by (intros ->; reflexivity).
  assert (Hmin : Z.min (zlen preset) W = Z.min (zlen preset) dict).
  { destruct HWd as [HWd|(Hh & HWd)].
    - destruct HP1 as [HP1|HP1]; lia.
    - destruct marker; [exfalso; apply HuM; [reflexivity | exact Hh]|]. rewrite (HuD eq_refl) in HWd.
      destruct HP2 as [HP2|[HP2|HP2]]; [discriminate | destruct HP1 as [HP1|HP1]; lia | lia]. }
  assert (HWfit : dict <= W \/ zlen (preset_kept dict preset) + zlen data <= W).
  { rewrite preset_kept_length by lia. destruct HWd as [HWd|(Hh & HWd)]; [left; exact HWd|].
    destruct marker; [exfalso; apply HuM; [reflexivity | exact Hh]|]. rewrite (HuD eq_refl) in HWd.
    destruct HP2 as [HP2|[HP2|HP2]]; [discriminate | left; lia | right; lia]. }
  destruct (lzwin_new_start W dict popt ltac:(lia) HW16 Hmin) as (R0 & Hst0 & Hsz0 & Hpl0 & Hpd0).
  destruct (reader_roundtrip lc lp pb dict preset data syms marker E1 c1 h1 E2 cE hE W (lzwin_new W popt) tail
              Hlc Hlp Hpb Hdict Hbp Hbd Hne Hsyms Hall Hend Hfull Hbits HWfit ltac:(lia) R0 Hst0 Hsz0 Hpl0 Hpd0)
    as (d0' & Hinit' & Hsmall & Hread).
  rewrite Hinit in Hinit'. apply Ok_inj in Hinit'. subst d0'.
  eexists. eexists. split; [reflexivity|]. split; [exact Hc2|]. split; [exact Hsmall|].
  intros fuel Hfuel. exact (Hread sizes fuel Hsizes Hfuel).
Qed.

(* ---------------------------------------------------------------------------------------------
   END-TO-END, raw stream (no .lzma header, no preset dictionary): whatever destination sizes the
   caller uses, LZMAReader returns exactly the data and leaves exactly [tail] unread - with an end
   marker (size unknown) and with a declared size and no marker.
   The bound on the number of coded bits (the u32 pending-byte counter of the range encoder, see
   RangeProofs.v) is stated on the decision list of the symbols (plus the end marker). *)
Theorem lzma1_roundtrip_raw : forall lc lp pb dict data syms use_end_marker stream tail sizes,
  0 <= lc <= 8 -> 0 <= lp <= 4 -> 0 <= pb <= 4 -> 4096 <= dict <= 2147483648 ->
  bytes_ok data = true -> no_end syms ->
  lzma1_write lc lp pb dict [] data syms false use_end_marker None = Ok stream ->
  (forall E c' h', enc_syms (coder_new lc lp pb) (ehist_new dict [] data) (syms ++ end_syms use_end_marker) = Ok (E, c', h') ->
     events_bits E <= RC_MAX_BITS) ->
  Forall (fun z => 0 < z) sizes ->
  let uncomp := if use_end_marker then U64_MAX else zlen data in
  exists s0, lzma1_construct2 (stream ++ tail) uncomp lc lp pb dict None = Ok s0 /\
    forall fuel, zlen data + 2 <= Z.of_nat fuel ->
    exists s_end, lzma1_read_all fuel s0 sizes sizes [] = Ok (data, s_end) /\ lzma1_unconsumed s_end = tail.
Proof.
  intros lc lp pb dict data syms marker stream tail sizes Hlc Hlp Hpb Hdict Hbd Hne Hw Hbits Hsizes uncomp.
  destruct (lzma1_roundtrip_body lc lp pb dict None data syms false marker None stream tail sizes Hlc Hlp Hpb Hdict
              eq_refl Hbd Hne (preset_hyps_none dict data marker ltac:(lia)) Hw Hbits Hsizes)
    as (body & s0 & Hst & Hc2 & _ & Hread).
  cbn [app] in Hst. subst body. exists s0. split; [exact Hc2 | exact Hread].
Qed.

(* the same with a preset dictionary *)
Theorem lzma1_roundtrip_preset : forall lc lp pb dict preset data syms use_end_marker stream tail sizes,
  0 <= lc <= 8 -> 0 <= lp <= 4 -> 0 <= pb <= 4 -> 4096 <= dict <= 2147483648 ->
  bytes_ok preset = true -> bytes_ok data = true -> no_end syms ->
  preset_hyps dict preset data use_end_marker ->
  lzma1_write lc lp pb dict preset data syms false use_end_marker None = Ok stream ->
  (forall E c' h', enc_syms (coder_new lc lp pb) (ehist_new dict preset data) (syms ++ end_syms use_end_marker) = Ok (E, c', h') ->
     events_bits E <= RC_MAX_BITS) ->
  Forall (fun z => 0 < z) sizes ->
  let uncomp := if use_end_marker then U64_MAX else zlen data in
  exists s0, lzma1_construct2 (stream ++ tail) uncomp lc lp pb dict (Some preset) = Ok s0 /\
    forall fuel, zlen data + 2 <= Z.of_nat fuel ->
    exists s_end, lzma1_read_all fuel s0 sizes sizes [] = Ok (data, s_end) /\ lzma1_unconsumed s_end = tail.
Proof.
  intros lc lp pb dict preset data syms marker stream tail sizes Hlc Hlp Hpb Hdict Hbp Hbd Hne HP Hw Hbits Hsizes uncomp.
  destruct (lzma1_roundtrip_body lc lp pb dict (Some preset) data syms false marker None stream tail sizes Hlc Hlp Hpb Hdict
              Hbp Hbd Hne HP Hw Hbits Hsizes)
    as (body & s0 & Hst & Hc2 & _ & Hread).
  cbn [app] in Hst. subst body. exists s0. split; [exact Hc2 | exact Hread].
Qed.

(* ---------------------------------------------------------------------------------------------
   the 13-byte .lzma header *)
Lemma props_byte_val lc lp pb : 0 <= lc <= 8 -> 0 <= lp <= 4 -> 0 <= pb <= 4 ->
  props_byte lc lp pb = (pb * 5 + lp) * 9 + lc.
Proof. intros. unfold props_byte, wrap8. rewrite Z.mod_small; lia. Qed.

Lemma memory_usage_by_props_eq dict lc lp pb : 0 <= lc <= 8 -> 0 <= lp <= 4 -> 0 <= pb <= 4 -> dict <= DICT_SIZE_MAX ->
  lzma1_memory_usage_by_props dict (props_byte lc lp pb) = lzma1_memory_usage dict lc lp.
Proof.
  intros Hlc Hlp Hpb Hd. unfold lzma1_memory_usage_by_props. rewrite props_byte_val by assumption.
  destruct (Z.ltb_spec DICT_SIZE_MAX dict); [lia|]. destruct (Z.ltb_spec 224 ((pb * 5 + lp) * 9 + lc)); [lia|].
  cbv zeta.
  replace (((pb * 5 + lp) * 9 + lc) mod 45) with (lp * 9 + lc) by lia.
  replace ((lp * 9 + lc) / 9) with lp by lia. replace (lp * 9 + lc - lp * 9) with lc by lia. reflexivity.
Qed.

Lemma construct1_eq input uncomp lc lp pb dict popt :
  0 <= lc <= 8 -> 0 <= lp <= 4 -> 0 <= pb <= 4 -> dict <= DICT_SIZE_MAX ->
  lzma1_construct1 input uncomp (props_byte lc lp pb) dict popt = lzma1_construct2 input uncomp lc lp pb dict popt.
Proof.
  intros Hlc Hlp Hpb Hd. unfold lzma1_construct1. rewrite props_byte_val by assumption.
  destruct (Z.ltb_spec 224 ((pb * 5 + lp) * 9 + lc)); [lia|]. cbv zeta.
  destruct (Z.ltb_spec DICT_SIZE_MAX dict); [lia|].
  replace (((pb * 5 + lp) * 9 + lc) / 45) with pb by lia.
  replace ((pb * 5 + lp) * 9 + lc - pb * 45) with (lp * 9 + lc) by lia.
  replace ((lp * 9 + lc) / 9) with lp by lia. replace (lp * 9 + lc - lp * 9) with lc by lia. reflexivity.
Qed.

Lemma header_parse lc lp pb dict expected rest mem popt need :
  0 <= lc <= 8 -> 0 <= lp <= 4 -> 0 <= pb <= 4 -> 0 <= dict <= 4294967280 ->
  let u := match expected with Some n => n | None => 18446744073709551615 end in
  0 <= u < 18446744073709551616 ->
  lzma1_memory_usage dict lc lp = Ok need -> need <= mem ->
  lzma1_new_mem_limit (lzma1_header lc lp pb dict expected ++ rest) mem popt
  = lzma1_construct2 rest u lc lp pb dict popt.
Proof.
  intros Hlc Hlp Hpb Hdict u Hu Hmem Hneed.
  pose proof (le_value_bytes 4 dict ltac:(change (256 ^ Z.of_nat 4) with 4294967296; lia)) as H4.
  pose proof (le_value_bytes 8 u ltac:(change (256 ^ Z.of_nat 8) with 18446744073709551616; lia)) as H8.
  unfold lzma1_new_mem_limit, lzma1_header. fold u. cbn [le_bytes app] in *.
  rewrite H4, H8.
  rewrite memory_usage_by_props_eq by (unfold DICT_SIZE_MAX; lia). rewrite Hmem. cbn [obind].
  destruct (Z.ltb_spec mem need); [lia|].
  apply construct1_eq; try assumption. unfold DICT_SIZE_MAX; lia.
Qed.

(* END-TO-END with the .lzma header (LZMAReader::new_mem_limit), optional preset dictionary *)
Theorem lzma1_roundtrip_header : forall lc lp pb dict popt data syms use_end_marker stream tail sizes mem_limit_kb need,
  0 <= lc <= 8 -> 0 <= lp <= 4 -> 0 <= pb <= 4 -> 4096 <= dict <= 2147483648 ->
  let preset := preset_list popt in
  bytes_ok preset = true -> bytes_ok data = true -> no_end syms ->
  preset_hyps dict preset data use_end_marker ->
  lzma1_write lc lp pb dict preset data syms true use_end_marker
              (if use_end_marker then None else Some (zlen data)) = Ok stream ->
  (forall E c' h', enc_syms (coder_new lc lp pb) (ehist_new dict preset data) (syms ++ end_syms use_end_marker) = Ok (E, c', h') ->
     events_bits E <= RC_MAX_BITS) ->
  Forall (fun z => 0 < z) sizes ->
  lzma1_memory_usage dict lc lp = Ok need -> need <= mem_limit_kb ->
  exists s0, lzma1_new_mem_limit (stream ++ tail) mem_limit_kb popt = Ok s0 /\
    forall fuel, zlen data + 2 <= Z.of_nat fuel ->
    exists s_end, lzma1_read_all fuel s0 sizes sizes [] = Ok (data, s_end) /\ lzma1_unconsumed s_end = tail.
Proof.
  intros lc lp pb dict popt data syms marker stream tail sizes mem need Hlc Hlp Hpb Hdict preset Hbp Hbd Hne HP Hw Hbits
         Hsizes Hmem Hneed.
  destruct (lzma1_roundtrip_body lc lp pb dict popt data syms true marker _ stream tail sizes Hlc Hlp Hpb Hdict
              Hbp Hbd Hne HP Hw Hbits Hsizes)
    as (body & s0 & Hst & Hc2 & Hsmall & Hread).
  exists s0. split; [|exact Hread]. subst stream. rewrite <- app_assoc.
  pose proof (zlen_nonneg data) as Hd0.
  rewrite (header_parse lc lp pb dict _ (body ++ tail) mem popt need Hlc Hlp Hpb ltac:(lia)); try assumption.
  - rewrite <- Hc2. destruct marker; reflexivity.
  - destruct marker; [lia | unfold U64_HALF in Hsmall; lia].
Qed.

(* a destination of length 0 (or less) reads nothing and changes nothing, in every state *)
Theorem lzma1_read_zero : forall s buflen, buflen <= 0 -> lzma1_read s buflen = Ok ([], s).
Proof. exact read_zero. Qed.

(* after the end was reported every further read returns Ok(0) *)
Theorem lzma1_read_after_end : forall s buflen, l_end_reached s = true -> lzma1_read s buflen = Ok ([], s).
Proof. exact read_ended. Qed.

(* ---------------------------------------------------------------------------------------------
   non-vacuity: a small stream, the hypotheses of the theorems on it, and the pipeline evaluated *)
Definition ex_data : list Z := [97; 98; 97; 98; 97; 98; 99].
Definition ex_syms : list sym := [SLit 97; SLit 98; SMatch 1 4; SLit 99].

Definition run_raw (lc lp pb dict : Z) (popt : option (list Z)) (data : list Z) (syms : list sym) (marker : bool)
           (tail sizes : list Z) (fuel : nat) : outcome (list Z * list Z) :=
  do stream <- lzma1_write lc lp pb dict (preset_list popt) data syms false marker None;
  do s0 <- lzma1_construct2 (stream ++ tail) (if marker then U64_MAX else zlen data) lc lp pb dict popt;
  do r <- lzma1_read_all fuel s0 sizes sizes [];
  Ok (fst r, lzma1_unconsumed (snd r)).

Lemma ex_no_end : no_end ex_syms.
Proof. intros s [<-|[<-|[<-|[<-|[]]]]]; discriminate. Qed.

Example lzma1_roundtrip_raw_hyps : forall marker : bool,
  bytes_ok ex_data = true /\ no_end ex_syms /\
  (exists stream, lzma1_write 3 0 2 4096 [] ex_data ex_syms false marker None = Ok stream) /\
  (forall E c' h', enc_syms (coder_new 3 0 2) (ehist_new 4096 [] ex_data) (ex_syms ++ end_syms marker) = Ok (E, c', h') ->
     events_bits E <= RC_MAX_BITS) /\
  Forall (fun z => 0 < z) [1; 3].
Proof.
  intros marker. split; [reflexivity|]. split; [exact ex_no_end|].
  split; [destruct marker; eexists; vm_compute; reflexivity|].
  split; [|repeat constructor].
  intros E c' h' H.
  assert (Hb : match enc_syms (coder_new 3 0 2) (ehist_new 4096 [] ex_data) (ex_syms ++ end_syms marker) with
               | Ok (E, _, _) => events_bits E <= RC_MAX_BITS
               | _ => True
               end) by (destruct marker; vm_compute; discriminate).
  rewrite H in Hb. exact Hb.
Qed.

Example lzma1_example_run :
  run_raw 3 0 2 4096 None ex_data ex_syms true [1; 2; 3] [1; 3] 20 = Ok (ex_data, [1; 2; 3]) /\
  run_raw 3 0 2 4096 None ex_data ex_syms false [1; 2; 3] [1; 3] 20 = Ok (ex_data, [1; 2; 3]) /\
  run_raw 3 0 2 4096 None ex_data ex_syms false [] [4096] 20 = Ok (ex_data, []).
Proof. vm_compute. repeat split; reflexivity. Qed.

(* a preset dictionary that fills the window exactly (the first iteration produces nothing) *)
Definition ex_preset (n : nat) : list Z := map (fun i => i mod 251) (zrange 0 n).

Example lzma1_example_run_preset :
  run_raw 3 0 2 4096 (Some (ex_preset 4096)) [0; 1; 2; 7] [SMatch 4095 3; SLit 7] false [5] [16] 20 = Ok ([0; 1; 2; 7], [5]) /\
  run_raw 3 0 2 4096 (Some (ex_preset 4096)) [0; 1; 2; 7] [SMatch 4095 3; SLit 7] true [5] [1] 20 = Ok ([0; 1; 2; 7], [5]).
Proof. vm_compute. split; reflexivity. Qed.

Example lzma1_roundtrip_preset_hyps :
  preset_hyps 4096 (ex_preset 4096) [0; 1; 2; 7] true /\ preset_hyps 8192 (ex_preset 100) [0; 1; 2; 7] false /\
  bytes_ok (ex_preset 4096) = true.
Proof.
  split; [|split].
  - split; [left; vm_compute; discriminate | left; reflexivity].
  - split; [left; vm_compute; discriminate | right; right; vm_compute; discriminate].
  - vm_compute. reflexivity.
Qed.

(* ---------------------------------------------------------------------------------------------
   History of the second clause of [preset_hyps].  Before the /repo fix ef8562d, LZMAReader's
   construct2 replaced the dictionary size by a smaller declared size BEFORE LZDecoder::new copied
   the preset dictionary, so only the last buf_size bytes of the preset were kept and a match
   reaching further back (valid for the encoder, whose window is dict_size) was rejected with the
   error of lz.repeat.  Witness found by this proof and replayed on the real code: dict_size 8192,
   a 5000-byte preset, data that copies the start of the preset, declared size = length of the
   data.  The model follows the repaired code (no shrinking when a preset is given); the same
   witness now reads back correctly, which is checked here by evaluation. *)
Example lzma1_preset_declared_size_fixed :
  exists stream s0,
    lzma1_write 3 0 2 8192 (ex_preset 5000) [0; 1; 2] [SMatch 4999 3] false false None = Ok stream /\
    lzma1_construct2 stream 3 3 0 2 8192 (Some (ex_preset 5000)) = Ok s0 /\
    exists s1, lzma1_read s0 16 = Ok ([0; 1; 2], s1).
Proof.
  eexists. eexists. split; [vm_compute; reflexivity|]. split; [vm_compute; reflexivity|].
  eexists. vm_compute. reflexivity.
Qed.

Example lzma1_preset_declared_size_marker_ok :
  run_raw 3 0 2 8192 (Some (ex_preset 5000)) [0; 1; 2] [SMatch 4999 3] true [] [16] 20 = Ok ([0; 1; 2], []).
Proof. vm_compute. reflexivity. Qed.

Print Assumptions lzma1_roundtrip_raw.
Print Assumptions lzma1_roundtrip_preset.
Print Assumptions lzma1_roundtrip_header.
Print Assumptions lzma1_read_zero.
