(* Codec/RangeDecProofs.v — the range decoder of Codec/Range.v, run over the encoder's final
   output, follows the encoder state by state (DESIGN.md 4.1, step 3): after its (lazy)
   normalisation the decoder has read exactly as many bytes as the encoder state has digits, its
   range is the encoder's range and its code is the distance of the bytes read from the
   encoder's lower end.  Proofs only. *)
From LzVerif Require Import Base.Bytes Codec.Store Codec.Range Codec.ProbProofs Codec.RangeArithProofs.
From LzVerif Require Import Codec.LzmaDec Codec.LzmaEnc Codec.RangeEncProofs.
Ltac Zify.zify_post_hook ::= Z.div_mod_to_equations.

(* decoder state d corresponds to encoder state e, reading [out ++ tail] *)
Definition dec_match (out tail : list Z) (d : rdec) (e : renc) : Prop :=
  rd_range d = re_range e /\ rd_over d = 0 /\
  exists read unread, out = read ++ unread /\ zlen read = enc_digits e /\
    rd_in d = unread ++ tail /\ rd_code d = be_val read - enc_V e.

Lemma dec_code_range out tail d e :
  dec_match out tail d e -> renc_fut out e -> bytes_ok out = true -> 0 <= rd_code d < re_range e.
Proof.
  intros (Hr & Ho & read & unread & Hout & Hlen & Hin & Hcode) [Hd Hf] Hb.
  subst out. apply bytes_ok_app in Hb as [_ Hbu].
  rewrite be_val_app, zlen_app in Hf. rewrite zlen_app in Hd.
  replace (zlen read + zlen unread - enc_digits e) with (zlen unread) in Hf by lia.
  pose proof (be_val_bound unread Hbu) as HT.
  assert (HM : 0 < 256 ^ zlen unread) by (apply Z.pow_pos_nonneg; [lia | apply zlen_nonneg]).
  rewrite Hcode.
  apply (code_in_interval (256 ^ zlen unread) (be_val unread)); [exact HM | exact HT | lia].
Qed.

(* the decoder's lazy normalisation catches up with the encoder's eager one *)
Lemma dec_norm_match out tail d e :
  dec_match out tail d e -> renc_inv1 e -> re_cache_size e + 1 < 4294967296 ->
  renc_fut out (renc_normalize e) -> bytes_ok out = true ->
  dec_match out tail (rdec_normalize d) (renc_normalize e).
Proof.
  intros Hm HI Hs Hf Hb.
  pose proof (renc_fut_norm_back out e Hf HI Hs) as Hf0.
  pose proof (dec_code_range out tail d e Hm Hf0 Hb) as Hc.
  destruct Hm as (Hr & Ho & read & unread & Hout & Hlen & Hin & Hcode).
  destruct (renc_normalize_ok e HI Hs) as (_ & _ & [(Hlt & HV & HR & HD) | (Hge & Heq)]).
  - destruct Hf as [Hd _]. rewrite HD in Hd.
    destruct unread as [|b u].
    { subst out. rewrite app_nil_r in Hd. lia. }
    assert (Hbb : 0 <= b < 256).
    { subst out. apply bytes_ok_app in Hb as [_ Hb]. apply bytes_ok_cons in Hb. tauto. }
    destruct HI as [_ HR16].
    unfold rdec_normalize, rdec_read. rewrite Hr, Hin. cbn [app].
    replace (re_range e <? P2_24) with true by (symmetry; apply Z.ltb_lt; unfold P2_24; lia).
    cbn [rd_in rd_over rd_range rd_code].
    unfold wrap32. rewrite !Z.mod_small by lia. rewrite lor_shift8 by lia.
    split; [cbn [rd_range]; lia|]. split; [exact Ho|].
    exists (read ++ [b]), u. cbn [rd_in rd_code].
    split; [subst out; rewrite <- app_assoc; reflexivity|].
    split; [rewrite zlen_app, zlen_cons, zlen_nil; lia|].
    split; [reflexivity|]. rewrite be_val_snoc. lia.
  - rewrite Heq. unfold rdec_normalize. rewrite Hr.
    replace (re_range e <? P2_24) with false by (symmetry; apply Z.ltb_ge; unfold P2_24; lia).
    split; [exact Hr|]. split; [exact Ho|]. exists read, unread. tauto.
Qed.

Lemma dec_match_normalized out tail d e :
  dec_match out tail d e -> renc_inv e -> rdec_normalize d = d.
Proof.
  intros (Hr & _) [_ HR]. unfold rdec_normalize. rewrite Hr.
  replace (re_range e <? P2_24) with false by (symmetry; apply Z.ltb_ge; unfold P2_24; lia). reflexivity.
Qed.

(* a narrowing step of the encoder, seen from the decoder: the code after subtracting the
   offset is again inside the new interval *)
Lemma dec_step_match out tail d e off R1 :
  dec_match out tail d e ->
  dec_match out tail (mkRdec R1 (rd_code d - off) (rd_in d) (rd_over d)) (enc_step e off R1).
Proof.
  intros (Hr & Ho & read & unread & Hout & Hlen & Hin & Hcode).
  split; [reflexivity|]. split; [exact Ho|]. exists read, unread. cbn [rd_in rd_code].
  split; [exact Hout|]. split; [exact Hlen|]. split; [exact Hin|].
  unfold enc_V, enc_step, enc_O, Vof in *. cbn [re_low re_cache re_cache_size re_out]. lia.
Qed.

(* ---------------------------------------------------------------------------------------------
   one context-coded bit *)
Lemma decode_bit_ok out tail d e t k bit :
  renc_inv e -> probs_ok t -> bit = 0 \/ bit = 1 -> re_cache_size e + 1 < 4294967296 ->
  bytes_ok out = true ->
  dec_match out tail (rdec_normalize d) e ->
  renc_fut out (fst (encode_bit e t k bit)) ->
  exists d1, decode_bit d t k = Some (bit, d1, snd (encode_bit e t k bit)) /\
             dec_match out tail (rdec_normalize d1) (fst (encode_bit e t k bit)).
Proof.
  intros HI Ht Hbit Hs Hb Hm Hf. rewrite encode_bit_eq in * by assumption. cbn [fst snd] in *.
  pose proof (probs_ok_get t k Ht) as Hp.
  destruct (prob_update_twins _ 0 Hp (or_introl eq_refl)) as [Htw0 _].
  destruct (prob_update_twins _ 1 Hp (or_intror eq_refl)) as [Htw1 _].
  apply prob_ok_iff in Hp.
  pose proof HI as [HIR Hr].
  pose proof (bit_step_bounds (re_range e) (prob_get t k) bit Hr Hp) as (Ho & Hw & Hsum).
  assert (Hw0 : 0 < bit_width (re_range e) (prob_get t k) bit) by lia.
  destruct (enc_step_ok e _ _ HIR Ho Hw0 Hsum) as (I1 & _ & _ & S1).
  set (off := bit_off (re_range e) (prob_get t k) bit) in *.
  set (R1 := bit_width (re_range e) (prob_get t k) bit) in *.
  set (e1 := enc_step e off R1) in *.
  assert (HI1 : renc_inv1 e1) by (split; [exact I1 | cbn [e1 enc_step re_range]; lia]).
  pose proof (renc_fut_norm_back out e1 Hf HI1 ltac:(lia)) as Hf1.
  pose proof (dec_step_match out tail _ e off R1 Hm) as Hm1. fold e1 in Hm1.
  pose proof (dec_code_range _ _ _ _ Hm1 Hf1 Hb) as Hc1. cbn [rd_code e1 enc_step re_range] in Hc1.
  pose proof (bound_facts (re_range e) (prob_get t k) Hr Hp) as Hbf. cbv zeta in Hbf.
  destruct Hm as (Hrr & _).
  unfold decode_bit. rewrite Hrr, shiftr_div by lia. change (2 ^ 11) with 2048.
  replace (P2_32 <=? re_range e / 2048 * prob_get t k) with false
    by (symmetry; apply Z.leb_gt; unfold P2_32; lia).
  rewrite <- Htw0, <- Htw1.
  destruct Hbit as [-> | ->]; unfold off, R1, bit_off, bit_width in *; cbn [Z.eqb] in *.
  - replace (rd_code (rdec_normalize d) <? re_range e / 2048 * prob_get t k) with true
      by (symmetry; apply Z.ltb_lt; lia).
    eexists. split; [reflexivity|].
    apply dec_norm_match; try assumption; try lia.
    replace (rd_code (rdec_normalize d)) with (rd_code (rdec_normalize d) - 0) by lia. exact Hm1.
  - replace (rd_code (rdec_normalize d) <? re_range e / 2048 * prob_get t k) with false
      by (symmetry; apply Z.ltb_ge; lia).
    eexists. split; [reflexivity|].
    apply dec_norm_match; try assumption; try lia.
    unfold wrap32. rewrite !Z.mod_small by lia. exact Hm1.
Qed.

(* ---------------------------------------------------------------------------------------------
   direct bits *)
Lemma direct_bit_arith v c : 0 <= c ->
  (Z.land (Z.shiftr v c) 1 = 0 \/ Z.land (Z.shiftr v c) 1 = 1) /\
  v mod 2 ^ (c + 1) = v mod 2 ^ c + 2 ^ c * Z.land (Z.shiftr v c) 1.
Proof.
  intros Hc. rewrite land_one, shiftr_div by exact Hc.
  assert (HP : 0 < 2 ^ c) by (apply Z.pow_pos_nonneg; lia).
  split; [lia|].
  rewrite Z.pow_add_r by lia. change (2 ^ 1) with 2. apply Z.rem_mul_r; lia.
Qed.

Lemma direct_cmp code R1 b :
  0 < R1 < 2147483648 -> 0 <= code - (if b =? 1 then R1 else 0) < R1 -> b = 0 \/ b = 1 ->
  Z.shiftr (wrap32 (code - R1)) 31 = 1 - b /\
  (b = 1 -> wrap32 (code - R1) = code - R1).
Proof.
  intros HR Hc Hb. rewrite shiftr_div by lia. change (2 ^ 31) with 2147483648. unfold wrap32.
  destruct Hb as [-> | ->]; cbn [Z.eqb Pos.eqb] in Hc; split; try lia.
Qed.

Lemma decode_direct_ok out tail n : forall e v d acc,
  renc_inv e -> re_cache_size e + Z.of_nat n < 4294967296 -> bytes_ok out = true ->
  dec_match out tail (rdec_normalize d) e ->
  renc_fut out (encode_direct_bits e v n) ->
  0 <= acc -> (acc + 1) * 2 ^ Z.of_nat n <= 4294967296 ->
  exists d1, decode_direct_bits d n acc = (acc * 2 ^ Z.of_nat n + v mod 2 ^ Z.of_nat n, d1) /\
             dec_match out tail (rdec_normalize d1) (encode_direct_bits e v n).
Proof.
  induction n as [|c IH]; intros e v d acc HI Hs Hb Hm Hf Hacc Hacc2.
  - cbn [decode_direct_bits encode_direct_bits]. exists d. split; [|exact Hm].
    change (Z.of_nat 0) with 0. change (2 ^ 0) with 1. rewrite Z.mod_1_r. f_equal. lia.
  - rewrite encode_direct_bits_S in * by exact HI.
    pose proof HI as [HIR Hr].
    destruct (direct_bit_arith v (Z.of_nat c) ltac:(lia)) as [Hb01 Hmod].
    set (b := Z.land (Z.shiftr v (Z.of_nat c)) 1) in *.
    pose proof (dir_step_bounds (re_range e) b Hr) as (Ho & Hw & Hsum).
    assert (Hw0 : 0 < re_range e / 2) by lia.
    destruct (enc_step_ok e _ _ HIR Ho Hw0 Hsum) as (I1 & _ & _ & S1).
    set (off := dir_off (re_range e) b) in *.
    set (e1 := enc_step e off (re_range e / 2)) in *.
    assert (HI1 : renc_inv1 e1) by (split; [exact I1 | cbn [e1 enc_step re_range]; lia]).
    destruct (renc_normalize_ok e1 HI1 ltac:(lia)) as (I2 & S2 & _).
    destruct (encode_direct_bits_ok c (renc_normalize e1) v I2 ltac:(lia)) as (_ & _ & F3).
    pose proof (F3 out Hf) as Hf2.
    pose proof (renc_fut_norm_back out e1 Hf2 HI1 ltac:(lia)) as Hf1.
    pose proof (dec_step_match out tail _ e off (re_range e / 2) Hm) as Hm1. fold e1 in Hm1.
    pose proof (dec_code_range _ _ _ _ Hm1 Hf1 Hb) as Hc1. cbn [rd_code e1 enc_step re_range] in Hc1.
    unfold off, dir_off in Hc1.
    destruct (direct_cmp (rd_code (rdec_normalize d)) (re_range e / 2) b ltac:(lia) Hc1 Hb01) as [Ht Hw32].
    pose proof (dec_norm_match out tail _ e1 Hm1 HI1 ltac:(lia) Hf2 Hb) as Hm2.
    assert (HP : 0 < 2 ^ Z.of_nat c) by (apply Z.pow_pos_nonneg; lia).
    rewrite Nat2Z.inj_succ, <- Z.add_1_r in *. rewrite Z.pow_add_r in Hacc2, Hmod |- * by lia.
    change (2 ^ 1) with 2 in *.
    cbn [decode_direct_bits]. destruct Hm as (Hrr & _). rewrite Hrr, (shiftr_div (re_range e) 1) by lia.
    change (2 ^ 1) with 2. rewrite Ht.
    assert (Hwa : wrap32 (acc * 2 + (1 - (1 - b))) = acc * 2 + b) by (unfold wrap32; rewrite Z.mod_small; nia).
    rewrite Hwa.
    assert (Hd2 : mkRdec (re_range e / 2)
                    (if 1 - b =? 0 then wrap32 (rd_code (rdec_normalize d) - re_range e / 2) else rd_code (rdec_normalize d))
                    (rd_in (rdec_normalize d)) (rd_over (rdec_normalize d))
                  = mkRdec (re_range e / 2) (rd_code (rdec_normalize d) - off)
                    (rd_in (rdec_normalize d)) (rd_over (rdec_normalize d))).
    { unfold off, dir_off. destruct Hb01 as [Hb0 | Hb1]; rewrite ?Hb0, ?Hb1; cbn [Z.sub Z.eqb Z.opp Z.add Z.pos_sub].
      - f_equal. lia.
      - f_equal. apply Hw32. exact Hb1. }
    rewrite Hd2.
    destruct (IH (renc_normalize e1) v _ (acc * 2 + b) I2 ltac:(lia) Hb Hm2 Hf ltac:(lia) ltac:(nia))
      as (d1 & Hdec & Hm3).
    exists d1. split; [|exact Hm3]. rewrite Hdec. f_equal. rewrite Hmod. lia.
Qed.
