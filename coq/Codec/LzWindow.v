(* Codec/LzWindow.v — model of src/lz/lz_decoder.rs (LZDecoder: the cyclic dictionary buffer).
   Definitions only.  The buffer is a functional array; cells never written read as 0 (vec![0; n]). *)
From LzVerif Require Export Base.Bytes Codec.Store.

Record lzwin := mkLzwin {
  w_buf : ptree;
  w_size : Z;          (* buf_size *)
  w_start : Z;
  w_pos : Z;
  w_full : Z;
  w_limit : Z;
  w_pending_len : Z;
  w_pending_dist : Z
}.

Definition bget (w : lzwin) (i : Z) : Z := aget 0 (w_buf w) i.

(* specification-level history: a list, newest byte first; positions before the start read as 0 *)
Definition hnth (hist : list Z) (d : Z) : Z := match zth hist d with Some b => b | None => 0 end.

Definition set_buf (w : lzwin) (b : ptree) : lzwin :=
  mkLzwin b (w_size w) (w_start w) (w_pos w) (w_full w) (w_limit w) (w_pending_len w) (w_pending_dist w).

(* writes the list at consecutive cells starting at i *)
Fixpoint aset_list (t : ptree) (i : Z) (l : list Z) : ptree :=
  match l with
  | [] => t
  | x :: r => aset_list (aset t i x) (i + 1) r
  end.

(* the last n elements of a list *)
Definition lastn {A} (n : nat) (l : list A) : list A := skipn (length l - n) l.

(* LZDecoder::new(dict_size, preset_dict) *)
Definition lzwin_new (dict_size : Z) (preset : option (list Z)) : lzwin :=
  match preset with
  | None => mkLzwin PLeaf dict_size 0 0 0 0 0 0
  | Some p =>
      let n := Z.min (zlen p) dict_size in
      mkLzwin (aset_list PLeaf 0 (lastn (Z.to_nat n) p)) dict_size n n n 0 0 0
  end.

(* reset(): buf[buf_size - 1] = 0 panics for an empty buffer *)
Definition lzwin_reset (w : lzwin) : outcome lzwin :=
  if w_size w <=? 0 then Panic 1 else
  Ok (mkLzwin (aset (w_buf w) (w_size w - 1) 0) (w_size w) 0 0 0 0 (w_pending_len w) (w_pending_dist w)).

(* set_limit(out_max) *)
Definition lzwin_set_limit (w : lzwin) (out_max : Z) : lzwin :=
  mkLzwin (w_buf w) (w_size w) (w_start w) (w_pos w) (w_full w) (Z.min (out_max + w_pos w) (w_size w))
          (w_pending_len w) (w_pending_dist w).

Definition lzwin_has_space (w : lzwin) : bool := w_pos w <? w_limit w.
Definition lzwin_has_pending (w : lzwin) : bool := 0 <? w_pending_len w.

(* get_byte(dist): usize arithmetic, the subtraction and the index are checked *)
Definition lzwin_get_byte (w : lzwin) (dist : Z) : outcome Z :=
  let off := if w_pos w <=? dist then w_size w + w_pos w - dist - 1 else w_pos w - dist - 1 in
  if (off <? 0) || (w_size w <=? off) then Panic 2 else Ok (bget w off).

(* put_byte(b) *)
Definition lzwin_put_byte (w : lzwin) (b : Z) : outcome lzwin :=
  if (w_pos w <? 0) || (w_size w <=? w_pos w) then Panic 3 else
  let pos := w_pos w + 1 in
  Ok (mkLzwin (aset (w_buf w) (w_pos w) b) (w_size w) (w_start w) pos (Z.max (w_full w) pos) (w_limit w)
              (w_pending_len w) (w_pending_dist w)).

(* the copy loops of repeat(): [n] bytes, each read [dist]+1 cells behind the write position
   (modulo the buffer size), written at the write position.  The Rust code does the same copy in
   up to three block moves (wrap-around segment, non-overlapping block, overlapping doubling loop);
   a forward byte-by-byte copy is what each of them computes. *)
Fixpoint copy_match (buf : ptree) (size pos dist : Z) (n : nat) : ptree * Z :=
  match n with
  | O => (buf, pos)
  | S k =>
      let src := if pos <=? dist then size + pos - dist - 1 else pos - dist - 1 in
      copy_match (aset buf pos (aget 0 buf src)) size (pos + 1) dist k
  end.

(* repeat(dist, len) *)
Definition lzwin_repeat (w : lzwin) (dist len : Z) : outcome lzwin :=
  if w_full w <=? dist then Err E_OTHER else
  if w_limit w <? w_pos w then Panic 4 else
  let left := Z.min (w_limit w - w_pos w) len in
  let '(buf, pos) := copy_match (w_buf w) (w_size w) (w_pos w) dist (Z.to_nat left) in
  Ok (mkLzwin buf (w_size w) (w_start w) pos (Z.max (w_full w) pos) (w_limit w) (len - left) dist).

Definition lzwin_repeat_pending (w : lzwin) : outcome lzwin :=
  if 0 <? w_pending_len w then lzwin_repeat w (w_pending_dist w) (w_pending_len w) else Ok w.

(* reads cells [i, i+n) *)
Fixpoint aget_list (t : ptree) (i : Z) (n : nat) : list Z :=
  match n with
  | O => []
  | S k => aget 0 t i :: aget_list t (i + 1) k
  end.

(* flush(): returns the bytes produced since the last flush *)
Definition lzwin_flush (w : lzwin) : list Z * lzwin :=
  let copy_size := w_pos w - w_start w in
  let pos := if w_pos w =? w_size w then 0 else w_pos w in
  (aget_list (w_buf w) (w_start w) (Z.to_nat copy_size),
   mkLzwin (w_buf w) (w_size w) pos pos (w_full w) (w_limit w) (w_pending_len w) (w_pending_dist w)).

(* copy_uncompressed(in_data, len): read_exact of min(buf_size - pos, len) bytes into the buffer;
   returns the window and the rest of the input *)
Definition lzwin_copy_uncompressed (w : lzwin) (input : list Z) (len : Z) : outcome (lzwin * list Z) :=
  let copy_size := Z.min (w_size w - w_pos w) len in
  if copy_size <? 0 then Panic 5 else
  let n := Z.to_nat copy_size in
  if (length input <? n)%nat then Err E_UNEXPECTED_EOF else
  let pos := w_pos w + copy_size in
  Ok (mkLzwin (aset_list (w_buf w) (w_pos w) (firstn n input)) (w_size w) (w_start w) pos
              (Z.max (w_full w) pos) (w_limit w) (w_pending_len w) (w_pending_dist w),
      skipn n input).
