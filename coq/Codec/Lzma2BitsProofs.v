(* Codec/Lzma2BitsProofs.v — size and shape facts about the symbol encoder (LzmaEnc.v) used by the
   LZMA2 chunking argument: one symbol codes a bounded number of range-coder decisions, every
   symbol but the end marker advances the position, and lc/lp/pb and the data view are invariant. *)
From LzVerif Require Import Base.Bytes Codec.Store Codec.Range Codec.ProbProofs Codec.LzWindow Codec.LzmaDec
  Codec.LzmaEnc Codec.LzmaAbs Codec.LzWindowProofs Codec.ProgProofs Codec.LzmaAbsProofs
  Codec.RangeEncProofs Codec.RangeProofs Codec.LzmaSymProofs Codec.LzmaRoundtrip.
Ltac Zify.zify_post_hook ::= Z.div_mod_to_equations.

Definition SYM_MAX_BITS : Z := 64.

(* ---- bit counts of the pieces ---------------------------------------------------------------- *)
Lemma enc_bittree_bits base l : forall s i, events_bits (enc_bittree base l s i) = Z.of_nat l.
Proof.
  induction l as [|k IH]; intros s i; [reflexivity|].
  cbn [enc_bittree]. cbv zeta. cbn [events_bits ev_bits]. rewrite IH. lia.
Qed.

Lemma enc_rev_bittree_bits base l : forall s i, events_bits (enc_rev_bittree base l s i) = Z.of_nat l.
Proof.
  induction l as [|k IH]; intros s i; [reflexivity|].
  cbn [enc_rev_bittree]. cbv zeta. cbn [events_bits ev_bits]. rewrite IH. lia.
Qed.

Lemma enc_lit_matched_bits lbase n : forall m off s, events_bits (enc_lit_matched lbase n m off s) = Z.of_nat n.
Proof.
  induction n as [|k IH]; intros m off s; [reflexivity|].
  cbn [enc_lit_matched]. cbv zeta. cbn [events_bits ev_bits]. rewrite IH. lia.
Qed.

Lemma enc_lit_normal_bits lbase n : forall s, events_bits (enc_lit_normal lbase n s) = Z.of_nat n.
Proof.
  induction n as [|k IH]; intros s; [reflexivity|].
  cbn [enc_lit_normal]. cbn [events_bits ev_bits]. rewrite IH. lia.
Qed.

Lemma lit_events_bits lbase mb b : events_bits (lit_events lbase mb b) = 8.
Proof.
  unfold lit_events. destruct mb as [m|].
  - rewrite enc_lit_matched_bits. reflexivity.
  - rewrite enc_lit_normal_bits. reflexivity.
Qed.

Lemma enc_len_bits base len ps evs : enc_len base len ps = Ok evs -> events_bits evs <= 10.
Proof.
  unfold enc_len. cbv zeta. intros H.
  destruct (len - 2 <? 0); [discriminate|].
  destruct (len - 2 <? 8).
  { apply obind_ok in H as (low & _ & H). apply Ok_inj in H. subst evs.
    cbn [events_bits ev_bits]. rewrite enc_bittree_bits. lia. }
  destruct (len - 2 <? 16).
  { apply obind_ok in H as (mid & _ & H). apply Ok_inj in H. subst evs.
    cbn [events_bits ev_bits]. rewrite enc_bittree_bits. lia. }
  destruct (len - 2 <? 272); [|discriminate].
  apply Ok_inj in H. subst evs.
  cbn [events_bits ev_bits]. rewrite enc_bittree_bits. lia.
Qed.

Lemma enc_match_events_bits c ps dist len evs c' :
  0 <= dist < 2 ^ 32 -> enc_match_events c ps dist len = Ok (evs, c') -> events_bits evs <= 46.
Proof.
  intros Hd H. unfold enc_match_events in H. cbv zeta in H.
  apply obind_ok in H as (elen & Hlen & H). apply obind_ok in H as (dsk & _ & H).
  apply Ok_inj in H. apply pair_inj in H as [<- _].
  apply enc_len_bits in Hlen.
  destruct (dist_slot_spec dist Hd) as (Hslot & _).
  set (slot := get_dist_slot dist) in *. clearbody slot.
  rewrite !events_bits_app, enc_bittree_bits.
  rewrite shiftr1_div2.
  destruct (slot <? 4); [cbn [events_bits]; lia|].
  destruct (slot <? 14).
  - rewrite enc_rev_bittree_bits. lia.
  - cbn [events_bits ev_bits]. rewrite enc_rev_bittree_bits. lia.
Qed.

Lemma enc_rep_events_bits c ps idx len evs c' :
  enc_rep_events c ps idx len = Ok (evs, c') -> events_bits evs <= 13.
Proof.
  unfold enc_rep_events. intros H.
  apply obind_ok in H as (k0 & _ & H).
  destruct (idx =? 0).
  - apply obind_ok in H as (k0l & _ & H). destruct (len =? 1).
    + apply Ok_inj in H. apply pair_inj in H as [<- _]. cbn [events_bits ev_bits]. lia.
    + apply obind_ok in H as (elen & Hlen & H). apply Ok_inj in H. apply pair_inj in H as [<- _].
      apply enc_len_bits in Hlen. cbn [events_bits ev_bits]. lia.
  - destruct ((idx <? 0) || (3 <? idx) || (len =? 1)); [discriminate|].
    apply obind_ok in H as (k1 & _ & H). apply obind_ok in H as (k2 & _ & H).
    destruct (idx =? 1); [|destruct (idx =? 2)];
      apply obind_ok in H as (elen & Hlen & H); apply Ok_inj in H; apply pair_inj in H as [<- _];
      apply enc_len_bits in Hlen; cbn [app events_bits ev_bits]; lia.
Qed.

(* ---- one symbol ------------------------------------------------------------------------------ *)
(* one symbol codes at most 64 decisions' worth of bits (literal 9; match <= 2 + 10 + 6 + 30; rep <= 5 + 10) *)
Lemma enc_symbol_bits c h s evs c' h' :
  h_dict h <= 2147483648 -> enc_symbol c h s = Ok (evs, c', h') -> events_bits evs <= SYM_MAX_BITS.
Proof.
  intros Hd He. unfold SYM_MAX_BITS. unfold enc_symbol in He. apply obind_ok in He as (km & _ & He).
  destruct s as [b|dist len|idx len|].
  - destruct (negb _); [discriminate|]. apply obind_ok in He as (lb & _ & He). apply obind_ok in He as (mb & _ & He).
    apply Ok_inj in He. apply pair_inj in He as [He _]. apply pair_inj in He as [<- _].
    cbn [events_bits ev_bits]. rewrite lit_events_bits. lia.
  - destruct ((2 <=? len) && (len <=? 273) && copy_valid h dist len) eqn:E; cbn [negb] in He; [|discriminate].
    apply andb_true_iff in E as [_ Hcv]. apply copy_valid_inv in Hcv as (Hd0 & Hdd & _).
    apply obind_ok in He as (kr & _ & He). apply obind_ok in He as ([ev1 c1] & Hec & He).
    apply Ok_inj in He. apply pair_inj in He as [He _]. apply pair_inj in He as [<- _].
    cbn [events_bits ev_bits fst].
    assert (Hb : events_bits ev1 <= 46).
    { eapply enc_match_events_bits; [|exact Hec]. change (2 ^ 32) with 4294967296. lia. }
    lia.
  - apply obind_ok in He as (kr & _ & He). apply obind_ok in He as ([ev1 c1] & Hec & He).
    destruct (negb _); [discriminate|].
    apply Ok_inj in He. apply pair_inj in He as [He _]. apply pair_inj in He as [<- _].
    cbn [events_bits ev_bits fst]. apply enc_rep_events_bits in Hec. lia.
  - apply obind_ok in He as (kr & _ & He). apply obind_ok in He as ([ev1 c1] & Hec & He).
    apply Ok_inj in He. apply pair_inj in He as [He _]. apply pair_inj in He as [<- _].
    cbn [events_bits ev_bits fst].
    assert (Hb : events_bits ev1 <= 46).
    { eapply enc_match_events_bits; [|exact Hec]. change (2 ^ 32) with 4294967296. lia. }
    lia.
Qed.

(* every symbol except the end marker advances the position *)
Lemma enc_symbol_advance c h s evs c' h' :
  s <> SEnd -> enc_symbol c h s = Ok (evs, c', h') -> h_pos h + 1 <= h_pos h'.
Proof.
  intros Hne Hsa. unfold enc_symbol in Hsa. apply obind_ok in Hsa as (km & _ & Hsa).
  destruct s as [b|dist len|idx len|].
  - destruct (negb _); [discriminate|]. apply obind_ok in Hsa as (lb & _ & Hsa). apply obind_ok in Hsa as (mb & _ & Hsa).
    apply Ok_inj in Hsa. apply pair_inj in Hsa as [_ <-]. unfold h_advance; cbn [h_pos]. lia.
  - destruct ((2 <=? len) && (len <=? 273) && copy_valid h dist len) eqn:E; cbn [negb] in Hsa; [|discriminate].
    apply andb_true_iff in E as [E _]. apply andb_true_iff in E as [E _]. apply Z.leb_le in E.
    apply obind_ok in Hsa as (kr & _ & Hsa). apply obind_ok in Hsa as (ec & _ & Hsa).
    apply Ok_inj in Hsa. apply pair_inj in Hsa as [_ <-]. unfold h_advance; cbn [h_pos]. lia.
  - apply obind_ok in Hsa as (kr & _ & Hsa). apply obind_ok in Hsa as (ec & _ & Hsa).
    destruct ((1 <=? len) && (len <=? 273) && copy_valid h (c_rep0 (snd ec)) len) eqn:E; cbn [negb] in Hsa; [|discriminate].
    apply andb_true_iff in E as [E _]. apply andb_true_iff in E as [E _]. apply Z.leb_le in E.
    apply Ok_inj in Hsa. apply pair_inj in Hsa as [_ <-]. unfold h_advance; cbn [h_pos]. lia.
  - congruence.
Qed.

Lemma enc_rep_events_params c ps idx len evs c' :
  enc_rep_events c ps idx len = Ok (evs, c') -> c_lc c' = c_lc c /\ c_lp c' = c_lp c /\ c_pb c' = c_pb c.
Proof.
  unfold enc_rep_events. intros H.
  apply obind_ok in H as (k0 & _ & H).
  destruct (idx =? 0).
  - apply obind_ok in H as (k0l & _ & H). destruct (len =? 1).
    + apply Ok_inj in H. apply pair_inj in H as [_ <-]. unfold set_state; cbn [c_lc c_lp c_pb]. auto.
    + apply obind_ok in H as (elen & _ & H). apply Ok_inj in H. apply pair_inj in H as [_ <-].
      unfold set_state; cbn [c_lc c_lp c_pb]. auto.
  - destruct ((idx <? 0) || (3 <? idx) || (len =? 1)); [discriminate|].
    apply obind_ok in H as (k1 & _ & H). apply obind_ok in H as (k2 & _ & H).
    destruct (idx =? 1); [|destruct (idx =? 2)];
      apply obind_ok in H as (elen & _ & H); apply Ok_inj in H; apply pair_inj in H as [_ <-];
      unfold set_state, set_reps; cbn [c_lc c_lp c_pb]; auto.
Qed.

(* lc/lp/pb never change *)
Lemma enc_symbol_params c h s evs c' h' :
  enc_symbol c h s = Ok (evs, c', h') -> c_lc c' = c_lc c /\ c_lp c' = c_lp c /\ c_pb c' = c_pb c.
Proof.
  intros He. unfold enc_symbol in He. apply obind_ok in He as (km & _ & He).
  destruct s as [b|dist len|idx len|].
  - destruct (negb _); [discriminate|]. apply obind_ok in He as (lb & _ & He). apply obind_ok in He as (mb & _ & He).
    apply Ok_inj in He. apply pair_inj in He as [He _]. apply pair_inj in He as [_ <-].
    unfold set_state; cbn [c_lc c_lp c_pb]. auto.
  - destruct (negb _); [discriminate|].
    apply obind_ok in He as (kr & _ & He). apply obind_ok in He as ([ev1 c1] & Hec & He).
    apply Ok_inj in He. apply pair_inj in He as [He _]. apply pair_inj in He as [_ <-]. cbn [snd].
    rewrite (enc_match_events_coder _ _ _ _ _ _ Hec). cbn [c_lc c_lp c_pb]. auto.
  - apply obind_ok in He as (kr & _ & He). apply obind_ok in He as ([ev1 c1] & Hec & He).
    destruct (negb _); [discriminate|].
    apply Ok_inj in He. apply pair_inj in He as [He _]. apply pair_inj in He as [_ <-]. cbn [snd].
    eapply enc_rep_events_params; exact Hec.
  - apply obind_ok in He as (kr & _ & He). apply obind_ok in He as ([ev1 c1] & Hec & He).
    apply Ok_inj in He. apply pair_inj in He as [He _]. apply pair_inj in He as [_ <-]. cbn [snd].
    rewrite (enc_match_events_coder _ _ _ _ _ _ Hec). cbn [c_lc c_lp c_pb]. auto.
Qed.

(* only the position of the encoder's view changes *)
Lemma enc_symbol_fields c h s evs c' h' :
  enc_symbol c h s = Ok (evs, c', h') ->
  h_data h' = h_data h /\ h_total h' = h_total h /\ h_base h' = h_base h /\ h_dict h' = h_dict h.
Proof.
  intros Hs. unfold enc_symbol in Hs. apply obind_ok in Hs as (km & _ & Hs).
  destruct s as [b|dist len|idx len|].
  - destruct (negb _); [discriminate|]. apply obind_ok in Hs as (lb & _ & Hs). apply obind_ok in Hs as (mb & _ & Hs).
    apply Ok_inj in Hs. apply pair_inj in Hs as [_ <-]. unfold h_advance; cbn [h_data h_total h_base h_dict]. auto.
  - destruct (negb _); [discriminate|]. apply obind_ok in Hs as (kr & _ & Hs). apply obind_ok in Hs as (ec & _ & Hs).
    apply Ok_inj in Hs. apply pair_inj in Hs as [_ <-]. unfold h_advance; cbn [h_data h_total h_base h_dict]. auto.
  - apply obind_ok in Hs as (kr & _ & Hs). apply obind_ok in Hs as (ec & _ & Hs). destruct (negb _); [discriminate|].
    apply Ok_inj in Hs. apply pair_inj in Hs as [_ <-]. unfold h_advance; cbn [h_data h_total h_base h_dict]. auto.
  - apply obind_ok in Hs as (kr & _ & Hs). apply obind_ok in Hs as (ec & _ & Hs).
    apply Ok_inj in Hs. apply pair_inj in Hs as [_ <-]. auto.
Qed.

(* ---- lifted to symbol lists ------------------------------------------------------------------ *)
Lemma no_end_cons s r : no_end (s :: r) -> s <> SEnd /\ no_end r.
Proof.
  intros Hne. split; [apply Hne; left; reflexivity|]. intros x Hx. apply Hne. right. exact Hx.
Qed.

Lemma enc_syms_bits syms : forall c h evs c' h',
  no_end syms -> h_dict h <= 2147483648 -> enc_syms c h syms = Ok (evs, c', h') ->
  events_bits evs <= SYM_MAX_BITS * (h_pos h' - h_pos h).
Proof.
  induction syms as [|s r IH]; intros c h evs c' h' Hne Hd He; cbn [enc_syms] in He.
  - apply Ok_inj in He. apply pair_inj in He as [He <-]. apply pair_inj in He as [<- _].
    cbn [events_bits]. lia.
  - apply obind_ok in He as ([[e1 c1] h1] & Hs & He). cbn [fst snd] in He.
    apply obind_ok in He as ([[e2 c2] h2] & Hrs & He). cbn [fst snd] in He.
    apply Ok_inj in He. apply pair_inj in He as [He <-]. apply pair_inj in He as [<- _].
    apply no_end_cons in Hne as [Hs_ne Hne'].
    pose proof (enc_symbol_bits _ _ _ _ _ _ Hd Hs) as Hb1.
    pose proof (enc_symbol_advance _ _ _ _ _ _ Hs_ne Hs) as Ha1.
    pose proof (enc_symbol_fields _ _ _ _ _ _ Hs) as (_ & _ & _ & Hd1).
    assert (Hd' : h_dict h1 <= 2147483648) by lia.
    pose proof (IH _ _ _ _ _ Hne' Hd' Hrs) as Hb2.
    rewrite events_bits_app. unfold SYM_MAX_BITS in *. lia.
Qed.

Lemma enc_syms_advance syms : forall c h evs c' h',
  no_end syms -> syms <> [] -> enc_syms c h syms = Ok (evs, c', h') -> h_pos h + 1 <= h_pos h'.
Proof.
  destruct syms as [|s r]; intros c h evs c' h' Hne Hnil He; [congruence|]. cbn [enc_syms] in He.
  apply obind_ok in He as ([[e1 c1] h1] & Hs & He). cbn [fst snd] in He.
  apply obind_ok in He as ([[e2 c2] h2] & Hrs & He). cbn [fst snd] in He.
  apply Ok_inj in He. apply pair_inj in He as [_ <-].
  apply no_end_cons in Hne as [Hs_ne _].
  pose proof (enc_symbol_advance _ _ _ _ _ _ Hs_ne Hs) as Ha1.
  pose proof (enc_syms_mono _ _ _ _ _ _ Hrs) as Hm. lia.
Qed.

Lemma enc_syms_params syms : forall c h evs c' h',
  enc_syms c h syms = Ok (evs, c', h') -> c_lc c' = c_lc c /\ c_lp c' = c_lp c /\ c_pb c' = c_pb c.
Proof.
  induction syms as [|s r IH]; intros c h evs c' h' He; cbn [enc_syms] in He.
  - apply Ok_inj in He. apply pair_inj in He as [He _]. apply pair_inj in He as [_ <-]. auto.
  - apply obind_ok in He as ([[e1 c1] h1] & Hs & He). cbn [fst snd] in He.
    apply obind_ok in He as ([[e2 c2] h2] & Hrs & He). cbn [fst snd] in He.
    apply Ok_inj in He. apply pair_inj in He as [He _]. apply pair_inj in He as [_ <-].
    destruct (enc_symbol_params _ _ _ _ _ _ Hs) as (A1 & A2 & A3).
    destruct (IH _ _ _ _ _ Hrs) as (B1 & B2 & B3).
    repeat split; congruence.
Qed.

Lemma enc_syms_fields syms : forall c h evs c' h',
  enc_syms c h syms = Ok (evs, c', h') ->
  h_data h' = h_data h /\ h_total h' = h_total h /\ h_base h' = h_base h /\ h_dict h' = h_dict h.
Proof.
  induction syms as [|s r IH]; intros c h evs c' h' He; cbn [enc_syms] in He.
  - apply Ok_inj in He. apply pair_inj in He as [_ <-]. auto.
  - apply obind_ok in He as ([[e1 c1] h1] & Hs & He). cbn [fst snd] in He.
    apply obind_ok in He as ([[e2 c2] h2] & Hrs & He). cbn [fst snd] in He.
    apply Ok_inj in He. apply pair_inj in He as [_ <-].
    destruct (enc_symbol_fields _ _ _ _ _ _ Hs) as (A1 & A2 & A3 & A4).
    destruct (IH _ _ _ _ _ Hrs) as (B1 & B2 & B3 & B4).
    repeat split; congruence.
Qed.
