(* Codec/LzmaSymProofs.v — the decisions produced by the LZMA symbol ENCODER model (LzmaEnc.v)
   are read back by the decision programs of the symbol DECODER model (LzmaDec.v).

   Contents
     - ev_ok                      well-formedness of one recorded decision
     - run_trace_bind & friends   execution of composed decision programs on a trace
     - state_range                the four state_update_* functions keep [0,12)
     - bittree_roundtrip, rev_bittree_roundtrip
     - len_roundtrip
     - lit_roundtrip              (finite sweep over the 256 x 256 (byte, match byte) pairs)
     - rep_roundtrip
     - dist_slot_spec, match_roundtrip
     - events_ok_*                every produced event satisfies ev_ok

   Everything is pure combinatorics over Z; no range coder, no window. *)
From LzVerif Require Import Base.Bytes Codec.Store Codec.Range Codec.LzWindow Codec.LzmaDec Codec.LzmaEnc
  Codec.ProbProofs.
Ltac Zify.zify_post_hook ::= Z.div_mod_to_equations.

(* ---------------------------------------------------------------------------------------------
   Well-formed events (shared with the range-coder theorem) *)
Definition ev_ok (ev : event) : bool :=
  match ev with
  | EBit k b => (b =? 0) || (b =? 1)
  | EDirect n v => (Nat.leb 1 n) && (Nat.leb n 32) && (0 <=? v) && (v <? Z.shiftl 1 (Z.of_nat n))
  end.

Lemma Ok_inj {A} (a b : A) : Ok a = Ok b -> a = b.
Proof. congruence. Qed.

Lemma ev_ok_bit k b : b = 0 \/ b = 1 -> ev_ok (EBit k b) = true.
Proof. intros [-> | ->]; reflexivity. Qed.

Lemma forallb_app_true {A} (f : A -> bool) l1 l2 :
  forallb f l1 = true -> forallb f l2 = true -> forallb f (l1 ++ l2) = true.
Proof. intros H1 H2. rewrite forallb_app, H1, H2. reflexivity. Qed.

(* ---------------------------------------------------------------------------------------------
   7a. run_trace of composed programs *)

(* what happens after [p] has been run: continue with [f] on success, propagate otherwise *)
Definition trace_then {A B} (r : option (outcome A * list event))
  (f : A -> list event -> option (outcome B * list event)) : option (outcome B * list event) :=
  match r with
  | None => None
  | Some (Ok a, rest) => f a rest
  | Some (Err c, rest) => Some (Err c, rest)
  | Some (Panic c, rest) => Some (Panic c, rest)
  | Some (Fuel, rest) => Some (Fuel, rest)
  end.

Theorem run_trace_bind {A B} (p : prog A) (f : A -> prog B) (evs : list event) :
  run_trace (pbind p f) evs = trace_then (run_trace p evs) (fun a rest => run_trace (f a) rest).
Proof.
  revert evs; induction p as [a | e | key k IH | n k IH]; intros evs; cbn [pbind run_trace trace_then].
  - reflexivity.
  - destruct e; reflexivity.
  - destruct evs as [|[key' b | n' v] rest]; try reflexivity.
    destruct ((key =? key') && ((b =? 0) || (b =? 1))); [apply IH | reflexivity].
  - destruct evs as [|[key' b | n' v] rest]; try reflexivity.
    destruct (Nat.eqb n n'); [apply IH | reflexivity].
Qed.

Corollary run_trace_bind_ok {A B} (p : prog A) (f : A -> prog B) evs a rest :
  run_trace p evs = Some (Ok a, rest) ->
  run_trace (pbind p f) evs = run_trace (f a) rest.
Proof. intros H. rewrite run_trace_bind, H. reflexivity. Qed.

Corollary run_trace_bind_none {A B} (p : prog A) (f : A -> prog B) evs :
  run_trace p evs = None -> run_trace (pbind p f) evs = None.
Proof. intros H. rewrite run_trace_bind, H. reflexivity. Qed.

Lemma run_trace_ret {A} (a : A) evs : run_trace (Ret a) evs = Some (Ok a, evs).
Proof. reflexivity. Qed.

Lemma run_trace_lift_ok {A} (a : A) evs : run_trace (lift (Ok a)) evs = Some (Ok a, evs).
Proof. reflexivity. Qed.

Lemma run_trace_bind_lift_ok {A B} (a : A) (f : A -> prog B) evs :
  run_trace (pbind (lift (Ok a)) f) evs = run_trace (f a) evs.
Proof. reflexivity. Qed.

Lemma run_trace_bit {A} key (k : Z -> prog A) b rest :
  b = 0 \/ b = 1 ->
  run_trace (Bit key k) (EBit key b :: rest) = run_trace (k b) rest.
Proof.
  intros Hb. cbn [run_trace]. rewrite Z.eqb_refl.
  destruct Hb as [-> | ->]; reflexivity.
Qed.

Lemma run_trace_direct {A} n (k : Z -> prog A) v rest :
  run_trace (Direct n k) (EDirect n v :: rest) = run_trace (k v) rest.
Proof. cbn [run_trace]. rewrite Nat.eqb_refl. reflexivity. Qed.

(* A run consumes a prefix of the trace and does not look at what follows. *)
Theorem run_trace_consumed {A} (p : prog A) evs r rest :
  run_trace p evs = Some (r, rest) ->
  exists used, evs = used ++ rest /\ forall more, run_trace p (used ++ more) = Some (r, more).
Proof.
  revert evs; induction p as [a | e | key k IH | n k IH]; intros evs H; cbn [run_trace] in H.
  - inversion H; subst. exists []. split; reflexivity.
  - exists []. destruct e; inversion H; subst; split; reflexivity.
  - destruct evs as [|[key' b | n' v] tl]; try discriminate.
    destruct ((key =? key') && ((b =? 0) || (b =? 1))) eqn:E; [|discriminate].
    destruct (IH _ _ H) as (used & -> & Hu).
    exists (EBit key' b :: used). split; [reflexivity|].
    intros more. cbn [app run_trace]. rewrite E. apply Hu.
  - destruct evs as [|[key' b | n' v] tl]; try discriminate.
    destruct (Nat.eqb n n') eqn:E; [|discriminate].
    destruct (IH _ _ H) as (used & -> & Hu).
    exists (EDirect n' v :: used). split; [reflexivity|].
    intros more. cbn [app run_trace]. rewrite E. apply Hu.
Qed.

Corollary run_trace_app {A} (p : prog A) evs r rest more :
  run_trace p evs = Some (r, rest) ->
  run_trace p (evs ++ more) = Some (r, rest ++ more).
Proof.
  intros H. destruct (run_trace_consumed p evs r rest H) as (used & -> & Hu).
  rewrite <- app_assoc. apply Hu.
Qed.

(* computing with [rest := []] is enough *)
Corollary run_trace_app_nil {A} (p : prog A) evs r rest :
  run_trace p evs = Some (r, []) ->
  run_trace p (evs ++ rest) = Some (r, rest).
Proof. intros H. apply (run_trace_app p evs r [] rest H). Qed.

(* sequential composition on a concatenated trace *)
Corollary run_trace_seq {A B} (p : prog A) (f : A -> prog B) e1 e2 a :
  (forall rest, run_trace p (e1 ++ rest) = Some (Ok a, rest)) ->
  run_trace (pbind p f) (e1 ++ e2) = run_trace (f a) e2.
Proof. intros H. apply run_trace_bind_ok, H. Qed.

(* ---------------------------------------------------------------------------------------------
   7b. the state machine stays inside [0,12) *)
Theorem state_range s : 0 <= s < 12 ->
  0 <= state_update_literal s < 12 /\ 0 <= state_update_match s < 12 /\
  0 <= state_update_long_rep s < 12 /\ 0 <= state_update_short_rep s < 12.
Proof.
  intros Hs. unfold state_update_literal, state_update_match, state_update_long_rep,
    state_update_short_rep, LIT_STATES.
  destruct (Z.leb_spec s 3), (Z.leb_spec s 9), (Z.ltb_spec s 7); lia.
Qed.

(* ---------------------------------------------------------------------------------------------
   Bit-level helpers *)
Lemma land_1_mod2 x : Z.land x 1 = x mod 2.
Proof. apply (Z.land_ones x 1). lia. Qed.

Lemma land_1_cases x : Z.land x 1 = 0 \/ Z.land x 1 = 1.
Proof. rewrite land_1_mod2. lia. Qed.

Lemma shiftr1_div2 x : Z.shiftr x 1 = x / 2.
Proof. apply (Z.shiftr_div_pow2 x 1). lia. Qed.

Lemma pow2_pos n : 0 <= n -> 0 < 2 ^ n.
Proof. intros; apply Z.pow_pos_nonneg; lia. Qed.

Lemma shiftl_1_pow2 n : 0 <= n -> Z.shiftl 1 n = 2 ^ n.
Proof. intros; rewrite Z.shiftl_mul_pow2 by lia. lia. Qed.

(* a + b*2^n has no carries when a < 2^n *)
Lemma land_low_high a b n : 0 <= n -> 0 <= a < 2 ^ n -> Z.land a (Z.shiftl b n) = 0.
Proof.
  intros Hn Ha. apply Z.bits_inj'. intros m Hm.
  rewrite Z.land_spec, Z.bits_0.
  destruct (Z.lt_ge_cases m n) as [Hlt | Hge].
  - rewrite Z.shiftl_spec_low by assumption. apply andb_false_r.
  - rewrite <- (Z.mod_small a (2 ^ n)) by assumption.
    rewrite Z.mod_pow2_bits_high by lia. reflexivity.
Qed.

Lemma lor_disjoint_add a b n : 0 <= n -> 0 <= a < 2 ^ n -> Z.lor a (Z.shiftl b n) = a + b * 2 ^ n.
Proof.
  intros Hn Ha. pose proof (land_low_high a b n Hn Ha) as H0.
  rewrite <- Z.lxor_lor by assumption. rewrite <- Z.add_nocarry_lxor by assumption.
  rewrite Z.shiftl_mul_pow2 by assumption. reflexivity.
Qed.

Lemma lor_disjoint_add' a b n : 0 <= n -> 0 <= a < 2 ^ n -> Z.lor (b * 2 ^ n) a = b * 2 ^ n + a.
Proof.
  intros Hn Ha. rewrite Z.lor_comm, <- (Z.shiftl_mul_pow2 b n) by assumption.
  rewrite lor_disjoint_add by assumption. rewrite Z.shiftl_mul_pow2 by assumption. lia.
Qed.

(* ---------------------------------------------------------------------------------------------
   1. Bit trees *)
Lemma bittree_gen base levels : forall sym idx rest,
  run_trace (bittree base levels idx) (enc_bittree base levels sym idx ++ rest)
  = Some (Ok (idx * 2 ^ Z.of_nat levels + sym mod 2 ^ Z.of_nat levels), rest).
Proof.
  induction levels as [|l IH]; intros sym idx rest.
  - cbn [bittree enc_bittree run_trace app]. do 3 f_equal.
    change (2 ^ Z.of_nat 0) with 1. rewrite Z.mod_1_r. lia.
  - cbn [bittree enc_bittree app].
    set (bit := Z.land (Z.shiftr sym (Z.of_nat l)) 1).
    assert (Hb : bit = (sym / 2 ^ Z.of_nat l) mod 2).
    { unfold bit. rewrite land_1_mod2, Z.shiftr_div_pow2 by lia. reflexivity. }
    assert (Hc : bit = 0 \/ bit = 1) by lia.
    rewrite run_trace_bit by assumption. rewrite IH. do 3 f_equal.
    rewrite Nat2Z.inj_succ, Z.pow_succ_r by lia.
    pose proof (pow2_pos (Z.of_nat l) ltac:(lia)) as HP.
    rewrite (Z.mul_comm 2 (2 ^ Z.of_nat l)), Z.rem_mul_r by lia. rewrite <- Hb. ring.
Qed.

Theorem bittree_roundtrip base levels sym rest :
  0 <= sym < 2 ^ Z.of_nat levels ->
  run_trace (decode_bit_tree base levels) (enc_bittree base levels sym 1 ++ rest) = Some (Ok sym, rest).
Proof.
  intros Hs. unfold decode_bit_tree.
  rewrite (run_trace_bind_ok _ _ _ _ _ (bittree_gen base levels sym 1 rest)).
  cbn [run_trace]. do 3 f_equal.
  rewrite shiftl_1_pow2 by lia. rewrite Z.mod_small by assumption. lia.
Qed.

Lemma rev_bittree_gen base levels : forall sym idx i res rest,
  0 <= i -> 0 <= res < 2 ^ i ->
  run_trace (rev_bittree base levels idx i res) (enc_rev_bittree base levels sym idx ++ rest)
  = Some (Ok (res + 2 ^ i * (sym mod 2 ^ Z.of_nat levels)), rest).
Proof.
  induction levels as [|l IH]; intros sym idx i res rest Hi Hres.
  - cbn [rev_bittree enc_rev_bittree run_trace app]. do 3 f_equal.
    change (2 ^ Z.of_nat 0) with 1. rewrite Z.mod_1_r. lia.
  - cbn [rev_bittree enc_rev_bittree app].
    set (bit := Z.land sym 1).
    assert (Hb : bit = sym mod 2) by apply land_1_mod2.
    assert (Hc : bit = 0 \/ bit = 1) by lia.
    rewrite run_trace_bit by assumption.
    rewrite lor_disjoint_add by assumption.
    pose proof (pow2_pos i Hi) as HPi.
    assert (H2 : 2 ^ (i + 1) = 2 * 2 ^ i) by (rewrite Z.pow_add_r by lia; lia).
    rewrite IH; [| lia | rewrite H2; destruct Hc as [-> | ->]; lia].
    do 3 f_equal.
    rewrite shiftr1_div2, H2, Nat2Z.inj_succ, Z.pow_succ_r by lia.
    pose proof (pow2_pos (Z.of_nat l) ltac:(lia)) as HP.
    rewrite (Z.rem_mul_r sym 2 (2 ^ Z.of_nat l)) by lia. rewrite <- Hb. ring.
Qed.

Theorem rev_bittree_roundtrip base levels sym rest :
  0 <= sym < 2 ^ Z.of_nat levels ->
  run_trace (decode_reverse_bit_tree base levels) (enc_rev_bittree base levels sym 1 ++ rest)
  = Some (Ok sym, rest).
Proof.
  intros Hs. unfold decode_reverse_bit_tree.
  rewrite rev_bittree_gen by (cbn; lia).
  do 3 f_equal. rewrite Z.mod_small by assumption. lia.
Qed.

Lemma enc_bittree_ok base levels : forall sym idx, forallb ev_ok (enc_bittree base levels sym idx) = true.
Proof.
  induction levels as [|l IH]; intros sym idx; cbn [enc_bittree forallb]; [reflexivity|].
  rewrite IH, ev_ok_bit by apply land_1_cases. reflexivity.
Qed.

Lemma enc_rev_bittree_ok base levels : forall sym idx, forallb ev_ok (enc_rev_bittree base levels sym idx) = true.
Proof.
  induction levels as [|l IH]; intros sym idx; cbn [enc_rev_bittree forallb]; [reflexivity|].
  rewrite IH, ev_ok_bit by apply land_1_cases. reflexivity.
Qed.

(* ---------------------------------------------------------------------------------------------
   2. Lengths *)
Lemma key2_ok base rows cols i j :
  0 <= i < rows -> 0 <= j < cols -> key2 base rows cols i j = Ok (base + i * cols + j).
Proof.
  intros Hi Hj. unfold key2.
  destruct (Z.ltb_spec i 0), (Z.leb_spec rows i), (Z.ltb_spec j 0), (Z.leb_spec cols j); try lia.
  reflexivity.
Qed.

Lemma key2_inv base rows cols i j k :
  key2 base rows cols i j = Ok k -> 0 <= i < rows /\ 0 <= j < cols /\ k = base + i * cols + j.
Proof.
  unfold key2.
  destruct (Z.ltb_spec i 0) as [Ha|Ha], (Z.leb_spec rows i) as [Hb|Hb], (Z.ltb_spec j 0) as [Hc|Hc],
    (Z.leb_spec cols j) as [Hd|Hd]; cbn [orb]; intros HK; inversion HK; lia.
Qed.

Lemma key1_ok base len i : 0 <= i < len -> key1 base len i = Ok (base + i).
Proof.
  intros Hi. unfold key1. destruct (Z.ltb_spec i 0), (Z.leb_spec len i); try lia. reflexivity.
Qed.

Lemma key1_inv base len i k : key1 base len i = Ok k -> 0 <= i < len /\ k = base + i.
Proof.
  unfold key1. destruct (Z.ltb_spec i 0) as [Ha|Ha], (Z.leb_spec len i) as [Hb|Hb]; cbn [orb];
    intros HK; inversion HK; lia.
Qed.

(* whatever enc_len accepts is read back; no side conditions *)
Lemma len_roundtrip_of_ok base len ps evs rest :
  enc_len base len ps = Ok evs ->
  2 <= len <= 273 /\ run_trace (decode_len base ps) (evs ++ rest) = Some (Ok len, rest).
Proof.
  unfold enc_len, decode_len. intros H.
  destruct (Z.ltb_spec (len - 2) 0) as [|H0]; [discriminate|].
  destruct (Z.ltb_spec (len - 2) 8) as [H8|H8].
  { destruct (key2 (base + 2) 16 8 ps 0) as [low| | |] eqn:K; cbn [obind] in H; try discriminate.
    apply Ok_inj in H; subst evs. split; [lia|].
    cbn [app]. rewrite run_trace_bit by (left; reflexivity). cbn [Z.eqb].
    rewrite run_trace_bind_lift_ok.
    rewrite (run_trace_bind_ok _ _ _ _ _ (bittree_roundtrip low 3 (len - 2) rest ltac:(cbn; lia))).
    cbn [run_trace]. do 3 f_equal. lia. }
  destruct (Z.ltb_spec (len - 2) 16) as [H16|H16].
  { destruct (key2 (base + 130) 16 8 ps 0) as [mid| | |] eqn:K; cbn [obind] in H; try discriminate.
    apply Ok_inj in H; subst evs. split; [lia|].
    cbn [app]. rewrite run_trace_bit by (right; reflexivity). cbn [Z.eqb Pos.eqb].
    rewrite run_trace_bit by (left; reflexivity). cbn [Z.eqb].
    rewrite run_trace_bind_lift_ok.
    rewrite (run_trace_bind_ok _ _ _ _ _ (bittree_roundtrip mid 3 (len - 2 - 8) rest ltac:(cbn; lia))).
    cbn [run_trace]. do 3 f_equal. lia. }
  destruct (Z.ltb_spec (len - 2) 272) as [H272|H272]; [|discriminate].
  apply Ok_inj in H; subst evs. split; [lia|].
  cbn [app]. rewrite run_trace_bit by (right; reflexivity). cbn [Z.eqb Pos.eqb].
  rewrite run_trace_bit by (right; reflexivity). cbn [Z.eqb Pos.eqb].
  rewrite (run_trace_bind_ok _ _ _ _ _ (bittree_roundtrip (base + 258) 8 (len - 2 - 16) rest ltac:(cbn; lia))).
  cbn [run_trace]. do 3 f_equal. lia.
Qed.

Lemma enc_len_total base len ps :
  2 <= len <= 273 -> 0 <= ps < 16 -> exists evs, enc_len base len ps = Ok evs.
Proof.
  intros Hl Hp. unfold enc_len.
  destruct (Z.ltb_spec (len - 2) 0); [lia|].
  destruct (Z.ltb_spec (len - 2) 8).
  { rewrite key2_ok by lia. cbn [obind]. eauto. }
  destruct (Z.ltb_spec (len - 2) 16).
  { rewrite key2_ok by lia. cbn [obind]. eauto. }
  destruct (Z.ltb_spec (len - 2) 272); [eauto | lia].
Qed.

Theorem len_roundtrip base len ps rest :
  2 <= len <= 273 -> 0 <= ps < 16 ->
  exists evs, enc_len base len ps = Ok evs /\
    run_trace (decode_len base ps) (evs ++ rest) = Some (Ok len, rest).
Proof.
  intros Hl Hp. destruct (enc_len_total base len ps Hl Hp) as [evs He].
  exists evs. split; [assumption|]. apply (len_roundtrip_of_ok base len ps evs rest He).
Qed.

Lemma enc_len_events_ok base len ps evs : enc_len base len ps = Ok evs -> forallb ev_ok evs = true.
Proof.
  unfold enc_len. intros H.
  destruct (len - 2 <? 0); [discriminate|].
  destruct (len - 2 <? 8).
  { destruct (key2 (base + 2) 16 8 ps 0); cbn [obind] in H; try discriminate.
    apply Ok_inj in H; subst evs. cbn [forallb]. rewrite enc_bittree_ok. reflexivity. }
  destruct (len - 2 <? 16).
  { destruct (key2 (base + 130) 16 8 ps 0); cbn [obind] in H; try discriminate.
    apply Ok_inj in H; subst evs. cbn [forallb]. rewrite enc_bittree_ok. reflexivity. }
  destruct (len - 2 <? 272); [|discriminate].
  apply Ok_inj in H; subst evs. cbn [forallb]. rewrite enc_bittree_ok. reflexivity.
Qed.

(* ---------------------------------------------------------------------------------------------
   5. Literals.  The table offset [lbase] is additive and factored out; the walk itself is checked
   for every (byte, match byte) pair. *)
Definition shift_ev (d : Z) (ev : event) : event :=
  match ev with
  | EBit k b => EBit (d + k) b
  | EDirect n v => EDirect n v
  end.

Lemma enc_lit_matched_shift lbase n : forall m off s,
  enc_lit_matched lbase n m off s = map (shift_ev lbase) (enc_lit_matched 0 n m off s).
Proof.
  induction n as [|k IH]; intros m off s; cbn [enc_lit_matched map shift_ev]; [reflexivity|].
  rewrite IH, Z.add_0_l. reflexivity.
Qed.

Lemma enc_lit_normal_shift lbase n : forall s,
  enc_lit_normal lbase n s = map (shift_ev lbase) (enc_lit_normal 0 n s).
Proof.
  induction n as [|k IH]; intros s; cbn [enc_lit_normal map shift_ev]; [reflexivity|].
  rewrite IH, Z.add_0_l. reflexivity.
Qed.

Lemma lit_matched_shift lbase n : forall m off s evs r rest,
  run_trace (lit_matched 0 n m off s) evs = Some (Ok r, []) ->
  run_trace (lit_matched lbase n m off s) (map (shift_ev lbase) evs ++ rest) = Some (Ok r, rest).
Proof.
  induction n as [|k IH]; intros m off s evs r rest H; cbn [lit_matched run_trace] in H |- *.
  - injection H as <- ->. reflexivity.
  - destruct evs as [|[key' b | n' v] tl]; try discriminate.
    destruct ((0 + (off + Z.land (wrap32 (m * 2)) off + s) =? key') && ((b =? 0) || (b =? 1))) eqn:E;
      [|discriminate].
    apply andb_true_iff in E as [E1 E2]. apply Z.eqb_eq in E1. rewrite Z.add_0_l in E1. subst key'.
    cbn [map shift_ev app]. rewrite Z.eqb_refl, E2. cbn [andb].
    apply IH, H.
Qed.

Lemma bittree_shift lbase n : forall s evs r rest,
  run_trace (bittree 0 n s) evs = Some (Ok r, []) ->
  run_trace (bittree lbase n s) (map (shift_ev lbase) evs ++ rest) = Some (Ok r, rest).
Proof.
  induction n as [|k IH]; intros s evs r rest H; cbn [bittree run_trace] in H |- *.
  - injection H as <- ->. reflexivity.
  - destruct evs as [|[key' b | n' v] tl]; try discriminate.
    destruct ((0 + s =? key') && ((b =? 0) || (b =? 1))) eqn:E; [|discriminate].
    apply andb_true_iff in E as [E1 E2]. apply Z.eqb_eq in E1. rewrite Z.add_0_l in E1. subst key'.
    cbn [map shift_ev app]. rewrite Z.eqb_refl, E2. cbn [andb].
    apply IH, H.
Qed.

Definition lit_chk_res (r : option (outcome Z * list event)) (b : Z) : bool :=
  match r with
  | Some (Ok s, []) => s =? 256 + b
  | _ => false
  end.

Lemma lit_chk_res_inv r b : lit_chk_res r b = true -> r = Some (Ok (256 + b), []).
Proof.
  unfold lit_chk_res. destruct r as [[[s| | |] [|e l]]|]; try discriminate.
  intros H. apply Z.eqb_eq in H. subst s. reflexivity.
Qed.

Definition lit_matched_chk (b m : Z) : bool :=
  lit_chk_res (run_trace (lit_matched 0 8 m 256 1) (enc_lit_matched 0 8 m 256 (Z.lor b 256))) b.
Definition lit_normal_chk (b : Z) : bool :=
  lit_chk_res (run_trace (bittree 0 8 1) (enc_lit_normal 0 8 (Z.lor b 256))) b.
Definition lit_chk_row (b : Z) : bool :=
  lit_normal_chk b && forallb (lit_matched_chk b) (zrange 0 256).

(* finite domain: 256 bytes x (no match byte + 256 match bytes), enumerated *)
Lemma lit_sweep : forallb lit_chk_row (zrange 0 256) = true.
Proof. vm_compute. reflexivity. Qed.

Theorem lit_roundtrip_strong lbase mb b rest :
  0 <= b < 256 -> (mb = None \/ exists m, mb = Some m /\ 0 <= m < 256) ->
  run_trace (lit_prog lbase mb) (lit_events lbase mb b ++ rest) = Some (Ok (256 + b), rest).
Proof.
  intros Hb Hm. pose proof lit_sweep as S. rewrite forallb_forall in S.
  specialize (S b (in_zrange 0 256 b ltac:(lia))). unfold lit_chk_row in S.
  apply andb_true_iff in S as [Sn Sm].
  destruct Hm as [-> | (m & -> & Hm)]; unfold lit_prog, lit_events.
  - rewrite enc_lit_normal_shift. apply bittree_shift.
    apply lit_chk_res_inv, Sn.
  - rewrite forallb_forall in Sm. specialize (Sm m (in_zrange 0 256 m ltac:(lia))).
    rewrite enc_lit_matched_shift. apply lit_matched_shift.
    apply lit_chk_res_inv, Sm.
Qed.

Theorem lit_roundtrip lbase mb b rest :
  0 <= b < 256 -> (mb = None \/ exists m, mb = Some m /\ 0 <= m < 256) ->
  exists sym, run_trace (lit_prog lbase mb) (lit_events lbase mb b ++ rest) = Some (Ok sym, rest) /\
              wrap8 sym = b.
Proof.
  intros Hb Hm. exists (256 + b). split; [apply lit_roundtrip_strong; assumption|].
  unfold wrap8. lia.
Qed.

Lemma enc_lit_matched_ok lbase n : forall m off s, forallb ev_ok (enc_lit_matched lbase n m off s) = true.
Proof.
  induction n as [|k IH]; intros m off s; cbn [enc_lit_matched forallb]; [reflexivity|].
  rewrite IH, ev_ok_bit by apply land_1_cases. reflexivity.
Qed.

Lemma enc_lit_normal_ok lbase n : forall s, forallb ev_ok (enc_lit_normal lbase n s) = true.
Proof.
  induction n as [|k IH]; intros s; cbn [enc_lit_normal forallb]; [reflexivity|].
  rewrite IH, ev_ok_bit by apply land_1_cases. reflexivity.
Qed.

Theorem lit_events_ok lbase mb b : forallb ev_ok (lit_events lbase mb b) = true.
Proof. destruct mb; [apply enc_lit_matched_ok | apply enc_lit_normal_ok]. Qed.

(* ---------------------------------------------------------------------------------------------
   4. Repeated matches *)
Theorem rep_roundtrip_of_ok c ps idx len evs c' rest :
  enc_rep_events c ps idx len = Ok (evs, c') ->
  run_trace (decode_rep_match c ps) (evs ++ rest) = Some (Ok (c', len), rest).
Proof.
  unfold enc_rep_events, decode_rep_match. cbv zeta. intros H.
  destruct (key1 K_IS_REP0 12 (c_state c)) as [k0| | |]; cbn [obind] in H; try discriminate.
  rewrite run_trace_bind_lift_ok.
  destruct (Z.eqb_spec idx 0) as [Hi0|Hi0].
  - destruct (key2 K_IS_REP0_LONG 12 16 (c_state c) ps) as [k0l| | |]; cbn [obind] in H; try discriminate.
    destruct (Z.eqb_spec len 1) as [Hl1|Hl1].
    + apply Ok_inj in H. injection H as <- <-. subst len. cbn [app].
      rewrite run_trace_bit by (left; reflexivity). cbn [Z.eqb].
      rewrite run_trace_bind_lift_ok.
      rewrite run_trace_bit by (left; reflexivity). cbn [Z.eqb]. reflexivity.
    + destruct (enc_len K_REP_LEN len ps) as [elen| | |] eqn:EL; cbn [obind] in H; try discriminate.
      apply Ok_inj in H. injection H as <- <-. cbn [app].
      rewrite run_trace_bit by (left; reflexivity). cbn [Z.eqb].
      rewrite run_trace_bind_lift_ok.
      rewrite run_trace_bit by (right; reflexivity). cbn [Z.eqb Pos.eqb].
      rewrite (run_trace_bind_ok _ _ _ _ _ (proj2 (len_roundtrip_of_ok _ _ _ _ rest EL))).
      reflexivity.
  - destruct ((idx <? 0) || (3 <? idx) || (len =? 1)); [discriminate|].
    destruct (key1 K_IS_REP1 12 (c_state c)) as [k1| | |]; cbn [obind] in H; try discriminate.
    destruct (key1 K_IS_REP2 12 (c_state c)) as [k2| | |]; cbn [obind] in H; try discriminate.
    destruct (idx =? 1); [|destruct (idx =? 2)];
      (destruct (enc_len K_REP_LEN len ps) as [elen| | |] eqn:EL; cbn [obind] in H; try discriminate);
      apply Ok_inj in H; injection H as <- <-; cbn [app].
    + rewrite run_trace_bit by (right; reflexivity). cbn [Z.eqb Pos.eqb].
      rewrite run_trace_bind_lift_ok.
      rewrite run_trace_bit by (left; reflexivity). cbn [Z.eqb pbind].
      rewrite (run_trace_bind_ok _ _ _ _ _ (proj2 (len_roundtrip_of_ok _ _ _ _ rest EL))).
      reflexivity.
    + rewrite run_trace_bit by (right; reflexivity). cbn [Z.eqb Pos.eqb].
      rewrite run_trace_bind_lift_ok.
      rewrite run_trace_bit by (right; reflexivity). cbn [Z.eqb Pos.eqb pbind lift].
      rewrite run_trace_bit by (left; reflexivity). cbn [Z.eqb pbind].
      rewrite (run_trace_bind_ok _ _ _ _ _ (proj2 (len_roundtrip_of_ok _ _ _ _ rest EL))).
      reflexivity.
    + rewrite run_trace_bit by (right; reflexivity). cbn [Z.eqb Pos.eqb].
      rewrite run_trace_bind_lift_ok.
      rewrite run_trace_bit by (right; reflexivity). cbn [Z.eqb Pos.eqb pbind lift].
      rewrite run_trace_bit by (right; reflexivity). cbn [Z.eqb Pos.eqb pbind].
      rewrite (run_trace_bind_ok _ _ _ _ _ (proj2 (len_roundtrip_of_ok _ _ _ _ rest EL))).
      reflexivity.
Qed.

(* the statement as requested (the range hypotheses are not needed: enc_rep_events checks the keys) *)
Theorem rep_roundtrip c ps idx len evs c' rest :
  0 <= c_state c < 12 -> 0 <= ps < 16 ->
  enc_rep_events c ps idx len = Ok (evs, c') ->
  run_trace (decode_rep_match c ps) (evs ++ rest) = Some (Ok (c', len), rest).
Proof. intros _ _. apply rep_roundtrip_of_ok. Qed.

(* what enc_rep_events accepts *)
Lemma enc_rep_events_inv c ps idx len evs c' :
  enc_rep_events c ps idx len = Ok (evs, c') ->
  0 <= c_state c < 12 /\ 0 <= idx <= 3 /\ ((idx = 0 /\ len = 1 /\ 0 <= ps < 16) \/ 2 <= len <= 273).
Proof.
  unfold enc_rep_events. intros H.
  destruct (key1 K_IS_REP0 12 (c_state c)) as [k0| | |] eqn:K0; cbn [obind] in H; try discriminate.
  apply key1_inv in K0 as [Hs _]. split; [assumption|].
  destruct (Z.eqb_spec idx 0) as [Hi0|Hi0].
  - split; [lia|].
    destruct (key2 K_IS_REP0_LONG 12 16 (c_state c) ps) as [k0l| | |] eqn:K0L; cbn [obind] in H; try discriminate.
    apply key2_inv in K0L as (_ & Hps & _).
    destruct (Z.eqb_spec len 1) as [Hl1|Hl1]; [left; lia|].
    destruct (enc_len K_REP_LEN len ps) as [elen| | |] eqn:EL; cbn [obind] in H; try discriminate.
    right. apply (len_roundtrip_of_ok _ _ _ _ [] EL).
  - destruct (Z.ltb_spec idx 0) as [Ha|Ha]; [discriminate|].
    destruct (Z.ltb_spec 3 idx) as [Hb|Hb]; [discriminate|].
    destruct (len =? 1); [discriminate|]. cbn [orb] in H.
    destruct (key1 K_IS_REP1 12 (c_state c)) as [k1| | |]; cbn [obind] in H; try discriminate.
    destruct (key1 K_IS_REP2 12 (c_state c)) as [k2| | |]; cbn [obind] in H; try discriminate.
    split; [lia|]. right.
    destruct (idx =? 1); [|destruct (idx =? 2)];
      (destruct (enc_len K_REP_LEN len ps) as [elen| | |] eqn:EL; cbn [obind] in H; try discriminate);
      apply (len_roundtrip_of_ok _ _ _ _ [] EL).
Qed.

Theorem rep_events_ok c ps idx len evs c' :
  enc_rep_events c ps idx len = Ok (evs, c') -> forallb ev_ok evs = true.
Proof.
  unfold enc_rep_events. intros H.
  destruct (key1 K_IS_REP0 12 (c_state c)) as [k0| | |]; cbn [obind] in H; try discriminate.
  destruct (idx =? 0).
  - destruct (key2 K_IS_REP0_LONG 12 16 (c_state c) ps) as [k0l| | |]; cbn [obind] in H; try discriminate.
    destruct (len =? 1).
    + apply Ok_inj in H. injection H as <- <-. reflexivity.
    + destruct (enc_len K_REP_LEN len ps) as [elen| | |] eqn:EL; cbn [obind] in H; try discriminate.
      apply Ok_inj in H. injection H as <- <-. cbn [forallb ev_ok Z.eqb Pos.eqb orb andb].
      apply (enc_len_events_ok _ _ _ _ EL).
  - destruct ((idx <? 0) || (3 <? idx) || (len =? 1)); [discriminate|].
    destruct (key1 K_IS_REP1 12 (c_state c)) as [k1| | |]; cbn [obind] in H; try discriminate.
    destruct (key1 K_IS_REP2 12 (c_state c)) as [k2| | |]; cbn [obind] in H; try discriminate.
    destruct (idx =? 1); [|destruct (idx =? 2)];
      (destruct (enc_len K_REP_LEN len ps) as [elen| | |] eqn:EL; cbn [obind] in H; try discriminate);
      apply Ok_inj in H; injection H as <- <-; cbn [app forallb ev_ok Z.eqb Pos.eqb orb andb];
      apply (enc_len_events_ok _ _ _ _ EL).
Qed.

(* ---------------------------------------------------------------------------------------------
   3. Distances *)
Theorem dist_slot_spec dist : 0 <= dist < 2 ^ 32 ->
  0 <= get_dist_slot dist < 64 /\
  (dist < 4 -> get_dist_slot dist = dist) /\
  (4 <= dist ->
     1 <= get_dist_slot dist / 2 - 1 <= 30 /\
     (2 + get_dist_slot dist mod 2) * 2 ^ (get_dist_slot dist / 2 - 1) <= dist
       < (2 + get_dist_slot dist mod 2 + 1) * 2 ^ (get_dist_slot dist / 2 - 1)).
Proof.
  intros Hd. unfold get_dist_slot.
  destruct (Z.leb_spec dist 4) as [H4|H4].
  - split; [lia|]. split; [reflexivity|]. intros H. assert (dist = 4) as -> by lia.
    change (4 / 2 - 1) with 1. change (4 mod 2) with 0. change (2 ^ 1) with 2. lia.
  - cbv zeta. set (i := Z.log2 dist).
    pose proof (Z.log2_spec dist ltac:(lia)) as HL. fold i in HL.
    assert (Hi2 : 2 <= i). { apply (Z.log2_le_pow2 dist 2); [lia | change (2 ^ 2) with 4; lia]. }
    assert (Hi32 : i < 32). { apply (Z.log2_lt_pow2 dist 32); lia. }
    clearbody i.
    set (P := 2 ^ (i - 1)).
    assert (HPpos : 0 < P) by (apply pow2_pos; lia).
    assert (HPi : 2 ^ i = 2 * P). { unfold P. rewrite <- Z.pow_succ_r by lia. f_equal; lia. }
    assert (HPs : 2 ^ Z.succ i = 4 * P). { rewrite Z.pow_succ_r by lia. lia. }
    rewrite HPi, HPs in HL.
    rewrite land_1_mod2, Z.shiftr_div_pow2 by lia. fold P.
    assert (Hq : 2 <= dist / P < 4).
    { split; [apply Z.div_le_lower_bound; lia | apply Z.div_lt_upper_bound; lia]. }
    assert (Hqr : P * (dist / P) <= dist < P * (dist / P) + P).
    { pose proof (Z.div_mod dist P ltac:(lia)) as E.
      pose proof (Z.mod_pos_bound dist P HPpos) as B. lia. }
    set (q := dist / P) in *. clearbody q.
    assert (Hs2 : (2 * i + q mod 2) / 2 = i) by lia.
    assert (Hm2 : (2 * i + q mod 2) mod 2 = q - 2) by lia.
    rewrite Hs2, Hm2. fold P. clearbody P.
    split; [lia|]. split; [lia|]. intros _. split; [lia|].
    assert (q = 2 \/ q = 3) as [-> | ->] by lia; lia.
Qed.

Lemma lor_2_bit b : b = 0 \/ b = 1 -> Z.lor 2 b = 2 + b.
Proof. intros [-> | ->]; reflexivity. Qed.

Lemma land_15_mod16 x : Z.land x 15 = x mod 16.
Proof. apply (Z.land_ones x 4). lia. Qed.

Lemma wrap32_small x : 0 <= x < 2 ^ 32 -> wrap32 x = x.
Proof. intros H. unfold wrap32. apply Z.mod_small. lia. Qed.

Lemma pow2_le_mono a b : 0 <= a <= b -> 2 ^ a <= 2 ^ b.
Proof. intros H. apply Z.pow_le_mono_r; lia. Qed.

(* footer of a distance with slot 4..13: reverse bit tree of all footer bits *)
Lemma footer_small B fb hi dr rest : 0 <= fb -> 0 <= dr < 2 ^ fb ->
  run_trace (bind x <- decode_reverse_bit_tree B (Z.to_nat fb); Ret (Z.lor (hi * 2 ^ fb) x))
            (enc_rev_bittree B (Z.to_nat fb) dr 1 ++ rest)
  = Some (Ok (hi * 2 ^ fb + dr), rest).
Proof.
  intros Hfb Hdr.
  rewrite (run_trace_bind_ok _ _ _ dr rest).
  - cbn [run_trace]. rewrite lor_disjoint_add' by assumption. reflexivity.
  - apply rev_bittree_roundtrip. rewrite Z2Nat.id by assumption. assumption.
Qed.

(* footer of a distance with slot >= 14: direct bits, then 4 aligned bits in a reverse bit tree *)
Lemma footer_large fb hi dr rest : 4 <= fb <= 30 -> 0 <= dr < 2 ^ fb ->
  run_trace (Direct (Z.to_nat (fb - 4)) (fun v =>
               bind x <- decode_reverse_bit_tree K_DIST_ALIGN 4;
               Ret (Z.lor (Z.lor (hi * 2 ^ fb) (wrap32 (Z.shiftl v 4))) x)))
            (EDirect (Z.to_nat (fb - 4)) (Z.shiftr dr 4)
               :: enc_rev_bittree K_DIST_ALIGN 4 (Z.land dr 15) 1 ++ rest)
  = Some (Ok (hi * 2 ^ fb + dr), rest).
Proof.
  intros Hfb Hdr. rewrite run_trace_direct.
  rewrite land_15_mod16, (Z.shiftr_div_pow2 dr 4) by lia. change (2 ^ 4) with 16.
  rewrite (run_trace_bind_ok _ _ _ (dr mod 16) rest)
    by (apply rev_bittree_roundtrip; change (2 ^ Z.of_nat 4) with 16; lia).
  cbn [run_trace]. do 3 f_equal.
  pose proof (pow2_le_mono fb 30 ltac:(lia)) as H30. change (2 ^ 30) with 1073741824 in H30.
  rewrite Z.shiftl_mul_pow2 by lia. change (2 ^ 4) with 16.
  rewrite wrap32_small by lia.
  assert (E : 2 ^ fb = 2 ^ (fb - 4) * 2 ^ 4).
  { rewrite <- Z.pow_add_r by lia. f_equal. lia. }
  rewrite (lor_disjoint_add' (dr / 16 * 16) hi fb) by lia.
  replace (hi * 2 ^ fb + dr / 16 * 16) with ((hi * 2 ^ (fb - 4) + dr / 16) * 2 ^ 4)
    by (rewrite E; change (2 ^ 4) with 16; ring).
  rewrite lor_disjoint_add' by (change (2 ^ 4) with 16; lia).
  rewrite E. change (2 ^ 4) with 16. 
  pose proof (Z.div_mod dr 16 ltac:(lia)) as DM. 
  transitivity (hi * (2 ^ (fb - 4) * 16) + (16 * (dr / 16) + dr mod 16)); [ring | rewrite <- DM; reflexivity].
Qed.

Lemma pair_inj {A B} (a a' : A) (b b' : B) : (a, b) = (a', b') -> a = a' /\ b = b'.
Proof. intros H; split; congruence. Qed.

(* the quantities both sides derive from the slot of a distance >= 4 *)
Lemma dist_footer_facts dist : 4 <= dist < 2 ^ 32 ->
  let slot := get_dist_slot dist in
  let fb := slot / 2 - 1 in
  let hi := 2 + slot mod 2 in
  4 <= slot < 64 /\ 1 <= fb <= 30 /\
  Z.shiftr slot 1 - 1 = fb /\
  wrap32 (Z.shiftl (Z.lor 2 (Z.land slot 1)) fb) = hi * 2 ^ fb /\
  wrap32 (dist - hi * 2 ^ fb) = dist - hi * 2 ^ fb /\
  0 <= dist - hi * 2 ^ fb < 2 ^ fb /\
  (slot < 14 -> fb <= 5) /\ (14 <= slot -> 6 <= fb).
Proof.
  intros Hd. cbv zeta.
  destruct (dist_slot_spec dist ltac:(lia)) as (Hs & _ & Hhi). specialize (Hhi ltac:(lia)).
  destruct Hhi as (Hfb & Hlo).
  set (slot := get_dist_slot dist) in *. clearbody slot.
  set (fb := slot / 2 - 1) in *.
  assert (Hm : slot mod 2 = 0 \/ slot mod 2 = 1) by lia.
  assert (Hfbd : fb = slot / 2 - 1) by reflexivity. clearbody fb.
  pose proof (pow2_pos fb ltac:(lia)) as HP.
  pose proof (pow2_le_mono fb 30 ltac:(lia)) as H30. change (2 ^ 30) with 1073741824 in H30.
  split; [lia|]. split; [lia|].
  split; [rewrite shiftr1_div2; lia|].
  rewrite land_1_mod2, lor_2_bit by assumption.
  rewrite Z.shiftl_mul_pow2 by lia.
  split; [apply wrap32_small; destruct Hm as [Hm | Hm]; rewrite Hm in *; lia|].
  split; [apply wrap32_small; destruct Hm as [Hm | Hm]; rewrite Hm in *; lia|].
  split; [destruct Hm as [Hm | Hm]; rewrite Hm in *; lia|].
  split; lia.
Qed.

Theorem match_roundtrip c ps dist len evs c' rest :
  0 <= dist < 2 ^ 32 -> 2 <= len <= 273 -> 0 <= ps < 16 ->
  enc_match_events c ps dist len = Ok (evs, c') ->
  run_trace (decode_match c ps) (evs ++ rest) = Some (Ok (c', len), rest).
Proof.
  intros Hd Hl Hp H. unfold enc_match_events in H. unfold decode_match. cbv zeta in H |- *.
  destruct (enc_len K_MATCH_LEN len ps) as [elen| | |] eqn:EL; cbn [obind] in H; try discriminate.
  destruct (key2 K_DIST_SLOTS 4 64 (dist_state_of_len len) 0) as [dsk| | |] eqn:KD;
    cbn [obind] in H; try discriminate.
  apply Ok_inj, pair_inj in H. destruct H as [<- <-].
  rewrite <- !app_assoc.
  rewrite (run_trace_bind_ok _ _ _ _ _ (proj2 (len_roundtrip_of_ok _ _ _ _ _ EL))).
  cbv beta. rewrite KD. rewrite run_trace_bind_lift_ok.
  destruct (dist_slot_spec dist Hd) as (Hs & Hlow & _).
  rewrite (run_trace_bind_ok _ _ _ _ _
             (bittree_roundtrip dsk 6 (get_dist_slot dist) _ ltac:(change (2 ^ Z.of_nat 6) with 64; lia))).
  erewrite run_trace_bind_ok; [reflexivity|].
  destruct (Z.lt_ge_cases dist 4) as [Hd4|Hd4].
  - rewrite (Hlow Hd4). destruct (Z.ltb_spec dist 4); [|lia]. reflexivity.
  - destruct (dist_footer_facts dist ltac:(lia)) as (Hs4 & Hfb & Esh & Er & Edr & Hdr & Hsm & Hlg).
    set (slot := get_dist_slot dist) in *. clearbody slot.
    destruct (Z.ltb_spec slot 4); [lia|].
    rewrite Esh, Er, Edr.
    set (fb := slot / 2 - 1) in *. clearbody fb.
    set (hi := 2 + slot mod 2) in *. clearbody hi.
    destruct (Z.ltb_spec slot 14).
    + rewrite footer_small by lia. do 3 f_equal. lia.
    + cbn [app]. rewrite footer_large by lia. do 3 f_equal. lia.
Qed.

Theorem match_events_ok c ps dist len evs c' :
  0 <= dist < 2 ^ 32 ->
  enc_match_events c ps dist len = Ok (evs, c') -> forallb ev_ok evs = true.
Proof.
  intros Hd H. unfold enc_match_events in H. cbv zeta in H.
  destruct (enc_len K_MATCH_LEN len ps) as [elen| | |] eqn:EL; cbn [obind] in H; try discriminate.
  destruct (key2 K_DIST_SLOTS 4 64 (dist_state_of_len len) 0) as [dsk| | |] eqn:KD;
    cbn [obind] in H; try discriminate.
  apply Ok_inj, pair_inj in H. destruct H as [<- <-].
  apply forallb_app_true; [apply (enc_len_events_ok _ _ _ _ EL)|].
  apply forallb_app_true; [apply enc_bittree_ok|].
  destruct (Z.ltb_spec (get_dist_slot dist) 4) as [Hs4|Hs4]; [reflexivity|].
  destruct (Z.ltb_spec (get_dist_slot dist) 14) as [Hs14|Hs14]; [apply enc_rev_bittree_ok|].
  assert (Hd4 : 4 <= dist).
  { destruct (Z.lt_ge_cases dist 4) as [L|G]; [|assumption].
    destruct (dist_slot_spec dist Hd) as (_ & Hlow & _). rewrite (Hlow L) in Hs4. lia. }
  destruct (dist_footer_facts dist ltac:(lia)) as (_ & Hfb & Esh & Er & Edr & Hdr & _ & Hlg).
  set (slot := get_dist_slot dist) in *. clearbody slot.
  rewrite Esh, Er, Edr.
  set (fb := slot / 2 - 1) in *. clearbody fb.
  set (hi := 2 + slot mod 2) in *. clearbody hi.
  specialize (Hlg Hs14).
  cbn [forallb]. rewrite enc_rev_bittree_ok, andb_true_r.
  unfold ev_ok. rewrite Z.shiftr_div_pow2 by lia. change (2 ^ 4) with 16.
  rewrite shiftl_1_pow2 by lia. rewrite Z2Nat.id by lia.
  assert (E : 2 ^ fb = 2 ^ (fb - 4) * 16).
  { change 16 with (2 ^ 4). rewrite <- Z.pow_add_r by lia. f_equal. lia. }
  pose proof (pow2_pos (fb - 4) ltac:(lia)) as HP.
  repeat (apply andb_true_iff; split).
  - apply Nat.leb_le. lia.
  - apply Nat.leb_le. lia.
  - apply Z.leb_le. apply Z.div_pos; lia.
  - apply Z.ltb_lt. apply Z.div_lt_upper_bound; lia.
Qed.

(* the LZMA1 end marker is an instance *)
Corollary end_marker_roundtrip c ps evs c' rest :
  0 <= ps < 16 ->
  enc_match_events c ps 4294967295 2 = Ok (evs, c') ->
  run_trace (decode_match c ps) (evs ++ rest) = Some (Ok (c', 2), rest).
Proof. intros Hp H. apply (match_roundtrip c ps 4294967295 2 evs c' rest); try assumption; lia. Qed.

(* ---------------------------------------------------------------------------------------------
   Totality of the encoder functions on their intended domain (non-vacuity of the round trips) *)
Lemma enc_match_events_total c ps dist len :
  2 <= len <= 273 -> 0 <= ps < 16 -> exists evs c', enc_match_events c ps dist len = Ok (evs, c').
Proof.
  intros Hl Hp. unfold enc_match_events.
  destruct (enc_len_total K_MATCH_LEN len ps Hl Hp) as [elen ->]. cbn [obind].
  rewrite key2_ok; [cbn [obind]; eauto | | lia].
  unfold dist_state_of_len. destruct (Z.ltb_spec len 6); lia.
Qed.

Lemma enc_rep_events_total c ps idx len :
  0 <= c_state c < 12 -> 0 <= ps < 16 ->
  (idx = 0 /\ len = 1) \/ (0 <= idx <= 3 /\ 2 <= len <= 273) ->
  exists evs c', enc_rep_events c ps idx len = Ok (evs, c').
Proof.
  intros Hs Hp Hc. unfold enc_rep_events. cbv zeta.
  rewrite key1_ok by assumption. cbn [obind].
  destruct (Z.eqb_spec idx 0) as [Hi0|Hi0].
  - rewrite key2_ok by assumption. cbn [obind].
    destruct (Z.eqb_spec len 1) as [Hl1|Hl1]; [eauto|].
    destruct (enc_len_total K_REP_LEN len ps ltac:(lia) Hp) as [elen ->]. cbn [obind]. eauto.
  - destruct Hc as [Hc|[Hi Hl]]; [lia|].
    destruct (Z.ltb_spec idx 0); [lia|]. destruct (Z.ltb_spec 3 idx); [lia|].
    destruct (Z.eqb_spec len 1); [lia|]. cbn [orb].
    rewrite !key1_ok by assumption. cbn [obind].
    destruct (enc_len_total K_REP_LEN len ps Hl Hp) as [elen EL].
    destruct (idx =? 1); [|destruct (idx =? 2)]; rewrite EL; cbn [obind]; eauto.
Qed.

(* ---------------------------------------------------------------------------------------------
   6. Every event the symbol encoder produces is well formed *)
Theorem events_ok :
  (forall base len ps evs, enc_len base len ps = Ok evs -> forallb ev_ok evs = true) /\
  (forall c ps dist len evs c', 0 <= dist < 2 ^ 32 ->
     enc_match_events c ps dist len = Ok (evs, c') -> forallb ev_ok evs = true) /\
  (forall c ps idx len evs c', enc_rep_events c ps idx len = Ok (evs, c') -> forallb ev_ok evs = true) /\
  (forall lbase mb b, forallb ev_ok (lit_events lbase mb b) = true).
Proof.
  split; [exact enc_len_events_ok|]. split; [exact match_events_ok|].
  split; [exact rep_events_ok | exact lit_events_ok].
Qed.

(* element-wise form *)
Corollary events_ok_in evs ev : forallb ev_ok evs = true -> In ev evs -> ev_ok ev = true.
Proof. intros H. rewrite forallb_forall in H. apply H. Qed.

(* ---------------------------------------------------------------------------------------------
   Non-vacuity: concrete instances (the LZMA1 end marker, a long distance, a rep2, a matched literal) *)
Example end_marker_instance :
  let c := mkCoder 5 7 8 9 10 3 0 2 in
  match enc_match_events c 3 4294967295 2 with
  | Ok (evs, c') =>
      run_trace (decode_match c 3) (evs ++ [EBit 0 1]) = Some (Ok (c', 2), [EBit 0 1]) /\
      c_rep0 c' = 4294967295 /\ length evs = 15%nat
  | _ => False
  end.
Proof. vm_compute. repeat split. Qed.

Example rep2_instance :
  let c := mkCoder 8 7 8 9 10 3 0 2 in
  match enc_rep_events c 1 2 273 with
  | Ok (evs, c') =>
      run_trace (decode_rep_match c 1) (evs ++ []) = Some (Ok (c', 273), []) /\
      (c_rep0 c', c_rep1 c', c_rep2 c', c_rep3 c') = (9, 7, 8, 10)
  | _ => False
  end.
Proof. vm_compute. repeat split. Qed.

Example matched_literal_instance :
  run_trace (lit_prog 1856 (Some 0xA5)) (lit_events 1856 (Some 0xA5) 0xA7 ++ []) = Some (Ok 0x1A7, []).
Proof. vm_compute. reflexivity. Qed.

Print Assumptions run_trace_bind.
Print Assumptions run_trace_consumed.
Print Assumptions state_range.
Print Assumptions bittree_roundtrip.
Print Assumptions rev_bittree_roundtrip.
Print Assumptions len_roundtrip.
Print Assumptions lit_roundtrip.
Print Assumptions rep_roundtrip.
Print Assumptions dist_slot_spec.
Print Assumptions match_roundtrip.
Print Assumptions events_ok.
